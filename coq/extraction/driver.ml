(* xvmodel <prop-number> <cases.sx>: each line "input<TAB>observed"; runs the
   extracted model on input and prints "MISMATCH <line-index> <model output>" for
   every line whose observed value differs, then "DONE <n> <mismatches>". *)
open Xvcore
module String = Stdlib.String
module List = Stdlib.List

let z_of_int (i : int) : z =
  (* build from decimal digits with extracted arithmetic: no OCaml-int limits *)
  let rec pos_of n = if n = 1 then XH else if n land 1 = 0 then XO (pos_of (n lsr 1)) else XI (pos_of (n lsr 1)) in
  if i = 0 then Z0 else if i > 0 then Zpos (pos_of i) else Zneg (pos_of (-i))

let ten = z_of_int 10
let z_of_dec (s : Stdlib.String.t) : z =
  let neg = String.length s > 0 && s.[0] = '-' in
  let acc = ref Z0 in
  String.iteri (fun i c -> if not (neg && i = 0) then
    acc := Z.add (Z.mul !acc ten) (z_of_int (Char.code c - 48))) s;
  if neg then Z.opp !acc else !acc

let n_of_int i = Z.to_N (z_of_int i)

(* grammar: '(' items ')' | -?digits | x<hex bytes> | u<dec>.<dec>... *)
let parse (s : Stdlib.String.t) : sx =
  let n = String.length s in
  let pos = ref 0 in
  let rec item () : sx =
    while !pos < n && s.[!pos] = ' ' do incr pos done;
    if s.[!pos] = '(' then begin
      incr pos;
      let items = ref [] in
      let fin = ref false in
      while not !fin do
        while !pos < n && s.[!pos] = ' ' do incr pos done;
        if s.[!pos] = ')' then (incr pos; fin := true)
        else items := item () :: !items
      done;
      SL (List.rev !items)
    end else begin
      let st = !pos in
      while !pos < n && s.[!pos] <> ' ' && s.[!pos] <> ')' && s.[!pos] <> '(' do incr pos done;
      let tok = String.sub s st (!pos - st) in
      match tok.[0] with
      | 'x' ->
        let l = ref [] in
        let k = (String.length tok - 1) / 2 in
        for i = k - 1 downto 0 do
          l := n_of_int (int_of_string ("0x" ^ String.sub tok (1 + 2*i) 2)) :: !l
        done; SS !l
      | 'u' ->
        if String.length tok = 1 then SS [] else
        SS (List.map (fun d -> Z.to_N (z_of_dec d)) (String.split_on_char '.' (String.sub tok 1 (String.length tok - 1))))
      | _ -> SZ (z_of_dec tok)
    end in
  item ()

let rec int_of_pos = function XH -> 1 | XO p -> 2 * int_of_pos p | XI p -> 2 * int_of_pos p + 1
(* decimal printing of arbitrary Z through extracted div/mod *)
let string_of_z (z : z) : Stdlib.String.t =
  let rec go z acc =
    match z with
    | Z0 -> acc
    | _ -> let d = Z.modulo z ten in
           let c = (match d with Z0 -> 0 | Zpos p -> int_of_pos p | Zneg _ -> 0) in
           go (Z.div z ten) (string_of_int c ^ acc) in
  match z with
  | Z0 -> "0"
  | Zpos _ -> go z ""
  | Zneg p -> "-" ^ go (Zpos p) ""
let string_of_n = function N0 -> "0" | Npos p -> string_of_z (Zpos p)

let rec print (b : Buffer.t) (x : sx) : unit =
  match x with
  | SZ z -> Buffer.add_string b (string_of_z z)
  | SS l -> Buffer.add_char b 'u';
    List.iteri (fun i c -> if i > 0 then Buffer.add_char b '.'; Buffer.add_string b (string_of_n c)) l
  | SL l -> Buffer.add_char b '(';
    List.iteri (fun i y -> if i > 0 then Buffer.add_char b ' '; print b y) l;
    Buffer.add_char b ')'

let () =
  let prop = z_of_dec Sys.argv.(1) in
  let run = dispatch prop in
  let ic = open_in Sys.argv.(2) in
  let idx = ref 0 and bad = ref 0 in
  (try while true do
    let line = input_line ic in
    (match String.index_opt line '\t' with
     | None -> ()
     | Some t ->
       let inp = parse (String.sub line 0 t) in
       let obs = parse (String.sub line (t+1) (String.length line - t - 1)) in
       let m = run inp in
       if not (sx_eqb m obs) then begin
         incr bad;
         let b = Buffer.create 256 in print b m;
         Printf.printf "MISMATCH %d %s\n" !idx (Buffer.contents b)
       end);
    incr idx
  done with End_of_file -> ());
  Printf.printf "DONE %d %d\n" !idx !bad
