(* Extraction of the executable models for the volume correspondence runner.
   ExtrOcamlBasic only (bool, option, unit, list, prod, sumbool, sumor mapped to
   their OCaml counterparts); N/Z/positive stay Coq binary numbers; no Extract
   Constant.  Run with coqc from the output directory. *)
From Coq Require Import Extraction ExtrOcamlBasic ZArith NArith.
From XV Require Import Lib.Sx Corr.RunAll.
Extraction Language OCaml.
Extraction "xvcore.ml" sx_eqb Z.add Z.mul Z.opp Z.of_N N.of_nat Z.to_N Z.leb
  Z.ltb Z.div Z.modulo Z.eqb Z.sub N.add N.mul RunAll.dispatch.
