(* Universal observable values: what the Go harness reports and what each
   model's [run] function produces.  Correspondence = boolean equality. *)
From Coq Require Import List ZArith NArith Bool.
Import ListNotations.

Definition str := list N.

Inductive sx : Type :=
| SZ (z : Z)
| SS (s : str)
| SL (l : list sx).

Fixpoint str_eqb (a b : str) : bool :=
  match a, b with
  | [], [] => true
  | x :: a', y :: b' => N.eqb x y && str_eqb a' b'
  | _, _ => false
  end.

Fixpoint sx_eqb (a b : sx) {struct a} : bool :=
  match a, b with
  | SZ x, SZ y => Z.eqb x y
  | SS x, SS y => str_eqb x y
  | SL x, SL y =>
      (fix go (l1 l2 : list sx) {struct l1} : bool :=
         match l1, l2 with
         | [], [] => true
         | u :: l1', v :: l2' => sx_eqb u v && go l1' l2'
         | _, _ => false
         end) x y
  | _, _ => false
  end.

(* Case files write strings as lists of Z numerals (one numeral scope). *)
Definition s_ (l : list Z) : str := map Z.to_N l.
Definition SB (b : bool) : sx := SZ (if b then 1 else 0).
Definition SN (n : N) : sx := SZ (Z.of_N n).
Definition Snat (n : nat) : sx := SZ (Z.of_nat n).
Definition SO {A} (f : A -> sx) (o : option A) : sx :=
  match o with None => SL [] | Some a => SL [f a] end.

(* mismatching cases: index and what the model says *)
Fixpoint mismatches_from {I} (run : I -> sx) (i : nat) (cs : list (I * sx))
  : list (nat * sx) :=
  match cs with
  | [] => []
  | (inp, obs) :: cs' =>
      let m := run inp in
      if sx_eqb m obs then mismatches_from run (S i) cs'
      else (i, m) :: mismatches_from run (S i) cs'
  end.
Definition mismatches {I} (run : I -> sx) cs := mismatches_from run 0 cs.

(* ---- decoding helpers for the correspondence glue (Corr/Run*.v) ---- *)
Definition as_z (x : sx) : option Z := match x with SZ z => Some z | _ => None end.
Definition as_s (x : sx) : option str := match x with SS s => Some s | _ => None end.
Definition as_l (x : sx) : option (list sx) := match x with SL l => Some l | _ => None end.
Definition as_b (x : sx) : option bool :=
  match x with SZ z => Some (negb (Z.eqb z 0)) | _ => None end.
Definition as_n (x : sx) : option N := match x with SZ z => Some (Z.to_N z) | _ => None end.
Definition as_nat (x : sx) : option nat := match x with SZ z => Some (Z.to_nat z) | _ => None end.

Definition obind {A B} (o : option A) (f : A -> option B) : option B :=
  match o with Some a => f a | None => None end.
Notation "'do' x <- e ; k" := (obind e (fun x => k))
  (at level 200, x pattern, e at level 100, k at level 200, right associativity).

Fixpoint omap {A B} (f : A -> option B) (l : list A) : option (list B) :=
  match l with
  | [] => Some []
  | x :: l' => do y <- f x; do ys <- omap f l'; Some (y :: ys)
  end.
Definition as_list {A} (f : sx -> option A) (x : sx) : option (list A) :=
  do l <- as_l x; omap f l.
Definition as_opt {A} (f : sx -> option A) (x : sx) : option (option A) :=
  match x with
  | SL [] => Some None
  | SL [y] => do a <- f y; Some (Some a)
  | _ => None
  end.

(* what a Run function answers when the harness sent something it cannot decode *)
Definition decode_error : sx := SL [SZ (-999)].
Definition with_input {I} (dec : sx -> option I) (f : I -> sx) (x : sx) : sx :=
  match dec x with Some i => f i | None => decode_error end.
