(* Proofs about Model/Parser.v: framing, unknown elements, progress/termination. *)
From Coq Require Import List ZArith NArith Bool Lia.
From XV Require Import Lib.Sx Model.XmlTree Model.Parser Proofs.XmlTreeP.
Import ListNotations.

Lemma str_eqb_refl : forall s, str_eqb s s = true.
Proof. induction s as [|c s IH]; cbn; [reflexivity|]. now rewrite N.eqb_refl, IH. Qed.

Lemma name_eqb_refl : forall n, name_eqb n n = true.
Proof. intros [a b]. unfold name_eqb. cbn. now rewrite !str_eqb_refl. Qed.

(* ------------------------------------------------------------------ the loop *)

(* handler h consumes the child element c exactly, wherever it stands *)
Definition exact_on (h : handler) (c : node) : Prop :=
  match c with
  | NElem n a cs => forall r, h n a (flatten_all cs ++ TEnd n :: r) = Some r
  | _ => True
  end.

(* If every child element is consumed whole by the handler, the loop sees exactly the
   children's start tags and its own end tag: it returns right after that end tag, for ANY
   children (in particular children named like the element itself, at any depth). *)
Lemma loop_children : forall h self cs r,
  Forall (exact_on h) cs -> forall fuel, length cs < fuel ->
  loop fuel h self (flatten_all cs ++ TEnd self :: r) = LDone r.
Proof.
  intros h self cs r HF. induction HF as [|c cs Hc _ IH]; intros fuel Hlen.
  - destruct fuel as [|f]; [cbn in Hlen; lia|]. cbn. now rewrite name_eqb_refl.
  - destruct fuel as [|f]; [cbn in Hlen; lia|]. cbn [length] in Hlen.
    rewrite flatten_all_cons, <- app_assoc. destruct c as [n a ccs|s|].
    + rewrite flatten_elem. cbn [app]. rewrite <- app_assoc. cbn [app loop].
      cbn [exact_on] in Hc. rewrite Hc. apply IH. lia.
    + cbn [flatten app loop]. apply IH. lia.
    + cbn [flatten app loop]. apply IH. lia.
Qed.

Lemma run_loop_exact : forall h n cs r,
  Forall (exact_on h) cs -> run_loop h n (flatten_all cs ++ TEnd n :: r) = Some r.
Proof.
  intros h n cs r HF. unfold run_loop, consume.
  rewrite loop_children; [| exact HF |].
  - now rewrite skip_children, Nat.eqb_refl.
  - rewrite app_length. pose proof (flatten_all_len cs). cbn. lia.
Qed.

Lemma skip_h_exact : forall c, exact_on skip_h c.
Proof. intros [n a cs|s|]; cbn [exact_on]; auto. intros r. apply skip_children. Qed.

Lemma Forall_all : forall (P : node -> Prop) l, (forall c, P c) -> Forall P l.
Proof. intros P l H. apply Forall_forall. auto. Qed.

Lemma err_elem_exact : forall n cs r, err_elem n (flatten_all cs ++ TEnd n :: r) = Some r.
Proof. intros. apply run_loop_exact, Forall_all, skip_h_exact. Qed.

Lemma tls_elem_exact : forall n cs r, tls_elem n (flatten_all cs ++ TEnd n :: r) = Some r.
Proof. intros. apply run_loop_exact, Forall_all, skip_h_exact. Qed.

(* ------------------------------------------------------------------ progress *)

Definition nonincr (h : handler) : Prop :=
  forall n a r r', h n a r = Some r' -> length r' <= length r.

Lemma consume_len : forall r lp r', consume r lp = Some r' -> length r' < length r.
Proof.
  unfold consume. intros r lp r' H. destruct lp as [r1| | |]; try discriminate.
  destruct (skip r) as [r0|] eqn:E; [|discriminate].
  destruct (Nat.eqb (length r1) (length r0)); [|discriminate].
  injection H as <-. now apply skip_len.
Qed.

Lemma run_loop_len : forall h self r r', run_loop h self r = Some r' -> length r' < length r.
Proof. unfold run_loop. intros. eapply consume_len; eauto. Qed.

Lemma skip_h_nonincr : nonincr skip_h.
Proof. intros n a r r' H. apply skip_len in H. lia. Qed.

Lemma loop_no_fuel : forall h self, nonincr h -> forall fuel ts,
  length ts < fuel -> loop fuel h self ts <> LFuel.
Proof.
  intros h self Hn. induction fuel as [|f IH]; intros ts Hlen; [lia|].
  destruct ts as [|t ts]; cbn [loop]; [discriminate|]. cbn [length] in Hlen.
  destruct t as [n a|n|s|].
  - destruct (h n a ts) as [r'|] eqn:E; [|discriminate].
    apply IH. apply Hn in E. lia.
  - destruct (name_eqb n self); [discriminate|]. apply IH. lia.
  - apply IH. lia.
  - apply IH. lia.
Qed.

(* ------------------------------------------------------------------ the parser *)
Section ParserP.
Variable reg : list (Z * str * str * str).
Variable tok : option kind -> name -> list attr -> list token -> bool.

(* ---- exactness of the handlers of the repaired tree ---- *)
Lemma fwd_child_exact : forall c, exact_on (fwd_child true) c.
Proof.
  intros [n a cs|s|]; cbn [exact_on]; auto. intros r. unfold fwd_child.
  destruct (mem (snd n) _); apply skip_children.
Qed.

Lemma fwd_elem_exact : forall n cs r,
  fwd_elem true n (flatten_all cs ++ TEnd n :: r) = Some r.
Proof. intros. apply run_loop_exact, Forall_all, fwd_child_exact. Qed.

Lemma deleg_child_exact : forall c, exact_on (deleg_child true) c.
Proof.
  intros [n a cs|s|]; cbn [exact_on]; auto. intros r. unfold deleg_child.
  destruct (name_eqb n forwarded_name); [apply fwd_elem_exact | apply skip_children].
Qed.

Lemma deleg_elem_exact : forall n cs r,
  deleg_elem true n (flatten_all cs ++ TEnd n :: r) = Some r.
Proof. intros. apply run_loop_exact, Forall_all, deleg_child_exact. Qed.

Lemma ext_elem_exact : forall k n a cs r,
  tok (Some k) n a (flatten_all cs) = true ->
  ext_elem true tok k n a (flatten_all cs ++ TEnd n :: r) = Some r.
Proof.
  intros k n a cs r H. unfold ext_elem. rewrite take_subtree_children, H.
  destruct (name_eqb n delegation_name); [apply deleg_elem_exact | reflexivity].
Qed.

Lemma child_of_exact : forall sns k c,
  child_ok reg tok sns (TKStanza k) c = true -> exact_on (child_of reg true tok sns k) c.
Proof.
  intros sns k [n a cs|s|] H; cbn [exact_on]; auto. intros r. cbn [child_ok] in H.
  assert (Hst : forall k',
            (if registered reg k' n then tok (Some k') n a (flatten_all cs)
             else if is_priority sns k' n then int_ok 8 (direct_text 0 (flatten_all cs))
             else true) = true ->
            stanza_child reg true tok sns k' n a (flatten_all cs ++ TEnd n :: r) = Some r).
  { intros k' H'. unfold stanza_child. destruct (registered reg k' n).
    - now apply ext_elem_exact.
    - destruct (str_eqb (fst n) sns && known_child k' (snd n)).
      + destruct (str_eqb (snd n) s_error); [apply err_elem_exact|].
        destruct (is_priority sns k' n); [|apply skip_children].
        now rewrite take_subtree_children, H'.
      + apply skip_children. }
  destruct k; cbn [child_of]; try (now apply Hst).
  unfold iq_child. destruct (str_eqb (snd n) s_error && str_eqb (fst n) sns); [apply err_elem_exact|].
  destruct (registered reg KIQ n); [now apply ext_elem_exact | apply skip_children].
Qed.

Lemma failed_child_exact : forall c, exact_on failed_child c.
Proof.
  intros [n a cs|s|]; cbn [exact_on]; auto. intros r. unfold failed_child.
  destruct (_ && _); apply skip_children.
Qed.

Lemma features_child_exact : forall sns c,
  child_ok reg tok sns TKFeatures c = true -> exact_on (features_child tok) c.
Proof.
  intros sns [n a cs|s|] H; cbn [exact_on]; auto. intros r. cbn [child_ok] in H.
  unfold features_child.
  destruct (name_eqb n starttls_name); [apply tls_elem_exact|].
  now rewrite take_subtree_children, H.
Qed.

Lemma Forall_forallb : forall (f : node -> bool) (P : node -> Prop) l,
  (forall c, f c = true -> P c) -> forallb f l = true -> Forall P l.
Proof.
  intros f P l H Hf. apply Forall_forall. intros c Hin.
  apply H. rewrite forallb_forall in Hf. auto.
Qed.

(* ---- one top-level element ---- *)
Lemma next_packet_elem : forall n a cs r tk,
  classify n = inl tk -> own_attrs_ok tk a = true ->
  forallb (child_ok reg tok (fst n) tk) cs = true ->
  next_packet reg true tok (flatten (NElem n a cs) ++ r) = (pkt_of_top tk a, r).
Proof.
  intros n a cs r tk Hc Hown Hch. rewrite flatten_elem. cbn [app].
  unfold next_packet. cbn [next_token]. rewrite Hc. rewrite <- app_assoc. cbn [app].
  destruct tk as [k| | |p u]; cbn [decode_top pkt_of_top].
  - unfold decode_stanza. rewrite run_loop_exact; [reflexivity|].
    eapply Forall_forallb; [|exact Hch]. apply child_of_exact.
  - rewrite run_loop_exact; [reflexivity|].
    eapply Forall_forallb; [|exact Hch]. apply features_child_exact.
  - rewrite run_loop_exact; [reflexivity|].
    apply Forall_all, failed_child_exact.
  - unfold tagged. rewrite Hown, skip_children. reflexivity.
Qed.

Lemma next_packet_text : forall rp s ts,
  next_packet reg rp tok (TText s :: ts) = next_packet reg rp tok ts.
Proof. reflexivity. Qed.
Lemma next_packet_misc : forall rp ts,
  next_packet reg rp tok (TMisc :: ts) = next_packet reg rp tok ts.
Proof. reflexivity. Qed.

Lemma run_skip_text : forall rp f s ts,
  run_packets_f reg rp tok f (TText s :: ts) = run_packets_f reg rp tok f ts.
Proof. intros rp [|f] s ts; [reflexivity|]. cbn [run_packets_f]. now rewrite next_packet_text. Qed.
Lemma run_skip_misc : forall rp f ts,
  run_packets_f reg rp tok f (TMisc :: ts) = run_packets_f reg rp tok f ts.
Proof. intros rp [|f] ts; [reflexivity|]. cbn [run_packets_f]. now rewrite next_packet_misc. Qed.

Lemma classify_cases : forall n,
  (exists k, classify n = inl (TKStanza k)) \/ classify n = inl TKFeatures \/
  classify n = inl TKFailed \/
  (exists p u, classify n = inl (TKTagged p u) /\ is_err p = false) \/
  classify n = inr EUnexpected \/ classify n = inr EUnknownNs.
Proof.
  intros n. unfold classify.
  repeat match goal with
         | |- context [if ?b then _ else _] => destruct b
         end;
  eauto 10.
Qed.

Lemma classify_not_err : forall n tk a,
  classify n = inl tk -> is_err (pkt_of_top tk a) = false.
Proof.
  intros n tk a H.
  destruct (classify_cases n) as [[k E]|[E|[E|[[p [u [E Hp]]]|[E|E]]]]];
    rewrite E in H; inversion H; subst; cbn; auto.
  destruct k; reflexivity.
Qed.

Lemma classify_err : forall n e, classify n = inr e -> e = EUnexpected \/ e = EUnknownNs.
Proof.
  intros n e H.
  destruct (classify_cases n) as [[k E]|[E|[E|[[p [u [E Hp]]]|[E|E]]]]];
    rewrite E in H; inversion H; subst; auto.
Qed.

Fixpoint n_elems (items : list node) : nat :=
  match items with
  | [] => 0
  | NElem _ _ _ :: l => S (n_elems l)
  | _ :: l => n_elems l
  end.

Lemma n_elems_le : forall items, n_elems items <= length (flatten_all items).
Proof.
  induction items as [|x items IH]; [cbn; lia|].
  rewrite flatten_all_cons, app_length. pose proof (flatten_nonempty x).
  destruct x; cbn [n_elems]; lia.
Qed.

(* ---- a prefix of good top-level items yields exactly their packets ---- *)
Lemma run_prefix : forall items,
  forallb (top_ok reg tok) items = true -> forall fuel tail,
  run_packets_f reg true tok (n_elems items + fuel) (flatten_all items ++ tail)
  = pkts_of items ++ run_packets_f reg true tok fuel tail.
Proof.
  induction items as [|x items IH]; intros Hok fuel tail; [reflexivity|].
  cbn [forallb] in Hok. apply andb_true_iff in Hok as [Hx Hrest].
  rewrite flatten_all_cons, <- app_assoc.
  destruct x as [n a cs|s|].
  - cbn [top_ok] in Hx. destruct (classify n) as [tk|e] eqn:Hc; [|discriminate].
    apply andb_true_iff in Hx as [Hown Hch].
    cbn [n_elems plus run_packets_f].
    rewrite (next_packet_elem n a cs _ tk Hc Hown Hch).
    rewrite (classify_not_err n tk a Hc).
    unfold pkts_of. cbn [flat_map]. rewrite Hc. cbn [app]. f_equal.
    apply IH. exact Hrest.
  - cbn [flatten app n_elems]. rewrite run_skip_text. now apply IH.
  - cbn [flatten app n_elems]. rewrite run_skip_misc. now apply IH.
Qed.

Lemma run_after : forall items tail,
  forallb (top_ok reg tok) items = true ->
  exists fuel, length tail < fuel /\
  run_packets reg true tok (flatten_all items ++ tail)
  = pkts_of items ++ run_packets_f reg true tok fuel tail.
Proof.
  intros items tail Hok. unfold run_packets.
  exists (S (length (flatten_all items ++ tail)) - n_elems items).
  pose proof (n_elems_le items) as Hle. rewrite app_length in *.
  split; [lia|].
  replace (S (length (flatten_all items) + length tail))
    with (n_elems items + (S (length (flatten_all items) + length tail) - n_elems items)) at 1 by lia.
  now apply run_prefix.
Qed.

Lemma run_close : forall fuel, 1 < fuel ->
  run_packets_f reg true tok fuel [TEnd stream_name] = [PClose; Err EEof].
Proof.
  intros [|[|f]] H; try lia. cbn [run_packets_f]. unfold next_packet. cbn [next_token].
  rewrite name_eqb_refl. cbn. reflexivity.
Qed.

Lemma run_eof : forall fuel, 0 < fuel -> run_packets_f reg true tok fuel [] = [Err EEof].
Proof. intros [|f] H; [lia|]. reflexivity. Qed.

(* framing, stream closed by the peer *)
Lemma framing_closed : forall items,
  forallb (top_ok reg tok) items = true ->
  run_packets reg true tok (flatten_all items ++ [TEnd stream_name])
  = pkts_of items ++ [PClose; Err EEof].
Proof.
  intros items Hok. destruct (run_after items [TEnd stream_name] Hok) as [fuel [Hf ->]].
  f_equal. apply run_close. cbn in Hf. lia.
Qed.

(* framing, input ends *)
Lemma framing_eof : forall items,
  forallb (top_ok reg tok) items = true ->
  run_packets reg true tok (flatten_all items) = pkts_of items ++ [Err EEof].
Proof.
  intros items Hok. destruct (run_after items [] Hok) as [fuel [Hf H]].
  rewrite app_nil_r in H. rewrite H. f_equal. apply run_eof. lia.
Qed.

(* an element the switch nest does not know ends the run with an error, whatever follows *)
Lemma next_packet_unknown : forall rp n a cs r e,
  classify n = inr e ->
  fst (next_packet reg rp tok (flatten (NElem n a cs) ++ r)) = Err e.
Proof.
  intros rp n a cs r e H. rewrite flatten_elem. cbn [app]. unfold next_packet.
  cbn [next_token]. now rewrite H.
Qed.

Lemma unknown_stops : forall items n a cs rest e,
  forallb (top_ok reg tok) items = true -> classify n = inr e ->
  run_packets reg true tok (flatten_all items ++ flatten (NElem n a cs) ++ rest)
  = pkts_of items ++ [Err e].
Proof.
  intros items n a cs rest e Hok Hc.
  destruct (run_after items (flatten (NElem n a cs) ++ rest) Hok) as [fuel [Hf ->]].
  f_equal. destruct fuel as [|f]; [lia|]. cbn [run_packets_f].
  pose proof (next_packet_unknown true n a cs rest e Hc) as Hn.
  destruct (next_packet reg true tok (flatten (NElem n a cs) ++ rest)) as [p r].
  cbn in Hn. subst p. reflexivity.
Qed.

(* ---- truncation inside an element ---- *)
Lemma next_packet_truncated : forall rp n a cs pre suf tk,
  classify n = inl tk -> pre ++ suf = flatten_all cs ++ [TEnd n] -> suf <> [] ->
  fst (next_packet reg rp tok (TStart n a :: pre)) = Err EDecode.
Proof.
  intros rp n a cs pre suf tk Hc H Hs. unfold next_packet. cbn [next_token]. rewrite Hc.
  pose proof (skip_prefix_none cs n pre suf H Hs) as Hk.
  destruct tk as [k| | |p u]; cbn [decode_top].
  - unfold decode_stanza, run_loop, consume. rewrite Hk.
    destruct (loop _ _ _ _); reflexivity.
  - unfold run_loop, consume. rewrite Hk. destruct (loop _ _ _ _); reflexivity.
  - unfold run_loop, consume. rewrite Hk. destruct (loop _ _ _ _); reflexivity.
  - unfold tagged. destruct (own_attrs_ok _ _); [rewrite Hk|]; reflexivity.
Qed.

(* the input ends inside a (dispatchable) element: the elements before it yield exactly
   their packets, the cut element yields no packet but an error *)
Lemma truncated_stops : forall items n a cs pre suf,
  forallb (top_ok reg tok) items = true -> dispatchable n = true ->
  flatten (NElem n a cs) = pre ++ suf -> pre <> [] -> suf <> [] ->
  run_packets reg true tok (flatten_all items ++ pre) = pkts_of items ++ [Err EDecode].
Proof.
  intros items n a cs pre suf Hok Hd H Hp Hs.
  unfold dispatchable in Hd. destruct (classify n) as [tk|e] eqn:Hc; [|discriminate].
  rewrite flatten_elem in H. destruct pre as [|t pre']; [contradiction|].
  cbn [app] in H. injection H as <- H.
  destruct (run_after items (TStart n a :: pre') Hok) as [fuel [Hf ->]].
  f_equal. destruct fuel as [|f]; [cbn in Hf; lia|]. cbn [run_packets_f].
  pose proof (next_packet_truncated true n a cs pre' suf tk Hc (eq_sym H) Hs) as Hn.
  destruct (next_packet reg true tok (TStart n a :: pre')) as [p r].
  cbn in Hn. subst p. reflexivity.
Qed.

(* ---- progress and termination, for both variants of the tree ---- *)
Variable rp : bool.

Lemma fwd_child_nonincr : nonincr (fwd_child rp).
Proof.
  intros n a r r' H. unfold fwd_child in H.
  destruct (mem (snd n) _); [apply skip_len in H; lia|].
  destruct rp; [apply skip_len in H; lia | injection H as <-; lia].
Qed.

Lemma deleg_child_nonincr : nonincr (deleg_child rp).
Proof.
  intros n a r r' H. unfold deleg_child, fwd_elem in H.
  destruct (name_eqb n forwarded_name); [apply run_loop_len in H | apply skip_len in H]; lia.
Qed.

Lemma ext_elem_nonincr : forall k, nonincr (ext_elem rp tok k).
Proof.
  intros k n a r r' H. unfold ext_elem, deleg_elem in H.
  unfold take_subtree in H. destruct (take_from 0 r) as [[i r0]|] eqn:E; [|discriminate].
  destruct (tok (Some k) n a i); [|discriminate].
  destruct (name_eqb n delegation_name); [apply run_loop_len in H; lia|].
  injection H as <-. apply take_from_len in E. lia.
Qed.

Lemma child_of_nonincr : forall sns k, nonincr (child_of reg rp tok sns k).
Proof.
  intros sns.
  assert (Hst : forall k, nonincr (stanza_child reg rp tok sns k)).
  { intros k n a r r' H. unfold stanza_child, err_elem in H.
    destruct (registered reg k n); [now apply ext_elem_nonincr in H|].
    destruct (str_eqb (fst n) sns && known_child k (snd n)).
    - destruct (str_eqb (snd n) s_error); [apply run_loop_len in H; lia|].
      destruct (is_priority sns k n); [|apply skip_len in H; lia].
      unfold take_subtree in H. destruct (take_from 0 r) as [[i r0]|] eqn:E; [|discriminate].
      destruct (int_ok 8 (direct_text 0 i)); [|discriminate]. injection H as <-.
      apply take_from_len in E. lia.
    - destruct rp; [apply skip_len in H; lia | injection H as <-; lia]. }
  intros [| |]; cbn [child_of]; try apply Hst.
  intros n a r r' H. unfold iq_child, err_elem in H.
  destruct (str_eqb (snd n) s_error && str_eqb (fst n) sns); [apply run_loop_len in H; lia|].
  destruct (registered reg KIQ n); [now apply ext_elem_nonincr in H | apply skip_len in H; lia].
Qed.

Lemma failed_child_nonincr : nonincr failed_child.
Proof.
  intros n a r r' H. unfold failed_child in H.
  destruct (_ && _); apply skip_len in H; lia.
Qed.

Lemma features_child_nonincr : nonincr (features_child tok).
Proof.
  intros n a r r' H. unfold features_child, tls_elem in H.
  destruct (name_eqb n starttls_name); [apply run_loop_len in H; lia|].
  unfold take_subtree in H. destruct (take_from 0 r) as [[i r0]|] eqn:E; [|discriminate].
  destruct (tok None n a i); [|discriminate]. injection H as <-.
  apply take_from_len in E. lia.
Qed.

Lemma next_token_len : forall ts t r, next_token ts = Some (t, r) -> length r < length ts.
Proof.
  induction ts as [|x ts IH]; intros t r H; [discriminate|]. cbn [next_token] in H.
  destruct x as [n a|n|s|].
  - injection H as _ <-. cbn. lia.
  - destruct (name_eqb n stream_name); [injection H as _ <-; cbn; lia|].
    apply IH in H. cbn. lia.
  - apply IH in H. cbn. lia.
  - apply IH in H. cbn. lia.
Qed.

Lemma done_len : forall p r o p' r',
  (forall x, o = Some x -> length x < length r) ->
  done p r o = (p', r') -> is_err p' = false -> length r' < length r.
Proof.
  intros p r o p' r' Ho H He. unfold done in H. destruct o as [x|].
  - injection H as <- <-. now apply Ho.
  - injection H as <- <-. discriminate.
Qed.

(* every non-error result consumed at least one token *)
Lemma next_packet_progress : forall ts p r,
  next_packet reg rp tok ts = (p, r) -> is_err p = false -> length r < length ts.
Proof.
  intros ts p r H He. unfold next_packet in H.
  destruct (next_token ts) as [[t r0]|] eqn:E.
  2:{ injection H as <- <-. discriminate. }
  apply next_token_len in E.
  destruct t as [n a|n|s|].
  - destruct (classify n) as [tk|e].
    2:{ injection H as <- <-. discriminate. }
    assert (length r < length r0); [|lia].
    destruct tk as [k| | |q u]; cbn [decode_top] in H.
    + unfold decode_stanza in H. eapply done_len; [|exact H|exact He].
      intros x Hx. now apply run_loop_len in Hx.
    + eapply done_len; [|exact H|exact He]. intros x Hx. now apply run_loop_len in Hx.
    + eapply done_len; [|exact H|exact He]. intros x Hx. now apply run_loop_len in Hx.
    + unfold tagged in H. destruct (own_attrs_ok (TKTagged q u) a).
      * eapply done_len; [|exact H|exact He]. intros x Hx. now apply skip_len in Hx.
      * injection H as <- <-. discriminate.
  - injection H as <- <-. lia.
  - injection H as <- <-. discriminate.
  - injection H as <- <-. discriminate.
Qed.

Lemma done_not_fuel : forall p r o, p <> Err EFuel -> fst (done p r o) <> Err EFuel.
Proof. intros p r [x|] H; cbn; [exact H | discriminate]. Qed.

Lemma next_packet_not_fuel : forall ts, fst (next_packet reg rp tok ts) <> Err EFuel.
Proof.
  intros ts. unfold next_packet.
  destruct (next_token ts) as [[t r0]|]; [|cbn; discriminate].
  destruct t as [n a|n|s|]; try (cbn; discriminate).
  destruct (classify n) as [tk|e] eqn:Hc.
  2:{ cbn. destruct (classify_err n e Hc) as [-> | ->]; discriminate. }
  pose proof (classify_not_err n tk a Hc) as Hne.
  destruct tk as [k| | |q u]; cbn [decode_top pkt_of_top] in *.
  - unfold decode_stanza. apply done_not_fuel. destruct k; discriminate.
  - apply done_not_fuel. discriminate.
  - apply done_not_fuel. discriminate.
  - unfold tagged. destruct (own_attrs_ok _ _); [|cbn; discriminate].
    apply done_not_fuel. intros ->. discriminate.
Qed.

(* the fuel of run_packets is never exhausted *)
Lemma run_no_fuel : forall fuel ts, length ts < fuel ->
  ~ In (Err EFuel) (run_packets_f reg rp tok fuel ts).
Proof.
  induction fuel as [|f IH]; intros ts Hlen; [lia|]. cbn [run_packets_f].
  destruct (next_packet reg rp tok ts) as [p r] eqn:E.
  destruct (is_err p) eqn:Ep.
  - intros [H|[]]. subst p. pose proof (next_packet_not_fuel ts) as Hn.
    rewrite E in Hn. now apply Hn.
  - intros [H|H].
    + subst p. discriminate.
    + apply (IH r); [|exact H]. apply next_packet_progress in E; [lia | exact Ep].
Qed.

Lemma run_packets_no_fuel : forall ts, ~ In (Err EFuel) (run_packets reg rp tok ts).
Proof. intros ts. apply run_no_fuel. lia. Qed.

(* the run ends with an error and contains no other *)
Lemma run_shape : forall fuel ts, length ts < fuel ->
  exists ps e, run_packets_f reg rp tok fuel ts = ps ++ [Err e]
               /\ forallb (fun p => negb (is_err p)) ps = true.
Proof.
  induction fuel as [|f IH]; intros ts Hlen; [lia|]. cbn [run_packets_f].
  destruct (next_packet reg rp tok ts) as [p r] eqn:E.
  destruct (is_err p) eqn:Ep.
  - destruct p; try discriminate. exists [], e. split; reflexivity.
  - destruct (IH r) as [ps [e [H1 H2]]].
    + apply next_packet_progress in E; [lia | exact Ep].
    + exists (p :: ps), e. rewrite H1. split; [reflexivity|]. cbn. now rewrite Ep, H2.
Qed.

(* the loops' own fuel is never exhausted either *)
Lemma stanza_loop_no_fuel : forall sns k self ts,
  loop (S (length ts)) (child_of reg rp tok sns k) self ts <> LFuel.
Proof. intros. apply loop_no_fuel; [apply child_of_nonincr | lia]. Qed.

Lemma inner_loops_no_fuel : forall self ts,
  loop (S (length ts)) skip_h self ts <> LFuel /\
  loop (S (length ts)) (fwd_child rp) self ts <> LFuel /\
  loop (S (length ts)) (deleg_child rp) self ts <> LFuel /\
  loop (S (length ts)) failed_child self ts <> LFuel /\
  loop (S (length ts)) (features_child tok) self ts <> LFuel.
Proof.
  intros. repeat split; apply loop_no_fuel; try lia.
  - apply skip_h_nonincr.
  - apply fwd_child_nonincr.
  - apply deleg_child_nonincr.
  - apply failed_child_nonincr.
  - apply features_child_nonincr.
Qed.

End ParserP.

(* ---- attributes come from the element's own start tag ---- *)
Definition attr_step (l : str) (acc : str) (x : attr) : str :=
  if attr_accepted x && str_eqb (snd (fst x)) l then snd x else acc.

Lemma get_attr_fold : forall l a, get_attr l a = fold_left (attr_step l) a [].
Proof. reflexivity. Qed.

Lemma get_attr_keep : forall l (a2 : list attr) acc,
  (forall x : attr, In x a2 -> attr_accepted x && str_eqb (snd (fst x)) l = false) ->
  fold_left (attr_step l) a2 acc = acc.
Proof.
  intros l a2. induction a2 as [|x a2 IH]; intros acc H; [reflexivity|].
  cbn [fold_left]. unfold attr_step at 2. rewrite (H x (or_introl eq_refl)). apply IH.
  intros y Hy. apply H. now right.
Qed.

(* the value is that of the LAST accepted attribute with that local name *)
Lemma get_attr_last : forall l (a1 : list attr) ns v (a2 : list attr),
  attr_accepted ((ns, l), v) = true ->
  (forall x : attr, In x a2 -> attr_accepted x && str_eqb (snd (fst x)) l = false) ->
  get_attr l (a1 ++ ((ns, l), v) :: a2) = v.
Proof.
  intros l a1 ns v a2 Hacc H. rewrite get_attr_fold, fold_left_app. cbn [fold_left].
  unfold attr_step at 2. rewrite Hacc. cbn [fst snd]. rewrite str_eqb_refl. cbn [andb].
  now apply get_attr_keep.
Qed.

Lemma get_attr_absent : forall l (a : list attr),
  (forall x : attr, In x a -> attr_accepted x && str_eqb (snd (fst x)) l = false) ->
  get_attr l a = [].
Proof. intros. rewrite get_attr_fold. now apply get_attr_keep. Qed.

(* an attribute that is not accepted (namespace-qualified, other than xml:lang) never
   matters, wherever it stands and whatever its local name and value *)
Lemma get_attr_qualified : forall l (a1 : list attr) x (a2 : list attr),
  attr_accepted x = false -> get_attr l (a1 ++ x :: a2) = get_attr l (a1 ++ a2).
Proof.
  intros l a1 x a2 H. rewrite !get_attr_fold, !fold_left_app. cbn [fold_left].
  unfold attr_step at 2. rewrite H. reflexivity.
Qed.

Lemma get_attr_filter : forall l (a : list attr),
  get_attr l a = get_attr l (filter attr_accepted a).
Proof.
  intros l a. rewrite !get_attr_fold. generalize (@nil N).
  induction a as [|x a IH]; intros acc; [reflexivity|]. cbn [fold_left filter].
  unfold attr_step at 2. destruct (attr_accepted x) eqn:E.
  - cbn [fold_left]. unfold attr_step at 3. rewrite E. apply IH.
  - cbn [andb]. apply IH.
Qed.

Lemma unqualified_accepted : forall l v, attr_accepted (([], l), v) = true.
Proof. reflexivity. Qed.
