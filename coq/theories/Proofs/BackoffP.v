From Coq Require Import List ZArith Bool Lia.
From XV Require Import Gen.Generated Model.Backoff.
Import ListNotations.
Open Scope Z_scope.

(* ---- hypotheses of the property theorems ---- *)
(* "every positive base, factor and cap" *)
Definition positive_params (b : backoff) : Prop :=
  0 < base b /\ 0 < factor b /\ 0 < cap b.
(* ... and a cap that a time.Duration can hold (at most max_ms = MaxInt64/10^6 ms, 292
   years): needed only where a theorem says that the delay EQUALS min(cap, base*factor^n);
   beyond it that number of ms is not a Duration and the code saturates at max_ms. *)
Definition bounds (b : backoff) : Prop := positive_params b /\ cap b <= max_ms.

Lemma bounds_positive b : bounds b -> positive_params b.
Proof. unfold bounds. tauto. Qed.

(* the delay in ms: min(cap, base*factor^n), saturated at what a Duration can hold *)
Definition sat (b : backoff) (n : Z) : Z := Z.min max_ms (expo b n).

(* ---- the only facts used about the code's default constants; re-proved on every run
   against the regenerated Generated.v: fails exactly when a default is made
   non-positive, or the default cap longer than three minutes ---- *)
Definition three_minutes : Z := 3 * 60 * 1000000000.   (* ns *)

Lemma defaults_ok :
  0 < default_base /\ 0 < default_factor /\ 0 < default_cap /\
  default_cap * 1000000 <= three_minutes.
Proof. vm_compute. repeat split; try reflexivity; discriminate. Qed.

Lemma dflt_nonzero :
  (dflt_base =? 0) = false /\ (dflt_factor =? 0) = false /\ (dflt_cap =? 0) = false.
Proof.
  unfold dflt_base, dflt_factor, dflt_cap.
  destruct defaults_ok as (H1 & H2 & H3 & _).
  repeat split; apply Z.eqb_neq; lia.
Qed.

(* ---- the saturating loop computes min(cap, base * factor^n) ---- *)
Lemma pow_ge_1 f k : 0 < f -> 0 <= k -> 1 <= f ^ k.
Proof. intros Hf Hk. pose proof (Z.pow_pos_nonneg f k Hf Hk). lia. Qed.

Lemma mul_pow_ge acc f k : 0 < acc -> 0 < f -> 0 <= k -> acc <= acc * f ^ k.
Proof. intros Ha Hf Hk. pose proof (pow_ge_1 f k Hf Hk). nia. Qed.

Lemma sat_loop_spec : forall fuel f c acc k,
  2 <= f -> 0 < acc -> 0 <= k -> c <= acc * 2 ^ Z.of_nat fuel ->
  sat_loop fuel f c acc k = Z.min c (acc * f ^ k).
Proof.
  induction fuel as [|fuel IH]; intros f c acc k Hf Ha Hk Hc.
  - cbn [sat_loop]. change (2 ^ Z.of_nat 0) with 1 in Hc.
    pose proof (mul_pow_ge acc f k Ha ltac:(lia) Hk). lia.
  - cbn [sat_loop].
    destruct (k <=? 0) eqn:Ek; cbn [orb].
    + apply Z.leb_le in Ek. assert (k = 0) as -> by lia.
      rewrite Z.pow_0_r, Z.mul_1_r. reflexivity.
    + apply Z.leb_gt in Ek.
      destruct (c <=? acc) eqn:Ec.
      * apply Z.leb_le in Ec.
        pose proof (mul_pow_ge acc f k Ha ltac:(lia) Hk). lia.
      * apply Z.leb_gt in Ec.
        rewrite IH; try lia.
        -- replace k with (Z.succ (k - 1)) at 2 by lia.
           rewrite Z.pow_succ_r by lia. f_equal. ring.
        -- rewrite Nat2Z.inj_succ, Z.pow_succ_r in Hc by lia.
           assert (0 < 2 ^ Z.of_nat fuel) by (apply Z.pow_pos_nonneg; lia).
           nia.
Qed.

Lemma le_pow2_log2_up c : 0 < c -> c <= 2 ^ Z.of_nat (expo_fuel c).
Proof.
  intros Hc. unfold expo_fuel.
  rewrite Z2Nat.id by apply Z.log2_up_nonneg.
  apply (Z.log2_log2_up_spec c Hc).
Qed.

Lemma expo_exec_spec b n :
  positive_params b -> 0 <= n -> expo_exec b n = expo b n.
Proof.
  intros (Hb & Hf & Hc) Hn. unfold expo_exec, expo.
  destruct (factor b =? 1) eqn:E.
  - apply Z.eqb_eq in E. rewrite E, Z.pow_1_l, Z.mul_1_r by lia. reflexivity.
  - apply Z.eqb_neq in E. apply sat_loop_spec; try lia.
    pose proof (le_pow2_log2_up (cap b) Hc) as H.
    assert (0 < 2 ^ Z.of_nat (expo_fuel (cap b))) by (apply Z.pow_pos_nonneg; lia).
    nia.
Qed.

(* ---- facts about min(cap, base * factor^n) ---- *)
Lemma expo_range b n : positive_params b -> 0 <= n -> 0 < expo b n <= cap b.
Proof.
  intros (Hb & Hf & Hc) Hn. unfold expo.
  pose proof (mul_pow_ge (base b) (factor b) n Hb Hf Hn). lia.
Qed.

Lemma expo_mono b n m : positive_params b -> 0 <= n <= m -> expo b n <= expo b m.
Proof.
  intros (Hb & Hf & Hc) Hnm. unfold expo.
  apply Z.min_le_compat_l.
  apply Z.mul_le_mono_nonneg_l; [lia|].
  apply Z.pow_le_mono_r; lia.
Qed.

(* with factor >= 2 the cap is reached, at the latest at attempt log2_up cap *)
Lemma expo_reaches_cap b n :
  positive_params b -> 2 <= factor b -> Z.log2_up (cap b) <= n -> expo b n = cap b.
Proof.
  intros (Hb & Hf & Hc) Hf2 Hn. unfold expo. apply Z.min_l.
  pose proof (Z.log2_up_nonneg (cap b)) as Hl.
  assert (cap b <= 2 ^ Z.log2_up (cap b)) as H1 by apply (Z.log2_log2_up_spec _ Hc).
  assert (2 ^ Z.log2_up (cap b) <= 2 ^ n) as H2 by (apply Z.pow_le_mono_r; lia).
  assert (2 ^ n <= factor b ^ n) as H3 by (apply Z.pow_le_mono_l; lia).
  assert (0 < factor b ^ n) by (apply Z.pow_pos_nonneg; lia).
  nia.
Qed.

(* with factor = 1 the delay is constant *)
Lemma expo_factor_1 b n : factor b = 1 -> 0 <= n -> expo b n = Z.min (cap b) (base b).
Proof. intros E Hn. unfold expo. rewrite E, Z.pow_1_l, Z.mul_1_r by lia. reflexivity. Qed.

Lemma sat_range b n : positive_params b -> 0 <= n -> 0 < sat b n <= max_ms /\ sat b n <= cap b.
Proof.
  intros Hp Hn. pose proof (expo_range b n Hp Hn). unfold sat, max_ms in *. lia.
Qed.

Lemma sat_bounds b n : bounds b -> 0 <= n -> sat b n = expo b n.
Proof.
  intros (Hp & Hc) Hn. pose proof (expo_range b n Hp Hn). unfold sat. apply Z.min_r. lia.
Qed.

Lemma sat_mono b n m : positive_params b -> 0 <= n <= m -> sat b n <= sat b m.
Proof. intros Hp Hnm. unfold sat. apply Z.min_le_compat_l. apply expo_mono; assumption. Qed.

(* ---- the conversion to time.Duration does not wrap up to max_ms ---- *)
Lemma to_duration_small d : 0 <= d <= max_ms -> to_duration d = d * millisecond.
Proof.
  intros Hd. unfold to_duration, wrap64, millisecond. unfold max_ms in Hd.
  change (2 ^ 63) with 9223372036854775808.
  change (2 ^ 64) with 18446744073709551616.
  rewrite Z.mod_small by lia. lia.
Qed.

(* ---- setDefault ---- *)
Lemma set_default_idem b : set_default (set_default b) = set_default b.
Proof.
  destruct dflt_nonzero as (N1 & N2 & N3).
  unfold set_default; cbn [no_jitter base factor cap attempt].
  destruct (base b =? 0) eqn:E1, (factor b =? 0) eqn:E2, (cap b =? 0) eqn:E3;
    rewrite ?N1, ?N2, ?N3, ?E1, ?E2, ?E3; reflexivity.
Qed.

Lemma set_default_nonzero b :
  base b <> 0 -> factor b <> 0 -> cap b <> 0 -> set_default b = b.
Proof.
  intros H1 H2 H3. unfold set_default.
  apply Z.eqb_neq in H1, H2, H3. rewrite H1, H2, H3. destruct b; reflexivity.
Qed.

Lemma set_default_zero nj a :
  set_default (mkBackoff nj 0 0 0 a) = mkBackoff nj dflt_base dflt_factor dflt_cap a.
Proof. reflexivity. Qed.

(* ---- durationForAttempt ---- *)
Definition params (b : backoff) := (no_jitter b, base b, factor b, cap b).

Lemma params_inv b1 b2 : params b1 = params b2 ->
  no_jitter b1 = no_jitter b2 /\ base b1 = base b2 /\ factor b1 = factor b2 /\ cap b1 = cap b2.
Proof. unfold params. intros H. injection H. auto. Qed.

Lemma delay_params b1 b2 n r : params b1 = params b2 -> delay b1 n r = delay b2 n r.
Proof.
  destruct b1, b2; unfold params; cbn. intros H; injection H as -> -> -> ->. reflexivity.
Qed.

Lemma dfa_params b1 b2 n r :
  params (set_default b1) = params (set_default b2) ->
  snd (dur_for_attempt b1 n r) = snd (dur_for_attempt b2 n r).
Proof.
  intros H. unfold dur_for_attempt; cbn [snd].
  apply (delay_params _ _ n r H).
Qed.

Lemma dfa_fst b n r : fst (dur_for_attempt b n r) = set_default b.
Proof. reflexivity. Qed.

(* the delay for positive parameters: d = sat >= 1, no wrap *)
Lemma dfa_out b n r :
  positive_params (set_default b) -> 0 <= n ->
  snd (dur_for_attempt b n r) =
  Dur (if no_jitter b then sat (set_default b) n * millisecond
       else r mod (sat (set_default b) n * millisecond)).
Proof.
  intros Hp Hn. unfold dur_for_attempt, delay; cbn [snd].
  rewrite (expo_exec_spec _ n Hp Hn). fold (sat (set_default b) n).
  change (no_jitter (set_default b)) with (no_jitter b).
  pose proof (sat_range _ n Hp Hn) as (Hr & _).
  destruct (sat (set_default b) n <? 1) eqn:E; [apply Z.ltb_lt in E; lia|].
  rewrite to_duration_small by lia. destruct (no_jitter b); reflexivity.
Qed.

Lemma dfa_sat_nojitter b n r :
  no_jitter b = true -> positive_params (set_default b) -> 0 <= n ->
  snd (dur_for_attempt b n r) = Dur (sat (set_default b) n * millisecond).
Proof. intros Hj Hp Hn. rewrite (dfa_out b n r Hp Hn), Hj. reflexivity. Qed.

Lemma dfa_nojitter b n r :
  no_jitter b = true -> bounds (set_default b) -> 0 <= n ->
  snd (dur_for_attempt b n r) = Dur (expo (set_default b) n * millisecond).
Proof.
  intros Hj Hb Hn. rewrite (dfa_sat_nojitter b n r Hj (bounds_positive _ Hb) Hn).
  rewrite (sat_bounds _ n Hb Hn). reflexivity.
Qed.

(* with jitter: a Duration in [0, delay without jitter), whatever the oracle says *)
Lemma dfa_jitter b n r :
  no_jitter b = false -> positive_params (set_default b) -> 0 <= n ->
  exists ns, snd (dur_for_attempt b n r) = Dur ns /\
             0 <= ns < sat (set_default b) n * millisecond.
Proof.
  intros Hj Hp Hn. rewrite (dfa_out b n r Hp Hn), Hj.
  pose proof (sat_range _ n Hp Hn) as (Hr & _).
  exists (r mod (sat (set_default b) n * millisecond)). split; [reflexivity|].
  apply Z.mod_pos_bound. unfold millisecond. lia.
Qed.

(* ... and every value of that range is produced by some oracle value *)
Lemma dfa_jitter_onto b n ns :
  no_jitter b = false -> positive_params (set_default b) -> 0 <= n ->
  0 <= ns < sat (set_default b) n * millisecond ->
  snd (dur_for_attempt b n ns) = Dur ns.
Proof.
  intros Hj Hp Hn Hr. rewrite (dfa_out b n ns Hp Hn), Hj.
  rewrite Z.mod_small by exact Hr. reflexivity.
Qed.

(* the code's whole-millisecond draw rand.Int63n(d) * time.Millisecond is one of them *)
Lemma ms_draw_admissible b n k :
  no_jitter b = false -> positive_params (set_default b) -> 0 <= n ->
  snd (dur_for_attempt b n (k * millisecond)) =
  Dur ((k mod sat (set_default b) n) * millisecond).
Proof.
  intros Hj Hp Hn. rewrite (dfa_out b n _ Hp Hn), Hj.
  pose proof (sat_range _ n Hp Hn) as (Hr & _).
  rewrite Z.mul_mod_distr_r by (unfold millisecond; lia). reflexivity.
Qed.

(* never negative, never above the cap, always a Duration (below 2^63 ns) *)
Lemma dfa_bounded b n r :
  positive_params (set_default b) -> 0 <= n ->
  exists ns, snd (dur_for_attempt b n r) = Dur ns /\
             0 <= ns <= cap (set_default b) * millisecond /\ ns < 2 ^ 63.
Proof.
  intros Hp Hn. pose proof (sat_range _ n Hp Hn) as (Hr & Hc).
  assert (forall ns, 0 <= ns <= sat (set_default b) n * millisecond ->
          0 <= ns <= cap (set_default b) * millisecond /\ ns < 2 ^ 63) as K.
  { intros ns H. change (2 ^ 63) with 9223372036854775808.
    unfold millisecond, max_ms in *. lia. }
  destruct (no_jitter b) eqn:Hj.
  - exists (sat (set_default b) n * millisecond).
    split; [apply dfa_sat_nojitter; assumption|apply K; unfold millisecond; lia].
  - destruct (dfa_jitter b n r Hj Hp Hn) as (ns & Hd & Hr'). exists ns.
    split; [exact Hd|apply K; lia].
Qed.

Lemma dfa_monotone b n m r1 r2 :
  no_jitter b = true -> positive_params (set_default b) -> 0 <= n <= m ->
  exists d1 d2, snd (dur_for_attempt b n r1) = Dur d1 /\
                snd (dur_for_attempt b m r2) = Dur d2 /\ d1 <= d2.
Proof.
  intros Hj Hp Hnm.
  exists (sat (set_default b) n * millisecond), (sat (set_default b) m * millisecond).
  repeat split; try (apply dfa_sat_nojitter; assumption || lia).
  pose proof (sat_mono _ n m Hp Hnm). unfold millisecond. lia.
Qed.

(* ---- duration() / reset(): the stateful sequence is the per-attempt query ---- *)
Definition bump (b : backoff) : backoff :=
  mkBackoff (no_jitter b) (base b) (factor b) (cap b) (attempt b + 1).

Lemma duration_spec b r :
  duration b r = (bump (set_default b), snd (dur_for_attempt b (attempt b) r)).
Proof. reflexivity. Qed.

Lemma params_bump_default b : params (set_default (bump (set_default b))) = params (set_default b).
Proof.
  destruct dflt_nonzero as (N1 & N2 & N3).
  unfold bump, params, set_default; cbn [no_jitter base factor cap attempt].
  destruct (base b =? 0) eqn:E1, (factor b =? 0) eqn:E2, (cap b =? 0) eqn:E3;
    rewrite ?N1, ?N2, ?N3, ?E1, ?E2, ?E3; reflexivity.
Qed.

Lemma positive_params_eq b1 b2 : params b1 = params b2 -> positive_params b1 -> positive_params b2.
Proof.
  unfold params, positive_params. intros H; injection H as _ -> -> ->. tauto.
Qed.

Lemma dur_seq_spec_gen : forall rs b0 b j,
  params (set_default b) = params (set_default b0) ->
  positive_params (set_default b0) -> 0 <= attempt b ->
  snd (dur_seq b rs) =
  map (fun kr => snd (dur_for_attempt b0 (attempt b + Z.of_nat (fst kr) - Z.of_nat j) (snd kr)))
      (combine (seq j (length rs)) rs)
  /\ params (set_default (fst (dur_seq b rs))) = params (set_default b0)
  /\ 0 <= attempt (fst (dur_seq b rs)).
Proof.
  induction rs as [|r rs IH]; intros b0 b j Hpar Hp Ha.
  - cbn. auto.
  - assert (positive_params (set_default b)) as Hpb
      by (eapply positive_params_eq; [symmetry; exact Hpar|exact Hp]).
    cbn [dur_seq length seq combine map fst snd].
    rewrite (duration_spec b r).
    specialize (IH b0 (bump (set_default b)) (S j)).
    destruct IH as (IH1 & IH2 & IH3).
    + rewrite params_bump_default. exact Hpar.
    + exact Hp.
    + cbn. lia.
    + destruct (dur_seq (bump (set_default b)) rs) as [b2 os]. cbn [fst snd] in *.
      split; [|split; assumption].
      f_equal.
      * replace (attempt b + Z.of_nat j - Z.of_nat j) with (attempt b) by lia.
        apply dfa_params. exact Hpar.
      * rewrite IH1. apply map_ext. intros [k r']. cbn [fst snd attempt bump set_default].
        f_equal. f_equal. lia.
Qed.

Lemma dur_seq_spec rs b :
  positive_params (set_default b) -> 0 <= attempt b ->
  snd (dur_seq b rs) =
  map (fun kr => snd (dur_for_attempt b (attempt b + Z.of_nat (fst kr)) (snd kr)))
      (combine (seq 0 (length rs)) rs).
Proof.
  intros Hp Ha. destruct (dur_seq_spec_gen rs b b 0%nat eq_refl Hp Ha) as (H & _).
  rewrite H. apply map_ext. intros [k r]. cbn [fst snd]. f_equal. f_equal. lia.
Qed.

Lemma map_combine_seq_const {A} (f : nat -> A) : forall (rs : list Z) j,
  map (fun kr => f (fst kr)) (combine (seq j (length rs)) rs) = map f (seq j (length rs)).
Proof.
  induction rs as [|r rs IH]; intros j; [reflexivity|].
  cbn [length seq combine map fst]. f_equal. apply IH.
Qed.

Lemma dur_seq_nojitter rs b :
  no_jitter b = true -> bounds (set_default b) -> attempt b = 0 ->
  snd (dur_seq b rs) =
  map (fun k => Dur (expo (set_default b) (Z.of_nat k) * millisecond)) (seq 0 (length rs)).
Proof.
  intros Hj Hb Ha. rewrite (dur_seq_spec rs b (bounds_positive _ Hb) ltac:(lia)).
  rewrite <- (map_combine_seq_const (fun k => Dur (expo (set_default b) (Z.of_nat k) * millisecond))).
  apply map_ext. intros [k r]. cbn [fst snd]. rewrite Ha.
  apply dfa_nojitter; try assumption. lia.
Qed.

Lemma set_default_reset b : set_default (reset b) = reset (set_default b).
Proof. reflexivity. Qed.

(* after any number of waits from any attempt count, reset() restarts the sequence *)
Lemma dur_seq_after_reset rs0 rs b :
  no_jitter b = true -> bounds (set_default b) -> 0 <= attempt b ->
  snd (dur_seq (reset (fst (dur_seq b rs0))) rs) =
  map (fun k => Dur (expo (set_default b) (Z.of_nat k) * millisecond)) (seq 0 (length rs)).
Proof.
  intros Hj Hb Ha.
  destruct (dur_seq_spec_gen rs0 b b 0%nat eq_refl (bounds_positive _ Hb) Ha) as (_ & Hpar & _).
  set (b1 := fst (dur_seq b rs0)) in *.
  assert (params (set_default (reset b1)) = params (set_default b)) as Hpar'.
  { rewrite set_default_reset. unfold reset, params in *. cbn [no_jitter base factor cap]. exact Hpar. }
  destruct (params_inv _ _ Hpar') as (E0 & E1 & E2 & E3).
  assert (no_jitter (reset b1) = true) as Hj1.
  { change (no_jitter (reset b1)) with (no_jitter (set_default (reset b1))).
    rewrite E0. exact Hj. }
  assert (bounds (set_default (reset b1))) as Hb1.
  { unfold bounds, positive_params in *. rewrite E1, E2, E3. exact Hb. }
  rewrite (dur_seq_nojitter rs (reset b1) Hj1 Hb1 eq_refl).
  apply map_ext. intros k. unfold expo. rewrite E1, E2, E3. reflexivity.
Qed.

(* ---- every call, with or without jitter: within [0, the no-jitter delay] ---- *)
Lemma dfa_within b n r :
  positive_params (set_default b) -> 0 <= n ->
  exists ns, snd (dur_for_attempt b n r) = Dur ns /\
             0 <= ns <= sat (set_default b) n * millisecond /\
             (no_jitter b = false -> ns < sat (set_default b) n * millisecond) /\
             0 <= ns <= cap (set_default b) * millisecond /\ ns < 2 ^ 63.
Proof.
  intros Hp Hn. destruct (dfa_bounded b n r Hp Hn) as (ns & Hd & Hc & H63).
  exists ns. split; [exact Hd|].
  pose proof (sat_range _ n Hp Hn) as (Hr & _).
  destruct (no_jitter b) eqn:Hj.
  - rewrite (dfa_sat_nojitter b n r Hj Hp Hn) in Hd. injection Hd as <-.
    repeat split; try lia; try discriminate; unfold millisecond; lia.
  - destruct (dfa_jitter b n r Hj Hp Hn) as (ns' & Hd' & Hr').
    rewrite Hd in Hd'. injection Hd' as <-. repeat split; try lia.
Qed.

(* what the jitter draw is: the oracle value reduced modulo EXACTLY the no-jitter delay *)
Lemma dfa_jitter_draw b n r :
  no_jitter b = false -> positive_params (set_default b) -> 0 <= n ->
  snd (dur_for_attempt b n r) = Dur (r mod (sat (set_default b) n * millisecond)) /\
  0 < sat (set_default b) n * millisecond.
Proof.
  intros Hj Hp Hn. rewrite (dfa_out b n r Hp Hn), Hj. split; [reflexivity|].
  pose proof (sat_range _ n Hp Hn) as (Hr & _). unfold millisecond. lia.
Qed.

Lemma Forall2_seq_combine {A} (P : nat -> A -> Prop) (f : nat * Z -> A) : forall (rs : list Z) j,
  (forall k r, P k (f (k, r))) ->
  Forall2 P (seq j (length rs)) (map f (combine (seq j (length rs)) rs)).
Proof.
  induction rs as [|r rs IH]; intros j H; cbn [length seq combine map]; constructor.
  - apply H.
  - apply IH. exact H.
Qed.

Lemma Forall2_weaken {A B} (P Q : A -> B -> Prop) (l : list A) (l' : list B) :
  (forall x y, P x y -> Q x y) -> Forall2 P l l' -> Forall2 Q l l'.
Proof. intros H F. induction F; constructor; auto. Qed.

Lemma Forall2_map_same {A B} (P : A -> B -> Prop) (g : A -> B) (l : list A) :
  (forall x, P x (g x)) -> Forall2 P l (map g l).
Proof. intros H. induction l; cbn [map]; constructor; auto. Qed.

(* the k-th wait of the stateful sequence, with or without jitter *)
Lemma dur_seq_within rs b :
  positive_params (set_default b) -> 0 <= attempt b ->
  Forall2 (fun k o => exists ns, o = Dur ns /\
             0 <= ns <= sat (set_default b) (attempt b + Z.of_nat k) * millisecond /\
             (no_jitter b = false -> ns < sat (set_default b) (attempt b + Z.of_nat k) * millisecond) /\
             0 <= ns <= cap (set_default b) * millisecond /\ ns < 2 ^ 63)
          (seq 0 (length rs)) (snd (dur_seq b rs)).
Proof.
  intros Hp Ha. rewrite (dur_seq_spec rs b Hp Ha).
  apply (Forall2_seq_combine _ (fun kr => snd (dur_for_attempt b (attempt b + Z.of_nat (fst kr)) (snd kr)))).
  intros k r. cbn [fst snd]. apply dfa_within; [exact Hp | lia].
Qed.

Lemma dur_seq_bounded rs b :
  positive_params (set_default b) -> 0 <= attempt b ->
  Forall (fun o => exists ns, o = Dur ns /\ 0 <= ns <= cap (set_default b) * millisecond /\ ns < 2 ^ 63)
         (snd (dur_seq b rs)).
Proof.
  intros Hp Ha. rewrite (dur_seq_spec rs b Hp Ha). apply Forall_forall. intros o Hin.
  apply in_map_iff in Hin. destruct Hin as ([k r] & <- & _). cbn [fst snd].
  apply dfa_bounded; [exact Hp | lia].
Qed.

(* ---- successive outages on one StreamManager: each restarts at attempt 0 ---- *)
Lemma outages_r_spec : forall rss b0 b,
  params (set_default b) = params (set_default b0) ->
  positive_params (set_default b0) ->
  outages_r b rss =
  map (fun rs => map (fun kr => snd (dur_for_attempt b0 (Z.of_nat (fst kr)) (snd kr)))
                     (combine (seq 0 (length rs)) rs)) rss.
Proof.
  induction rss as [|rs rss IH]; intros b0 b Hpar Hp; [reflexivity|].
  cbn [outages_r map].
  assert (params (set_default (reset b)) = params (set_default b0)) as Hpar'.
  { rewrite set_default_reset. unfold reset, params in *. cbn [no_jitter base factor cap]. exact Hpar. }
  destruct (dur_seq_spec_gen rs b0 (reset b) 0%nat Hpar' Hp ltac:(cbn; lia)) as (H1 & H2 & _).
  destruct (dur_seq (reset b) rs) as [b1 os]. cbn [fst snd] in *.
  rewrite H1. f_equal.
  - apply map_ext. intros [k r]. cbn [fst snd reset attempt]. f_equal. f_equal. lia.
  - apply IH; assumption.
Qed.

Lemma outages_r_within b rss :
  positive_params (set_default b) ->
  Forall2 (fun rs os =>
     Forall2 (fun k o => exists ns, o = Dur ns /\
                0 <= ns <= sat (set_default b) (Z.of_nat k) * millisecond /\
                (no_jitter b = false -> ns < sat (set_default b) (Z.of_nat k) * millisecond) /\
                0 <= ns <= cap (set_default b) * millisecond /\ ns < 2 ^ 63)
             (seq 0 (length rs)) os)
    rss (outages_r b rss).
Proof.
  intros Hp. rewrite (outages_r_spec rss b b eq_refl Hp).
  apply Forall2_map_same. intros rs.
  apply (Forall2_seq_combine _ (fun kr => snd (dur_for_attempt b (Z.of_nat (fst kr)) (snd kr)))).
  intros k r. cbn [fst snd]. apply dfa_within; [exact Hp | lia].
Qed.

Lemma map_zeros_combine {A} (f : nat -> A) m :
  map (fun kr : nat * Z => f (fst kr)) (combine (seq 0 (length (zeros m))) (zeros m))
  = map f (seq 0 (Z.to_nat m)).
Proof. rewrite map_combine_seq_const. unfold zeros. rewrite repeat_length. reflexivity. Qed.

Lemma outages_spec : forall ms b0 b,
  params (set_default b) = params (set_default b0) ->
  no_jitter b0 = true -> bounds (set_default b0) ->
  outages b ms =
  map (fun m => map (fun k => Dur (expo (set_default b0) (Z.of_nat k) * millisecond))
                    (seq 0 (Z.to_nat m))) ms.
Proof.
  intros ms b0 b Hpar Hj Hb. unfold outages.
  rewrite (outages_r_spec _ b0 b Hpar (bounds_positive _ Hb)), map_map.
  apply map_ext. intros m.
  rewrite <- (map_zeros_combine (fun k => Dur (expo (set_default b0) (Z.of_nat k) * millisecond))).
  apply map_ext. intros [k r]. cbn [fst snd].
  apply dfa_nojitter; [exact Hj | exact Hb | lia].
Qed.

(* ---- float64: what the integer model needs of the float computation ---- *)
(* x' is an admissible float64 image of the real value x: exact below 2^53, and at least
   2^52 otherwise (whatever the rounding; +Inf is any x' that large) *)
Definition float_image (x x' : Z) : Prop :=
  (x < 2 ^ 53 -> x' = x) /\ (2 ^ 53 <= x -> 2 ^ 52 <= x').

Lemma float_robust b n c' p' :
  positive_params b -> 0 <= n ->
  float_image (cap b) c' -> float_image (base b * factor b ^ n) p' ->
  Z.min max_ms (Z.min c' p') = Z.min max_ms (expo b n).
Proof.
  intros Hp Hn [Hc1 Hc2] [Hp1 Hp2]. unfold expo, max_ms.
  change (2 ^ 53) with 9007199254740992 in *. change (2 ^ 52) with 4503599627370496 in *.
  destruct (Z_lt_le_dec (cap b) 9007199254740992) as [C|C];
  destruct (Z_lt_le_dec (base b * factor b ^ n) 9007199254740992) as [P|P];
    try (rewrite (Hc1 C)); try (rewrite (Hp1 P));
    try (specialize (Hc2 C)); try (specialize (Hp2 P)); lia.
Qed.

Lemma float_exact_region b n :
  positive_params b -> 0 <= n -> 0 < Z.min max_ms (expo b n) < 2 ^ 53.
Proof.
  intros Hp Hn. pose proof (expo_range b n Hp Hn). unfold max_ms.
  change (2 ^ 53) with 9007199254740992. lia.
Qed.

(* ---- defaults: an unset value gets the code's constants, is inside the hypotheses of
   the theorems, and a cap left unset keeps every delay within three minutes ---- *)
Lemma set_default_all_zero nj a :
  set_default (mkBackoff nj 0 0 0 a) = mkBackoff nj default_base default_factor default_cap a.
Proof. reflexivity. Qed.

Lemma positive_all_zero nj a : positive_params (set_default (mkBackoff nj 0 0 0 a)).
Proof.
  rewrite set_default_all_zero. unfold positive_params; cbn [base factor cap].
  destruct defaults_ok as (H1 & H2 & H3 & _). auto.
Qed.

Lemma bounds_all_zero nj a : bounds (set_default (mkBackoff nj 0 0 0 a)).
Proof.
  split; [apply positive_all_zero|].
  rewrite set_default_all_zero; cbn [cap].
  destruct defaults_ok as (_ & _ & _ & H). unfold three_minutes, max_ms in *. lia.
Qed.

(* a cap left unset keeps every delay within three minutes *)
Lemma default_cap_three_minutes b n r :
  cap b = 0 -> positive_params (set_default b) -> 0 <= n ->
  exists ns, snd (dur_for_attempt b n r) = Dur ns /\ 0 <= ns <= three_minutes.
Proof.
  intros Hc Hp Hn. destruct (dfa_bounded b n r Hp Hn) as (ns & Hd & Hr & _).
  exists ns. split; [exact Hd|].
  assert (cap (set_default b) = default_cap) as E
    by (unfold set_default; cbn [cap]; rewrite Hc; reflexivity).
  rewrite E in Hr. destruct defaults_ok as (_ & _ & _ & H3). unfold millisecond in Hr. lia.
Qed.

(* ---- D22 repaired: beyond what a Duration can hold the delay saturates at max_ms ms
   (it used to wrap to negative values) ---- *)
Lemma huge_cap_saturates :
  snd (dur_for_attempt (fresh true 3 7 (2 ^ 62)) 15 0) = Dur (max_ms * millisecond).
Proof. vm_compute. reflexivity. Qed.

(* ---- the StreamManager's own value: NoJitter false, everything else unset ---- *)
Lemma stream_manager_waits rss :
  Forall2 (fun rs os =>
     Forall2 (fun k o => exists ns, o = Dur ns /\
                0 <= ns < Z.min default_cap (default_base * default_factor ^ Z.of_nat k) * millisecond /\
                ns <= three_minutes)
             (seq 0 (length rs)) os)
    rss (outages_r stream_manager_backoff rss).
Proof.
  pose proof (bounds_all_zero false 0) as Hb. fold stream_manager_backoff in Hb.
  pose proof (outages_r_within stream_manager_backoff rss (bounds_positive _ Hb)) as H.
  eapply Forall2_weaken; [|exact H]. intros rs os H1.
  eapply Forall2_weaken; [|exact H1]. intros k o (ns & Ho & _ & Hlt & Hc & _).
  exists ns. split; [exact Ho|].
  rewrite (sat_bounds _ (Z.of_nat k) Hb ltac:(lia)) in Hlt.
  specialize (Hlt eq_refl).
  unfold stream_manager_backoff in *. rewrite set_default_all_zero in *.
  unfold expo in Hlt. cbn [cap base factor] in *.
  destruct defaults_ok as (_ & _ & _ & H3). unfold millisecond in *. lia.
Qed.

(* ---- one value, operations in any order: the per-attempt query is a function of the
   attempt number (and the oracle) alone, whatever was asked of the value before; the
   waits count from the last reset ---- *)
Fixpoint ops_spec (b : backoff) (a : Z) (ops : list op) : list outcome :=
  match ops with
  | [] => []
  | OQuery n r :: t => snd (dur_for_attempt b n r) :: ops_spec b a t
  | OWait r :: t => snd (dur_for_attempt b a r) :: ops_spec b (a + 1) t
  | OReset :: t => ops_spec b 0 t
  end.

Lemma params_default_default b : params (set_default (set_default b)) = params (set_default b).
Proof. rewrite set_default_idem. reflexivity. Qed.

Lemma run_ops_spec_gen : forall ops b0 b,
  params (set_default b) = params (set_default b0) ->
  snd (run_ops b ops) = ops_spec b0 (attempt b) ops /\
  params (set_default (fst (run_ops b ops))) = params (set_default b0).
Proof.
  induction ops as [|o ops IH]; intros b0 b Hpar; [split; [reflexivity|exact Hpar]|].
  destruct o as [n r|r|]; cbn [run_ops ops_spec].
  - change (dur_for_attempt b n r) with (set_default b, delay (set_default b) n r). cbv beta iota.
    destruct (IH b0 (set_default b)) as (H1 & H2).
    { rewrite params_default_default. exact Hpar. }
    destruct (run_ops (set_default b) ops) as [b2 os]. cbn [fst snd] in *.
    split; [|exact H2]. f_equal; [apply (delay_params _ _ n r Hpar)|exact H1].
  - rewrite (duration_spec b r). cbv beta iota.
    destruct (IH b0 (bump (set_default b))) as (H1 & H2).
    { rewrite params_bump_default. exact Hpar. }
    destruct (run_ops (bump (set_default b)) ops) as [b2 os]. cbn [fst snd] in *.
    split; [|exact H2]. f_equal; [apply dfa_params; exact Hpar|exact H1].
  - apply IH. rewrite set_default_reset. unfold reset, params in *.
    cbn [no_jitter base factor cap]. exact Hpar.
Qed.

Lemma run_ops_spec b ops : snd (run_ops b ops) = ops_spec b (attempt b) ops.
Proof. exact (proj1 (run_ops_spec_gen ops b b eq_refl)). Qed.

Lemma query_history_independent b ops n r :
  snd (dur_for_attempt (fst (run_ops b ops)) n r) = snd (dur_for_attempt b n r).
Proof. apply dfa_params. exact (proj2 (run_ops_spec_gen ops b b eq_refl)). Qed.

Lemma query_after_history b ops n r :
  no_jitter b = true -> bounds (set_default b) -> 0 <= n ->
  snd (dur_for_attempt (fst (run_ops b ops)) n r) = Dur (expo (set_default b) n * millisecond).
Proof. intros Hj Hb Hn. rewrite query_history_independent. exact (dfa_nojitter b n r Hj Hb Hn). Qed.
