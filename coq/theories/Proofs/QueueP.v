From Coq Require Import List ZArith NArith Bool Lia Sorted.
From XV Require Import Lib.Sx Model.Queue.
Import ListNotations.
Open Scope Z_scope.

Lemma map_firstn {A B} (f : A -> B) n l : map f (firstn n l) = firstn n (map f l).
Proof. revert l; induction n as [|n IH]; intros [|x l]; simpl; congruence. Qed.
Lemma map_skipn {A B} (f : A -> B) n l : map f (skipn n l) = skipn n (map f l).
Proof. revert l; induction n as [|n IH]; intros [|x l]; simpl; congruence. Qed.

Lemma peekn_abs q k : map snd (q_peekn q k) = f_take (q_abs q) k.
Proof.
  unfold q_peekn, f_take, q_abs. destruct (k <=? 0); [reflexivity|].
  rewrite map_firstn, map_length. reflexivity.
Qed.

Lemma many_abs l : out_abs (many l) = fmany (map snd l).
Proof. destruct l; reflexivity. Qed.

Lemma step_refines st o :
  q_abs (fst (fst (q_step st o))) = fst (f_step (q_abs (fst st)) o) /\
  out_abs (snd (q_step st o)) = snd (f_step (q_abs (fst st)) o).
Proof.
  destruct st as [q last].
  destruct o as [s| |k| |k|]; cbn [q_step f_step fst snd].
  - unfold q_push, q_abs. cbn [fst snd]. rewrite map_app. split; reflexivity.
  - destruct q as [|e q]; cbn; split; reflexivity.
  - unfold q_popn. cbn [fst snd]. rewrite many_abs, <- peekn_abs.
    unfold q_abs at 1. rewrite map_skipn, map_length. split; reflexivity.
  - destruct q as [|e q]; cbn; split; reflexivity.
  - cbn [fst snd]. rewrite many_abs, peekn_abs. split; reflexivity.
  - destruct q as [|e q]; cbn; split; reflexivity.
Qed.

Fixpoint f_run (f : fifo) (ops : list qop) : list (fout * fifo) :=
  match ops with
  | [] => []
  | o :: ops' => let '(f', r) := f_step f o in (r, f') :: f_run f' ops'
  end.

Lemma run_refines ops : forall st,
  map (fun rq => (out_abs (fst rq), q_abs (snd rq))) (q_run st ops) = f_run (q_abs (fst st)) ops.
Proof.
  induction ops as [|o ops IH]; intros st; [reflexivity|].
  cbn [q_run f_run]. pose proof (step_refines st o) as [Hq Ho].
  destruct (q_step st o) as [st' r]. destruct (f_step (q_abs (fst st)) o) as [f' r'].
  cbn [fst snd] in *. cbn [map fst snd]. rewrite Ho, Hq, IH, Hq. reflexivity.
Qed.

(* peeks never modify the queue *)
Definition is_peek (o : qop) : bool :=
  match o with QPeek | QPeekN _ | QEmpty => true | _ => false end.
Lemma peek_pure st o : is_peek o = true -> fst (q_step st o) = st.
Proof. destruct o; cbn; intros H; try discriminate; reflexivity. Qed.

(* strictly increasing ids *)
Definition ids_sorted (q : queue) : Prop := StronglySorted Z.lt (map fst q).

Lemma sorted_app_one l x :
  StronglySorted Z.lt l -> Forall (fun y => y < x) l -> StronglySorted Z.lt (l ++ [x]).
Proof.
  induction l as [|a l IH]; intros Hs Hf; cbn.
  - constructor; constructor.
  - inversion Hs as [|? ? Hs' Ha]; subst. inversion Hf as [|? ? Hax Hf']; subst.
    constructor; [apply IH; assumption|].
    apply Forall_app; split; [assumption|constructor; [assumption|constructor]].
Qed.

Lemma sorted_skipn n l : StronglySorted Z.lt l -> StronglySorted Z.lt (skipn n l).
Proof.
  revert l; induction n as [|n IH]; intros l Hs; [exact Hs|].
  destruct l as [|a l]; [exact Hs|]. cbn. apply IH. inversion Hs; assumption.
Qed.

Lemma last_id_app q i s : last_id (q ++ [(i, s)]) = Some i.
Proof. unfold last_id. rewrite rev_app_distr. reflexivity. Qed.

Lemma sorted_snoc_lt l a : StronglySorted Z.lt (l ++ [a]) -> Forall (fun y => y < a) l.
Proof.
  induction l as [|b l IH]; intros Hs; [constructor|].
  cbn in Hs. inversion Hs as [|? ? Hs' Hb]; subst.
  constructor; [|apply IH; exact Hs'].
  apply Forall_app in Hb as [_ Hb]. inversion Hb; subst. assumption.
Qed.

Lemma sorted_all_le_last q :
  ids_sorted q ->
  match last_id q with
  | None => q = []
  | Some i => Forall (fun y => y <= i) (map fst q)
  end.
Proof.
  unfold ids_sorted. destruct q as [|[a s] q] using rev_ind; intros Hs; [reflexivity|].
  rewrite last_id_app. rewrite map_app in *. cbn [map fst] in *.
  apply Forall_app; split; [|constructor; [lia|constructor]].
  eapply Forall_impl; [|apply sorted_snoc_lt; exact Hs]. cbn; intros; lia.
Qed.

(* invariant of the queue object: ids strictly increasing and none above lastId *)
Definition q_inv (st : qstate) : Prop :=
  ids_sorted (fst st) /\ Forall (fun y => y <= snd st) (map fst (fst st)).

Lemma push_id_gt st : q_inv st ->
  Forall (fun y => y < push_id st) (map fst (fst st)) /\ snd st < push_id st.
Proof.
  intros [Hs Hb]. pose proof (sorted_all_le_last (fst st) Hs) as Hl.
  unfold push_id. destruct (last_id (fst st)) as [i|].
  - destruct (snd st + 1 <=? i) eqn:E.
    + apply Z.leb_le in E. split; [|lia]. eapply Forall_impl; [|exact Hl]. cbn; intros; lia.
    + apply Z.leb_gt in E. split; [|lia]. eapply Forall_impl; [|exact Hb]. cbn; intros; lia.
  - rewrite Hl. split; [constructor|lia].
Qed.

Lemma push_inv st s : q_inv st -> q_inv (q_push st s).
Proof.
  intros H. pose proof (push_id_gt st H) as [Hlt Hs]. destruct H as [Hs0 Hb].
  unfold q_push, q_inv, ids_sorted. cbn [fst snd]. rewrite map_app. cbn [map fst]. split.
  - apply sorted_app_one; assumption.
  - apply Forall_app; split; [|constructor; [lia|constructor]].
    eapply Forall_impl; [|exact Hlt]. cbn; intros; lia.
Qed.

Lemma Forall_skipn {A} (P : A -> Prop) n l : Forall P l -> Forall P (skipn n l).
Proof.
  revert l; induction n as [|n IH]; intros l H; [exact H|].
  destruct l as [|a l]; [exact H|]. cbn. apply IH. inversion H; assumption.
Qed.

Lemma step_inv st o : q_inv st -> q_inv (fst (q_step st o)).
Proof.
  intros H. destruct o as [s| |k| |k|]; cbn [q_step fst]; try exact H.
  - apply push_inv; exact H.
  - destruct H as [Hs Hb]. destruct st as [[|e q] last]; cbn; [split; assumption|].
    unfold q_inv, ids_sorted in *. cbn in *. inversion Hs; inversion Hb; subst. split; assumption.
  - destruct H as [Hs Hb]. unfold q_popn, q_inv, ids_sorted in *. cbn [fst snd].
    rewrite map_skipn. split; [apply sorted_skipn; exact Hs|apply Forall_skipn; exact Hb].
Qed.

Lemma init_inv : q_inv q_init.
Proof. split; constructor. Qed.

Lemma run_sorted ops : forall st, q_inv st ->
  Forall (fun rq => ids_sorted (snd rq)) (q_run st ops).
Proof.
  induction ops as [|o ops IH]; intros st Hs; [constructor|].
  cbn [q_run]. pose proof (step_inv st o Hs) as H1.
  destruct (q_step st o) as [st' r]. cbn [fst] in H1.
  constructor; [exact (proj1 H1)|apply IH; exact H1].
Qed.

(* numbering never restarts: every id assigned by a push is above lastId, which never decreases *)
Lemma push_id_fresh st s : q_inv st -> snd st < snd (q_push st s) /\ last_id (fst (q_push st s)) = Some (snd (q_push st s)).
Proof.
  intros H. pose proof (push_id_gt st H) as [_ Hs]. unfold q_push. cbn [fst snd].
  split; [exact Hs|apply last_id_app].
Qed.

Lemma last_id_in q i : last_id q = Some i -> In i (map fst q).
Proof.
  destruct q as [|e q] using rev_ind; [discriminate|]. destruct e as [a s].
  rewrite last_id_app. intros H. inversion H; subst. rewrite map_app. apply in_or_app. right. left. reflexivity.
Qed.

(* from the initial queue the first id is 1 and ids are consecutive in push order *)
Lemma push_id_init_inv st : q_inv st -> push_id st = snd st + 1.
Proof.
  intros [Hs Hb]. pose proof (sorted_all_le_last (fst st) Hs) as Hl.
  unfold push_id. destruct (last_id (fst st)) as [i|] eqn:E; [|reflexivity].
  destruct (snd st + 1 <=? i) eqn:E2; [|reflexivity]. apply Z.leb_le in E2. exfalso.
  pose proof (last_id_in _ _ E) as Hin.
  rewrite Forall_forall in Hb. specialize (Hb i Hin). lia.
Qed.
