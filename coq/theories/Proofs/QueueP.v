From Coq Require Import List ZArith NArith Bool Lia Sorted.
From XV Require Import Lib.Sx Model.Queue.
Import ListNotations.
Open Scope Z_scope.

Lemma map_firstn {A B} (f : A -> B) n l : map f (firstn n l) = firstn n (map f l).
Proof. revert l; induction n as [|n IH]; intros [|x l]; simpl; congruence. Qed.
Lemma map_skipn {A B} (f : A -> B) n l : map f (skipn n l) = skipn n (map f l).
Proof. revert l; induction n as [|n IH]; intros [|x l]; simpl; congruence. Qed.

Lemma peekn_abs q k : map snd (q_peekn q k) = f_take (q_abs q) k.
Proof.
  unfold q_peekn, f_take, q_abs. destruct (k <=? 0); [reflexivity|].
  rewrite map_firstn, map_length. reflexivity.
Qed.

Lemma many_abs l : out_abs (many l) = fmany (map snd l).
Proof. destruct l; reflexivity. Qed.

Fixpoint f_run (f : fifo) (ops : list qop) : list (fout * fifo) :=
  match ops with
  | [] => []
  | o :: ops' => let '(f', r) := f_step f o in (r, f') :: f_run f' ops'
  end.

Lemma map_removelast {A B} (f : A -> B) l : map f (removelast l) = removelast (map f l).
Proof.
  induction l as [|a l IH]; [reflexivity|]. destruct l as [|b l]; [reflexivity|].
  cbn [removelast map] in *. rewrite IH. reflexivity.
Qed.

(* the tail entry, if any, carries lastId *)
Definition tail_is_last (st : qstate) : Prop :=
  match last_id (fst st) with Some i => i = snd st | None => True end.

Lemma last_id_none q : last_id q = None -> q = [].
Proof.
  unfold last_id. destruct q as [|e q] using rev_ind; [reflexivity|].
  rewrite rev_app_distr. cbn. destruct e. discriminate.
Qed.

Lemma droplast_tail st : tail_is_last st ->
  q_droplast st = match fst st with [] => st | _ => (removelast (fst st), snd st - 1) end.
Proof.
  unfold tail_is_last, q_droplast. destruct (last_id (fst st)) as [i|] eqn:E.
  - intros ->. rewrite Z.eqb_refl. destruct (fst st); [discriminate|reflexivity].
  - intros _. rewrite (last_id_none _ E). reflexivity.
Qed.

Lemma step_refines st o : tail_is_last st ->
  q_abs (fst (fst (q_step st o))) = fst (f_step (q_abs (fst st)) o) /\
  out_abs (snd (q_step st o)) = snd (f_step (q_abs (fst st)) o).
Proof.
  intros Ht. destruct st as [q last].
  destruct o as [s| |k| |k| | |]; cbn [q_step f_step fst snd].
  - unfold q_push, q_abs. cbn [fst snd]. rewrite map_app. split; reflexivity.
  - destruct q as [|e q]; cbn; split; reflexivity.
  - unfold q_popn. cbn [fst snd]. rewrite many_abs, <- peekn_abs.
    unfold q_abs at 1. rewrite map_skipn, map_length. split; reflexivity.
  - destruct q as [|e q]; cbn; split; reflexivity.
  - cbn [fst snd]. rewrite many_abs, peekn_abs. split; reflexivity.
  - destruct q as [|e q]; cbn; split; reflexivity.
  - rewrite (droplast_tail _ Ht). cbn [fst snd]. split; [|reflexivity].
    destruct q as [|e q]; [reflexivity|]. cbn [fst]. unfold q_abs. apply map_removelast.
  - split; reflexivity.
Qed.

(* peeks never modify the queue *)
Definition is_peek (o : qop) : bool :=
  match o with QPeek | QPeekN _ | QEmpty => true | _ => false end.
Lemma peek_pure st o : is_peek o = true -> fst (q_step st o) = st.
Proof. destruct o; cbn; intros H; try discriminate; reflexivity. Qed.

(* strictly increasing ids *)
Definition ids_sorted (q : queue) : Prop := StronglySorted Z.lt (map fst q).

Lemma sorted_app_one l x :
  StronglySorted Z.lt l -> Forall (fun y => y < x) l -> StronglySorted Z.lt (l ++ [x]).
Proof.
  induction l as [|a l IH]; intros Hs Hf; cbn.
  - constructor; constructor.
  - inversion Hs as [|? ? Hs' Ha]; subst. inversion Hf as [|? ? Hax Hf']; subst.
    constructor; [apply IH; assumption|].
    apply Forall_app; split; [assumption|constructor; [assumption|constructor]].
Qed.

Lemma sorted_skipn n l : StronglySorted Z.lt l -> StronglySorted Z.lt (skipn n l).
Proof.
  revert l; induction n as [|n IH]; intros l Hs; [exact Hs|].
  destruct l as [|a l]; [exact Hs|]. cbn. apply IH. inversion Hs; assumption.
Qed.

Lemma last_id_app q i s : last_id (q ++ [(i, s)]) = Some i.
Proof. unfold last_id. rewrite rev_app_distr. reflexivity. Qed.

Lemma sorted_snoc_lt l a : StronglySorted Z.lt (l ++ [a]) -> Forall (fun y => y < a) l.
Proof.
  induction l as [|b l IH]; intros Hs; [constructor|].
  cbn in Hs. inversion Hs as [|? ? Hs' Hb]; subst.
  constructor; [|apply IH; exact Hs'].
  apply Forall_app in Hb as [_ Hb]. inversion Hb; subst. assumption.
Qed.

Lemma sorted_all_le_last q :
  ids_sorted q ->
  match last_id q with
  | None => q = []
  | Some i => Forall (fun y => y <= i) (map fst q)
  end.
Proof.
  unfold ids_sorted. destruct q as [|[a s] q] using rev_ind; intros Hs; [reflexivity|].
  rewrite last_id_app. rewrite map_app in *. cbn [map fst] in *.
  apply Forall_app; split; [|constructor; [lia|constructor]].
  eapply Forall_impl; [|apply sorted_snoc_lt; exact Hs]. cbn; intros; lia.
Qed.

(* invariant of the queue object: ids strictly increasing and none above lastId *)
Definition q_inv (st : qstate) : Prop :=
  ids_sorted (fst st) /\ Forall (fun y => y <= snd st) (map fst (fst st)).

Lemma push_id_gt st : q_inv st ->
  Forall (fun y => y < push_id st) (map fst (fst st)) /\ snd st < push_id st.
Proof.
  intros [Hs Hb]. pose proof (sorted_all_le_last (fst st) Hs) as Hl.
  unfold push_id. destruct (last_id (fst st)) as [i|].
  - destruct (snd st + 1 <=? i) eqn:E.
    + apply Z.leb_le in E. split; [|lia]. eapply Forall_impl; [|exact Hl]. cbn; intros; lia.
    + apply Z.leb_gt in E. split; [|lia]. eapply Forall_impl; [|exact Hb]. cbn; intros; lia.
  - rewrite Hl. split; [constructor|lia].
Qed.

Lemma push_inv st s : q_inv st -> q_inv (q_push st s).
Proof.
  intros H. pose proof (push_id_gt st H) as [Hlt Hs]. destruct H as [Hs0 Hb].
  unfold q_push, q_inv, ids_sorted. cbn [fst snd]. rewrite map_app. cbn [map fst]. split.
  - apply sorted_app_one; assumption.
  - apply Forall_app; split; [|constructor; [lia|constructor]].
    eapply Forall_impl; [|exact Hlt]. cbn; intros; lia.
Qed.

Lemma Forall_skipn {A} (P : A -> Prop) n l : Forall P l -> Forall P (skipn n l).
Proof.
  revert l; induction n as [|n IH]; intros l H; [exact H|].
  destruct l as [|a l]; [exact H|]. cbn. apply IH. inversion H; assumption.
Qed.

Lemma sorted_removelast l : StronglySorted Z.lt l -> StronglySorted Z.lt (removelast l).
Proof.
  destruct l as [|a l] using rev_ind; intros Hs; [exact Hs|]. rewrite removelast_last.
  clear IHl. induction l as [|b l IH]; [constructor|].
  cbn in Hs. inversion Hs as [|? ? Hs' Hb]; subst. constructor; [apply IH; exact Hs'|].
  apply Forall_app in Hb as [Hb _]. exact Hb.
Qed.

(* DropLast keeps the invariant: the entries left are below the one taken back, which carried lastId *)
Lemma droplast_inv st : q_inv st -> q_inv (q_droplast st).
Proof.
  intros [Hs Hb]. unfold q_droplast. destruct (last_id (fst st)) as [i|] eqn:E; [|split; assumption].
  destruct (i =? snd st) eqn:Ei; [|split; assumption]. apply Z.eqb_eq in Ei. subst i.
  destruct st as [q last]. cbn [fst snd] in *. unfold q_inv, ids_sorted in *. cbn [fst snd].
  destruct q as [|[a t] q] using rev_ind; [discriminate|]. clear IHq.
  rewrite last_id_app in E. inversion E; subst a. rewrite removelast_last.
  rewrite map_app in Hs. cbn [map fst] in Hs. split.
  - apply sorted_removelast in Hs. rewrite removelast_last in Hs. exact Hs.
  - eapply Forall_impl; [|apply sorted_snoc_lt; exact Hs]. cbn; intros; lia.
Qed.

Lemma step_inv st o : q_inv st -> q_inv (fst (q_step st o)).
Proof.
  intros H. destruct o as [s| |k| |k| | |]; cbn [q_step fst]; try exact H.
  - apply push_inv; exact H.
  - destruct H as [Hs Hb]. destruct st as [[|e q] last]; cbn; [split; assumption|].
    unfold q_inv, ids_sorted in *. cbn in *. inversion Hs; inversion Hb; subst. split; assumption.
  - destruct H as [Hs Hb]. unfold q_popn, q_inv, ids_sorted in *. cbn [fst snd].
    rewrite map_skipn. split; [apply sorted_skipn; exact Hs|apply Forall_skipn; exact Hb].
  - apply droplast_inv; exact H.
Qed.

Lemma init_inv : q_inv q_init.
Proof. split; constructor. Qed.

Lemma run_sorted ops : forall st, q_inv st ->
  Forall (fun rq => ids_sorted (snd rq)) (q_run st ops).
Proof.
  induction ops as [|o ops IH]; intros st Hs; [constructor|].
  cbn [q_run]. pose proof (step_inv st o Hs) as H1.
  destruct (q_step st o) as [st' r]. cbn [fst] in H1.
  constructor; [exact (proj1 H1)|apply IH; exact H1].
Qed.

(* numbering never restarts: every id assigned by a push is above lastId, which never decreases *)
Lemma push_id_fresh st s : q_inv st -> snd st < snd (q_push st s) /\ last_id (fst (q_push st s)) = Some (snd (q_push st s)).
Proof.
  intros H. pose proof (push_id_gt st H) as [_ Hs]. unfold q_push. cbn [fst snd].
  split; [exact Hs|apply last_id_app].
Qed.

Lemma last_id_in q i : last_id q = Some i -> In i (map fst q).
Proof.
  destruct q as [|e q] using rev_ind; [discriminate|]. destruct e as [a s].
  rewrite last_id_app. intros H. inversion H; subst. rewrite map_app. apply in_or_app. right. left. reflexivity.
Qed.

(* from the initial queue the first id is 1 and ids are consecutive in push order *)
Lemma push_id_init_inv st : q_inv st -> push_id st = snd st + 1.
Proof.
  intros [Hs Hb]. pose proof (sorted_all_le_last (fst st) Hs) as Hl.
  unfold push_id. destruct (last_id (fst st)) as [i|] eqn:E; [|reflexivity].
  destruct (snd st + 1 <=? i) eqn:E2; [|reflexivity]. apply Z.leb_le in E2. exfalso.
  pose proof (last_id_in _ _ E) as Hin.
  rewrite Forall_forall in Hb. specialize (Hb i Hin). lia.
Qed.

Lemma exec_inv ops : forall st, q_inv st -> q_inv (q_exec st ops).
Proof.
  induction ops as [|o ops IH]; intros st H; [exact H|].
  cbn [q_exec fold_left]. apply IH. apply step_inv. exact H.
Qed.

(* in every reachable state the next push gets lastId + 1 and becomes the tail entry *)
Lemma numbering_continues ops s :
  let st := q_exec q_init ops in
  push_id st = snd st + 1 /\ q_push st s = (fst st ++ [(snd st + 1, s)], snd st + 1).
Proof.
  cbn zeta. pose proof (exec_inv ops _ init_inv) as H.
  pose proof (push_id_init_inv _ H) as Hp. split; [exact Hp|]. unfold q_push. rewrite Hp. reflexivity.
Qed.

(* a push taken back at once leaves the queue object as it was: entries and next number *)
Lemma droplast_push st s : q_inv st -> q_droplast (q_push st s) = st.
Proof.
  intros H. pose proof (push_id_init_inv _ H) as Hp.
  unfold q_droplast, q_push. cbn [fst snd]. rewrite last_id_app, Z.eqb_refl, removelast_last, Hp.
  destruct st as [q l]. cbn [fst snd]. f_equal. lia.
Qed.

Lemma droplast_undoes_push ops s :
  let st := q_exec q_init ops in fst (q_step (fst (q_step st (QPush s))) QDropLast) = st.
Proof. cbn zeta. cbn [q_step fst]. apply droplast_push. apply exec_inv. apply init_inv. Qed.

(* ---- sequence numbers are positions in the log of payloads pushed and not taken back ---- *)

Lemma numbered_app a l x :
  numbered a (l ++ [x]) = numbered a l ++ [(a + Z.of_nat (length l), x)].
Proof.
  revert a; induction l as [|y l IH]; intros a; cbn [numbered app length].
  - replace (a + Z.of_nat 0) with a by lia. reflexivity.
  - rewrite IH. cbn [app]. replace (a + 1 + Z.of_nat (length l)) with (a + Z.of_nat (S (length l))) by lia. reflexivity.
Qed.

Lemma numbered_snd a l : map snd (numbered a l) = l.
Proof. revert a; induction l as [|y l IH]; intros a; cbn; [reflexivity|]. rewrite IH. reflexivity. Qed.

Lemma numbered_length a l : length (numbered a l) = length l.
Proof. rewrite <- (map_length snd), numbered_snd. reflexivity. Qed.

Lemma numbered_skipn n : forall a l, skipn n (numbered a l) = numbered (a + Z.of_nat n) (skipn n l).
Proof.
  induction n as [|n IH]; intros a l.
  - cbn [skipn]. f_equal. lia.
  - destruct l as [|x l]; [reflexivity|]. cbn [numbered skipn]. rewrite IH. f_equal. lia.
Qed.

Lemma numbered_removelast a l : removelast (numbered a l) = numbered a (removelast l).
Proof.
  destruct l as [|x l] using rev_ind; [reflexivity|].
  rewrite numbered_app, !removelast_last. reflexivity.
Qed.

Lemma numbered_last_id a l :
  last_id (numbered a l) = match l with [] => None | _ => Some (a + Z.of_nat (length l) - 1) end.
Proof.
  destruct l as [|x l] using rev_ind; [reflexivity|].
  rewrite numbered_app, last_id_app, app_length. cbn [length].
  destruct (l ++ [x]) eqn:E; [destruct l; discriminate|]. f_equal. lia.
Qed.

Lemma skipn_app_le' {A} n (l1 l2 : list A) : (n <= length l1)%nat -> skipn n (l1 ++ l2) = skipn n l1 ++ l2.
Proof.
  revert l1; induction n as [|n IH]; intros l1 H; [reflexivity|].
  destruct l1 as [|x l1]; [cbn in H; lia|]. cbn. apply IH. cbn in H. lia.
Qed.

Lemma skipn_removelast {A} n (l : list A) : (n < length l)%nat -> skipn n (removelast l) = removelast (skipn n l).
Proof.
  destruct l as [|x l] using rev_ind; [cbn; lia|]. clear IHl. rewrite app_length. cbn [length]. intros H.
  rewrite removelast_last, skipn_app_le' by lia.
  destruct (Nat.eq_dec n (length l)) as [->|Hn].
  - rewrite skipn_all. reflexivity.
  - rewrite removelast_app by discriminate. cbn [removelast]. rewrite app_nil_r. reflexivity.
Qed.

Lemma skipn_skipn_add {A} n m (l : list A) : skipn n (skipn m l) = skipn (m + n) l.
Proof.
  revert l; induction m as [|m IH]; intros l; [reflexivity|].
  destruct l as [|x l]; [destruct n; reflexivity|]. cbn. apply IH.
Qed.

Lemma f_take_length f k : (length (f_take f k) <= length f)%nat.
Proof. unfold f_take. destruct (k <=? 0); [cbn; lia|]. rewrite firstn_length. lia. Qed.

Record L (st : qstate) (s : nlog) : Prop := {
  L_items : fst st = numbered (Z.of_nat (snd s) + 1) (skipn (snd s) (fst s));
  L_last : snd st = Z.of_nat (length (fst s));
  L_le : (snd s <= length (fst s))%nat }.

Lemma L_abs st s : L st s -> q_abs (fst st) = skipn (snd s) (fst s).
Proof. intros H. unfold q_abs. rewrite (L_items _ _ H). apply numbered_snd. Qed.

Lemma L_tail st s : L st s -> tail_is_last st.
Proof.
  intros H. unfold tail_is_last. rewrite (L_items _ _ H), numbered_last_id, (L_last _ _ H).
  pose proof (L_le _ _ H) as Hle.
  destruct (skipn (snd s) (fst s)) eqn:E; [exact I|].
  rewrite <- E, skipn_length. assert ((snd s < length (fst s))%nat).
  { destruct (Nat.eq_dec (snd s) (length (fst s))) as [He|]; [|lia]. rewrite He, skipn_all in E. discriminate. }
  lia.
Qed.

Lemma L_inv st s : L st s -> q_inv st.
Proof.
  intros H. pose proof (L_le _ _ H) as Hle. unfold q_inv, ids_sorted. rewrite (L_items _ _ H), (L_last _ _ H).
  assert (G : forall l a, StronglySorted Z.lt (map fst (numbered a l)) /\
                          Forall (fun y => a <= y <= a + Z.of_nat (length l) - 1) (map fst (numbered a l))).
  { induction l as [|x l IH]; intros a; cbn [numbered map fst length]; [split; constructor|].
    destruct (IH (a + 1)) as [I1 I2]. split.
    - constructor; [exact I1|]. eapply Forall_impl; [|exact I2]. cbn; intros; lia.
    - constructor; [lia|]. eapply Forall_impl; [|exact I2]. cbn; intros; lia. }
  destruct (G (skipn (snd s) (fst s)) (Z.of_nat (snd s) + 1)) as [G1 G2]. split; [exact G1|].
  eapply Forall_impl; [|exact G2]. cbn. rewrite skipn_length. intros; lia.
Qed.

Lemma init_L : L q_init l_init.
Proof. constructor; cbn; auto. Qed.

Lemma step_L st s o : L st s -> L (fst (q_step st o)) (l_step s o).
Proof.
  intros H. pose proof (L_items _ _ H) as Hi. pose proof (L_last _ _ H) as Hl. pose proof (L_le _ _ H) as Hle.
  pose proof (L_tail _ _ H) as Ht. pose proof (L_inv _ _ H) as Hq.
  destruct s as [lg p]. destruct st as [q last]. cbn [fst snd] in *.
  destruct o as [x| |k| |k| | |]; cbn [q_step l_step fst snd]; try exact H.
  - (* push *)
    unfold q_push. rewrite (push_id_init_inv _ Hq). cbn [fst snd].
    constructor; cbn [fst snd].
    + rewrite skipn_app_le' by exact Hle. rewrite numbered_app, <- Hi, skipn_length.
      replace (Z.of_nat p + 1 + Z.of_nat (length lg - p)) with (last + 1) by lia. reflexivity.
    + rewrite app_length. cbn [length]. lia.
    + rewrite app_length. lia.
  - (* pop *)
    destruct (p <? length lg)%nat eqn:C.
    + apply Nat.ltb_lt in C. destruct (skipn p lg) as [|x r] eqn:E.
      { pose proof (skipn_length p lg) as Hk. rewrite E in Hk. cbn in Hk. lia. }
      subst q. cbn [numbered q_pop]. constructor; cbn [fst snd]; [|exact Hl|lia].
      replace (skipn (S p) lg) with r.
      { f_equal. lia. }
      change (S p) with (1 + p)%nat. rewrite Nat.add_comm, <- skipn_skipn_add, E. reflexivity.
    + apply Nat.ltb_ge in C. assert (p = length lg) by lia. subst p.
      rewrite skipn_all in Hi. subst q. cbn. constructor; cbn [fst snd]; [rewrite skipn_all; reflexivity|exact Hl|lia].
  - (* pop n *)
    unfold q_popn. cbn [fst snd].
    assert (Hr : length (q_peekn q k) = length (f_take (skipn p lg) k)).
    { rewrite <- (map_length snd), peekn_abs. unfold q_abs. rewrite Hi, numbered_snd. reflexivity. }
    rewrite Hr. pose proof (f_take_length (skipn p lg) k) as Hk. rewrite skipn_length in Hk.
    constructor; cbn [fst snd]; [|exact Hl|lia].
    rewrite Hi, numbered_skipn, skipn_skipn_add. f_equal. lia.
  - (* drop last *)
    rewrite (droplast_tail _ Ht). cbn [fst snd].
    destruct (p <? length lg)%nat eqn:C.
    + apply Nat.ltb_lt in C. destruct q as [|e q'] eqn:Eq.
      { pose proof (numbered_length (Z.of_nat p + 1) (skipn p lg)) as Hn. rewrite <- Hi, skipn_length in Hn. cbn in Hn. lia. }
      rewrite <- Eq in *. assert (Hlen : length (removelast lg) = (length lg - 1)%nat).
      { destruct lg as [|y lg] using rev_ind; [cbn in C; lia|]. rewrite removelast_last, app_length. cbn. lia. }
      constructor; cbn [fst snd].
      * rewrite Hi, numbered_removelast, skipn_removelast by exact C. reflexivity.
      * rewrite Hlen. lia.
      * rewrite Hlen. lia.
    + apply Nat.ltb_ge in C. assert (p = length lg) by lia. subst p.
      rewrite skipn_all in Hi. subst q. exact H.
Qed.

Lemma exec_L ops : forall st s, L st s -> L (q_exec st ops) (l_exec s ops).
Proof.
  induction ops as [|o ops IH]; intros st s H; [exact H|].
  cbn [q_exec l_exec fold_left]. apply IH. apply step_L. exact H.
Qed.

Lemma run_refines ops : forall st s, L st s ->
  map (fun rq => (out_abs (fst rq), q_abs (snd rq))) (q_run st ops) = f_run (q_abs (fst st)) ops.
Proof.
  induction ops as [|o ops IH]; intros st s H; [reflexivity|].
  cbn [q_run f_run]. pose proof (step_refines st o (L_tail _ _ H)) as [Hq Ho].
  pose proof (step_L st s o H) as HL.
  destruct (q_step st o) as [st' r]. destruct (f_step (q_abs (fst st)) o) as [f' r'].
  cbn [fst snd] in *. cbn [map fst snd]. rewrite Ho, Hq, (IH _ _ HL), Hq. reflexivity.
Qed.

Lemma ids_are_positions ops :
  let st := q_exec q_init ops in let s := l_exec l_init ops in
  fst st = numbered (Z.of_nat (snd s) + 1) (skipn (snd s) (fst s)) /\
  snd st = Z.of_nat (length (fst s)) /\ (snd s <= length (fst s))%nat.
Proof.
  cbn zeta. pose proof (exec_L ops _ _ init_L) as H.
  split; [exact (L_items _ _ H)|]. split; [exact (L_last _ _ H)|exact (L_le _ _ H)].
Qed.

(* without DropLast the log is the list of pushed payloads *)
Definition pushed (ops : list qop) : list str :=
  flat_map (fun o => match o with QPush x => [x] | _ => [] end) ops.
Definition no_drop (o : qop) : Prop := o <> QDropLast.

Lemma log_without_drops ops : forall s, Forall no_drop ops -> fst (l_exec s ops) = fst s ++ pushed ops.
Proof.
  induction ops as [|o ops IH]; intros [lg p] H; cbn [l_exec fold_left pushed flat_map fst].
  - rewrite app_nil_r. reflexivity.
  - inversion H as [|? ? Ho H']; subst. fold (l_exec (l_step (lg, p) o) ops). rewrite (IH _ H').
    fold (pushed ops).
    destruct o; cbn [l_step fst app]; try reflexivity; [rewrite <- app_assoc; reflexivity|contradiction].
Qed.

(* the reference FIFO is the part of the log that has not left at the head *)
Lemma f_step_log lg p o : (p <= length lg)%nat ->
  fst (f_step (skipn p lg) o) = skipn (snd (l_step (lg, p) o)) (fst (l_step (lg, p) o)) /\
  (snd (l_step (lg, p) o) <= length (fst (l_step (lg, p) o)))%nat.
Proof.
  intros Hle. destruct o as [x| |k| |k| | |]; cbn [f_step l_step fst snd]; try (split; [reflexivity|exact Hle]).
  - rewrite skipn_app_le' by exact Hle. split; [reflexivity|rewrite app_length; lia].
  - destruct (p <? length lg)%nat eqn:C; cbn [fst snd].
    + apply Nat.ltb_lt in C. destruct (skipn p lg) as [|x r] eqn:E.
      { pose proof (skipn_length p lg) as Hk. rewrite E in Hk. cbn in Hk. lia. }
      split; [|lia]. change (S p) with (1 + p)%nat. rewrite Nat.add_comm, <- skipn_skipn_add, E. reflexivity.
    + apply Nat.ltb_ge in C. assert (p = length lg) by lia. subst p. rewrite skipn_all. split; [reflexivity|lia].
  - pose proof (f_take_length (skipn p lg) k) as Hk. rewrite skipn_length in Hk.
    rewrite skipn_skipn_add. split; [reflexivity|lia].
  - destruct (p <? length lg)%nat eqn:C; cbn [fst snd].
    + apply Nat.ltb_lt in C. split; [symmetry; apply skipn_removelast; exact C|].
      destruct lg as [|y lg] using rev_ind; [cbn in C; lia|]. rewrite removelast_last. rewrite app_length in C. cbn in C. lia.
    + apply Nat.ltb_ge in C. assert (p = length lg) by lia. subst p. rewrite skipn_all. split; [reflexivity|lia].
Qed.

Lemma n_pushes_cons o ops :
  n_pushes (o :: ops) = ((match o with QPush _ => 1 | _ => 0 end) + n_pushes ops)%nat.
Proof. unfold n_pushes. cbn [filter]. destruct o; reflexivity. Qed.

Lemma log_length ops : forall lg p, (p <= length lg)%nat ->
  (length (fst (l_exec (lg, p) ops)) + n_taken_back (skipn p lg) ops = length lg + n_pushes ops)%nat.
Proof.
  induction ops as [|o ops IH]; intros lg p Hle; [cbn; lia|].
  cbn [l_exec fold_left n_taken_back]. fold (l_exec (l_step (lg, p) o) ops). rewrite n_pushes_cons.
  pose proof (f_step_log lg p o Hle) as [Hf Hle']. rewrite Hf.
  destruct (l_step (lg, p) o) as [lg' p'] eqn:E. cbn [fst snd] in *.
  specialize (IH lg' p' Hle').
  assert (Hlen : (length lg' + (match o, skipn p lg with QDropLast, _ :: _ => 1 | _, _ => 0 end)
                 = length lg + (match o with QPush _ => 1 | _ => 0 end))%nat).
  { clear IH Hf Hle'. destruct o; cbn [l_step] in E.
    - injection E as <- <-. rewrite app_length. cbn. destruct (skipn p lg); lia.
    - injection E as <- <-. destruct (skipn p lg); lia.
    - injection E as <- <-. destruct (skipn p lg); lia.
    - injection E as <- <-. destruct (skipn p lg); lia.
    - injection E as <- <-. destruct (skipn p lg); lia.
    - injection E as <- <-. destruct (skipn p lg); lia.
    - destruct (p <? length lg)%nat eqn:C; injection E as <- <-.
      + apply Nat.ltb_lt in C. destruct (skipn p lg) eqn:E2.
        { pose proof (skipn_length p lg) as Hk. rewrite E2 in Hk. cbn in Hk. lia. }
        destruct lg as [|y lg] using rev_ind; [cbn in C; lia|]. rewrite removelast_last, app_length. cbn. lia.
      + apply Nat.ltb_ge in C. assert (p = length lg) by lia. subst p.
        rewrite skipn_all. lia.
    - injection E as <- <-. destruct (skipn p lg); lia. }
  lia.
Qed.

(* lastId = pushes - entries taken back *)
Lemma ids_count ops :
  snd (q_exec q_init ops) = Z.of_nat (n_pushes ops) - Z.of_nat (n_taken_back [] ops).
Proof.
  pose proof (exec_L ops _ _ init_L) as H. rewrite (L_last _ _ H).
  pose proof (log_length ops [] 0%nat (Nat.le_refl _)) as Hc. cbn [skipn length] in Hc.
  unfold l_init. lia.
Qed.

Lemma run_sorted_init ops : Forall (fun rq => ids_sorted (snd rq)) (q_run q_init ops).
Proof. apply run_sorted. apply init_inv. Qed.
