From Coq Require Import List ZArith NArith Bool Lia Sorted.
From XV Require Import Lib.Sx Model.Queue.
Import ListNotations.
Open Scope Z_scope.

Lemma map_firstn {A B} (f : A -> B) n l : map f (firstn n l) = firstn n (map f l).
Proof. revert l; induction n as [|n IH]; intros [|x l]; simpl; congruence. Qed.
Lemma map_skipn {A B} (f : A -> B) n l : map f (skipn n l) = skipn n (map f l).
Proof. revert l; induction n as [|n IH]; intros [|x l]; simpl; congruence. Qed.

Lemma peekn_abs q k : map snd (q_peekn q k) = f_take (q_abs q) k.
Proof.
  unfold q_peekn, f_take, q_abs. destruct (k <=? 0); [reflexivity|].
  rewrite map_firstn, map_length. reflexivity.
Qed.

Lemma many_abs l : out_abs (many l) = fmany (map snd l).
Proof. destruct l; reflexivity. Qed.

Lemma step_refines q o :
  q_abs (fst (q_step q o)) = fst (f_step (q_abs q) o) /\
  out_abs (snd (q_step q o)) = snd (f_step (q_abs q) o).
Proof.
  destruct o as [s| |k| |k|]; cbn [q_step f_step].
  - cbn [fst snd]. unfold q_push, q_abs. rewrite map_app. split; reflexivity.
  - destruct q as [|e q]; cbn; split; reflexivity.
  - unfold q_popn. cbn [fst snd]. rewrite many_abs, <- peekn_abs.
    unfold q_abs at 1. rewrite map_skipn, map_length. split; reflexivity.
  - destruct q as [|e q]; cbn; split; reflexivity.
  - cbn [fst snd]. rewrite many_abs, peekn_abs. split; reflexivity.
  - destruct q as [|e q]; cbn; split; reflexivity.
Qed.

Fixpoint f_run (f : fifo) (ops : list qop) : list (fout * fifo) :=
  match ops with
  | [] => []
  | o :: ops' => let '(f', r) := f_step f o in (r, f') :: f_run f' ops'
  end.

Lemma run_refines ops : forall q,
  map (fun rq => (out_abs (fst rq), q_abs (snd rq))) (q_run q ops) = f_run (q_abs q) ops.
Proof.
  induction ops as [|o ops IH]; intros q; [reflexivity|].
  cbn [q_run f_run]. pose proof (step_refines q o) as [Hq Ho].
  destruct (q_step q o) as [q' r]. destruct (f_step (q_abs q) o) as [f' r'].
  cbn [fst snd] in *. cbn [map fst snd]. rewrite Ho, Hq, IH, Hq. reflexivity.
Qed.

(* peeks never modify the queue *)
Definition is_peek (o : qop) : bool :=
  match o with QPeek | QPeekN _ | QEmpty => true | _ => false end.
Lemma peek_pure q o : is_peek o = true -> fst (q_step q o) = q.
Proof. destruct o; cbn; intros H; try discriminate; reflexivity. Qed.

(* strictly increasing ids *)
Definition ids_sorted (q : queue) : Prop := StronglySorted Z.lt (map fst q).

Lemma sorted_app_one l x :
  StronglySorted Z.lt l -> Forall (fun y => y < x) l -> StronglySorted Z.lt (l ++ [x]).
Proof.
  induction l as [|a l IH]; intros Hs Hf; cbn.
  - constructor; constructor.
  - inversion Hs as [|? ? Hs' Ha]; subst. inversion Hf as [|? ? Hax Hf']; subst.
    constructor; [apply IH; assumption|].
    apply Forall_app; split; [assumption|constructor; [assumption|constructor]].
Qed.

Lemma sorted_skipn n l : StronglySorted Z.lt l -> StronglySorted Z.lt (skipn n l).
Proof.
  revert l; induction n as [|n IH]; intros l Hs; [exact Hs|].
  destruct l as [|a l]; [exact Hs|]. cbn. apply IH. inversion Hs; assumption.
Qed.

Lemma last_id_app q i s : last_id (q ++ [(i, s)]) = Some i.
Proof. unfold last_id. rewrite rev_app_distr. reflexivity. Qed.

Lemma sorted_snoc_lt l a : StronglySorted Z.lt (l ++ [a]) -> Forall (fun y => y < a) l.
Proof.
  induction l as [|b l IH]; intros Hs; [constructor|].
  cbn in Hs. inversion Hs as [|? ? Hs' Hb]; subst.
  constructor; [|apply IH; exact Hs'].
  apply Forall_app in Hb as [_ Hb]. inversion Hb; subst. assumption.
Qed.

Lemma sorted_all_le_last q :
  ids_sorted q ->
  match last_id q with
  | None => q = []
  | Some i => Forall (fun y => y <= i) (map fst q)
  end.
Proof.
  unfold ids_sorted. destruct q as [|[a s] q] using rev_ind; intros Hs; [reflexivity|].
  rewrite last_id_app. rewrite map_app in *. cbn [map fst] in *.
  apply Forall_app; split; [|constructor; [lia|constructor]].
  eapply Forall_impl; [|apply sorted_snoc_lt; exact Hs]. cbn; intros; lia.
Qed.

Lemma push_sorted q s : ids_sorted q -> ids_sorted (q_push q s).
Proof.
  intros Hs. pose proof (sorted_all_le_last q Hs) as Hl.
  unfold q_push, ids_sorted. rewrite map_app. cbn [map fst].
  destruct (last_id q) as [i|].
  - apply sorted_app_one; [exact Hs|].
    eapply Forall_impl; [|exact Hl]. cbn; intros; lia.
  - subst q. cbn. constructor; constructor.
Qed.

Lemma step_sorted q o : ids_sorted q -> ids_sorted (fst (q_step q o)).
Proof.
  intros Hs. destruct o as [s| |k| |k|]; cbn [q_step fst]; try exact Hs.
  - apply push_sorted; exact Hs.
  - destruct q as [|e q]; cbn; [exact Hs|]. unfold ids_sorted in *. cbn in Hs.
    inversion Hs; assumption.
  - unfold q_popn, ids_sorted. cbn [fst]. rewrite map_skipn. apply sorted_skipn. exact Hs.
Qed.

Lemma run_sorted ops : forall q, ids_sorted q ->
  Forall (fun rq => ids_sorted (snd rq)) (q_run q ops).
Proof.
  induction ops as [|o ops IH]; intros q Hs; [constructor|].
  cbn [q_run]. pose proof (step_sorted q o Hs) as H1.
  destruct (q_step q o) as [q' r]. cbn [fst] in H1.
  constructor; [exact H1|apply IH; exact H1].
Qed.

(* insertion order: the queue is always a contiguous suffix-of-prefix of pushes;
   stated through the FIFO abstraction above. *)

(* the pushed entry gets 1 on an empty queue, last+1 otherwise *)
Lemma push_id q s :
  last_id (q_push q s) = Some (match last_id q with None => 1 | Some i => i + 1 end).
Proof. unfold q_push. apply last_id_app. Qed.
