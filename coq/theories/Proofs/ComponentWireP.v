(* From the wire to the outcome: the stream id InitStream takes from the header bytes, the
   reply NextPacket classifies, composed with Component.Resume (Model/ComponentWire.v). *)
From Coq Require Strings.String.
From Coq Require Import List ZArith NArith Bool Lia.
From XV Require Import Lib.Sx Model.XmlTree Model.Parser Gen.Generated
  Model.Sha1 Model.Hex Model.Component Model.StreamHeader Model.ComponentWire
  Proofs.ComponentP.
Import Coq.Strings.String.StringSyntax.
Import ListNotations.
Open Scope N_scope.

Lemma seqb_eq (a : str) : forall b, str_eqb a b = true <-> a = b.
Proof.
  induction a as [|x a IH]; intros [|y b]; cbn; split; intros H; try discriminate; try reflexivity.
  - apply andb_true_iff in H. destruct H as [H1 H2]. apply N.eqb_eq in H1. apply IH in H2. congruence.
  - inversion H; subst. apply andb_true_iff. split; [apply N.eqb_refl | apply IH; reflexivity].
Qed.

(* ---- the stream id among the attributes ---- *)
Definition no_unqualified_id (attrs : list rattr) : bool :=
  forallb (fun a => negb (unqualified_id a)) attrs.

Definition sid_step (acc : str) (a : rattr) : str := if unqualified_id a then ra_value a else acc.

Lemma sid_unchanged attrs : forall acc,
  no_unqualified_id attrs = true -> fold_left sid_step attrs acc = acc.
Proof.
  induction attrs as [|a attrs IH]; intros acc H; [reflexivity|].
  cbn in H. apply andb_true_iff in H. destruct H as [Ha Hr].
  cbn [fold_left]. unfold sid_step at 2. apply negb_true_iff in Ha. rewrite Ha. apply IH. exact Hr.
Qed.

Lemma stream_id_last pre a post :
  unqualified_id a = true -> no_unqualified_id post = true ->
  stream_id (pre ++ a :: post) = ra_value a.
Proof.
  intros Ha Hp. unfold stream_id. change (fun acc a0 => if unqualified_id a0 then ra_value a0 else acc) with sid_step.
  rewrite fold_left_app. cbn [fold_left]. unfold sid_step at 2. rewrite Ha. apply sid_unchanged. exact Hp.
Qed.

Lemma stream_id_none attrs : no_unqualified_id attrs = true -> stream_id attrs = [].
Proof. intros H. unfold stream_id. apply (sid_unchanged attrs [] H). Qed.

(* only an UNQUALIFIED id counts; among several the LAST one; none: the empty string *)
Lemma stream_id_spec attrs v :
  stream_id attrs = v <->
  (v = [] /\ no_unqualified_id attrs = true) \/
  (exists pre a post, attrs = pre ++ a :: post /\ unqualified_id a = true /\
                      ra_value a = v /\ no_unqualified_id post = true).
Proof.
  split.
  - revert v. induction attrs as [|a attrs IH] using rev_ind; intros v H.
    + left. split; [symmetry; exact H | reflexivity].
    + destruct (unqualified_id a) eqn:Ha.
      * right. exists attrs, a, []. repeat split; try assumption.
        rewrite <- H. symmetry. apply stream_id_last; [exact Ha | reflexivity].
      * assert (E : stream_id (attrs ++ [a]) = stream_id attrs).
        { unfold stream_id. rewrite fold_left_app. cbn [fold_left]. rewrite Ha. reflexivity. }
        rewrite E in H. destruct (IH v H) as [[Hv Hn]|(pre & b & post & Hs & Hb & Hv & Hn)].
        -- left. split; [exact Hv|]. unfold no_unqualified_id. rewrite forallb_app. cbn.
           rewrite Ha. cbn. rewrite andb_true_r. exact Hn.
        -- right. exists pre, b, (post ++ [a]). repeat split; try assumption.
           ++ rewrite Hs. rewrite <- app_assoc. reflexivity.
           ++ unfold no_unqualified_id. rewrite forallb_app. cbn. rewrite Ha. cbn.
              rewrite andb_true_r. exact Hn.
  - intros [[Hv Hn]|(pre & a & post & Hs & Ha & Hv & Hn)].
    + rewrite Hv. apply stream_id_none. exact Hn.
    + rewrite Hs, <- Hv. apply stream_id_last; assumption.
Qed.

(* a qualified attribute, wherever it stands, does not change the stream id *)
Lemma stream_id_ignores_qualified pre a post :
  unqualified_id a = false -> stream_id (pre ++ a :: post) = stream_id (pre ++ post).
Proof.
  intros Ha. unfold stream_id. rewrite !fold_left_app. cbn [fold_left]. rewrite Ha. reflexivity.
Qed.

Lemma unqualified_id_spec a :
  unqualified_id a = true <-> ra_prefix a = [] /\ ra_local a = s_id.
Proof.
  unfold unqualified_id. destruct (ra_prefix a) as [|c p]; split.
  - intros H. split; [reflexivity | apply seqb_eq; exact H].
  - intros [_ H]. apply seqb_eq. exact H.
  - discriminate.
  - intros [H _]. discriminate.
Qed.

(* ---- from the header bytes to what is written ---- *)
Lemma written_from_header secret hdr id toks :
  init_stream hdr = Some id ->
  r_written (connect_from_wire secret hdr true toks)
  = [open_tag ++ hex (sha1 (id ++ secret)) ++ close_tag].
Proof.
  intros H. unfold connect_from_wire. apply written_def; cbn [e_pre e_write_ok].
  - unfold pre_of_header. rewrite H. reflexivity.
  - reflexivity.
Qed.

Lemma header_refused secret hdr w toks :
  init_stream hdr = None ->
  let r := connect_from_wire secret hdr w toks in
  r_err r = ErrConn false /\ r_state r = PermanentErrorState /\ r_recv r = false /\ r_written r = [] /\
  r_open r = false.
Proof.
  intros H. cbv zeta. unfold connect_from_wire, pre_of_header. rewrite H. cbn. repeat split.
Qed.

(* ---- scanning a prefix ---- *)
Lemma scan_steps p : forall s s' l, steps s p = Some s' -> scan s (p ++ l) = scan s' l.
Proof.
  induction p as [|c p IH]; intros s s' l H; cbn in H.
  - inversion H. reflexivity.
  - cbn [app scan]. destruct (step s c) as [s1| |]; try discriminate. apply IH. exact H.
Qed.

Lemma steps_app p1 p2 s s1 s2 :
  steps s p1 = Some s1 -> steps s1 p2 = Some s2 -> steps s (p1 ++ p2) = Some s2.
Proof.
  revert s. induction p1 as [|c p1 IH]; intros s H1 H2; cbn in H1.
  - inversion H1. exact H2.
  - cbn [app steps]. destruct (step s c) as [s'| |]; try discriminate. apply IH; assumption.
Qed.

(* ---- an escaped value read back ---- *)
Definition is_quote (q : N) : Prop := q = 34 \/ q = 39.

Lemma value_escaped_byte en attrs an q out b0 b1 c :
  is_quote q -> b1 <> 13 -> value_byte_ok c = true ->
  exists b0' b1', b1' <> 13 /\
    steps (SVal en attrs an (VState q out b0 b1 None)) (esc_byte c)
    = Some (SVal en attrs an (VState q (c :: out) b0' b1' None)).
Proof.
  intros Hq Hb Hc. unfold esc_byte.
  destruct (c =? 38) eqn:E38; [apply N.eqb_eq in E38; subst c; exists 0, 0; split; [lia|];
    destruct Hq; subst q; reflexivity|].
  destruct (c =? 60) eqn:E60; [apply N.eqb_eq in E60; subst c; exists 0, 0; split; [lia|];
    destruct Hq; subst q; reflexivity|].
  destruct (c =? 62) eqn:E62; [apply N.eqb_eq in E62; subst c; exists 0, 0; split; [lia|];
    destruct Hq; subst q; reflexivity|].
  destruct (c =? 39) eqn:E39; [apply N.eqb_eq in E39; subst c; exists 0, 0; split; [lia|];
    destruct Hq; subst q; reflexivity|].
  destruct (c =? 34) eqn:E34; [apply N.eqb_eq in E34; subst c; exists 0, 0; split; [lia|];
    destruct Hq; subst q; reflexivity|].
  destruct (c =? 13) eqn:E13; [apply N.eqb_eq in E13; subst c; exists 0, 0; split; [lia|];
    destruct Hq; subst q; reflexivity|].
  exists b1, c. split; [apply N.eqb_neq; exact E13|].
  cbn [steps step value_step v_ent v_b0 v_b1 v_quote v_out].
  rewrite E62, E60, E38, E13. cbn [andb].
  assert (Eq : (c =? q) = false).
  { destruct Hq; subst q; assumption. }
  rewrite Eq.
  assert (E10 : ((c =? 10) && (b1 =? 13)) = false).
  { apply N.eqb_neq in Hb. rewrite Hb. apply andb_false_r. }
  rewrite E10. reflexivity.
Qed.

Lemma value_escaped en attrs an q s : forall out b0 b1,
  is_quote q -> b1 <> 13 -> id_text s = true ->
  exists b0' b1', b1' <> 13 /\
    steps (SVal en attrs an (VState q out b0 b1 None)) (attr_escape s)
    = Some (SVal en attrs an (VState q (rev s ++ out) b0' b1' None)).
Proof.
  induction s as [|c s IH]; intros out b0 b1 Hq Hb Hs.
  - exists b0, b1. split; [exact Hb | reflexivity].
  - cbn in Hs. apply andb_true_iff in Hs. destruct Hs as [Hc Hs].
    destruct (value_escaped_byte en attrs an q out b0 b1 c Hq Hb Hc) as (x0 & x1 & Hx & E1).
    destruct (IH (c :: out) x0 x1 Hq Hx Hs) as (y0 & y1 & Hy & E2).
    exists y0, y1. split; [exact Hy|].
    cbn [attr_escape flat_map]. cbn [rev]. rewrite <- app_assoc. cbn [app].
    exact (steps_app _ _ _ _ _ E1 E2).
Qed.

(* the state in which the value of the id attribute of [std_header] begins *)
Local Open Scope string_scope.
Definition front_attrs : list rattr :=   (* latest first *)
  [ ([], bytes_of "from", bytes_of "comp.localhost");
    (bytes_of "xmlns", bytes_of "stream", ns_stream);
    ([], bytes_of "xmlns", bytes_of "jabber:component:accept") ].
Definition front_name : str := bytes_of "stream:stream".
Local Close Scope string_scope.

Lemma front_state q : is_quote q ->
  steps SMisc (header_front ++ [q])
  = Some (SVal front_name front_attrs s_id (VState q [] 0 0 None)).
Proof. intros [H|H]; subst q; vm_compute; reflexivity. Qed.

(* every id text, written into the header in the canonical way, is what InitStream returns *)
Lemma init_stream_std_header q s :
  is_quote q -> id_text s = true -> init_stream (std_header q s) = Some s.
Proof.
  intros Hq Hs. unfold init_stream, start_tag, std_header.
  rewrite app_assoc.
  rewrite (scan_steps _ _ _ _ (front_state q Hq)).
  destruct (value_escaped front_name front_attrs s_id q s [] 0 0 Hq ltac:(lia) Hs)
    as (b0 & b1 & Hb & E).
  rewrite (scan_steps _ _ _ _ E). rewrite app_nil_r.
  cbn [scan step value_step v_ent v_b0 v_b1 v_quote v_out].
  assert (Q62 : (q =? 62) = false) by (destruct Hq; subst q; reflexivity).
  assert (Q60 : (q =? 60) = false) by (destruct Hq; subst q; reflexivity).
  rewrite Q62, Q60, N.eqb_refl. cbn [andb].
  unfold finish_value. cbn [v_out]. rewrite rev_involutive.
  unfold id_text in Hs. rewrite Hs.
  change (split_name s_id) with (Some (@nil N, s_id)). cbv iota beta.
  cbn [scan step between]. cbv - [ns_stream ns_framing s_stream s_open str_eqb stream_id element_space split_name].
  change (split_name front_name) with (Some (s_stream, s_stream)).
  cbv iota beta.
  vm_compute. reflexivity.
Qed.

(* ---- which reply is a handshake element ---- *)
Definition handshake_name : name := (Generated.ns_component, Parser.s_handshake).

Lemma classify_handshake n u :
  classify n = inl (TKTagged PHandshake u) -> n = handshake_name.
Proof.
  destruct n as [ns loc]. unfold classify, handshake_name. cbn [fst snd].
  repeat match goal with
         | |- context [if str_eqb ?x ?y then _ else _] => destruct (str_eqb x y) eqn:?
         end; intros H; try discriminate H.
  f_equal; apply seqb_eq; assumption.
Qed.

Lemma classify_handshake_name : classify handshake_name = inl (TKTagged PHandshake None).
Proof. vm_compute. reflexivity. Qed.

Lemma next_reply_handshake ts :
  next_reply ts = PHandshake <->
  exists a r r', next_token ts = Some (TStart handshake_name a, r) /\ skip r = Some r'.
Proof.
  unfold next_reply, next_packet. split.
  - destruct (next_token ts) as [[t r]|]; [|cbn; discriminate].
    destruct t as [n a|n|s|]; try (cbn; discriminate).
    destruct (classify n) as [tk|e] eqn:C; [|cbn; discriminate].
    destruct tk as [k| | |p u]; unfold decode_top.
    + unfold decode_stanza, done.
      match goal with |- context [match ?o with Some _ => _ | None => _ end] => destruct o end;
        destruct k; cbn; discriminate.
    + unfold done.
      match goal with |- context [match ?o with Some _ => _ | None => _ end] => destruct o end;
        cbn; discriminate.
    + unfold done.
      match goal with |- context [match ?o with Some _ => _ | None => _ end] => destruct o end;
        cbn; discriminate.
    + unfold tagged. destruct (own_attrs_ok _ _); [|cbn; discriminate].
      unfold done. destruct (skip r) as [r'|] eqn:S; [|cbn; discriminate].
      cbn [fst]. intros Hp. subst p. apply classify_handshake in C. subst n.
      exists a, r, r'. split; [reflexivity | exact S].
  - intros (a & r & r' & Ht & Hs). rewrite Ht. rewrite classify_handshake_name.
    unfold decode_top, tagged. cbn [own_attrs_ok]. unfold done. rewrite Hs. reflexivity.
Qed.

Lemma reply_of_handshake p : reply_of p = RHandshake <-> p = PHandshake.
Proof. destruct p as [| | | | | | | | | | | | | | |e]; try destruct e; cbn; split; intros H; try discriminate; reflexivity. Qed.

(* the reply counts as a handshake exactly when the next start element NextXmppToken finds
   is <handshake> in jabber:component:accept and that element is complete (whatever its
   attributes and content) *)
Lemma reply_handshake_iff ts :
  reply_from_tokens ts = RHandshake <->
  exists a r r', next_token ts = Some (TStart handshake_name a, r) /\ skip r = Some r'.
Proof.
  unfold reply_from_tokens. rewrite reply_of_handshake. apply next_reply_handshake.
Qed.

(* composition with Resume: header read, handshake written *)
Lemma established_iff_handshake_element secret hdr id toks :
  init_stream hdr = Some id ->
  let r := connect_from_wire secret hdr true toks in
  (r_err r = ErrNil /\ r_state r = Established /\ r_recv r = true) <->
  exists a rest rest', next_token toks = Some (TStart handshake_name a, rest) /\ skip rest = Some rest'.
Proof.
  intros H. cbv zeta. rewrite <- reply_handshake_iff. unfold connect_from_wire.
  set (e := Env (pre_of_header hdr) true (reply_from_tokens toks)).
  change (reply_from_tokens toks) with (e_reply e).
  apply (established_iff_handshake secret e id).
  - unfold e, pre_of_header. cbn [e_pre]. rewrite H. reflexivity.
  - reflexivity.
Qed.

(* a handshake element of another name space, or any other element, is not one *)
Lemma other_element_not_handshake ts n a r :
  next_token ts = Some (TStart n a, r) -> n <> handshake_name ->
  reply_from_tokens ts <> RHandshake.
Proof.
  intros Ht Hn H. apply reply_handshake_iff in H. destruct H as (a' & r1 & r' & Ht' & _).
  rewrite Ht in Ht'. inversion Ht'. contradiction.
Qed.

(* the stream's end tag is a packet (StreamClosePacket), not an error and not a handshake *)
Lemma stream_end_is_other ts n r :
  next_token ts = Some (TEnd n, r) -> reply_from_tokens ts = ROther 12.
Proof.
  intros Ht. unfold reply_from_tokens, next_reply, next_packet. rewrite Ht. reflexivity.
Qed.

(* nothing more to read: an error *)
Lemma no_reply_is_error ts : next_token ts = None -> reply_from_tokens ts = RCut.
Proof.
  intros Ht. unfold reply_from_tokens, next_reply, next_packet. rewrite Ht. reflexivity.
Qed.
