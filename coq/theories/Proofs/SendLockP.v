(* Proofs about the lock-level model of concurrent senders (Model/SendLock.v). *)
From Coq Require Import List ZArith NArith Bool Arith Lia Permutation.
From XV Require Import Lib.Sx Model.Queue Model.Send Model.SendLock Proofs.SendP.
Import ListNotations.
Local Open Scope nat_scope.

(* ------------------------------------------------------------------ lists *)

Lemma lwire_of_app : forall a b, lwire_of (a ++ b) = lwire_of a ++ lwire_of b.
Proof. intros. unfold lwire_of. rewrite map_app, concat_app. reflexivity. Qed.

Lemma lwire_of_snoc : forall lg e,
  lwire_of (lg ++ [e]) = lwire_of lg ++ accepted (e_res e) (e_data e).
Proof.
  intros. rewrite lwire_of_app. f_equal. unfold lwire_of. simpl. apply app_nil_r.
Qed.

Lemma lqueue_of_snoc : forall lg e, lqueue_of (lg ++ [e]) = settle (lqueue_of lg) e.
Proof. intros. unfold lqueue_of. rewrite fold_left_app. reflexivity. Qed.

Lemma lproj_app : forall i a b, lproj i (a ++ b) = lproj i a ++ lproj i b.
Proof. intros. unfold lproj. apply filter_app. Qed.

Lemma nth_app_mid : forall (A : Type) (pre post : list A) a d i,
  nth i (pre ++ a :: post) d =
  if i <? length pre then nth i pre d
  else if i =? length pre then a else nth (i - S (length pre)) post d.
Proof.
  intros A pre post a d i. destruct (Nat.ltb_spec i (length pre)) as [H|H].
  - apply app_nth1. exact H.
  - rewrite app_nth2 by exact H. destruct (Nat.eqb_spec i (length pre)) as [E|E].
    + subst. rewrite Nat.sub_diag. reflexivity.
    + destruct (i - length pre) as [|k] eqn:Ek; [lia|]. simpl.
      replace (i - S (length pre)) with k by lia. reflexivity.
Qed.

(* ------------------------------------------------------------------ the lock invariant *)

Lemma not_idle_writing : forall h r rest todo res, ~ idle (mkLS (PWriting h r rest) todo res).
Proof. intros h r rest todo res H. unfold idle in H. simpl in H. discriminate. Qed.

(* among otherwise idle senders the one that is not idle is found in one place only *)
Lemma unique_writer : forall (pre0 post0 pre post : list lsender) s0 s,
  Forall idle pre0 -> Forall idle post0 -> ~ idle s ->
  pre0 ++ s0 :: post0 = pre ++ s :: post ->
  pre0 = pre /\ s0 = s /\ post0 = post.
Proof.
  intros pre0. induction pre0 as [|y pre0 IH]; intros post0 pre post s0 s H0 H1 Hs E.
  - destruct pre as [|x pre]; simpl in E.
    + inversion E. auto.
    + inversion E; subst. exfalso. apply Hs.
      rewrite Forall_forall in H1. apply H1. apply in_or_app. right. left. reflexivity.
  - destruct pre as [|x pre]; simpl in E.
    + inversion E; subst. exfalso. apply Hs. inversion H0. assumption.
    + inversion E; subst. inversion H0; subst.
      destruct (IH post0 pre post s0 s) as [E1 [E2 E3]]; auto. subst. auto.
Qed.

Lemma all_idle_no_writer : forall (pre post : list lsender) s,
  Forall idle (pre ++ s :: post) -> ~ idle s -> False.
Proof.
  intros pre post s H Hs. apply Hs. rewrite Forall_forall in H. apply H.
  apply in_or_app. right. left. reflexivity.
Qed.

(* With the lock: either it is free, everybody is between calls, the wire is what the
   log says and so is the queue; or it is held by the one sender that is writing, the
   others are between calls, and wire ++ (what that write still has to deliver) is
   what the log says. *)
Inductive linv : lstate -> Prop :=
| inv_free : forall snd w q lg,
    Forall idle snd -> w = lwire_of lg -> q = lqueue_of lg ->
    linv (mkL false snd w q lg)
| inv_held : forall pre post h r p i lg0 rest todo res w q,
    Forall idle pre -> Forall idle post ->
    w ++ rest = lwire_of (lg0 ++ [mkE i p h r]) ->
    q = (if h then q_push (lqueue_of lg0) p else lqueue_of lg0) ->
    linv (mkL true (pre ++ mkLS (PWriting h r rest) todo res :: post) w q (lg0 ++ [mkE i p h r])).

Lemma linv_init : forall todos, linv (linit todos).
Proof.
  intros todos. unfold linit. apply inv_free; try reflexivity.
  apply Forall_forall. intros s Hin. apply in_map_iff in Hin as [t [E _]]. subst. reflexivity.
Qed.

Lemma linv_step : forall so s1 s2, linv s1 -> lstep true so s1 s2 -> linv s2.
Proof.
  intros so s1 s2 Hinv Hstep. inversion Hstep as
    [lk pre post p h todo res w q lg Hlk E1 E2
    |lk pre post h r b rest todo res w q lg Hb E1 E2
    |lk pre post h r todo res w q lg E1 E2]; subst.
  - (* begin *)
    rewrite (Hlk eq_refl) in Hinv.
    inversion Hinv as [snd w' q' lg' Hidle Hw Hq|]; subst.
    apply Forall_app in Hidle as [Hpre Hpost]. inversion Hpost as [|x l _ Hpost']; subst.
    apply inv_held; auto.
    rewrite lwire_of_snoc. reflexivity.
  - (* chunk *)
    inversion Hinv as [snd w' q' lg' Hidle Hw Hq
                      |pre0 post0 h0 r0 p0 i0 lg0 rest0 todo0 res0 w0 q0 Hpre Hpost Hw Hq E]; subst.
    + exfalso. eapply all_idle_no_writer; [exact Hidle|apply not_idle_writing].
    + match goal with H : pre0 ++ _ :: post0 = pre ++ _ :: post |- _ =>
        destruct (unique_writer _ _ _ _ _ _ Hpre Hpost (not_idle_writing _ _ _ _ _) H) as [Ea [Eb Ec]] end.
      subst. inversion Eb; subst.
      apply inv_held; auto. rewrite <- app_assoc. exact Hw.
  - (* end *)
    inversion Hinv as [snd w' q' lg' Hidle Hw Hq
                      |pre0 post0 h0 r0 p0 i0 lg0 rest0 todo0 res0 w0 q0 Hpre Hpost Hw Hq E]; subst.
    + exfalso. eapply all_idle_no_writer; [exact Hidle|apply not_idle_writing].
    + match goal with H : pre0 ++ _ :: post0 = pre ++ _ :: post |- _ =>
        destruct (unique_writer _ _ _ _ _ _ Hpre Hpost (not_idle_writing _ _ _ _ _) H) as [Ea [Eb Ec]] end.
      subst. inversion Eb; subst.
      apply inv_free.
      * apply Forall_app. split; [exact Hpre|]. constructor; [reflexivity|exact Hpost].
      * rewrite app_nil_r in Hw. exact Hw.
      * rewrite lqueue_of_snoc. unfold settle. simpl.
        destruct h, (w_is_err r); reflexivity.
Qed.

Lemma linv_reach : forall so s1 s2, lreach true so s1 s2 -> linv s1 -> linv s2.
Proof.
  intros so s1 s2 H. induction H as [s|s1 s2 s3 Hstep _ IH]; intros Hinv; [exact Hinv|].
  apply IH. eapply linv_step; eauto.
Qed.

(* sendMu makes the writes atomic: whenever nobody is inside a call, the wire is the
   concatenation, in the order in which the writes began, of what the socket accepted
   of each WHOLE string (all of it when the write succeeded), and the queue holds what
   the log says *)
Lemma lock_atomic : forall so todos st,
  lreach true so (linit todos) st -> quiescent st ->
  l_wire st = lwire_of (l_log st) /\ l_queue st = lqueue_of (l_log st) /\ l_lock st = false.
Proof.
  intros so todos st Hr Hq. pose proof (linv_reach _ _ _ Hr (linv_init todos)) as Hinv.
  inversion Hinv as [snd w q lg Hidle Hw Hqq|pre post h r p i lg0 rest todo res w q Hpre Hpost Hw Hqq]; subst.
  - simpl. auto.
  - exfalso. unfold quiescent in Hq. simpl in Hq.
    eapply all_idle_no_writer; [exact Hq|apply not_idle_writing].
Qed.

(* and while somebody is writing, nobody else is, and the wire is a prefix of it *)
Lemma lock_exclusive : forall so todos st,
  lreach true so (linit todos) st ->
  exists rest, l_wire st ++ rest = lwire_of (l_log st).
Proof.
  intros so todos st Hr. pose proof (linv_reach _ _ _ Hr (linv_init todos)) as Hinv.
  inversion Hinv as [snd w q lg Hidle Hw Hqq|pre post h r p i lg0 rest todo res w q Hpre Hpost Hw Hqq]; subst.
  - exists []. simpl. apply app_nil_r.
  - exists rest. exact Hw.
Qed.

(* ------------------------------------------------------------------ accounting (lock or no lock) *)

Definition dflt_sender : lsender := mkLS PIdle [] [].
Definition pending (s : lsender) : list bool :=
  match ls_pc s with PWriting _ r _ => [negb (w_is_err r)] | PIdle => [] end.
Definition call_of (e : lentry) : str * bool := (e_data e, e_hold e).

(* for every sender: what the log has of it, followed by what it still has to do, is
   what it was given; its results, with the one of the call in progress, are those of
   its log entries; every entry carries the oracle's outcome for its position and the
   index of an existing sender *)
Record lacc (so : oracle) (todos : list (list (str * bool))) (st : lstate) : Prop := mkAcc {
  acc_len : length (l_snd st) = length todos;
  acc_todo : forall i, i < length todos ->
    map call_of (lproj i (l_log st)) ++ ls_todo (nth i (l_snd st) dflt_sender) = nth i todos [];
  acc_res : forall i, i < length todos ->
    ls_res (nth i (l_snd st) dflt_sender) ++ pending (nth i (l_snd st) dflt_sender) =
    map e_ok (lproj i (l_log st));
  acc_out : forall k e, nth_error (l_log st) k = Some e -> e_res e = so k;
  acc_snd : Forall (fun e => e_sender e < length todos) (l_log st) }.

Lemma lacc_init : forall so todos, lacc so todos (linit todos).
Proof.
  intros so todos. unfold linit. constructor; simpl.
  - apply map_length.
  - intros i Hi. change dflt_sender with ((fun t => mkLS PIdle t []) []).
    rewrite map_nth. reflexivity.
  - intros i Hi. change dflt_sender with ((fun t => mkLS PIdle t []) []).
    rewrite map_nth. reflexivity.
  - intros k e H. destruct k; discriminate.
  - constructor.
Qed.

Lemma lproj_snoc_same : forall i lg e, e_sender e = i -> lproj i (lg ++ [e]) = lproj i lg ++ [e].
Proof.
  intros i lg e E. rewrite lproj_app. unfold lproj at 2. simpl. rewrite E, Nat.eqb_refl. reflexivity.
Qed.
Lemma lproj_snoc_other : forall i lg e, e_sender e <> i -> lproj i (lg ++ [e]) = lproj i lg.
Proof.
  intros i lg e E. rewrite lproj_app. unfold lproj at 2. simpl.
  destruct (Nat.eqb_spec (e_sender e) i); [contradiction|]. apply app_nil_r.
Qed.

Lemma lacc_step : forall ul so todos s1 s2, lacc so todos s1 -> lstep ul so s1 s2 -> lacc so todos s2.
Proof.
  intros ul so todos s1 s2 [Hlen Htodo Hres Hout Hsnd] Hstep. inversion Hstep as
    [lk pre post p h todo res w q lg Hlk E1 E2
    |lk pre post h r b rest todo res w q lg Hb E1 E2
    |lk pre post h r todo res w q lg E1 E2]; subst; simpl in *.
  - (* begin *)
    assert (Hj : length pre < length todos) by (rewrite <- Hlen, app_length; simpl; lia).
    constructor; simpl.
    + rewrite <- Hlen, !app_length. reflexivity.
    + intros i Hi. specialize (Htodo i Hi). rewrite nth_app_mid in *.
      destruct (i <? length pre) eqn:E1.
      * rewrite lproj_snoc_other by (simpl; apply Nat.ltb_lt in E1; lia). exact Htodo.
      * destruct (i =? length pre) eqn:E2.
        -- apply Nat.eqb_eq in E2. subst i. rewrite lproj_snoc_same by reflexivity.
           rewrite map_app. simpl in *. rewrite <- app_assoc. exact Htodo.
        -- rewrite lproj_snoc_other by (simpl; apply Nat.eqb_neq in E2; lia). exact Htodo.
    + intros i Hi. specialize (Hres i Hi). rewrite nth_app_mid in *.
      destruct (i <? length pre) eqn:E1.
      * rewrite lproj_snoc_other by (simpl; apply Nat.ltb_lt in E1; lia). exact Hres.
      * destruct (i =? length pre) eqn:E2.
        -- apply Nat.eqb_eq in E2. subst i. rewrite lproj_snoc_same by reflexivity.
           rewrite map_app. simpl in *. rewrite app_nil_r in Hres. rewrite Hres. reflexivity.
        -- rewrite lproj_snoc_other by (simpl; apply Nat.eqb_neq in E2; lia). exact Hres.
    + intros k e Hk. destruct (Nat.lt_ge_cases k (length lg)) as [Hlt|Hge].
      * rewrite nth_error_app1 in Hk by exact Hlt. apply Hout. exact Hk.
      * rewrite nth_error_app2 in Hk by exact Hge.
        destruct (k - length lg) as [|m] eqn:Em; simpl in Hk.
        -- inversion Hk; subst. simpl. f_equal. lia.
        -- destruct m; discriminate.
    + apply Forall_app. split; [exact Hsnd|]. constructor; [simpl; exact Hj|constructor].
  - (* chunk *)
    constructor; simpl.
    + rewrite <- Hlen, !app_length. reflexivity.
    + intros i Hi. specialize (Htodo i Hi). rewrite nth_app_mid in *.
      destruct (i <? length pre); [exact Htodo|]. destruct (i =? length pre); exact Htodo.
    + intros i Hi. specialize (Hres i Hi). rewrite nth_app_mid in *.
      destruct (i <? length pre); [exact Hres|]. destruct (i =? length pre); exact Hres.
    + exact Hout.
    + exact Hsnd.
  - (* end *)
    constructor; simpl.
    + rewrite <- Hlen, !app_length. reflexivity.
    + intros i Hi. specialize (Htodo i Hi). rewrite nth_app_mid in *.
      destruct (i <? length pre); [exact Htodo|]. destruct (i =? length pre); exact Htodo.
    + intros i Hi. specialize (Hres i Hi). rewrite nth_app_mid in *.
      destruct (i <? length pre); [exact Hres|]. destruct (i =? length pre); [|exact Hres].
      simpl in *. rewrite app_nil_r. exact Hres.
    + exact Hout.
    + exact Hsnd.
Qed.

Lemma lacc_reach : forall ul so todos s1 s2,
  lreach ul so s1 s2 -> lacc so todos s1 -> lacc so todos s2.
Proof.
  intros ul so todos s1 s2 H. induction H as [s|s1 s2 s3 Hstep _ IH]; intros Ha; [exact Ha|].
  apply IH. eapply lacc_step; eauto.
Qed.

(* ------------------------------------------------------------------ projections determine a merge *)

Lemma all_nil_done : forall (A : Type) (ls : list (list A)),
  (forall i, i < length ls -> nth i ls [] = []) -> all_done ls.
Proof.
  intros A ls. induction ls as [|l ls IH]; intros H; [constructor|].
  constructor.
  - exact (H 0 (Nat.lt_0_succ _)).
  - apply IH. intros i Hi. exact (H (S i) (proj1 (Nat.succ_lt_mono _ _) Hi)).
Qed.

Lemma proj_interleavings : forall (lg : list lentry) (ls : list (list (str * bool))),
  Forall (fun e => e_sender e < length ls) lg ->
  (forall i, i < length ls -> map call_of (lproj i lg) = nth i ls []) ->
  interleavings ls (map call_of lg).
Proof.
  intros lg. induction lg as [|e lg IH]; intros ls Hs Hp.
  - simpl. apply il_done. apply all_nil_done. intros i Hi. rewrite <- (Hp i Hi). reflexivity.
  - inversion Hs as [|x l Hj Hs']; subst. set (j := e_sender e) in *.
    destruct (nth_split ls [] Hj) as [pre [post [Els Elen]]].
    pose proof (Hp j Hj) as Hpj. unfold lproj in Hpj. simpl in Hpj.
    fold j in Hpj. rewrite Nat.eqb_refl in Hpj. simpl in Hpj.
    rewrite Els. rewrite <- Hpj. simpl. apply il_pick.
    apply IH.
    + rewrite Els in Hs'. rewrite app_length in *. simpl in *. exact Hs'.
    + intros i Hi. rewrite nth_app_mid. rewrite Elen.
      assert (Hi' : i < length ls) by (rewrite Els, app_length in *; simpl in *; exact Hi).
      pose proof (Hp i Hi') as Hpi. rewrite Els, nth_app_mid, Elen in Hpi.
      unfold lproj in Hpi. simpl in Hpi. fold j in Hpi.
      destruct (i <? j) eqn:E1.
      * apply Nat.ltb_lt in E1. destruct (Nat.eqb_spec j i); [lia|]. exact Hpi.
      * destruct (i =? j) eqn:E2.
        -- apply Nat.eqb_eq in E2. rewrite E2. reflexivity.
        -- apply Nat.eqb_neq in E2. destruct (Nat.eqb_spec j i); [lia|]. exact Hpi.
Qed.

(* ------------------------------------------------------------------ the queue the log describes *)

Local Open Scope Z_scope.

(* n entries numbered 1..n, lastId = n *)
Definition qnorm (q : qstate) : Prop :=
  map fst (fst q) = map Z.of_nat (seq 1 (length (fst q))) /\ snd q = Z.of_nat (length (fst q)).

Lemma last_id_snoc : forall (items : list (Z * str)) i s, last_id (items ++ [(i, s)]) = Some i.
Proof. intros. unfold last_id. rewrite rev_app_distr. reflexivity. Qed.

Lemma qnorm_last_id : forall q, qnorm q ->
  match last_id (fst q) with Some i => i <= snd q | None => True end.
Proof.
  intros [items lastid] [Hids Hlast]. simpl in *.
  destruct items as [|x items] using rev_ind; [exact I|]. clear IHitems.
  destruct x as [i s]. rewrite last_id_snoc. rewrite map_app, app_length in Hids. simpl in Hids.
  rewrite Nat.add_1_r in Hids. rewrite seq_S, map_app in Hids. simpl in Hids.
  apply app_inj_tail in Hids as [_ Hi]. subst. rewrite app_length. simpl. lia.
Qed.

Lemma qnorm_push_id : forall q, qnorm q -> push_id q = snd q + 1.
Proof.
  intros q Hn. pose proof (qnorm_last_id q Hn) as Hl. unfold push_id.
  destruct (last_id (fst q)) as [i|]; [|reflexivity].
  destruct (Z.leb_spec (snd q + 1) i); [lia|reflexivity].
Qed.

Lemma qnorm_push : forall q d, qnorm q -> qnorm (q_push q d).
Proof.
  intros q d Hn. pose proof (qnorm_push_id q Hn) as Hp. destruct Hn as [Hids Hlast].
  unfold qnorm, q_push. simpl. rewrite Hp, map_app, app_length. simpl.
  rewrite Nat.add_1_r, seq_S, map_app, Hids. simpl. split.
  - f_equal. f_equal. rewrite Hlast. lia.
  - rewrite Hlast. lia.
Qed.

(* a push dropped again leaves the queue exactly as it was: the number is free *)
Lemma qnorm_push_drop : forall q d, qnorm q -> q_drop_last (q_push q d) = q.
Proof.
  intros q d Hn. pose proof (qnorm_push_id q Hn) as Hp. destruct q as [items lastid].
  unfold q_drop_last, q_push. simpl in *. rewrite rev_app_distr. simpl.
  rewrite Z.eqb_refl, removelast_last, Hp. f_equal. lia.
Qed.

Lemma qnorm_init : qnorm q_init.
Proof. split; reflexivity. Qed.

Definition held_ok (e : lentry) : bool := e_hold e && e_ok e.

Lemma lqueue_of_norm : forall lg,
  qnorm (lqueue_of lg) /\
  map snd (q_items (lqueue_of lg)) = map e_data (filter held_ok lg).
Proof.
  intros lg. induction lg as [|e lg IH] using rev_ind.
  - split; [exact qnorm_init|reflexivity].
  - destruct IH as [Hn Hm]. rewrite lqueue_of_snoc, filter_app, map_app. unfold settle, held_ok, e_ok.
    simpl. destruct (e_hold e); simpl.
    + destruct (w_is_err (e_res e)); simpl.
      * rewrite (qnorm_push_drop _ _ Hn), app_nil_r. auto.
      * split; [apply qnorm_push; exact Hn|].
        unfold q_push, q_items in *. simpl. rewrite map_app, Hm. reflexivity.
    + rewrite app_nil_r. auto.
Qed.

Local Close Scope Z_scope.

(* ------------------------------------------------------------------ the statements *)

Definition todo_data (todos : list (list (str * bool))) : list (list str) := map (map fst) todos.

Lemma interleavings_map : forall (A B : Type) (f : A -> B) ls w,
  interleavings ls w -> interleavings (map (map f) ls) (map f w).
Proof.
  intros A B f ls w H. induction H as [ls Hd|pre x rest post w _ IH].
  - apply il_done. unfold all_done in *. rewrite Forall_map.
    eapply Forall_impl; [|exact Hd]. intros l E. simpl in E. subst. reflexivity.
  - rewrite map_app in *. simpl in *. apply il_pick. exact IH.
Qed.

(* Any number of senders, any call lists, any schedule of lock/push/chunk/drop/unlock
   steps, any socket fault oracle: once every call has returned,
   - the byte stream is the concatenation, in lock order, of what the socket accepted
     of each whole string (nothing of one string lies inside another);
   - the strings in lock order are a merge of the senders' lists (each once, each
     sender's order kept);
   - every call returned nil exactly when the oracle let its write (the k-th) succeed;
   - the queue holds, numbered 1..n in wire order, the held strings whose write succeeded. *)
Lemma lock_wire_whole : forall so todos st,
  lreach true so (linit todos) st -> lall_done st ->
  l_wire st = lwire_of (l_log st) /\
  interleavings (todo_data todos) (map e_data (l_log st)) /\
  (forall k e, nth_error (l_log st) k = Some e -> e_res e = so k) /\
  (forall i, i < length todos ->
     ls_res (nth i (l_snd st) dflt_sender) = map e_ok (lproj i (l_log st))) /\
  map snd (q_items (l_queue st)) = map e_data (filter held_ok (l_log st)) /\
  map fst (q_items (l_queue st)) =
    map Z.of_nat (seq 1 (length (filter held_ok (l_log st)))).
Proof.
  intros so todos st Hr Hd.
  assert (Hq : quiescent st).
  { unfold quiescent, lall_done in *. eapply Forall_impl; [|exact Hd]. intros s [H _]. exact H. }
  destruct (lock_atomic so todos st Hr Hq) as [Hw [Hqu _]].
  destruct (lacc_reach _ _ _ _ _ Hr (lacc_init so todos)) as [Hlen Htodo Hres Hout Hsnd].
  assert (Hnth : forall i, i < length todos ->
            ls_pc (nth i (l_snd st) dflt_sender) = PIdle /\ ls_todo (nth i (l_snd st) dflt_sender) = []).
  { intros i Hi. unfold lall_done in Hd. rewrite Forall_forall in Hd. apply Hd.
    apply nth_In. rewrite Hlen. exact Hi. }
  split; [exact Hw|]. split; [|split; [exact Hout|split; [|]]].
  - assert (Hil : interleavings todos (map call_of (l_log st))).
    { apply proj_interleavings; [exact Hsnd|]. intros i Hi.
      specialize (Htodo i Hi). destruct (Hnth i Hi) as [_ Ht]. rewrite Ht, app_nil_r in Htodo. exact Htodo. }
    apply (interleavings_map _ _ fst) in Hil. rewrite map_map in Hil. exact Hil.
  - intros i Hi. specialize (Hres i Hi). destruct (Hnth i Hi) as [Hp _].
    unfold pending in Hres. rewrite Hp, app_nil_r in Hres. exact Hres.
  - destruct (lqueue_of_norm (l_log st)) as [[Hids _] Hm]. rewrite Hqu. split; [exact Hm|].
    unfold q_items. rewrite Hids. f_equal. f_equal.
    rewrite <- (map_length snd), <- (map_length e_data). f_equal. exact Hm.
Qed.

(* with a socket that takes everything, the byte stream is the concatenation of a
   merge of the senders' strings *)
Lemma lock_wire_is_merge : forall todos st,
  lreach true (fun _ => WOk) (linit todos) st -> lall_done st ->
  exists w, interleavings (todo_data todos) w /\ l_wire st = concat w.
Proof.
  intros todos st Hr Hd.
  destruct (lock_wire_whole _ todos st Hr Hd) as [Hw [Hil [Hout _]]].
  exists (map e_data (l_log st)). split; [exact Hil|]. rewrite Hw. unfold lwire_of. f_equal.
  apply map_ext_in. intros e Hin. apply In_nth_error in Hin as [k Hk].
  rewrite (Hout k e Hk). reflexivity.
Qed.

(* ------------------------------------------------------------------ without the lock *)

(* Two senders, "ab" and "cd", a healthy socket, nobody takes the lock: the schedule
   begin/begin/chunk a/chunk c/chunk b/chunk d/end/end is possible and leaves "acbd"
   on the wire, which is no arrangement of the two whole strings. *)
Definition torn_todos : list (list (str * bool)) := [[([1; 2]%N, false)]; [([3; 4]%N, false)]].
Definition torn_state : lstate :=
  mkL false [mkLS PIdle [] [true]; mkLS PIdle [] [true]] [1; 3; 2; 4]%N q_init
      [mkE 0 [1; 2]%N false WOk; mkE 1 [3; 4]%N false WOk].

Lemma nolock_tears :
  lreach false (fun _ => WOk) (linit torn_todos) torn_state /\ lall_done torn_state /\
  forall w, Permutation w (concat (todo_data torn_todos)) -> l_wire torn_state <> concat w.
Proof.
  set (so := fun _ : nat => WOk).
  split; [|split].
  - unfold linit, torn_todos, torn_state. simpl.
    eapply lr_step.
    { apply (ls_begin false so false [] [mkLS PIdle [([3; 4]%N, false)] []] [1; 2]%N false [] [] [] q_init []).
      discriminate. }
    simpl. eapply lr_step.
    { apply (ls_begin false so false [mkLS (PWriting false WOk [1; 2]%N) [] []] [] [3; 4]%N false [] [] [] q_init
               [mkE 0 [1; 2]%N false WOk]). discriminate. }
    simpl. eapply lr_step.
    { apply (ls_chunk false so false [] [mkLS (PWriting false WOk [3; 4]%N) [] []] false WOk [1]%N [2]%N [] [] []
               q_init [mkE 0 [1; 2]%N false WOk; mkE 1 [3; 4]%N false WOk]). discriminate. }
    simpl. eapply lr_step.
    { apply (ls_chunk false so false [mkLS (PWriting false WOk [2]%N) [] []] [] false WOk [3]%N [4]%N [] [] [1]%N
               q_init [mkE 0 [1; 2]%N false WOk; mkE 1 [3; 4]%N false WOk]). discriminate. }
    simpl. eapply lr_step.
    { apply (ls_chunk false so false [] [mkLS (PWriting false WOk [4]%N) [] []] false WOk [2]%N [] [] [] [1; 3]%N
               q_init [mkE 0 [1; 2]%N false WOk; mkE 1 [3; 4]%N false WOk]). discriminate. }
    simpl. eapply lr_step.
    { apply (ls_chunk false so false [mkLS (PWriting false WOk []) [] []] [] false WOk [4]%N [] [] [] [1; 3; 2]%N
               q_init [mkE 0 [1; 2]%N false WOk; mkE 1 [3; 4]%N false WOk]). discriminate. }
    simpl. eapply lr_step.
    { apply (ls_end false so false [] [mkLS (PWriting false WOk []) [] []] false WOk [] [] [1; 3; 2; 4]%N
               q_init [mkE 0 [1; 2]%N false WOk; mkE 1 [3; 4]%N false WOk]). }
    simpl. eapply lr_step.
    { apply (ls_end false so false [mkLS PIdle [] [true]] [] false WOk [] [] [1; 3; 2; 4]%N
               q_init [mkE 0 [1; 2]%N false WOk; mkE 1 [3; 4]%N false WOk]). }
    simpl. apply lr_refl.
  - unfold lall_done, torn_state. simpl. repeat constructor.
  - intros w Hp. simpl in Hp. apply Permutation_sym in Hp.
    apply Permutation_length_2_inv in Hp as [E|E]; subst; simpl; discriminate.
Qed.

(* Same two senders holding their stanzas, the first write fails: without the lock the
   failed sender's DropLast can take the OTHER sender's entry off the queue, so that
   the stanza that was sent is not held and the one that was not sent is. *)
Definition lost_todos : list (list (str * bool)) := [[([1]%N, true)]; [([2]%N, true)]].
Definition lost_oracle : oracle := fun k => match k with 0 => WErr 0 | _ => WOk end.
Definition lost_state : lstate :=
  mkL false [mkLS PIdle [] [false]; mkLS PIdle [] [true]] [2]%N ([(1%Z, [1]%N)], 1%Z)
      [mkE 0 [1]%N true (WErr 0); mkE 1 [2]%N true WOk].

Lemma nolock_loses_queue_entry :
  lreach false lost_oracle (linit lost_todos) lost_state /\ lall_done lost_state /\
  map snd (q_items (l_queue lost_state)) <> map e_data (filter held_ok (l_log lost_state)).
Proof.
  split; [|split].
  - unfold linit, lost_todos, lost_state. simpl.
    eapply lr_step.
    { apply (ls_begin false lost_oracle false [] [mkLS PIdle [([2]%N, true)] []] [1]%N true [] [] [] q_init []).
      discriminate. }
    simpl. eapply lr_step.
    { apply (ls_begin false lost_oracle false [mkLS (PWriting true (WErr 0) []) [] []] [] [2]%N true [] [] []
               (q_push q_init [1]%N) [mkE 0 [1]%N true (WErr 0)]). discriminate. }
    simpl. eapply lr_step.
    { apply (ls_end false lost_oracle false [] [mkLS (PWriting true WOk [2]%N) [] []] true (WErr 0) [] [] []
               (q_push (q_push q_init [1]%N) [2]%N) [mkE 0 [1]%N true (WErr 0); mkE 1 [2]%N true WOk]). }
    simpl. eapply lr_step.
    { apply (ls_chunk false lost_oracle false [mkLS PIdle [] [false]] [] true WOk [2]%N [] [] [] []
               ([(1%Z, [1]%N)], 1%Z) [mkE 0 [1]%N true (WErr 0); mkE 1 [2]%N true WOk]). discriminate. }
    simpl. eapply lr_step.
    { apply (ls_end false lost_oracle false [mkLS PIdle [] [false]] [] true WOk [] [] [2]%N
               ([(1%Z, [1]%N)], 1%Z) [mkE 0 [1]%N true (WErr 0); mkE 1 [2]%N true WOk]). }
    simpl. apply lr_refl.
  - unfold lall_done, lost_state. simpl. repeat constructor.
  - simpl. discriminate.
Qed.

(* ------------------------------------------------------------------ client ops as senders *)

(* the calls a sender's op list makes on a connected client: its transport writes,
   each with whether the client holds it (Proofs/SendP.v: attempts, pushes) *)
Definition todo_of (cfg : config) (ops : list op) : list (str * bool) :=
  map (fun o => (op_data o, pushes cfg o)) (filter (attempts cfg) ops).

Lemma todo_of_writes : forall cfg ops, map fst (todo_of cfg ops) = writes_of cfg ops.
Proof. intros. unfold todo_of, writes_of. rewrite map_map. reflexivity. Qed.

Lemma todo_data_of : forall cfg senders,
  todo_data (map (todo_of cfg) senders) = map (writes_of cfg) senders.
Proof.
  intros. unfold todo_data. rewrite map_map. apply map_ext. apply todo_of_writes.
Qed.

Lemma lock_makes_writes_atomic : forall cfg (senders : list (list op)) st,
  lreach true (fun _ => WOk) (linit (map (todo_of cfg) senders)) st -> lall_done st ->
  exists w, interleavings (map (writes_of cfg) senders) w /\ l_wire st = concat w.
Proof.
  intros cfg senders st Hr Hd. rewrite <- todo_data_of. eapply lock_wire_is_merge; eauto.
Qed.
