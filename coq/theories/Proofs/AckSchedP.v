(* C10, concurrent senders: the operations of Model/Ack.v run by any number of goroutines, over the
   interleaving semantics of Model/Send.v (cstate / cstep / creach: one step = one goroutine's next
   operation, whole).  What makes an operation one step in the code is Client.sendMu, held by Send and
   SendRaw from before the Push until after the write and by SendMissingStz for all of its work. *)
From Coq Require Import List ZArith NArith Bool Lia.
From XV Require Import Lib.Sx Model.Queue Model.Ack Model.Send Proofs.AckP Proofs.SendP.
Import ListNotations.
Open Scope Z_scope.

(* Whatever the schedule, the order w in which the goroutines' operations took the lock is a merge of their
   programmes (each goroutine's own order kept, every operation once), what is written and held after every one
   of them is what the specification says for that order, and - on one session - the stanza queued under number i
   is the i-th stanza written for the first time: the order of the sequence numbers is the order on the wire. *)
Lemma any_schedule : forall (threads : list (list aop)) rem w,
  creach (threads, []) (rem, w) -> all_done rem ->
  interleavings threads w /\
  map (fun wq => (fst wq, map snd (snd wq))) (a_run a_init w) = sp_run sp_init w /\
  (same_session w ->
   forall i d, In (i, d) (fst (fst (a_exec a_init w))) ->
     1 <= i /\ nth_error (flat_map first_tx w) (Z.to_nat (i - 1)) = Some d).
Proof.
  intros threads rem w Hr Hd.
  destruct (creach_interleaving _ _ _ Hr Hd) as [m [Hm Hw]]. cbn [fst snd app] in Hw, Hm. subst w.
  split; [exact Hm|]. split; [apply AckP.run_refines; exact init_RA|].
  intros Hs. exact (proj2 (wire_order_is_numbering m Hs)).
Qed.

(* and every merge is the order of some schedule *)
Lemma every_order_scheduled : forall (threads : list (list aop)) w,
  interleavings threads w -> exists rem, creach (threads, []) (rem, w) /\ all_done rem.
Proof. intros threads w H. exact (interleaving_creach _ threads w H []). Qed.
