(* Proofs about Model/ClientConfig.v: the parts of the configured JID string reach the
   negotiation unchanged; cutting at the ASCII bytes '@' and '/' commutes with the
   units -> bytes map. *)
From Coq Require Import List ZArith NArith Bool Lia ZifyN ZifyBool.
From XV Require Import Lib.Sx Model.Jid Model.Base64 Model.Sasl Model.ClientConfig
  Proofs.JidP Proofs.Base64P Proofs.SaslP.
Import ListNotations.
Open Scope N_scope.
Ltac Zify.zify_post_hook ::= Z.div_mod_to_equations.

Lemma bytes_of_app a b : bytes_of (a ++ b) = bytes_of a ++ bytes_of b.
Proof. unfold bytes_of. apply flat_map_app. Qed.

Lemma bytes_of_cons u s : bytes_of (u :: s) = enc_unit u ++ bytes_of s.
Proof. reflexivity. Qed.

Lemma enc_unit_ascii c : c < 128 -> enc_unit c = [c].
Proof. intros H. unfold enc_unit. destruct (c <? 128) eqn:E; [reflexivity|lia]. Qed.

Lemma units_ok_app a b : units_ok (a ++ b) = true <-> units_ok a = true /\ units_ok b = true.
Proof. unfold units_ok. rewrite forallb_app, andb_true_iff. reflexivity. Qed.

Lemma units_ok_cons u s : units_ok (u :: s) = true <-> unit_ok u = true /\ units_ok s = true.
Proof. unfold units_ok. cbn [forallb]. rewrite andb_true_iff. reflexivity. Qed.

(* no byte of another unit is the ASCII byte c *)
Lemma enc_unit_no c u : c < 128 -> unit_ok u = true -> u <> c -> ~ In c (enc_unit u).
Proof.
  intros Hc Hu Hne. unfold unit_ok in Hu. unfold enc_unit.
  destruct (u <? 128) eqn:E1.
  { intros [H|[]]. apply Hne. exact H. }
  destruct (u <? 2048) eqn:E2.
  { intros [H|[H|[]]]; lia. }
  destruct (u <? 65536) eqn:E3.
  { intros [H|[H|[H|[]]]]; lia. }
  destruct (u <? 1114112) eqn:E4.
  { intros [H|[H|[H|[H|[]]]]]; lia. }
  intros [H|[]]. lia.
Qed.

Lemma bytes_of_no c s : c < 128 -> units_ok s = true -> ~ In c s -> ~ In c (bytes_of s).
Proof.
  intros Hc. induction s as [|u s IH]; intros Hok Hn; [intros []|].
  apply units_ok_cons in Hok. destruct Hok as [Hu Hs].
  rewrite bytes_of_cons. intros Hin. apply in_app_or in Hin. destruct Hin as [Hin|Hin].
  - revert Hin. apply enc_unit_no; [exact Hc | exact Hu |]. intros ->. apply Hn. left. reflexivity.
  - revert Hin. apply IH; [exact Hs|]. intros Hin. apply Hn. right. exact Hin.
Qed.

(* every byte is a byte *)
Lemma enc_unit_bytes u : unit_ok u = true -> is_bytes (enc_unit u) = true.
Proof.
  intros Hu. unfold unit_ok in Hu. unfold enc_unit, is_bytes.
  destruct (u <? 128) eqn:E1; [cbn [forallb]; lia|].
  destruct (u <? 2048) eqn:E2; [cbn [forallb]; lia|].
  destruct (u <? 65536) eqn:E3; [cbn [forallb]; lia|].
  destruct (u <? 1114112) eqn:E4; cbn [forallb]; lia.
Qed.

Lemma bytes_of_bytes s : units_ok s = true -> is_bytes (bytes_of s) = true.
Proof.
  induction s as [|u s IH]; intros Hok; [reflexivity|].
  apply units_ok_cons in Hok. destruct Hok as [Hu Hs].
  rewrite bytes_of_cons. apply is_bytes_app. split; [apply enc_unit_bytes; exact Hu | apply IH; exact Hs].
Qed.

(* strings.SplitN on the bytes cuts where the units are cut *)
Lemma split_first_bytes c s : c < 128 -> units_ok s = true ->
  split_first c (bytes_of s) =
  match split_first c s with
  | Some (a, b) => Some (bytes_of a, bytes_of b)
  | None => None
  end.
Proof.
  intros Hc Hok. destruct (split_first c s) as [[a b]|] eqn:Hs.
  - apply split_first_some in Hs. destruct Hs as [Heq Hn]. subst s.
    apply units_ok_app in Hok. destruct Hok as [Ha Hb].
    rewrite bytes_of_app, bytes_of_cons, (enc_unit_ascii c Hc). cbn [app].
    apply split_first_app. apply bytes_of_no; assumption.
  - apply split_first_none_inv in Hs. apply split_first_none. apply bytes_of_no; assumption.
Qed.

Lemma c_at_ascii : c_at < 128. Proof. unfold c_at. lia. Qed.
Lemma c_slash_ascii : c_slash < 128. Proof. unfold c_slash. lia. Qed.

Lemma finish_parts n dom j :
  finish n dom = Jid.Ok j ->
  node j = n /\
  domain j = match split_first c_slash dom with Some (d, _) => d | None => dom end /\
  resource j = match split_first c_slash dom with Some (_, r) => r | None => [] end.
Proof.
  unfold finish. intros H.
  destruct (split_first c_slash dom) as [[d r]|].
  - destruct (username_valid n); cbn [negb] in H; [|discriminate].
    destruct (domain_valid d); cbn [negb] in H; [|discriminate].
    inversion H; subst j. repeat split; reflexivity.
  - destruct (username_valid n); cbn [negb] in H; [|discriminate].
    destruct (domain_valid dom); cbn [negb] in H; [|discriminate].
    inversion H; subst j. repeat split; reflexivity.
Qed.

(* the three parts of an accepted JID are the pieces of the configured BYTES *)
Lemma parsed_parts_bytes s j :
  units_ok s = true -> new_jid s = Jid.Ok j ->
  bytes_of (node j) = local_bytes (bytes_of s) /\
  bytes_of (domain j) = domain_bytes (bytes_of s) /\
  bytes_of (resource j) = resource_bytes (bytes_of s).
Proof.
  intros Hok H. unfold local_bytes, domain_bytes, resource_bytes, after_at.
  rewrite (split_first_bytes c_at s c_at_ascii Hok).
  unfold new_jid in H. destruct (is_empty s); [discriminate|].
  destruct (split_first c_at s) as [[l rest]|] eqn:Hs.
  - destruct (is_empty l); [discriminate|]. destruct (is_empty rest); [discriminate|].
    apply split_first_some in Hs. destruct Hs as [Heq _]. subst s.
    apply units_ok_app in Hok. destruct Hok as [_ Hok]. apply units_ok_cons in Hok. destruct Hok as [_ Hrest].
    apply finish_parts in H. destruct H as [Hn [Hd Hr]].
    rewrite (split_first_bytes c_slash rest c_slash_ascii Hrest).
    rewrite Hn, Hd, Hr. destruct (split_first c_slash rest) as [[d r]|]; repeat split; reflexivity.
  - apply finish_parts in H. destruct H as [Hn [Hd Hr]].
    rewrite (split_first_bytes c_slash s c_slash_ascii Hok).
    rewrite Hn, Hd, Hr. destruct (split_first c_slash s) as [[d r]|]; repeat split; reflexivity.
Qed.

Lemma new_client_some jid dom secret p :
  new_client jid dom secret = Some p ->
  exists j, new_jid jid = Jid.Ok j /\ secret <> [] /\
    p_local p = bytes_of (node j) /\ p_resource p = bytes_of (resource j) /\
    p_domain p = (if is_empty dom then bytes_of (domain j) else dom).
Proof.
  unfold new_client. destruct (new_jid jid) as [j|]; [|discriminate].
  destruct secret as [|x secret]; cbn [is_empty]; [discriminate|].
  intros H. inversion H; subst p. exists j. cbn [p_local p_resource p_domain].
  repeat split; try reflexivity. discriminate.
Qed.

Lemma config_parts jid dom secret p :
  units_ok jid = true -> new_client jid dom secret = Some p ->
  p_local p = local_bytes (bytes_of jid) /\
  p_resource p = resource_bytes (bytes_of jid) /\
  p_domain p = (if is_empty dom then domain_bytes (bytes_of jid) else dom).
Proof.
  intros Hok H. apply new_client_some in H. destruct H as [j [Hj [_ [Hl [Hr Hd]]]]].
  destruct (parsed_parts_bytes jid j Hok Hj) as [E1 [E2 E3]].
  rewrite Hl, Hr, Hd, E1, E2, E3. repeat split; reflexivity.
Qed.

Lemma local_bytes_is_bytes b : is_bytes b = true -> is_bytes (local_bytes b) = true.
Proof.
  intros Hb. unfold local_bytes. destruct (split_first c_at b) as [[l r]|] eqn:Hs; [|reflexivity].
  apply split_first_some in Hs. destruct Hs as [Heq _]. subst b.
  apply is_bytes_app in Hb. destruct Hb as [Hl _]. exact Hl.
Qed.

Lemma config_payload_exact jid dom secret pl :
  units_ok jid = true -> is_bytes secret = true ->
  config_plain_payload jid dom secret = Some pl ->
  pl = b64_encode (0 :: local_bytes (bytes_of jid) ++ 0 :: secret) /\
  b64_decode pl = Some (0 :: local_bytes (bytes_of jid) ++ 0 :: secret).
Proof.
  intros Hok Hs H. unfold config_plain_payload in H.
  destruct (new_client jid dom secret) as [p|] eqn:Hc; [|discriminate].
  inversion H; subst pl. destruct (config_parts jid dom secret p Hok Hc) as [Hl _].
  rewrite Hl. split; [reflexivity|].
  apply payload_exact; [|exact Hs]. apply local_bytes_is_bytes. apply bytes_of_bytes. exact Hok.
Qed.

(* the local part is what stands before the first '@' of the configured bytes *)
Lemma local_bytes_prefix b :
  (exists rest, b = local_bytes b ++ c_at :: rest /\ ~ In c_at (local_bytes b)) \/
  (~ In c_at b /\ local_bytes b = []).
Proof.
  unfold local_bytes. destruct (split_first c_at b) as [[l r]|] eqn:Hs.
  - left. apply split_first_some in Hs. destruct Hs as [Heq Hn]. exists r. split; assumption.
  - right. split; [apply split_first_none_inv; exact Hs | reflexivity].
Qed.

Lemma config_refused jid dom secret :
  new_jid jid = Jid.Err \/ secret = [] ->
  new_client jid dom secret = None /\ config_plain_payload jid dom secret = None.
Proof.
  intros H. assert (Hn : new_client jid dom secret = None).
  { unfold new_client. destruct H as [H|H]; [rewrite H; reflexivity|].
    subst secret. destruct (new_jid jid); reflexivity. }
  split; [exact Hn|]. unfold config_plain_payload. rewrite Hn. reflexivity.
Qed.

Lemma config_accepted jid dom secret j :
  new_jid jid = Jid.Ok j -> secret <> [] -> exists p, new_client jid dom secret = Some p.
Proof.
  intros Hj Hs. unfold new_client. rewrite Hj. destruct secret as [|x s]; [congruence|].
  cbn [is_empty]. eexists. reflexivity.
Qed.
