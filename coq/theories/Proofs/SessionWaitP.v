(* "Each request is sent only after the previous step was confirmed" (C03): the ghost
   [o_seen] of every request consists exactly of the server items that confirm the
   request before it ([chain]), and the concatenation of all [o_seen] is a prefix of the
   script, i.e. the ghost really is what the client had read from this server. *)
From Coq Require Import List ZArith NArith Bool.
From XV Require Import Lib.Sx Model.Session Proofs.SessionSpecP.
Import ListNotations.

Lemma chain_cons prev x w :
  chain (Some prev) (x :: w) = confirms prev (o_seen x) && chain (Some (o_req x)) w.
Proof. reflexivity. Qed.

Lemma enable_chain cfg c p f s sn prev :
  confirms prev sn = true -> chain (Some prev) (outs (step_enable cfg c p f s sn)) = true.
Proof.
  intros H. unfold step_enable, outs. destruct (f_sm f && p_sm_enable p); [|reflexivity].
  destruct s as [|[] s']; cbn [fst chain o o_seen o_req]; rewrite H; reflexivity.
Qed.

Lemma session_chain cfg c p f s sn prev :
  confirms prev sn = true -> chain (Some prev) (outs (step_session cfg c p f s sn)) = true.
Proof.
  intros H. unfold step_session. destruct (f_sess f); try (apply enable_chain; exact H).
  destruct s as [|i s']; [cbn; rewrite H; reflexivity|].
  destruct i; try (cbn; rewrite H; reflexivity).
  destruct t; try (cbn; rewrite H; reflexivity).
  pose proof (enable_chain cfg c (set_bind p (p_bind_jid p) (p_packet_id p + 1)) f s'
                [SIq TResult pl err] (RSession (p_packet_id p + 1)) eq_refl) as He.
  unfold outs in *. destruct (step_enable _ _ _ _ _ _) as [[w r] p2]. cbn [fst app] in *.
  rewrite chain_cons. cbn [o o_seen o_req]. rewrite H, He. reflexivity.
Qed.

Lemma bind_chain cfg c p f s sn prev :
  confirms prev sn = true -> chain (Some prev) (outs (step_bind cfg c p f s sn)) = true.
Proof.
  intros H. unfold step_bind.
  destruct s as [|i s']; [cbn; rewrite H; reflexivity|].
  destruct i; try (cbn; rewrite H; reflexivity).
  destruct t; try (cbn; rewrite H; reflexivity).
  destruct pl; try (cbn; rewrite H; reflexivity).
  pose proof (session_chain cfg c (set_bind p jid (p_packet_id p + 1)) f s'
                [SIq TResult (PlBind jid) err] (RBind (c_resource cfg) (p_packet_id p + 1)) eq_refl) as Hs.
  unfold outs in *. destruct (step_session _ _ _ _ _ _) as [[w r] p2]. cbn [fst app] in *.
  rewrite chain_cons. cbn [o o_seen o_req]. rewrite H, Hs. reflexivity.
Qed.

Lemma resume_chain cfg c p f s sn prev :
  confirms prev sn = true -> chain (Some prev) (outs (step_resume cfg c p f s sn)) = true.
Proof.
  intros H. unfold step_resume.
  destruct (f_sm f && negb (str_eqb (p_sm_id p) [])); [|apply bind_chain; exact H].
  destruct s as [|i s']; [cbn; rewrite H; reflexivity|].
  destruct i; try (cbn; rewrite H; reflexivity).
  - destruct (str_eqb previd (p_sm_id p)); cbn; rewrite H; reflexivity.
  - pose proof (bind_chain cfg c (clear_sm p) f s' [SFailed]
                  (RResume (p_sm_id p) (p_inbound p)) eq_refl) as Hb.
    unfold outs in *. destruct (step_bind _ _ _ _ _ _) as [[w r] p2]. cbn [fst app] in *.
    rewrite chain_cons. cbn [o o_seen o_req]. rewrite H, Hb. reflexivity.
Qed.

Lemma auth_chain cfg c p f s sn prev :
  confirms prev sn = true -> chain (Some prev) (outs (step_auth cfg c p f s sn)) = true.
Proof.
  intros H. unfold step_auth. destruct (choose_mech _ _) as [m|]; [|reflexivity].
  destruct (negb (implemented m)); [reflexivity|].
  destruct s as [|i s1]; [cbn; rewrite H; reflexivity|].
  destruct i; try (cbn; rewrite H; reflexivity).
  destruct (read_header s1) as [[id s2]|]; [|cbn; rewrite H; reflexivity].
  destruct (read_features s2) as [[f2 s3]|]; [|cbn; rewrite H; reflexivity].
  pose proof (resume_chain cfg c p f2 s3 [SHeader id; SFeatures f2] ROpen eq_refl) as Hr.
  unfold outs in *. destruct (step_resume _ _ _ _ _ _) as [[w r] p2]. cbn [fst app] in *.
  rewrite !chain_cons. cbn [o o_seen o_req]. rewrite H, Hr. reflexivity.
Qed.

Lemma connect_chain cfg dial tls p s : chain None (outs (connect cfg dial tls p s)) = true.
Proof.
  unfold connect. destruct (negb dial); [reflexivity|].
  destruct (read_header s) as [[id s1]|]; [|reflexivity].
  destruct (read_features s1) as [[f s2]|]; [|reflexivity].
  destruct (f_tls f).
  - destruct (c_insecure cfg); [|reflexivity].
    match goal with |- context [step_auth ?a ?b ?q ?ff ?ss ?sn] =>
      pose proof (auth_chain a b q ff ss sn ROpen eq_refl) as Ha end.
    unfold outs in *. destruct (step_auth _ _ _ _ _ _) as [[w r] p2]. cbn [fst app] in *.
    cbn [chain o o_seen o_req andb]. exact Ha.
  - destruct (read_proceed s2) as [s3|]; [|destruct (c_insecure cfg); reflexivity].
    destruct tls; [|destruct (c_insecure cfg); reflexivity].
    destruct (read_header s3) as [[id1 s4]|]; [|reflexivity].
    destruct (read_features s4) as [[f1 s5]|]; [|reflexivity].
    match goal with |- context [step_auth ?a ?b ?q ?ff ?ss ?sn] =>
      pose proof (auth_chain a b q ff ss sn ROpen eq_refl) as Ha end.
    unfold outs in *. destruct (step_auth _ _ _ _ _ _) as [[w r] p2]. cbn [fst app] in *.
    cbn [chain o o_seen o_req andb confirms]. exact Ha.
  - destruct (read_proceed s2) as [s3|]; [|destruct (c_insecure cfg); reflexivity].
    destruct tls; [|destruct (c_insecure cfg); reflexivity].
    destruct (read_header s3) as [[id1 s4]|]; [|reflexivity].
    destruct (read_features s4) as [[f1 s5]|]; [|reflexivity].
    match goal with |- context [step_auth ?a ?b ?q ?ff ?ss ?sn] =>
      pose proof (auth_chain a b q ff ss sn ROpen eq_refl) as Ha end.
    unfold outs in *. destruct (step_auth _ _ _ _ _ _) as [[w r] p2]. cbn [fst app] in *.
    cbn [chain o o_seen o_req andb confirms]. exact Ha.
Qed.

(* ---------- the ghost is what was read: [consumed] is a prefix of the script ---------- *)
Definition is_prefix (a b : list sitem) : Prop := exists rest, b = a ++ rest.

Lemma prefix_refl_app a r : is_prefix a (a ++ r).
Proof. exists r. reflexivity. Qed.
Lemma prefix_nil b : is_prefix [] b.
Proof. exists b. reflexivity. Qed.
Lemma prefix_app a b c : is_prefix b c -> is_prefix (a ++ b) (a ++ c).
Proof. intros [r ->]. exists r. rewrite app_assoc. reflexivity. Qed.

Lemma consumed_cons x w : consumed (x :: w) = o_seen x ++ consumed w.
Proof. reflexivity. Qed.

Lemma enable_consumed cfg c p f s sn :
  is_prefix (consumed (outs (step_enable cfg c p f s sn))) (sn ++ s).
Proof.
  unfold step_enable, outs. destruct (f_sm f && p_sm_enable p); [|apply prefix_nil].
  assert (H : is_prefix (consumed [o c (REnable (c_sm_resume cfg)) sn]) (sn ++ s)).
  { unfold consumed. cbn. rewrite app_nil_r. apply prefix_refl_app. }
  destruct s as [|[] s']; exact H.
Qed.

Lemma one_consumed c r sn s : is_prefix (consumed [o c r sn]) (sn ++ s).
Proof. unfold consumed. cbn. rewrite app_nil_r. apply prefix_refl_app. Qed.

Lemma session_consumed cfg c p f s sn :
  is_prefix (consumed (outs (step_session cfg c p f s sn))) (sn ++ s).
Proof.
  unfold step_session. destruct (f_sess f); try apply enable_consumed.
  destruct s as [|i s']; [apply one_consumed|].
  destruct i; try apply one_consumed.
  destruct t; try apply one_consumed.
  pose proof (enable_consumed cfg c (set_bind p (p_bind_jid p) (p_packet_id p + 1)) f s' [SIq TResult pl err]) as He.
  unfold outs in *. destruct (step_enable _ _ _ _ _ _) as [[w r] p2]. cbn [fst app] in *.
  rewrite consumed_cons. cbn [o o_seen]. apply prefix_app. exact He.
Qed.

Lemma bind_consumed cfg c p f s sn :
  is_prefix (consumed (outs (step_bind cfg c p f s sn))) (sn ++ s).
Proof.
  unfold step_bind.
  destruct s as [|i s']; [apply one_consumed|].
  destruct i; try apply one_consumed.
  destruct t; try apply one_consumed.
  destruct pl; try apply one_consumed.
  pose proof (session_consumed cfg c (set_bind p jid (p_packet_id p + 1)) f s' [SIq TResult (PlBind jid) err]) as Hs.
  unfold outs in *. destruct (step_session _ _ _ _ _ _) as [[w r] p2]. cbn [fst app] in *.
  rewrite consumed_cons. cbn [o o_seen]. apply prefix_app. exact Hs.
Qed.

Lemma resume_consumed cfg c p f s sn :
  is_prefix (consumed (outs (step_resume cfg c p f s sn))) (sn ++ s).
Proof.
  unfold step_resume.
  destruct (f_sm f && negb (str_eqb (p_sm_id p) [])); [|apply bind_consumed].
  destruct s as [|i s']; [apply one_consumed|].
  destruct i; try apply one_consumed.
  - destruct (str_eqb previd (p_sm_id p)); apply one_consumed.
  - pose proof (bind_consumed cfg c (clear_sm p) f s' [SFailed]) as Hb.
    unfold outs in *. destruct (step_bind _ _ _ _ _ _) as [[w r] p2]. cbn [fst app] in *.
    rewrite consumed_cons. cbn [o o_seen]. apply prefix_app. exact Hb.
Qed.

Lemma auth_consumed cfg c p f s sn :
  is_prefix (consumed (outs (step_auth cfg c p f s sn))) (sn ++ s).
Proof.
  unfold step_auth. destruct (choose_mech _ _) as [m|]; [|apply prefix_nil].
  destruct (negb (implemented m)); [apply prefix_nil|].
  destruct s as [|i s1]; [apply one_consumed|].
  destruct i; try apply one_consumed.
  assert (Htwo : is_prefix (consumed ([o c (RAuth m) sn] ++ [o c ROpen [SSuccess]])) (sn ++ SSuccess :: s1)).
  { unfold consumed. cbn. rewrite ?app_nil_r. apply prefix_app. exists s1. reflexivity. }
  destruct s1 as [|i1 s2]; [exact Htwo|].
  destruct i1; try exact Htwo. cbn [read_header].
  destruct s2 as [|i2 s3]; [exact Htwo|].
  destruct i2; try exact Htwo. cbn [read_features].
  pose proof (resume_consumed cfg c p f0 s3 [SHeader id; SFeatures f0]) as Hr.
  unfold outs in *. destruct (step_resume _ _ _ _ _ _) as [[w r] p2]. cbn [fst app] in *.
  rewrite !consumed_cons. cbn [o o_seen]. apply prefix_app.
  apply (prefix_app [SSuccess]). exact Hr.
Qed.

Lemma connect_consumed cfg dial tls p s :
  is_prefix (consumed (outs (connect cfg dial tls p s))) s.
Proof.
  unfold connect. destruct (negb dial); [apply prefix_nil|].
  destruct s as [|i s1]; [apply prefix_nil|].
  destruct i; try apply prefix_nil. cbn [read_header].
  destruct s1 as [|i1 s2]; [apply prefix_nil|].
  destruct i1; try apply prefix_nil. cbn [read_features].
  assert (Htwo : forall rest, is_prefix (consumed ([o false ROpen []] ++ [o false RStartTls [SHeader id; SFeatures f]]))
                    (SHeader id :: SFeatures f :: rest)).
  { intros rest. exists rest. reflexivity. }
  destruct (f_tls f).
  - destruct (c_insecure cfg); [|apply prefix_nil].
    match goal with |- context [step_auth ?a ?b ?q ?ff ?ss ?sn] =>
      pose proof (auth_consumed a b q ff ss sn) as Ha end.
    unfold outs in *. destruct (step_auth _ _ _ _ _ _) as [[w r] p2]. cbn [fst app] in *.
    rewrite consumed_cons. cbn [o o_seen app]. exact Ha.
  - destruct s2 as [|i2 s3]; [destruct (c_insecure cfg); apply Htwo|].
    destruct i2; try (destruct (c_insecure cfg); apply Htwo). cbn [read_proceed].
    destruct tls; [|destruct (c_insecure cfg); apply Htwo].
    assert (H3 : forall rest, is_prefix (consumed (([o false ROpen []] ++ [o false RStartTls [SHeader id; SFeatures f]]) ++ [o true ROpen [SProceed]]))
                    (SHeader id :: SFeatures f :: SProceed :: rest)).
    { intros rest. exists rest. reflexivity. }
    destruct s3 as [|i3 s4]; [apply H3|]. destruct i3; try apply H3. cbn [read_header].
    destruct s4 as [|i4 s5]; [apply H3|]. destruct i4; try apply H3. cbn [read_features].
    match goal with |- context [step_auth ?a ?b ?q ?ff ?ss ?sn] =>
      pose proof (auth_consumed a b q ff ss sn) as Ha end.
    unfold outs in *. destruct (step_auth _ _ _ _ _ _) as [[w r] p2]. cbn [fst app] in *.
    rewrite !consumed_cons. cbn [o o_seen app].
    apply (prefix_app [SHeader id; SFeatures f; SProceed]). exact Ha.
  - destruct s2 as [|i2 s3]; [destruct (c_insecure cfg); apply Htwo|].
    destruct i2; try (destruct (c_insecure cfg); apply Htwo). cbn [read_proceed].
    destruct tls; [|destruct (c_insecure cfg); apply Htwo].
    assert (H3 : forall rest, is_prefix (consumed (([o false ROpen []] ++ [o false RStartTls [SHeader id; SFeatures f]]) ++ [o true ROpen [SProceed]]))
                    (SHeader id :: SFeatures f :: SProceed :: rest)).
    { intros rest. exists rest. reflexivity. }
    destruct s3 as [|i3 s4]; [apply H3|]. destruct i3; try apply H3. cbn [read_header].
    destruct s4 as [|i4 s5]; [apply H3|]. destruct i4; try apply H3. cbn [read_features].
    match goal with |- context [step_auth ?a ?b ?q ?ff ?ss ?sn] =>
      pose proof (auth_consumed a b q ff ss sn) as Ha end.
    unfold outs in *. destruct (step_auth _ _ _ _ _ _) as [[w r] p2]. cbn [fst app] in *.
    rewrite !consumed_cons. cbn [o o_seen app].
    apply (prefix_app [SHeader id; SFeatures f; SProceed]). exact Ha.
Qed.
