(* Lemmas about Model/Jid.v (C15). *)
From Coq Require Import List NArith Bool.
From XV Require Import Lib.Sx Gen.Generated Model.Jid.
Import ListNotations.
Open Scope N_scope.

(* ---- the character classes of the property, as propositions ---- *)
Definition space_char (c : N) : Prop := In c Generated.unicode_space.
Definition bad_local_char (c : N) : Prop := space_char c \/ In c local_forbidden.
Definition bad_domain_char (c : N) : Prop := space_char c \/ In c domain_forbidden.
Definition valid_local (l : str) : Prop := Forall (fun c => ~ bad_local_char c) l.
Definition valid_domain (d : str) : Prop := d <> [] /\ Forall (fun c => ~ bad_domain_char c) d.

(* ---- booleans vs propositions ---- *)
Lemma mem_In c l : mem c l = true <-> In c l.
Proof.
  unfold mem. rewrite existsb_exists. split.
  - intros [x [Hin Heq]]. apply N.eqb_eq in Heq. subst x. exact Hin.
  - intros Hin. exists c. split; [exact Hin | apply N.eqb_refl].
Qed.

Lemma is_invalid_iff fb c : is_invalid fb c = true <-> (space_char c \/ In c fb).
Proof.
  unfold is_invalid, is_space, space_char.
  destruct (mem c unicode_space) eqn:Hs.
  - apply mem_In in Hs. split; [intros _; left; exact Hs | reflexivity].
  - rewrite mem_In. split; [intros H; right; exact H|].
    intros [H|H]; [|exact H]. apply mem_In in H. congruence.
Qed.

Lemma none_invalid_iff fb s :
  none_invalid fb s = true <-> Forall (fun c => ~ (space_char c \/ In c fb)) s.
Proof.
  unfold none_invalid. rewrite forallb_forall, Forall_forall.
  split; intros H c Hin; specialize (H c Hin).
  - intros Hbad. apply is_invalid_iff in Hbad. rewrite Hbad in H. discriminate.
  - destruct (is_invalid fb c) eqn:Hi; [|reflexivity].
    apply is_invalid_iff in Hi. contradiction.
Qed.

Lemma username_valid_iff l : username_valid l = true <-> valid_local l.
Proof. apply none_invalid_iff. Qed.

Lemma domain_valid_iff d : domain_valid d = true <-> valid_domain d.
Proof.
  unfold domain_valid, valid_domain. destruct d as [|x d]; cbn [is_empty].
  - split; [discriminate | intros [H _]; congruence].
  - rewrite none_invalid_iff. split; [intros H; split; [discriminate | exact H] | intros [_ H]; exact H].
Qed.

Lemma none_invalid_bad fb s1 c s2 :
  (space_char c \/ In c fb) -> none_invalid fb (s1 ++ c :: s2) = false.
Proof.
  intros Hbad. destruct (none_invalid fb (s1 ++ c :: s2)) eqn:H; [|reflexivity].
  apply none_invalid_iff in H. rewrite Forall_forall in H.
  exfalso. apply (H c); [apply in_or_app; right; left; reflexivity | exact Hbad].
Qed.

Lemma valid_local_no_at l : valid_local l -> ~ In c_at l.
Proof.
  intros H Hin. unfold valid_local in H. rewrite Forall_forall in H.
  apply (H _ Hin). right. cbn. auto.
Qed.
Lemma valid_domain_no_at d : valid_domain d -> ~ In c_at d.
Proof.
  intros [_ H] Hin. rewrite Forall_forall in H. apply (H _ Hin). right. cbn. auto.
Qed.
Lemma valid_domain_no_slash d : valid_domain d -> ~ In c_slash d.
Proof.
  intros [_ H] Hin. rewrite Forall_forall in H. apply (H _ Hin). right. cbn. auto.
Qed.

(* ---- the forbidden sets, written out in code-point order: dquote amp apos slash colon lt gt at ---- *)
Definition rfc_local_forbidden : list N := [34; 38; 39; 47; 58; 60; 62; 64].
Definition xml_domain_forbidden : list N := [34; 38; 39; 47; 60; 62; 64].

Lemma local_forbidden_set c : In c local_forbidden <-> In c rfc_local_forbidden.
Proof. unfold local_forbidden, rfc_local_forbidden. cbn [In]. tauto. Qed.
Lemma domain_forbidden_set c : In c domain_forbidden <-> In c xml_domain_forbidden.
Proof. unfold domain_forbidden, xml_domain_forbidden. cbn [In]. tauto. Qed.

Lemma bad_local_char_set c : bad_local_char c <-> (space_char c \/ In c rfc_local_forbidden).
Proof. unfold bad_local_char. rewrite local_forbidden_set. tauto. Qed.
Lemma bad_domain_char_set c : bad_domain_char c <-> (space_char c \/ In c xml_domain_forbidden).
Proof. unfold bad_domain_char. rewrite domain_forbidden_set. tauto. Qed.

(* ---- split_first = SplitN(s, c, 2) ---- *)
Lemma split_first_app c a b : ~ In c a -> split_first c (a ++ c :: b) = Some (a, b).
Proof.
  induction a as [|x a IH]; intros Hn; cbn [app split_first].
  - rewrite N.eqb_refl. reflexivity.
  - destruct (N.eqb x c) eqn:E.
    + apply N.eqb_eq in E. exfalso. apply Hn. left. exact E.
    + rewrite IH; [reflexivity|]. intros Hin. apply Hn. right. exact Hin.
Qed.

Lemma split_first_none c s : ~ In c s -> split_first c s = None.
Proof.
  induction s as [|x s IH]; intros Hn; cbn [split_first]; [reflexivity|].
  destruct (N.eqb x c) eqn:E.
  - apply N.eqb_eq in E. exfalso. apply Hn. left. exact E.
  - rewrite IH; [reflexivity|]. intros Hin. apply Hn. right. exact Hin.
Qed.

Lemma split_first_some c s a b :
  split_first c s = Some (a, b) -> s = a ++ c :: b /\ ~ In c a.
Proof.
  revert a. induction s as [|x s IH]; intros a H; cbn [split_first] in H; [discriminate|].
  destruct (N.eqb x c) eqn:E.
  - apply N.eqb_eq in E. inversion H; subst. split; [reflexivity | intros []].
  - destruct (split_first c s) as [[a' b']|] eqn:Hs; [|discriminate].
    inversion H; subst. destruct (IH a' eq_refl) as [Heq Hn]. split.
    + cbn [app]. rewrite <- Heq. reflexivity.
    + intros [Hx|Hin]; [|exact (Hn Hin)]. subst x. rewrite N.eqb_refl in E. discriminate.
Qed.

Lemma split_first_none_inv c s : split_first c s = None -> ~ In c s.
Proof.
  induction s as [|x s IH]; intros H; cbn [split_first] in H; [intros []|].
  destruct (N.eqb x c) eqn:E; [discriminate|].
  destruct (split_first c s) as [[a' b']|] eqn:Hs; [discriminate|].
  intros [Hx|Hin]; [|exact (IH eq_refl Hin)]. subst x. rewrite N.eqb_refl in E. discriminate.
Qed.

Lemma is_empty_false (s : str) : s <> [] -> is_empty s = false.
Proof. destruct s; [congruence | reflexivity]. Qed.
Lemma is_empty_app_cons (a : str) x b : is_empty (a ++ x :: b) = false.
Proof. destruct a; reflexivity. Qed.

Lemma not_in_app (c : N) a b : ~ In c a -> ~ In c b -> ~ In c (a ++ b).
Proof. intros Ha Hb Hin. apply in_app_or in Hin. tauto. Qed.
Lemma not_in_cons (c x : N) b : x <> c -> ~ In c b -> ~ In c (x :: b).
Proof. intros Hx Hb [H|H]; tauto. Qed.
Lemma slash_neq_at : c_slash <> c_at.
Proof. discriminate. Qed.

(* ---- NewJid: the two halves ---- *)
Lemma new_jid_local l rest :
  ~ In c_at l -> l <> [] -> rest <> [] -> new_jid (l ++ c_at :: rest) = finish l rest.
Proof.
  intros Hat Hl Hr. unfold new_jid.
  rewrite is_empty_app_cons, (split_first_app _ _ _ Hat).
  rewrite (is_empty_false _ Hl), (is_empty_false _ Hr). reflexivity.
Qed.

Lemma new_jid_no_at s : s <> [] -> ~ In c_at s -> new_jid s = finish [] s.
Proof.
  intros Hs Hat. unfold new_jid.
  rewrite (is_empty_false _ Hs), (split_first_none _ _ Hat). reflexivity.
Qed.

Lemma finish_res n d r :
  valid_local n -> valid_domain d -> finish n (d ++ c_slash :: r) = Ok (mkJid n d r).
Proof.
  intros Hn Hd. unfold finish.
  rewrite (split_first_app _ _ _ (valid_domain_no_slash _ Hd)).
  apply username_valid_iff in Hn. apply domain_valid_iff in Hd.
  rewrite Hn, Hd. reflexivity.
Qed.

Lemma finish_nores n d :
  valid_local n -> valid_domain d -> finish n d = Ok (mkJid n d []).
Proof.
  intros Hn Hd. unfold finish.
  rewrite (split_first_none _ _ (valid_domain_no_slash _ Hd)).
  apply username_valid_iff in Hn. apply domain_valid_iff in Hd.
  rewrite Hn, Hd. reflexivity.
Qed.

Lemma finish_bad_local n dom s1 c s2 :
  n = s1 ++ c :: s2 -> bad_local_char c -> finish n dom = Err.
Proof.
  intros -> Hbad. unfold finish.
  destruct (match split_first c_slash dom with None => (dom, []) | Some (d, r) => (d, r) end) as [d r].
  unfold username_valid. rewrite (none_invalid_bad _ _ _ _ Hbad). reflexivity.
Qed.

Lemma domain_valid_bad s1 c s2 : bad_domain_char c -> domain_valid (s1 ++ c :: s2) = false.
Proof.
  intros Hbad. unfold domain_valid. rewrite is_empty_app_cons.
  apply none_invalid_bad. exact Hbad.
Qed.

Lemma finish_bad_domain_nores n s1 c s2 :
  ~ In c_slash (s1 ++ c :: s2) -> bad_domain_char c -> finish n (s1 ++ c :: s2) = Err.
Proof.
  intros Hsl Hbad. unfold finish. rewrite (split_first_none _ _ Hsl).
  rewrite (domain_valid_bad _ _ _ Hbad). destruct (username_valid n); reflexivity.
Qed.

Lemma finish_bad_domain_res n s1 c s2 r :
  ~ In c_slash (s1 ++ c :: s2) -> bad_domain_char c ->
  finish n ((s1 ++ c :: s2) ++ c_slash :: r) = Err.
Proof.
  intros Hsl Hbad. unfold finish. rewrite (split_first_app _ _ _ Hsl).
  rewrite (domain_valid_bad _ _ _ Hbad). destruct (username_valid n); reflexivity.
Qed.

(* ---- parse_parts ---- *)
Lemma parse_ldr l d r :
  valid_local l -> l <> [] -> valid_domain d ->
  new_jid (l ++ [c_at] ++ d ++ [c_slash] ++ r) = Ok (mkJid l d r).
Proof.
  intros Hl Hne Hd. cbn [app].
  rewrite (new_jid_local _ _ (valid_local_no_at _ Hl) Hne).
  - apply finish_res; assumption.
  - destruct d; discriminate.
Qed.

Lemma parse_ld l d :
  valid_local l -> l <> [] -> valid_domain d ->
  new_jid (l ++ [c_at] ++ d) = Ok (mkJid l d []).
Proof.
  intros Hl Hne Hd. cbn [app].
  rewrite (new_jid_local _ _ (valid_local_no_at _ Hl) Hne).
  - apply finish_nores; assumption.
  - exact (proj1 Hd).
Qed.

Lemma valid_local_nil : valid_local [].
Proof. constructor. Qed.

Lemma parse_dr d r :
  valid_domain d -> ~ In c_at r ->
  new_jid (d ++ [c_slash] ++ r) = Ok (mkJid [] d r).
Proof.
  intros Hd Hr. cbn [app]. rewrite new_jid_no_at.
  - apply finish_res; [exact valid_local_nil | exact Hd].
  - destruct d; discriminate.
  - apply not_in_app; [exact (valid_domain_no_at _ Hd)|].
    apply not_in_cons; [exact slash_neq_at | exact Hr].
Qed.

Lemma parse_d d : valid_domain d -> new_jid d = Ok (mkJid [] d []).
Proof.
  intros Hd. rewrite new_jid_no_at.
  - apply finish_nores; [exact valid_local_nil | exact Hd].
  - exact (proj1 Hd).
  - exact (valid_domain_no_at _ Hd).
Qed.

(* ---- rejects ---- *)
Lemma rej_empty : new_jid [] = Err.
Proof. reflexivity. Qed.

Lemma rej_empty_local x : new_jid (c_at :: x) = Err.
Proof. reflexivity. Qed.

(* l is the text before the first '@' *)
Lemma rej_empty_domain l : ~ In c_at l -> new_jid (l ++ [c_at]) = Err.
Proof.
  intros Hat. unfold new_jid. rewrite is_empty_app_cons, (split_first_app _ _ _ Hat).
  destruct (is_empty l); reflexivity.
Qed.

Lemma finish_empty_domain n r : finish n (c_slash :: r) = Err.
Proof. unfold finish. cbn. destruct (username_valid n); reflexivity. Qed.

Lemma rej_empty_domain_res l r : ~ In c_at l -> new_jid (l ++ [c_at; c_slash] ++ r) = Err.
Proof.
  intros Hat. unfold new_jid. cbn [app].
  rewrite is_empty_app_cons, (split_first_app _ _ _ Hat).
  destruct (is_empty l); [reflexivity|]. cbn [is_empty]. apply finish_empty_domain.
Qed.

Lemma rej_bad_local l1 c l2 rest :
  ~ In c_at (l1 ++ c :: l2) -> bad_local_char c ->
  new_jid ((l1 ++ c :: l2) ++ [c_at] ++ rest) = Err.
Proof.
  intros Hat Hbad. unfold new_jid. cbn [app].
  rewrite is_empty_app_cons, (split_first_app _ _ _ Hat), is_empty_app_cons.
  destruct (is_empty rest); [reflexivity|].
  apply (finish_bad_local _ _ l1 c l2); [reflexivity | exact Hbad].
Qed.

Lemma rej_bad_domain_local l d1 c d2 r :
  ~ In c_at l -> ~ In c_slash (d1 ++ c :: d2) -> bad_domain_char c ->
  new_jid (l ++ [c_at] ++ (d1 ++ c :: d2)) = Err /\
  new_jid (l ++ [c_at] ++ (d1 ++ c :: d2) ++ [c_slash] ++ r) = Err.
Proof.
  intros Hat Hsl Hbad. unfold new_jid. cbn [app].
  rewrite !is_empty_app_cons, !(split_first_app _ _ _ Hat).
  destruct (is_empty l); [split; reflexivity|].
  rewrite !is_empty_app_cons. split.
  - apply finish_bad_domain_nores; assumption.
  - apply finish_bad_domain_res; assumption.
Qed.

Lemma rej_bad_domain_only d1 c d2 r :
  ~ In c_at (d1 ++ c :: d2) -> ~ In c_slash (d1 ++ c :: d2) -> ~ In c_at r -> bad_domain_char c ->
  new_jid (d1 ++ c :: d2) = Err /\
  new_jid ((d1 ++ c :: d2) ++ [c_slash] ++ r) = Err.
Proof.
  intros Hat Hsl Hr Hbad. split.
  - rewrite new_jid_no_at; [| destruct d1; discriminate | exact Hat].
    apply finish_bad_domain_nores; assumption.
  - cbn [app]. rewrite new_jid_no_at.
    + apply finish_bad_domain_res; assumption.
    + destruct d1; discriminate.
    + apply not_in_app; [exact Hat|]. apply not_in_cons; [exact slash_neq_at | exact Hr].
Qed.

(* ---- what a successful parse guarantees ---- *)
Lemma finish_ok n dom j :
  finish n dom = Ok j ->
  node j = n /\ valid_local n /\ valid_domain (domain j) /\
  ((dom = domain j /\ resource j = []) \/ dom = domain j ++ c_slash :: resource j).
Proof.
  unfold finish. intros H.
  destruct (split_first c_slash dom) as [[d r]|] eqn:Hs.
  - destruct (username_valid n) eqn:Hu; cbn [negb] in H; [|discriminate].
    destruct (domain_valid d) eqn:Hd; cbn [negb] in H; [|discriminate].
    inversion H; subst j; cbn [node domain resource].
    apply username_valid_iff in Hu. apply domain_valid_iff in Hd.
    apply split_first_some in Hs. destruct Hs as [Heq _].
    split; [reflexivity|]. split; [exact Hu|]. split; [exact Hd|]. right. exact Heq.
  - destruct (username_valid n) eqn:Hu; cbn [negb] in H; [|discriminate].
    destruct (domain_valid dom) eqn:Hd; cbn [negb] in H; [|discriminate].
    inversion H; subst j; cbn [node domain resource].
    apply username_valid_iff in Hu. apply domain_valid_iff in Hd.
    split; [reflexivity|]. split; [exact Hu|]. split; [exact Hd|]. left. split; reflexivity.
Qed.

Lemma parsed_wf s j :
  new_jid s = Ok j ->
  valid_local (node j) /\ valid_domain (domain j) /\
  (node j = [] -> ~ In c_at (resource j)).
Proof.
  unfold new_jid. intros H.
  destruct (is_empty s) eqn:Hes; [discriminate|].
  destruct (split_first c_at s) as [[l rest]|] eqn:Hs.
  - destruct (is_empty l) eqn:Hel; [discriminate|].
    destruct (is_empty rest) eqn:Her; [discriminate|].
    apply finish_ok in H. destruct H as [Hn [Hl [Hd _]]].
    rewrite Hn. split; [exact Hl|]. split; [exact Hd|].
    intros ->. discriminate.
  - apply split_first_none_inv in Hs.
    apply finish_ok in H. destruct H as [Hn [Hl [Hd Hshape]]].
    rewrite Hn. split; [exact Hl|]. split; [exact Hd|]. intros _.
    destruct Hshape as [[_ Hr]|Heq].
    + rewrite Hr. intros [].
    + intros Hin. apply Hs. rewrite Heq. apply in_or_app. right. right. exact Hin.
Qed.

(* ---- round trip ---- *)
Lemma roundtrip_wf j :
  valid_local (node j) -> valid_domain (domain j) ->
  (node j = [] -> ~ In c_at (resource j)) ->
  new_jid (full j) = Ok j /\ new_jid (bare j) = Ok (strip_resource j).
Proof.
  destruct j as [n d r]. cbn [node domain resource]. intros Hl Hd Hr.
  assert (Hbare : new_jid (bare (mkJid n d r)) = Ok (mkJid n d [])).
  { unfold bare. cbn [node domain]. destruct n as [|x n]; cbn [is_empty].
    - apply parse_d. exact Hd.
    - apply parse_ld; [exact Hl | discriminate | exact Hd]. }
  split; [|exact Hbare].
  unfold full. cbn [node domain resource].
  destruct r as [|y r]; cbn [is_empty]; [exact Hbare|].
  destruct n as [|x n]; cbn [is_empty].
  - apply parse_dr; [exact Hd | exact (Hr eq_refl)].
  - apply parse_ldr; [exact Hl | discriminate | exact Hd].
Qed.

Lemma roundtrip s j :
  new_jid s = Ok j ->
  new_jid (full j) = Ok j /\ new_jid (bare j) = Ok (strip_resource j).
Proof.
  intros H. destruct (parsed_wf _ _ H) as [Hl [Hd Hr]].
  apply roundtrip_wf; assumption.
Qed.

(* every accepted string is one of the four forms (so parse_parts describes every
   success; a trailing '/' with nothing after it reads as "no resource") *)
Lemma parsed_form_strict s j :
  new_jid s = Ok j -> s = full j \/ (resource j = [] /\ s = full j ++ [c_slash]).
Proof.
  unfold new_jid. intros H.
  destruct (is_empty s) eqn:Hes; [discriminate|].
  destruct (split_first c_at s) as [[l rest]|] eqn:Hs.
  - destruct (is_empty l) eqn:Hel; [discriminate|].
    destruct (is_empty rest) eqn:Her; [discriminate|].
    apply split_first_some in Hs. destruct Hs as [Hseq _].
    apply finish_ok in H. destruct H as [Hn [_ [_ Hshape]]].
    destruct j as [n d r]. cbn [node domain resource] in *. subst n.
    unfold full, bare. cbn [node domain resource]. rewrite Hel.
    destruct Hshape as [[Hd Hr]|Hd]; subst rest s.
    + subst r. cbn [is_empty app]. left. reflexivity.
    + destruct r as [|y r]; cbn [is_empty app].
      * right. split; [reflexivity|]. rewrite <- app_assoc. reflexivity.
      * left. reflexivity.
  - apply finish_ok in H. destruct H as [Hn [_ [_ Hshape]]].
    destruct j as [n d r]. cbn [node domain resource] in *. subst n.
    unfold full, bare. cbn [node domain resource is_empty].
    destruct Hshape as [[Hd Hr]|Hd]; subst s.
    + subst r. cbn [is_empty]. left. reflexivity.
    + destruct r as [|y r]; cbn [is_empty app].
      * right. split; reflexivity.
      * left. reflexivity.
Qed.

Lemma parsed_form s j :
  new_jid s = Ok j -> s = full j \/ s = full j ++ [c_slash].
Proof.
  intros H. destruct (parsed_form_strict _ _ H) as [E|[_ E]]; [left | right]; exact E.
Qed.

(* ---- the converse of parse_parts: acceptance characterised ---- *)
(* a well-formed address with an empty resource and a trailing '/' parses to the same JID *)
Lemma accepted_trailing_slash j :
  valid_local (node j) -> valid_domain (domain j) -> resource j = [] ->
  new_jid (full j ++ [c_slash]) = Ok j.
Proof.
  destruct j as [n d r]. cbn [node domain resource]. intros Hl Hd ->.
  unfold full, bare. cbn [node domain resource is_empty].
  destruct n as [|x n]; cbn [is_empty].
  - exact (parse_dr d [] Hd (fun F => F)).
  - replace (((x :: n) ++ [c_at] ++ d) ++ [c_slash])
      with ((x :: n) ++ [c_at] ++ d ++ [c_slash] ++ []).
    + apply parse_ldr; [exact Hl | discriminate | exact Hd].
    + cbn [app]. rewrite <- !app_assoc. reflexivity.
Qed.

(* A string is accepted with result j exactly when j is a well-formed triple and the
   string is its rendering (optionally followed by one '/', when j has no resource). *)
Lemma accepts_iff s j :
  new_jid s = Ok j <->
  (valid_local (node j) /\ valid_domain (domain j) /\
   (node j = [] -> ~ In c_at (resource j)) /\
   (s = full j \/ (resource j = [] /\ s = full j ++ [c_slash]))).
Proof.
  split.
  - intros H. destruct (parsed_wf _ _ H) as [Hl [Hd Hr]].
    split; [exact Hl|]. split; [exact Hd|]. split; [exact Hr|]. exact (parsed_form_strict _ _ H).
  - intros [Hl [Hd [Hr [E|[Hres E]]]]]; subst s.
    + exact (proj1 (roundtrip_wf j Hl Hd Hr)).
    + exact (accepted_trailing_slash j Hl Hd Hres).
Qed.

(* ... and rejected exactly when no well-formed triple renders to it: the list of
   C15_rejects is complete. *)
Lemma rejects_iff s :
  new_jid s = Err <->
  (forall j, valid_local (node j) -> valid_domain (domain j) ->
     (node j = [] -> ~ In c_at (resource j)) ->
     s <> full j /\ ~ (resource j = [] /\ s = full j ++ [c_slash])).
Proof.
  split.
  - intros H j Hl Hd Hr.
    split; intros E;
      assert (Hok : new_jid s = Ok j) by (apply accepts_iff; tauto);
      rewrite H in Hok; discriminate.
  - intros H. destruct (new_jid s) as [j|] eqn:Hn; [|reflexivity]. exfalso.
    apply accepts_iff in Hn. destruct Hn as [Hl [Hd [Hr Hs]]].
    destruct (H j Hl Hd Hr) as [H1 H2]. destruct Hs as [E|E]; [exact (H1 E) | exact (H2 E)].
Qed.

(* ---- the white-space table: Unicode White_Space, 25 code points.  Fails (on purpose)
   when the toolchain's table, re-dumped into Gen/Generated.v on every run, differs. ---- *)
Definition white_space_table : list N :=
  [9; 10; 11; 12; 13; 32; 133; 160; 5760; 8192; 8193; 8194; 8195; 8196; 8197; 8198; 8199;
   8200; 8201; 8202; 8232; 8233; 8239; 8287; 12288].

Lemma unicode_space_table : Generated.unicode_space = white_space_table.
Proof. reflexivity. Qed.

Lemma space_char_iff c : space_char c <-> In c white_space_table.
Proof. unfold space_char. rewrite unicode_space_table. tauto. Qed.

(* Units at or above 0x110000 (how the correspondence run encodes a byte that is not
   part of valid UTF-8: 0x110000 + byte) and U+FFFD (what Go's rune functions see for
   such a byte) are in neither rejected class: an invalid byte is an ordinary character. *)
Lemma high_unit_ok c : 1114112 <= c \/ c = 65533 -> ~ bad_local_char c /\ ~ bad_domain_char c.
Proof.
  intros Hc. split; intros [Hs|Hf].
  - apply space_char_iff in Hs. unfold white_space_table in Hs. cbn [In] in Hs.
    repeat (destruct Hs as [Hs|Hs]; [subst c; destruct Hc as [Hc|Hc]; [apply Hc; reflexivity | discriminate]|]).
    exact Hs.
  - unfold local_forbidden in Hf. cbn [In] in Hf.
    repeat (destruct Hf as [Hf|Hf]; [subst c; destruct Hc as [Hc|Hc]; [apply Hc; reflexivity | discriminate]|]).
    exact Hf.
  - apply space_char_iff in Hs. unfold white_space_table in Hs. cbn [In] in Hs.
    repeat (destruct Hs as [Hs|Hs]; [subst c; destruct Hc as [Hc|Hc]; [apply Hc; reflexivity | discriminate]|]).
    exact Hs.
  - unfold domain_forbidden in Hf. cbn [In] in Hf.
    repeat (destruct Hf as [Hf|Hf]; [subst c; destruct Hc as [Hc|Hc]; [apply Hc; reflexivity | discriminate]|]).
    exact Hf.
Qed.

(* ---- histories: a parse never depends on what was parsed before or on what callers did
   with the values they were handed ---- *)
Lemma run_hist_pure : forall (h : list hstep) (heap : list (option jid)),
  run_hist heap h = map step_obs h.
Proof.
  induction h as [|st t IH]; intros heap; [reflexivity|].
  simpl. destruct (hist_step heap st) as [heap' o] eqn:E.
  rewrite IH. f_equal.
  destruct st; simpl in E; inversion E; reflexivity.
Qed.

Lemma run_hist_last_parse : forall (pre1 pre2 : list hstep) (heap1 heap2 : list (option jid)) (s : str),
  last (run_hist heap1 (pre1 ++ [HParse s])) OMut = OParse (new_jid s) /\
  last (run_hist heap2 (pre2 ++ [HParse s])) OMut = OParse (new_jid s).
Proof.
  intros pre1 pre2 heap1 heap2 s. rewrite !run_hist_pure, !map_app. simpl.
  rewrite !last_last. split; reflexivity.
Qed.
