(* Base64: alphabet of the encoder's output and decode (encode l) = l for every
   byte string, by induction on the input in steps of three bytes. *)
From Coq Require Import List NArith ZArith Bool Lia.
From XV Require Import Lib.Sx Model.Base64.
Import ListNotations.
Open Scope N_scope.

Ltac Zify.zify_post_hook ::= Z.to_euclidean_division_equations.

(* ---- induction in steps of three ---- *)
Lemma list_ind3 {A} (P : list A -> Prop) :
  P [] -> (forall a, P [a]) -> (forall a b, P [a; b]) ->
  (forall a b c r, P r -> P (a :: b :: c :: r)) -> forall l, P l.
Proof.
  intros H0 H1 H2 H3. fix IH 1. intros l.
  destruct l as [|a [|b [|c r]]]; [exact H0|apply H1|apply H2|].
  apply H3. apply IH.
Qed.

(* ---- comparisons to propositions ---- *)
Ltac cmp :=
  repeat match goal with
  | |- context [N.ltb ?a ?b] => destruct (N.ltb_spec a b)
  | |- context [N.leb ?a ?b] => destruct (N.leb_spec a b)
  | |- context [N.eqb ?a ?b] => destruct (N.eqb_spec a b)
  end.

(* ---- the alphabet ---- *)
Lemma b64_char_cases n :
  (n < 26 /\ b64_char n = 65 + n) \/ (26 <= n < 52 /\ b64_char n = 71 + n) \/
  (52 <= n < 62 /\ b64_char n = n - 4) \/ (n = 62 /\ b64_char n = 43) \/
  (62 < n /\ b64_char n = 47).
Proof.
  unfold b64_char.
  destruct (N.ltb_spec n 26); [left; split; [assumption|reflexivity]|right].
  destruct (N.ltb_spec n 52); [left; split; [lia|reflexivity]|right].
  destruct (N.ltb_spec n 62); [left; split; [lia|reflexivity]|right].
  destruct (N.eqb_spec n 62); [left; split; [assumption|reflexivity]|right].
  split; [lia|reflexivity].
Qed.

Lemma text_spec c :
  is_b64_text c = true <->
  (65 <= c <= 90) \/ (97 <= c <= 122) \/ (48 <= c <= 57) \/ c = 43 \/ c = 47 \/ c = 61.
Proof.
  unfold is_b64_text.
  rewrite !orb_true_iff, !andb_true_iff, !N.leb_le, !N.eqb_eq. tauto.
Qed.

Lemma b64_char_text n : is_b64_text (b64_char n) = true.
Proof.
  apply text_spec.
  destruct (b64_char_cases n) as [[H E]|[[H E]|[[H E]|[[H E]|[H E]]]]]; rewrite E; lia.
Qed.

Lemma b64_char_not_pad n : (b64_char n =? b64_pad) = false.
Proof.
  unfold b64_pad.
  destruct (b64_char_cases n) as [[H E]|[[H E]|[[H E]|[[H E]|[H E]]]]]; rewrite E;
    cmp; try reflexivity; lia.
Qed.

Lemma text_not_newline c : is_b64_text c = true -> is_newline c = false.
Proof.
  rewrite text_spec. intros Ht. unfold is_newline.
  apply orb_false_iff. rewrite !N.eqb_neq. lia.
Qed.

(* no XML markup character (lt, gt, amp, quot, apos) and no byte above 127 *)
Definition xml_plain (c : N) : bool :=
  negb ((c =? 60) || (c =? 62) || (c =? 38) || (c =? 34) || (c =? 39)) && (c <? 128).
Lemma text_xml_plain c : is_b64_text c = true -> xml_plain c = true.
Proof.
  rewrite text_spec. intros Ht. unfold xml_plain.
  apply andb_true_iff. rewrite negb_true_iff, !orb_false_iff, !N.eqb_neq, N.ltb_lt. lia.
Qed.

Lemma encode_text l : Forall (fun c => is_b64_text c = true) (b64_encode l).
Proof.
  induction l as [|a|a b|a b c r IH] using list_ind3; cbn [b64_encode];
    repeat (constructor; try apply b64_char_text); try reflexivity.
  exact IH.
Qed.

(* ---- 6-bit values survive the alphabet ---- *)
Definition sixbit : list N := map N.of_nat (seq 0 64).
Lemma sixbit_in n : n < 64 -> In n sixbit.
Proof.
  intros Hn. unfold sixbit. rewrite <- (N2Nat.id n). apply in_map.
  apply in_seq. lia.
Qed.
Lemma b64_val_char_all :
  forallb (fun n => match b64_val (b64_char n) with Some m => m =? n | None => false end)
          sixbit = true.
Proof. vm_compute. reflexivity. Qed.
Lemma b64_val_char n : n < 64 -> b64_val (b64_char n) = Some n.
Proof.
  intros Hn. pose proof b64_val_char_all as Hall. rewrite forallb_forall in Hall.
  specialize (Hall n (sixbit_in n Hn)).
  destruct (b64_val (b64_char n)) as [m|]; [|discriminate Hall].
  apply N.eqb_eq in Hall. congruence.
Qed.

(* ---- byte arithmetic ---- *)
Lemma grp_bounds a b c : a < 256 -> b < 256 -> c < 256 ->
  a / 4 < 64 /\ (a mod 4) * 16 + b / 16 < 64 /\ (b mod 16) * 4 + c / 64 < 64 /\
  c mod 64 < 64 /\ (a mod 4) * 16 < 64 /\ (b mod 16) * 4 < 64.
Proof. intros Ha Hb Hc. repeat split; lia. Qed.

Lemma grp_first a b : a < 256 -> b < 256 ->
  (a / 4) * 4 + ((a mod 4) * 16 + b / 16) / 16 = a.
Proof. intros Ha Hb. lia. Qed.
Lemma grp_second a b c : a < 256 -> b < 256 -> c < 256 ->
  (((a mod 4) * 16 + b / 16) mod 16) * 16 + ((b mod 16) * 4 + c / 64) / 4 = b.
Proof. intros Ha Hb Hc. lia. Qed.
Lemma grp_third b c : b < 256 -> c < 256 ->
  (((b mod 16) * 4 + c / 64) mod 4) * 64 + c mod 64 = c.
Proof. intros Hb Hc. lia. Qed.

(* ---- decode after encode ---- *)
Lemma is_bytes_cons a l : is_bytes (a :: l) = true <-> a < 256 /\ is_bytes l = true.
Proof.
  unfold is_bytes. cbn [forallb]. rewrite andb_true_iff, N.ltb_lt. reflexivity.
Qed.

Lemma dec_groups_encode l : is_bytes l = true -> dec_groups (b64_encode l) = Some l.
Proof.
  induction l as [|a|a b|a b c r IH] using list_ind3; intros Hb.
  - reflexivity.
  - apply is_bytes_cons in Hb as [Ha _].
    destruct (grp_bounds a 0 0 Ha) as (B1 & B2 & _ & _ & B5 & _); [lia|lia|].
    cbn [b64_encode dec_groups]. rewrite N.eqb_refl.
    unfold dec_padded. rewrite (b64_val_char _ B1), (b64_val_char _ B5).
    cbn [obind]. rewrite N.eqb_refl. f_equal. f_equal.
    pose proof (grp_first a 0 Ha) as E. rewrite N.add_0_r in E. apply E. lia.
  - apply is_bytes_cons in Hb as [Ha Hb]. apply is_bytes_cons in Hb as [Hb _].
    destruct (grp_bounds a b 0 Ha Hb) as (B1 & B2 & _ & _ & _ & B6); [lia|].
    cbn [b64_encode dec_groups]. rewrite N.eqb_refl.
    unfold dec_padded. rewrite (b64_val_char _ B1), (b64_val_char _ B2).
    cbn [obind]. rewrite b64_char_not_pad, (b64_val_char _ B6). cbn [obind].
    f_equal. f_equal; [apply grp_first; assumption|]. f_equal.
    pose proof (grp_second a b 0 Ha Hb) as E. rewrite N.add_0_r in E. apply E. lia.
  - apply is_bytes_cons in Hb as [Ha Hb]. apply is_bytes_cons in Hb as [Hb Hc].
    apply is_bytes_cons in Hc as [Hc Hr].
    destruct (grp_bounds a b c Ha Hb Hc) as (B1 & B2 & B3 & B4 & _ & _).
    cbn [b64_encode dec_groups]. rewrite b64_char_not_pad.
    unfold dec_full.
    rewrite (b64_val_char _ B1), (b64_val_char _ B2), (b64_val_char _ B3), (b64_val_char _ B4).
    cbn [obind]. rewrite (IH Hr). cbn [obind app].
    rewrite grp_first, grp_second, grp_third by assumption. reflexivity.
Qed.

Lemma filter_all {A} (f : A -> bool) l : Forall (fun x => f x = true) l -> filter f l = l.
Proof.
  induction 1 as [|x l Hx _ IH]; [reflexivity|]. cbn [filter]. rewrite Hx, IH. reflexivity.
Qed.

Lemma encode_no_newline l :
  filter (fun c => negb (is_newline c)) (b64_encode l) = b64_encode l.
Proof.
  apply filter_all. eapply Forall_impl; [|apply encode_text].
  cbn beta. intros c Hc. rewrite (text_not_newline c Hc). reflexivity.
Qed.

(* the round trip, for every byte string *)
Lemma b64_roundtrip l : is_bytes l = true -> b64_decode (b64_encode l) = Some l.
Proof.
  intros Hb. unfold b64_decode. rewrite encode_no_newline. apply dec_groups_encode. exact Hb.
Qed.

(* encoding is injective on byte strings *)
Lemma b64_encode_inj l1 l2 :
  is_bytes l1 = true -> is_bytes l2 = true -> b64_encode l1 = b64_encode l2 -> l1 = l2.
Proof.
  intros H1 H2 E. apply b64_roundtrip in H1. apply b64_roundtrip in H2.
  rewrite E in H1. congruence.
Qed.

(* base64.StdEncoding.EncodedLen *)
Lemma b64_encode_length l : length (b64_encode l) = (4 * ((length l + 2) / 3))%nat.
Proof.
  induction l as [|a|a b|a b c r IH] using list_ind3; try reflexivity.
  cbn [b64_encode length]. rewrite IH.
  replace (S (S (S (length r))) + 2)%nat with ((length r + 2) + 1 * 3)%nat by lia.
  rewrite Nat.div_add by lia. lia.
Qed.
