From Coq Require Import List ZArith NArith Bool Lia Sorted.
From XV Require Import Lib.Sx Model.Queue Model.Ack Proofs.QueueP.
Import ListNotations.
Open Scope Z_scope.

(* ids a+1, a+2, ... *)
Fixpoint consec (a : Z) (q : queue) : Prop :=
  match q with
  | [] => True
  | (i, _) :: q' => i = a + 1 /\ consec (a + 1) q'
  end.

Record R (st : qstate) (s : spec) : Prop := {
  R_consec : consec (Z.of_nat (sp_acked s)) (fst st);
  R_held : map snd (fst st) = sp_held s;
  R_last : snd st = Z.of_nat (length (sp_sent s));
  R_le : (sp_acked s <= length (sp_sent s))%nat }.

Lemma consec_app a q i s :
  consec a q -> i = a + Z.of_nat (length q) + 1 -> consec a (q ++ [(i, s)]).
Proof.
  revert a; induction q as [|[j t] q IH]; intros a Hc Hi; cbn in *.
  - split; [lia|exact I].
  - destruct Hc as [Hj Hc]. split; [exact Hj|]. apply IH; [exact Hc|lia].
Qed.

Lemma consec_snoc a q i s : consec a (q ++ [(i, s)]) -> i = a + Z.of_nat (length q) + 1.
Proof.
  revert a; induction q as [|[j t] q IH]; intros a Hc.
  - cbn in Hc. destruct Hc as [-> _]. cbn [length]. lia.
  - cbn [app consec] in Hc. destruct Hc as [_ Hc]. apply IH in Hc. cbn [length]. lia.
Qed.

Lemma consec_last a q : consec a q -> q <> [] -> last_id q = Some (a + Z.of_nat (length q)).
Proof.
  intros Hc Hne. destruct q as [|e q] using rev_ind; [contradiction|]. clear IHq Hne.
  destruct e as [i s]. rewrite last_id_app. f_equal.
  apply consec_snoc in Hc. rewrite app_length. cbn [length]. lia.
Qed.

Lemma consec_skipn a q n : consec a q -> consec (a + Z.of_nat (Nat.min n (length q))) (skipn n q).
Proof.
  revert a q; induction n as [|n IH]; intros a q Hc.
  - cbn. replace (a + 0) with a by lia. exact Hc.
  - destruct q as [|[j t] q]; cbn [skipn length Nat.min].
    + replace (a + Z.of_nat 0) with a by lia. exact I.
    + cbn in Hc. destruct Hc as [_ Hc]. specialize (IH _ _ Hc).
      replace (a + Z.of_nat (S (Nat.min n (length q)))) with (a + 1 + Z.of_nat (Nat.min n (length q))) by lia.
      exact IH.
Qed.

Lemma held_length st s : R st s -> length (fst st) = (length (sp_sent s) - sp_acked s)%nat.
Proof.
  intros H. pose proof (R_held _ _ H) as Hh. unfold sp_held in Hh.
  rewrite <- skipn_length, <- Hh. symmetry. apply map_length.
Qed.

Lemma push_id_R st s : R st s -> push_id st = Z.of_nat (length (sp_sent s)) + 1.
Proof.
  intros H. unfold push_id. rewrite (R_last _ _ H).
  destruct (fst st) as [|e q] eqn:E; [reflexivity|].
  pose proof (consec_last _ _ (R_consec _ _ H)) as Hl. rewrite E in Hl.
  rewrite (Hl ltac:(discriminate)). pose proof (held_length _ _ H) as Hlen. rewrite E in Hlen.
  pose proof (R_le _ _ H).
  destruct (Z.of_nat (length (sp_sent s)) + 1 <=? Z.of_nat (sp_acked s) + Z.of_nat (length (e :: q))) eqn:C;
    [apply Z.leb_le in C; lia|reflexivity].
Qed.

Lemma skipn_app_le {A} n (l1 l2 : list A) : (n <= length l1)%nat -> skipn n (l1 ++ l2) = skipn n l1 ++ l2.
Proof.
  revert l1; induction n as [|n IH]; intros l1 H; [reflexivity|].
  destruct l1 as [|x l1]; [cbn in H; lia|]. cbn. apply IH. cbn in H. lia.
Qed.

Lemma push_R st s d : R st s ->
  R (q_push st d) {| sp_sent := sp_sent s ++ [d]; sp_acked := sp_acked s |}.
Proof.
  intros H. pose proof (push_id_R _ _ H) as Hid. pose proof (held_length _ _ H) as Hlen.
  pose proof (R_le _ _ H) as Hle.
  constructor; unfold q_push; cbn [fst snd sp_sent sp_acked sp_held].
  - apply consec_app; [exact (R_consec _ _ H)|]. rewrite Hid, Hlen. lia.
  - rewrite map_app, (R_held _ _ H). cbn [map snd]. unfold sp_held. cbn [sp_sent sp_acked].
    rewrite skipn_app_le; [reflexivity|exact Hle].
  - rewrite Hid, app_length. cbn. lia.
  - rewrite app_length. cbn. lia.
Qed.

Lemma map_snd_skipn n (q : queue) : map snd (skipn n q) = skipn n (map snd q).
Proof. apply map_skipn. Qed.

Lemma skipn_skipn' {A} n m (l : list A) : skipn n (skipn m l) = skipn (m + n) l.
Proof.
  revert l; induction m as [|m IH]; intros l; [reflexivity|].
  destruct l as [|x l]; [destruct n; reflexivity|]. cbn. apply IH.
Qed.

(* a push taken back leaves the queue object as it was: entries and next number *)
Lemma drop_push st s d : R st s -> q_drop_last (q_push st d) = st.
Proof.
  intros H. pose proof (push_id_R _ _ H) as Hid. pose proof (R_last _ _ H) as Hl.
  unfold q_drop_last, q_push. cbn [fst snd]. rewrite last_id_app, Z.eqb_refl, removelast_last.
  destruct st as [q l]. cbn [fst snd] in *. f_equal. lia.
Qed.

Lemma refused_id st s k d : R st s -> fst (a_refused st k d) = st.
Proof. intros H. destruct k; cbn [a_refused fst]; [apply (drop_push _ _ _ H)|reflexivity|reflexivity]. Qed.

(* one step of the model is one step of the specification *)
Lemma step_refines st s o : R st s ->
  let '(st', w) := a_step st o in
  let '(s', w') := sp_step s o in
  w = w' /\ R st' s'.
Proof.
  intros H. destruct o as [k d|k d|k d|h]; cbn [a_step sp_step].
  - destruct k; cbn [a_send].
    + split; [reflexivity|apply push_R; exact H].
    + split; [reflexivity|exact H].
    + split; [reflexivity|exact H].
  - destruct k; cbn [a_send].
    + split; [reflexivity|apply push_R; exact H].
    + split; [reflexivity|exact H].
    + split; [reflexivity|exact H].
  - (* refused write *)
    pose proof (refused_id _ _ k d H) as Hst.
    assert (Hw : snd (a_refused st k d) = []) by (destruct k; reflexivity).
    destruct (a_refused st k d) as [st' w]. cbn [fst snd] in Hst, Hw. subst st' w.
    split; [reflexivity|exact H].
  - (* ack *)
    pose proof (held_length _ _ H) as Hlen. pose proof (R_le _ _ H) as Hle.
    unfold a_ack. destruct (fst st) as [|[first t] q] eqn:E.
    + (* nothing held *)
      cbn [length] in Hlen.
      assert (Ha : Nat.max (sp_acked s) (Nat.min (Z.to_nat h) (length (sp_sent s))) = sp_acked s) by lia.
      rewrite Ha. unfold sp_held at 1. cbn [sp_acked sp_sent].
      assert (Hh : skipn (sp_acked s) (sp_sent s) = []).
      { pose proof (R_held _ _ H) as Hh. rewrite E in Hh. cbn in Hh. symmetry. exact Hh. }
      rewrite Hh. split; [reflexivity|]. destruct s as [sent acked]. exact H.
    + pose proof (R_consec _ _ H) as Hc. rewrite E in Hc. cbn [consec] in Hc. destruct Hc as [Hf Hc].
      set (a := sp_acked s) in *. set (n := length (sp_sent s)) in *.
      cbn [length] in Hlen.
      (* number of entries popped *)
      unfold q_popn, q_peekn.
      set (kz := h - first + 1).
      set (r := if kz <=? 0 then [] else firstn (Z.to_nat (Z.min kz (Z.of_nat (length ((first, t) :: q))))) ((first, t) :: q)).
      assert (Hr : length r = (Nat.max a (Nat.min (Z.to_nat h) n) - a)%nat).
      { unfold r, kz. destruct (h - first + 1 <=? 0) eqn:C.
        - apply Z.leb_le in C. cbn [length]. lia.
        - apply Z.leb_gt in C. rewrite firstn_length. cbn [length]. lia. }
      set (a' := Nat.max a (Nat.min (Z.to_nat h) n)) in *.
      assert (Ha' : (a <= a' <= n)%nat) by (unfold a'; lia).
      assert (Hheld' : map snd (skipn (length r) ((first, t) :: q)) = skipn a' (sp_sent s)).
      { rewrite map_snd_skipn. pose proof (R_held _ _ H) as Hh. rewrite E in Hh. rewrite Hh.
        unfold sp_held. rewrite skipn_skipn'. f_equal. fold a. lia. }
      assert (HR' : R (skipn (length r) ((first, t) :: q), snd st) {| sp_sent := sp_sent s; sp_acked := a' |}).
      { constructor; cbn [fst snd sp_sent sp_acked].
        - pose proof (consec_skipn (Z.of_nat a) ((first, t) :: q) (length r)) as Hk.
          assert (Hc0 : consec (Z.of_nat a) ((first, t) :: q)) by (cbn; split; assumption).
          specialize (Hk Hc0).
          replace (Z.of_nat a + Z.of_nat (Nat.min (length r) (length ((first, t) :: q)))) with (Z.of_nat a') in Hk; [exact Hk|].
          cbn [length]. lia.
        - exact Hheld'.
        - exact (R_last _ _ H).
        - lia. }
      unfold sp_held at 1. cbn [sp_sent sp_acked]. fold a'.
      rewrite <- Hheld'.
      destruct (skipn (length r) ((first, t) :: q)) as [|e q'] eqn:Eq.
      * cbn [map]. split; [reflexivity|exact HR'].
      * cbn [map]. split; [|exact HR'].
        rewrite map_map. reflexivity.
Qed.

Lemma init_R : R q_init sp_init.
Proof. constructor; cbn; auto. Qed.

Lemma run_refines ops : forall st s, R st s ->
  map (fun wq => (fst wq, map snd (snd wq))) (a_run st ops) = sp_run s ops.
Proof.
  induction ops as [|o ops IH]; intros st s H; [reflexivity|].
  cbn [a_run sp_run]. pose proof (step_refines st s o H) as Hs.
  destruct (a_step st o) as [st' w]. destruct (sp_step s o) as [s' w'].
  destruct Hs as [-> HR]. cbn [map fst snd]. rewrite (R_held _ _ HR), (IH _ _ HR). reflexivity.
Qed.

(* acks are never held, through Send (value or pointer) or SendRaw *)
Lemma acks_not_held st k d : k <> KStanza ->
  fst (a_step st (ASend k d)) = st /\ fst (a_step st (ASendRaw k d)) = st.
Proof. destruct k; [contradiction| |]; split; reflexivity. Qed.

(* the state after a history *)
Definition a_exec (st : qstate) (ops : list aop) : qstate := fold_left (fun s o => fst (a_step s o)) ops st.
Definition sp_exec (s : spec) (ops : list aop) : spec := fold_left (fun s o => fst (sp_step s o)) ops s.

Lemma exec_R ops : forall st s, R st s -> R (a_exec st ops) (sp_exec s ops).
Proof.
  induction ops as [|o ops IH]; intros st s H; [exact H|].
  cbn [a_exec sp_exec fold_left]. apply IH. pose proof (step_refines st s o H) as Hs.
  destruct (a_step st o) as [st' w]. destruct (sp_step s o) as [s' w']. exact (proj2 Hs).
Qed.

(* a stanza whose write is refused is neither held nor numbered, in any reachable state *)
Lemma refused_not_held ops k d :
  a_step (a_exec q_init ops) (ARefused k d) = (a_exec q_init ops, []).
Proof.
  pose proof (exec_R ops _ _ init_R) as H. cbn [a_step].
  rewrite (surjective_pairing (a_refused _ k d)), (refused_id _ _ k d H).
  destruct k; reflexivity.
Qed.

(* pushes in any global order (the order in which concurrent senders obtain the queue
   lock): the queue holds the payloads in that order, numbered 1, 2, ... *)
Lemma pushes_R l : forall st s, R st s ->
  R (fold_left q_push l st) {| sp_sent := sp_sent s ++ l; sp_acked := sp_acked s |}.
Proof.
  induction l as [|d l IH]; intros st s H; cbn [fold_left].
  - rewrite app_nil_r. destruct s; exact H.
  - specialize (IH _ _ (push_R st s d H)). cbn [sp_sent sp_acked] in IH.
    rewrite <- app_assoc in IH. exact IH.
Qed.
