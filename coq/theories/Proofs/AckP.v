From Coq Require Import List ZArith NArith Bool Lia Sorted.
From XV Require Import Lib.Sx Model.Queue Model.Ack Proofs.QueueP.
Import ListNotations.
Open Scope Z_scope.

(* ids a+1, a+2, ... *)
Fixpoint consec (a : Z) (q : queue) : Prop :=
  match q with
  | [] => True
  | (i, _) :: q' => i = a + 1 /\ consec (a + 1) q'
  end.

Record R (st : qstate) (s : spec) : Prop := {
  R_consec : consec (Z.of_nat (sp_acked s)) (fst st);
  R_held : map snd (fst st) = sp_held s;
  R_last : snd st = Z.of_nat (length (sp_sent s));
  R_le : (sp_acked s <= length (sp_sent s))%nat }.

Lemma consec_app a q i s :
  consec a q -> i = a + Z.of_nat (length q) + 1 -> consec a (q ++ [(i, s)]).
Proof.
  revert a; induction q as [|[j t] q IH]; intros a Hc Hi; cbn in *.
  - split; [lia|exact I].
  - destruct Hc as [Hj Hc]. split; [exact Hj|]. apply IH; [exact Hc|lia].
Qed.

Lemma consec_snoc a q i s : consec a (q ++ [(i, s)]) -> i = a + Z.of_nat (length q) + 1.
Proof.
  revert a; induction q as [|[j t] q IH]; intros a Hc.
  - cbn in Hc. destruct Hc as [-> _]. cbn [length]. lia.
  - cbn [app consec] in Hc. destruct Hc as [_ Hc]. apply IH in Hc. cbn [length]. lia.
Qed.

Lemma consec_last a q : consec a q -> q <> [] -> last_id q = Some (a + Z.of_nat (length q)).
Proof.
  intros Hc Hne. destruct q as [|e q] using rev_ind; [contradiction|]. clear IHq Hne.
  destruct e as [i s]. rewrite last_id_app. f_equal.
  apply consec_snoc in Hc. rewrite app_length. cbn [length]. lia.
Qed.

Lemma consec_skipn a q n : consec a q -> consec (a + Z.of_nat (Nat.min n (length q))) (skipn n q).
Proof.
  revert a q; induction n as [|n IH]; intros a q Hc.
  - cbn. replace (a + 0) with a by lia. exact Hc.
  - destruct q as [|[j t] q]; cbn [skipn length Nat.min].
    + replace (a + Z.of_nat 0) with a by lia. exact I.
    + cbn in Hc. destruct Hc as [_ Hc]. specialize (IH _ _ Hc).
      replace (a + Z.of_nat (S (Nat.min n (length q)))) with (a + 1 + Z.of_nat (Nat.min n (length q))) by lia.
      exact IH.
Qed.

Lemma held_length st s : R st s -> length (fst st) = (length (sp_sent s) - sp_acked s)%nat.
Proof.
  intros H. pose proof (R_held _ _ H) as Hh. unfold sp_held in Hh.
  rewrite <- skipn_length, <- Hh. symmetry. apply map_length.
Qed.

Lemma push_id_R st s : R st s -> push_id st = Z.of_nat (length (sp_sent s)) + 1.
Proof.
  intros H. unfold push_id. rewrite (R_last _ _ H).
  destruct (fst st) as [|e q] eqn:E; [reflexivity|].
  pose proof (consec_last _ _ (R_consec _ _ H)) as Hl. rewrite E in Hl.
  rewrite (Hl ltac:(discriminate)). pose proof (held_length _ _ H) as Hlen. rewrite E in Hlen.
  pose proof (R_le _ _ H).
  destruct (Z.of_nat (length (sp_sent s)) + 1 <=? Z.of_nat (sp_acked s) + Z.of_nat (length (e :: q))) eqn:C;
    [apply Z.leb_le in C; lia|reflexivity].
Qed.

Lemma skipn_app_le {A} n (l1 l2 : list A) : (n <= length l1)%nat -> skipn n (l1 ++ l2) = skipn n l1 ++ l2.
Proof.
  revert l1; induction n as [|n IH]; intros l1 H; [reflexivity|].
  destruct l1 as [|x l1]; [cbn in H; lia|]. cbn. apply IH. cbn in H. lia.
Qed.

Lemma push_R st s d b : R st s ->
  R (q_push st d) {| sp_sent := sp_sent s ++ [d]; sp_acked := sp_acked s; sp_on := b |}.
Proof.
  intros H. pose proof (push_id_R _ _ H) as Hid. pose proof (held_length _ _ H) as Hlen.
  pose proof (R_le _ _ H) as Hle.
  constructor; unfold q_push; cbn [fst snd sp_sent sp_acked sp_held].
  - apply consec_app; [exact (R_consec _ _ H)|]. rewrite Hid, Hlen. lia.
  - rewrite map_app, (R_held _ _ H). cbn [map snd]. unfold sp_held. cbn [sp_sent sp_acked].
    rewrite skipn_app_le; [reflexivity|exact Hle].
  - rewrite Hid, app_length. cbn. lia.
  - rewrite app_length. cbn. lia.
Qed.

Lemma map_snd_skipn n (q : queue) : map snd (skipn n q) = skipn n (map snd q).
Proof. apply map_skipn. Qed.

Lemma skipn_skipn' {A} n m (l : list A) : skipn n (skipn m l) = skipn (m + n) l.
Proof.
  revert l; induction m as [|m IH]; intros l; [reflexivity|].
  destruct l as [|x l]; [destruct n; reflexivity|]. cbn. apply IH.
Qed.

(* a push taken back leaves the queue object as it was: entries and next number *)
Lemma drop_push st s d : R st s -> q_droplast (q_push st d) = st.
Proof.
  intros H. pose proof (push_id_R _ _ H) as Hid. pose proof (R_last _ _ H) as Hl.
  unfold q_droplast, q_push. cbn [fst snd]. rewrite last_id_app, Z.eqb_refl, removelast_last.
  destruct st as [q l]. cbn [fst snd] in *. f_equal. lia.
Qed.

(* the client state and the specification: the queue as above, and the same flag *)
Record RA (st : astate) (s : spec) : Prop := {
  RA_q : R (fst st) s;
  RA_on : snd st = sp_on s }.

Lemma refused_id st s k d : RA st s -> fst (a_refused st k d) = st.
Proof.
  intros [H Ho]. destruct st as [q b]. cbn [fst snd] in *.
  destruct k; cbn [a_refused fst snd]; try reflexivity.
  destruct b; [|reflexivity]. cbn [fst]. rewrite (drop_push _ _ _ H). reflexivity.
Qed.

(* an acknowledgement: the queue step is the specification's *)
Lemma ack_refines st s h : R st s ->
  let '(st', w) := q_ack st h in
  let '(s', w') := sp_ack s h in
  w = w' /\ R st' s' /\ sp_on s' = sp_on s.
Proof.
  intros H.
    pose proof (held_length _ _ H) as Hlen. pose proof (R_le _ _ H) as Hle.
    unfold q_ack, sp_ack. destruct (fst st) as [|[first t] q] eqn:E.
    + (* nothing held *)
      cbn [length] in Hlen.
      assert (Ha : Nat.max (sp_acked s) (Nat.min (Z.to_nat h) (length (sp_sent s))) = sp_acked s) by lia.
      rewrite Ha. unfold sp_held at 1. cbn [sp_acked sp_sent].
      assert (Hh : skipn (sp_acked s) (sp_sent s) = []).
      { pose proof (R_held _ _ H) as Hh. rewrite E in Hh. cbn in Hh. symmetry. exact Hh. }
      rewrite Hh. split; [reflexivity|]. split; [|reflexivity]. destruct s as [sent acked on]. exact H.
    + pose proof (R_consec _ _ H) as Hc. rewrite E in Hc. cbn [consec] in Hc. destruct Hc as [Hf Hc].
      set (a := sp_acked s) in *. set (n := length (sp_sent s)) in *.
      cbn [length] in Hlen.
      (* number of entries popped *)
      unfold q_popn, q_peekn.
      set (kz := h - first + 1).
      set (r := if kz <=? 0 then [] else firstn (Z.to_nat (Z.min kz (Z.of_nat (length ((first, t) :: q))))) ((first, t) :: q)).
      assert (Hr : length r = (Nat.max a (Nat.min (Z.to_nat h) n) - a)%nat).
      { unfold r, kz. destruct (h - first + 1 <=? 0) eqn:C.
        - apply Z.leb_le in C. cbn [length]. lia.
        - apply Z.leb_gt in C. rewrite firstn_length. cbn [length]. lia. }
      set (a' := Nat.max a (Nat.min (Z.to_nat h) n)) in *.
      assert (Ha' : (a <= a' <= n)%nat) by (unfold a'; lia).
      assert (Hheld' : map snd (skipn (length r) ((first, t) :: q)) = skipn a' (sp_sent s)).
      { rewrite map_snd_skipn. pose proof (R_held _ _ H) as Hh. rewrite E in Hh. rewrite Hh.
        unfold sp_held. rewrite skipn_skipn'. f_equal. fold a. lia. }
      assert (HR' : R (skipn (length r) ((first, t) :: q), snd st) {| sp_sent := sp_sent s; sp_acked := a'; sp_on := sp_on s |}).
      { constructor; cbn [fst snd sp_sent sp_acked].
        - pose proof (consec_skipn (Z.of_nat a) ((first, t) :: q) (length r)) as Hk.
          assert (Hc0 : consec (Z.of_nat a) ((first, t) :: q)) by (cbn; split; assumption).
          specialize (Hk Hc0).
          replace (Z.of_nat a + Z.of_nat (Nat.min (length r) (length ((first, t) :: q)))) with (Z.of_nat a') in Hk; [exact Hk|].
          cbn [length]. lia.
        - exact Hheld'.
        - exact (R_last _ _ H).
        - lia. }
      unfold sp_held at 1. cbn [sp_sent sp_acked]. fold a'.
      rewrite <- Hheld'.
      destruct (skipn (length r) ((first, t) :: q)) as [|e q'] eqn:Eq.
      * cbn [map]. split; [reflexivity|]. split; [exact HR'|reflexivity].
      * cbn [map]. split; [|split; [exact HR'|reflexivity]].
        rewrite map_map. reflexivity.
Qed.

Lemma init_R : R q_init sp_init.
Proof. constructor; cbn; auto. Qed.
Lemma init_RA : RA a_init sp_init.
Proof. constructor; [exact init_R|reflexivity]. Qed.

(* one step of the model is one step of the specification *)
Lemma step_refines st s o : RA st s ->
  let '(st', w) := a_step st o in
  let '(s', w') := sp_step s o in
  w = w' /\ RA st' s'.
Proof.
  intros HA. pose proof (RA_q _ _ HA) as H. pose proof (RA_on _ _ HA) as Ho.
  assert (Hsend : forall k d, let '(st', w) := a_send st k d in
            let '(s', w') := sp_step s (ASend k d) in w = w' /\ RA st' s').
  { intros k d. destruct st as [q b]. cbn [fst snd] in *. subst b.
    destruct k; cbn [a_send sp_step fst snd].
    - destruct (sp_on s) eqn:On.
      + split; [reflexivity|]. constructor; [apply push_R; exact H|reflexivity].
      + split; [reflexivity|]. constructor; [exact H|cbn; congruence].
    - split; [reflexivity|]. constructor; [exact H|reflexivity].
    - split; [reflexivity|]. constructor; [exact H|reflexivity].
    - split; [reflexivity|]. constructor; [exact H|reflexivity]. }
  destruct o as [k d|k d|k d|h|h j| | |r]; cbn [a_step].
  - exact (Hsend k d).
  - specialize (Hsend k d). destruct k; exact Hsend.
  - (* refused write *)
    pose proof (refused_id _ _ k d HA) as Hst.
    assert (Hw : snd (a_refused st k d) = []).
    { destruct st as [q b]. destruct k; cbn; [destruct b|..]; reflexivity. }
    destruct (a_refused st k d) as [st' w]. cbn [fst snd] in Hst, Hw. subst st' w.
    cbn [sp_step]. split; [reflexivity|exact HA].
  - (* ack *)
    cbn [sp_step]. unfold a_ack. pose proof (ack_refines (fst st) s h H) as Hk.
    destruct (q_ack (fst st) h) as [q' w]. destruct (sp_ack s h) as [s' w'].
    destruct Hk as (Hw & HR & Hon). split; [exact Hw|]. constructor; [exact HR|cbn [snd]; congruence].
  - (* ack, retransmission cut short *)
    cbn [sp_step]. unfold a_ack_refused, a_ack. pose proof (ack_refines (fst st) s h H) as Hk.
    destruct (q_ack (fst st) h) as [q' w]. destruct (sp_ack s h) as [s' w'].
    destruct Hk as (Hw & HR & Hon). split; [rewrite Hw; reflexivity|]. constructor; [exact HR|cbn [snd]; congruence].
  - cbn [sp_step]. split; [reflexivity|exact HA].
  - cbn [sp_step]. split; [reflexivity|exact HA].
  - (* a new session *)
    cbn [sp_step a_enabled]. split; [reflexivity|]. constructor; cbn [fst snd sp_on]; [|exact Ho].
    constructor; cbn; auto.
Qed.

Lemma run_refines ops : forall st s, RA st s ->
  map (fun wq => (fst wq, map snd (snd wq))) (a_run st ops) = sp_run s ops.
Proof.
  induction ops as [|o ops IH]; intros st s H; [reflexivity|].
  cbn [a_run sp_run]. pose proof (step_refines st s o H) as Hs.
  destruct (a_step st o) as [st' w]. destruct (sp_step s o) as [s' w'].
  destruct Hs as [-> HR]. cbn [map fst snd]. rewrite (R_held _ _ (RA_q _ _ HR)), (IH _ _ HR). reflexivity.
Qed.

(* acks are never held, through Send (value or pointer) or SendRaw *)
Lemma acks_not_held st k d : k <> KStanza ->
  fst (a_step st (ASend k d)) = st /\ fst (a_step st (ASendRaw k d)) = st.
Proof. destruct k; [contradiction| | |]; split; reflexivity. Qed.

Lemma exec_RA ops : forall st s, RA st s -> RA (a_exec st ops) (sp_exec s ops).
Proof.
  induction ops as [|o ops IH]; intros st s H; [exact H|].
  cbn [a_exec sp_exec fold_left]. apply IH. pose proof (step_refines st s o H) as Hs.
  destruct (a_step st o) as [st' w]. destruct (sp_step s o) as [s' w']. exact (proj2 Hs).
Qed.

(* a stanza whose write is refused is neither held nor numbered, in any reachable state *)
Lemma refused_not_held ops k d :
  a_step (a_exec a_init ops) (ARefused k d) = (a_exec a_init ops, []).
Proof.
  pose proof (exec_RA ops _ _ init_RA) as H. cbn [a_step].
  rewrite (surjective_pairing (a_refused _ k d)), (refused_id _ _ k d H).
  destruct (a_exec a_init ops) as [q b]. destruct k; cbn; [destruct b|..]; reflexivity.
Qed.

(* ---- the queue in every reachable state, in terms of the specification ---- *)

Lemma consec_numbered a q : consec a q -> q = numbered (a + 1) (map snd q).
Proof.
  revert a; induction q as [|[i t] q IH]; intros a Hc; [reflexivity|].
  cbn in Hc. destruct Hc as [-> Hc]. cbn [map snd numbered]. f_equal. apply IH. exact Hc.
Qed.

Lemma R_numbered st s : R st s -> fst st = numbered (Z.of_nat (sp_acked s) + 1) (sp_held s).
Proof. intros H. rewrite <- (R_held _ _ H). apply consec_numbered. exact (R_consec _ _ H). Qed.

Lemma numbering_reachable ops :
  let st := a_exec a_init ops in let s := sp_exec sp_init ops in
  fst (fst st) = numbered (Z.of_nat (sp_acked s) + 1) (sp_held s) /\
  snd (fst st) = Z.of_nat (length (sp_sent s)) /\
  snd st = sp_on s /\ (sp_acked s <= length (sp_sent s))%nat.
Proof.
  cbn zeta. pose proof (exec_RA ops _ _ init_RA) as [H Ho].
  split; [exact (R_numbered _ _ H)|]. split; [exact (R_last _ _ H)|]. split; [exact Ho|exact (R_le _ _ H)].
Qed.

Lemma In_numbered l : forall a i d,
  In (i, d) (numbered a l) <-> a <= i /\ nth_error l (Z.to_nat (i - a)) = Some d.
Proof.
  induction l as [|x l IH]; intros a i d; cbn [numbered In].
  - split; [contradiction|]. intros [_ H]. destruct (Z.to_nat (i - a)); discriminate.
  - rewrite IH. split.
    + intros [E|[Hle Hn]].
      * inversion E; subst. split; [lia|]. replace (i - i) with 0 by lia. reflexivity.
      * split; [lia|]. replace (Z.to_nat (i - a)) with (S (Z.to_nat (i - (a + 1)))) by lia. exact Hn.
    + intros [Hle Hn]. destruct (Z.eq_dec a i) as [->|Hne].
      * left. replace (i - i) with 0 in Hn by lia. cbn in Hn. inversion Hn. reflexivity.
      * right. split; [lia|]. replace (Z.to_nat (i - a)) with (S (Z.to_nat (i - (a + 1)))) in Hn by lia. exact Hn.
Qed.

Lemma nth_error_skipn {A} a : forall (l : list A) k, nth_error (skipn a l) k = nth_error l (a + k).
Proof.
  induction a as [|a IH]; intros l k; [reflexivity|].
  destruct l as [|x l]; [destruct k; reflexivity|]. cbn. apply IH.
Qed.

(* entry (n, d) is queued iff stanza number n of the session is d and fewer than n are acknowledged *)
Lemma In_queue st s n d : R st s -> (1 <= n)%nat ->
  (In (Z.of_nat n, d) (fst st) <-> (sp_acked s < n)%nat /\ nth_error (sp_sent s) (n - 1) = Some d).
Proof.
  intros H Hn. rewrite (R_numbered _ _ H), In_numbered. unfold sp_held. rewrite nth_error_skipn.
  split; intros [H1 H2].
  - split; [lia|]. replace (n - 1)%nat with (sp_acked s + Z.to_nat (Z.of_nat n - (Z.of_nat (sp_acked s) + 1)))%nat by lia. exact H2.
  - split; [lia|]. replace (sp_acked s + Z.to_nat (Z.of_nat n - (Z.of_nat (sp_acked s) + 1)))%nat with (n - 1)%nat by lia. exact H2.
Qed.

(* histories that stay on one session *)
Definition same_session (ops : list aop) : Prop := Forall (fun o => is_enabled o = false) ops.

Lemma sp_ack_fields s h :
  sp_sent (fst (sp_ack s h)) = sp_sent s /\ sp_on (fst (sp_ack s h)) = sp_on s /\
  sp_acked (fst (sp_ack s h)) = Nat.max (sp_acked s) (Nat.min (Z.to_nat h) (length (sp_sent s))).
Proof. unfold sp_ack. destruct (sp_held _); cbn; auto. Qed.

Lemma sp_step_fields s o : is_enabled o = false ->
  sp_on (fst (sp_step s o)) = sp_on s /\
  sp_sent (fst (sp_step s o)) = sp_sent s ++ (if sp_on s then first_tx o else []) /\
  sp_acked (fst (sp_step s o)) =
    match ack_h o with
    | Some h => Nat.max (sp_acked s) (Nat.min (Z.to_nat h) (length (sp_sent s)))
    | None => sp_acked s
    end.
Proof.
  intros He. destruct o as [k d|k d|k d|h|h j| | |r]; try discriminate; cbn [sp_step first_tx ack_h].
  - destruct k; [destruct (sp_on s) eqn:On; cbn; rewrite ?app_nil_r; auto|..];
      cbn; destruct (sp_on s); rewrite app_nil_r; auto.
  - destruct k; [destruct (sp_on s) eqn:On; cbn; rewrite ?app_nil_r; auto|..];
      cbn; destruct (sp_on s); rewrite app_nil_r; auto.
  - cbn. destruct (sp_on s); rewrite app_nil_r; auto.
  - pose proof (sp_ack_fields s h) as (H1 & H2 & H3). rewrite H1, H2, H3.
    destruct (sp_on s); rewrite app_nil_r; auto.
  - pose proof (sp_ack_fields s h) as (H1 & H2 & H3). destruct (sp_ack s h) as [s' w]. cbn [fst] in *.
    rewrite H1, H2, H3. destruct (sp_on s); rewrite app_nil_r; auto.
  - cbn. destruct (sp_on s); rewrite app_nil_r; auto.
  - cbn. destruct (sp_on s); rewrite app_nil_r; auto.
Qed.

(* on one session the list of stanzas sent only grows, and stanza number m (already sent) is still
   unacknowledged iff it was and every acknowledgement since carried h < m *)
Lemma same_session_exec post : forall s m, same_session post -> (1 <= m <= length (sp_sent s))%nat ->
  let s' := sp_exec s post in
  sp_on s' = sp_on s /\
  sp_sent s' = sp_sent s ++ (if sp_on s then flat_map first_tx post else []) /\
  ((sp_acked s' < m)%nat <->
   (sp_acked s < m)%nat /\ Forall (fun o => match ack_h o with Some h => h < Z.of_nat m | None => True end) post).
Proof.
  induction post as [|o post IH]; intros s m Hs Hm; cbn zeta.
  - cbn. destruct (sp_on s); rewrite app_nil_r; (split; [reflexivity|]; split; [reflexivity|]);
      (split; [intros H; split; [exact H|constructor]|intros [H _]; exact H]).
  - inversion Hs as [|? ? He Hs']; subst. cbn [sp_exec fold_left]. fold (sp_exec (fst (sp_step s o)) post).
    pose proof (sp_step_fields s o He) as (Ho & Hsent & Hack).
    assert (Hm' : (1 <= m <= length (sp_sent (fst (sp_step s o))))%nat) by (rewrite Hsent, app_length; lia).
    specialize (IH _ m Hs' Hm'). cbn zeta in IH. destruct IH as (I1 & I2 & I3).
    split; [congruence|]. split.
    + rewrite I2, Hsent, Ho, <- app_assoc. f_equal. cbn [flat_map]. destruct (sp_on s); reflexivity.
    + rewrite I3, Hack. split.
      * intros [Ha Hf]. destruct (ack_h o) as [h|] eqn:Eh.
        -- split; [lia|]. constructor; [rewrite Eh; lia|exact Hf].
        -- split; [exact Ha|]. constructor; [rewrite Eh; exact I|exact Hf].
      * intros [Ha Hf]. inversion Hf as [|? ? Hh Hf']; subst. split; [|exact Hf'].
        destruct (ack_h o) as [h|]; [lia|exact Ha].
Qed.

Lemma exec_app_a st ops1 ops2 : a_exec st (ops1 ++ ops2) = a_exec (a_exec st ops1) ops2.
Proof. unfold a_exec. apply fold_left_app. Qed.
Lemma exec_app_sp s ops1 ops2 : sp_exec s (ops1 ++ ops2) = sp_exec (sp_exec s ops1) ops2.
Proof. unfold sp_exec. apply fold_left_app. Qed.

(* "remains held until the server acknowledges it": a stanza sent while the client holds gets the next
   number n; after any continuation on the same session it is queued under n iff no acknowledgement since
   carried h >= n, and nothing else is ever queued under n *)
Lemma step_flag st o : snd (fst (a_step st o)) = snd st.
Proof.
  destruct st as [q b]. destruct o as [[]|[]|[]|h|h j| | |r]; cbn; try reflexivity; try (destruct b; reflexivity).
  - unfold a_ack. cbn. destruct (q_ack q h); reflexivity.
  - unfold a_ack_refused, a_ack. cbn. destruct (q_ack q h); reflexivity.
Qed.

(* a client configured with stream management holds throughout: nothing the server says switches it off *)
Lemma always_holding ops : snd (a_exec a_init ops) = true.
Proof.
  assert (G : forall st, snd (a_exec st ops) = snd st).
  { induction ops as [|o ops IH]; intros st; [reflexivity|]. cbn [a_exec fold_left].
    fold (a_exec (fst (a_step st o)) ops). rewrite IH. apply step_flag. }
  apply G.
Qed.

Lemma held_iff_unacked pre o d post :
  first_tx o = [d] -> same_session post ->
  let n := snd (fst (a_exec a_init pre)) + 1 in
  let st := a_exec a_init (pre ++ o :: post) in
  (In (n, d) (fst (fst st)) <->
   Forall (fun o' => match ack_h o' with Some h => h < n | None => True end) post) /\
  (forall d', In (n, d') (fst (fst st)) -> d' = d).
Proof.
  intros Hd Hs. cbn zeta. pose proof (always_holding pre) as Hon.
  pose proof (exec_RA pre _ _ init_RA) as [H0 Ho0]. rewrite Hon in Ho0.
  pose proof (exec_RA (pre ++ o :: post) _ _ init_RA) as [H1 _].
  set (s0 := sp_exec sp_init pre) in *.
  rewrite (R_last _ _ H0).
  replace (Z.of_nat (length (sp_sent s0)) + 1) with (Z.of_nat (S (length (sp_sent s0)))) by lia.
  set (m := S (length (sp_sent s0))).
  assert (Hm1 : (1 <= m)%nat) by (unfold m; lia).
  (* the specification after o *)
  assert (He : is_enabled o = false) by (destruct o as [[]|[]| | | | | |]; try discriminate; reflexivity).
  pose proof (sp_step_fields s0 o He) as (Ho1 & Hsent1 & Hack1). rewrite <- Ho0, Hd in Hsent1.
  assert (Hack1' : sp_acked (fst (sp_step s0 o)) = sp_acked s0).
  { rewrite Hack1. destruct o as [[]|[]| | | | | |]; try discriminate; reflexivity. }
  set (s1 := fst (sp_step s0 o)) in *.
  assert (Hm : (1 <= m <= length (sp_sent s1))%nat) by (rewrite Hsent1, app_length; cbn; unfold m; lia).
  pose proof (same_session_exec post s1 m Hs Hm) as (I1 & I2 & I3). cbn zeta in I1, I2, I3.
  assert (Hspec : sp_exec sp_init (pre ++ o :: post) = sp_exec s1 post).
  { rewrite exec_app_sp. reflexivity. }
  rewrite Hspec in H1. set (s := sp_exec s1 post) in *.
  assert (Hnth : nth_error (sp_sent s) (m - 1) = Some d).
  { rewrite I2, Hsent1, <- app_assoc. unfold m. replace (S (length (sp_sent s0)) - 1)%nat with (length (sp_sent s0)) by lia.
    rewrite nth_error_app2 by lia. rewrite Nat.sub_diag. reflexivity. }
  assert (Ha1 : (sp_acked s1 < m)%nat) by (rewrite Hack1'; pose proof (R_le _ _ H0); unfold m; lia).
  split.
  - rewrite (In_queue _ _ m d H1 Hm1), I3. split.
    + intros [[_ Hf] _]. exact Hf.
    + intros Hf. split; [split; [exact Ha1|exact Hf]|exact Hnth].
  - intros d' Hin. apply (In_queue _ _ m d' H1 Hm1) in Hin. destruct Hin as [_ Hn]. congruence.
Qed.

(* ---- the wire order of the first transmissions is the numbering ---- *)
Lemma wire_order_is_numbering ops : same_session ops ->
  let st := a_exec a_init ops in
  snd (fst st) = Z.of_nat (length (flat_map first_tx ops)) /\
  forall i d, In (i, d) (fst (fst st)) -> 1 <= i /\ nth_error (flat_map first_tx ops) (Z.to_nat (i - 1)) = Some d.
Proof.
  intros Hs. cbn zeta. pose proof (exec_RA ops _ _ init_RA) as [H _].
  assert (Hsent : sp_sent (sp_exec sp_init ops) = flat_map first_tx ops).
  { destruct ops as [|o ops]; [reflexivity|].
    (* m is irrelevant here: use the sent-list part on the history after a first step *)
    assert (G : forall post s, same_session post ->
              sp_sent (sp_exec s post) = sp_sent s ++ (if sp_on s then flat_map first_tx post else [])).
    { induction post as [|o' post IH]; intros s Hp.
      - cbn. destruct (sp_on s); rewrite app_nil_r; reflexivity.
      - inversion Hp as [|? ? He Hp']; subst. cbn [sp_exec fold_left]. fold (sp_exec (fst (sp_step s o')) post).
        pose proof (sp_step_fields s o' He) as (Ho & Hse & _). rewrite (IH _ Hp'), Hse, Ho, <- app_assoc.
        f_equal. cbn [flat_map]. destruct (sp_on s); reflexivity. }
    rewrite (G _ sp_init Hs). reflexivity. }
  split; [rewrite (R_last _ _ H), Hsent; reflexivity|].
  intros i d Hin. rewrite (R_numbered _ _ H) in Hin. apply In_numbered in Hin. destruct Hin as [Hle Hn].
  unfold sp_held in Hn. rewrite nth_error_skipn, Hsent in Hn. split; [lia|].
  replace (Z.to_nat (i - 1)) with (sp_acked (sp_exec sp_init ops) + Z.to_nat (i - (Z.of_nat (sp_acked (sp_exec sp_init ops)) + 1)))%nat by lia.
  exact Hn.
Qed.

Lemma a_run_app ops1 : forall st ops2, a_run st (ops1 ++ ops2) = a_run st ops1 ++ a_run (a_exec st ops1) ops2.
Proof.
  induction ops1 as [|o ops1 IH]; intros st ops2; [reflexivity|].
  cbn [app a_run a_exec fold_left]. destruct (a_step st o) as [st' w] eqn:E. cbn [fst]. rewrite IH. reflexivity.
Qed.

(* ---- what is held does not depend on whether the server grants resumption ---- *)
Lemma resume_irrelevant ops : forall st, a_run st ops = a_run st (map grant_resume ops).
Proof.
  induction ops as [|o ops IH]; intros st; [reflexivity|]. cbn [map a_run].
  assert (E : a_step st (grant_resume o) = a_step st o) by (destruct o; reflexivity).
  rewrite E. destruct (a_step st o) as [st' w]. rewrite IH. reflexivity.
Qed.
