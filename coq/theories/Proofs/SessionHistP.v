(* The inbound count across a history of connections (C09, "continued across a
   resumption"): what <resume h/> carries, and what the count held on the Client is
   after a resumed session and after a newly enabled one. *)
From Coq Require Import List ZArith NArith Bool.
From XV Require Import Lib.Sx Model.Session Model.SessionSpec Proofs.SessionSpecP.
Import ListNotations.
Open Scope N_scope.


Lemma reqs_app a b : reqs (a ++ b) = reqs a ++ reqs b.
Proof. unfold reqs. apply map_app. Qed.

(* ---------- a negotiation that succeeds without a bind leaves the state alone ---------- *)
Lemma bind_emits cfg c p f s sn : exists w', reqs (outs (step_bind cfg c p f s sn)) = RBind (c_resource cfg) (p_packet_id p + 1) :: w'.
Proof.
  unfold step_bind, outs.
  destruct s as [|i s']; [eexists; reflexivity|].
  destruct i; try (eexists; reflexivity). destruct t; try (eexists; reflexivity).
  destruct pl; try (eexists; reflexivity).
  destruct (step_session _ _ _ _ _ _) as [[w r] p2]. cbn [fst]. rewrite reqs_app. eexists; reflexivity.
Qed.

Lemma resume_nobind cfg c p f s sn :
  res (step_resume cfg c p f s sn) = Ok -> no_bind (outs (step_resume cfg c p f s sn)) ->
  pst (step_resume cfg c p f s sn) = p.
Proof.
  unfold step_resume. destruct (f_sm f && negb (str_eqb (p_sm_id p) [])).
  - destruct s as [|i s']; [discriminate|]. destruct i; try discriminate.
    + destruct (str_eqb previd (p_sm_id p)); [reflexivity|discriminate].
    + intros _ Hn. exfalso.
      destruct (bind_emits cfg c (clear_sm p) f s' [SFailed]) as [w' Hw].
      unfold outs in *. destruct (step_bind _ _ _ _ _ _) as [[w r] p2]. cbn [fst] in *.
      apply (Hn (c_resource cfg) (p_packet_id (clear_sm p) + 1)).
      rewrite reqs_app. apply in_or_app. right. rewrite Hw. left. reflexivity.
  - intros _ Hn. exfalso. destruct (bind_emits cfg c (if f_sm f then p else clear_sm p) f s sn) as [w' Hw].
    apply (Hn (c_resource cfg) (p_packet_id (if f_sm f then p else clear_sm p) + 1)). rewrite Hw. left. reflexivity.
Qed.

Lemma auth_nobind cfg c p f s sn :
  res (step_auth cfg c p f s sn) = Ok -> no_bind (outs (step_auth cfg c p f s sn)) ->
  pst (step_auth cfg c p f s sn) = p.
Proof.
  unfold step_auth. destruct (choose_mech _ _) as [m|]; [|discriminate].
  destruct (negb (implemented m)); [discriminate|].
  destruct s as [|i s1]; [discriminate|]. destruct i; try discriminate.
  destruct (read_header s1) as [[id s2]|]; [|discriminate].
  destruct (read_features s2) as [[f2 s3]|]; [|discriminate].
  pose proof (resume_nobind cfg c p f2 s3 [SHeader id; SFeatures f2]) as Hr.
  unfold res, outs, pst in *. destruct (step_resume _ _ _ _ _ _) as [[w r] p2]. cbn [fst snd] in *.
  intros Hok Hn. apply Hr; [exact Hok|].
  intros x i Hin. apply (Hn x i). rewrite reqs_app. apply in_or_app. right. exact Hin.
Qed.

Lemma connect_nobind cfg dial tls p s :
  res (connect cfg dial tls p s) = Ok -> no_bind (outs (connect cfg dial tls p s)) ->
  p_inbound (pst (connect cfg dial tls p s)) = p_inbound p /\
  p_sm_id (pst (connect cfg dial tls p s)) = p_sm_id p.
Proof.
  unfold connect. destruct (negb dial); [discriminate|].
  destruct (read_header s) as [[id s1]|]; [|discriminate].
  destruct (read_features s1) as [[f s2]|]; [|discriminate].
  assert (Hlift : forall chan q ff ss sn (pre : list out),
     p_inbound q = p_inbound p -> p_sm_id q = p_sm_id p ->
     forall w r p2, step_auth cfg chan q ff ss sn = (w, r, p2) ->
     r = Ok -> no_bind (pre ++ w) -> p_inbound p2 = p_inbound p /\ p_sm_id p2 = p_sm_id p).
  { intros chan q ff ss sn pre Hi Hs w r p2 E Hok Hn.
    pose proof (auth_nobind cfg chan q ff ss sn) as Ha.
    unfold res, outs, pst in Ha. rewrite E in Ha. cbn [fst snd] in Ha.
    rewrite Ha; [split; assumption|exact Hok|].
    intros x i Hin. apply (Hn x i). rewrite reqs_app. apply in_or_app. right. exact Hin. }
  destruct (f_tls f).
  - destruct (c_insecure cfg); [|discriminate].
    destruct (step_auth _ _ _ _ _ _) as [[w r] p2] eqn:E. unfold res, outs, pst. cbn [fst snd].
    intros Hok Hn. eapply Hlift; [| |exact E|exact Hok|exact Hn]; reflexivity.
  - destruct (read_proceed s2) as [s3|]; [|destruct (c_insecure cfg); discriminate].
    destruct tls; [|destruct (c_insecure cfg); discriminate].
    destruct (read_header s3) as [[id1 s4]|]; [|discriminate].
    destruct (read_features s4) as [[f1 s5]|]; [|discriminate].
    destruct (step_auth _ _ _ _ _ _) as [[w r] p2] eqn:E. unfold res, outs, pst. cbn [fst snd].
    intros Hok Hn. eapply Hlift; [| |exact E|exact Hok|exact Hn]; reflexivity.
  - destruct (read_proceed s2) as [s3|]; [|destruct (c_insecure cfg); discriminate].
    destruct tls; [|destruct (c_insecure cfg); discriminate].
    destruct (read_header s3) as [[id1 s4]|]; [|discriminate].
    destruct (read_features s4) as [[f1 s5]|]; [|discriminate].
    destruct (step_auth _ _ _ _ _ _) as [[w r] p2] eqn:E. unfold res, outs, pst. cbn [fst snd].
    intros Hok Hn. eapply Hlift; [| |exact E|exact Hok|exact Hn]; reflexivity.
Qed.

(* ---------- a negotiation that succeeds with <enable/> starts the count at zero ---------- *)
Lemma enable_zero cfg c p f s sn :
  res (step_enable cfg c p f s sn) = Ok -> has_enable (outs (step_enable cfg c p f s sn)) ->
  p_inbound (pst (step_enable cfg c p f s sn)) = 0.
Proof.
  unfold step_enable. destruct (f_sm f && p_sm_enable p).
  - destruct s as [|i s']; [discriminate|]. destruct i; try discriminate. reflexivity.
  - intros _ [b []].
Qed.

Lemma session_zero cfg c p f s sn :
  res (step_session cfg c p f s sn) = Ok -> has_enable (outs (step_session cfg c p f s sn)) ->
  p_inbound (pst (step_session cfg c p f s sn)) = 0.
Proof.
  unfold step_session. destruct (f_sess f); try apply enable_zero.
  destruct s as [|i s']; [discriminate|]. destruct i; try discriminate. destruct t; try discriminate.
  pose proof (enable_zero cfg c (set_bind p (p_bind_jid p) (p_packet_id p + 1)) f s' [SIq TResult pl err]) as He.
  unfold res, outs, pst in *. destruct (step_enable _ _ _ _ _ _) as [[w r] p2]. cbn [fst snd] in *.
  intros Hok [b Hin]. apply He; [exact Hok|]. exists b.
  rewrite reqs_app in Hin. apply in_app_or in Hin as [[H|[]]|H]; [discriminate|exact H].
Qed.

Lemma bind_zero cfg c p f s sn :
  res (step_bind cfg c p f s sn) = Ok -> has_enable (outs (step_bind cfg c p f s sn)) ->
  p_inbound (pst (step_bind cfg c p f s sn)) = 0.
Proof.
  unfold step_bind.
  destruct s as [|i s']; [discriminate|]. destruct i; try discriminate. destruct t; try discriminate.
  destruct pl; try discriminate.
  pose proof (session_zero cfg c (set_bind p jid (p_packet_id p + 1)) f s' [SIq TResult (PlBind jid) err]) as Hs.
  unfold res, outs, pst in *. destruct (step_session _ _ _ _ _ _) as [[w r] p2]. cbn [fst snd] in *.
  intros Hok [b Hin]. apply Hs; [exact Hok|]. exists b.
  rewrite reqs_app in Hin. apply in_app_or in Hin as [[H|[]]|H]; [discriminate|exact H].
Qed.

Lemma resume_zero cfg c p f s sn :
  res (step_resume cfg c p f s sn) = Ok -> has_enable (outs (step_resume cfg c p f s sn)) ->
  p_inbound (pst (step_resume cfg c p f s sn)) = 0.
Proof.
  unfold step_resume. destruct (f_sm f && negb (str_eqb (p_sm_id p) [])); [|apply bind_zero].
  destruct s as [|i s']; [discriminate|]. destruct i; try discriminate.
  - destruct (str_eqb previd (p_sm_id p)); [|discriminate].
    intros _ [b [H|[]]]. discriminate.
  - pose proof (bind_zero cfg c (clear_sm p) f s' [SFailed]) as Hb.
    unfold res, outs, pst in *. destruct (step_bind _ _ _ _ _ _) as [[w r] p2]. cbn [fst snd] in *.
    intros Hok [b Hin]. apply Hb; [exact Hok|]. exists b.
    rewrite reqs_app in Hin. apply in_app_or in Hin as [[H|[]]|H]; [discriminate|exact H].
Qed.

Lemma auth_zero cfg c p f s sn :
  res (step_auth cfg c p f s sn) = Ok -> has_enable (outs (step_auth cfg c p f s sn)) ->
  p_inbound (pst (step_auth cfg c p f s sn)) = 0.
Proof.
  unfold step_auth. destruct (choose_mech _ _) as [m|]; [|discriminate].
  destruct (negb (implemented m)); [discriminate|].
  destruct s as [|i s1]; [discriminate|]. destruct i; try discriminate.
  destruct (read_header s1) as [[id s2]|]; [|discriminate].
  destruct (read_features s2) as [[f2 s3]|]; [|discriminate].
  pose proof (resume_zero cfg c p f2 s3 [SHeader id; SFeatures f2]) as Hr.
  unfold res, outs, pst in *. destruct (step_resume _ _ _ _ _ _) as [[w r] p2]. cbn [fst snd] in *.
  intros Hok [b Hin]. apply Hr; [exact Hok|]. exists b.
  rewrite reqs_app in Hin. apply in_app_or in Hin as [[H|[H|[]]]|H]; try discriminate. exact H.
Qed.

Lemma connect_zero cfg dial tls p s :
  res (connect cfg dial tls p s) = Ok -> has_enable (outs (connect cfg dial tls p s)) ->
  p_inbound (pst (connect cfg dial tls p s)) = 0.
Proof.
  unfold connect. destruct (negb dial); [discriminate|].
  destruct (read_header s) as [[id s1]|]; [|discriminate].
  destruct (read_features s1) as [[f s2]|]; [|discriminate].
  assert (Hlift : forall chan q ff ss sn (pre : list out),
     (forall b, ~ In (REnable b) (reqs pre)) ->
     forall w r p2, step_auth cfg chan q ff ss sn = (w, r, p2) ->
     r = Ok -> has_enable (pre ++ w) -> p_inbound p2 = 0).
  { intros chan q ff ss sn pre Hpre w r p2 E Hok [b Hin].
    pose proof (auth_zero cfg chan q ff ss sn) as Ha.
    unfold res, outs, pst in Ha. rewrite E in Ha. cbn [fst snd] in Ha.
    apply Ha; [exact Hok|]. exists b. rewrite reqs_app in Hin.
    apply in_app_or in Hin as [H|H]; [exfalso; exact (Hpre b H)|exact H]. }
  destruct (f_tls f).
  - destruct (c_insecure cfg); [|discriminate].
    destruct (step_auth _ _ _ _ _ _) as [[w r] p2] eqn:E. unfold res, outs, pst. cbn [fst snd].
    intros Hok Hn. eapply Hlift; [|exact E|exact Hok|exact Hn].
    intros b [H|[]]; discriminate.
  - destruct (read_proceed s2) as [s3|]; [|destruct (c_insecure cfg); discriminate].
    destruct tls; [|destruct (c_insecure cfg); discriminate].
    destruct (read_header s3) as [[id1 s4]|]; [|discriminate].
    destruct (read_features s4) as [[f1 s5]|]; [|discriminate].
    destruct (step_auth _ _ _ _ _ _) as [[w r] p2] eqn:E. unfold res, outs, pst. cbn [fst snd].
    intros Hok Hn. eapply Hlift; [|exact E|exact Hok|exact Hn].
    intros b [H|[H|[H|[]]]]; discriminate.
  - destruct (read_proceed s2) as [s3|]; [|destruct (c_insecure cfg); discriminate].
    destruct tls; [|destruct (c_insecure cfg); discriminate].
    destruct (read_header s3) as [[id1 s4]|]; [|discriminate].
    destruct (read_features s4) as [[f1 s5]|]; [|discriminate].
    destruct (step_auth _ _ _ _ _ _) as [[w r] p2] eqn:E. unfold res, outs, pst. cbn [fst snd].
    intros Hok Hn. eapply Hlift; [|exact E|exact Hok|exact Hn].
    intros b [H|[H|[H|[]]]]; discriminate.
Qed.

(* ---------- histories ---------- *)
Lemma run_conns_hist cfg cs : forall p, hist_ok p cs (run_conns cfg p cs).
Proof.
  induction cs as [|c cs IH]; intros p; [exact I|].
  cbn [run_conns].
  pose proof (connect_resume_content cfg (k_dial c) (k_tls c) p (k_script c)) as Hr.
  pose proof (connect_nobind cfg (k_dial c) (k_tls c) p (k_script c)) as Hn.
  pose proof (connect_zero cfg (k_dial c) (k_tls c) p (k_script c)) as Hz.
  unfold res, outs, pst in *.
  destruct (connect cfg (k_dial c) (k_tls c) p (k_script c)) as [[w r] p1]. cbn [fst snd] in *.
  cbn [hist_ok]. split; [|split; [|split]].
  - intros prev h H. destruct (Hr prev h H) as (H1 & H2 & _). split; assumption.
  - intros Hok Hnb. subst r. destruct (Hn eq_refl Hnb) as [Hi Hs].
    cbn [add_inbound p_inbound p_sm_id]. rewrite Hi. split; [reflexivity|exact Hs].
  - intros Hok He. subst r. cbn [add_inbound p_inbound]. rewrite (Hz eq_refl He). reflexivity.
  - apply IH.
Qed.
