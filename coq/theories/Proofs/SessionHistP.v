(* The inbound count across a history of connections (C09, "continued across a
   resumption"): what <resume h/> carries, and what the count held on the Client is
   after a resumed session and after a newly enabled one. *)
From Coq Require Import List ZArith NArith Bool.
From Coq Require Import Lia.
From XV Require Import Lib.Sx Model.Session Model.SessionSpec Proofs.SessionSpecP Proofs.SessionSmP.
Import ListNotations.
Open Scope N_scope.


Lemma reqs_app a b : reqs (a ++ b) = reqs a ++ reqs b.
Proof. unfold reqs. apply map_app. Qed.

(* ---------- a negotiation that succeeds without a bind leaves the state alone ---------- *)
Lemma bind_emits cfg c p f s sn : exists w', reqs (outs (step_bind cfg c p f s sn)) = RBind (c_resource cfg) (p_packet_id p + 1) :: w'.
Proof.
  unfold step_bind, outs.
  destruct s as [|i s']; [eexists; reflexivity|].
  destruct i; try (eexists; reflexivity). destruct t; try (eexists; reflexivity).
  destruct pl; try (eexists; reflexivity).
  destruct (step_session _ _ _ _ _ _) as [[w r] p2]. cbn [fst]. rewrite reqs_app. eexists; reflexivity.
Qed.

Lemma resume_nobind cfg c p f s sn :
  res (step_resume cfg c p f s sn) = Ok -> no_bind (outs (step_resume cfg c p f s sn)) ->
  pst (step_resume cfg c p f s sn) = p.
Proof.
  unfold step_resume. destruct (f_sm f && negb (str_eqb (p_sm_id p) [])).
  - destruct s as [|i s']; [discriminate|]. destruct i; try discriminate.
    + destruct (str_eqb previd (p_sm_id p)); [reflexivity|discriminate].
    + intros _ Hn. exfalso.
      destruct (bind_emits cfg c (clear_sm p) f s' [SFailed]) as [w' Hw].
      unfold outs in *. destruct (step_bind _ _ _ _ _ _) as [[w r] p2]. cbn [fst] in *.
      apply (Hn (c_resource cfg) (p_packet_id (clear_sm p) + 1)).
      rewrite reqs_app. apply in_or_app. right. rewrite Hw. left. reflexivity.
  - intros _ Hn. exfalso. destruct (bind_emits cfg c (if f_sm f then p else clear_sm p) f s sn) as [w' Hw].
    apply (Hn (c_resource cfg) (p_packet_id (if f_sm f then p else clear_sm p) + 1)). rewrite Hw. left. reflexivity.
Qed.

Lemma auth_nobind cfg c p f s sn :
  res (step_auth cfg c p f s sn) = Ok -> no_bind (outs (step_auth cfg c p f s sn)) ->
  pst (step_auth cfg c p f s sn) = p.
Proof.
  unfold step_auth. destruct (choose_mech _ _) as [m|]; [|discriminate].
  destruct (negb (implemented m)); [discriminate|].
  destruct s as [|i s1]; [discriminate|]. destruct i; try discriminate.
  destruct (read_header s1) as [[id s2]|]; [|discriminate].
  destruct (read_features s2) as [[f2 s3]|]; [|discriminate].
  pose proof (resume_nobind cfg c p f2 s3 [SHeader id; SFeatures f2]) as Hr.
  unfold res, outs, pst in *. destruct (step_resume _ _ _ _ _ _) as [[w r] p2]. cbn [fst snd] in *.
  intros Hok Hn. apply Hr; [exact Hok|].
  intros x i Hin. apply (Hn x i). rewrite reqs_app. apply in_or_app. right. exact Hin.
Qed.

Lemma connect_nobind cfg dial tls p s :
  res (connect cfg dial tls p s) = Ok -> no_bind (outs (connect cfg dial tls p s)) ->
  p_inbound (pst (connect cfg dial tls p s)) = p_inbound p /\
  p_sm_id (pst (connect cfg dial tls p s)) = p_sm_id p.
Proof.
  unfold connect. destruct (negb dial); [discriminate|].
  destruct (read_header s) as [[id s1]|]; [|discriminate].
  destruct (read_features s1) as [[f s2]|]; [|discriminate].
  assert (Hlift : forall chan q ff ss sn (pre : list out),
     p_inbound q = p_inbound p -> p_sm_id q = p_sm_id p ->
     forall w r p2, step_auth cfg chan q ff ss sn = (w, r, p2) ->
     r = Ok -> no_bind (pre ++ w) -> p_inbound p2 = p_inbound p /\ p_sm_id p2 = p_sm_id p).
  { intros chan q ff ss sn pre Hi Hs w r p2 E Hok Hn.
    pose proof (auth_nobind cfg chan q ff ss sn) as Ha.
    unfold res, outs, pst in Ha. rewrite E in Ha. cbn [fst snd] in Ha.
    rewrite Ha; [split; assumption|exact Hok|].
    intros x i Hin. apply (Hn x i). rewrite reqs_app. apply in_or_app. right. exact Hin. }
  destruct (f_tls f).
  - destruct (c_insecure cfg); [|discriminate].
    destruct (step_auth _ _ _ _ _ _) as [[w r] p2] eqn:E. unfold res, outs, pst. cbn [fst snd].
    intros Hok Hn. eapply Hlift; [| |exact E|exact Hok|exact Hn]; reflexivity.
  - destruct (read_proceed s2) as [s3|]; [|destruct (c_insecure cfg); discriminate].
    destruct tls; [|destruct (c_insecure cfg); discriminate].
    destruct (read_header s3) as [[id1 s4]|]; [|discriminate].
    destruct (read_features s4) as [[f1 s5]|]; [|discriminate].
    destruct (step_auth _ _ _ _ _ _) as [[w r] p2] eqn:E. unfold res, outs, pst. cbn [fst snd].
    intros Hok Hn. eapply Hlift; [| |exact E|exact Hok|exact Hn]; reflexivity.
  - destruct (read_proceed s2) as [s3|]; [|destruct (c_insecure cfg); discriminate].
    destruct tls; [|destruct (c_insecure cfg); discriminate].
    destruct (read_header s3) as [[id1 s4]|]; [|discriminate].
    destruct (read_features s4) as [[f1 s5]|]; [|discriminate].
    destruct (step_auth _ _ _ _ _ _) as [[w r] p2] eqn:E. unfold res, outs, pst. cbn [fst snd].
    intros Hok Hn. eapply Hlift; [| |exact E|exact Hok|exact Hn]; reflexivity.
Qed.

(* ---------- a negotiation that succeeds with <enable/> starts the count at zero ---------- *)
Lemma enable_zero cfg c p f s sn :
  res (step_enable cfg c p f s sn) = Ok -> has_enable (outs (step_enable cfg c p f s sn)) ->
  p_inbound (pst (step_enable cfg c p f s sn)) = 0.
Proof.
  unfold step_enable. destruct (f_sm f && p_sm_enable p).
  - destruct s as [|i s']; [discriminate|]. destruct i; try discriminate. reflexivity.
  - intros _ [b []].
Qed.

Lemma session_zero cfg c p f s sn :
  res (step_session cfg c p f s sn) = Ok -> has_enable (outs (step_session cfg c p f s sn)) ->
  p_inbound (pst (step_session cfg c p f s sn)) = 0.
Proof.
  unfold step_session. destruct (f_sess f); try apply enable_zero.
  destruct s as [|i s']; [discriminate|]. destruct i; try discriminate. destruct t; try discriminate.
  pose proof (enable_zero cfg c (set_bind p (p_bind_jid p) (p_packet_id p + 1)) f s' [SIq TResult pl err]) as He.
  unfold res, outs, pst in *. destruct (step_enable _ _ _ _ _ _) as [[w r] p2]. cbn [fst snd] in *.
  intros Hok [b Hin]. apply He; [exact Hok|]. exists b.
  rewrite reqs_app in Hin. apply in_app_or in Hin as [[H|[]]|H]; [discriminate|exact H].
Qed.

Lemma bind_zero cfg c p f s sn :
  res (step_bind cfg c p f s sn) = Ok -> has_enable (outs (step_bind cfg c p f s sn)) ->
  p_inbound (pst (step_bind cfg c p f s sn)) = 0.
Proof.
  unfold step_bind.
  destruct s as [|i s']; [discriminate|]. destruct i; try discriminate. destruct t; try discriminate.
  destruct pl; try discriminate.
  pose proof (session_zero cfg c (set_bind p jid (p_packet_id p + 1)) f s' [SIq TResult (PlBind jid) err]) as Hs.
  unfold res, outs, pst in *. destruct (step_session _ _ _ _ _ _) as [[w r] p2]. cbn [fst snd] in *.
  intros Hok [b Hin]. apply Hs; [exact Hok|]. exists b.
  rewrite reqs_app in Hin. apply in_app_or in Hin as [[H|[]]|H]; [discriminate|exact H].
Qed.

Lemma resume_zero cfg c p f s sn :
  res (step_resume cfg c p f s sn) = Ok -> has_enable (outs (step_resume cfg c p f s sn)) ->
  p_inbound (pst (step_resume cfg c p f s sn)) = 0.
Proof.
  unfold step_resume. destruct (f_sm f && negb (str_eqb (p_sm_id p) [])); [|apply bind_zero].
  destruct s as [|i s']; [discriminate|]. destruct i; try discriminate.
  - destruct (str_eqb previd (p_sm_id p)); [|discriminate].
    intros _ [b [H|[]]]. discriminate.
  - pose proof (bind_zero cfg c (clear_sm p) f s' [SFailed]) as Hb.
    unfold res, outs, pst in *. destruct (step_bind _ _ _ _ _ _) as [[w r] p2]. cbn [fst snd] in *.
    intros Hok [b Hin]. apply Hb; [exact Hok|]. exists b.
    rewrite reqs_app in Hin. apply in_app_or in Hin as [[H|[]]|H]; [discriminate|exact H].
Qed.

Lemma auth_zero cfg c p f s sn :
  res (step_auth cfg c p f s sn) = Ok -> has_enable (outs (step_auth cfg c p f s sn)) ->
  p_inbound (pst (step_auth cfg c p f s sn)) = 0.
Proof.
  unfold step_auth. destruct (choose_mech _ _) as [m|]; [|discriminate].
  destruct (negb (implemented m)); [discriminate|].
  destruct s as [|i s1]; [discriminate|]. destruct i; try discriminate.
  destruct (read_header s1) as [[id s2]|]; [|discriminate].
  destruct (read_features s2) as [[f2 s3]|]; [|discriminate].
  pose proof (resume_zero cfg c p f2 s3 [SHeader id; SFeatures f2]) as Hr.
  unfold res, outs, pst in *. destruct (step_resume _ _ _ _ _ _) as [[w r] p2]. cbn [fst snd] in *.
  intros Hok [b Hin]. apply Hr; [exact Hok|]. exists b.
  rewrite reqs_app in Hin. apply in_app_or in Hin as [[H|[H|[]]]|H]; try discriminate. exact H.
Qed.

Lemma connect_zero cfg dial tls p s :
  res (connect cfg dial tls p s) = Ok -> has_enable (outs (connect cfg dial tls p s)) ->
  p_inbound (pst (connect cfg dial tls p s)) = 0.
Proof.
  unfold connect. destruct (negb dial); [discriminate|].
  destruct (read_header s) as [[id s1]|]; [|discriminate].
  destruct (read_features s1) as [[f s2]|]; [|discriminate].
  assert (Hlift : forall chan q ff ss sn (pre : list out),
     (forall b, ~ In (REnable b) (reqs pre)) ->
     forall w r p2, step_auth cfg chan q ff ss sn = (w, r, p2) ->
     r = Ok -> has_enable (pre ++ w) -> p_inbound p2 = 0).
  { intros chan q ff ss sn pre Hpre w r p2 E Hok [b Hin].
    pose proof (auth_zero cfg chan q ff ss sn) as Ha.
    unfold res, outs, pst in Ha. rewrite E in Ha. cbn [fst snd] in Ha.
    apply Ha; [exact Hok|]. exists b. rewrite reqs_app in Hin.
    apply in_app_or in Hin as [H|H]; [exfalso; exact (Hpre b H)|exact H]. }
  destruct (f_tls f).
  - destruct (c_insecure cfg); [|discriminate].
    destruct (step_auth _ _ _ _ _ _) as [[w r] p2] eqn:E. unfold res, outs, pst. cbn [fst snd].
    intros Hok Hn. eapply Hlift; [|exact E|exact Hok|exact Hn].
    intros b [H|[]]; discriminate.
  - destruct (read_proceed s2) as [s3|]; [|destruct (c_insecure cfg); discriminate].
    destruct tls; [|destruct (c_insecure cfg); discriminate].
    destruct (read_header s3) as [[id1 s4]|]; [|discriminate].
    destruct (read_features s4) as [[f1 s5]|]; [|discriminate].
    destruct (step_auth _ _ _ _ _ _) as [[w r] p2] eqn:E. unfold res, outs, pst. cbn [fst snd].
    intros Hok Hn. eapply Hlift; [|exact E|exact Hok|exact Hn].
    intros b [H|[H|[H|[]]]]; discriminate.
  - destruct (read_proceed s2) as [s3|]; [|destruct (c_insecure cfg); discriminate].
    destruct tls; [|destruct (c_insecure cfg); discriminate].
    destruct (read_header s3) as [[id1 s4]|]; [|discriminate].
    destruct (read_features s4) as [[f1 s5]|]; [|discriminate].
    destruct (step_auth _ _ _ _ _ _) as [[w r] p2] eqn:E. unfold res, outs, pst. cbn [fst snd].
    intros Hok Hn. eapply Hlift; [|exact E|exact Hok|exact Hn].
    intros b [H|[H|[H|[]]]]; discriminate.
Qed.

(* ---------- histories ---------- *)
Lemma run_conns_hist cfg cs : forall p, hist_ok p cs (run_conns cfg p cs).
Proof.
  induction cs as [|c cs IH]; intros p; [exact I|].
  cbn [run_conns].
  pose proof (connect_resume_content cfg (k_dial c) (k_tls c) p (k_script c)) as Hr.
  pose proof (connect_nobind cfg (k_dial c) (k_tls c) p (k_script c)) as Hn.
  pose proof (connect_zero cfg (k_dial c) (k_tls c) p (k_script c)) as Hz.
  pose proof (connect_outcome cfg (k_dial c) (k_tls c) p (k_script c)) as Ho. cbn zeta in Ho.
  unfold res, outs, pst in *.
  destruct (connect cfg (k_dial c) (k_tls c) p (k_script c)) as [[w r] p1]. cbn [fst snd] in *.
  cbn [hist_ok]. split; [|split; [|split; [|split; [|split]]]].
  - intros prev h H. destruct (Hr prev h H) as (H1 & H2 & _). split; assumption.
  - intros Hok Hnb. subst r. destruct (Hn eq_refl Hnb) as [Hi Hs].
    cbn [add_inbound p_inbound p_sm_id]. rewrite Hi. split; [reflexivity|exact Hs].
  - intros Hok He. subst r. cbn [add_inbound p_inbound]. rewrite (Hz eq_refl He). reflexivity.
  - intros Hok Hb Hne. subst r. cbn [add_inbound p_sm_id].
    destruct Ho as [(Hd & _)|[(_ & _ & _ & _ & _ & He)|(_ & _ & _ & Hnb & _)]]; [exact Hd|contradiction|congruence].
  - intros Hne. destruct r as [|ce pm]; [congruence|].
    destruct Ho as [(Hd & Hi & Hw)|[(_ & _ & _ & Hok & _)|(H1 & H2 & _)]].
    + destruct Hw as [Hw|[Hp Hi2]]; [|left; split; [congruence|exact Hi2]].
      destruct Hi as [Hi|[Hp Hi]]; [right; repeat split; assumption|left; split; [congruence|exact Hi]].
    + discriminate.
    + left. split; assumption.
  - apply IH.
Qed.

(* ---------- the count of <resume/> is the number of stanzas received on the session ---------- *)
(* the invariant: whenever an id is held, the count held with it is the session's count [a] *)
Lemma run_conns_counts cfg cs : forall p a,
  (p_sm_id p <> [] -> p_inbound p = a) ->
  forall i w r p2 prev h ai,
    nth_error (run_conns cfg p cs) i = Some (w, r, p2) ->
    nth_error (session_counts a cs (run_conns cfg p cs)) i = Some ai ->
    In (RResume prev h) (reqs w) -> h = ai.
Proof.
  induction cs as [|c cs IH]; intros p a Hinv i w r p2 prev h ai Hn Ha Hin.
  { destruct i; discriminate. }
  cbn [run_conns] in Hn, Ha.
  pose proof (connect_resume_content cfg (k_dial c) (k_tls c) p (k_script c)) as Hr.
  pose proof (connect_outcome cfg (k_dial c) (k_tls c) p (k_script c)) as Ho. cbn zeta in Ho.
  unfold res, outs, pst in *.
  destruct (connect cfg (k_dial c) (k_tls c) p (k_script c)) as [[w0 r0] p1]. cbn [fst snd] in *.
  cbn [session_counts] in Ha.
  destruct i as [|i].
  - cbn in Hn, Ha. inversion Hn; subst. inversion Ha; subst.
    destruct (Hr prev h Hin) as (_ & Hh & Hne). rewrite Hh. apply Hinv. exact Hne.
  - cbn [nth_error] in Hn, Ha.
    eapply (IH _ _ _ i w r p2 prev h ai Hn Ha Hin). Unshelve.
    (* the invariant after this connection *)
    destruct r0 as [|ce pm].
    + cbn [add_inbound p_sm_id p_inbound].
      destruct Ho as [(Hd & _)|[(_ & Hz & _ & _ & Hb & _)|(H1 & H2 & _ & Hnb & _)]].
      * intros Hne. congruence.
      * intros _. rewrite Hb, Hz. reflexivity.
      * intros Hne. rewrite Hnb, H2. rewrite H1 in Hne. rewrite (Hinv Hne). reflexivity.
    + destruct Ho as [(Hd & _)|[(_ & _ & _ & Hok & _)|(H1 & H2 & _)]].
      * intros Hne. congruence.
      * discriminate.
      * intros Hne. rewrite H2. rewrite H1 in Hne. exact (Hinv Hne).
Qed.

(* ---------- C11 over histories ---------- *)
Lemma run_conns_hist11 cfg cs : forall p, hist11 p cs (run_conns cfg p cs).
Proof.
  induction cs as [|c cs IH]; intros p; [exact I|].
  cbn [run_conns].
  pose proof (connect_resume_content cfg (k_dial c) (k_tls c) p (k_script c)) as Hr.
  pose proof (connect_outcome cfg (k_dial c) (k_tls c) p (k_script c)) as Ho. cbn zeta in Ho.
  unfold res, outs, pst in *.
  destruct (connect cfg (k_dial c) (k_tls c) p (k_script c)) as [[w r] p1]. cbn [fst snd] in *.
  cbn [hist11]. split; [|split].
  - intros prev h H. destruct (Hr prev h H) as (H1 & H2 & H3). repeat split; assumption.
  - exists p1. split; [destruct r; reflexivity|exact Ho].
  - apply IH.
Qed.

(* position i of a history: the state before it, and the rest of the history as a history of its own *)
Lemma run_conns_nth cfg : forall i cs p x,
  nth_error (run_conns cfg p cs) i = Some x ->
  exists pi c, nth_error cs i = Some c /\
    x = (let '(w, r, p1) := connect cfg (k_dial c) (k_tls c) pi (k_script c) in
         (w, r, match r with Ok => add_inbound p1 (k_traffic c) | _ => p1 end)) /\
    forall j, nth_error (run_conns cfg p cs) (S i + j) = nth_error (run_conns cfg (snd x) (skipn (S i) cs)) j.
Proof.
  induction i as [|i IH]; intros cs p x H.
  - destruct cs as [|c cs]; [discriminate|]. cbn [run_conns] in *.
    destruct (connect cfg (k_dial c) (k_tls c) p (k_script c)) as [[w r] p1] eqn:E.
    cbn in H. inversion H; subst x. exists p, c. split; [reflexivity|]. split.
    + rewrite E. reflexivity.
    + intros j. reflexivity.
  - destruct cs as [|c cs]; [discriminate|]. cbn [run_conns] in *.
    destruct (connect cfg (k_dial c) (k_tls c) p (k_script c)) as [[w r] p1].
    cbn [nth_error] in H. destruct (IH _ _ _ H) as (pi & c' & H1 & H2 & H3).
    exists pi, c'. split; [exact H1|]. split; [exact H2|]. intros j. exact (H3 j).
Qed.

Lemma run_conns_resume_nonempty cfg cs p i w r p2 h :
  nth_error (run_conns cfg p cs) i = Some (w, r, p2) -> ~ In (RResume [] h) (reqs w).
Proof.
  intros H Hin. destruct (run_conns_nth cfg i cs p _ H) as (pi & c & _ & Hx & _).
  pose proof (connect_resume_content cfg (k_dial c) (k_tls c) pi (k_script c) [] h) as Hr.
  unfold outs in Hr. destruct (connect cfg (k_dial c) (k_tls c) pi (k_script c)) as [[w0 r0] p1].
  inversion Hx; subst. destruct (Hr Hin) as (H1 & _ & H3). congruence.
Qed.

Lemma nth_skipn {A} (l : list A) : forall n k, nth_error (skipn n l) k = nth_error l (n + k).
Proof. induction l as [|x l IH]; intros [|n] k; try reflexivity; [destruct k; reflexivity|apply IH]. Qed.

(* an id that is not the one held can only be presented after the server has issued it *)
Lemma never_again cfg id : forall cs p j w r p2 h,
  p_sm_id p <> id ->
  nth_error (run_conns cfg p cs) j = Some (w, r, p2) -> In (RResume id h) (reqs w) ->
  exists k c, (k < j)%nat /\ nth_error cs k = Some c /\ issued (k_script c) id.
Proof.
  induction cs as [|c cs IH]; intros p j w r p2 h Hne Hn Hin.
  { destruct j; discriminate. }
  pose proof (run_conns_resume_nonempty cfg (c :: cs) p j w r p2 h Hn) as Hnon.
  cbn [run_conns] in Hn.
  pose proof (connect_resume_content cfg (k_dial c) (k_tls c) p (k_script c)) as Hr.
  pose proof (connect_outcome cfg (k_dial c) (k_tls c) p (k_script c)) as Ho. cbn zeta in Ho.
  unfold res, outs, pst in *.
  destruct (connect cfg (k_dial c) (k_tls c) p (k_script c)) as [[w0 r0] p1]. cbn [fst snd] in *.
  destruct j as [|j].
  - cbn in Hn. inversion Hn; subst. destruct (Hr id h Hin) as (H1 & _). congruence.
  - cbn [nth_error] in Hn.
    set (p2' := match r0 with Ok => add_inbound p1 (k_traffic c) | Err _ _ => p1 end) in *.
    assert (Hid : p_sm_id p2' = p_sm_id p1) by (unfold p2'; destruct r0; reflexivity).
    assert (Hcase : p_sm_id p2' <> id \/ issued (k_script c) id).
    { destruct Ho as [(Hd & _)|[(Hi & _)|(H1 & _)]].
      - left. rewrite Hid, Hd. intros <-. exact (Hnon Hin).
      - destruct (list_eq_dec N.eq_dec (p_sm_id p1) id) as [<-|Hd]; [right; exact Hi|left; congruence].
      - left. congruence. }
    destruct Hcase as [Hc|Hc].
    + destruct (IH p2' j w r p2 h Hc Hn Hin) as (k & c' & Hk & Hck & Hi).
      exists (S k), c'. split; [lia|]. split; [exact Hck|exact Hi].
    + exists O, c. split; [lia|]. split; [reflexivity|exact Hc].
Qed.

(* connection i presented [id], the server ANSWERED (the connection was not cut where the answer
   was awaited) and the session was not continued (the negotiation failed, or a new session was
   bound): [id] is not presented on any later connection j unless the server itself issued
   that very string again on some connection i <= k < j *)
Lemma stale_not_presented_again cfg cs p i j id h h' wi ri pi wj rj pj ci :
  nth_error (run_conns cfg p cs) i = Some (wi, ri, pi) -> In (RResume id h) (reqs wi) ->
  nth_error cs i = Some ci -> ~ unanswered (k_script ci) ->
  (ri <> Ok \/ has_bindb wi = true) ->
  (i < j)%nat ->
  nth_error (run_conns cfg p cs) j = Some (wj, rj, pj) -> In (RResume id h') (reqs wj) ->
  exists k c, (i <= k < j)%nat /\ nth_error cs k = Some c /\ issued (k_script c) id.
Proof.
  intros Hi Hini Hci Hans Hnot Hlt Hj Hinj.
  pose proof (run_conns_resume_nonempty cfg cs p i wi ri pi h Hi) as Hnon.
  destruct (run_conns_nth cfg i cs p _ Hi) as (q & c & Hc & Hx & Hrest).
  assert (c = ci) by congruence. subst c.
  pose proof (connect_outcome cfg (k_dial ci) (k_tls ci) q (k_script ci)) as Ho. cbn zeta in Ho.
  unfold res, outs, pst in *.
  destruct (connect cfg (k_dial ci) (k_tls ci) q (k_script ci)) as [[w0 r0] p1]. cbn [fst snd] in *.
  inversion Hx; subst wi ri pi. clear Hx.
  set (p2 := match r0 with Ok => add_inbound p1 (k_traffic ci) | Err _ _ => p1 end) in *.
  assert (Hid : p_sm_id p2 = p_sm_id p1) by (unfold p2; destruct r0; reflexivity).
  assert (Hcase : p_sm_id p2 <> id \/ issued (k_script ci) id).
  { destruct Ho as [(Hd & _)|[(Hiss & _)|(_ & _ & _ & Hnb & Hres)]].
    - left. rewrite Hid, Hd. intros <-. exact (Hnon Hini).
    - destruct (list_eq_dec N.eq_dec (p_sm_id p1) id) as [<-|Hd]; [right; exact Hiss|left; congruence].
    - exfalso. destruct (Hres (ex_intro _ id (ex_intro _ h Hini))) as [[Hok _]|[_ Hu]]; [|exact (Hans Hu)].
      destruct Hnot as [Hnot|Hnot]; [exact (Hnot Hok)|congruence]. }
  destruct Hcase as [Hcase|Hcase].
  - replace j with (S i + (j - S i))%nat in Hj by lia. rewrite Hrest in Hj. cbn [snd] in Hj.
    destruct (never_again cfg id _ _ _ _ _ _ _ Hcase Hj Hinj) as (k & c' & Hk & Hck & Hiss).
    exists (S i + k)%nat, c'. split; [lia|]. split; [|exact Hiss].
    rewrite nth_skipn in Hck. exact Hck.
  - exists i, ci. split; [lia|]. split; [exact Hc|exact Hcase].
Qed.

(* ---------- a confirmed resumption keeps the whole state ---------- *)
Lemma connect_resumed_state cfg dial tls p s :
  res (connect cfg dial tls p s) = Ok -> no_bind (outs (connect cfg dial tls p s)) ->
  exists sec tlsen, pst (connect cfg dial tls p s) = set_flags (with_session p) sec tlsen.
Proof.
  unfold connect. destruct (negb dial); [discriminate|].
  destruct (read_header s) as [[id s1]|]; [|discriminate].
  destruct (read_features s1) as [[f s2]|]; [|discriminate].
  assert (Hlift : forall chan q ff ss sn (pre : list out),
     forall w r p2, step_auth cfg chan q ff ss sn = (w, r, p2) ->
     r = Ok -> no_bind (pre ++ w) -> p2 = q).
  { intros chan q ff ss sn pre w r p2 E Hok Hn.
    pose proof (auth_nobind cfg chan q ff ss sn) as Ha.
    unfold res, outs, pst in Ha. rewrite E in Ha. cbn [fst snd] in Ha.
    apply Ha; [exact Hok|].
    intros x i Hin. apply (Hn x i). rewrite reqs_app. apply in_or_app. right. exact Hin. }
  destruct (f_tls f).
  - destruct (c_insecure cfg); [|discriminate].
    destruct (step_auth _ _ _ _ _ _) as [[w r] p2] eqn:E. unfold res, outs, pst. cbn [fst snd].
    intros Hok Hn. rewrite (Hlift _ _ _ _ _ _ _ _ _ E Hok Hn). exists false, false. reflexivity.
  - destruct (read_proceed s2) as [s3|]; [|destruct (c_insecure cfg); discriminate].
    destruct tls; [|destruct (c_insecure cfg); discriminate].
    destruct (read_header s3) as [[id1 s4]|]; [|discriminate].
    destruct (read_features s4) as [[f1 s5]|]; [|discriminate].
    destruct (step_auth _ _ _ _ _ _) as [[w r] p2] eqn:E. unfold res, outs, pst. cbn [fst snd].
    intros Hok Hn. rewrite (Hlift _ _ _ _ _ _ _ _ _ E Hok Hn). exists true, true. reflexivity.
  - destruct (read_proceed s2) as [s3|]; [|destruct (c_insecure cfg); discriminate].
    destruct tls; [|destruct (c_insecure cfg); discriminate].
    destruct (read_header s3) as [[id1 s4]|]; [|discriminate].
    destruct (read_features s4) as [[f1 s5]|]; [|discriminate].
    destruct (step_auth _ _ _ _ _ _) as [[w r] p2] eqn:E. unfold res, outs, pst. cbn [fst snd].
    intros Hok Hn. rewrite (Hlift _ _ _ _ _ _ _ _ _ E Hok Hn). exists true, true. reflexivity.
Qed.
