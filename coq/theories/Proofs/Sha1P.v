(* SHA-1 model: the digest is five words below 2^32, i.e. twenty bytes.
   The bound is an invariant of the compression function: every component of its
   result is an [add32], i.e. reduced mod 2^32, whatever the block contains. *)
From Coq Require Import List NArith Bool Lia.
From XV Require Import Lib.Sx Model.Sha1.
Import ListNotations.
Open Scope N_scope.

(* the mask of the low 32 bits is the remainder mod 2^32 *)
Lemma trunc32_mod x : trunc32 x = x mod w32.
Proof.
  unfold trunc32. change mask32 with (N.ones 32). rewrite N.land_ones. reflexivity.
Qed.

Lemma trunc32_lt x : trunc32 x < w32.
Proof. rewrite trunc32_mod. apply N.mod_upper_bound. unfold w32. lia. Qed.

Lemma add32_mod x y : add32 x y = (x + y) mod w32.
Proof. unfold add32. apply trunc32_mod. Qed.

Lemma add32_lt x y : add32 x y < w32.
Proof. unfold add32. apply trunc32_lt. Qed.

Definition st_ok (s : hstate) : Prop :=
  let '(a, b, c, d, e) := s in a < w32 /\ b < w32 /\ c < w32 /\ d < w32 /\ e < w32.

Lemma h_init_ok : st_ok h_init.
Proof. unfold st_ok, h_init, w32. lia. Qed.

Lemma compress_ok h block : st_ok (compress h block).
Proof.
  unfold compress. destruct h as [[[[h0 h1] h2] h3] h4].
  destruct (rounds 0 (schedule block) (h0, h1, h2, h3, h4)) as [[[[a b] c] d] e].
  unfold st_ok. repeat split; apply add32_lt.
Qed.

Lemma fold_compress_ok bs : forall h, st_ok h -> st_ok (fold_left compress bs h).
Proof.
  induction bs as [|b bs IH]; intros h Hh; cbn [fold_left]; [exact Hh|].
  apply IH. apply compress_ok.
Qed.

Lemma sha1_state_ok m : st_ok (sha1_state m).
Proof. unfold sha1_state. apply fold_compress_ok. exact h_init_ok. Qed.

Lemma sha1_words_length m : length (sha1_words m) = 5%nat.
Proof.
  unfold sha1_words. destruct (sha1_state m) as [[[[a b] c] d] e]. reflexivity.
Qed.

Lemma sha1_words_bound m : Forall (fun w => w < w32) (sha1_words m).
Proof.
  unfold sha1_words. pose proof (sha1_state_ok m) as H.
  destruct (sha1_state m) as [[[[a b] c] d] e]. unfold st_ok in H.
  destruct H as (Ha & Hb & Hc & Hd & He). cbn [state_words].
  repeat constructor; assumption.
Qed.

Lemma word_bytes_length w : length (word_bytes w) = 4%nat.
Proof. reflexivity. Qed.

Lemma word_bytes_byte w : w < w32 -> Forall (fun b => b < 256) (word_bytes w).
Proof.
  intros Hw. unfold word_bytes. repeat constructor.
  - apply N.div_lt_upper_bound; [lia|]. unfold w32 in Hw. lia.
  - apply N.mod_upper_bound. lia.
  - apply N.mod_upper_bound. lia.
  - apply N.mod_upper_bound. lia.
Qed.

Lemma flat_map_length_const {A B} (f : A -> list B) k l :
  (forall x, length (f x) = k) -> length (flat_map f l) = (length l * k)%nat.
Proof.
  intros Hf. induction l as [|x l IH]; [reflexivity|].
  cbn [flat_map length]. rewrite app_length, Hf, IH. lia.
Qed.

Lemma flat_map_Forall {A B} (P : A -> Prop) (Q : B -> Prop) (f : A -> list B) l :
  (forall x, P x -> Forall Q (f x)) -> Forall P l -> Forall Q (flat_map f l).
Proof.
  intros Hf Hl. induction Hl as [|x l Hx Hl IH]; cbn [flat_map]; [constructor|].
  apply Forall_app. split; [apply Hf; exact Hx | exact IH].
Qed.

(* the digest is 20 bytes *)
Lemma sha1_length m : length (sha1 m) = 20%nat.
Proof.
  unfold sha1. rewrite (flat_map_length_const word_bytes 4); [|exact word_bytes_length].
  rewrite sha1_words_length. reflexivity.
Qed.

Lemma sha1_bytes m : Forall (fun b => b < 256) (sha1 m).
Proof.
  unfold sha1. apply (flat_map_Forall (fun w => w < w32)); [exact word_bytes_byte|].
  apply sha1_words_bound.
Qed.

(* padding produces whole 64-byte blocks (used for the examples' sanity, not for the shape) *)
Lemma zeros_length k : length (zeros k) = k.
Proof. induction k as [|k IH]; cbn; congruence. Qed.

Lemma be_bytes_length k : forall x, length (be_bytes k x) = k.
Proof.
  induction k as [|k IH]; intros x; cbn [be_bytes]; [reflexivity|].
  rewrite app_length, IH. cbn. lia.
Qed.

Lemma pad_length_mod64 m : (N.of_nat (length (pad m))) mod 64 = 0.
Proof.
  unfold pad. rewrite !app_length, zeros_length, be_bytes_length. cbn [length].
  unfold pad_zeros. set (len := N.of_nat (length m)).
  assert (Hz : (119 - len mod 64) mod 64 < 64) by (apply N.mod_upper_bound; lia).
  replace (N.of_nat (length m + (1 + (N.to_nat ((119 - len mod 64) mod 64) + 8))))
    with (len + 9 + (119 - len mod 64) mod 64) by (unfold len; lia).
  pose proof (N.mod_upper_bound len 64 ltac:(lia)) as Hr.
  pose proof (N.div_mod len 64 ltac:(lia)) as Hd.
  set (r := len mod 64) in *. set (q := len / 64) in *.
  destruct (N.le_gt_cases r 55) as [Hle|Hgt].
  - assert (E : (119 - r) mod 64 = 55 - r).
    { replace (119 - r) with ((55 - r) + 1 * 64) by lia. rewrite N.mod_add by lia.
      apply N.mod_small. lia. }
    rewrite E. replace (len + 9 + (55 - r)) with (0 + (q + 1) * 64) by lia.
    rewrite N.mod_add by lia. reflexivity.
  - assert (E : (119 - r) mod 64 = 119 - r) by (apply N.mod_small; lia).
    rewrite E. replace (len + 9 + (119 - r)) with (0 + (q + 2) * 64) by lia.
    rewrite N.mod_add by lia. reflexivity.
Qed.
