(* SHA-1 model: the digest is five words below 2^32, i.e. twenty bytes.
   The bound is an invariant of the compression function: every component of its
   result is an [add32], i.e. reduced mod 2^32, whatever the block contains. *)
From Coq Require Import List NArith Bool Lia.
From XV Require Import Lib.Sx Model.Sha1.
Import ListNotations.
Open Scope N_scope.

(* the mask of the low 32 bits is the remainder mod 2^32 *)
Lemma trunc32_mod x : trunc32 x = x mod w32.
Proof.
  unfold trunc32. change mask32 with (N.ones 32). rewrite N.land_ones. reflexivity.
Qed.

Lemma trunc32_lt x : trunc32 x < w32.
Proof. rewrite trunc32_mod. apply N.mod_upper_bound. unfold w32. lia. Qed.

Lemma add32_mod x y : add32 x y = (x + y) mod w32.
Proof. unfold add32. apply trunc32_mod. Qed.

Lemma add32_lt x y : add32 x y < w32.
Proof. unfold add32. apply trunc32_lt. Qed.

Definition st_ok (s : hstate) : Prop :=
  let '(a, b, c, d, e) := s in a < w32 /\ b < w32 /\ c < w32 /\ d < w32 /\ e < w32.

Lemma h_init_ok : st_ok h_init.
Proof. unfold st_ok, h_init, w32. lia. Qed.

Lemma compress_ok h block : st_ok (compress h block).
Proof.
  unfold compress. destruct h as [[[[h0 h1] h2] h3] h4].
  destruct (rounds 0 (schedule block) (h0, h1, h2, h3, h4)) as [[[[a b] c] d] e].
  unfold st_ok. repeat split; apply add32_lt.
Qed.

Lemma fold_compress_ok bs : forall h, st_ok h -> st_ok (fold_left compress bs h).
Proof.
  induction bs as [|b bs IH]; intros h Hh; cbn [fold_left]; [exact Hh|].
  apply IH. apply compress_ok.
Qed.

Lemma sha1_state_ok m : st_ok (sha1_state m).
Proof. unfold sha1_state. apply fold_compress_ok. exact h_init_ok. Qed.

Lemma sha1_words_length m : length (sha1_words m) = 5%nat.
Proof.
  unfold sha1_words. destruct (sha1_state m) as [[[[a b] c] d] e]. reflexivity.
Qed.

Lemma sha1_words_bound m : Forall (fun w => w < w32) (sha1_words m).
Proof.
  unfold sha1_words. pose proof (sha1_state_ok m) as H.
  destruct (sha1_state m) as [[[[a b] c] d] e]. unfold st_ok in H.
  destruct H as (Ha & Hb & Hc & Hd & He). cbn [state_words].
  repeat constructor; assumption.
Qed.

Lemma word_bytes_length w : length (word_bytes w) = 4%nat.
Proof. reflexivity. Qed.

Lemma word_bytes_byte w : w < w32 -> Forall (fun b => b < 256) (word_bytes w).
Proof.
  intros Hw. unfold word_bytes. repeat constructor.
  - apply N.div_lt_upper_bound; [lia|]. unfold w32 in Hw. lia.
  - apply N.mod_upper_bound. lia.
  - apply N.mod_upper_bound. lia.
  - apply N.mod_upper_bound. lia.
Qed.

Lemma flat_map_length_const {A B} (f : A -> list B) k l :
  (forall x, length (f x) = k) -> length (flat_map f l) = (length l * k)%nat.
Proof.
  intros Hf. induction l as [|x l IH]; [reflexivity|].
  cbn [flat_map length]. rewrite app_length, Hf, IH. lia.
Qed.

Lemma flat_map_Forall {A B} (P : A -> Prop) (Q : B -> Prop) (f : A -> list B) l :
  (forall x, P x -> Forall Q (f x)) -> Forall P l -> Forall Q (flat_map f l).
Proof.
  intros Hf Hl. induction Hl as [|x l Hx Hl IH]; cbn [flat_map]; [constructor|].
  apply Forall_app. split; [apply Hf; exact Hx | exact IH].
Qed.

(* the digest is 20 bytes *)
Lemma sha1_length m : length (sha1 m) = 20%nat.
Proof.
  unfold sha1. rewrite (flat_map_length_const word_bytes 4); [|exact word_bytes_length].
  rewrite sha1_words_length. reflexivity.
Qed.

Lemma sha1_bytes m : Forall (fun b => b < 256) (sha1 m).
Proof.
  unfold sha1. apply (flat_map_Forall (fun w => w < w32)); [exact word_bytes_byte|].
  apply sha1_words_bound.
Qed.

(* padding produces whole 64-byte blocks (used for the examples' sanity, not for the shape) *)
Lemma zeros_length k : length (zeros k) = k.
Proof. induction k as [|k IH]; cbn; congruence. Qed.

Lemma be_bytes_length k : forall x, length (be_bytes k x) = k.
Proof.
  induction k as [|k IH]; intros x; cbn [be_bytes]; [reflexivity|].
  rewrite app_length, IH. cbn. lia.
Qed.

Lemma pad_length_mod64 m : (N.of_nat (length (pad m))) mod 64 = 0.
Proof.
  unfold pad. rewrite !app_length, zeros_length, be_bytes_length. cbn [length].
  unfold pad_zeros. set (len := N.of_nat (length m)).
  assert (Hz : (119 - len mod 64) mod 64 < 64) by (apply N.mod_upper_bound; lia).
  replace (N.of_nat (length m + (1 + (N.to_nat ((119 - len mod 64) mod 64) + 8))))
    with (len + 9 + (119 - len mod 64) mod 64) by (unfold len; lia).
  pose proof (N.mod_upper_bound len 64 ltac:(lia)) as Hr.
  pose proof (N.div_mod len 64 ltac:(lia)) as Hd.
  set (r := len mod 64) in *. set (q := len / 64) in *.
  destruct (N.le_gt_cases r 55) as [Hle|Hgt].
  - assert (E : (119 - r) mod 64 = 55 - r).
    { replace (119 - r) with ((55 - r) + 1 * 64) by lia. rewrite N.mod_add by lia.
      apply N.mod_small. lia. }
    rewrite E. replace (len + 9 + (55 - r)) with (0 + (q + 1) * 64) by lia.
    rewrite N.mod_add by lia. reflexivity.
  - assert (E : (119 - r) mod 64 = 119 - r) by (apply N.mod_small; lia).
    rewrite E. replace (len + 9 + (119 - r)) with (0 + (q + 2) * 64) by lia.
    rewrite N.mod_add by lia. reflexivity.
Qed.

(* ---- completeness of the block decomposition (fuel sufficiency) ----
   [blocks] cuts the words of the padded message with the fuel-driven [chunks].  The fuel
   given (the number of words) is always enough: the blocks, put back together, are ALL
   the words; the words, written back as bytes, are ALL of the padded message; and the
   padded message starts with the message.  So no byte of the message is ever left out of
   the blocks that [sha1_state] folds [compress] over. *)
Definition byte (b : N) : Prop := b < 256.

Lemma chunks_concat {A} n : (0 < n)%nat -> forall fuel (l : list A),
  (length l <= fuel)%nat -> concat (chunks fuel n l) = l.
Proof.
  intros Hn. induction fuel as [|f IH]; intros l Hl.
  - destruct l; [reflexivity | cbn in Hl; lia].
  - cbn [chunks]. destruct l as [|x l']; [reflexivity|].
    cbn [concat]. rewrite IH.
    + apply firstn_skipn.
    + rewrite skipn_length. cbn [length] in *. lia.
Qed.

Lemma chunks_full {A} n : (0 < n)%nat -> forall fuel k (l : list A),
  (length l <= fuel)%nat -> length l = (k * n)%nat ->
  Forall (fun b => length b = n) (chunks fuel n l).
Proof.
  intros Hn. induction fuel as [|f IH]; intros k l Hl Hk; [constructor|].
  cbn [chunks]. destruct l as [|x l']; [constructor|].
  destruct k as [|k]; [cbn in Hk; discriminate|].
  constructor.
  - rewrite firstn_length. lia.
  - apply (IH k).
    + rewrite skipn_length. cbn [length] in *. lia.
    + rewrite skipn_length. lia.
Qed.

Lemma chunks_count {A} n : (0 < n)%nat -> forall fuel k (l : list A),
  (length l <= fuel)%nat -> length l = (k * n)%nat -> length (chunks fuel n l) = k.
Proof.
  intros Hn. induction fuel as [|f IH]; intros k l Hl Hk.
  - destruct l; [|cbn in Hl; lia]. cbn in Hk. destruct k; [reflexivity | lia].
  - cbn [chunks]. destruct l as [|x l'].
    + cbn in Hk. destruct k; [reflexivity | lia].
    + destruct k as [|k]; [cbn in Hk; discriminate|]. cbn [length]. f_equal.
      apply IH.
      * rewrite skipn_length. cbn [length] in *. lia.
      * rewrite skipn_length. lia.
Qed.

Lemma word_bytes_pack b0 b1 b2 b3 :
  byte b0 -> byte b1 -> byte b2 -> byte b3 ->
  word_bytes (b0 * 16777216 + b1 * 65536 + b2 * 256 + b3) = [b0; b1; b2; b3].
Proof.
  unfold byte, word_bytes. intros H0 H1 H2 H3.
  set (w := b0 * 16777216 + b1 * 65536 + b2 * 256 + b3).
  assert (E0 : w / 16777216 = b0).
  { symmetry. apply (N.div_unique w 16777216 b0 (b1 * 65536 + b2 * 256 + b3)); unfold w; lia. }
  assert (E1 : w / 65536 = b0 * 256 + b1).
  { symmetry. apply (N.div_unique w 65536 (b0 * 256 + b1) (b2 * 256 + b3)); unfold w; lia. }
  assert (E2 : w / 256 = b0 * 65536 + b1 * 256 + b2).
  { symmetry. apply (N.div_unique w 256 (b0 * 65536 + b1 * 256 + b2) b3); unfold w; lia. }
  rewrite E0, E1, E2.
  assert (M1 : (b0 * 256 + b1) mod 256 = b1).
  { symmetry. apply (N.mod_unique (b0 * 256 + b1) 256 b0 b1); lia. }
  assert (M2 : (b0 * 65536 + b1 * 256 + b2) mod 256 = b2).
  { symmetry. apply (N.mod_unique (b0 * 65536 + b1 * 256 + b2) 256 (b0 * 256 + b1) b2); lia. }
  assert (M3 : w mod 256 = b3).
  { symmetry. apply (N.mod_unique w 256 (b0 * 65536 + b1 * 256 + b2) b3); unfold w; lia. }
  rewrite M1, M2, M3. reflexivity.
Qed.

(* the words, written back as bytes, are the whole string (length a multiple of 4) *)
Lemma words_complete : forall k (l : str),
  length l = (4 * k)%nat -> Forall byte l ->
  flat_map word_bytes (words l) = l /\ length (words l) = k.
Proof.
  induction k as [|k IH]; intros l Hl Hb.
  - destruct l; [split; reflexivity | cbn in Hl; lia].
  - destruct l as [|b0 [|b1 [|b2 [|b3 r]]]]; cbn [length] in Hl; try lia.
    inversion Hb as [|? ? H0 Hb1]; subst. inversion Hb1 as [|? ? H1 Hb2]; subst.
    inversion Hb2 as [|? ? H2 Hb3]; subst. inversion Hb3 as [|? ? H3 Hr]; subst.
    destruct (IH r ltac:(lia) Hr) as [E L].
    cbn [words flat_map length]. rewrite word_bytes_pack by assumption. rewrite E, L.
    split; reflexivity.
Qed.

Lemma zeros_byte k : Forall byte (zeros k).
Proof. induction k; cbn; constructor; [unfold byte; lia | assumption]. Qed.

Lemma be_bytes_byte k : forall x, Forall byte (be_bytes k x).
Proof.
  induction k as [|k IH]; intros x; cbn [be_bytes]; [constructor|].
  apply Forall_app. split; [apply IH|]. constructor; [|constructor].
  unfold byte. apply N.mod_upper_bound. lia.
Qed.

Lemma pad_byte m : Forall byte m -> Forall byte (pad m).
Proof.
  intros Hm. unfold pad. apply Forall_app. split; [exact Hm|].
  cbn [app]. constructor; [unfold byte; lia|].
  apply Forall_app. split; [apply zeros_byte | apply be_bytes_byte].
Qed.

(* the padded message starts with the message; what follows is 0x80, zeros, the bit length *)
Lemma pad_prefix m :
  pad m = m ++ 128 :: zeros (pad_zeros (N.of_nat (length m)))
            ++ be_bytes 8 (bitlen64 (N.of_nat (length m))).
Proof. reflexivity. Qed.

Lemma pad_length_blocks m : exists k, length (pad m) = (64 * k)%nat.
Proof.
  pose proof (pad_length_mod64 m) as H.
  exists (N.to_nat (N.of_nat (length (pad m)) / 64)).
  pose proof (N.div_mod (N.of_nat (length (pad m))) 64 ltac:(lia)) as D.
  rewrite H in D. lia.
Qed.

(* the blocks are whole (16 words each), as many as the padded length says, and together
   they are all the words: the fuel of [chunks] never runs out early *)
Lemma blocks_complete p k :
  length p = (64 * k)%nat -> Forall byte p ->
  concat (blocks p) = words p /\
  Forall (fun b => length b = 16%nat) (blocks p) /\
  length (blocks p) = k /\
  flat_map word_bytes (concat (blocks p)) = p.
Proof.
  intros Hl Hb. destruct (words_complete (16 * k) p ltac:(lia) Hb) as [E L].
  unfold blocks. repeat split.
  - apply chunks_concat; lia.
  - apply (chunks_full 16 ltac:(lia) _ k); lia.
  - apply (chunks_count 16 ltac:(lia) _ k); lia.
  - rewrite chunks_concat by lia. exact E.
Qed.

(* every byte of the message is in the blocks SHA-1 compresses, in order, followed by the
   padding only *)
Lemma sha1_blocks_cover m :
  Forall byte m ->
  exists k,
    length (blocks (pad m)) = k /\ length (pad m) = (64 * k)%nat /\
    Forall (fun b => length b = 16%nat) (blocks (pad m)) /\
    flat_map word_bytes (concat (blocks (pad m)))
      = m ++ 128 :: zeros (pad_zeros (N.of_nat (length m)))
            ++ be_bytes 8 (bitlen64 (N.of_nat (length m))).
Proof.
  intros Hm. destruct (pad_length_blocks m) as [k Hk]. exists k.
  destruct (blocks_complete (pad m) k Hk (pad_byte m Hm)) as (_ & Hf & Hc & Hw).
  repeat split; assumption.
Qed.

(* at least one block: the digest is never the bare initial value *)
Lemma sha1_at_least_one_block m : blocks (pad m) <> [].
Proof.
  destruct (pad_length_blocks m) as [k Hk]. intros E.
  assert (Hp : (0 < length (pad m))%nat).
  { unfold pad. rewrite app_length. cbn [app length]. lia. }
  assert (Hw : words (pad m) <> []).
  { destruct (pad m) as [|b0 [|b1 [|b2 [|b3 r]]]] eqn:P; cbn [length] in *; try lia.
    cbn [words]. discriminate. }
  unfold blocks in E. destruct (words (pad m)) as [|w ws]; [contradiction|].
  cbn in E. discriminate.
Qed.
