(* Component handshake: shape and definition of the digest, FIPS 180 vectors,
   classification of the server's reply by Component.Resume. *)
From Coq Require Strings.String Strings.Ascii.
From Coq Require Import List NArith Bool Lia.
From XV Require Import Lib.Sx Model.Sha1 Model.Hex Model.Component Proofs.Sha1P Proofs.HexP.
Import Coq.Strings.String.StringSyntax.
Import ListNotations.
Open Scope N_scope.

(* ---- literals for the vectors ---- *)
Fixpoint bytes_of (s : String.string) : str :=
  match s with
  | String.EmptyString => []
  | String.String a r => Ascii.N_of_ascii a :: bytes_of r
  end.
Delimit Scope string_scope with string.
Arguments bytes_of s%string.

(* FIPS 180 / RFC 3174 test vectors *)
Lemma sha1_vector_abc :
  hex (sha1 (bytes_of "abc")) = bytes_of "a9993e364706816aba3e25717850c26c9cd0d89d".
Proof. vm_compute. reflexivity. Qed.

Lemma sha1_vector_empty :
  hex (sha1 []) = bytes_of "da39a3ee5e6b4b0d3255bfef95601890afd80709".
Proof. vm_compute. reflexivity. Qed.

Lemma sha1_vector_448 :
  hex (sha1 (bytes_of "abcdbcdecdefdefgefghfghighijhijkijkljklmklmnlmnomnopnopq"))
  = bytes_of "84983e441c3bd26ebaae4aa1f95129e5e54670f1".
Proof. vm_compute. reflexivity. Qed.

(* 896-bit message: three blocks after padding *)
Lemma sha1_vector_896 :
  hex (sha1 (bytes_of
    "abcdefghbcdefghicdefghijdefghijkefghijklfghijklmghijklmnhijklmnoijklmnopjklmnopqklmnopqrlmnopqrsmnopqrstnopqrstu"))
  = bytes_of "a49b2446a02c645bf419f995b67091253a04a259".
Proof. vm_compute. reflexivity. Qed.

Lemma sha1_vector_1000a :
  hex (sha1 (repeat 97 1000)) = bytes_of "291e9a6c66994949b57ba5e650361e98fc36b1ba".
Proof. vm_compute. reflexivity. Qed.

(* the repository's own test (component_test.go TestHandshake) *)
Lemma handshake_vector_repo :
  handshake (bytes_of "1263952298440005243") (bytes_of "mypass")
  = bytes_of "c77e2ef0109fbbc5161e83b51629cd1353495332".
Proof. vm_compute. reflexivity. Qed.

(* id first, secret second: swapping them changes the digest ... *)
Lemma handshake_order_matters :
  handshake (bytes_of "id") (bytes_of "secret") <> handshake (bytes_of "secret") (bytes_of "id").
Proof. vm_compute. discriminate. Qed.

(* ... and only the concatenation matters *)
Lemma handshake_concat id1 id2 secret :
  handshake (id1 ++ id2) secret = handshake id1 (id2 ++ secret).
Proof. unfold handshake. rewrite app_assoc. reflexivity. Qed.

(* ---- shape: 40 characters of [0-9a-f], for every id and secret ---- *)
Lemma digest_length id secret : length (handshake id secret) = 40%nat.
Proof. unfold handshake. rewrite hex_length, sha1_length. reflexivity. Qed.

Lemma digest_alpha id secret :
  Forall (fun c => is_lower_hex c = true) (handshake id secret).
Proof. unfold handshake. apply hex_alpha. apply sha1_bytes. Qed.

Lemma digest_shape id secret :
  length (handshake id secret) = 40%nat /\
  Forall (fun c => is_lower_hex c = true) (handshake id secret).
Proof. split; [apply digest_length | apply digest_alpha]. Qed.

Lemma digest_lower_case id secret :
  Forall (fun c => ~ (65 <= c <= 90)) (handshake id secret).
Proof.
  eapply Forall_impl; [|apply digest_alpha]. intros c Hc. apply lower_hex_not_upper. exact Hc.
Qed.

Lemma digest_xml_safe id secret :
  Forall (fun c => c <> 60 /\ c <> 38 /\ c <> 62 /\ c <> 34 /\ c <> 39) (handshake id secret).
Proof.
  eapply Forall_impl; [|apply digest_alpha]. intros c Hc. apply lower_hex_xml_safe. exact Hc.
Qed.

(* ---- what a reader of the element gets back (Model.Component.parse_handshake_element) ---- *)
Lemma strip_prefix_app p s : strip_prefix p (p ++ s) = Some s.
Proof.
  induction p as [|x p IH]; [reflexivity|]. cbn [strip_prefix app].
  rewrite N.eqb_refl. exact IH.
Qed.

Lemma text_upto_lt_app t r :
  Forall (fun c => c <> 60) t -> text_upto_lt (t ++ 60 :: r) = (t, 60 :: r).
Proof.
  intros Ht. induction Ht as [|c t Hc Ht IH]; [reflexivity|].
  cbn [app text_upto_lt]. destruct (N.eqb c 60) eqn:E.
  - apply N.eqb_eq in E. contradiction.
  - rewrite IH. reflexivity.
Qed.

Lemma parse_handshake_element_digest id secret :
  parse_handshake_element (handshake_element id secret) = Some (handshake id secret).
Proof.
  unfold parse_handshake_element, handshake_element. rewrite strip_prefix_app.
  change close_tag with (60 :: tl close_tag) at 1.
  rewrite text_upto_lt_app.
  - reflexivity.
  - eapply Forall_impl; [|apply digest_xml_safe]. intros c Hc. apply Hc.
Qed.

(* ---- definition: what is written, in which order ---- *)
Lemma digest_def id secret : handshake id secret = hex (sha1 (id ++ secret)).
Proof. reflexivity. Qed.

Lemma written_def secret e id :
  e_pre e = PConnected id -> e_write_ok e = true ->
  r_written (component_connect secret e)
  = [open_tag ++ hex (sha1 (id ++ secret)) ++ close_tag].
Proof.
  intros Hp Hw. unfold component_connect. rewrite Hp, Hw. cbn [negb].
  destruct (e_reply e); reflexivity.
Qed.

Lemma written_nothing secret e :
  (forall id, e_pre e <> PConnected id) \/ e_write_ok e = false ->
  r_written (component_connect secret e) = [].
Proof.
  intros [Hp|Hw]; unfold component_connect.
  - destruct (e_pre e) as [| |id]; try reflexivity. exfalso. exact (Hp id eq_refl).
  - destruct (e_pre e) as [| |id]; try reflexivity. rewrite Hw. reflexivity.
Qed.

(* ---- reply handling ---- *)
Definition is_handshake (r : reply) : bool :=
  match r with RHandshake => true | _ => false end.

(* the run reaches the reply and the reply is a handshake *)
Definition success (e : env) : bool :=
  match e_pre e with
  | PConnected _ => e_write_ok e && is_handshake (e_reply e)
  | _ => false
  end.

Lemma connect_success secret e :
  success e = true ->
  r_err (component_connect secret e) = ErrNil /\
  r_state (component_connect secret e) = Established /\
  r_recv (component_connect secret e) = true.
Proof.
  unfold success, component_connect. destruct (e_pre e) as [| |id]; try discriminate.
  intros H. apply andb_true_iff in H. destruct H as [Hw Hr]. rewrite Hw. cbn [negb].
  destruct (e_reply e); try discriminate. repeat split.
Qed.

Lemma connect_failure secret e :
  success e = false ->
  (exists p, r_err (component_connect secret e) = ErrConn p) /\
  r_state (component_connect secret e) <> Established /\
  r_recv (component_connect secret e) = false.
Proof.
  unfold success, component_connect. destruct (e_pre e) as [| |id].
  - intros _. cbn. repeat split; [eexists; reflexivity | discriminate].
  - intros _. cbn. repeat split; [eexists; reflexivity | discriminate].
  - destruct (e_write_ok e); cbn [negb andb].
    + destruct (e_reply e); cbn; intros H; try discriminate;
        (repeat split; [eexists; reflexivity | discriminate]).
    + intros _. cbn. repeat split; [eexists; reflexivity | discriminate].
Qed.

(* each of the three observations, alone, is equivalent to success *)
Lemma established_iff_success secret e :
  let r := component_connect secret e in
  (r_err r = ErrNil <-> success e = true) /\
  (r_state r = Established <-> success e = true) /\
  (r_recv r = true <-> success e = true).
Proof.
  cbv zeta. destruct (success e) eqn:Hs.
  - destruct (connect_success secret e Hs) as (H1 & H2 & H3).
    rewrite H1, H2, H3. repeat split; reflexivity.
  - destruct (connect_failure secret e Hs) as ([p H1] & H2 & H3).
    rewrite H1, H3. repeat split; intros H; try discriminate. contradiction.
Qed.

(* the statement of the property over the reply alphabet: the header was read and the
   handshake went out; then established <-> the reply is a handshake *)
Lemma established_iff_handshake secret e id :
  e_pre e = PConnected id -> e_write_ok e = true ->
  let r := component_connect secret e in
  (r_err r = ErrNil /\ r_state r = Established /\ r_recv r = true) <-> e_reply e = RHandshake.
Proof.
  intros Hp Hw. cbv zeta. unfold component_connect. rewrite Hp, Hw. cbn [negb].
  destruct (e_reply e); cbn; split; intros H; try discriminate; try reflexivity;
    try (destruct H as (H & _ & _); discriminate); repeat split.
Qed.

Lemma stream_error_reply secret e id c :
  e_pre e = PConnected id -> e_write_ok e = true -> e_reply e = RStreamError c ->
  let r := component_connect secret e in
  r_err r = ErrConn true /\ r_state r = StreamErrorState /\ r_recv r = false /\
  r_events r = [(StreamErrorState, conflict)].
Proof.
  intros Hp Hw Hr. cbv zeta. unfold component_connect. rewrite Hp, Hw, Hr. cbn.
  repeat split.
Qed.

Lemma other_reply secret e id :
  e_pre e = PConnected id -> e_write_ok e = true ->
  (e_reply e = RReadError \/ exists k, e_reply e = ROther k) ->
  let r := component_connect secret e in
  r_err r = ErrConn true /\ r_state r = PermanentErrorState /\ r_recv r = false.
Proof.
  intros Hp Hw Hr. cbv zeta. unfold component_connect. rewrite Hp, Hw.
  destruct Hr as [Hr|[k Hr]]; rewrite Hr; cbn; repeat split.
Qed.

Lemma cut_reply secret e id :
  e_pre e = PConnected id -> e_write_ok e = true -> e_reply e = RCut ->
  let r := component_connect secret e in
  r_err r = ErrConn false /\ r_state r = PermanentErrorState /\ r_recv r = false.
Proof.
  intros Hp Hw Hr. cbv zeta. unfold component_connect. rewrite Hp, Hw, Hr. cbn. repeat split.
Qed.

Lemma write_failure secret e id :
  e_pre e = PConnected id -> e_write_ok e = false ->
  let r := component_connect secret e in
  r_err r = ErrConn false /\ r_state r = StreamErrorState /\ r_recv r = false.
Proof.
  intros Hp Hw. cbv zeta. unfold component_connect. rewrite Hp, Hw. cbn. repeat split.
Qed.

Lemma bad_transport secret e :
  e_pre e = PBadTransport ->
  let r := component_connect secret e in
  r_err r = ErrConn true /\ r_state r = PermanentErrorState /\ r_recv r = false.
Proof. intros Hp. cbv zeta. unfold component_connect. rewrite Hp. cbn. repeat split. Qed.

(* dial refused or timed out, connection cut or unreadable during the stream header: the
   transport's own, non-permanent, error *)
Lemma connect_failed secret e :
  e_pre e = PConnectFail ->
  let r := component_connect secret e in
  r_err r = ErrConn false /\ r_state r = PermanentErrorState /\ r_recv r = false.
Proof. intros Hp. cbv zeta. unfold component_connect. rewrite Hp. cbn. repeat split. Qed.

(* a connection is left open for Send exactly when the attempt succeeded *)
Lemma open_iff_success secret e : r_open (component_connect secret e) = true <-> success e = true.
Proof.
  unfold success, component_connect. destruct (e_pre e) as [| |id]; cbn; try (split; discriminate).
  destruct (e_write_ok e); cbn [negb andb]; [|cbn; split; discriminate].
  destruct (e_reply e); cbn; split; intros H; try discriminate; reflexivity.
Qed.

(* after the end of the session, or of the attempt, the state is never Established *)
Lemma state_after_end_not_established secret e :
  state_after_end (component_connect secret e) <> Established.
Proof.
  unfold state_after_end. destruct (r_recv (component_connect secret e)) eqn:Hr; [discriminate|].
  destruct (success e) eqn:Hs.
  - destruct (connect_success secret e Hs) as (_ & _ & H). congruence.
  - destruct (connect_failure secret e Hs) as (_ & H & _). exact H.
Qed.

(* the StreamError text of the one event: "conflict" exactly on the stream-error branch
   (whatever condition the server named), empty on every other path *)
Definition event_text (e : env) : str :=
  match e_pre e with
  | PConnected _ =>
      if e_write_ok e then match e_reply e with RStreamError _ => conflict | _ => [] end else []
  | _ => []
  end.

Lemma one_event_exact secret e :
  r_events (component_connect secret e) = [(r_state (component_connect secret e), event_text e)].
Proof.
  unfold component_connect, event_text. destruct (e_pre e) as [| |id]; try reflexivity.
  destruct (e_write_ok e); cbn [negb]; [|reflexivity].
  destruct (e_reply e); reflexivity.
Qed.

(* the outcome is a function of (transport outcome, write outcome, reply) and the secret:
   there is no other input - in particular nothing kept from an earlier connection.  This is
   the FORM of the model (true of the code at HEAD: a new hasher per call, a new transport
   per Resume); that the code has this form is checked by the differential runs only. *)
Lemma no_hidden_input secret e1 e2 :
  e_pre e1 = e_pre e2 -> e_write_ok e1 = e_write_ok e2 -> e_reply e1 = e_reply e2 ->
  component_connect secret e1 = component_connect secret e2.
Proof.
  destruct e1 as [p1 w1 r1], e2 as [p2 w2 r2]. cbn. intros -> -> ->. reflexivity.
Qed.

(* exactly one event is delivered and it carries the state Connect leaves behind *)
Lemma one_event secret e :
  exists s, r_events (component_connect secret e) = [(r_state (component_connect secret e), s)].
Proof.
  unfold component_connect. destruct (e_pre e) as [| |id]; try (eexists; reflexivity).
  destruct (e_write_ok e); cbn [negb]; [|eexists; reflexivity].
  destruct (e_reply e); eexists; reflexivity.
Qed.

(* ---- several connections of the same component: the k-th digest depends on the k-th
   stream id and the secret only ---- *)
Lemma handshakes_nth secret ids k id :
  nth_error ids k = Some id ->
  nth_error (handshakes secret ids) k = Some (hex (sha1 (id ++ secret))).
Proof. intros H. unfold handshakes. rewrite (map_nth_error _ _ _ H). reflexivity. Qed.

Lemma handshakes_length secret ids : length (handshakes secret ids) = length ids.
Proof. unfold handshakes. apply map_length. Qed.

Lemma sessions_nth secret es k e :
  nth_error es k = Some e ->
  nth_error (component_sessions secret es) k = Some (component_connect secret e).
Proof. intros H. unfold component_sessions. exact (map_nth_error _ _ _ H). Qed.

Lemma sessions_written_nth secret es k e id :
  nth_error es k = Some e -> e_pre e = PConnected id -> e_write_ok e = true ->
  exists r, nth_error (component_sessions secret es) k = Some r /\
            r_written r = [open_tag ++ hex (sha1 (id ++ secret)) ++ close_tag].
Proof.
  intros H Hp Hw. exists (component_connect secret e). split.
  - exact (sessions_nth secret es k e H).
  - exact (written_def secret e id Hp Hw).
Qed.
