(* C10: with Client.sendMu around them, the operations of Model/Ack.v are atomic - every execution of the
   instruction-level system of Model/AckLock.v, under every schedule, ends in the state and with the wire of
   Model/Ack.v run along some merge of the goroutines' operation lists (the order in which they took the lock).
   Without the lock it is not so. *)
From Coq Require Import List ZArith NArith Bool Arith Lia Permutation.
From XV Require Import Lib.Sx Model.Queue Model.Ack Model.Send Model.AckLock Proofs.AckP Proofs.SendP.
Import ListNotations.
Open Scope Z_scope.

Notation P := (flat_map prog).

Definition inner (m : micro) : Prop := match m with MLock | MUnlock => False | _ => True end.
Definition tail_ok (t : list micro) : Prop := exists body, t = body ++ [MUnlock] /\ Forall inner body.
Definition no_enabled_ops (ls : list (list aop)) : Prop := Forall (Forall (fun o => is_enabled o = false)) ls.

(* the rest of a critical section, run without interruption: queue and wire afterwards *)
Fixpoint finish (q : list (Z * str) * Z) (wire : list witem) (p : list micro) : (list (Z * str) * Z) * list witem :=
  match p with
  | [] => (q, wire)
  | m :: p' =>
      match m with
      | MPush d => finish (q_push q d) wire p'
      | MWrite w => finish q (wire ++ [w]) p'
      | MDrop => finish (q_droplast q) wire p'
      | MAck h cut =>
          let '(q', w) := q_ack q h in
          finish q' (wire ++ match cut with None => w | Some j => firstn j w end) p'
      | _ => finish q wire p'
      end
  end.

Lemma finish_writes ws : forall q wire p, finish q wire (map MWrite ws ++ p) = finish q (wire ++ ws) p.
Proof.
  induction ws as [|w ws IH]; intros q wire p; cbn [map app finish]; [rewrite app_nil_r; reflexivity|].
  rewrite IH, <- app_assoc. reflexivity.
Qed.

Lemma finish_step i m q lock k q' w lock' wire p : inner m ->
  m_effect i m q lock = (k, q', w, lock') ->
  lock' = lock /\ Forall inner k /\ finish q' (wire ++ w) (k ++ p) = finish q wire (m :: p).
Proof.
  intros Hi He. destruct m; try contradiction; cbn [m_effect] in He.
  - inversion He; subst. cbn [app finish]. rewrite app_nil_r. auto.
  - inversion He; subst. cbn [app finish]. auto.
  - inversion He; subst. cbn [app finish]. rewrite app_nil_r. auto.
  - inversion He; subst. cbn [app finish]. rewrite app_nil_r. auto.
  - cbn [finish]. destruct (q_ack q h) as [q1 w1]. inversion He; subst. split; [reflexivity|]. split.
    + apply Forall_forall. intros x Hx. apply in_map_iff in Hx as [y [<- _]]. exact I.
    + rewrite app_nil_r, finish_writes. reflexivity.
Qed.

Lemma prog_head o : exists t, prog o = MLock :: t /\ tail_ok t.
Proof.
  destruct o as [[]|[]|[]|h|h j| | |r]; cbn [prog]; eexists; (split; [reflexivity|]);
    match goal with |- tail_ok ?t => exists (removelast t); cbn; split; [reflexivity|repeat constructor] end.
Qed.

(* a critical section run to its end is the step of Model/Ack.v *)
Lemma finish_prog o q wire : is_enabled o = false ->
  finish q wire (tl (prog o)) = (fst (fst (a_step (q, true) o)), wire ++ snd (a_step (q, true) o)) /\
  snd (fst (a_step (q, true) o)) = true.
Proof.
  intros He. destruct o as [[]|[]|[]|h|h j| | |r]; try discriminate; cbn [prog tl finish a_step a_send a_refused fst snd];
    rewrite ?app_nil_r; auto.
  - unfold a_ack. cbn [fst snd]. destruct (q_ack q h) as [q' w]. cbn. auto.
  - unfold a_ack_refused, a_ack. cbn [fst snd]. destruct (q_ack q h) as [q' w]. cbn. auto.
Qed.

Lemma P_nil_inv ops : P ops = [] -> ops = [].
Proof. destruct ops as [|o ops]; [reflexivity|]. cbn. destruct (prog_head o) as [t [-> _]]. discriminate. Qed.

Lemma P_cons_inv ops m rest : P ops = m :: rest ->
  exists o ops' t, ops = o :: ops' /\ m = MLock /\ prog o = MLock :: t /\ tail_ok t /\ rest = t ++ P ops'.
Proof.
  destruct ops as [|o ops]; [discriminate|]. cbn [flat_map]. destruct (prog_head o) as [t [E Ht]].
  rewrite E. cbn [app]. intros H. inversion H; subst. exists o, ops, t. auto.
Qed.

Lemma app_cons_split {A} (X : list A) : forall x B pre y post,
  X ++ x :: B = pre ++ y :: post -> (pre = X /\ y = x /\ post = B) \/ In y X \/ In y B.
Proof.
  induction X as [|a X IH]; intros x B pre y post H.
  - destruct pre as [|p pre]; cbn in H; inversion H; subst; [left; auto|].
    right. right. apply in_or_app. right. left. reflexivity.
  - destruct pre as [|p pre]; cbn in H; inversion H; subst; [right; left; left; reflexivity|].
    destruct (IH _ _ _ _ _ H2) as [(-> & -> & ->)|[Hi|Hi]]; [left; auto|right; left; right; exact Hi|right; right; exact Hi].
Qed.

Lemma creach_snoc {A} (s1 s2 s3 : cstate A) : creach s1 s2 -> cstep s2 s3 -> creach s1 s3.
Proof.
  intros H. induction H as [s|a b c Hab _ IH]; intros Hs.
  - eapply creach_step; [exact Hs|apply creach_refl].
  - eapply creach_step; [exact Hab|apply IH; exact Hs].
Qed.

Lemma exec_snoc lin o : a_exec a_init (lin ++ [o]) = fst (a_step (a_exec a_init lin) o).
Proof. unfold a_exec. rewrite fold_left_app. reflexivity. Qed.

Lemma wire_of_snoc lin o : wire_of (lin ++ [o]) = wire_of lin ++ snd (a_step (a_exec a_init lin) o).
Proof.
  unfold wire_of. rewrite a_run_app, map_app, concat_app. f_equal.
  cbn [a_run]. destruct (a_step (a_exec a_init lin) o) as [st' w]. cbn. apply app_nil_r.
Qed.

Inductive Inv (threads : list (list aop)) : gstate -> Prop :=
| Inv_free : forall rem lin q,
    creach (threads, []) (rem, lin) -> no_enabled_ops rem -> a_exec a_init lin = (q, true) ->
    Inv threads (map P rem, q, wire_of lin, None)
| Inv_held : forall pre_r ops post_r lin o tail q wire qf,
    creach (threads, []) (pre_r ++ ops :: post_r, lin ++ [o]) -> no_enabled_ops (pre_r ++ ops :: post_r) ->
    a_exec a_init (lin ++ [o]) = (qf, true) ->
    finish q wire tail = (qf, wire_of (lin ++ [o])) -> tail_ok tail ->
    Inv threads (map P pre_r ++ (tail ++ P ops) :: map P post_r, q, wire, Some (length pre_r)).

Lemma no_enabled_split (r1 : list (list aop)) o ops r3 :
  no_enabled_ops (r1 ++ (o :: ops) :: r3) -> is_enabled o = false /\ no_enabled_ops (r1 ++ ops :: r3).
Proof.
  unfold no_enabled_ops. intros H. apply Forall_app in H as [H1 H2]. inversion H2 as [|? ? Ho H3]; subst.
  inversion Ho as [|? ? He Hops]; subst. split; [exact He|].
  apply Forall_app. split; [exact H1|constructor; assumption].
Qed.

Lemma gstep_inv progs q wire lock g' : gstep (progs, q, wire, lock) g' ->
  exists pre m rest post k q' w lock',
    progs = pre ++ (m :: rest) :: post /\ m_enabled (length pre) m lock = true /\
    m_effect (length pre) m q lock = (k, q', w, lock') /\
    g' = (pre ++ (k ++ rest) :: post, q', wire ++ w, lock').
Proof.
  intros H. inversion H; subst. do 8 eexists. split; [reflexivity|]. split; [eassumption|]. split; [eassumption|reflexivity].
Qed.

Lemma Inv_step threads g g' : Inv threads g -> gstep g g' -> Inv threads g'.
Proof.
  intros HI Hs. destruct HI as [rem lin q Hr Hn Hq|pre_r ops post_r lin o tail q wire qf Hr Hn Hq Hf Ht].
  - (* the lock is free: the only instruction a goroutine can be at is Lock *)
    apply gstep_inv in Hs as (pre & m & rest & post & k & q' & w & lock' & E1 & Hen & Hef & ->).
    apply map_eq_app in E1 as (r1 & r2 & -> & <- & E1).
    apply map_eq_cons in E1 as (ops & r3 & -> & Hops & <-).
    apply P_cons_inv in Hops as (o & ops' & t & -> & -> & Hprog & Ht & ->).
    cbn [m_effect] in Hef. injection Hef as <- <- <- <-. cbn [app]. rewrite app_nil_r, map_length.
    destruct (no_enabled_split _ _ _ _ Hn) as [He Hn'].
    assert (Ht' : tl (prog o) = t) by (rewrite Hprog; reflexivity).
    pose proof (finish_prog o q (wire_of lin) He) as [Hfin Hon]. rewrite Ht' in Hfin.
    eapply Inv_held with (lin := lin) (o := o) (qf := fst (fst (a_step (q, true) o))).
    + eapply creach_snoc; [exact Hr|]. apply cstep_write.
    + exact Hn'.
    + rewrite exec_snoc, Hq. destruct (a_step (q, true) o) as [[q1 b] w1]. cbn [fst snd] in *. rewrite Hon. reflexivity.
    + rewrite Hfin, wire_of_snoc, Hq. reflexivity.
    + exact Ht.
  - apply gstep_inv in Hs as (pre & m & rest & post & k & q' & w & lock' & E1 & Hen & Hef & ->).
    apply app_cons_split in E1 as [(-> & E & ->)|Hin].
    + (* the holder goes on *)
      destruct Ht as [body [-> Hb]]. destruct body as [|b body].
      * (* Unlock: the section is over *)
        cbn [app] in E. inversion E; subst. cbn [m_effect] in Hef. injection Hef as <- <- <- <-.
        cbn [finish] in Hf. inversion Hf; subst. cbn [app]. rewrite app_nil_r.
        replace (map P pre_r ++ P ops :: map P post_r) with (map P (pre_r ++ ops :: post_r)) by (rewrite map_app; reflexivity).
        apply Inv_free; assumption.
      * cbn [app] in E. inversion E; subst. inversion Hb as [|? ? Hib Hb']; subst.
        destruct (finish_step _ _ _ _ _ _ _ _ wire (body ++ [MUnlock]) Hib Hef) as (-> & Hk & Hfin).
        replace (k ++ (body ++ [MUnlock]) ++ P ops) with (((k ++ body) ++ [MUnlock]) ++ P ops) by (rewrite <- !app_assoc; reflexivity).
        eapply Inv_held; try eassumption.
        -- rewrite <- app_assoc, Hfin. exact Hf.
        -- exists (k ++ body). split; [reflexivity|apply Forall_app; split; assumption].
    + (* any other goroutine is at a Lock, which is held *)
      assert (Hm : exists opsj, m :: rest = P opsj).
      { destruct Hin as [Hin|Hin]; apply in_map_iff in Hin as [opsj [E _]]; exists opsj; symmetry; exact E. }
      destruct Hm as [opsj Hm]. symmetry in Hm. apply P_cons_inv in Hm as (_ & _ & _ & _ & -> & _).
      cbn in Hen. discriminate.
Qed.

Lemma Inv_reach threads g g' : greach g g' -> Inv threads g -> Inv threads g'.
Proof. intros H. induction H as [g|g1 g2 g3 Hs _ IH]; intros HI; [exact HI|]. apply IH. eapply Inv_step; eassumption. Qed.

Lemma interleavings_Forall {A} (Q : A -> Prop) ls w :
  interleavings ls w -> Forall (Forall Q) ls -> Forall Q w.
Proof.
  intros H. induction H as [ls Hd|pre x rest post w _ IH]; intros HF; [constructor|].
  apply Forall_app in HF as [H1 H2]. inversion H2 as [|? ? Hx H3]; subst. inversion Hx; subst.
  constructor; [assumption|]. apply IH. apply Forall_app. split; [exact H1|constructor; assumption].
Qed.

(* THE LOCK MAKES THE OPERATIONS ATOMIC: any number of goroutines, any operation lists (on one session that
   holds), EVERY schedule of their instructions: when all have finished, queue and wire are those of Model/Ack.v
   along a merge w of the operation lists; so the specification holds along w and numbers follow the wire. *)
Theorem lock_makes_atomic : forall threads progs q wire lock,
  no_enabled_ops threads ->
  greach (g_init (map P threads)) (progs, q, wire, lock) -> Forall (fun p => p = []) progs ->
  exists w, interleavings threads w /\ a_exec a_init w = (q, true) /\ wire = wire_of w /\ lock = None /\
    forall i d, In (i, d) (fst q) -> 1 <= i /\ nth_error (flat_map first_tx w) (Z.to_nat (i - 1)) = Some d.
Proof.
  intros threads progs q wire lock Hn Hr Hd.
  assert (H0 : Inv threads (g_init (map P threads))).
  { unfold g_init. change (@nil witem) with (wire_of []). apply Inv_free; [apply creach_refl|exact Hn|reflexivity]. }
  pose proof (Inv_reach _ _ _ Hr H0) as HI.
  inversion HI as [rem lin q1 Hc Hne Hq E|pre_r ops post_r lin o tail q1 wire1 qf Hc Hne Hq Hf Ht E]; subst.
  - assert (Hdone : all_done rem).
    { unfold all_done. rewrite Forall_forall in *. intros l Hl. apply P_nil_inv. apply Hd. apply in_map. exact Hl. }
    destruct (creach_interleaving _ _ _ Hc Hdone) as [m [Hm Hw]]. cbn [fst snd app] in Hm, Hw. subst lin.
    exists m. split; [exact Hm|]. split; [exact Hq|]. split; [reflexivity|]. split; [reflexivity|].
    assert (Hs : same_session m) by (apply (interleavings_Forall _ _ _ Hm Hn)).
    pose proof (proj2 (wire_order_is_numbering m Hs)) as Hw. rewrite Hq in Hw. exact Hw.
  - exfalso. rewrite Forall_forall in Hd. specialize (Hd (tail ++ P ops)).
    destruct Ht as [body [-> _]].
    assert (Hin : In ((body ++ [MUnlock]) ++ P ops) (map P pre_r ++ ((body ++ [MUnlock]) ++ P ops) :: map P post_r))
      by (apply in_or_app; right; left; reflexivity).
    specialize (Hd Hin). destruct body; discriminate.
Qed.

(* WITHOUT the lock: two senders; the first takes its number, the second takes its number and writes, the
   first writes.  The stanza queued as number 1 is the second on the wire: an <a h='1'/>, which the server
   sends after the stanza it received first, discards the other one. *)
Lemma without_lock_misnumbered :
  let threads := [[ASend KStanza [1%N]]; [ASendRaw KStanza [2%N]]] in
  exists q wire,
    greach (g_init (map (fun ops => unlocked (P ops)) threads)) ([[]; []], q, wire, None) /\
    fst q = [(1, [1%N]); (2, [2%N])] /\ wire = [WData [2%N]; WData [1%N]].
Proof.
  cbn zeta. eexists. eexists. split.
  - unfold g_init. cbn [map flat_map prog app unlocked filter].
    eapply greach_step.
    { apply (gstep_one [] (MPush [1%N]) [MWrite (WData [1%N])] [[MPush [2%N]; MWrite (WData [2%N])]]); reflexivity. }
    eapply greach_step.
    { apply (gstep_one [[MWrite (WData [1%N])]] (MPush [2%N]) [MWrite (WData [2%N])] []); reflexivity. }
    eapply greach_step.
    { apply (gstep_one [[MWrite (WData [1%N])]] (MWrite (WData [2%N])) [] []); reflexivity. }
    eapply greach_step.
    { apply (gstep_one [] (MWrite (WData [1%N])) [] [[]]); reflexivity. }
    apply greach_refl.
  - split; reflexivity.
Qed.
