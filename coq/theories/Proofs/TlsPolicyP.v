(* Proofs about Model/TlsPolicy.v (C04): the flag-reading model of the TLS gate is the shared
   session model; the flags are sound for the real channel when (and only when) every connection
   starts from cleared flags; the certificate decision. *)
From Coq Require Import List ZArith NArith Bool Lia.
From XV Require Import Lib.Sx Model.Session Model.SessionSpec Model.TlsPolicy Proofs.SessionP Proofs.SessionSpecP.
Import ListNotations.

(* ---------- the code, with its flag tests, IS Session.connect ---------- *)
Lemma connect_fl_is_connect cfg dial tls p s : connect_fl true cfg dial tls p s = connect cfg dial tls p s.
Proof.
  unfold connect_fl, connect. destruct dial; cbn [negb]; [|reflexivity].
  destruct (read_header s) as [[id0 s1]|]; [|reflexivity].
  cbn [orb]. destruct (read_features s1) as [[f s2]|]; [|destruct p; reflexivity].
  cbn [p_code_secure set_flags negb]. unfold start_tls_step.
  destruct (f_tls f) eqn:Et.
  - destruct (c_insecure cfg) eqn:Ei; cbn.
    + destruct (step_auth _ _ _ _ _ _) as [[w r] p']. reflexivity.
    + reflexivity.
  - destruct (read_proceed s2) as [s3|] eqn:Ep.
    + destruct tls.
      * cbn. destruct (c_insecure cfg); cbn.
        all: destruct (read_header s3) as [[id1 s4]|]; [|destruct p; reflexivity].
        all: destruct (read_features s4) as [[f1 s5]|]; [|destruct p; reflexivity].
        all: destruct p; cbn; destruct (step_auth _ _ _ _ _ _) as [[w r] p']; reflexivity.
      * cbn. destruct (c_insecure cfg); cbn; destruct p; reflexivity.
    + cbn. destruct (c_insecure cfg); cbn; destruct p; reflexivity.
  - destruct (read_proceed s2) as [s3|] eqn:Ep.
    + destruct tls.
      * cbn. destruct (c_insecure cfg); cbn.
        all: destruct (read_header s3) as [[id1 s4]|]; [|destruct p; reflexivity].
        all: destruct (read_features s4) as [[f1 s5]|]; [|destruct p; reflexivity].
        all: destruct p; cbn; destruct (step_auth _ _ _ _ _ _) as [[w r] p']; reflexivity.
      * cbn. destruct (c_insecure cfg); cbn; destruct p; reflexivity.
    + cbn. destruct (c_insecure cfg); cbn; destruct p; reflexivity.
Qed.

Lemma run_conns_fl_is_run_conns cfg cs : forall p, run_conns_fl true cfg p cs = run_conns cfg p cs.
Proof.
  induction cs as [|c cs IH]; intros p; [reflexivity|].
  cbn [run_conns_fl run_conns]. rewrite connect_fl_is_connect.
  destruct (connect _ _ _ _ _) as [[w r] p1]. rewrite IH. reflexivity.
Qed.

(* ---------- the gate decided by the flags keeps clear text out, provided the flag does not lie ---------- *)
Definition no_clear_outs (w : list out) : Prop :=
  Forall (fun x => o_tls x = false -> clear_ok (o_req x) = true) w.

(* the precondition is exactly what the two resets establish: at the start of a connection the
   transport does not claim to be secure *)
Lemma connect_fl_no_cleartext reset cfg dial tls p0 s :
  reset = true \/ p_code_secure p0 = false ->
  c_insecure cfg = false ->
  no_clear_outs (fst (fst (connect_fl reset cfg dial tls p0 s))).
Proof.
  intros Hflag Hi. unfold connect_fl, no_clear_outs. rewrite Hi.
  destruct dial; cbn [negb]; [|constructor].
  set (p1 := if reset then set_flags p0 false (p_tls_enabled p0) else p0).
  assert (H1 : p_code_secure p1 = false).
  { subst p1. destruct Hflag as [-> | H]; [reflexivity|]. destruct reset; [reflexivity|exact H]. }
  clearbody p1. clear Hflag.
  destruct (read_header s) as [[id0 s1]|]; [|repeat constructor].
  set (p2 := if reset || negb (p_has_session p1) then set_flags p1 (p_code_secure p1) false else p1).
  assert (H2 : p_code_secure p2 = false).
  { subst p2. destruct (reset || negb (p_has_session p1)); [cbn; exact H1|exact H1]. }
  clearbody p2.
  destruct (read_features s1) as [[f s2]|]; [|repeat constructor].
  (* the flag is false: the code goes through startTlsIfSupported *)
  rewrite H2. cbn [negb]. unfold start_tls_step.
  destruct (f_tls f).
  - rewrite H2. cbn. repeat constructor.
  - destruct (read_proceed s2) as [s3|].
    2: { rewrite H2. cbn. repeat constructor. }
    destruct tls.
    2: { cbn. repeat constructor. }
    cbn [p_code_secure p_tls_enabled set_flags negb andb].
    destruct (read_header s3) as [[id1 s4]|]; [|cbn; repeat constructor].
    destruct (read_features s4) as [[f1 s5]|]; [|cbn; repeat constructor].
    pose proof (auth_chan cfg true (with_session (set_flags p2 true true)) f1 s5 [SHeader id1; SFeatures f1]) as H.
    destruct (step_auth _ _ _ _ _ _) as [[w r] p']. cbn [fst] in *.
    repeat (apply Forall_cons; [cbn; first [reflexivity | discriminate | intros; reflexivity]|]).
    apply Forall_chan_imp; exact H.
  - destruct (read_proceed s2) as [s3|].
    2: { rewrite H2. cbn. repeat constructor. }
    destruct tls.
    2: { cbn. repeat constructor. }
    cbn [p_code_secure p_tls_enabled set_flags negb andb].
    destruct (read_header s3) as [[id1 s4]|]; [|cbn; repeat constructor].
    destruct (read_features s4) as [[f1 s5]|]; [|cbn; repeat constructor].
    pose proof (auth_chan cfg true (with_session (set_flags p2 true true)) f1 s5 [SHeader id1; SFeatures f1]) as H.
    destruct (step_auth _ _ _ _ _ _) as [[w r] p']. cbn [fst] in *.
    repeat (apply Forall_cons; [cbn; first [reflexivity | discriminate | intros; reflexivity]|]).
    apply Forall_chan_imp; exact H.
Qed.

(* histories: with the resets, from ANY state the objects may be in *)
Lemma run_conns_fl_no_cleartext cfg cs : forall p,
  c_insecure cfg = false ->
  Forall (fun wrp => no_clear_outs (fst (fst wrp))) (run_conns_fl true cfg p cs).
Proof.
  induction cs as [|c cs IH]; intros p Hi; [constructor|].
  cbn [run_conns_fl].
  pose proof (connect_fl_no_cleartext true cfg (k_dial c) (k_tls c) p (k_script c) (or_introl eq_refl) Hi) as H.
  destruct (connect_fl _ _ _ _ _ _) as [[w r] p1]. cbn [fst] in H.
  constructor; [exact H|apply IH; exact Hi].
Qed.

(* ---------- without the resets: D12 ---------- *)
Definition f_tls_plain : features :=
  {| f_tls := TlsOffered; f_mechs := [mech_plain]; f_bind := true; f_sess := SessAbsent; f_sm := false |}.
Definition f_clear_plain : features :=
  {| f_tls := TlsNone; f_mechs := [mech_plain]; f_bind := true; f_sess := SessAbsent; f_sm := false |}.
Definition d12_cfg : config :=
  {| c_insecure := false; c_resource := []; c_sm_resume := false; c_mechs := [mech_plain] |}.
(* a session over verified TLS; then a connection whose server offers no TLS at all *)
Definition d12_history : list conn :=
  [ {| k_dial := true; k_tls := true; k_traffic := 0;
       k_script := [SHeader []; SFeatures f_tls_plain; SProceed; SHeader []; SFeatures f_clear_plain; SSuccess;
                    SHeader []; SFeatures f_clear_plain; SIq TResult (PlBind []) false] |};
    {| k_dial := true; k_tls := false; k_traffic := 0;
       k_script := [SHeader []; SFeatures f_clear_plain; SHeader []; SFeatures f_clear_plain; SSuccess] |} ].

Definition leaks (w : list out) : bool :=
  existsb (fun x => negb (o_tls x) && negb (clear_ok (o_req x))) w.

Lemma stale_flags_leak :
  map (fun wrp => leaks (fst (fst wrp))) (run_conns_fl false d12_cfg (fresh false) d12_history) = [false; true]
  /\ map (fun wrp => leaks (fst (fst wrp))) (run_conns_fl true d12_cfg (fresh false) d12_history) = [false; false].
Proof. split; vm_compute; reflexivity. Qed.

(* ---------- the flags at the end of a connection ---------- *)
Ltac dm :=
  match goal with
  | |- context [match ?x with _ => _ end] => destruct x eqn:?
  end.

Definition same_flags (p q : persist) : Prop :=
  p_code_secure q = p_code_secure p /\ p_tls_enabled q = p_tls_enabled p.

Lemma enable_flags cfg c p f s sn : same_flags p (snd (step_enable cfg c p f s sn)).
Proof. unfold step_enable, same_flags. repeat dm; cbn; split; reflexivity. Qed.

Lemma session_flags cfg c p f s sn : same_flags p (snd (step_session cfg c p f s sn)).
Proof.
  unfold step_session. destruct (f_sess f); try apply enable_flags.
  destruct s as [|[] s']; try (split; reflexivity).
  destruct t; try (split; reflexivity).
  pose proof (enable_flags cfg c (set_bind p (p_bind_jid p) (p_packet_id p + 1)) f s' [SIq TResult pl err]) as H.
  destruct (step_enable _ _ _ _ _ _) as [[w r] p2]. cbn in *. exact H.
Qed.

Lemma bind_flags cfg c p f s sn : same_flags p (snd (step_bind cfg c p f s sn)).
Proof.
  unfold step_bind. destruct s as [|[] s']; try (split; reflexivity).
  destruct t; try (split; reflexivity). destruct pl; try (split; reflexivity).
  pose proof (session_flags cfg c (set_bind p jid (p_packet_id p + 1)) f s' [SIq TResult (PlBind jid) err]) as H.
  destruct (step_session _ _ _ _ _ _) as [[w r] p2]. cbn in *. exact H.
Qed.

Lemma resume_flags cfg c p f s sn : same_flags p (snd (step_resume cfg c p f s sn)).
Proof.
  unfold step_resume. destruct (f_sm f && negb (str_eqb (p_sm_id p) [])).
  - destruct s as [|[] s']; try (split; reflexivity).
    + destruct (str_eqb previd (p_sm_id p)); split; reflexivity.
    + pose proof (bind_flags cfg c (clear_sm p) f s' [SFailed]) as H.
      destruct (step_bind _ _ _ _ _ _) as [[w r] p2]. cbn in *. exact H.
  - pose proof (bind_flags cfg c (if f_sm f then p else clear_sm p) f s sn) as H.
    destruct (f_sm f); exact H.
Qed.

Lemma auth_flags cfg c p f s sn : same_flags p (snd (step_auth cfg c p f s sn)).
Proof.
  unfold step_auth. destruct (choose_mech _ _) as [m|]; [|split; reflexivity].
  destruct (negb (implemented m)); [split; reflexivity|].
  destruct s as [|[] s1]; try (split; reflexivity).
  destruct (read_header s1) as [[id s2]|]; [|split; reflexivity].
  destruct (read_features s2) as [[f2 s3]|]; [|split; reflexivity].
  pose proof (resume_flags cfg c p f2 s3 [SHeader id; SFeatures f2]) as H.
  destruct (step_resume _ _ _ _ _ _) as [[w r] p2]. cbn in *. exact H.
Qed.

(* isSecure left true by a connection means: THIS connection's handshake and verification went
   through, and TLS is what was written on; after a successful negotiation Session.TlsEnabled says
   exactly whether the session runs over TLS *)
Lemma connect_flags_sound cfg tls p s :
  let x := connect cfg true tls p s in
  stale_secure (fst (fst x)) (snd x) = false /\
  (snd (fst x) = Ok -> p_tls_enabled (snd x) = existsb o_tls (fst (fst x))) /\
  (p_code_secure (snd x) = true -> tls = true).
Proof.
  unfold connect, stale_secure. cbn [negb].
  destruct (read_header s) as [[id0 s1]|]; [|cbn; repeat split; discriminate].
  destruct (read_features s1) as [[f s2]|]; [|cbn; repeat split; discriminate].
  assert (Hclear : forall pp sn, p_code_secure pp = false -> p_tls_enabled pp = false ->
     let y := step_auth cfg false pp f s2 sn in
     p_code_secure (snd y) && negb (existsb o_tls ([o false ROpen []] ++ fst (fst y))) = false /\
     (snd (fst y) = Ok -> p_tls_enabled (snd y) = existsb o_tls ([o false ROpen []] ++ fst (fst y))) /\
     (p_code_secure (snd y) = true -> tls = true)).
  { intros pp sn H1 H2 y. pose proof (auth_flags cfg false pp f s2 sn) as [Hs Ht].
    pose proof (auth_chan cfg false pp f s2 sn) as Hc. fold y in Hs, Ht, Hc.
    rewrite Hs, Ht, H1, H2. repeat split; try discriminate. intros _.
    cbn. symmetry. apply not_true_is_false. intros He. apply existsb_exists in He as (z & Hin & Hz).
    unfold all_chan in Hc. rewrite Forall_forall in Hc. rewrite (Hc z Hin) in Hz. discriminate. }
  assert (Htls : forall pp s5 f1 sn, p_code_secure pp = true -> p_tls_enabled pp = true -> tls = true ->
     let y := step_auth cfg true pp f1 s5 sn in
     forall w2, existsb o_tls w2 = true ->
     p_code_secure (snd y) && negb (existsb o_tls (w2 ++ fst (fst y))) = false /\
     (snd (fst y) = Ok -> p_tls_enabled (snd y) = existsb o_tls (w2 ++ fst (fst y))) /\
     (p_code_secure (snd y) = true -> tls = true)).
  { intros pp s5 f1 sn H1 H2 Ht y w2 Hw. pose proof (auth_flags cfg true pp f1 s5 sn) as [Hs Hte]. fold y in Hs, Hte.
    rewrite Hs, Hte, H1, H2, existsb_app, Hw. cbn. repeat split; auto. }
  destruct (f_tls f).
  - destruct (c_insecure cfg).
    + pose proof (Hclear (with_session (set_flags (set_flags p false (p_tls_enabled p)) false false)) [SHeader id0; SFeatures f] eq_refl eq_refl) as H.
      destruct (step_auth _ _ _ _ _ _) as [[w r] p']. cbn [fst snd] in *. exact H.
    + cbn. repeat split; discriminate.
  - destruct (read_proceed s2) as [s3|].
    2: { destruct (c_insecure cfg); cbn; repeat split; discriminate. }
    destruct tls.
    2: { destruct (c_insecure cfg); cbn; repeat split; discriminate. }
    destruct (read_header s3) as [[id1 s4]|]; [|cbn; repeat split; (discriminate || reflexivity)].
    destruct (read_features s4) as [[f1 s5]|]; [|cbn; repeat split; (discriminate || reflexivity)].
    pose proof (Htls (with_session (set_flags (set_flags (set_flags p false (p_tls_enabled p)) false false) true true)) s5 f1 [SHeader id1; SFeatures f1] eq_refl eq_refl eq_refl) as H.
    cbn zeta in H.
    destruct (step_auth _ _ _ _ _ _) as [[w r] p']. cbn [fst snd] in *. apply H. reflexivity.
  - destruct (read_proceed s2) as [s3|].
    2: { destruct (c_insecure cfg); cbn; repeat split; discriminate. }
    destruct tls.
    2: { destruct (c_insecure cfg); cbn; repeat split; discriminate. }
    destruct (read_header s3) as [[id1 s4]|]; [|cbn; repeat split; (discriminate || reflexivity)].
    destruct (read_features s4) as [[f1 s5]|]; [|cbn; repeat split; (discriminate || reflexivity)].
    pose proof (Htls (with_session (set_flags (set_flags (set_flags p false (p_tls_enabled p)) false false) true true)) s5 f1 [SHeader id1; SFeatures f1] eq_refl eq_refl eq_refl) as H.
    cbn zeta in H.
    destruct (step_auth _ _ _ _ _ _) as [[w r] p']. cbn [fst snd] in *. apply H. reflexivity.
Qed.

(* ---------- STARTTLS refused as a matter of policy: permanent ---------- *)
Lemma starttls_refusals_permanent cfg tls p id f s2 :
  c_insecure cfg = false ->
  f_tls f = TlsNone \/
  (f_tls f <> TlsNone /\ read_proceed s2 = None /\ is_cut s2 = false) \/
  (f_tls f <> TlsNone /\ read_proceed s2 <> None /\ tls = false) ->
  snd (fst (connect cfg true tls p (SHeader id :: SFeatures f :: s2))) = Err true true.
Proof.
  intros Hi H. unfold connect. cbn [negb read_header read_features]. rewrite Hi.
  destruct H as [H | [(Hn & Hp & Hc) | (Hn & Hp & Ht)]].
  - rewrite H. reflexivity.
  - destruct (f_tls f); [congruence| |]; rewrite Hp, Hc; reflexivity.
  - destruct (f_tls f); [congruence| |]; destruct (read_proceed s2); try congruence; rewrite Ht; reflexivity.
Qed.

(* ---------- the certificate decision ---------- *)
Lemma start_tls_sound t c :
  start_tls t c = true ->
  t_skip t = true \/
  (c_trusted c = true /\ valid_for c (t_domain t) = true /\
   valid_for c (match t_servername t with [] => t_domain t | n => n end) = true).
Proof.
  unfold start_tls, handshake_ok. destruct (t_skip t); [left; reflexivity|]. cbn [orb].
  intros H. apply andb_true_iff in H as [H1 H2]. apply andb_true_iff in H1 as [H3 H4].
  right. repeat split; assumption.
Qed.

Lemma connect_verified_for_domain cfg dial t c p s :
  Exists (fun x => o_tls x = true) (fst (fst (connect cfg dial (start_tls t c) p s))) ->
  t_skip t = true \/
  (c_trusted c = true /\ valid_for c (t_domain t) = true /\
   valid_for c (match t_servername t with [] => t_domain t | n => n end) = true).
Proof. intros H. apply start_tls_sound. eapply connect_tls_verified; exact H. Qed.

(* ---------- STARTTLS not completed: no success, no authentication request ---------- *)
Lemma starttls_replies : forall cfg dial tls p script,
  c_insecure cfg = false ->
  (forall id f id1 f1 s5, script = SHeader id :: SFeatures f :: SProceed :: SHeader id1 :: SFeatures f1 :: s5 ->
                          f_tls f = TlsNone \/ tls = false) ->
  res (connect cfg dial tls p script) <> Ok /\
  forall m, ~ In (RAuth m) (reqs (outs (connect cfg dial tls p script))).
Proof.
  intros cfg dial tls p script Hi Hs. split.
  - intros H. apply connect_ok in H. destruct H as (_ & id & f & s2 & -> & H).
    destruct (f_tls f) eqn:Et.
    + destruct H as [H _]. congruence.
    + destruct H as (Ht & id1 & f1 & s5 & -> & _). destruct (Hs _ _ _ _ _ eq_refl); congruence.
    + destruct H as (Ht & id1 & f1 & s5 & -> & _). destruct (Hs _ _ _ _ _ eq_refl); congruence.
  - intros m Hin.
    pose proof (connect_no_cleartext cfg dial tls p script Hi) as Hc.
    pose proof (connect_tls_verified cfg dial tls p script) as Hv.
    unfold reqs, outs in *. apply in_map_iff in Hin as (x & Hx & Hin).
    rewrite Forall_forall in Hc. specialize (Hc x Hin).
    destruct (o_tls x) eqn:Ex.
    + (* written inside TLS: then the script had the whole STARTTLS exchange and tls = true *)
      assert (Ht : tls = true). { apply Hv. apply Exists_exists. exists x. split; assumption. }
      revert Hin. unfold connect. destruct (negb dial); [intros []|].
      destruct script as [|[] s1]; try (intros [H|[]]; subst; discriminate).
      destruct s1 as [|[] s2]; try (intros [H|[]]; subst; discriminate).
      cbn [read_header read_features]. rewrite Hi.
      destruct (f_tls f) eqn:Et; [intros [H|[]]; subst; discriminate| |].
      all: destruct s2 as [|[] s3]; try (intros [H|[H|[]]]; subst; discriminate).
      all: cbn [read_proceed]; rewrite Ht.
      all: destruct s3 as [|[] s4]; try (intros [H|[H|[H|[]]]]; subst; discriminate).
      all: cbn [read_header]; destruct s4 as [|[] s5]; try (intros [H|[H|[H|[]]]]; subst; discriminate).
      all: destruct (Hs _ _ _ _ _ eq_refl); congruence.
    + rewrite Hx in Hc. specialize (Hc eq_refl). discriminate.
Qed.

(* ---------- resumed TLS sessions ---------- *)
(* whether the TLS session was resumed does not matter to the outcome of StartTLS *)
Lemma start_tls_resumed_irrelevant t c resumed : start_tls_r t c resumed = start_tls t c.
Proof. unfold start_tls_r, start_tls_on, start_tls. cbn [andb]. rewrite orb_false_r. reflexivity. Qed.

(* ... and it must not: trusting a resumed session accepts a certificate that is valid for ServerName
   only (the session was cached by the attempt that the domain check refused) *)
Lemma start_tls_skip_on_resume_refuted :
  exists t c, t_skip t = false /\ valid_for c (t_domain t) = false /\
              start_tls_on true t c false = false /\ start_tls_on true t c true = true.
Proof.
  exists {| t_skip := false; t_servername := s_ [121]%Z; t_domain := s_ [120]%Z |},
         {| c_trusted := true; c_names := [s_ [121]%Z] |}.
  repeat split.
Qed.

(* ---------- the handshake of a wss:// URL ---------- *)
Lemma handshake_ok_sound t c :
  handshake_ok t c = true ->
  t_skip t = true \/
  (c_trusted c = true /\ valid_for c (match t_servername t with [] => t_domain t | n => n end) = true).
Proof.
  unfold handshake_ok. destruct (t_skip t); [left; reflexivity|]. cbn [orb].
  intros H. apply andb_true_iff in H. right. exact H.
Qed.
