(* C03 over the WebSocket transport ([connect_ws], Model/Session.v). *)
From Coq Require Import List ZArith NArith Bool Lia.
From XV Require Import Lib.Sx Model.Session Model.SessionSpec Proofs.SessionP Proofs.SessionSpecP Proofs.SessionWaitP.
Import ListNotations.
Open Scope N_scope.

Lemma connect_ws_ok cfg dial secure p s :
  res (connect_ws cfg dial secure p s) = Ok <-> completes_ws cfg dial secure p s.
Proof.
  unfold connect_ws, completes_ws. destruct dial; cbn [negb].
  2: { cbn. split; [discriminate|]. intros (H & _). discriminate. }
  destruct s as [|i s1].
  { cbn. split; [discriminate|]. intros (_ & _ & ? & ? & ? & H & _). discriminate. }
  destruct i; try (cbn; split; [discriminate|]; intros (_ & _ & ? & ? & ? & H & _); discriminate).
  cbn [read_header]. destruct s1 as [|i1 s2].
  { cbn. split; [discriminate|]. intros (_ & _ & ? & ? & ? & H & _). discriminate. }
  destruct i1; try (cbn; split; [discriminate|]; intros (_ & _ & ? & ? & ? & H & _); discriminate).
  cbn [read_features].
  destruct (secure || c_insecure cfg) eqn:E.
  - pose proof (auth_ok cfg secure (with_session (set_flags p (p_code_secure p) false)) f s2 [SHeader id; SFeatures f]) as Ha.
    unfold res in *. destruct (step_auth _ _ _ _ _ _) as [[w r] p2]. cbn [fst snd] in *.
    rewrite Ha. unfold auth_completes, tail_completes, has_id. cbn [p_sm_id p_sm_enable with_session set_flags]. split.
    + intros H. split; [reflexivity|]. split; [apply orb_true_iff in E; exact E|]. exists id, f, s2. split; [reflexivity|exact H].
    + intros (_ & _ & id0 & f0 & s2' & H & Hc). inversion H; subst. exact Hc.
  - cbn. split; [discriminate|]. intros (_ & Hs & _). apply orb_false_iff in E as [E1 E2].
    destruct Hs; congruence.
Qed.

Lemma connect_ws_ordered cfg dial secure p s : ordered (reqs (outs (connect_ws cfg dial secure p s))) = true.
Proof.
  unfold connect_ws. destruct (negb dial); [reflexivity|].
  destruct (read_header s) as [[id s1]|]; [|reflexivity].
  destruct (read_features s1) as [[f s2]|]; [|reflexivity].
  destruct (secure || c_insecure cfg); [|reflexivity].
  pose proof (auth_shape cfg secure (with_session (set_flags p (p_code_secure p) false)) f s2 [SHeader id; SFeatures f]) as H.
  unfold outs in *. destruct (step_auth _ _ _ _ _ _) as [[w r] p2]. cbn [fst] in *.
  unfold reqs in *. rewrite map_app. cbn [map o o_req app ordered].
  destruct (map o_req w) as [|rq l]; [reflexivity|]. destruct rq; cbn in H; try discriminate H. cbn. exact H.
Qed.

(* no STARTTLS and no stream restart before authentication: after the stream open the next
   request, if any, is <auth/> *)
Lemma connect_ws_second_request cfg dial secure p s :
  match reqs (outs (connect_ws cfg dial secure p s)) with
  | [] | [ROpen] | ROpen :: RAuth _ :: _ => True
  | _ => False
  end.
Proof.
  pose proof (connect_ws_ordered cfg dial secure p s) as Ho.
  unfold connect_ws in *. destruct (negb dial); [exact I|].
  destruct (read_header s) as [[id s1]|]; [|exact I].
  destruct (read_features s1) as [[f s2]|]; [|exact I].
  destruct (secure || c_insecure cfg); [|exact I].
  pose proof (auth_shape cfg secure (with_session (set_flags p (p_code_secure p) false)) f s2 [SHeader id; SFeatures f]) as H.
  unfold outs in *. destruct (step_auth _ _ _ _ _ _) as [[w r] p2]. cbn [fst] in *.
  unfold reqs in *. rewrite map_app. cbn [map o o_req app].
  destruct (map o_req w) as [|rq l]; [exact I|]. destruct rq; cbn in H; try discriminate H. exact I.
Qed.

Lemma connect_ws_chain cfg dial secure p s : chain None (outs (connect_ws cfg dial secure p s)) = true.
Proof.
  unfold connect_ws. destruct (negb dial); [reflexivity|].
  destruct (read_header s) as [[id s1]|]; [|reflexivity].
  destruct (read_features s1) as [[f s2]|]; [|reflexivity].
  destruct (secure || c_insecure cfg); [|reflexivity].
  pose proof (auth_chain cfg secure (with_session (set_flags p (p_code_secure p) false)) f s2 [SHeader id; SFeatures f] ROpen eq_refl) as H.
  unfold outs in *. destruct (step_auth _ _ _ _ _ _) as [[w r] p2]. cbn [fst] in *.
  cbn [app chain o o_seen o_req andb]. exact H.
Qed.

(* every request travels on the channel the transport provides; with Insecure off nothing but
   the stream open is written on a connection that is not protected by TLS *)
Lemma connect_ws_no_cleartext cfg dial secure p s :
  c_insecure cfg = false ->
  Forall (fun x => o_tls x = false -> clear_ok (o_req x) = true) (outs (connect_ws cfg dial secure p s)).
Proof.
  intros Hi. unfold connect_ws. rewrite Hi, orb_false_r. destruct (negb dial); [constructor|].
  destruct (read_header s) as [[id s1]|]; [|repeat constructor].
  destruct (read_features s1) as [[f s2]|]; [|repeat constructor].
  destruct secure; [|repeat constructor].
  pose proof (auth_chan cfg true (with_session (set_flags p (p_code_secure p) false)) f s2 [SHeader id; SFeatures f]) as H.
  unfold outs. destruct (step_auth _ _ _ _ _ _) as [[w r] p2]. cbn [fst] in *.
  apply Forall_app; split; [repeat constructor; discriminate|apply Forall_chan_imp; exact H].
Qed.
