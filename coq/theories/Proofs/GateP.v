(* Proofs about Model/Gate.v: the send gate and the websocket opening handshake (C04). *)
From Coq Require Import List ZArith NArith Bool Arith Lia.
From XV Require Import Lib.Sx Model.Session Model.Gate Proofs.SessionP.
Import ListNotations.

(* ---------- the ghost channel at the end of a successful negotiation ---------- *)
(* state of the real channel after the requests w were written, starting from d *)
Definition final_tls (w : list out) (d : bool) : bool := fold_left (fun _ x => o_tls x) w d.

Lemma final_tls_app w1 w2 d : final_tls (w1 ++ w2) d = final_tls w2 (final_tls w1 d).
Proof. unfold final_tls. apply fold_left_app. Qed.

Lemma final_tls_all_true w : all_chan true w -> final_tls w true = true.
Proof.
  induction w as [|x w IH]; intros H; [reflexivity|].
  inversion H as [|? ? Hx Hw]; subst. unfold final_tls in *. cbn [fold_left]. rewrite Hx. apply IH; exact Hw.
Qed.

(* Insecure = false: connect() succeeds only on a connection it has dialled and on which the
   TLS handshake with verification went through, and TLS is what it ends on *)
Lemma connect_ok_final_tls cfg dial tls p s d :
  c_insecure cfg = false ->
  snd (fst (connect cfg dial tls p s)) = Ok ->
  dial = true /\ final_tls (fst (fst (connect cfg dial tls p s))) d = true.
Proof.
  intros Hi. unfold connect. rewrite Hi.
  destruct dial; cbn [negb]; [|discriminate].
  destruct (read_header s) as [[id s1]|]; [|discriminate].
  destruct (read_features s1) as [[f s2]|]; [|discriminate].
  destruct (f_tls f).
  - discriminate.
  - destruct (read_proceed s2) as [s3|]; [|discriminate].
    destruct tls; [|discriminate].
    destruct (read_header s3) as [[id1 s4]|]; [|discriminate].
    destruct (read_features s4) as [[f1 s5]|]; [|discriminate].
    pose proof (auth_chan cfg true (with_session (set_flags (set_flags (set_flags p false (p_tls_enabled p)) false false) true true)) f1 s5 [SHeader id1; SFeatures f1]) as H.
    destruct (step_auth _ _ _ _ _ _) as [[w r] p2]. cbn [fst snd] in *.
    intros _. split; [reflexivity|]. rewrite final_tls_app. cbn. apply final_tls_all_true; exact H.
  - destruct (read_proceed s2) as [s3|]; [|discriminate].
    destruct tls; [|discriminate].
    destruct (read_header s3) as [[id1 s4]|]; [|discriminate].
    destruct (read_features s4) as [[f1 s5]|]; [|discriminate].
    pose proof (auth_chan cfg true (with_session (set_flags (set_flags (set_flags p false (p_tls_enabled p)) false false) true true)) f1 s5 [SHeader id1; SFeatures f1]) as H.
    destruct (step_auth _ _ _ _ _ _) as [[w r] p2]. cbn [fst snd] in *.
    intros _. split; [reflexivity|]. rewrite final_tls_app. cbn. apply final_tls_all_true; exact H.
Qed.

(* ---------- the gate ---------- *)
Definition no_clear (rs : list sres) : Prop := Forall (fun r => r <> Written false) rs.
Definition all_refused (rs : list sres) : Prop := Forall (fun r => r = Refused) rs.

Lemma all_refused_no_clear rs : all_refused rs -> no_clear rs.
Proof. intros H. eapply Forall_impl; [|exact H]. cbn. intros a -> . discriminate. Qed.

(* an open gate on an existing connection means that connection is TLS *)
Definition gate_inv (g : gate) : Prop := g_closed g = false -> g_conn g = true -> g_tls g = true.

Lemma gate0_inv : gate_inv gate0.
Proof. intros _ H. discriminate. Qed.

Lemma grun_app g es1 es2 :
  grun g (es1 ++ es2) =
  let '(g1, r1) := grun g es1 in let '(g2, r2) := grun g1 es2 in (g2, r1 ++ r2).
Proof.
  revert g. induction es1 as [|e es1 IH]; intros g; cbn [app grun].
  - destruct (grun g es2) as [g2 r2]. reflexivity.
  - destruct (gstep g e) as [s1 r1]. rewrite IH.
    destruct (grun s1 es1) as [g1 r1']. destruct (grun g1 es2) as [g2 r2]. rewrite app_assoc. reflexivity.
Qed.

(* the events that write behind the gate: application sends and stream-management retransmissions *)
Definition is_write (e : gev) : Prop := e = GSend \/ e = GResend.

Lemma writes_are n m : Forall is_write (repeat GSend n ++ repeat GResend m).
Proof.
  apply Forall_app; split.
  - induction n; constructor; [left; reflexivity|assumption].
  - induction m; constructor; [right; reflexivity|assumption].
Qed.

(* sends and retransmissions against a closed gate *)
Lemma grun_writes_closed g es :
  g_closed g = true -> Forall is_write es -> grun g es = (g, repeat Refused (length es)).
Proof.
  intros Hc H. induction H as [|e es He _ IH]; [reflexivity|].
  cbn [grun length repeat]. destruct He as [-> | ->]; cbn [gstep]; rewrite Hc, IH; reflexivity.
Qed.

Lemma all_refused_repeat n : all_refused (repeat Refused n).
Proof. induction n; constructor; [reflexivity|assumption]. Qed.

(* while connect() runs: every send and every retransmission is refused, the gate stays closed,
   the ghost follows the negotiation's writes *)
Lemma grun_weave w : forall k during rduring g,
  g_closed g = true ->
  exists rs, grun g (weave w k during rduring) =
             ({| g_closed := true; g_conn := g_conn g; g_tls := final_tls w (g_tls g) |}, rs)
             /\ all_refused rs.
Proof.
  induction w as [|x w IH]; intros k during rduring g Hc; cbn [weave].
  - rewrite (grun_writes_closed g _ Hc (writes_are _ _)). eexists. split.
    + destruct g as [c n t]. cbn in *. subst c. reflexivity.
    + apply all_refused_repeat.
  - rewrite grun_app. rewrite (grun_writes_closed g _ Hc (writes_are _ _)).
    cbn [grun gstep].
    destruct (IH (S k) during rduring {| g_closed := g_closed g; g_conn := g_conn g; g_tls := o_tls x |} Hc) as (rs & E & Hr).
    rewrite E. cbn [g_conn g_tls]. eexists. split; [reflexivity|].
    apply Forall_app; split; [apply all_refused_repeat|exact Hr].
Qed.

(* sends and retransmissions after connect() returned *)
Lemma grun_writes_after g es :
  gate_inv g -> Forall is_write es ->
  no_clear (snd (grun g es)) /\ fst (grun g es) = g /\ length (snd (grun g es)) = length es.
Proof.
  intros Hg H. induction H as [|e es He _ IH]; [repeat split; constructor|].
  cbn [grun]. destruct IH as (IH1 & IH2 & IH3).
  assert (E : gstep g e = (g, [if g_closed g then Refused else if g_conn g then Written (g_tls g) else Refused])).
  { destruct He as [-> | ->]; reflexivity. }
  rewrite E. destruct (grun g es) as [g2 r2]. cbn [fst snd app length] in *.
  split; [|split; [exact IH2|f_equal; exact IH3]].
  constructor; [|exact IH1].
  destruct (g_closed g) eqn:Ec; [discriminate|].
  destruct (g_conn g) eqn:En; [|discriminate].
  rewrite (Hg Ec En). discriminate.
Qed.

(* one connection attempt with its sends and retransmissions *)
Lemma grun_conn_trace cfg dial tls p s pl g :
  c_insecure cfg = false ->
  let x := connect cfg dial tls p s in
  no_clear (snd (grun g (conn_trace dial (fst (fst x)) (snd (fst x)) pl))) /\
  gate_inv (fst (grun g (conn_trace dial (fst (fst x)) (snd (fst x)) pl))).
Proof.
  intros Hi x. unfold conn_trace. cbn [grun gstep].
  set (g1 := {| g_closed := true; g_conn := g_conn g || dial; g_tls := if dial then false else g_tls g |}).
  rewrite grun_app.
  destruct (grun_weave (fst (fst x)) 0 (pl_during pl) (pl_rduring pl) g1 eq_refl) as (rs & E & Hr). rewrite E.
  cbn [grun gstep g_closed g_conn g_tls].
  match goal with |- context [grun ?gg (repeat GSend _ ++ _)] => set (g2 := gg) end.
  assert (Hg2 : gate_inv g2).
  { intros Hc _. subst g2 g1. cbn [g_closed g_conn g_tls] in *. destruct (snd (fst x)) eqn:Er; [|discriminate].
    subst x. apply (connect_ok_final_tls cfg dial tls p s _ Hi Er). }
  destruct (grun_writes_after g2 _ Hg2 (writes_are (pl_after pl) (pl_rafter pl))) as (Hn & Hf & _).
  destruct (grun g2 (repeat GSend (pl_after pl) ++ repeat GResend (pl_rafter pl))) as [g3 r3]. cbn [fst snd] in *. subst g3.
  split; [|exact Hg2].
  cbn [app]. apply Forall_app; split; [apply all_refused_no_clear; exact Hr|exact Hn].
Qed.

(* whole histories on one Client *)
Lemma gate_conns_no_clear cfg cs : forall p g,
  c_insecure cfg = false -> gate_inv g ->
  Forall no_clear (gate_conns cfg p g cs).
Proof.
  induction cs as [|[c pl] cs IH]; intros p g Hi Hg; [constructor|].
  cbn [gate_conns].
  pose proof (grun_conn_trace cfg (k_dial c) (k_tls c) p (k_script c) pl g Hi) as H. cbn zeta in H.
  destruct (connect cfg (k_dial c) (k_tls c) p (k_script c)) as [[w r] p1]. cbn [fst snd] in H.
  destruct (grun g (conn_trace (k_dial c) w r pl)) as [g1 rs]. cbn [fst snd] in H.
  destruct H as [H1 H2]. constructor; [exact H1|]. apply IH; assumption.
Qed.

(* while the attempt runs (and after it failed) nothing at all is written by a send or by a
   retransmission, whatever Insecure says *)
Lemma conn_trace_during_refused dial w r pl g :
  exists rs rs', snd (grun g (conn_trace dial w r pl)) = rs ++ rs' /\
                 all_refused rs /\ length rs' = (pl_after pl + pl_rafter pl)%nat /\
                 (r <> Ok -> all_refused rs').
Proof.
  unfold conn_trace. cbn [grun gstep].
  set (g1 := {| g_closed := true; g_conn := g_conn g || dial; g_tls := if dial then false else g_tls g |}).
  rewrite grun_app.
  destruct (grun_weave w 0 (pl_during pl) (pl_rduring pl) g1 eq_refl) as (rs & E & Hr). rewrite E.
  cbn [grun gstep g_closed g_conn g_tls].
  match goal with |- context [grun ?gg (repeat GSend _ ++ _)] => set (g2 := gg) end.
  pose proof (writes_are (pl_after pl) (pl_rafter pl)) as Hw.
  assert (Hlen : length (repeat GSend (pl_after pl) ++ repeat GResend (pl_rafter pl)) = (pl_after pl + pl_rafter pl)%nat).
  { rewrite app_length, !repeat_length. reflexivity. }
  revert Hw Hlen. generalize (repeat GSend (pl_after pl) ++ repeat GResend (pl_rafter pl)). intros es Hw Hlen.
  destruct (grun g2 es) as [g3 r3] eqn:E3. cbn [snd app].
  exists rs, r3. split; [reflexivity|]. split; [exact Hr|]. split.
  - rewrite <- Hlen. clear -E3 Hw. revert g3 r3 E3. induction Hw as [|e es He _ IH]; intros g3 r3 E3; cbn in E3.
    + injection E3 as _ <-. reflexivity.
    + assert (Hl : length (snd (gstep g2 e)) = 1%nat /\ fst (gstep g2 e) = g2) by (destruct He as [-> | ->]; split; reflexivity).
      destruct (gstep g2 e) as [s1 r1]. cbn [fst snd] in Hl. destruct Hl as [Hl ->].
      destruct (grun g2 es) as [g4 r4]. injection E3 as _ <-. rewrite app_length, Hl. cbn. f_equal. eapply IH; reflexivity.
  - intros Hne. assert (Hc : g_closed g2 = true). { subst g2. cbn. destruct r; [congruence|reflexivity]. }
    rewrite (grun_writes_closed g2 _ Hc Hw) in E3. injection E3 as _ <-. apply all_refused_repeat.
Qed.

(* a retransmission against a closed gate writes nothing *)
Lemma gstep_resend_closed g : g_closed g = true -> gstep g GResend = (g, [Refused]).
Proof. intros Hc. cbn. rewrite Hc. reflexivity. Qed.

(* ---------- writers in flight ---------- *)
(* an open gate on an existing connection means TLS; a writer is in flight only while the gate is open *)
Definition gate2_inv (s : gate2) : Prop :=
  gate_inv (h_gate s) /\ (h_inflight s <> 0%nat -> g_closed (h_gate s) = false).

Lemma gate2_0_inv : gate2_inv gate2_0.
Proof. split; [apply gate0_inv|intros H; contradiction H; reflexivity]. Qed.

Lemma gstep2_safe s e s' rs :
  gate2_inv s -> gstep2 false true s e = Some (s', rs) -> gate2_inv s' /\ no_clear rs.
Proof.
  intros [Hg Hf] E. destruct s as [g n]. cbn [h_gate h_inflight] in *. unfold gstep2 in E. cbn [h_gate h_inflight] in E.
  destruct e as [e| |].
  - destruct e as [d|x|r| |].
    + (* GBegin: only with no writer in flight *)
      destruct (negb (Nat.eqb n 0)) eqn:En; cbn [andb] in E; [discriminate|].
      apply negb_false_iff, Nat.eqb_eq in En. subst n.
      cbn in E. injection E as <- <-. split; [|constructor].
      split; [intros H; discriminate|intros H; contradiction H; reflexivity].
    + destruct (g_closed g) eqn:Ec; [|discriminate]. cbn in E. injection E as <- <-. split; [|constructor].
      split; cbn; [intros H; rewrite Ec in H; discriminate|].
      intros Hn. specialize (Hf Hn). congruence.
    + destruct r as [|ce pm].
      * destruct (g_closed g) eqn:Ec; [|discriminate]. cbn [andb orb] in E.
        destruct (g_tls g) eqn:Et; [|discriminate]. cbn in E. injection E as <- <-. split; [|constructor].
        split; cbn; [intros _ _; exact Et|]. intros Hn. specialize (Hf Hn). congruence.
      * destruct (g_closed g) eqn:Ec; [|discriminate]. cbn in E. rewrite Ec in E. injection E as <- <-.
        split; [|constructor]. split; cbn; [intros H; discriminate|]. intros Hn. specialize (Hf Hn). congruence.
    + cbn in E. injection E as <- <-. split; [split; assumption|].
      constructor; [|constructor].
      destruct (g_closed g) eqn:Ec; [discriminate|]. destruct (g_conn g) eqn:En; [|discriminate].
      rewrite (Hg Ec En). discriminate.
    + cbn in E. injection E as <- <-. split; [split; assumption|].
      constructor; [|constructor].
      destruct (g_closed g) eqn:Ec; [discriminate|]. destruct (g_conn g) eqn:En; [|discriminate].
      rewrite (Hg Ec En). discriminate.
  - destruct (g_closed g) eqn:Ec; injection E as <- <-.
    + split; [split; cbn; [exact Hg|intros Hn; specialize (Hf Hn); congruence]|]. constructor; [discriminate|constructor].
    + split; [|constructor]. split; cbn; [exact Hg|intros _; exact Ec].
  - destruct n as [|n]; [discriminate|]. injection E as <- <-.
    assert (Ec : g_closed g = false) by (apply Hf; discriminate).
    split.
    + split; cbn; [exact Hg|intros _; exact Ec].
    + constructor; [|constructor]. destruct (g_conn g) eqn:En; [|discriminate]. rewrite (Hg Ec En). discriminate.
Qed.

(* every interleaving the lock permits: nothing is ever written outside TLS *)
Lemma grun2_safe es : forall s s' rs,
  gate2_inv s -> grun2 false true s es = Some (s', rs) -> gate2_inv s' /\ no_clear rs.
Proof.
  induction es as [|e es IH]; intros s s' rs Hs E; cbn [grun2] in E.
  - injection E as <- <-. split; [exact Hs|constructor].
  - destruct (gstep2 false true s e) as [[s1 r1]|] eqn:E1; [|discriminate].
    destruct (grun2 false true s1 es) as [[s2 r2]|] eqn:E2; [|discriminate].
    injection E as <- <-.
    destruct (gstep2_safe _ _ _ _ Hs E1) as [H1 Hr1]. destruct (IH _ _ _ H1 E2) as [H2 Hr2].
    split; [exact H2|apply Forall_app; split; assumption].
Qed.

(* the dial of connect() happens only after every write in flight has returned *)
Lemma dial_after_writes insecure s d x :
  gstep2 insecure true s (GE (GBegin d)) = Some x -> h_inflight s = 0%nat.
Proof.
  unfold gstep2. destruct (Nat.eqb (h_inflight s) 0) eqn:E; cbn [negb andb]; [|discriminate].
  intros _. apply Nat.eqb_eq; exact E.
Qed.

(* with the lock released right after the check, a sender that passed the gate on an established TLS
   session writes on the clear-text connection the reconnection has dialled meanwhile *)
Definition overtaken_trace : list gev2 :=
  [GE (GBegin true); GE (GOut (o true ROpen [])); GE (GEnd Ok);   (* a session over TLS *)
   GEnter;                                                       (* a sender passes the gate *)
   GE (GBegin true); GE (GOut (o false ROpen []));               (* reconnection: new clear connection, stream header *)
   GLeave].                                                      (* the sender's write happens now *)
Lemma lock_released_early_refuted :
  option_map snd (grun2 false false gate2_0 overtaken_trace) = Some [Written false] /\
  grun2 false true gate2_0 overtaken_trace = None.
Proof. split; reflexivity. Qed.

(* ---------- websocket opening handshake ---------- *)
(* a chain that starts on https stays on https, every handshake of it succeeded *)
Lemma ws_dial_https_chain rs : forall ok n s,
  ws_dial ok Https rs n = Some s -> s = Https /\ Forall (fun x => x = Https) rs /\ ok = true.
Proof.
  induction rs as [|nxt rs IH]; intros ok n s; cbn [ws_dial]; destruct ok; try discriminate.
  - intros H. injection H as <-. repeat split. constructor.
  - destruct (Nat.leb 10 (S n)); [discriminate|]. destruct nxt; [|discriminate].
    intros H. destruct (IH _ _ _ H) as (H1 & H2 & H3). repeat split; [exact H1|constructor; [reflexivity|exact H2]].
Qed.

(* once a URL of the chain is https, the connection established is TLS *)
Lemma ws_dial_no_downgrade rs : forall ok cur n s,
  ws_dial ok cur rs n = Some s -> (cur = Https \/ In Https rs) -> s = Https.
Proof.
  induction rs as [|nxt rs IH]; intros ok cur n s H Hin.
  - destruct Hin as [->|[]]. apply ws_dial_https_chain in H. apply H.
  - destruct cur.
    + apply ws_dial_https_chain in H. apply H.
    + cbn [ws_dial] in H. destruct (Nat.leb 10 (S n)); [discriminate|].
      eapply IH; [exact H|]. destruct Hin as [Hc|[Hn|Hr]]; [discriminate|left; exact Hn|right; exact Hr].
Qed.

(* an https endpoint was reached only through a successful handshake *)
Lemma ws_dial_tls_verified rs : forall ok cur n, ws_dial ok cur rs n = Some Https -> ok = true.
Proof.
  induction rs as [|nxt rs IH]; intros ok cur n H.
  - destruct cur; [apply ws_dial_https_chain in H; apply H|].
    cbn in H. discriminate.
  - destruct cur; [apply ws_dial_https_chain in H; apply H|].
    cbn [ws_dial] in H. destruct (Nat.leb 10 (S n)); [discriminate|]. eapply IH; exact H.
Qed.

(* authentication data is written only when the application allowed insecure connections, or the
   configured address is a wss:// one, every URL of the chain is https, every handshake succeeded under
   the application's TLS configuration, and the connection is TLS *)
Lemma ws_connect_credentials insecure ok addr rs b :
  ws_connect insecure ok addr rs = WAuth b ->
  insecure = true \/ (addr = Https /\ Forall (fun x => x = Https) rs /\ ok = true /\ b = true).
Proof.
  unfold ws_connect, ws_is_secure. destruct (ws_dial ok addr rs 0) as [s|] eqn:E; [|discriminate].
  destruct insecure; [left; reflexivity|]. rewrite orb_false_r.
  destruct addr; cbn [ws_secure andb]; [|discriminate].
  destruct (ws_dial_https_chain _ _ _ _ E) as (-> & Hf & Hok). cbn. intros H. injection H as <-.
  right. repeat split; assumption.
Qed.

(* whatever Insecure says: data written over TLS went to an endpoint whose handshake succeeded *)
Lemma ws_connect_tls_verified insecure ok addr rs :
  ws_connect insecure ok addr rs = WAuth true -> ok = true.
Proof.
  unfold ws_connect. destruct (ws_dial ok addr rs 0) as [s|] eqn:E; [|discriminate].
  destruct (ws_is_secure addr s || insecure); [|discriminate].
  destruct s; cbn; [|discriminate]. intros _. eapply ws_dial_tls_verified; exact E.
Qed.
