(* Hex model: two characters of [0-9a-f] per byte. *)
From Coq Require Import List NArith Bool Lia.
From XV Require Import Lib.Sx Model.Hex Proofs.Sha1P.
Import ListNotations.
Open Scope N_scope.

Lemma hex_digit_alpha n : n < 16 -> is_lower_hex (hex_digit n) = true.
Proof.
  intros Hn. unfold hex_digit, is_lower_hex.
  destruct (n <? 10) eqn:E.
  - apply N.ltb_lt in E. apply orb_true_iff. left. apply andb_true_iff.
    split; apply N.leb_le; lia.
  - apply N.ltb_ge in E. apply orb_true_iff. right. apply andb_true_iff.
    split; apply N.leb_le; lia.
Qed.

Lemma hex_byte_alpha b : b < 256 -> Forall (fun c => is_lower_hex c = true) (hex_byte b).
Proof.
  intros Hb. unfold hex_byte. repeat constructor; apply hex_digit_alpha.
  - apply N.div_lt_upper_bound; lia.
  - apply N.mod_upper_bound. lia.
Qed.

Lemma hex_length bs : length (hex bs) = (length bs * 2)%nat.
Proof. unfold hex. apply flat_map_length_const. reflexivity. Qed.

Lemma hex_alpha bs :
  Forall (fun b => b < 256) bs -> Forall (fun c => is_lower_hex c = true) (hex bs).
Proof. unfold hex. apply flat_map_Forall. exact hex_byte_alpha. Qed.

(* consequences of the alphabet: no upper-case letter, nothing XML treats specially *)
Lemma lower_hex_range c :
  is_lower_hex c = true -> (48 <= c <= 57) \/ (97 <= c <= 102).
Proof.
  unfold is_lower_hex. intros H. apply orb_true_iff in H.
  destruct H as [H|H]; apply andb_true_iff in H; destruct H as [H1 H2];
    apply N.leb_le in H1; apply N.leb_le in H2; [left|right]; lia.
Qed.

Lemma lower_hex_not_upper c : is_lower_hex c = true -> ~ (65 <= c <= 90).
Proof. intros H. apply lower_hex_range in H. lia. Qed.

(* less-than = 60, ampersand = 38, greater-than = 62, double quote = 34, apostrophe = 39 *)
Lemma lower_hex_xml_safe c :
  is_lower_hex c = true -> c <> 60 /\ c <> 38 /\ c <> 62 /\ c <> 34 /\ c <> 39.
Proof. intros H. apply lower_hex_range in H. lia. Qed.
