(* SASL mechanism choice, the PLAIN payload and the reply classification. *)
From Coq Require Import List NArith Bool Lia.
From XV Require Import Lib.Sx Model.Base64 Model.Sasl Proofs.Base64P.
Import ListNotations.
Open Scope N_scope.

(* ---- string equality ---- *)
Lemma str_eqb_eq a b : str_eqb a b = true <-> a = b.
Proof.
  revert b; induction a as [|x a IH]; intros [|y b]; cbn [str_eqb];
    try (split; [discriminate|discriminate]); [split; reflexivity|].
  rewrite andb_true_iff, N.eqb_eq, IH. split.
  - intros [Hx Ha]. congruence.
  - intros E. injection E as Hx Ha. split; assumption.
Qed.
Lemma str_eqb_refl a : str_eqb a a = true.
Proof. apply str_eqb_eq. reflexivity. Qed.

Lemma is_supported_mech_in m server : is_supported_mech m server = true <-> In m server.
Proof.
  unfold is_supported_mech. rewrite existsb_exists. split.
  - intros (x & Hx & E). apply str_eqb_eq in E. subst x. exact Hx.
  - intros Hin. exists m. split; [exact Hin|apply str_eqb_refl].
Qed.
Lemma is_supported_mech_not_in m server : is_supported_mech m server = false <-> ~ In m server.
Proof.
  rewrite <- is_supported_mech_in. destruct (is_supported_mech m server); split;
    intros H; try reflexivity; try discriminate H; [exfalso; apply H; reflexivity|discriminate].
Qed.

(* ---- the mechanism choice ---- *)
(* [first_common creds server m]: m is in the credential's list and in the
   server's list, and no credential mechanism before it is in the server's list *)
Definition first_common (creds server : list str) (m : str) : Prop :=
  exists pre post, creds = pre ++ m :: post /\ In m server /\
                   forall x, In x pre -> ~ In x server.

Lemma choose_mech_some creds server m :
  choose_mech creds server = Some m <-> first_common creds server m.
Proof.
  unfold first_common. induction creds as [|c creds IH]; cbn [choose_mech].
  - split; [discriminate|]. intros (pre & post & E & _). destruct pre; discriminate E.
  - destruct (is_supported_mech c server) eqn:Hs.
    + apply is_supported_mech_in in Hs. split.
      * intros E. injection E as E. subst c. exists [], creds.
        split; [reflexivity|]. split; [exact Hs|]. intros x [].
      * intros (pre & post & E & Hin & Hpre). destruct pre as [|p pre].
        -- cbn in E. injection E as E _. congruence.
        -- cbn in E. injection E as E _. subst p. exfalso.
           apply (Hpre c); [left; reflexivity|exact Hs].
    + apply is_supported_mech_not_in in Hs. rewrite IH. split.
      * intros (pre & post & E & Hin & Hpre). exists (c :: pre), post. subst creds.
        split; [reflexivity|]. split; [exact Hin|].
        intros x [Hx|Hx]; [subst x; exact Hs|apply Hpre; exact Hx].
      * intros (pre & post & E & Hin & Hpre). destruct pre as [|p pre].
        -- cbn in E. injection E as E _. subst c. contradiction.
        -- cbn in E. injection E as Ep E. exists pre, post.
           split; [exact E|]. split; [exact Hin|]. intros x Hx. apply Hpre. right. exact Hx.
Qed.

Lemma choose_mech_none creds server :
  choose_mech creds server = None <-> forall x, In x creds -> ~ In x server.
Proof.
  induction creds as [|c creds IH]; cbn [choose_mech].
  - split; [intros _ x []|reflexivity].
  - destruct (is_supported_mech c server) eqn:Hs.
    + apply is_supported_mech_in in Hs. split; [discriminate|].
      intros H. exfalso. apply (H c); [left; reflexivity|exact Hs].
    + apply is_supported_mech_not_in in Hs. rewrite IH. split.
      * intros H x [Hx|Hx]; [subst x; exact Hs|apply H; exact Hx].
      * intros H x Hx. apply H. right. exact Hx.
Qed.

Lemma first_common_in creds server m :
  first_common creds server m -> In m creds /\ In m server.
Proof.
  intros (pre & post & E & Hin & _). split; [|exact Hin].
  subst creds. apply in_or_app. right. left. reflexivity.
Qed.

(* the two credential kinds only ever name PLAIN-family mechanisms *)
Lemma cred_mechs_family k m : In m (cred_mechs k) -> plain_family m = true.
Proof.
  destruct k; cbn; intros [E|[]]; subst m; reflexivity.
Qed.

(* ---- what is written and returned ---- *)
Lemma auth_sasl_mechs_none creds server user secret w r :
  choose_mech creds server = None ->
  auth_sasl_mechs creds server user secret w r = ([], ErrPermanent).
Proof. intros H. unfold auth_sasl_mechs. rewrite H. reflexivity. Qed.

Lemma auth_plain_written mech user secret w r :
  fst (auth_plain mech user secret w r) = [auth_element mech (plain_payload user secret)].
Proof. destruct w; reflexivity. Qed.

Lemma auth_sasl_some k server user secret w r m :
  choose_mech (cred_mechs k) server = Some m ->
  auth_sasl k server user secret w r = auth_plain m user secret w r.
Proof.
  intros H. unfold auth_sasl, auth_sasl_mechs. rewrite H.
  apply choose_mech_some, first_common_in in H as [Hc _].
  rewrite (cred_mechs_family k m Hc). reflexivity.
Qed.

Lemma auth_sasl_none k server user secret w r :
  choose_mech (cred_mechs k) server = None ->
  auth_sasl k server user secret w r = ([], ErrPermanent).
Proof. apply auth_sasl_mechs_none. Qed.

(* either nothing is written (exactly when there is no common mechanism, and
   then the error is permanent), or exactly one element naming the first
   common mechanism *)
Lemma auth_sasl_cases k server user secret w r :
  (choose_mech (cred_mechs k) server = None /\
   auth_sasl k server user secret w r = ([], ErrPermanent)) \/
  (exists m, first_common (cred_mechs k) server m /\
     fst (auth_sasl k server user secret w r)
       = [auth_element m (plain_payload user secret)]).
Proof.
  destruct (choose_mech (cred_mechs k) server) as [m|] eqn:H.
  - right. exists m. split; [apply choose_mech_some; exact H|].
    rewrite (auth_sasl_some _ _ _ _ _ _ _ H). apply auth_plain_written.
  - left. split; [reflexivity|]. apply auth_sasl_none. exact H.
Qed.

Lemma mech_sound k server user secret w r m payload :
  fst (auth_sasl k server user secret w r) = [auth_element m payload] ->
  exists m', fst (auth_sasl k server user secret w r)
               = [auth_element m' (plain_payload user secret)] /\
             first_common (cred_mechs k) server m'.
Proof.
  intros Hw. destruct (auth_sasl_cases k server user secret w r) as [[_ E]|(m' & Hf & E)].
  - rewrite E in Hw. discriminate Hw.
  - exists m'. split; assumption.
Qed.

(* ---- payload ---- *)
Lemma is_bytes_app a b : is_bytes (a ++ b) = true <-> is_bytes a = true /\ is_bytes b = true.
Proof. unfold is_bytes. rewrite forallb_app, andb_true_iff. reflexivity. Qed.

Lemma plain_raw_bytes user secret :
  is_bytes user = true -> is_bytes secret = true -> is_bytes (plain_raw user secret) = true.
Proof.
  intros Hu Hs. unfold plain_raw. apply is_bytes_cons. split; [lia|].
  apply is_bytes_app. split; [exact Hu|]. apply is_bytes_cons. split; [lia|exact Hs].
Qed.

Lemma payload_exact user secret :
  is_bytes user = true -> is_bytes secret = true ->
  b64_decode (plain_payload user secret) = Some (0 :: user ++ 0 :: secret).
Proof.
  intros Hu Hs. unfold plain_payload. apply b64_roundtrip. apply plain_raw_bytes; assumption.
Qed.

Lemma payload_alphabet user secret :
  Forall (fun c => is_b64_text c = true) (plain_payload user secret).
Proof. apply encode_text. Qed.

Lemma payload_xml_plain user secret :
  Forall (fun c => xml_plain c = true) (plain_payload user secret).
Proof.
  eapply Forall_impl; [|apply payload_alphabet]. exact text_xml_plain.
Qed.

(* ---- the element read back ---- *)
Lemma strip_prefix_app pre l : strip_prefix pre (pre ++ l) = Some l.
Proof.
  induction pre as [|p pre IH]; [reflexivity|]. cbn [strip_prefix app].
  rewrite N.eqb_refl. exact IH.
Qed.

Lemma take_until_app c a r :
  Forall (fun x => x <> c) a -> take_until c (a ++ c :: r) = (a, c :: r).
Proof.
  induction 1 as [|x a Hx _ IH]; cbn [take_until app].
  - rewrite N.eqb_refl. reflexivity.
  - apply N.eqb_neq in Hx. rewrite Hx, IH. reflexivity.
Qed.

Lemma parse_auth_element mech text :
  Forall (fun x => x <> 34) mech -> Forall (fun x => x <> 60) text ->
  parse_auth (auth_element mech text) = Some (mech, text).
Proof.
  intros Hm Ht. unfold parse_auth, auth_element.
  rewrite strip_prefix_app. cbn [obind].
  change auth_mid with ([34] ++ [62]) at 1. rewrite <- app_assoc. cbn [app].
  rewrite (take_until_app 34 mech _ Hm).
  change (34 :: 62 :: text ++ auth_close) with (auth_mid ++ text ++ auth_close).
  rewrite strip_prefix_app. cbn [obind].
  change auth_close with (60 :: [47; 97; 117; 116; 104; 62]) at 1.
  rewrite (take_until_app 60 text _ Ht).
  change (60 :: [47; 97; 117; 116; 104; 62]) with auth_close.
  rewrite str_eqb_refl. reflexivity.
Qed.

Lemma family_no_quote m : plain_family m = true -> Forall (fun x => x <> 34) m.
Proof.
  unfold plain_family. rewrite orb_true_iff, !str_eqb_eq.
  intros [E|E]; subst m; repeat constructor; discriminate.
Qed.

Lemma text_no_lt l : Forall (fun c => is_b64_text c = true) l -> Forall (fun x => x <> 60) l.
Proof.
  intros H. eapply Forall_impl; [|exact H]. cbn beta. intros c Hc E. subst c. discriminate Hc.
Qed.

(* whatever the user name and secret are, the written element reads back as
   (mechanism, payload) *)
Lemma wire_parses k server user secret w r m :
  first_common (cred_mechs k) server m ->
  fst (auth_sasl k server user secret w r) = [auth_element m (plain_payload user secret)] /\
  parse_auth (auth_element m (plain_payload user secret)) = Some (m, plain_payload user secret).
Proof.
  intros Hf. pose proof Hf as Hc. apply first_common_in in Hc as [Hc _].
  apply choose_mech_some in Hf. split.
  - rewrite (auth_sasl_some _ _ _ _ _ _ _ Hf). apply auth_plain_written.
  - apply parse_auth_element.
    + apply family_no_quote. apply (cred_mechs_family k). exact Hc.
    + apply text_no_lt. apply payload_alphabet.
Qed.

(* a user name without NUL is recovered exactly (with one, the split moves: that
   is SASL PLAIN, not this code) *)
Lemma split_raw_plain user secret :
  Forall (fun x => x <> 0) user -> split_raw (plain_raw user secret) = Some (user, secret).
Proof.
  intros Hu. unfold split_raw, plain_raw. rewrite (take_until_app 0 user secret Hu). reflexivity.
Qed.

(* ---- reply classification ---- *)
Lemma failure_permanent k server user secret reason :
  snd (auth_sasl k server user secret WOk (RFailure reason)) = ErrPermanent.
Proof.
  destruct (choose_mech (cred_mechs k) server) as [m|] eqn:H.
  - rewrite (auth_sasl_some _ _ _ _ _ _ _ H). reflexivity.
  - rewrite (auth_sasl_none _ _ _ _ _ _ H). reflexivity.
Qed.

Lemma only_success_authenticates k server user secret w r :
  snd (auth_sasl k server user secret w r) = Ok <->
  r = RSuccess /\ w = WOk /\ exists m, first_common (cred_mechs k) server m.
Proof.
  destruct (choose_mech (cred_mechs k) server) as [m|] eqn:H.
  - rewrite (auth_sasl_some _ _ _ _ _ _ _ H). split.
    + intros E. destruct w; cbn in E; try discriminate E.
      destruct r; cbn in E; try discriminate E.
      split; [reflexivity|]. split; [reflexivity|]. exists m. apply choose_mech_some. exact H.
    + intros (Er & Ew & _). subst r w. reflexivity.
  - rewrite (auth_sasl_none _ _ _ _ _ _ H). split; [discriminate|].
    intros (_ & _ & m & Hm). apply choose_mech_some in Hm. congruence.
Qed.

(* general credential lists (the switch in authSASL): a chosen mechanism outside
   the PLAIN family is refused with a permanent error and nothing is written *)
Lemma auth_sasl_mechs_ok creds server user secret w r :
  snd (auth_sasl_mechs creds server user secret w r) = Ok ->
  r = RSuccess /\ w = WOk /\
  exists m, first_common creds server m /\ plain_family m = true.
Proof.
  unfold auth_sasl_mechs. destruct (choose_mech creds server) as [m|] eqn:H; [|discriminate].
  destruct (plain_family m) eqn:Hf; [|discriminate]. intros E.
  destruct w; cbn in E; try discriminate E. destruct r; cbn in E; try discriminate E.
  split; [reflexivity|]. split; [reflexivity|]. exists m.
  split; [apply choose_mech_some; exact H|exact Hf].
Qed.

(* PLAIN for passwords, X-OAUTH2 for tokens, and only when the server lists it *)
Definition kind_mech (k : cred_kind) : str :=
  match k with CPassword => s_PLAIN | COAuthToken => s_XOAUTH2 end.
Lemma choose_by_kind k server m :
  choose_mech (cred_mechs k) server = Some m <-> m = kind_mech k /\ In m server.
Proof.
  rewrite choose_mech_some. split.
  - intros Hf. apply first_common_in in Hf as [Hc Hs]. split; [|exact Hs].
    destruct k; cbn in Hc; destruct Hc as [E|[]]; subst m; reflexivity.
  - intros [E Hs]. subst m. exists [], []. split; [destruct k; reflexivity|].
    split; [exact Hs|]. intros x [].
Qed.

Lemma auth_sasl_no_common k server user secret w r :
  (forall x, In x (cred_mechs k) -> ~ In x server) ->
  auth_sasl k server user secret w r = ([], ErrPermanent).
Proof. intros H. apply auth_sasl_none. apply choose_mech_none. exact H. Qed.

Lemma auth_sasl_written k server user secret w r :
  ((forall x, In x (cred_mechs k) -> ~ In x server) /\
   auth_sasl k server user secret w r = ([], ErrPermanent)) \/
  (exists m, first_common (cred_mechs k) server m /\
     fst (auth_sasl k server user secret w r)
       = [auth_element m (plain_payload user secret)]).
Proof.
  destruct (auth_sasl_cases k server user secret w r) as [[H E]|H]; [left|right; exact H].
  split; [apply choose_mech_none; exact H|exact E].
Qed.

(* ---- only SASL-namespace <mechanism/> children advertise ---- *)
Lemma advertised_spec children m :
  In m (advertised children) <-> exists text, In (s_ns_sasl, s_mechanism, text) children /\ m = trim text.
Proof.
  unfold advertised. rewrite in_map_iff. split.
  - intros ([[ns local] t] & E & Hin). cbn in E. subst m.
    apply filter_In in Hin as [Hin Hs]. unfold is_sasl_mech in Hs.
    apply andb_true_iff in Hs as [Hn Hl]. apply str_eqb_eq in Hn, Hl. subst ns local.
    exists t. split; [exact Hin|reflexivity].
  - intros (t & Hin & ->). exists (s_ns_sasl, s_mechanism, t). split; [reflexivity|].
    apply filter_In. split; [exact Hin|]. unfold is_sasl_mech. rewrite !str_eqb_refl. reflexivity.
Qed.

(* trimming: nothing is left to trim, and a name without white space at its ends is itself *)
Lemma trim_left_fix l :
  match l with c :: _ => is_xml_ws c = false | [] => True end -> trim_left l = l.
Proof. destruct l as [|c r]; [reflexivity|]. cbn. intros ->. reflexivity. Qed.

Lemma trim_left_head l :
  match trim_left l with c :: _ => is_xml_ws c = false | [] => True end.
Proof.
  induction l as [|c r IH]; [exact I|]. cbn. destruct (is_xml_ws c) eqn:E; [exact IH|exact E].
Qed.

Lemma trim_clean l :
  match l with c :: _ => is_xml_ws c = false | [] => True end ->
  match rev l with c :: _ => is_xml_ws c = false | [] => True end ->
  trim l = l.
Proof.
  intros H1 H2. unfold trim. rewrite (trim_left_fix l H1), (trim_left_fix (rev l) H2). apply rev_involutive.
Qed.

Lemma trim_PLAIN : trim s_PLAIN = s_PLAIN /\ trim s_XOAUTH2 = s_XOAUTH2.
Proof. split; reflexivity. Qed.

Lemma foreign_child_ignored k children user secret w r :
  (forall m text, In m (cred_mechs k) -> In (s_ns_sasl, s_mechanism, text) children -> m <> trim text) ->
  auth_sasl_features k children user secret w r = ([], ErrPermanent).
Proof.
  intros H. apply auth_sasl_no_common. intros m Hm Hin.
  apply advertised_spec in Hin as (t & Hin & E). exact (H m t Hm Hin E).
Qed.

Lemma features_written k children user secret w r m payload :
  fst (auth_sasl_features k children user secret w r) = [auth_element m payload] ->
  exists m', fst (auth_sasl_features k children user secret w r)
               = [auth_element m' (plain_payload user secret)] /\
             In m' (cred_mechs k) /\ exists text, In (s_ns_sasl, s_mechanism, text) children /\ m' = trim text.
Proof.
  intros Hw. destruct (mech_sound _ _ _ _ _ _ _ _ Hw) as (m' & E & Hf).
  exists m'. split; [exact E|]. apply first_common_in in Hf as [Hc Hs].
  split; [exact Hc|]. apply advertised_spec. exact Hs.
Qed.

(* ---------- one level up: the children of <stream:features/> ---------- *)
Lemma advertised_in_spec nodes m :
  In m (advertised_in nodes) <->
  exists children text, In (s_ns_sasl, s_mechanisms, children) nodes /\
    In (s_ns_sasl, s_mechanism, text) children /\ m = trim text.
Proof.
  unfold advertised_in. rewrite in_flat_map. split.
  - intros ([[ns loc] ch] & Hin & Hm). apply filter_In in Hin as [Hin Hf].
    cbn in Hf. apply andb_true_iff in Hf as [H1 H2].
    apply str_eqb_eq in H1. apply str_eqb_eq in H2. subst.
    apply advertised_spec in Hm as (t & Ht & E). exists ch, t. repeat split; assumption.
  - intros (ch & t & Hin & Hm & E). exists (s_ns_sasl, s_mechanisms, ch). split.
    + apply filter_In. split; [exact Hin|]. reflexivity.
    + apply advertised_spec. exists t. split; assumption.
Qed.

(* several SASL lists in one features element: their mechanisms are all advertised, in
   document order *)
Lemma advertised_in_app a b : advertised_in (a ++ b) = advertised_in a ++ advertised_in b.
Proof. unfold advertised_in. rewrite filter_app, flat_map_app. reflexivity. Qed.

Lemma nodes_no_sasl_list k nodes user secret w r :
  (forall m children text, In m (cred_mechs k) -> In (s_ns_sasl, s_mechanisms, children) nodes ->
                           In (s_ns_sasl, s_mechanism, text) children -> m <> trim text) ->
  auth_sasl_nodes k nodes user secret w r = ([], ErrPermanent).
Proof.
  intros H. unfold auth_sasl_nodes. apply auth_sasl_no_common.
  intros m Hm Hin. apply advertised_in_spec in Hin as (ch & t & H1 & H2 & E). exact (H m ch t Hm H1 H2 E).
Qed.

(* a <failure/> that answers an element which WAS sent: the element names the first common
   mechanism, and the error is permanent because of the reply *)
Lemma failure_after_sending k server user secret reason m :
  first_common (cred_mechs k) server m ->
  auth_sasl k server user secret WOk (RFailure reason)
  = ([auth_element m (plain_payload user secret)], ErrPermanent).
Proof.
  intros H. apply choose_mech_some in H. rewrite (auth_sasl_some _ _ _ _ _ _ _ H). reflexivity.
Qed.

(* any other reply to an element that was sent: an error that is NOT the permanent one *)
Lemma other_reply_after_sending k server user secret r m :
  first_common (cred_mechs k) server m -> r = ROther \/ r = RReadErr ->
  auth_sasl k server user secret WOk r
  = ([auth_element m (plain_payload user secret)], ErrOther).
Proof.
  intros H Hr. apply choose_mech_some in H. rewrite (auth_sasl_some _ _ _ _ _ _ _ H).
  destruct Hr as [-> | ->]; reflexivity.
Qed.
