(* Proofs about Model/Codec.v: dec (enc v) = Some v on well-formed values, enc of a
   well-formed value is a well-formed document, skeletons ignore text. *)
From Coq Require Import List ZArith NArith Bool Lia.
From XV Require Import Lib.Sx Model.XmlText Model.XmlPrint Model.XmlLex Model.Codec
  Proofs.XmlTextP Proofs.XmlLexP.
Import ListNotations.
Open Scope N_scope.

(* ================= decimal numbers ================= *)
Definition dstep (a d : N) : N := a * 10 + (d - 48).

Lemma digits_value_eq ds : digits_value ds = fold_left dstep ds 0.
Proof. reflexivity. Qed.

Lemma udigits_value fuel : forall n acc,
  n < 2 ^ N.of_nat fuel ->
  fold_left dstep (udigits fuel n acc) 0 = fold_left dstep acc n.
Proof.
  induction fuel as [|f IH]; intros n acc Hn.
  - change (2 ^ N.of_nat 0) with 1 in Hn. assert (n = 0) by lia. subst n. reflexivity.
  - cbn [udigits].
    assert (Hd : 48 + n mod 10 - 48 = n mod 10) by (generalize (n mod 10); intros; lia).
    destruct (n / 10 =? 0) eqn:E.
    + apply N.eqb_eq in E. cbn [fold_left]. unfold dstep at 2. rewrite Hd.
      apply N.div_small_iff in E; [|lia]. rewrite N.mod_small by exact E. reflexivity.
    + rewrite IH.
      * cbn [fold_left]. unfold dstep at 2. rewrite Hd.
        f_equal. pose proof (N.div_mod' n 10). lia.
      * rewrite Nat2N.inj_succ, N.pow_succ_r' in Hn.
        apply N.div_lt_upper_bound; lia.
Qed.

Lemma digits_value_utoa n : digits_value (utoa n) = n.
Proof.
  rewrite digits_value_eq. unfold utoa. rewrite udigits_value; [reflexivity|].
  rewrite Nat2N.inj_succ, N2Nat.id, N.pow_succ_r'.
  pose proof (N.size_gt n). lia.
Qed.

Lemma udigits_digits fuel : forall n acc,
  forallb is_digit acc = true -> forallb is_digit (udigits fuel n acc) = true.
Proof.
  induction fuel as [|f IH]; intros n acc H; [exact H|].
  cbn [udigits].
  assert (Hd : forallb is_digit ((48 + n mod 10) :: acc) = true).
  { cbn [forallb]. rewrite H, andb_true_r. unfold is_digit.
    assert (Hm : n mod 10 < 10) by (apply N.mod_upper_bound; lia). revert Hm. generalize (n mod 10). intros m Hm.
    apply andb_true_iff. split; apply N.leb_le; lia. }
  destruct (n / 10 =? 0); [exact Hd|apply IH; exact Hd].
Qed.

Lemma udigits_nonempty fuel : forall n acc, nonempty acc = true -> nonempty (udigits fuel n acc) = true.
Proof.
  induction fuel as [|f IH]; intros n acc H; [exact H|].
  cbn [udigits]. destruct (n / 10 =? 0); [reflexivity|apply IH; reflexivity].
Qed.

Lemma all_digits_utoa n : all_digits (utoa n) = true.
Proof.
  unfold all_digits, utoa. apply andb_true_iff. split.
  - cbn [udigits]. destruct (n / 10 =? 0); [reflexivity|apply udigits_nonempty; reflexivity].
  - apply udigits_digits. reflexivity.
Qed.

Lemma parse_uint_utoa bits n : n < 2 ^ bits -> parse_uint bits (utoa n) = Some n.
Proof.
  intros H. unfold parse_uint. rewrite all_digits_utoa, digits_value_utoa.
  apply N.ltb_lt in H. now rewrite H.
Qed.

Lemma utoa_head n : exists c r, utoa n = c :: r /\ is_digit c = true.
Proof.
  pose proof (all_digits_utoa n) as H. unfold all_digits in H.
  destruct (utoa n) as [|c r]; [discriminate|].
  cbn [nonempty forallb andb] in H. apply andb_true_iff in H as [H _]. now exists c, r.
Qed.

(* strings.TrimSpace leaves a string without white space alone *)
Lemma trim_nospace s : forallb (fun c => negb (is_space c)) s = true -> trim_space s = s.
Proof.
  intros H. unfold trim_space.
  assert (D : forall l, forallb (fun c => negb (is_space c)) l = true -> drop_space l = l).
  { intros [|c r] Hl; [reflexivity|]. cbn [forallb] in Hl. apply andb_true_iff in Hl as [Hc _].
    apply negb_true_iff in Hc. cbn [drop_space]. now rewrite Hc. }
  rewrite (D s H). rewrite D; [apply rev_involutive|].
  rewrite forallb_forall in *. intros x Hx. apply H. now apply in_rev.
Qed.

Lemma is_digit_nospace c : is_digit c = true -> is_space c = false.
Proof.
  unfold is_digit. intros H. apply andb_true_iff in H as [H1 H2]. apply N.leb_le in H1, H2.
  unfold is_space, space_tab. cbn [existsb].
  repeat match goal with |- context [N.eqb c ?k] =>
    let E := fresh in assert (E : N.eqb c k = false) by (apply N.eqb_neq; lia); rewrite E; clear E end.
  reflexivity.
Qed.

Lemma nospace_utoa n : forallb (fun c => negb (is_space c)) (utoa n) = true.
Proof.
  pose proof (all_digits_utoa n) as H. unfold all_digits in H.
  apply andb_true_iff in H as [_ H]. rewrite forallb_forall in H |- *.
  intros x Hx. now rewrite (is_digit_nospace x (H x Hx)).
Qed.

Lemma parse_uint_field_utoa bits n : n < 2 ^ bits -> parse_uint_field bits (utoa n) = Some n.
Proof.
  intros H. unfold parse_uint_field. destruct (utoa_head n) as (c & r & E & _).
  rewrite E, <- E. rewrite (trim_nospace _ (nospace_utoa n)). now apply parse_uint_utoa.
Qed.

Lemma parse_int_itoa bits z :
  (- Z.of_N (2 ^ (bits - 1)) <= z < Z.of_N (2 ^ (bits - 1)))%Z ->
  parse_int bits (itoa z) = Some z.
Proof.
  intros Hz. unfold itoa. destruct (z <? 0)%Z eqn:E.
  - apply Z.ltb_lt in E. cbn [parse_int]. rewrite N.eqb_refl.
    rewrite all_digits_utoa, digits_value_utoa.
    assert (H : (Z.to_N (- z) <=? 2 ^ (bits - 1)) = true) by (apply N.leb_le; lia).
    rewrite H. f_equal. lia.
  - apply Z.ltb_ge in E. destruct (utoa_head (Z.to_N z)) as (c & r & Eq & Hc).
    rewrite Eq. cbn [parse_int].
    unfold is_digit in Hc. apply andb_true_iff in Hc as [H1 H2].
    apply N.leb_le in H1, H2.
    assert (E45 : (c =? 45) = false) by (apply N.eqb_neq; lia).
    assert (E43 : (c =? 43) = false) by (apply N.eqb_neq; lia).
    rewrite E45, E43, <- Eq, all_digits_utoa, digits_value_utoa.
    assert (H : (Z.to_N z <? 2 ^ (bits - 1)) = true) by (apply N.ltb_lt; lia).
    rewrite H. f_equal. lia.
Qed.

Lemma itoa_nonempty z : itoa z <> [].
Proof.
  unfold itoa. destruct (z <? 0)%Z; [discriminate|].
  destruct (utoa_head (Z.to_N z)) as (c & r & E & _). rewrite E. discriminate.
Qed.

Lemma nospace_itoa z : forallb (fun c => negb (is_space c)) (itoa z) = true.
Proof.
  unfold itoa. destruct (z <? 0)%Z; [|apply nospace_utoa].
  cbn [forallb]. now rewrite nospace_utoa.
Qed.

Lemma parse_int_field_itoa bits z :
  (- Z.of_N (2 ^ (bits - 1)) <= z < Z.of_N (2 ^ (bits - 1)))%Z ->
  parse_int_field bits (itoa z) = Some z.
Proof.
  intros H. unfold parse_int_field. pose proof (itoa_nonempty z) as Hn.
  destruct (itoa z) as [|c r] eqn:E; [congruence|]. rewrite <- E.
  rewrite (trim_nospace _ (nospace_itoa z)). now apply parse_int_itoa.
Qed.

Lemma is_digit_plain c : is_digit c = true -> plain_char c = true.
Proof.
  unfold is_digit. intros H. apply andb_true_iff in H as [H1 H2]. apply N.leb_le in H1, H2.
  unfold plain_char, legal.
  assert (E1 : (32 <=? c) = true) by (apply N.leb_le; lia).
  assert (E2 : (c <=? 55295) = true) by (apply N.leb_le; lia).
  rewrite E1, E2. cbn [andb orb]. rewrite !orb_true_r. cbn [andb].
  cbn [existsb].
  repeat match goal with |- context [N.eqb c ?k] =>
    let E := fresh in assert (E : N.eqb c k = false) by (apply N.eqb_neq; lia); rewrite E; clear E end.
  reflexivity.
Qed.

Lemma plain_utoa n : plain (utoa n) = true.
Proof.
  pose proof (all_digits_utoa n) as H. unfold all_digits in H.
  apply andb_true_iff in H as [_ H]. unfold plain.
  rewrite forallb_forall in H |- *. intros x Hx. apply is_digit_plain. now apply H.
Qed.

Lemma plain_itoa z : plain (itoa z) = true.
Proof.
  unfold itoa. destruct (z <? 0)%Z; [|apply plain_utoa].
  cbn [plain forallb]. fold (plain (utoa (Z.to_N (- z)))). now rewrite plain_utoa.
Qed.

Lemma all_legal_utoa n : all_legal (utoa n) = true.
Proof. apply plain_all_legal, plain_utoa. Qed.
Lemma all_legal_itoa z : all_legal (itoa z) = true.
Proof. apply plain_all_legal, plain_itoa. Qed.

Lemma parse_bool_btoa b : parse_bool_field (btoa b) = Some b.
Proof. destruct b; reflexivity. Qed.

Global Opaque utoa itoa.

(* ================= small helpers ================= *)
Lemma texts_app a b : texts (a ++ b) = texts a ++ texts b.
Proof. unfold texts. apply flat_map_app. Qed.

Lemma texts_text_raw s : texts (text_raw s) = s.
Proof. destruct s; [reflexivity|]. cbn. now rewrite app_nil_r. Qed.

Lemma texts_text_esc s : texts (text_esc s) = s.
Proof. destruct s; [reflexivity|]. cbn. now rewrite app_nil_r. Qed.

Lemma no_adj_elems ks : forallb is_elem ks = true -> no_adj ks = true.
Proof.
  induction ks as [|k ks IH]; [reflexivity|]. cbn [forallb]. intros H.
  apply andb_true_iff in H as [Hk Hks]. cbn [no_adj]. destruct ks as [|k' ks']; [reflexivity|].
  unfold is_elem in Hk. apply negb_true_iff in Hk. rewrite Hk. cbn [andb negb]. now apply IH.
Qed.

Lemma no_adj_elems_then ks tl :
  forallb is_elem ks = true -> (tl = [] \/ exists t, tl = [t]) -> no_adj (ks ++ tl) = true.
Proof.
  intros Hks Htl. induction ks as [|k ks IH].
  - destruct Htl as [->|[t ->]]; reflexivity.
  - cbn [forallb] in Hks. apply andb_true_iff in Hks as [Hk Hks].
    specialize (IH Hks). cbn [app no_adj]. destruct (ks ++ tl) as [|k' r]; [reflexivity|].
    unfold is_elem in Hk. apply negb_true_iff in Hk. rewrite Hk. cbn [andb negb].
    exact IH.
Qed.

Lemma implb_same b : implb b b = true.
Proof. now destruct b. Qed.

Lemma wf_text_raw pns s : all_legal s = true -> forallb (wf_tree pns) (text_raw s) = true.
Proof.
  intros H. destruct s as [|c s]; [reflexivity|].
  cbn [text_raw forallb wf_tree nonempty]. rewrite H, implb_same. reflexivity.
Qed.

Lemma wf_text_esc pns s : all_legal s = true -> forallb (wf_tree pns) (text_esc s) = true.
Proof.
  intros H. destruct s as [|c s]; [reflexivity|].
  cbn [text_esc forallb wf_tree nonempty implb]. now rewrite H.
Qed.

Lemma text_raw_shape s : text_raw s = [] \/ exists t, text_raw s = [t].
Proof. destruct s; [now left|right; eexists; reflexivity]. Qed.
Lemma text_esc_shape s : text_esc s = [] \/ exists t, text_esc s = [t].
Proof. destruct s; [now left|right; eexists; reflexivity]. Qed.

(* ================= generic nodes ================= *)
Fixpoint node_ind' (P : node -> Prop)
  (H : forall ns l a c ks, Forall P ks -> P (Node ns l a c ks)) (n : node) : P n :=
  match n with
  | Node ns l a c ks =>
      H ns l a c ks
        ((fix go (l : list node) : Forall P l :=
            match l with
            | [] => Forall_nil P
            | k :: l' => Forall_cons k (node_ind' P H k) (go l')
            end) ks)
  end.

Lemma enc_node_eq ns l a c ks :
  enc_node (Node ns l a c ks) = XE ns l a (map enc_node ks ++ text_raw c).
Proof. reflexivity. Qed.

Lemma wf_node_eq pns ns l a c ks :
  wf_node pns (Node ns l a c ks) =
  name_ok l && all_legal ns && (nonempty ns || isempty pns) && forallb attr_ok a && all_legal c
  && forallb (wf_node ns) ks.
Proof. reflexivity. Qed.

Lemma blank_node_eq ns l a c ks :
  blank_node (Node ns l a c ks) =
  Node ns l (map (fun kv => (fst kv, [])) a) (blank_str c) (map blank_node ks).
Proof. reflexivity. Qed.

Fixpoint dec_nodes (ks : list xtree) : option (list node) :=
  match ks with
  | [] => Some []
  | XT _ _ :: ks' => dec_nodes ks'
  | (XE _ _ _ _ as k) :: ks' =>
      match dec_node k, dec_nodes ks' with
      | Some n, Some r => Some (n :: r)
      | _, _ => None
      end
  end.

Lemma dec_node_XE ns l a kids :
  dec_node (XE ns l a kids) =
  match dec_nodes kids with
  | Some ns' => Some (Node ns l a (texts kids) ns')
  | None => None
  end.
Proof. reflexivity. Qed.

Lemma enc_node_is_elem n : is_elem (enc_node n) = true.
Proof. destruct n. reflexivity. Qed.

Lemma texts_enc_nodes ks : texts (map enc_node ks) = [].
Proof. induction ks as [|[ns l a c kk] ks IH]; [reflexivity|]. cbn [map]. rewrite enc_node_eq. exact IH. Qed.

Lemma dec_nodes_enc ks c :
  Forall (fun k => dec_node (enc_node k) = Some k) ks ->
  dec_nodes (map enc_node ks ++ text_raw c) = Some ks.
Proof.
  induction 1 as [|k ks Hk _ IH].
  - destruct c; reflexivity.
  - cbn [map app]. destruct k as [ns l a c' kk]. rewrite enc_node_eq in *.
    cbn [dec_nodes]. rewrite Hk, IH. reflexivity.
Qed.

Theorem dec_enc_node n : dec_node (enc_node n) = Some n.
Proof.
  induction n as [ns l a c ks IH] using node_ind'.
  rewrite enc_node_eq, dec_node_XE, (dec_nodes_enc ks c IH).
  now rewrite texts_app, texts_enc_nodes, texts_text_raw.
Qed.

Lemma wf_enc_node n : forall pns, wf_node pns n = true -> wf_tree pns (enc_node n) = true.
Proof.
  induction n as [ns l a c ks IH] using node_ind'. intros pns H.
  rewrite wf_node_eq in H. repeat (apply andb_true_iff in H as [H ?]).
  rewrite enc_node_eq, wf_tree_XE. rewrite H, H4, H3, H2. cbn [andb].
  rewrite no_adj_elems_then.
  2:{ clear. induction ks as [|k ks IHk]; [reflexivity|]. cbn [map forallb]. now rewrite enc_node_is_elem. }
  2:{ apply text_raw_shape. }
  rewrite forallb_app, (wf_text_raw ns c H1), andb_true_r. cbn [andb].
  clear -IH H0. induction ks as [|k ks IHk]; [reflexivity|].
  cbn [map forallb] in *. apply andb_true_iff in H0 as [Hk Hks].
  inversion IH as [|? ? IHk0 IHks]; subst. rewrite (IHk0 ns Hk). now apply IHk.
Qed.

Lemma skeleton_text_raw s : flat_map skeleton (text_raw s) = [].
Proof. now destruct s. Qed.
Lemma skeleton_text_esc s : flat_map skeleton (text_esc s) = [].
Proof. now destruct s. Qed.

Lemma skeleton_blank_node n : skeleton (enc_node (blank_node n)) = skeleton (enc_node n).
Proof.
  induction n as [ns l a c ks IH] using node_ind'.
  rewrite blank_node_eq, !enc_node_eq, !skeleton_XE. f_equal. f_equal.
  - rewrite map_map. apply map_ext. reflexivity.
  - rewrite !flat_map_app, !skeleton_text_raw, !app_nil_r.
    induction IH as [|k ks Hk _ IHk]; [reflexivity|].
    cbn [map flat_map]. now rewrite Hk, IHk.
Qed.

(* ================= Attrs ================= *)
Theorem dec_enc_attrs a : dec_attrs (enc_attrs a) = a.
Proof.
  destruct a as [[|? ?] [|? ?] [|? ?] [|? ?] [|? ?]]; reflexivity.
Qed.

Lemma attr_ok_opt k v :
  name_ok k = true -> str_eqb k xmlns_s = false -> all_legal v = true ->
  forallb attr_ok (opt_attr k v) = true.
Proof.
  intros Hk Hx Hv. destruct v as [|c v]; [reflexivity|].
  cbn [opt_attr forallb]. unfold attr_ok. cbn [fst snd]. now rewrite Hk, Hx, Hv.
Qed.

Lemma wf_enc_attrs a : wf_attrs a = true -> forallb attr_ok (enc_attrs a) = true.
Proof.
  unfold wf_attrs, enc_attrs. intros H. repeat (apply andb_true_iff in H as [H ?]).
  rewrite !forallb_app, !attr_ok_opt; auto.
Qed.

Lemma map_fst_opt_attr k v : map fst (opt_attr k (blank_str v)) = map fst (opt_attr k v).
Proof. now destruct v. Qed.

Lemma skeleton_attrs a : map fst (enc_attrs (blank_attrs a)) = map fst (enc_attrs a).
Proof.
  unfold enc_attrs, blank_attrs. cbn [a_type a_id a_from a_to a_lang].
  now rewrite !map_app, !map_fst_opt_attr.
Qed.

(* ================= Err ================= *)
Lemma Z63 : Z.of_N (2 ^ (64 - 1)) = (2 ^ 63)%Z.
Proof. reflexivity. Qed.

Lemma err_attrs_code code ty :
  (- 2 ^ 63 <= code < 2 ^ 63)%Z ->
  match attr_last s_code ((if (code =? 0)%Z then [] else [(s_code, itoa code)]) ++ opt_attr s_type ty) None with
  | Some v => match parse_int 64 v with Some z => z | None => 0%Z end
  | None => 0%Z
  end = code.
Proof.
  intros Hc. destruct (code =? 0)%Z eqn:E.
  - apply Z.eqb_eq in E. subst code. now destruct ty.
  - assert (Hp : parse_int 64 (itoa code) = Some code) by (apply parse_int_itoa; rewrite Z63; lia).
    destruct ty; cbn; now rewrite Hp.
Qed.

Lemma err_attrs_type code ty :
  attr_str s_type ((if (code =? 0)%Z then [] else [(s_code, itoa code)]) ++ opt_attr s_type ty) [] = ty.
Proof. destruct (code =? 0)%Z; destruct ty; reflexivity. Qed.

Lemma err_children code ty reason text :
  str_eqb reason s_text = false ->
  fold_left err_child
    ((match reason with [] => [] | rc :: rr => [XE ns_stanzas (rc :: rr) [] []] end)
     ++ (match text with [] => [] | tc :: tx => [XE ns_stanzas s_text [] (text_raw (tc :: tx))] end))
    (mkErr code ty [] []) = mkErr code ty reason text.
Proof.
  intros Hr.
  assert (Htext : forall e, err_child e (XE ns_stanzas s_text [] (text_raw text))
                            = mkErr (e_code e) (e_type e) (e_reason e) text).
  { intros e. cbn [err_child]. rewrite texts_text_raw. reflexivity. }
  destruct reason as [|rc rr].
  - destruct text as [|tc tx]; [reflexivity|]. cbn [app fold_left]. now rewrite Htext.
  - pose proof Hr as Ht.
    assert (Hreason : forall e, e_text e = [] ->
                                err_child e (XE ns_stanzas (rc :: rr) [] [])
                                = mkErr (e_code e) (e_type e) (rc :: rr) (e_text e)).
    { intros e He. cbn [err_child]. rewrite Ht.
      destruct (str_eqb (rc :: rr) s_gone); [|reflexivity].
      rewrite str_eqb_refl. cbn [andb]. rewrite He. reflexivity. }
    destruct text as [|tc tx]; cbn [app fold_left]; rewrite Hreason by reflexivity; [reflexivity|].
    now rewrite Htext.
Qed.

(* a non-empty error is one element, decoded back from a zero value *)
Definition err_tree (e : err) : xtree :=
  XE [] s_error
    ((if (e_code e =? 0)%Z then [] else [(s_code, itoa (e_code e))]) ++ opt_attr s_type (e_type e))
    ((match e_reason e with [] => [] | r => [XE ns_stanzas r [] []] end)
     ++ (match e_text e with [] => [] | t => [XE ns_stanzas s_text [] (text_raw t)] end)).

Lemma enc_err_cases e :
  (err_empty e = true /\ enc_err e = [] /\ e = zero_err) \/
  (err_empty e = false /\ enc_err e = [err_tree e]).
Proof.
  unfold enc_err. destruct (err_empty e) eqn:E; [left|right; auto].
  repeat split. unfold err_empty in E. destruct e as [c t r x]. cbn in E.
  repeat (apply andb_true_iff in E as [E ?]). apply Z.eqb_eq in E. subst c.
  destruct t, r, x; try discriminate. reflexivity.
Qed.

Lemma dec_err_tree e : wf_err e = true -> dec_err zero_err (err_tree e) = Some e.
Proof.
  unfold wf_err. intros H. repeat (apply andb_true_iff in H as [H ?]).
  apply Z.leb_le in H. apply Z.ltb_lt in H3.
  destruct e as [code ty reason text]. cbn [e_code e_type e_reason e_text] in *.
  unfold err_tree, dec_err. cbn [e_code e_type e_reason e_text zero_err].
  apply negb_true_iff in H0.
  rewrite err_attrs_code by lia. rewrite err_attrs_type. now rewrite err_children.
Qed.

Lemma name_ok_not_xmlns_code : name_ok s_code = true /\ str_eqb s_code xmlns_s = false.
Proof. split; reflexivity. Qed.

Lemma wf_err_tree e : wf_err e = true -> reason_ok e = true -> wf_tree [] (err_tree e) = true.
Proof.
  unfold wf_err, reason_ok. intros H Hname. repeat (apply andb_true_iff in H as [H ?]).
  destruct e as [code ty reason text]. cbn [e_code e_type e_reason e_text] in *.
  unfold err_tree. cbn [e_code e_type e_reason e_text]. rewrite wf_tree_XE.
  assert (Ha : forallb attr_ok ((if (code =? 0)%Z then [] else [(s_code, itoa code)]) ++ opt_attr s_type ty) = true).
  { rewrite forallb_app, attr_ok_opt by (auto; reflexivity). rewrite andb_true_r.
    destruct (code =? 0)%Z; [reflexivity|]. cbn [forallb]. unfold attr_ok. cbn [fst snd].
    now rewrite all_legal_itoa. }
  rewrite Ha.
  assert (Hk : forallb (wf_tree [])
            ((match reason with [] => [] | rc :: rr => [XE ns_stanzas (rc :: rr) [] []] end)
             ++ (match text with [] => [] | tc :: tx => [XE ns_stanzas s_text [] (text_raw (tc :: tx))] end)) = true).
  { rewrite forallb_app. apply andb_true_iff. split.
    - destruct reason as [|rc rr]; [reflexivity|]. cbn [isempty orb] in Hname.
      cbn [forallb]. rewrite wf_tree_XE, Hname. reflexivity.
    - destruct text as [|tc tx]; [reflexivity|]. cbn [forallb]. rewrite wf_tree_XE.
      rewrite (wf_text_raw ns_stanzas (tc :: tx) H1). reflexivity. }
  rewrite Hk, no_adj_elems; [reflexivity|].
  rewrite forallb_app. destruct reason, text; reflexivity.
Qed.

Lemma skeleton_err_tree e :
  err_empty (blank_err e) = err_empty e /\
  skeleton (err_tree (blank_err e)) = skeleton (err_tree e).
Proof.
  destruct e as [code ty reason text]. split.
  - unfold err_empty, blank_err. cbn. now destruct ty, text.
  - unfold err_tree, blank_err. cbn [e_code e_type e_reason e_text].
    rewrite !skeleton_XE. f_equal. f_equal.
    + rewrite !map_app, map_fst_opt_attr. reflexivity.
    + rewrite !flat_map_app. f_equal. destruct text; reflexivity.
Qed.

(* ================= Message / Presence / IQ ================= *)
Arguments registered : simpl never.

Lemma reg_ok_parts reg :
  reg_ok reg = true ->
  registered reg 1 [] s_subject = false /\ registered reg 1 [] s_body = false /\
  registered reg 1 [] s_thread = false /\ registered reg 1 [] s_error = false /\
  registered reg 0 [] s_show = false /\ registered reg 0 [] s_status = false /\
  registered reg 0 [] s_priority = false /\ registered reg 0 [] s_error = false.
Proof.
  unfold reg_ok. intros H. repeat (apply andb_true_iff in H as [H ?]).
  repeat match goal with Hx : negb _ = true |- _ => apply negb_true_iff in Hx end.
  repeat split; assumption.
Qed.

Lemma msg_step_subject reg m s :
  reg_ok reg = true ->
  msg_child reg [] (Some m) (XE [] s_subject [] [XT false s])
  = Some (mkMessage (m_attrs m) s (m_body m) (m_thread m) (m_error m) (m_exts m)).
Proof.
  intros H. destruct (reg_ok_parts reg H) as (H1 & _). cbn [msg_child]. rewrite H1.
  cbn. now rewrite app_nil_r.
Qed.
Lemma msg_step_body reg m s :
  reg_ok reg = true ->
  msg_child reg [] (Some m) (XE [] s_body [] [XT false s])
  = Some (mkMessage (m_attrs m) (m_subject m) s (m_thread m) (m_error m) (m_exts m)).
Proof.
  intros H. destruct (reg_ok_parts reg H) as (_ & H1 & _). cbn [msg_child]. rewrite H1.
  cbn. now rewrite app_nil_r.
Qed.
Lemma msg_step_thread reg m s :
  reg_ok reg = true ->
  msg_child reg [] (Some m) (XE [] s_thread [] [XT false s])
  = Some (mkMessage (m_attrs m) (m_subject m) (m_body m) s (m_error m) (m_exts m)).
Proof.
  intros H. destruct (reg_ok_parts reg H) as (_ & _ & H1 & _). cbn [msg_child]. rewrite H1.
  cbn. now rewrite app_nil_r.
Qed.

Lemma msg_seg_error reg a s b t x e :
  reg_ok reg = true -> wf_err e = true ->
  fold_left (msg_child reg []) (enc_err e) (Some (mkMessage a s b t zero_err x))
  = Some (mkMessage a s b t e x).
Proof.
  intros H He. destruct (reg_ok_parts reg H) as (_ & _ & _ & H1 & _).
  destruct (enc_err_cases e) as [(_ & -> & ->)|(_ & ->)]; [reflexivity|].
  cbn [fold_left]. unfold err_tree at 1. cbn [msg_child]. rewrite H1.
  change (negb (str_eqb [] [])) with false. cbv iota.
  change (str_eqb s_error s_body) with false. change (str_eqb s_error s_thread) with false.
  change (str_eqb s_error s_subject) with false. change (str_eqb s_error s_error) with true.
  cbv iota. cbn [m_error]. fold (err_tree e). now rewrite (dec_err_tree e He).
Qed.

Lemma msg_seg_exts reg a s b t e exts : forall x0,
  forallb (root_registered reg 1) exts = true ->
  fold_left (msg_child reg []) exts (Some (mkMessage a s b t e x0))
  = Some (mkMessage a s b t e (x0 ++ exts)).
Proof.
  induction exts as [|k ks IH]; intros x0 H; [now rewrite app_nil_r|].
  cbn [forallb] in H. apply andb_true_iff in H as [Hk Hks].
  cbn [fold_left]. destruct k as [ns l ka kk|raw tx]; [|discriminate].
  cbn [root_registered] in Hk. cbn [msg_child]. rewrite Hk. cbn [m_attrs m_subject m_body m_thread m_error m_exts].
  rewrite IH by exact Hks. now rewrite <- app_assoc.
Qed.

Lemma wf_ext_parts reg kind exts :
  forallb (wf_ext reg kind) exts = true ->
  forallb (root_registered reg kind) exts = true /\ forallb is_elem exts = true /\
  forallb (wf_tree []) exts = true.
Proof.
  induction exts as [|k ks IH]; [auto|]. cbn [forallb]. intros H.
  apply andb_true_iff in H as [Hk Hks]. destruct (IH Hks) as (I1 & I2 & I3).
  unfold wf_ext, wf_doc in Hk. apply andb_true_iff in Hk as [Hk Hr]. apply andb_true_iff in Hk as [He Hw].
  now rewrite Hr, He, Hw, I1, I2, I3.
Qed.

Theorem dec_enc_message reg m :
  reg_ok reg = true -> wf_message reg m = true -> dec_message reg (enc_message m) = Some m.
Proof.
  intros Hreg Hwf. destruct m as [a su bo th e ex]. unfold wf_message in Hwf.
  cbn [m_attrs m_subject m_body m_thread m_error m_exts] in Hwf.
  repeat (apply andb_true_iff in Hwf as [Hwf ?]).
  destruct (wf_ext_parts reg 1 ex H) as (Hr & _ & _).
  unfold enc_message, dec_message. cbn [m_attrs m_subject m_body m_thread m_error m_exts].
  rewrite dec_enc_attrs, !fold_left_app.
  assert (S1 : fold_left (msg_child reg []) (opt_elem s_subject su) (Some (mkMessage a [] [] [] zero_err []))
               = Some (mkMessage a su [] [] zero_err [])).
  { destruct su; [reflexivity|]. cbn [opt_elem fold_left]. now rewrite msg_step_subject. }
  rewrite S1.
  assert (S2 : fold_left (msg_child reg []) (opt_elem s_body bo) (Some (mkMessage a su [] [] zero_err []))
               = Some (mkMessage a su bo [] zero_err [])).
  { destruct bo; [reflexivity|]. cbn [opt_elem fold_left]. now rewrite msg_step_body. }
  rewrite S2.
  assert (S3 : fold_left (msg_child reg []) (opt_elem s_thread th) (Some (mkMessage a su bo [] zero_err []))
               = Some (mkMessage a su bo th zero_err [])).
  { destruct th; [reflexivity|]. cbn [opt_elem fold_left]. now rewrite msg_step_thread. }
  rewrite S3, (msg_seg_error reg a su bo th [] e Hreg H0), (msg_seg_exts reg a su bo th e ex [] Hr).
  reflexivity.
Qed.

(* ---- presence ---- *)
Lemma pres_step_show reg p s :
  reg_ok reg = true ->
  pres_child reg [] (Some p) (XE [] s_show [] [XT false s])
  = Some (mkPresence (p_attrs p) s (p_status p) (p_priority p) (p_error p) (p_exts p)).
Proof.
  intros H. destruct (reg_ok_parts reg H) as (_ & _ & _ & _ & H1 & _). cbn [pres_child]. rewrite H1.
  cbn. now rewrite app_nil_r.
Qed.
Lemma pres_step_status reg p s :
  reg_ok reg = true ->
  pres_child reg [] (Some p) (XE [] s_status [] [XT false s])
  = Some (mkPresence (p_attrs p) (p_show p) s (p_priority p) (p_error p) (p_exts p)).
Proof.
  intros H. destruct (reg_ok_parts reg H) as (_ & _ & _ & _ & _ & H1 & _). cbn [pres_child]. rewrite H1.
  cbn. now rewrite app_nil_r.
Qed.
Lemma Z7 : Z.of_N (2 ^ (8 - 1)) = 128%Z.
Proof. reflexivity. Qed.
Lemma pres_step_priority reg p z :
  reg_ok reg = true -> (-128 <= z <= 127)%Z ->
  pres_child reg [] (Some p) (XE [] s_priority [] [XT false (itoa z)])
  = Some (mkPresence (p_attrs p) (p_show p) (p_status p) z (p_error p) (p_exts p)).
Proof.
  intros H Hz. destruct (reg_ok_parts reg H) as (_ & _ & _ & _ & _ & _ & H1 & _).
  cbn [pres_child]. rewrite H1.
  change (negb (str_eqb [] [])) with false. cbv iota.
  change (str_eqb s_priority s_show) with false. change (str_eqb s_priority s_status) with false.
  change (str_eqb s_priority s_priority) with true. cbv iota.
  cbn [texts flat_map]. rewrite app_nil_r.
  rewrite parse_int_field_itoa by (rewrite Z7; lia). reflexivity.
Qed.

Lemma pres_seg_error reg a s b z x e :
  reg_ok reg = true -> wf_err e = true ->
  fold_left (pres_child reg []) (enc_err e) (Some (mkPresence a s b z zero_err x))
  = Some (mkPresence a s b z e x).
Proof.
  intros H He. destruct (reg_ok_parts reg H) as (_ & _ & _ & _ & _ & _ & _ & H1).
  destruct (enc_err_cases e) as [(_ & -> & ->)|(_ & ->)]; [reflexivity|].
  cbn [fold_left]. unfold err_tree at 1. cbn [pres_child]. rewrite H1.
  change (negb (str_eqb [] [])) with false. cbv iota.
  change (str_eqb s_error s_show) with false. change (str_eqb s_error s_status) with false.
  change (str_eqb s_error s_priority) with false. change (str_eqb s_error s_error) with true.
  cbv iota. cbn [p_error]. fold (err_tree e). now rewrite (dec_err_tree e He).
Qed.

Lemma pres_seg_exts reg a s b z e exts : forall x0,
  forallb (root_registered reg 0) exts = true ->
  fold_left (pres_child reg []) exts (Some (mkPresence a s b z e x0))
  = Some (mkPresence a s b z e (x0 ++ exts)).
Proof.
  induction exts as [|k ks IH]; intros x0 H; [now rewrite app_nil_r|].
  cbn [forallb] in H. apply andb_true_iff in H as [Hk Hks].
  cbn [fold_left]. destruct k as [ns l ka kk|raw tx]; [|discriminate].
  cbn [root_registered] in Hk. cbn [pres_child]. rewrite Hk.
  cbn [p_attrs p_show p_status p_priority p_error p_exts].
  rewrite IH by exact Hks. now rewrite <- app_assoc.
Qed.

Theorem dec_enc_presence reg p :
  reg_ok reg = true -> wf_presence reg p = true -> dec_presence reg (enc_presence p) = Some p.
Proof.
  intros Hreg Hwf. destruct p as [a sh st pr e ex]. unfold wf_presence in Hwf.
  cbn [p_attrs p_show p_status p_priority p_error p_exts] in Hwf.
  repeat (apply andb_true_iff in Hwf as [Hwf ?]).
  apply andb_true_iff in H1 as [H1 H1']. apply Z.leb_le in H1. apply Z.leb_le in H1'.
  destruct (wf_ext_parts reg 0 ex H) as (Hr & _ & _).
  unfold enc_presence, dec_presence. cbn [p_attrs p_show p_status p_priority p_error p_exts].
  rewrite dec_enc_attrs, !fold_left_app.
  assert (S1 : fold_left (pres_child reg []) (opt_elem s_show sh) (Some (mkPresence a [] [] 0%Z zero_err []))
               = Some (mkPresence a sh [] 0%Z zero_err [])).
  { destruct sh; [reflexivity|]. cbn [opt_elem fold_left]. now rewrite pres_step_show. }
  rewrite S1.
  assert (S2 : fold_left (pres_child reg []) (opt_elem s_status st) (Some (mkPresence a sh [] 0%Z zero_err []))
               = Some (mkPresence a sh st 0%Z zero_err [])).
  { destruct st; [reflexivity|]. cbn [opt_elem fold_left]. now rewrite pres_step_status. }
  rewrite S2.
  assert (S3 : fold_left (pres_child reg [])
                 (if (pr =? 0)%Z then [] else [XE [] s_priority [] [XT false (itoa pr)]])
                 (Some (mkPresence a sh st 0%Z zero_err []))
               = Some (mkPresence a sh st pr zero_err [])).
  { destruct (pr =? 0)%Z eqn:E; [apply Z.eqb_eq in E; now subst pr|].
    cbn [fold_left]. rewrite pres_step_priority by (auto; lia). reflexivity. }
  rewrite S3, (pres_seg_error reg a sh st pr [] e Hreg H0), (pres_seg_exts reg a sh st pr e ex [] Hr).
  reflexivity.
Qed.

(* ---- iq ---- *)
Theorem dec_enc_iq reg i : wf_iq reg i = true -> dec_iq reg (enc_iq i) = Some i.
Proof.
  intros Hwf. destruct i as [a pl er an]. unfold wf_iq in Hwf.
  cbn [i_attrs i_payload i_error i_any] in Hwf.
  repeat (apply andb_true_iff in Hwf as [Hwf ?]).
  unfold enc_iq, dec_iq. cbn [i_attrs i_payload i_error i_any].
  rewrite dec_enc_attrs, !fold_left_app.
  assert (S1 : fold_left (iq_child reg []) (opt_list pl (fun t => [t])) (Some (mkIQ a None None None))
               = Some (mkIQ a pl None None)).
  { destruct pl as [t|]; [|reflexivity]. apply andb_true_iff in H1 as [Hx Hn].
    unfold wf_ext in Hx. apply andb_true_iff in Hx as [_ Hr].
    destruct t as [ns l ta tk|raw tx]; [|discriminate].
    cbn [root_registered] in Hr. cbn [root_is] in Hn. apply negb_true_iff in Hn.
    cbn [opt_list fold_left iq_child]. now rewrite Hn, Hr. }
  rewrite S1.
  assert (S2 : fold_left (iq_child reg []) (opt_list er enc_err) (Some (mkIQ a pl None None))
               = Some (mkIQ a pl er None)).
  { destruct er as [e|]; [|reflexivity]. apply andb_true_iff in H0 as [He Hne].
    apply negb_true_iff in Hne. cbn [opt_list].
    destruct (enc_err_cases e) as [(Hc & _)|(_ & ->)]; [congruence|].
    cbn [fold_left]. unfold err_tree at 1. cbn [iq_child].
    change (str_eqb s_error s_error && str_eqb [] []) with true. cbv iota. fold (err_tree e).
    now rewrite (dec_err_tree e He). }
  rewrite S2.
  destruct an as [n|]; [|reflexivity].
  destruct n as [ns l na c ks]. apply andb_true_iff in H as [H Hne]. apply andb_true_iff in H as [_ Hnr].
  apply negb_true_iff in Hne, Hnr.
  cbn [opt_list fold_left]. rewrite enc_node_eq. cbn [iq_child]. rewrite Hne, Hnr.
  rewrite <- enc_node_eq, dec_enc_node. reflexivity.
Qed.

(* ================= the whole core ================= *)
Lemma fits64_lt n : fits64 n = true -> n < 2 ^ 64.
Proof. unfold fits64. apply N.ltb_lt. Qed.

Lemma failed_conditions_names : forallb name_ok failed_conditions = true.
Proof. vm_compute. reflexivity. Qed.

Lemma failed_condition_name c : existsb (str_eqb c) failed_conditions = true -> name_ok c = true.
Proof.
  intros H. apply existsb_exists in H as (x & Hin & Hx). apply str_eqb_eq in Hx. subst x.
  pose proof failed_conditions_names as Hn. rewrite forallb_forall in Hn. now apply Hn.
Qed.

Theorem dec_enc reg v :
  reg_ok reg = true -> wf_value reg v = true -> dec reg (vtype_of v) (enc v) = Some v.
Proof.
  intros Hreg Hwf. destruct v; cbn [vtype_of wf_value] in *.
  - cbn [dec enc]. now rewrite dec_enc_message.
  - cbn [dec enc]. now rewrite dec_enc_presence.
  - cbn [dec enc]. now rewrite dec_enc_iq.
  - cbn [dec enc]. now rewrite dec_enc_node.
  - (* enable *)
    destruct max as [n|], resume as [b|]; cbn [opt_fits64] in Hwf;
      try (apply fits64_lt in Hwf); cbn;
      rewrite ?parse_uint_field_utoa by assumption; rewrite ?parse_bool_btoa; reflexivity.
  - (* enabled *)
    repeat (apply andb_true_iff in Hwf as [Hwf ?]). apply fits64_lt in H.
    destruct (max =? 0) eqn:E; [apply N.eqb_eq in E; subst max|];
      destruct id, location, resume; cbn; rewrite ?E; cbn;
      rewrite ?parse_uint_field_utoa by assumption; reflexivity.
  - reflexivity.
  - apply fits64_lt in Hwf. cbn. now rewrite parse_uint_field_utoa.
  - apply andb_true_iff in Hwf as [_ Hh].
    destruct h as [n|]; cbn [opt_fits64] in Hh; try (apply fits64_lt in Hh);
      destruct previd; cbn; rewrite ?parse_uint_field_utoa by assumption; reflexivity.
  - apply andb_true_iff in Hwf as [_ Hh].
    destruct h as [n|]; cbn [opt_fits64] in Hh; try (apply fits64_lt in Hh);
      destruct previd; cbn; rewrite ?parse_uint_field_utoa by assumption; reflexivity.
  - apply andb_true_iff in Hwf as [Hh Hc].
    assert (Hf : failed_h (opt_uint_attr s_h h) None = h).
    { destruct h as [n|]; [|reflexivity]. cbn [opt_fits64] in Hh. apply fits64_lt in Hh.
      cbn. now rewrite parse_uint_utoa. }
    cbn [enc dec]. rewrite Hf. destruct cond as [|c0 cr]; [reflexivity|].
    cbn [isempty orb] in Hc. cbn [fold_left failed_cond]. rewrite str_eqb_refl, Hc. reflexivity.
  - cbn [enc dec]. unfold named. rewrite !str_eqb_refl. cbn [andb].
    rewrite texts_text_esc. reflexivity.
  - cbn [enc dec]. unfold named. rewrite !str_eqb_refl. cbn [andb].
    now rewrite texts_text_esc.
Qed.

(* ---- enc of a well-formed value is a well-formed document ---- *)
Lemma wf_opt_elem name s :
  name_ok name = true -> all_legal s = true -> forallb (wf_tree []) (opt_elem name s) = true.
Proof.
  intros Hn Hs. destruct s as [|c s]; [reflexivity|].
  cbn [opt_elem forallb]. rewrite wf_tree_XE, Hn. cbn [forallb wf_tree nonempty implb no_adj isempty orb andb].
  rewrite Hs. reflexivity.
Qed.

Lemma is_elem_opt_elem name s : forallb is_elem (opt_elem name s) = true.
Proof. now destruct s. Qed.

Lemma enc_err_wf e : wf_err e = true -> reason_ok e = true ->
  forallb (wf_tree []) (enc_err e) = true /\ forallb is_elem (enc_err e) = true.
Proof.
  intros H Hn. destruct (enc_err_cases e) as [(_ & -> & _)|(_ & ->)]; [auto|].
  cbn [forallb]. now rewrite (wf_err_tree e H Hn).
Qed.

Lemma wf_doc_stanza name a kids :
  name_ok name = true -> forallb attr_ok a = true ->
  forallb is_elem kids = true -> forallb (wf_tree []) kids = true ->
  wf_doc (XE [] name a kids) = true.
Proof.
  intros Hn Ha He Hk. unfold wf_doc. cbn [is_elem is_text negb andb].
  rewrite wf_tree_XE, Hn, Ha, Hk, (no_adj_elems kids He). reflexivity.
Qed.

Lemma attr_ok_utoa k n :
  name_ok k = true -> str_eqb k xmlns_s = false -> attr_ok (k, utoa n) = true.
Proof. intros H1 H2. unfold attr_ok. cbn [fst snd]. now rewrite H1, H2, all_legal_utoa. Qed.

Lemma attr_ok_opt_uint k o :
  name_ok k = true -> str_eqb k xmlns_s = false -> forallb attr_ok (opt_uint_attr k o) = true.
Proof. intros H1 H2. destruct o; [|reflexivity]. cbn [opt_uint_attr forallb]. now rewrite attr_ok_utoa. Qed.

Theorem wf_enc reg v : wf_value reg v = true -> marshals v = true -> wf_doc (enc v) = true.
Proof.
  intros Hwf Hm. destruct v; cbn [wf_value enc marshals] in *.
  - unfold wf_message in Hwf. do 5 (apply andb_true_iff in Hwf as [Hwf ?]).
    destruct (wf_ext_parts reg 1 _ H) as (_ & He & Hw). destruct (enc_err_wf _ H0 Hm) as (E1 & E2).
    unfold enc_message. apply wf_doc_stanza; [reflexivity|now apply wf_enc_attrs| |].
    + now rewrite !forallb_app, !is_elem_opt_elem, E2, He.
    + rewrite !forallb_app, !wf_opt_elem, E1, Hw by (auto; reflexivity). reflexivity.
  - unfold wf_presence in Hwf. do 5 (apply andb_true_iff in Hwf as [Hwf ?]).
    destruct (wf_ext_parts reg 0 _ H) as (_ & He & Hw). destruct (enc_err_wf _ H0 Hm) as (E1 & E2).
    unfold enc_presence. apply wf_doc_stanza; [reflexivity|now apply wf_enc_attrs| |].
    + rewrite !forallb_app, !is_elem_opt_elem, E2, He. now destruct (p_priority p =? 0)%Z.
    + rewrite !forallb_app, !wf_opt_elem, E1, Hw by (auto; reflexivity).
      destruct (p_priority p =? 0)%Z; [reflexivity|].
      cbn [forallb]. rewrite wf_tree_XE.
      pose proof (itoa_nonempty (p_priority p)) as Hne.
      cbn [forallb wf_tree implb]. rewrite all_legal_itoa.
      destruct (itoa (p_priority p)); [congruence|reflexivity].
  - unfold wf_iq in Hwf. do 3 (apply andb_true_iff in Hwf as [Hwf ?]).
    unfold enc_iq. apply wf_doc_stanza; [reflexivity|now apply wf_enc_attrs| |].
    + rewrite !forallb_app. apply andb_true_iff. split; [|apply andb_true_iff; split].
      * destruct (i_payload i) as [t|]; [|reflexivity]. apply andb_true_iff in H1 as [Hx _].
        unfold wf_ext, wf_doc in Hx. apply andb_true_iff in Hx as [Hx _]. apply andb_true_iff in Hx as [Hx _].
        cbn [opt_list forallb]. now rewrite Hx.
      * destruct (i_error i) as [e|]; [|reflexivity]. apply andb_true_iff in H0 as [He _].
        now destruct (enc_err_wf _ He Hm).
      * destruct (i_any i) as [n|]; [|reflexivity]. cbn [opt_list forallb]. now rewrite enc_node_is_elem.
    + rewrite !forallb_app. apply andb_true_iff. split; [|apply andb_true_iff; split].
      * destruct (i_payload i) as [t|]; [|reflexivity]. apply andb_true_iff in H1 as [Hx _].
        unfold wf_ext, wf_doc in Hx. apply andb_true_iff in Hx as [Hx _]. apply andb_true_iff in Hx as [_ Hx].
        cbn [opt_list forallb]. now rewrite Hx.
      * destruct (i_error i) as [e|]; [|reflexivity]. apply andb_true_iff in H0 as [He _].
        now destruct (enc_err_wf _ He Hm).
      * destruct (i_any i) as [n|]; [|reflexivity]. destruct n as [ns l na c ks].
        apply andb_true_iff in H as [H _]. apply andb_true_iff in H as [H _].
        cbn [opt_list forallb]. now rewrite (wf_enc_node _ [] H).
  - unfold wf_doc. now rewrite enc_node_is_elem, (wf_enc_node n [] Hwf).
  - unfold wf_doc. cbn [is_elem is_text negb andb]. rewrite wf_tree_XE.
    rewrite forallb_app, attr_ok_opt_uint by reflexivity. destruct resume as [[|]|]; reflexivity.
  - repeat (apply andb_true_iff in Hwf as [Hwf ?]).
    unfold wf_doc. cbn [is_elem is_text negb andb]. rewrite wf_tree_XE.
    rewrite !forallb_app, !attr_ok_opt by (auto; reflexivity).
    destruct (max =? 0); [reflexivity|]. cbn [forallb]. now rewrite attr_ok_utoa.
  - reflexivity.
  - unfold wf_doc. cbn [is_elem is_text negb andb]. rewrite wf_tree_XE.
    cbn [forallb]. now rewrite attr_ok_utoa.
  - apply andb_true_iff in Hwf as [Hp _].
    unfold wf_doc. cbn [is_elem is_text negb andb]. rewrite wf_tree_XE.
    rewrite forallb_app, attr_ok_opt, attr_ok_opt_uint by (auto; reflexivity). reflexivity.
  - apply andb_true_iff in Hwf as [Hp _].
    unfold wf_doc. cbn [is_elem is_text negb andb]. rewrite wf_tree_XE.
    rewrite forallb_app, attr_ok_opt, attr_ok_opt_uint by (auto; reflexivity). reflexivity.
  - apply andb_true_iff in Hwf as [_ Hc].
    unfold wf_doc. cbn [is_elem is_text negb andb]. rewrite wf_tree_XE.
    rewrite attr_ok_opt_uint by reflexivity.
    destruct cond as [|c0 cr]; [reflexivity|]. cbn [isempty orb] in Hc.
    cbn [forallb]. rewrite wf_tree_XE, (failed_condition_name _ Hc). reflexivity.
  - apply andb_true_iff in Hwf as [Hmech Hp].
    unfold wf_doc. cbn [is_elem is_text negb andb]. rewrite wf_tree_XE.
    rewrite (wf_text_esc _ val Hp).
    cbn [forallb]. unfold attr_ok at 1. cbn [fst snd]. rewrite Hmech.
    destruct val; reflexivity.
  - unfold wf_doc. cbn [is_elem is_text negb andb]. rewrite wf_tree_XE.
    rewrite (wf_text_esc _ val Hwf). destruct val; reflexivity.
Qed.

(* ---- skeletons do not look at text ---- *)
Lemma skeleton_opt_elem name s :
  flat_map skeleton (opt_elem name (blank_str s)) = flat_map skeleton (opt_elem name s).
Proof. now destruct s. Qed.

Lemma skeleton_enc_err e : flat_map skeleton (enc_err (blank_err e)) = flat_map skeleton (enc_err e).
Proof.
  destruct (skeleton_err_tree e) as [He Hs]. unfold enc_err. rewrite He.
  destruct (err_empty e); [reflexivity|]. cbn [flat_map]. fold (err_tree (blank_err e)). fold (err_tree e).
  now rewrite Hs.
Qed.

Theorem skeleton_blank v : skeleton (enc (blank v)) = skeleton (enc v).
Proof.
  destruct v; cbn [blank enc]; try reflexivity.
  - unfold enc_message. cbn [m_attrs m_subject m_body m_thread m_error m_exts].
    rewrite !skeleton_XE, skeleton_attrs, !flat_map_app, !skeleton_opt_elem, skeleton_enc_err. reflexivity.
  - unfold enc_presence. cbn [p_attrs p_show p_status p_priority p_error p_exts].
    rewrite !skeleton_XE, skeleton_attrs, !flat_map_app, !skeleton_opt_elem, skeleton_enc_err. reflexivity.
  - unfold enc_iq. cbn [i_attrs i_payload i_error i_any].
    rewrite !skeleton_XE, skeleton_attrs, !flat_map_app. f_equal. f_equal. f_equal. f_equal.
    + destruct (i_error i); [apply skeleton_enc_err|reflexivity].
    + destruct (i_any i) as [n|]; [|reflexivity]. cbn [option_map opt_list flat_map].
      now rewrite skeleton_blank_node.
  - apply skeleton_blank_node.
  - rewrite !skeleton_XE. f_equal. f_equal. now rewrite !map_app, !map_fst_opt_attr.
  - rewrite !skeleton_XE. f_equal. f_equal. now rewrite !map_app, !map_fst_opt_attr.
  - rewrite !skeleton_XE. f_equal. f_equal. now rewrite !map_app, !map_fst_opt_attr.
  - rewrite !skeleton_XE. f_equal. f_equal. now destruct val.
  - rewrite !skeleton_XE. f_equal. f_equal. now destruct val.
Qed.

(* ================= characters outside the XML range ================= *)
Lemma esc_char_sanitize nl c : esc_char nl (sanitize c) = esc_char nl c.
Proof.
  unfold sanitize. destruct (legal c) eqn:L; [reflexivity|].
  transitivity [replacement]; [now destruct nl|].
  unfold esc_char.
  repeat match goal with |- context [c =? ?k] =>
    let E := fresh "E" in destruct (c =? k) eqn:E;
      [apply N.eqb_eq in E; subst c; discriminate L|] end.
  now rewrite L.
Qed.

Lemma escape_san nl s : escape nl (san s) = escape nl s.
Proof.
  unfold escape, san. induction s as [|c s IH]; [reflexivity|].
  cbn [map flat_map]. now rewrite esc_char_sanitize, IH.
Qed.

Lemma has_nl_san s : has_nl (san s) = has_nl s.
Proof.
  unfold has_nl, has_char, san. induction s as [|c s IH]; [reflexivity|].
  cbn [map existsb]. rewrite IH. f_equal. unfold sanitize.
  destruct (legal c) eqn:L; [reflexivity|].
  destruct (10 =? c) eqn:E; [apply N.eqb_eq in E; subst c; discriminate L|reflexivity].
Qed.

Lemma san_cons c s : san (c :: s) = sanitize c :: san s.
Proof. reflexivity. Qed.

Lemma blank_str_san s : blank_str (san s) = blank_str s.
Proof. now destruct s. Qed.

(* ---- the printed form, piece by piece ---- *)
Definition pa (a : list (str * str)) : str := flat_map print_attr a.
Definition pk (ks : list xtree) : str := flat_map print ks.

Lemma print_toks_app a b : print_toks (a ++ b) = print_toks a ++ print_toks b.
Proof. unfold print_toks. apply flat_map_app. Qed.

Lemma print_toks_kids ks : print_toks (flat_map toks ks) = pk ks.
Proof.
  induction ks as [|k ks IH]; [reflexivity|].
  cbn [flat_map]. rewrite print_toks_app, IH. reflexivity.
Qed.

Lemma print_XE ns l a ks :
  print (XE ns l a ks)
  = (60 :: l ++ pa (raw_attrs ns []) ++ pa a ++ [62]) ++ pk ks ++ 60 :: 47 :: l ++ [62].
Proof.
  unfold print. rewrite toks_XE. unfold print_toks at 1. cbn [flat_map].
  fold (print_toks (flat_map toks ks ++ [TE l])). rewrite print_toks_app, print_toks_kids.
  cbn [print_tok print_toks flat_map]. rewrite app_nil_r. f_equal. unfold pa.
  destruct ns; cbn [raw_attrs flat_map app]; [reflexivity|].
  now rewrite app_nil_r, <- !app_assoc.
Qed.

Lemma print_XE_congr ns l a a' ks ks' :
  pa a = pa a' -> pk ks = pk ks' -> print (XE ns l a ks) = print (XE ns l a' ks').
Proof. intros Ha Hk. now rewrite !print_XE, Ha, Hk. Qed.

Lemma pk_app a b : pk (a ++ b) = pk a ++ pk b.
Proof. apply flat_map_app. Qed.
Lemma pa_app a b : pa (a ++ b) = pa a ++ pa b.
Proof. apply flat_map_app. Qed.

Lemma pa_opt_attr_san k v : pa (opt_attr k (san v)) = pa (opt_attr k v).
Proof.
  destruct v as [|c v]; [reflexivity|]. unfold pa. rewrite san_cons. cbn [opt_attr flat_map].
  rewrite <- san_cons. unfold print_attr. cbn [fst snd]. now rewrite escape_san.
Qed.

Lemma pa_enc_attrs_san a : pa (enc_attrs (san_attrs a)) = pa (enc_attrs a).
Proof.
  unfold enc_attrs, san_attrs. cbn [a_type a_id a_from a_to a_lang].
  now rewrite !pa_app, !pa_opt_attr_san.
Qed.

Lemma print_XT_san raw s : print (XT raw (san s)) = print (XT raw s).
Proof. unfold print. cbn [toks print_toks flat_map print_tok]. now rewrite escape_san. Qed.

Lemma pk_opt_elem_san name s : pk (opt_elem name (san s)) = pk (opt_elem name s).
Proof.
  destruct s as [|c s]; [reflexivity|]. unfold pk. rewrite san_cons. cbn [opt_elem flat_map].
  rewrite <- san_cons. rewrite !app_nil_r. apply print_XE_congr; [reflexivity|].
  unfold pk. cbn [flat_map]. now rewrite print_XT_san.
Qed.

Lemma pk_text_raw_san s : pk (text_raw (san s)) = pk (text_raw s).
Proof.
  destruct s as [|c s]; [reflexivity|]. unfold pk. rewrite san_cons. cbn [text_raw flat_map].
  rewrite <- san_cons. now rewrite has_nl_san, print_XT_san.
Qed.

Lemma pk_text_esc_san s : pk (text_esc (san s)) = pk (text_esc s).
Proof.
  destruct s as [|c s]; [reflexivity|]. unfold pk. rewrite san_cons. cbn [text_esc flat_map].
  rewrite <- san_cons. now rewrite print_XT_san.
Qed.

Lemma isempty_san s : isempty (san s) = isempty s.
Proof. now destruct s. Qed.

Lemma pk_enc_err_san e : pk (enc_err (san_err e)) = pk (enc_err e).
Proof.
  destruct e as [code ty reason text]. unfold enc_err, err_empty, san_err.
  cbn [e_code e_type e_reason e_text]. rewrite !isempty_san.
  destruct ((code =? 0)%Z && isempty ty && isempty reason && isempty text); [reflexivity|].
  unfold pk. cbn [flat_map]. rewrite !app_nil_r. apply print_XE_congr.
  - now rewrite !pa_app, pa_opt_attr_san.
  - rewrite !pk_app. f_equal.
    destruct text as [|tc tx]; [reflexivity|]. rewrite san_cons at 1. cbv iota. rewrite <- san_cons.
    unfold pk. cbn [flat_map]. rewrite !app_nil_r. apply print_XE_congr; [reflexivity|].
    apply pk_text_raw_san.
Qed.

Lemma san_node_eq ns l a c ks :
  san_node (Node ns l a c ks) =
  Node ns l (map (fun kv => (fst kv, san (snd kv))) a) (san c) (map san_node ks).
Proof. reflexivity. Qed.

Lemma pa_san_attrs a : pa (map (fun kv : str * str => (fst kv, san (snd kv))) a) = pa a.
Proof.
  unfold pa. induction a as [|[k v] a IH]; [reflexivity|]. cbn [map flat_map fst snd].
  rewrite IH. f_equal. unfold print_attr. cbn [fst snd]. now rewrite escape_san.
Qed.

Lemma print_san_node n : print (enc_node (san_node n)) = print (enc_node n).
Proof.
  induction n as [ns l a c ks IH] using node_ind'.
  rewrite san_node_eq, !enc_node_eq. apply print_XE_congr; [apply pa_san_attrs|].
  rewrite !pk_app, pk_text_raw_san. f_equal.
  induction IH as [|k ks Hk _ IHk]; [reflexivity|].
  unfold pk in *. cbn [map flat_map]. now rewrite Hk, IHk.
Qed.

(* what is written for v is what is written for sanitize_value v *)
Theorem print_sanitize_value v : print (enc (sanitize_value v)) = print (enc v).
Proof.
  destruct v; cbn [sanitize_value enc]; try reflexivity.
  - unfold enc_message. cbn [m_attrs m_subject m_body m_thread m_error m_exts].
    apply print_XE_congr; [apply pa_enc_attrs_san|].
    now rewrite !pk_app, !pk_opt_elem_san, pk_enc_err_san.
  - unfold enc_presence. cbn [p_attrs p_show p_status p_priority p_error p_exts].
    apply print_XE_congr; [apply pa_enc_attrs_san|].
    now rewrite !pk_app, !pk_opt_elem_san, pk_enc_err_san.
  - unfold enc_iq. cbn [i_attrs i_payload i_error i_any].
    apply print_XE_congr; [apply pa_enc_attrs_san|].
    rewrite !pk_app. f_equal. f_equal.
    + destruct (i_error i); [apply pk_enc_err_san|reflexivity].
    + destruct (i_any i) as [n|]; [|reflexivity]. unfold pk. cbn [option_map opt_list flat_map].
      now rewrite print_san_node.
  - apply print_san_node.
  - apply print_XE_congr; [|reflexivity]. now rewrite !pa_app, !pa_opt_attr_san.
  - apply print_XE_congr; [|reflexivity]. now rewrite !pa_app, !pa_opt_attr_san.
  - apply print_XE_congr; [|reflexivity]. now rewrite !pa_app, !pa_opt_attr_san.
  - apply print_XE_congr; [|apply pk_text_esc_san].
    unfold pa. cbn [flat_map]. unfold print_attr. cbn [fst snd]. now rewrite escape_san.
  - apply print_XE_congr; [reflexivity|apply pk_text_esc_san].
Qed.

Lemma marshals_sanitize v : marshals (sanitize_value v) = marshals v.
Proof.
  destruct v; try reflexivity. cbn [sanitize_value marshals i_error].
  now destruct (i_error i).
Qed.

Lemma blank_san_node n : blank_node (san_node n) = blank_node n.
Proof.
  induction n as [ns l a c ks IH] using node_ind'.
  rewrite san_node_eq, !blank_node_eq, blank_str_san, map_map. f_equal.
  rewrite map_map. induction IH as [|k ks Hk _ IHk]; [reflexivity|].
  cbn [map]. now rewrite Hk, IHk.
Qed.

Lemma blank_san_err e : blank_err (san_err e) = blank_err e.
Proof. destruct e. unfold blank_err, san_err. cbn. now rewrite !blank_str_san. Qed.

Lemma blank_sanitize v : blank (sanitize_value v) = blank v.
Proof.
  destruct v; cbn [sanitize_value blank]; try reflexivity.
  - unfold blank_attrs, san_attrs. cbn. now rewrite !blank_str_san, blank_san_err.
  - unfold blank_attrs, san_attrs. cbn. now rewrite !blank_str_san, blank_san_err.
  - unfold blank_attrs, san_attrs. cbn. rewrite !blank_str_san. f_equal. f_equal.
    + destruct (i_error i); [cbn [option_map]; now rewrite blank_san_err|reflexivity].
    + destruct (i_any i); [cbn [option_map]; now rewrite blank_san_node|reflexivity].
  - now rewrite blank_san_node.
  - now rewrite !blank_str_san.
  - now rewrite !blank_str_san.
  - now rewrite !blank_str_san.
  - now rewrite !blank_str_san.
  - now rewrite !blank_str_san.
Qed.

(* ================= the C01 statements ================= *)
(* through the bytes: what xml.Marshal writes is read back as the tree enc v, that decodes
   to v, and encoding the decoded value gives the same bytes again *)
Theorem roundtrip_wire reg v :
  reg_ok reg = true -> wf_value reg v = true -> marshals v = true ->
  exists t v', parse (print (enc v)) = Some t /\ dec reg (vtype_of v) t = Some v'
               /\ v' = v /\ print (enc v') = print (enc v).
Proof.
  intros Hreg Hwf Hm. exists (enc v), v.
  split; [apply parse_print; now apply (wf_enc reg)|].
  split; [now apply dec_enc|]. auto.
Qed.

Theorem skeleton_text_independent reg v v' :
  wf_value reg v = true -> marshals v = true -> blank v = blank v' ->
  option_map skeleton (parse (print (enc v))) = Some (skeleton (enc v')).
Proof.
  intros Hwf Hm Hb. rewrite (parse_print _ (wf_enc reg v Hwf Hm)). cbn [option_map].
  now rewrite <- (skeleton_blank v), Hb, skeleton_blank.
Qed.

(* the same for text with characters outside the XML range: the domain condition is asked of
   the value with those characters replaced, which is the value the bytes are written for *)
Theorem skeleton_text_independent_any reg v v' :
  wf_value reg (sanitize_value v) = true -> marshals v = true -> blank v = blank v' ->
  option_map skeleton (parse (print (enc v))) = Some (skeleton (enc v')).
Proof.
  intros Hwf Hm Hb. rewrite <- print_sanitize_value.
  apply (skeleton_text_independent reg); [exact Hwf|now rewrite marshals_sanitize|].
  now rewrite blank_sanitize.
Qed.

(* whether xml.Marshal refuses a value does not depend on its texts *)
Lemma marshals_blank v : marshals (blank v) = marshals v.
Proof.
  destruct v; try reflexivity. cbn [blank marshals i_error]. now destruct (i_error i).
Qed.

Theorem marshals_blank_eq v v' : blank v = blank v' -> marshals v = marshals v'.
Proof. intros H. now rewrite <- (marshals_blank v), H, marshals_blank. Qed.
