(* Proofs about Model/Codec.v (under construction). *)
From XV Require Import Lib.Sx Model.Codec.
