(* Proofs about Model/Router.v: first-match routing, matcher semantics, the
   automatic feature-not-implemented reply.  Plain list induction. *)
From Coq Require Import List ZArith NArith Bool Lia.
From XV Require Import Lib.Sx Model.Router.
Import ListNotations.
Open Scope N_scope.

(* ---- strings ---- *)
Lemma str_eqb_eq (a b : str) : str_eqb a b = true <-> a = b.
Proof.
  revert b; induction a as [|x a IH]; intros [|y b]; cbn [str_eqb]; split; intros H;
    try discriminate; try reflexivity.
  - apply andb_true_iff in H as [H1 H2]. apply N.eqb_eq in H1. apply IH in H2.
    subst. reflexivity.
  - injection H as Hx Ha. subst. rewrite N.eqb_refl. cbn [andb]. apply IH. reflexivity.
Qed.

Lemma str_eqb_refl (a : str) : str_eqb a a = true.
Proof. apply str_eqb_eq. reflexivity. Qed.

Lemma str_eqb_neq (a b : str) : str_eqb a b = false <-> a <> b.
Proof.
  split.
  - intros H E. apply str_eqb_eq in E. rewrite E in H. discriminate.
  - intros H. destruct (str_eqb a b) eqn:E; [|reflexivity].
    apply str_eqb_eq in E. contradiction.
Qed.

(* matchInArray is list membership *)
Lemma in_arr_In (l : list str) (v : str) : in_arr l v = true <-> In v l.
Proof.
  induction l as [|s l IH]; cbn [in_arr In].
  - split; [discriminate | tauto].
  - destruct (str_eqb s v) eqn:E.
    + apply str_eqb_eq in E. split; auto.
    + rewrite IH. split; [auto|]. intros [H|H]; [|exact H].
      subst. rewrite str_eqb_refl in E. discriminate.
Qed.

(* ---- Route.Match: conjunction of the matchers ---- *)
Lemma route_match_all (r : route) (p : pkt) :
  route_match r p = true <-> forall m, In m r -> m_match m p = true.
Proof.
  induction r as [|m r IH]; cbn [route_match In].
  - split; [intros _ m [] | reflexivity].
  - destruct (m_match m p) eqn:E.
    + rewrite IH. split.
      * intros H m' [Hm|Hm]; [subst; exact E | apply H; exact Hm].
      * intros H m' Hm. apply H. right. exact Hm.
    + split; [discriminate|]. intros H. rewrite <- E. apply H. left. reflexivity.
Qed.

Lemma route_match_reject (r : route) (p : pkt) :
  route_match r p = false <-> exists m, In m r /\ m_match m p = false.
Proof.
  induction r as [|m r IH]; cbn [route_match In].
  - split; [discriminate | intros [m [[] _]]].
  - destruct (m_match m p) eqn:E.
    + rewrite IH. split.
      * intros [m' [Hin Hm']]. exists m'. split; [right; exact Hin | exact Hm'].
      * intros [m' [[Hin|Hin] Hm']].
        -- subst. rewrite E in Hm'. discriminate.
        -- exists m'. split; assumption.
    + split; [|reflexivity]. intros _. exists m. split; [left; reflexivity | exact E].
Qed.

Lemma empty_route_accepts (p : pkt) : route_match [] p = true.
Proof. reflexivity. Qed.

(* ---- matcher semantics ---- *)
Lemma name_matcher_sem (s : str) (p : pkt) :
  m_match (b_packet s) p = true <-> kind_name p = lower s.
Proof. unfold b_packet. cbn [m_match]. apply str_eqb_eq. Qed.

Lemma type_matcher_sem (l : list str) (p : pkt) :
  m_match (b_stanza_type l) p = true <->
  exists t, stanza_type p = Some t /\ In t (map lower l).
Proof.
  unfold b_stanza_type. cbn [m_match]. destruct (stanza_type p) as [t|].
  - rewrite in_arr_In. split.
    + intros H. exists t. split; [reflexivity | exact H].
    + intros [t' [Ht' Hin]]. injection Ht' as Ht'. subst. exact Hin.
  - split; [discriminate|]. intros [t [Ht _]]. discriminate.
Qed.

Lemma ns_matcher_sem (l : list str) (p : pkt) :
  m_match (b_iq_namespaces l) p = true <->
  exists a ns any n, p = PIQ a ns any /\ iq_namespace ns any = Some n /\ In n l.
Proof.
  unfold b_iq_namespaces. cbn [m_match]. destruct p as [a|a|a ns any|k].
  - split; [discriminate|]. intros [a' [ns' [any' [n [H _]]]]]. discriminate.
  - split; [discriminate|]. intros [a' [ns' [any' [n [H _]]]]]. discriminate.
  - destruct (iq_namespace ns any) as [n|] eqn:E.
    + rewrite in_arr_In. split.
      * intros H. exists a, ns, any, n. split; [reflexivity|]. split; [exact E | exact H].
      * intros [a' [ns' [any' [n' [H [Hn Hin]]]]]]. injection H as Ha Hs Hy. subst.
        rewrite E in Hn. injection Hn as Hn. subst. exact Hin.
    + split; [discriminate|]. intros [a' [ns' [any' [n' [H [Hn _]]]]]].
      injection H as Ha Hs Hy. subst. rewrite E in Hn. discriminate.
  - split; [discriminate|]. intros [a' [ns' [any' [n [H _]]]]]. discriminate.
Qed.

(* the payload namespace: the typed payload's, else the generic node's *)
Lemma iq_namespace_def :
  (forall n any, iq_namespace (Some n) any = Some n) /\
  (forall any, iq_namespace None any = any).
Proof. split; reflexivity. Qed.

(* what the matchers look at *)
Lemma kind_name_def :
  (forall a, kind_name (PMessage a) = s_message) /\
  (forall a, kind_name (PPresence a) = s_presence) /\
  (forall a ns any, kind_name (PIQ a ns any) = s_iq) /\
  (forall k, kind_name (POther k) = []).
Proof. repeat split. Qed.

Lemma stanza_type_def :
  (forall a, a_type a = [] -> stanza_type (PMessage a) = Some s_normal) /\
  (forall a, a_type a <> [] -> stanza_type (PMessage a) = Some (a_type a)) /\
  (forall a, stanza_type (PPresence a) = Some (a_type a)) /\
  (forall a ns any, stanza_type (PIQ a ns any) = Some (a_type a)) /\
  (forall k, stanza_type (POther k) = None).
Proof.
  repeat split.
  - intros a H. cbn [stanza_type]. rewrite H. reflexivity.
  - intros a H. cbn [stanza_type]. destruct (a_type a); [contradiction | reflexivity].
Qed.

(* the lower-casing of builder arguments is ASCII lower-casing and idempotent *)
Lemma lower_byte_idem (c : N) : lower_byte (lower_byte c) = lower_byte c.
Proof.
  unfold lower_byte.
  destruct ((65 <=? c) && (c <=? 90)) eqn:E; [|rewrite E; reflexivity].
  apply andb_true_iff in E as [E1 E2]. apply N.leb_le in E1. apply N.leb_le in E2.
  destruct (65 <=? c + 32) eqn:F1; destruct (c + 32 <=? 90) eqn:F2; cbn [andb]; try reflexivity.
  apply N.leb_le in F2. lia.
Qed.

Lemma lower_idem (s : str) : lower (lower s) = lower s.
Proof.
  unfold lower. rewrite map_map. apply map_ext. intros c. apply lower_byte_idem.
Qed.

(* ---- Router.Match: the first accepting route ---- *)
Definition accepts (t : table) (p : pkt) (i : nat) : Prop :=
  exists r, nth_error t i = Some r /\ route_match r p = true.
Definition rejects (t : table) (p : pkt) (i : nat) : Prop :=
  exists r, nth_error t i = Some r /\ route_match r p = false.
Definition first_accepting (t : table) (p : pkt) (i : nat) : Prop :=
  accepts t p i /\ forall j, (j < i)%nat -> rejects t p j.
Definition none_accepts (t : table) (p : pkt) : Prop :=
  forall j r, nth_error t j = Some r -> route_match r p = false.

Lemma first_accepting_0 (r : route) (t : table) (p : pkt) :
  first_accepting (r :: t) p 0 <-> route_match r p = true.
Proof.
  unfold first_accepting, accepts. cbn [nth_error]. split.
  - intros [[r' [Hr' Hm]] _]. injection Hr' as Hr'. subst. exact Hm.
  - intros H. split; [exists r; split; [reflexivity | exact H] |]. intros j Hj. lia.
Qed.

Lemma first_accepting_S (r : route) (t : table) (p : pkt) (i : nat) :
  first_accepting (r :: t) p (S i) <-> route_match r p = false /\ first_accepting t p i.
Proof.
  unfold first_accepting, accepts, rejects. split.
  - intros [Hacc Hrej]. split; [|split].
    + destruct (Hrej 0%nat ltac:(lia)) as [r' [Hr' Hm]]. cbn [nth_error] in Hr'.
      injection Hr' as Hr'. subst. exact Hm.
    + exact Hacc.
    + intros j Hj. apply (Hrej (S j)). lia.
  - intros [Hr [Hacc Hrej]]. split; [exact Hacc|].
    intros [|j] Hj.
    + exists r. split; [reflexivity | exact Hr].
    + cbn [nth_error]. apply Hrej. lia.
Qed.

Lemma router_match_some (t : table) (p : pkt) :
  forall i, router_match t p = Some i <-> first_accepting t p i.
Proof.
  induction t as [|r t IH]; intros i; cbn [router_match].
  - split; [discriminate|]. intros [[r [Hr _]] _]. destruct i; discriminate.
  - destruct (route_match r p) eqn:E.
    + split.
      * intros H. injection H as H. subst. apply first_accepting_0. exact E.
      * destruct i as [|i]; [reflexivity|]. intros H. apply first_accepting_S in H as [H _].
        rewrite H in E. discriminate.
    + destruct i as [|i].
      * split.
        -- destruct (router_match t p); discriminate.
        -- intros H. apply first_accepting_0 in H. rewrite H in E. discriminate.
      * rewrite first_accepting_S. rewrite <- IH.
        destruct (router_match t p) as [k|].
        -- split.
           ++ intros H. injection H as H. subst. split; [exact E | reflexivity].
           ++ intros [_ H]. injection H as H. subst. reflexivity.
        -- split; [discriminate|]. intros [_ H]. discriminate.
Qed.

Lemma router_match_none (t : table) (p : pkt) :
  router_match t p = None <-> none_accepts t p.
Proof.
  unfold none_accepts. induction t as [|r t IH]; cbn [router_match].
  - split; [|reflexivity]. intros _ j r Hj. destruct j; discriminate.
  - destruct (route_match r p) eqn:E.
    + split; [discriminate|]. intros H. specialize (H 0%nat r eq_refl).
      rewrite H in E. discriminate.
    + destruct (router_match t p) as [k|].
      * split; [discriminate|]. intros H.
        destruct IH as [_ IH]. assert (Hn : Some k = None); [|discriminate].
        apply IH. intros j r' Hj. apply (H (S j)). exact Hj.
      * split; [|reflexivity]. intros _ [|j] r' Hj.
        -- cbn [nth_error] in Hj. injection Hj as Hj. subst. exact E.
        -- cbn [nth_error] in Hj. destruct IH as [IH _]. apply (IH eq_refl j). exact Hj.
Qed.

Lemma first_accepting_unique (t : table) (p : pkt) (i j : nat) :
  first_accepting t p i -> first_accepting t p j -> i = j.
Proof.
  intros Hi Hj. apply router_match_some in Hi. apply router_match_some in Hj.
  rewrite Hi in Hj. injection Hj as Hj. exact Hj.
Qed.

Lemma first_accepting_not_none (t : table) (p : pkt) (i : nat) :
  first_accepting t p i -> none_accepts t p -> False.
Proof.
  intros Hi Hn. apply router_match_some in Hi. apply router_match_none in Hn.
  rewrite Hi in Hn. discriminate.
Qed.

(* ---- Router.route ---- *)
Lemma route_not_pending (t : table) (pend : list str) (p : pkt) :
  pending_hit pend p = false -> do_route t pend p = (route_ordinary t p, pend).
Proof.
  unfold do_route. destruct p as [a|a|a ns any|k]; try reflexivity.
  intros H. rewrite H. reflexivity.
Qed.

Lemma is_response_iff (ty : str) : is_response ty = true <-> ty = s_result \/ ty = s_error.
Proof.
  unfold is_response. rewrite orb_true_iff, !str_eqb_eq. tauto.
Qed.

Lemma pending_hit_iff (pend : list str) (p : pkt) :
  pending_hit pend p = true <->
  exists a ns any, p = PIQ a ns any /\ (a_type a = s_result \/ a_type a = s_error) /\ In (a_id a) pend.
Proof.
  unfold pending_hit. destruct p as [a|a|a ns any|k].
  - split; [discriminate|]. intros [a' [ns' [any' [H _]]]]. discriminate.
  - split; [discriminate|]. intros [a' [ns' [any' [H _]]]]. discriminate.
  - destruct (is_response (a_type a)) eqn:E.
    + apply is_response_iff in E. rewrite in_arr_In. split.
      * intros H. exists a, ns, any. split; [reflexivity|]. split; assumption.
      * intros [a' [ns' [any' [H [_ Hin]]]]]. injection H as Ha Hs Hy. subst. exact Hin.
    + split; [discriminate|]. intros [a' [ns' [any' [H [Ht _]]]]]. injection H as Ha Hs Hy. subst.
      apply is_response_iff in Ht. rewrite Ht in E. discriminate.
  - split; [discriminate|]. intros [a' [ns' [any' [H _]]]]. discriminate.
Qed.

(* a request is never taken for the response to one of our own requests *)
Lemma request_not_pending (pend : list str) (a : attrs) (ns any : option str) :
  a_type a = s_get \/ a_type a = s_set -> pending_hit pend (PIQ a ns any) = false.
Proof.
  intros [H|H]; unfold pending_hit; rewrite H; reflexivity.
Qed.

Lemma route_pending (t : table) (pend : list str) (p : pkt) :
  pending_hit pend p = true ->
  exists a ns any, p = PIQ a ns any /\ In (a_id a) pend /\
    do_route t pend p = ([EDeliver a], remove_id (a_id a) pend).
Proof.
  intros H. pose proof H as H'. apply pending_hit_iff in H' as [a [ns [any [E [_ Hin]]]]].
  exists a, ns, any. subst. split; [reflexivity|]. split; [exact Hin|].
  unfold do_route. rewrite H. reflexivity.
Qed.

Lemma remove_id_spec (id : str) (pend : list str) (x : str) :
  In x (remove_id id pend) <-> In x pend /\ x <> id.
Proof.
  induction pend as [|y pend IH]; cbn [remove_id In].
  - tauto.
  - destruct (str_eqb y id) eqn:E.
    + apply str_eqb_eq in E. subst. rewrite IH. split.
      * intros [H1 H2]. split; [right; exact H1 | exact H2].
      * intros [[H1|H1] H2]; [subst; contradiction | split; assumption].
    + apply str_eqb_neq in E. cbn [In]. rewrite IH. split.
      * intros [H|[H1 H2]]; [subst; split; [left; reflexivity | exact E] | split; [right; exact H1 | exact H2]].
      * intros [[H1|H1] H2]; [left; exact H1 | right; split; assumption].
Qed.

(* first match: the handler log is exactly [first accepting route], else empty *)
Lemma first_match (t : table) (pend : list str) (p : pkt) :
  pending_hit pend p = false ->
  match fst (route_pkt t pend p) with
  | Some i => first_accepting t p i /\ handler_log (fst (do_route t pend p)) = [i]
  | None => none_accepts t p /\ handler_log (fst (do_route t pend p)) = []
  end.
Proof.
  intros Hp. unfold route_pkt. rewrite (route_not_pending t pend p Hp). cbn [fst].
  unfold route_ordinary. destruct (router_match t p) as [i|] eqn:E.
  - cbn. split; [apply router_match_some; exact E | reflexivity].
  - apply router_match_none in E.
    destruct p as [a|a|a ns any|k]; cbn; try (split; [exact E | reflexivity]).
    destruct (is_request (a_type a)); cbn; split; try exact E; reflexivity.
Qed.

Lemma handler_log_first (t : table) (pend : list str) (p : pkt) (i : nat) :
  pending_hit pend p = false ->
  (handler_log (fst (do_route t pend p)) = [i] <-> first_accepting t p i).
Proof.
  intros Hp. pose proof (first_match t pend p Hp) as H.
  destruct (fst (route_pkt t pend p)) as [k|]; destruct H as [H1 H2]; rewrite H2; split.
  - intros E. injection E as E. subst. exact H1.
  - intros Hi. rewrite (first_accepting_unique t p i k Hi H1). reflexivity.
  - discriminate.
  - intros Hi. exfalso. exact (first_accepting_not_none t p i Hi H1).
Qed.

Lemma handler_log_none (t : table) (pend : list str) (p : pkt) :
  pending_hit pend p = false ->
  (handler_log (fst (do_route t pend p)) = [] <-> none_accepts t p).
Proof.
  intros Hp. pose proof (first_match t pend p Hp) as H.
  destruct (fst (route_pkt t pend p)) as [k|]; destruct H as [H1 H2]; rewrite H2; split.
  - discriminate.
  - intros Hn. exfalso. exact (first_accepting_not_none t p k H1 Hn).
  - intros _. exact H1.
  - reflexivity.
Qed.

Lemma handler_log_le_1 (t : table) (pend : list str) (p : pkt) :
  (length (handler_log (fst (do_route t pend p))) <= 1)%nat.
Proof.
  destruct (pending_hit pend p) eqn:Hp.
  - destruct (route_pending t pend p Hp) as [a [ns [any [_ [_ H]]]]]. rewrite H. cbn. lia.
  - pose proof (first_match t pend p Hp) as H.
    destruct (fst (route_pkt t pend p)); destruct H as [_ H]; rewrite H; cbn; lia.
Qed.

(* pending IQ id: handed to the waiting request, routes not consulted *)
Lemma pending_delivery (t : table) (pend : list str) (p : pkt) :
  pending_hit pend p = true ->
  exists a ns any, p = PIQ a ns any /\
    handler_log (fst (do_route t pend p)) = [] /\
    replies (fst (do_route t pend p)) = [] /\
    deliveries (fst (do_route t pend p)) = [a] /\
    (forall x, In x (snd (do_route t pend p)) <-> In x pend /\ x <> a_id a).
Proof.
  intros Hp. destruct (route_pending t pend p Hp) as [a [ns [any [E [_ H]]]]].
  exists a, ns, any. rewrite H. cbn [fst snd].
  split; [exact E|]. split; [reflexivity|]. split; [reflexivity|]. split; [reflexivity|].
  intros x. apply remove_id_spec.
Qed.

Lemma not_pending_no_delivery (t : table) (pend : list str) (p : pkt) :
  pending_hit pend p = false ->
  deliveries (fst (do_route t pend p)) = [] /\ snd (do_route t pend p) = pend.
Proof.
  intros Hp. rewrite (route_not_pending t pend p Hp). cbn [fst snd]. split; [|reflexivity].
  unfold route_ordinary. destruct (router_match t p); [reflexivity|].
  destruct p as [a|a|a ns any|k]; try reflexivity. destruct (is_request (a_type a)); reflexivity.
Qed.

(* ---- the automatic reply ---- *)
Lemma is_request_iff (ty : str) : is_request ty = true <-> ty = s_get \/ ty = s_set.
Proof.
  unfold is_request. rewrite orb_true_iff, !str_eqb_eq. tauto.
Qed.

Lemma auto_reply_unmatched (t : table) (pend : list str) (p : pkt) :
  pending_hit pend p = false -> none_accepts t p ->
  replies (fst (do_route t pend p)) =
    match p with
    | PIQ a ns any => if is_request (a_type a) then [err_reply a] else []
    | _ => []
    end.
Proof.
  intros Hp Hn. rewrite (route_not_pending t pend p Hp). cbn [fst].
  apply router_match_none in Hn. unfold route_ordinary. rewrite Hn.
  destruct p as [a|a|a ns any|k]; try reflexivity.
  destruct (is_request (a_type a)); reflexivity.
Qed.

Lemma auto_reply (t : table) (pend : list str) (p : pkt) :
  pending_hit pend p = false -> none_accepts t p ->
  (forall a ns any, p = PIQ a ns any -> a_type a = s_get \/ a_type a = s_set ->
     replies (fst (do_route t pend p)) = [err_reply a]) /\
  ((forall a ns any, p = PIQ a ns any -> a_type a <> s_get /\ a_type a <> s_set) ->
     replies (fst (do_route t pend p)) = []).
Proof.
  intros Hp Hn. rewrite (auto_reply_unmatched t pend p Hp Hn). split.
  - intros a ns any E Ht. subst. apply is_request_iff in Ht. rewrite Ht. reflexivity.
  - intros H. destruct p as [a|a|a ns any|k]; try reflexivity.
    destruct (is_request (a_type a)) eqn:E; [|reflexivity].
    apply is_request_iff in E. destruct (H a ns any eq_refl) as [H1 H2]. tauto.
Qed.

Lemma matched_no_reply (t : table) (pend : list str) (p : pkt) (i : nat) :
  first_accepting t p i -> replies (fst (do_route t pend p)) = [].
Proof.
  intros Hi. apply router_match_some in Hi.
  destruct (pending_hit pend p) eqn:Hp.
  - destruct (pending_delivery t pend p Hp) as [a [ns [any [_ [_ [H _]]]]]]. exact H.
  - rewrite (route_not_pending t pend p Hp). cbn [fst]. unfold route_ordinary.
    rewrite Hi. reflexivity.
Qed.

Lemma err_reply_fields (a : attrs) :
  a_id (rp_attrs (err_reply a)) = a_id a /\
  a_from (rp_attrs (err_reply a)) = a_to a /\
  a_to (rp_attrs (err_reply a)) = a_from a /\
  a_type (rp_attrs (err_reply a)) = s_error /\
  rp_condition (err_reply a) = Some s_feature_not_implemented.
Proof. repeat split. Qed.

(* route_pkt's reply component is the replies of the trace *)
Lemma route_pkt_replies (t : table) (pend : list str) (p : pkt) :
  snd (route_pkt t pend p) = replies (fst (do_route t pend p)).
Proof. reflexivity. Qed.

(* a response for a request whose context has ended is routed like any other packet *)
Lemma ended_routed (t : table) (pend ended : list str) (p : pkt) :
  pending_hit pend p = false ->
  let '(ev, pend', ended') := do_route_e t pend ended p in
  ev = fst (do_route t pend p) /\ pend' = pend /\ deliveries ev = [] /\
  (pending_hit ended p = true ->
     exists a ns any, p = PIQ a ns any /\ forall x, In x ended' <-> In x ended /\ x <> a_id a) /\
  (pending_hit ended p = false -> ended' = ended).
Proof.
  intros Hp. unfold do_route_e. rewrite Hp.
  pose proof (not_pending_no_delivery t pend p Hp) as [Hd _].
  assert (E : fst (do_route t pend p) = route_ordinary t p).
  { unfold do_route. destruct p as [a|a|a ns any|k]; try reflexivity. rewrite Hp. reflexivity. }
  rewrite E in Hd.
  destruct (pending_hit ended p) eqn:He.
  - split; [symmetry; exact E|]. split; [reflexivity|]. split; [exact Hd|]. split; [|discriminate].
    intros _. apply pending_hit_iff in He as [a [ns [any [Ep _]]]]. subst p.
    exists a, ns, any. split; [reflexivity|]. intros x. apply remove_id_spec.
  - split; [symmetry; exact E|]. split; [reflexivity|]. split; [exact Hd|]. split; [discriminate|reflexivity].
Qed.

Lemma ended_live_first (t : table) (pend ended : list str) (p : pkt) :
  pending_hit pend p = true ->
  do_route_e t pend ended p = (fst (do_route t pend p), snd (do_route t pend p), ended).
Proof. intros Hp. unfold do_route_e. rewrite Hp. reflexivity. Qed.

(* ---- histories: routes registered while the router is in use ---- *)
Lemma router_match_app_some (t t' : table) (p : pkt) (i : nat) :
  router_match t p = Some i -> router_match (t ++ t') p = Some i.
Proof.
  revert i. induction t as [|r t IH]; intros i H; simpl in *; [discriminate|].
  destruct (route_match r p); [exact H|].
  destruct (router_match t p) as [j|] eqn:E; [|discriminate].
  rewrite (IH j eq_refl). exact H.
Qed.

Lemma router_match_app_none (t t' : table) (p : pkt) :
  router_match t p = None ->
  router_match (t ++ t') p =
  match router_match t' p with Some j => Some (length t + j)%nat | None => None end.
Proof.
  induction t as [|r t IH]; intros H; simpl in *.
  - destruct (router_match t' p); reflexivity.
  - destruct (route_match r p); [discriminate|].
    destruct (router_match t p) as [j|] eqn:E; [discriminate|].
    rewrite (IH eq_refl). destruct (router_match t' p); reflexivity.
Qed.

Lemma run_hist_dispatches (t : table) (h : list hop) :
  run_hist t h = map (fun tp => route_ordinary (fst tp) (snd tp)) (dispatches t h).
Proof.
  revert t. induction h as [|o h IH]; intros t; simpl; [reflexivity|].
  destruct o as [r|p ins]; simpl; [apply IH|]. f_equal. apply IH.
Qed.

Lemma dispatches_packets (t : table) (h : list hop) :
  map snd (dispatches t h) = hist_packets h.
Proof.
  revert t. induction h as [|o h IH]; intros t; simpl; [reflexivity|].
  destruct o as [r|p ins]; simpl; [apply IH|]. f_equal. apply IH.
Qed.

Lemma route_ordinary_outcome (t : table) (p : pkt) :
  (exists i, router_match t p = Some i /\ route_ordinary t p = [EHandle i]) \/
  (router_match t p = None /\
   exists a ns any, p = PIQ a ns any /\ is_request (a_type a) = true /\
                    route_ordinary t p = [ESend (err_reply a)]) \/
  (router_match t p = None /\ route_ordinary t p = [] /\
   forall a ns any, p = PIQ a ns any -> is_request (a_type a) = false).
Proof.
  unfold route_ordinary. destruct (router_match t p) as [i|] eqn:E.
  - left. exists i. split; reflexivity.
  - right. destruct p as [a|a|a ns any|k].
    + right. repeat split; intros; discriminate.
    + right. repeat split; intros; discriminate.
    + destruct (is_request (a_type a)) eqn:R.
      * left. split; [reflexivity|]. exists a, ns, any. repeat split; assumption.
      * right. repeat split. intros a' ns' any' H. inversion H; subst. exact R.
    + right. repeat split; intros; discriminate.
Qed.

Lemma hist_one_outcome (t : table) (h : list hop) :
  length (run_hist t h) = length (hist_packets h) /\
  Forall2 (fun tp ev =>
      (exists i, router_match (fst tp) (snd tp) = Some i /\ ev = [EHandle i]) \/
      (router_match (fst tp) (snd tp) = None /\
       exists a ns any, snd tp = PIQ a ns any /\ is_request (a_type a) = true /\
                        ev = [ESend (err_reply a)]) \/
      (router_match (fst tp) (snd tp) = None /\ ev = [] /\
       forall a ns any, snd tp = PIQ a ns any -> is_request (a_type a) = false))
    (dispatches t h) (run_hist t h).
Proof.
  split.
  - rewrite run_hist_dispatches, map_length, <- (dispatches_packets t h), map_length. reflexivity.
  - rewrite run_hist_dispatches. induction (dispatches t h) as [|tp l IH]; simpl; constructor.
    + apply route_ordinary_outcome.
    + exact IH.
Qed.
