(* Lemmas on Model/XmlTree.v: consuming a flattened sub-tree on the token cursor. *)
From Coq Require Import List ZArith NArith Bool Lia.
From XV Require Import Lib.Sx Model.XmlTree.
Import ListNotations.

(* induction over trees with the children list covered *)
Section NodeInd.
  Variable P : node -> Prop.
  Hypothesis Helem : forall n a cs, Forall P cs -> P (NElem n a cs).
  Hypothesis Htext : forall s, P (NText s).
  Hypothesis Hmisc : P NMisc.
  Fixpoint node_ind' (x : node) : P x :=
    match x with
    | NElem n a cs =>
        Helem n a cs
          ((fix go (l : list node) : Forall P l :=
              match l with
              | [] => Forall_nil P
              | c :: l' => Forall_cons c (node_ind' c) (go l')
              end) cs)
    | NText s => Htext s
    | NMisc => Hmisc
    end.
End NodeInd.

Lemma flatten_elem : forall n a cs,
  flatten (NElem n a cs) = TStart n a :: flatten_all cs ++ [TEnd n].
Proof.
  intros n a cs. reflexivity.
Qed.

Lemma flatten_all_cons : forall x l, flatten_all (x :: l) = flatten x ++ flatten_all l.
Proof. reflexivity. Qed.

Lemma flatten_all_app : forall l1 l2,
  flatten_all (l1 ++ l2) = flatten_all l1 ++ flatten_all l2.
Proof. intros. unfold flatten_all. apply flat_map_app. Qed.

Lemma pre_pre : forall p q o, pre p (pre q o) = pre (p ++ q) o.
Proof. intros p q [[i r]|]; cbn; [rewrite app_assoc|]; reflexivity. Qed.

Lemma pre_nil : forall o, pre [] o = o.
Proof. intros [[i r]|]; reflexivity. Qed.

(* a whole node in front of the cursor is passed over at any depth *)
Lemma take_from_flatten : forall x d r,
  take_from d (flatten x ++ r) = pre (flatten x) (take_from d r).
Proof.
  induction x as [n a cs IH| s |] using node_ind'; intros d r.
  - rewrite flatten_elem. cbn [app take_from].
    assert (Hcs : forall d' r', take_from d' (flatten_all cs ++ r')
                                = pre (flatten_all cs) (take_from d' r')).
    { induction IH as [|c cs' Hc _ IHcs]; intros d' r'.
      - cbn. now rewrite pre_nil.
      - rewrite flatten_all_cons, <- app_assoc, Hc, IHcs, pre_pre. reflexivity. }
    rewrite <- app_assoc, Hcs. cbn [app take_from].
    rewrite !pre_pre. cbn [app]. rewrite <- ?app_assoc. reflexivity.
  - reflexivity.
  - reflexivity.
Qed.

Lemma take_from_flatten_all : forall cs d r,
  take_from d (flatten_all cs ++ r) = pre (flatten_all cs) (take_from d r).
Proof.
  induction cs as [|c cs IH]; intros d r.
  - cbn. now rewrite pre_nil.
  - rewrite flatten_all_cons, <- app_assoc, take_from_flatten, IH, pre_pre. reflexivity.
Qed.

(* DecodeElement / Skip after the start tag of an element consume exactly its content
   and end tag, whatever the content is *)
Lemma take_subtree_children : forall cs n r,
  take_subtree (flatten_all cs ++ TEnd n :: r) = Some (flatten_all cs, r).
Proof.
  intros. unfold take_subtree. rewrite take_from_flatten_all. cbn.
  now rewrite app_nil_r.
Qed.

Lemma skip_children : forall cs n r, skip (flatten_all cs ++ TEnd n :: r) = Some r.
Proof. intros. unfold skip. now rewrite take_subtree_children. Qed.

(* consumption makes progress *)
Lemma take_from_len : forall ts d i r,
  take_from d ts = Some (i, r) -> length r < length ts.
Proof.
  induction ts as [|t ts IH]; intros d i r H; [discriminate|].
  destruct t as [n a|n|s|]; cbn [take_from] in H.
  - destruct (take_from (S d) ts) as [[i' r']|] eqn:E; [|discriminate].
    cbn in H. injection H as _ <-. apply IH in E. cbn. lia.
  - destruct d as [|d'].
    + injection H as _ <-. cbn. lia.
    + destruct (take_from d' ts) as [[i' r']|] eqn:E; [|discriminate].
      cbn in H. injection H as _ <-. apply IH in E. cbn. lia.
  - destruct (take_from d ts) as [[i' r']|] eqn:E; [|discriminate].
    cbn in H. injection H as _ <-. apply IH in E. cbn. lia.
  - destruct (take_from d ts) as [[i' r']|] eqn:E; [|discriminate].
    cbn in H. injection H as _ <-. apply IH in E. cbn. lia.
Qed.

Lemma skip_len : forall ts r, skip ts = Some r -> length r < length ts.
Proof.
  unfold skip, take_subtree. intros ts r H.
  destruct (take_from 0 ts) as [[i r']|] eqn:E; [|discriminate].
  injection H as <-. eapply take_from_len; eauto.
Qed.

Lemma flatten_nonempty : forall x, 1 <= length (flatten x).
Proof.
  destruct x; [rewrite flatten_elem|..]; cbn; lia.
Qed.

Lemma flatten_all_len : forall cs, length cs <= length (flatten_all cs).
Proof.
  induction cs as [|c cs IH]; [cbn; lia|].
  rewrite flatten_all_cons, app_length. pose proof (flatten_nonempty c). cbn. lia.
Qed.

(* a proper prefix of an element's content never reaches the matching end tag *)
Lemma take_from_prefix_none : forall p s d i,
  s <> [] -> take_from d (p ++ s) = Some (i, []) -> take_from d p = None.
Proof.
  induction p as [|t p IH]; intros s d i Hs H; [reflexivity|].
  cbn [app] in H. destruct t as [n a|n|x|]; cbn [take_from] in H |- *.
  - destruct (take_from (S d) (p ++ s)) as [[i' r']|] eqn:E; [|discriminate].
    cbn in H. injection H as _ ->. now rewrite (IH s (S d) i' Hs E).
  - destruct d as [|d'].
    + injection H as _ H. destruct p; [contradiction | discriminate].
    + destruct (take_from d' (p ++ s)) as [[i' r']|] eqn:E; [|discriminate].
      cbn in H. injection H as _ ->. now rewrite (IH s d' i' Hs E).
  - destruct (take_from d (p ++ s)) as [[i' r']|] eqn:E; [|discriminate].
    cbn in H. injection H as _ ->. now rewrite (IH s d i' Hs E).
  - destruct (take_from d (p ++ s)) as [[i' r']|] eqn:E; [|discriminate].
    cbn in H. injection H as _ ->. now rewrite (IH s d i' Hs E).
Qed.

Lemma skip_prefix_none : forall cs n p s,
  p ++ s = flatten_all cs ++ [TEnd n] -> s <> [] -> skip p = None.
Proof.
  intros cs n p s H Hs. unfold skip, take_subtree.
  rewrite (take_from_prefix_none p s 0 (flatten_all cs) Hs); [reflexivity|].
  rewrite H. apply take_subtree_children.
Qed.
