(* The printed stream of well-formed trees is read back by C01's lexer and tree builder
   as exactly those trees (list version of C01_parse_print), hence bridges to the token
   stream of the bridged trees. *)
From Coq Require Import List NArith Bool Lia.
From XV Require Import Lib.Sx Model.XmlText Model.XmlPrint Model.XmlLex Model.XmlTree Model.Parser
  Model.XmlBridge Proofs.XmlLexP.
Import ListNotations.

Lemma strip_prefix_app : forall p r, strip_prefix p (p ++ r) = Some r.
Proof.
  induction p as [|x p IH]; intros r; [reflexivity|].
  cbn [app strip_prefix]. now rewrite N.eqb_refl.
Qed.

Lemma strip_suffix_app : forall p a, strip_suffix p (a ++ p) = Some a.
Proof.
  intros p a. unfold strip_suffix. rewrite rev_app_distr, strip_prefix_app.
  now rewrite rev_involutive.
Qed.

Lemma print_toks_app : forall a b, print_toks (a ++ b) = print_toks a ++ print_toks b.
Proof. intros. unfold print_toks. apply flat_map_app. Qed.

Lemma print_list : forall es, flat_map print es = print_toks (toks_list es).
Proof.
  induction es as [|e es IH]; [reflexivity|].
  cbn [flat_map toks_list]. fold (toks_list es). rewrite print_toks_app, <- IH. reflexivity.
Qed.

Lemma wf_doc_parts : forall t, wf_doc t = true -> is_text t = false /\ wf_tree [] t = true.
Proof.
  unfold wf_doc, is_elem. intros t H. apply andb_true_iff in H as [H1 H2].
  split; [now apply negb_true_iff in H1 | exact H2].
Qed.

Lemma toks_list_ok : forall es,
  forallb wf_doc es = true -> forallb tok_ok (toks_list es) = true.
Proof.
  induction es as [|e es IH]; intros H; [reflexivity|].
  cbn [forallb] in H. apply andb_true_iff in H as [He Hes].
  destruct (wf_doc_parts e He) as [_ Hw].
  cbn [toks_list flat_map]. fold (toks_list es).
  rewrite forallb_app, (toks_ok e [] Hw). cbn [andb]. now apply IH.
Qed.

Lemma toks_list_no_adj : forall es,
  forallb wf_doc es = true -> toks_no_adj (toks_list es) = true.
Proof.
  induction es as [|e es IH]; intros H; [reflexivity|].
  cbn [forallb] in H. apply andb_true_iff in H as [He Hes].
  destruct (wf_doc_parts e He) as [Hne Hw].
  cbn [toks_list flat_map]. fold (toks_list es).
  apply (toks_no_adj_tree e (toks_list es) (IH Hes)) with (pns := []); [|exact Hw].
  intros Ht. rewrite Hne in Ht. discriminate.
Qed.

Lemma wf_toks_list : forall es, forallb wf_doc es = true -> wf_toks (toks_list es) = true.
Proof.
  intros es H. unfold wf_toks. now rewrite toks_list_ok, toks_list_no_adj.
Qed.

Lemma build_list : forall es cur,
  forallb wf_doc es = true -> build [] cur (toks_list es) = Some (rev cur ++ es).
Proof.
  induction es as [|e es IH]; intros cur H.
  - cbn. now rewrite app_nil_r.
  - cbn [forallb] in H. apply andb_true_iff in H as [He Hes].
    destruct (wf_doc_parts e He) as [_ Hw].
    cbn [toks_list flat_map]. fold (toks_list es).
    rewrite (build_tree e [] cur (toks_list es) Hw), (IH (e :: cur) Hes).
    cbn [rev]. now rewrite <- app_assoc.
Qed.

(* list version of C01_parse_print: the concatenated prints of well-formed documents are
   split back into exactly those documents *)
Lemma lex_trees_print : forall es,
  forallb wf_doc es = true -> lex_trees (flat_map print es) = Some es.
Proof.
  intros es H. unfold lex_trees. rewrite print_list, (lex_print_toks _ (wf_toks_list es H)).
  now rewrite (build_list es [] H).
Qed.

Lemma stream_tokens_print : forall es,
  forallb wf_doc es = true ->
  stream_tokens (print_stream es) = Some (flatten_all (bridge_trees es) ++ [TEnd stream_name]).
Proof.
  intros es H. unfold stream_tokens, print_stream.
  now rewrite strip_suffix_app, (lex_trees_print es H).
Qed.

Lemma open_stream_tokens_print : forall es,
  forallb wf_doc es = true ->
  open_stream_tokens (print_open_stream es) = Some (flatten_all (bridge_trees es)).
Proof.
  intros es H. unfold open_stream_tokens, print_open_stream. now rewrite (lex_trees_print es H).
Qed.

(* the bridge is a map on trees: an element keeps its namespace, local name, written
   attributes (declaration first) and its children in order *)
Lemma bridge_tree_XE : forall ns l a kids,
  bridge_tree (XE ns l a kids)
  = NElem (utf8 ns, utf8 l) (map bridge_attr (raw_attrs ns a)) (bridge_trees kids).
Proof.
  intros. reflexivity.
Qed.
