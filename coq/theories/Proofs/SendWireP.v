(* C08 composed with the codec: when the data strings handed to Send are what the
   C01 printer writes for element trees, the socket's byte stream of an all-nil
   history is the printed stream of those trees, which C02's reader cuts back into
   exactly those elements (C02_framing_bytes_eof).  Strings are code points here, as
   in the printer; the UTF-8 step is outside both models (see Props/C02.v). *)
From Coq Require Import List ZArith NArith Bool Arith Lia.
From XV Require Import Lib.Sx Model.Queue Model.Send Proofs.SendP
  Model.XmlTree Model.XmlPrint Model.XmlLex Model.XmlBridge Model.Parser Props.C02.
Import ListNotations.

Definition send_tree (t : xtree) : op := OSend (print t) false.

Lemma writes_of_send_trees : forall cfg es, c_conn cfg = CUp ->
  writes_of cfg (map send_tree es) = map print es.
Proof.
  intros cfg es Hup. unfold writes_of. induction es as [|t es IH]; [reflexivity|].
  simpl. rewrite Hup. simpl. rewrite IH. reflexivity.
Qed.

Lemma wire_reparses : forall cfg so lo reg tok (es : list xtree),
  c_conn cfg = CUp -> checks_count cfg = true \/ conforming so ->
  Forall (fun r => r = RNil) (fst (run cfg so lo st0 (map send_tree es))) ->
  forallb wf_doc es = true ->
  forallb (top_ok reg tok) (bridge_trees es) = true ->
  stream so 0 (s_sock (snd (run cfg so lo st0 (map send_tree es)))) = print_open_stream es /\
  option_map (run_packets reg true tok)
    (open_stream_tokens (stream so 0 (s_sock (snd (run cfg so lo st0 (map send_tree es))))))
  = Some (pkts_of (bridge_trees es) ++ [Err EEof]).
Proof.
  intros cfg so lo reg tok es Hup Hc Hnil Hwf Hok.
  assert (E : stream so 0 (s_sock (snd (run cfg so lo st0 (map send_tree es)))) = print_open_stream es).
  { rewrite (wire_stream cfg so lo _ Hc Hnil), (writes_of_send_trees cfg es Hup).
    unfold print_open_stream. symmetry. apply flat_map_concat_map. }
  split; [exact E|]. rewrite E. apply C02_framing_bytes_eof; assumption.
Qed.
