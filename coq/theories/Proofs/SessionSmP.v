(* What one connection does to the stream-management state held on the Client
   ([sm_outcome], Model/SessionSpec.v): nothing held afterwards / a fresh session with an id
   issued on this connection / the old state kept, and then only because nothing was asked
   or the server confirmed exactly the id held.  Used by the history theorems of C09 and C11. *)
From Coq Require Import List ZArith NArith Bool Lia.
From XV Require Import Lib.Sx Model.Session Model.SessionSpec Proofs.SessionSpecP.
Import ListNotations.
Open Scope N_scope.

Lemma reqs_app' a b : reqs (a ++ b) = reqs a ++ reqs b.
Proof. unfold reqs. apply map_app. Qed.

Lemma has_bindb_app a b : has_bindb (a ++ b) = has_bindb a || has_bindb b.
Proof. unfold has_bindb. rewrite reqs_app'. apply existsb_app. Qed.

Lemma has_bindb_in w : has_bindb w = true <-> exists x i, In (RBind x i) (reqs w).
Proof.
  unfold has_bindb. rewrite existsb_exists. split.
  - intros (r & Hin & Hb). destruct r; try discriminate. eauto.
  - intros (x & i & Hin). exists (RBind x i). split; [exact Hin|reflexivity].
Qed.

Lemma has_bindb_false w : has_bindb w = false <-> no_bind w.
Proof.
  split.
  - intros H x i Hin. assert (has_bindb w = true) by (apply has_bindb_in; eauto). congruence.
  - intros H. destruct (has_bindb w) eqn:E; [|reflexivity].
    apply has_bindb_in in E as (x & i & Hin). exfalso. exact (H x i Hin).
Qed.

Lemma issued_cons i s id : issued s id -> issued (i :: s) id.
Proof. intros [r H]. exists r. right. exact H. Qed.
Lemma issued_app pre s id : issued s id -> issued (pre ++ s) id.
Proof. intros [r H]. exists r. apply in_or_app. right. exact H. Qed.
Lemma confirmed_app pre s id : confirmed s id -> confirmed (pre ++ s) id.
Proof. intros (a & b & ->). exists (pre ++ a), b. rewrite app_assoc. reflexivity. Qed.

(* ---------- the steps after a bind: dropped or fresh ---------- *)
Definition fresh_or_dropped (q : persist) (s : list sitem) (x : list out * result * persist) : Prop :=
  (p_sm_id (pst x) = [] /\ (p_inbound (pst x) = 0 \/ p_inbound (pst x) = p_inbound q)) \/
  (issued s (p_sm_id (pst x)) /\ p_inbound (pst x) = 0 /\ p_has_queue (pst x) = true /\ res x = Ok /\
   has_enable (outs x)).

Lemma has_enable_app_r a b : has_enable b -> has_enable (a ++ b).
Proof. intros [x H]. exists x. rewrite reqs_app'. apply in_or_app. right. exact H. Qed.

Lemma enable_fd cfg c q f s sn :
  p_sm_id q = [] -> fresh_or_dropped q s (step_enable cfg c q f s sn).
Proof.
  intros Hq. unfold fresh_or_dropped, step_enable, pst, res, outs.
  destruct (f_sm f && p_sm_enable q); [|left; split; [exact Hq|right; reflexivity]].
  destruct s as [|i s']; [left; split; [exact Hq|right; reflexivity]|].
  destruct i; try (left; split; [exact Hq|right; reflexivity]).
  - right. cbn. repeat split.
    + exists r. left. reflexivity.
    + exists (resume_wish cfg q). left. reflexivity.
  - left. split; [reflexivity|left; reflexivity].
Qed.

Lemma session_fd cfg c q f s sn :
  p_sm_id q = [] -> fresh_or_dropped q s (step_session cfg c q f s sn).
Proof.
  intros Hq. unfold step_session. destruct (f_sess f); try (apply enable_fd; exact Hq).
  destruct s as [|i s']; [left; split; [exact Hq|right; reflexivity]|].
  destruct i; try (left; split; [exact Hq|right; reflexivity]).
  destruct t; try (left; split; [exact Hq|right; reflexivity]).
  pose proof (enable_fd cfg c (set_bind q (p_bind_jid q) (p_packet_id q + 1)) f s' [SIq TResult pl err] Hq) as H.
  unfold fresh_or_dropped, pst, res, outs in *. destruct (step_enable _ _ _ _ _ _) as [[w r] p2]. cbn [fst snd] in *.
  destruct H as [H|(H1 & H2 & H3 & H4 & H5)]; [left; exact H|right].
  repeat split; try assumption; [apply issued_cons; exact H1|apply has_enable_app_r; exact H5].
Qed.

Lemma bind_fd cfg c q f s sn :
  p_sm_id q = [] -> fresh_or_dropped q s (step_bind cfg c q f s sn).
Proof.
  intros Hq. unfold step_bind.
  destruct s as [|i s']; [left; split; [exact Hq|right; reflexivity]|].
  destruct i; try (left; split; [exact Hq|right; reflexivity]).
  destruct t; try (left; split; [exact Hq|right; reflexivity]).
  destruct pl; try (left; split; [exact Hq|right; reflexivity]).
  pose proof (session_fd cfg c (set_bind q jid (p_packet_id q + 1)) f s' [SIq TResult (PlBind jid) err] Hq) as H.
  unfold fresh_or_dropped, pst, res, outs in *. destruct (step_session _ _ _ _ _ _) as [[w r] p2]. cbn [fst snd] in *.
  destruct H as [H|(H1 & H2 & H3 & H4 & H5)]; [left; exact H|right].
  repeat split; try assumption; [apply issued_cons; exact H1|apply has_enable_app_r; exact H5].
Qed.

Lemma bind_has_bind cfg c q f s sn : has_bindb (outs (step_bind cfg c q f s sn)) = true.
Proof.
  unfold step_bind, outs.
  destruct s as [|i s']; [reflexivity|].
  destruct i; try reflexivity. destruct t; try reflexivity. destruct pl; try reflexivity.
  destruct (step_session _ _ _ _ _ _) as [[w r] p2]. cbn [fst]. rewrite has_bindb_app. reflexivity.
Qed.

Lemma bind_emits' cfg c p f s sn :
  exists w', reqs (outs (step_bind cfg c p f s sn)) = RBind (c_resource cfg) (p_packet_id p + 1) :: w'.
Proof.
  unfold step_bind, outs.
  destruct s as [|i s']; [eexists; reflexivity|].
  destruct i; try (eexists; reflexivity). destruct t; try (eexists; reflexivity).
  destruct pl; try (eexists; reflexivity).
  destruct (step_session _ _ _ _ _ _) as [[w r] p2]. cbn [fst]. rewrite reqs_app'. eexists; reflexivity.
Qed.

(* ---------- resume ---------- *)
Lemma has_resume_head c id h sn (w : list out) : has_resume (o c (RResume id h) sn :: w).
Proof. exists id, h. left. reflexivity. Qed.

Lemma resume_outcome cfg c p f s sn :
  let x := step_resume cfg c p f s sn in sm_outcome p s (outs x) (res x) (pst x).
Proof.
  cbn zeta. unfold step_resume.
  destruct (f_sm f && negb (str_eqb (p_sm_id p) [])) eqn:E.
  - (* a <resume/> is sent *)
    assert (Hclr : sm_outcome p s [o c (RResume (p_sm_id p) (p_inbound p)) sn] (Err false false) (clear_sm p)).
    { left. split; [reflexivity|]. split; [left; reflexivity|]. left. left. apply has_resume_head. }
    assert (Hcut : conn_lost s = true ->
              sm_outcome p s [o c (RResume (p_sm_id p) (p_inbound p)) sn] (Err false false) p).
    { intros Hc. right; right. unfold sm_kept. repeat split.
      intros _. right. split; [discriminate|left; exact Hc]. }
    destruct s as [|i s']; [apply Hcut; reflexivity|].
    destruct i; try apply Hclr; [| |apply Hcut; reflexivity].
    + destruct (str_eqb previd (p_sm_id p)) eqn:Ei; [|apply Hclr].
      right; right. apply str_eqb_eq in Ei. subst previd.
      unfold sm_kept, outs, res, pst. cbn [fst snd]. repeat split.
      intros _. left. split; [reflexivity|]. exists [], s'. reflexivity.
    + pose proof (bind_fd cfg c (clear_sm p) f s' [SFailed] eq_refl) as Hfd.
      pose proof (bind_has_bind cfg c (clear_sm p) f s' [SFailed]) as Hb.
      unfold fresh_or_dropped, outs, res, pst in *.
      destruct (step_bind _ _ _ _ _ _) as [[w r] p2]. cbn [fst snd] in *.
      destruct Hfd as [[H Hi]|(H1 & H2 & H3 & H4 & H5)].
      * left. split; [exact H|]. split; [left; destruct Hi as [Hi|Hi]; exact Hi|].
        left. left. apply has_resume_head.
      * right; left. unfold sm_fresh. repeat split; try assumption;
          try (apply issued_cons; exact H1); try (rewrite has_bindb_app, Hb; apply orb_true_r).
        apply has_enable_app_r. exact H5.
  - pose proof (bind_fd cfg c (if f_sm f then p else clear_sm p) f s sn) as Hfd.
    pose proof (bind_has_bind cfg c (if f_sm f then p else clear_sm p) f s sn) as Hb.
    destruct (f_sm f) eqn:Ef.
    + cbn in E. apply negb_false_iff in E. apply str_eqb_eq in E.
      specialize (Hfd E). unfold fresh_or_dropped in Hfd.
      destruct Hfd as [[H Hi]|(H1 & H2 & H3 & H4 & H5)].
      * left. split; [exact H|]. split.
        -- destruct Hi as [Hi|Hi]; [left; exact Hi|right; split; assumption].
        -- left. right. exact Hb.
      * right; left. repeat split; assumption.
    + specialize (Hfd eq_refl). unfold fresh_or_dropped in Hfd.
      destruct Hfd as [[H Hi]|(H1 & H2 & H3 & H4 & H5)].
      * left. split; [exact H|]. split; [left; destruct Hi as [Hi|Hi]; exact Hi|]. left. right. exact Hb.
      * right; left. repeat split; assumption.
Qed.

(* ---------- lifting through what precedes the resume step ---------- *)
Lemma has_resume_app_r a b : has_resume b -> has_resume (a ++ b).
Proof. intros (x & h & H). exists x, h. rewrite reqs_app'. apply in_or_app. right. exact H. Qed.

Lemma unanswered_app pre s :
  (conn_lost s = true -> unanswered (pre ++ s)) -> unanswered s -> unanswered (pre ++ s).
Proof.
  intros Hc [H|(a & f & rest & -> & Hr)]; [exact (Hc H)|].
  right. exists (pre ++ a), f, rest. rewrite app_assoc. split; [reflexivity|exact Hr].
Qed.

Lemma outcome_lift p pre_s pre_w s w r p1 :
  has_bindb pre_w = false -> (forall prev h, ~ In (RResume prev h) (reqs pre_w)) ->
  (conn_lost s = true -> unanswered (pre_s ++ s)) ->
  sm_outcome p s w r p1 -> sm_outcome p (pre_s ++ s) (pre_w ++ w) r p1.
Proof.
  intros Hb Hr Hun [(H1 & H2 & H3)|[(H1 & H2 & H3 & H4 & H5 & H6)|(H1 & H2 & H3 & H4 & H5)]].
  - left. split; [exact H1|]. split; [exact H2|].
    destruct H3 as [[H3|H3]|H3]; [left; left; apply has_resume_app_r; exact H3| |right; exact H3].
    left; right. rewrite has_bindb_app, H3. apply orb_true_r.
  - right; left. unfold sm_fresh. repeat split; try assumption;
      try (apply issued_app; exact H1); try (rewrite has_bindb_app, H5; apply orb_true_r).
    apply has_enable_app_r. exact H6.
  - right; right.
    assert (Hres : has_resume (pre_w ++ w) -> has_resume w).
    { intros (prev & h & Hin). rewrite reqs_app' in Hin. apply in_app_or in Hin as [Hin|Hin].
      - exfalso. exact (Hr prev h Hin).
      - exists prev, h. exact Hin. }
    unfold sm_kept. split; [exact H1|]. split; [exact H2|]. split; [exact H3|].
    split; [rewrite has_bindb_app, Hb, H4; reflexivity|].
    intros Hh. apply Hres in Hh. destruct (H5 Hh) as [[Hok Hc]|[Hne Hu]].
    + left. split; [exact Hok|apply confirmed_app; exact Hc].
    + right. split; [exact Hne|apply unanswered_app; assumption].
Qed.

Lemma outcome_same q p s w r p1 :
  p_sm_id q = p_sm_id p -> p_inbound q = p_inbound p -> p_has_queue q = p_has_queue p ->
  sm_outcome q s w r p1 -> sm_outcome p s w r p1.
Proof.
  intros E1 E2 E3 [H|[H|(H1 & H2 & H3 & H4 & H5)]]; [left|right; left; exact H|right; right].
  - unfold sm_dropped in *. rewrite <- E1, <- E2. exact H.
  - unfold sm_kept. rewrite <- E1, <- E2, <- E3.
    split; [exact H1|]. split; [exact H2|]. split; [exact H3|]. split; [exact H4|exact H5].
Qed.

(* a negotiation that stops before the resume step, leaving the state as it was *)
Lemma outcome_untouched p s (w : list out) r :
  has_bindb w = false -> (forall prev h, ~ In (RResume prev h) (reqs w)) ->
  sm_outcome p s w r p.
Proof.
  intros Hb Hr. right; right. unfold sm_kept. repeat split; try reflexivity; try exact Hb.
  intros (prev & h & Hin). exfalso. exact (Hr prev h Hin).
Qed.

Ltac no_resume := let H := fresh in intros ? ? H; cbn in H; repeat (destruct H as [H|H]; [discriminate|]); exact H.

Lemma cut_after_features pre f s : conn_lost s = true -> unanswered ((pre ++ [SFeatures f]) ++ s).
Proof. intros H. right. exists pre, f, s. rewrite <- app_assoc. split; [reflexivity|exact H]. Qed.

Lemma auth_outcome cfg c p f s sn :
  let x := step_auth cfg c p f s sn in sm_outcome p s (outs x) (res x) (pst x).
Proof.
  cbn zeta. unfold step_auth.
  destruct (choose_mech _ _) as [m|]; [|apply outcome_untouched; [reflexivity|no_resume]].
  destruct (negb (implemented m)); [apply outcome_untouched; [reflexivity|no_resume]|].
  destruct s as [|i s1]; [apply outcome_untouched; [reflexivity|no_resume]|].
  destruct i; try (apply outcome_untouched; [reflexivity|no_resume]).
  destruct s1 as [|i1 s2]; [apply outcome_untouched; [reflexivity|no_resume]|].
  destruct i1; try (apply outcome_untouched; [reflexivity|no_resume]).
  cbn [read_header].
  destruct s2 as [|i2 s3]; [apply outcome_untouched; [reflexivity|no_resume]|].
  destruct i2; try (apply outcome_untouched; [reflexivity|no_resume]).
  cbn [read_features].
  pose proof (resume_outcome cfg c p f0 s3 [SHeader id; SFeatures f0]) as H. cbn zeta in H.
  unfold outs, res, pst in *. destruct (step_resume _ _ _ _ _ _) as [[w r] p2]. cbn [fst snd] in *.
  apply (outcome_lift p [SSuccess; SHeader id; SFeatures f0] _ s3 w r p2); [reflexivity|no_resume| |exact H].
  apply (cut_after_features [SSuccess; SHeader id] f0 s3).
Qed.

Lemma connect_outcome cfg dial tls p s :
  let x := connect cfg dial tls p s in sm_outcome p s (outs x) (res x) (pst x).
Proof.
  cbn zeta. unfold connect.
  destruct (negb dial); [apply outcome_untouched; [reflexivity|no_resume]|].
  assert (Hkeep0 : forall q (w : list out) r, p_sm_id q = p_sm_id p -> p_inbound q = p_inbound p ->
            p_has_queue q = p_has_queue p -> has_bindb w = false ->
            (forall prev h, ~ In (RResume prev h) (reqs w)) ->
            sm_outcome p s w r q).
  { intros q w r E1 E2 E3 Hb Hr. apply (outcome_same q); try assumption.
    apply outcome_untouched; assumption. }
  destruct s as [|i s1]; [apply Hkeep0; try reflexivity; no_resume|].
  destruct i; try (apply Hkeep0; try reflexivity; no_resume).
  cbn [read_header].
  destruct s1 as [|i1 s2]; [apply Hkeep0; try reflexivity; no_resume|].
  destruct i1; try (apply Hkeep0; try reflexivity; no_resume).
  cbn [read_features].
  set (pa := set_flags (set_flags p false (p_tls_enabled p)) false false).
  assert (Hauth : forall chan q ff ss sn pre (pre_w : list out),
            p_sm_id q = p_sm_id p -> p_inbound q = p_inbound p -> p_has_queue q = p_has_queue p ->
            has_bindb pre_w = false -> (forall prev h, ~ In (RResume prev h) (reqs pre_w)) ->
            forall w r p2, step_auth cfg chan q ff ss sn = (w, r, p2) ->
            sm_outcome p ((pre ++ [SFeatures ff]) ++ ss) (pre_w ++ w) r p2).
  { intros chan q ff ss sn pre pre_w E1 E2 E3 Hb Hr w r p2 E.
    pose proof (auth_outcome cfg chan q ff ss sn) as H. cbn zeta in H.
    unfold outs, res, pst in H. rewrite E in H. cbn [fst snd] in H.
    apply outcome_lift; [exact Hb|exact Hr|apply cut_after_features|]. eapply outcome_same; eassumption. }
  assert (Hkeep : forall q (w : list out) r, p_sm_id q = p_sm_id p -> p_inbound q = p_inbound p ->
            p_has_queue q = p_has_queue p -> has_bindb w = false ->
            (forall prev h, ~ In (RResume prev h) (reqs w)) ->
            sm_outcome p (SHeader id :: SFeatures f :: s2) w r q).
  { intros q w r E1 E2 E3 Hb Hr. apply (outcome_same q); try assumption.
    apply outcome_untouched; assumption. }
  destruct (f_tls f).
  - destruct (c_insecure cfg); [|apply Hkeep; try reflexivity; no_resume].
    destruct (step_auth _ _ _ _ _ _) as [[w r] p2] eqn:E. unfold outs, res, pst. cbn [fst snd].
    apply (Hauth _ _ _ _ _ [SHeader id] [o false ROpen []]) in E; try reflexivity; [exact E|no_resume].
  - destruct s2 as [|i2 s3].
    { cbn [read_proceed]. destruct (c_insecure cfg); unfold outs, res, pst; cbn [fst snd];
        apply Hkeep; try reflexivity; no_resume. }
    destruct i2; cbn [read_proceed];
      try (destruct (c_insecure cfg); unfold outs, res, pst; cbn [fst snd]; apply Hkeep; try reflexivity; no_resume).
    destruct tls.
    2: { destruct (c_insecure cfg); unfold outs, res, pst; cbn [fst snd]; apply Hkeep; try reflexivity; no_resume. }
    destruct s3 as [|i3 s4].
    { unfold outs, res, pst. cbn [fst snd read_header]. apply Hkeep; try reflexivity. no_resume. }
    destruct i3; try (unfold outs, res, pst; cbn [fst snd read_header]; apply Hkeep; try reflexivity; no_resume).
    cbn [read_header]. destruct s4 as [|i4 s5].
    { unfold outs, res, pst. cbn [fst snd read_features]. apply Hkeep; try reflexivity. no_resume. }
    destruct i4; try (unfold outs, res, pst; cbn [fst snd read_features]; apply Hkeep; try reflexivity; no_resume).
    cbn [read_features].
    destruct (step_auth _ _ _ _ _ _) as [[w r] p2] eqn:E. unfold outs, res, pst. cbn [fst snd].
    apply (Hauth _ _ _ _ _ [SHeader id; SFeatures f; SProceed; SHeader id0]
             (([o false ROpen []] ++ [o false RStartTls [SHeader id; SFeatures f]]) ++ [o true ROpen [SProceed]])) in E;
      try reflexivity; [exact E|no_resume].
  - destruct s2 as [|i2 s3].
    { cbn [read_proceed]. destruct (c_insecure cfg); unfold outs, res, pst; cbn [fst snd];
        apply Hkeep; try reflexivity; no_resume. }
    destruct i2; cbn [read_proceed];
      try (destruct (c_insecure cfg); unfold outs, res, pst; cbn [fst snd]; apply Hkeep; try reflexivity; no_resume).
    destruct tls.
    2: { destruct (c_insecure cfg); unfold outs, res, pst; cbn [fst snd]; apply Hkeep; try reflexivity; no_resume. }
    destruct s3 as [|i3 s4].
    { unfold outs, res, pst. cbn [fst snd read_header]. apply Hkeep; try reflexivity. no_resume. }
    destruct i3; try (unfold outs, res, pst; cbn [fst snd read_header]; apply Hkeep; try reflexivity; no_resume).
    cbn [read_header]. destruct s4 as [|i4 s5].
    { unfold outs, res, pst. cbn [fst snd read_features]. apply Hkeep; try reflexivity. no_resume. }
    destruct i4; try (unfold outs, res, pst; cbn [fst snd read_features]; apply Hkeep; try reflexivity; no_resume).
    cbn [read_features].
    destruct (step_auth _ _ _ _ _ _) as [[w r] p2] eqn:E. unfold outs, res, pst. cbn [fst snd].
    apply (Hauth _ _ _ _ _ [SHeader id; SFeatures f; SProceed; SHeader id0]
             (([o false ROpen []] ++ [o false RStartTls [SHeader id; SFeatures f]]) ++ [o true ROpen [SProceed]])) in E;
      try reflexivity; [exact E|no_resume].
Qed.

(* ---------- the application's wish for stream management is never taken away ----------
   Config.StreamManagementEnable is not changed by any connection; the wish for RESUMPTION
   (Config.streamManagementResume) is only ever cleared, by an <enabled/> that does not
   grant it. *)
Definition wish_kept (p q : persist) : Prop :=
  p_sm_enable q = p_sm_enable p /\ (p_resume_refused p = true -> p_resume_refused q = true).

Lemma wish_refl p : wish_kept p p.
Proof. split; auto. Qed.
Lemma wish_trans p q r : wish_kept p q -> wish_kept q r -> wish_kept p r.
Proof. intros [A B] [C D]. split; [congruence|auto]. Qed.

Lemma enable_wish cfg c p f s sn : wish_kept p (pst (step_enable cfg c p f s sn)).
Proof.
  unfold step_enable, pst. destruct (f_sm f && p_sm_enable p); [|apply wish_refl].
  destruct s as [|i s']; [apply wish_refl|]. destruct i; try apply wish_refl; split; cbn; auto.
  destruct r; auto.
Qed.

Lemma session_wish cfg c p f s sn : wish_kept p (pst (step_session cfg c p f s sn)).
Proof.
  unfold step_session. destruct (f_sess f); try apply enable_wish.
  destruct s as [|i s']; [split; cbn; auto|]. destruct i; try (split; cbn; auto; fail).
  destruct t; try (split; cbn; auto; fail).
  pose proof (enable_wish cfg c (set_bind p (p_bind_jid p) (p_packet_id p + 1)) f s' [SIq TResult pl err]) as H.
  unfold pst in *. destruct (step_enable _ _ _ _ _ _) as [[w r] p2]. exact H.
Qed.

Lemma bind_wish cfg c p f s sn : wish_kept p (pst (step_bind cfg c p f s sn)).
Proof.
  unfold step_bind. destruct s as [|i s']; [split; cbn; auto|]. destruct i; try (split; cbn; auto; fail).
  destruct t; try (split; cbn; auto; fail). destruct pl; try (split; cbn; auto; fail).
  pose proof (session_wish cfg c (set_bind p jid (p_packet_id p + 1)) f s' [SIq TResult (PlBind jid) err]) as H.
  unfold pst in *. destruct (step_session _ _ _ _ _ _) as [[w r] p2]. exact H.
Qed.

Lemma resume_wish_kept cfg c p f s sn : wish_kept p (pst (step_resume cfg c p f s sn)).
Proof.
  unfold step_resume. destruct (f_sm f && negb (str_eqb (p_sm_id p) [])).
  - destruct s as [|i s']; [split; cbn; auto|]. destruct i; try (split; cbn; auto; fail).
    + destruct (str_eqb previd (p_sm_id p)); split; cbn; auto.
    + pose proof (bind_wish cfg c (clear_sm p) f s' [SFailed]) as H.
      unfold pst in *. destruct (step_bind _ _ _ _ _ _) as [[w r] p2]. exact H.
  - pose proof (bind_wish cfg c (if f_sm f then p else clear_sm p) f s sn) as H.
    destruct (f_sm f); exact H.
Qed.

Lemma auth_wish cfg c p f s sn : wish_kept p (pst (step_auth cfg c p f s sn)).
Proof.
  unfold step_auth. destruct (choose_mech _ _) as [m|]; [|apply wish_refl].
  destruct (negb (implemented m)); [apply wish_refl|].
  destruct s as [|i s1]; [apply wish_refl|]. destruct i; try apply wish_refl.
  destruct (read_header s1) as [[id s2]|]; [|apply wish_refl].
  destruct (read_features s2) as [[f2 s3]|]; [|apply wish_refl].
  pose proof (resume_wish_kept cfg c p f2 s3 [SHeader id; SFeatures f2]) as H.
  unfold pst in *. destruct (step_resume _ _ _ _ _ _) as [[w r] p2]. exact H.
Qed.

Lemma connect_wish cfg dial tls p s : wish_kept p (pst (connect cfg dial tls p s)).
Proof.
  unfold connect. destruct (negb dial); [apply wish_refl|].
  destruct (read_header s) as [[id s1]|]; [|split; cbn; auto].
  destruct (read_features s1) as [[f s2]|]; [|split; cbn; auto].
  assert (Hauth : forall chan q ff ss sn, wish_kept p q -> wish_kept p (pst (step_auth cfg chan q ff ss sn))).
  { intros chan q ff ss sn Hq. eapply wish_trans; [exact Hq|apply auth_wish]. }
  destruct (f_tls f).
  - destruct (c_insecure cfg); [|split; cbn; auto].
    pose proof (Hauth false (with_session (set_flags (set_flags p false (p_tls_enabled p)) false false)) f s2
                  [SHeader id; SFeatures f] (conj eq_refl (fun H => H))) as H.
    unfold pst in *. destruct (step_auth _ _ _ _ _ _) as [[w r] p2]. exact H.
  - destruct (read_proceed s2) as [s3|]; [|destruct (c_insecure cfg); split; cbn; auto].
    destruct tls; [|destruct (c_insecure cfg); split; cbn; auto].
    destruct (read_header s3) as [[id1 s4]|]; [|split; cbn; auto].
    destruct (read_features s4) as [[f1 s5]|]; [|split; cbn; auto].
    pose proof (Hauth true (with_session (set_flags (set_flags (set_flags p false (p_tls_enabled p)) false false) true true)) f1 s5
                  [SHeader id1; SFeatures f1] (conj eq_refl (fun H => H))) as H.
    unfold pst in *. destruct (step_auth _ _ _ _ _ _) as [[w r] p2]. exact H.
  - destruct (read_proceed s2) as [s3|]; [|destruct (c_insecure cfg); split; cbn; auto].
    destruct tls; [|destruct (c_insecure cfg); split; cbn; auto].
    destruct (read_header s3) as [[id1 s4]|]; [|split; cbn; auto].
    destruct (read_features s4) as [[f1 s5]|]; [|split; cbn; auto].
    pose proof (Hauth true (with_session (set_flags (set_flags (set_flags p false (p_tls_enabled p)) false false) true true)) f1 s5
                  [SHeader id1; SFeatures f1] (conj eq_refl (fun H => H))) as H.
    unfold pst in *. destruct (step_auth _ _ _ _ _ _) as [[w r] p2]. exact H.
Qed.

(* ... over a whole history: the state before any connection of the history still carries the wish *)
Lemma run_conns_wish cfg cs : forall p i x,
  nth_error (run_conns cfg p cs) i = Some x -> wish_kept p (snd x).
Proof.
  induction cs as [|c cs IH]; intros p i x H; [destruct i; discriminate|].
  cbn [run_conns] in H. pose proof (connect_wish cfg (k_dial c) (k_tls c) p (k_script c)) as Hc.
  unfold pst in Hc. destruct (connect cfg (k_dial c) (k_tls c) p (k_script c)) as [[w r] p1]. cbn [snd] in Hc.
  assert (Hp2 : wish_kept p (match r with Ok => add_inbound p1 (k_traffic c) | Err _ _ => p1 end))
    by (destruct r; exact Hc).
  destruct i as [|i]; cbn in H.
  - inversion H; subst. exact Hp2.
  - eapply wish_trans; [exact Hp2|]. eapply IH. exact H.
Qed.
