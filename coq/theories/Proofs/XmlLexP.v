(* Proofs about Model/XmlLex.v: lexing the printed tokens gives the tokens back,
   building trees from flattened trees gives the trees back. *)
From Coq Require Import List NArith Bool Lia.
From XV Require Import Lib.Sx Model.XmlText Model.XmlPrint Model.XmlLex Proofs.XmlTextP.
Import ListNotations.
Open Scope N_scope.

(* ---- induction principle for the nested type ---- *)
Fixpoint xtree_ind' (P : xtree -> Prop)
  (HT : forall raw s, P (XT raw s))
  (HE : forall ns l a kids, Forall P kids -> P (XE ns l a kids))
  (t : xtree) : P t :=
  match t with
  | XT raw s => HT raw s
  | XE ns l a kids =>
      HE ns l a kids
        ((fix go (ks : list xtree) : Forall P ks :=
            match ks with
            | [] => Forall_nil P
            | k :: ks' => Forall_cons k (xtree_ind' P HT HE k) (go ks')
            end) kids)
  end.

Lemma str_eqb_refl s : str_eqb s s = true.
Proof. induction s as [|c s IH]; [reflexivity|]. cbn [str_eqb]. now rewrite N.eqb_refl, IH. Qed.

Lemma str_eqb_eq a : forall b, str_eqb a b = true -> a = b.
Proof.
  induction a as [|x a IH]; intros [|y b] H; try discriminate; [reflexivity|].
  cbn [str_eqb] in H. apply andb_true_iff in H as [H1 H2].
  apply N.eqb_eq in H1. subst y. f_equal. now apply IH.
Qed.

(* ---- unfolding the nested fixpoints ---- *)
Lemma toks_XE ns l a kids :
  toks (XE ns l a kids) = TS l (raw_attrs ns a) :: flat_map toks kids ++ [TE l].
Proof.
  reflexivity.
Qed.

Lemma wf_tree_XE pns ns l a kids :
  wf_tree pns (XE ns l a kids) =
  name_ok l && all_legal ns && (nonempty ns || isempty pns)
  && forallb attr_ok a && no_adj kids && forallb (wf_tree ns) kids.
Proof.
  reflexivity.
Qed.

Lemma skeleton_XE ns l a kids :
  skeleton (XE ns l a kids) = [SK ns l (map fst a) (flat_map skeleton kids)].
Proof.
  reflexivity.
Qed.

(* ---- split_on / break_at ---- *)
Lemma split_on_hit c r :
  split_on c (c :: r) = ([], fst (split_on c r) :: snd (split_on c r)).
Proof. cbn [split_on]. destruct (split_on c r) as [p ps]. now rewrite N.eqb_refl. Qed.

Lemma split_on_miss c x r :
  (x =? c) = false ->
  split_on c (x :: r) = (x :: fst (split_on c r), snd (split_on c r)).
Proof. intros H. cbn [split_on]. destruct (split_on c r) as [p ps]. now rewrite H. Qed.

Lemma split_on_app_no c a b :
  nochar c a = true ->
  split_on c (a ++ b) = (a ++ fst (split_on c b), snd (split_on c b)).
Proof.
  induction a as [|x a IH]; intros H.
  - cbn [app]. now destruct (split_on c b).
  - rewrite nochar_cons in H. apply andb_true_iff in H as [Hx Ha].
    cbn [app split_on]. rewrite (IH Ha). apply negb_true_iff in Hx. now rewrite Hx.
Qed.

Lemma split_on_no c a : nochar c a = true -> split_on c a = (a, []).
Proof.
  intros H. rewrite <- (app_nil_r a) at 1. rewrite split_on_app_no by exact H.
  cbn. now rewrite app_nil_r.
Qed.

Lemma break_at_app c a b :
  nochar c a = true -> (b = [] \/ exists b', b = c :: b') ->
  break_at c (a ++ b) = (a, b).
Proof.
  induction a as [|x a IH]; intros H Hb.
  - cbn [app]. destruct Hb as [->|[b' ->]]; [reflexivity|].
    cbn [break_at]. now rewrite N.eqb_refl.
  - rewrite nochar_cons in H. apply andb_true_iff in H as [Hx Ha].
    cbn [app break_at]. apply negb_true_iff in Hx. rewrite Hx.
    now rewrite (IH Ha Hb).
Qed.

(* ---- names ---- *)
Lemma name_stop_not_name : forallb (fun c => negb (name_char c)) name_stop = true.
Proof. vm_compute. reflexivity. Qed.

Lemma name_char_stop c x : name_char x = true -> In c name_stop -> (x =? c) = false.
Proof.
  intros H Hin. destruct (x =? c) eqn:E; [|reflexivity]. apply N.eqb_eq in E. subst x.
  pose proof name_stop_not_name as Hs. rewrite forallb_forall in Hs.
  specialize (Hs c Hin). rewrite H in Hs. discriminate.
Qed.

Lemma name_start_char c : name_start c = true -> name_char c = true.
Proof. unfold name_start, name_char. now intros ->. Qed.

Lemma name_ok_chars s : name_ok s = true -> forallb name_char s = true.
Proof.
  destruct s as [|x r]; [discriminate|]. cbn [name_ok forallb]. intros H.
  apply andb_true_iff in H as [Hx Hr]. now rewrite (name_start_char x Hx), Hr.
Qed.

Lemma name_ok_nochar c s : name_ok s = true -> In c name_stop -> nochar c s = true.
Proof.
  intros H Hin. apply name_ok_chars in H.
  unfold nochar. rewrite forallb_forall in H |- *. intros y Hy.
  now rewrite (name_char_stop c y (H y Hy) Hin).
Qed.

Lemma name_ok_head s : name_ok s = true -> exists x r, s = x :: r /\ name_char x = true.
Proof.
  destruct s as [|x r]; [discriminate|]. cbn [name_ok]. intros H.
  apply andb_true_iff in H as [H _]. exists x, r. split; [reflexivity|now apply name_start_char].
Qed.

Ltac in_stop := unfold name_stop; cbn [In]; tauto.

(* ---- attributes ---- *)
Lemma print_attr_eq k v :
  print_attr (k, v) = (32 :: k ++ [61]) ++ 34 :: escape true v ++ 34 :: [].
Proof. unfold print_attr. cbn [fst snd app]. now rewrite <- !app_assoc. Qed.

Lemma key_of_ok k : name_ok k = true -> key_of (32 :: k ++ [61]) = Some k.
Proof.
  intros Hk. cbn [key_of]. rewrite N.eqb_refl.
  rewrite (break_at_app 61 k [61]); [|apply name_ok_nochar; [exact Hk|in_stop]|right; now exists []].
  now rewrite str_eqb_refl, Hk.
Qed.

Definition rattr_ok (kv : str * str) : bool := name_ok (fst kv) && all_legal (snd kv).

Lemma nochar_print_attr c kv :
  rattr_ok kv = true -> In c [60; 62] -> nochar c (print_attr kv) = true.
Proof.
  destruct kv as [k v]. unfold rattr_ok. cbn [fst snd]. intros H Hc.
  apply andb_true_iff in H as [Hk Hv].
  unfold print_attr. cbn [fst snd]. rewrite nochar_cons, !nochar_app.
  rewrite (name_ok_nochar c k Hk) by (cbn [In] in Hc; destruct Hc as [<-|[<-|[]]]; in_stop).
  rewrite (escape_nochar c true v) by (cbn [In] in Hc; destruct Hc as [<-|[<-|[]]]; reflexivity).
  cbn [In] in Hc. destruct Hc as [<-|[<-|[]]]; reflexivity.
Qed.

Lemma attrs_of_print a :
  forallb rattr_ok a = true ->
  attrs_of (fst (split_on 34 (flat_map print_attr a))) (snd (split_on 34 (flat_map print_attr a)))
  = Some a.
Proof.
  induction a as [|[k v] a IH]; intros H; [reflexivity|].
  cbn [forallb] in H. apply andb_true_iff in H as [Hkv Ha].
  unfold rattr_ok in Hkv. cbn [fst snd] in Hkv. apply andb_true_iff in Hkv as [Hk Hv].
  cbn [flat_map]. rewrite print_attr_eq, <- app_assoc.
  rewrite split_on_app_no.
  2:{ rewrite nochar_cons, nochar_app. rewrite (name_ok_nochar 34 k Hk) by in_stop. reflexivity. }
  cbn [app]. rewrite split_on_hit. cbn [fst snd]. rewrite app_nil_r.
  rewrite <- app_assoc. rewrite split_on_app_no by (apply escape_nochar; reflexivity).
  cbn [app]. rewrite split_on_hit. cbn [fst snd]. rewrite app_nil_r.
  cbn [attrs_of]. rewrite (key_of_ok k Hk), (unescape_escape true v Hv), (IH Ha). reflexivity.
Qed.

Lemma flat_print_attr_head a :
  flat_map print_attr a = [] \/ exists b, flat_map print_attr a = 32 :: b.
Proof. destruct a as [|kv a]; [now left|right]. cbn [flat_map]. unfold print_attr. eexists. reflexivity. Qed.

(* ---- tags ---- *)
Definition tag_body (t : tok) : str :=
  match t with
  | TS l a => l ++ flat_map print_attr a
  | TE l => 47 :: l
  | TX _ _ => []
  end.

Lemma print_tag t : tok_is_text t = false -> print_tok t = 60 :: tag_body t ++ [62].
Proof.
  destruct t as [l a|l|raw s]; [| |discriminate]; intros _; cbn [print_tok tag_body].
  - now rewrite app_assoc.
  - reflexivity.
Qed.

Lemma nochar_flat_map {A} c (f : A -> str) (l : list A) :
  (forall x, In x l -> nochar c (f x) = true) -> nochar c (flat_map f l) = true.
Proof.
  induction l as [|x l IH]; intros H; [reflexivity|].
  cbn [flat_map]. rewrite nochar_app, H by now left.
  rewrite IH; [reflexivity|]. intros y Hy. apply H. now right.
Qed.

Lemma nochar_tag_body c t :
  tok_ok t = true -> tok_is_text t = false -> In c [60; 62] -> nochar c (tag_body t) = true.
Proof.
  assert (Hstop : In c [60; 62] -> In c name_stop).
  { cbn [In]. intros [<-|[<-|[]]]; in_stop. }
  destruct t as [l a|l|raw s]; [| |discriminate]; cbn [tok_ok tag_body]; intros H _ Hc.
  - apply andb_true_iff in H as [Hl Ha]. rewrite nochar_app.
    rewrite (name_ok_nochar c l Hl (Hstop Hc)).
    apply nochar_flat_map. intros kv Hkv. apply nochar_print_attr; [|exact Hc].
    rewrite forallb_forall in Ha. now apply Ha.
  - rewrite nochar_cons, (name_ok_nochar c l H (Hstop Hc)).
    cbn [In] in Hc. destruct Hc as [<-|[<-|[]]]; reflexivity.
Qed.

Lemma lex_tag_body t :
  tok_ok t = true -> tok_is_text t = false -> lex_tag (tag_body t) = Some t.
Proof.
  destruct t as [l a|l|raw s]; [| |discriminate]; cbn [tok_ok tag_body]; intros H _.
  - apply andb_true_iff in H as [Hl Ha].
    destruct (name_ok_head l Hl) as (x & r & -> & Hx).
    cbn [app lex_tag]. rewrite (name_char_stop 47 x Hx) by in_stop.
    change (x :: r ++ flat_map print_attr a) with ((x :: r) ++ flat_map print_attr a).
    rewrite (break_at_app 32 (x :: r) (flat_map print_attr a)).
    2:{ apply name_ok_nochar; [exact Hl|in_stop]. }
    2:{ destruct (flat_print_attr_head a) as [->|[b ->]]; [now left|right; now exists b]. }
    pose proof (attrs_of_print a Ha) as Hat.
    destruct (split_on 34 (flat_map print_attr a)) as [kp qs]. cbn [fst snd] in Hat.
    now rewrite Hl, Hat.
  - cbn [lex_tag]. rewrite N.eqb_refl. now rewrite H.
Qed.

(* ---- text ---- *)
Lemma lex_text_escape raw s :
  tok_ok (TX raw s) = true -> lex_text (escape (negb raw) s) = Some [TX raw s].
Proof.
  cbn [tok_ok]. intros H. apply andb_true_iff in H as [H Hraw]. apply andb_true_iff in H as [Hne Hl].
  unfold lex_text.
  destruct (escape (negb raw) s) as [|e0 er] eqn:E.
  { exfalso. apply (escape_nonempty (negb raw) s); [destruct s; [discriminate|congruence]|exact E]. }
  rewrite <- E. rewrite (unescape_escape _ s Hl).
  destruct raw; cbn [negb].
  - rewrite escape_raw_lf. cbn [implb] in Hraw. now rewrite Hraw.
  - now rewrite escape_nl_no_lf.
Qed.

(* the character data a printed token list starts with *)
Definition lead (ts : list tok) : str :=
  match ts with TX raw s :: _ => escape (negb raw) s | _ => [] end.

Lemma wf_toks_cons t ts :
  wf_toks (t :: ts) = true ->
  tok_ok t = true /\ wf_toks ts = true /\
  (tok_is_text t = true -> match ts with t' :: _ => tok_is_text t' = false | [] => True end).
Proof.
  unfold wf_toks. cbn [forallb toks_no_adj]. intros H.
  apply andb_true_iff in H as [H Hadj]. apply andb_true_iff in H as [Ht Hts].
  destruct ts as [|t' ts'].
  - repeat split; auto.
  - apply andb_true_iff in Hadj as [Hn Hadj']. repeat split; auto.
    + now rewrite Hts, Hadj'.
    + intros Htt. rewrite Htt in Hn. cbn [andb] in Hn. now apply negb_true_iff in Hn.
Qed.

Lemma split_lead ts :
  wf_toks ts = true -> fst (split_on 60 (print_toks ts)) = lead ts.
Proof.
  destruct ts as [|t ts]; [reflexivity|]. intros H.
  destruct (wf_toks_cons t ts H) as (Ht & Hts & Hadj).
  unfold print_toks. cbn [flat_map].
  destruct t as [l a|l|raw s].
  - cbn [print_tok app lead]. rewrite split_on_hit. reflexivity.
  - cbn [print_tok app lead]. rewrite split_on_hit. reflexivity.
  - cbn [print_tok lead]. rewrite split_on_app_no by (apply escape_nochar; reflexivity).
    cbn [fst]. specialize (Hadj eq_refl).
    destruct ts as [|t' ts']; [cbn; now rewrite app_nil_r|].
    cbn [flat_map]. rewrite (print_tag t' Hadj). cbn [app]. rewrite split_on_hit.
    cbn [fst]. now rewrite app_nil_r.
Qed.

Lemma nochar_lead c ts : wf_toks ts = true -> In c [60; 62] -> nochar c (lead ts) = true.
Proof.
  destruct ts as [|[l a|l|raw s] ts]; intros H Hc; try reflexivity.
  cbn [lead]. apply escape_nochar. cbn [In] in Hc. destruct Hc as [<-|[<-|[]]]; reflexivity.
Qed.

Lemma lex_text_lead ts :
  wf_toks ts = true ->
  lex_text (lead ts) = Some (match ts with TX raw s :: _ => [TX raw s] | _ => [] end).
Proof.
  destruct ts as [|[l a|l|raw s] ts]; intros H; try reflexivity.
  destruct (wf_toks_cons _ _ H) as (Ht & _ & _). cbn [lead]. now apply lex_text_escape.
Qed.

(* the pieces after the leading text lex to the tokens after the leading text *)
Lemma lex_pieces_print ts :
  wf_toks ts = true ->
  lex_pieces (snd (split_on 60 (print_toks ts)))
  = Some (match ts with TX _ _ :: ts' => ts' | _ => ts end).
Proof.
  induction ts as [|t ts IH]; intros H; [reflexivity|].
  destruct (wf_toks_cons t ts H) as (Ht & Hts & Hadj).
  specialize (IH Hts).
  assert (Htag : forall t0, tok_is_text t0 = false -> tok_ok t0 = true ->
            lex_pieces (snd (split_on 60 (print_toks (t0 :: ts)))) = Some (t0 :: ts)).
  { intros t0 Htx Hok. unfold print_toks. cbn [flat_map]. rewrite (print_tag t0 Htx).
    cbn [app]. rewrite split_on_hit. cbn [snd].
    rewrite <- app_assoc. cbn [app].
    rewrite split_on_app_no by (apply nochar_tag_body; [exact Hok|exact Htx|cbn; tauto]).
    rewrite (split_on_miss 60 62) by reflexivity.
    cbn [fst snd lex_pieces].
    fold (print_toks ts). rewrite (split_lead ts Hts).
    rewrite split_on_app_no by (apply nochar_tag_body; [exact Hok|exact Htx|cbn; tauto]).
    rewrite split_on_hit. cbn [fst snd].
    rewrite (split_on_no 62 (lead ts)) by (apply nochar_lead; [exact Hts|cbn; tauto]).
    cbn [fst snd]. rewrite app_nil_r.
    rewrite (lex_tag_body t0 Hok Htx), (lex_text_lead ts Hts), IH.
    destruct ts as [|[l a|l|raw s] ts']; reflexivity. }
  destruct t as [l a|l|raw s].
  - now apply Htag.
  - now apply Htag.
  - unfold print_toks. cbn [flat_map print_tok].
    rewrite split_on_app_no by (apply escape_nochar; reflexivity).
    cbn [snd]. fold (print_toks ts). rewrite IH.
    specialize (Hadj eq_refl). destruct ts as [|[l a|l|raw' s'] ts']; try reflexivity. discriminate.
Qed.

Theorem lex_print_toks ts : wf_toks ts = true -> lex (print_toks ts) = Some ts.
Proof.
  intros H. unfold lex.
  pose proof (split_lead ts H) as H1. pose proof (lex_pieces_print ts H) as H2.
  destruct (split_on 60 (print_toks ts)) as [p0 ps]. cbn [fst snd] in H1, H2.
  rewrite H1, (lex_text_lead ts H), H2.
  destruct ts as [|[l a|l|raw s] ts']; reflexivity.
Qed.

(* ---- trees: tokens of a well-formed tree are well-formed ---- *)
Lemma attr_ok_rattr a : forallb attr_ok a = true -> forallb rattr_ok a = true.
Proof.
  intros H. rewrite forallb_forall in H |- *. intros kv Hkv. specialize (H kv Hkv).
  unfold attr_ok in H. unfold rattr_ok.
  apply andb_true_iff in H as [H Hv]. apply andb_true_iff in H as [Hk _]. now rewrite Hk, Hv.
Qed.

Lemma name_ok_xmlns : name_ok xmlns_s = true.
Proof. reflexivity. Qed.

Lemma toks_ok t : forall pns, wf_tree pns t = true -> forallb tok_ok (toks t) = true.
Proof.
  induction t as [raw s|ns l a kids IH] using xtree_ind'; intros pns H.
  - cbn [toks forallb tok_ok]. cbn [wf_tree] in H. now rewrite H.
  - rewrite wf_tree_XE in H. repeat (apply andb_true_iff in H as [H ?]).
    rewrite toks_XE. cbn [forallb]. rewrite forallb_app. cbn [forallb tok_ok].
    rewrite H, !andb_true_r.
    apply andb_true_iff. split.
    + pose proof (attr_ok_rattr a H2) as Ha. fold rattr_ok.
      unfold raw_attrs. destruct ns as [|n0 ns']; [exact Ha|].
      cbn [forallb andb]. unfold rattr_ok at 1. cbn [fst snd]. now rewrite name_ok_xmlns, H4, Ha.
    + clear -IH H0. induction kids as [|k ks IHk]; [reflexivity|].
      cbn [flat_map forallb] in *. rewrite forallb_app.
      apply andb_true_iff in H0 as [Hk Hks]. inversion IH as [|? ? IHk0 IHks]; subst.
      rewrite (IHk0 ns Hk). now apply IHk.
Qed.

Lemma no_adj_cons_tag t ts : tok_is_text t = false -> toks_no_adj (t :: ts) = toks_no_adj ts.
Proof. intros H. cbn [toks_no_adj]. destruct ts as [|t' ts']; [reflexivity|]. now rewrite H. Qed.

Definition head_not_text (ts : list tok) : Prop :=
  match ts with t :: _ => tok_is_text t = false | [] => True end.

Lemma toks_head_elem t : is_text t = false -> forall r, head_not_text (toks t ++ r).
Proof. destruct t; [|discriminate]. intros _ r. rewrite toks_XE. reflexivity. Qed.

Lemma toks_no_adj_tree t : forall rest,
  toks_no_adj rest = true -> (is_text t = true -> head_not_text rest) ->
  (forall pns, wf_tree pns t = true -> toks_no_adj (toks t ++ rest) = true).
Proof.
  induction t as [raw s|ns l a kids IH] using xtree_ind'; intros rest Hrest Hhead pns H.
  - cbn [toks app toks_no_adj]. destruct rest as [|t' rest']; [reflexivity|].
    specialize (Hhead eq_refl). cbn [head_not_text] in Hhead. now rewrite Hhead, Hrest.
  - rewrite wf_tree_XE in H. repeat (apply andb_true_iff in H as [H ?]).
    rewrite toks_XE. cbn [app]. rewrite no_adj_cons_tag by reflexivity.
    rewrite <- app_assoc. cbn [app].
    assert (Hrest' : toks_no_adj (TE l :: rest) = true) by now rewrite no_adj_cons_tag.
    clear -IH H0 H1 Hrest'. revert H0 H1.
    induction kids as [|k ks IHk]; intros Hwf Hadj; [exact Hrest'|].
    cbn [flat_map forallb] in *. apply andb_true_iff in Hwf as [Hk Hks].
    inversion IH as [|? ? IHk0 IHks]; subst. rewrite <- app_assoc.
    apply (IHk0 _) with (pns := ns); [| |exact Hk].
    + apply IHk; [exact IHks|exact Hks|].
      cbn [no_adj] in Hadj. destruct ks as [|k' ks']; [reflexivity|].
      now apply andb_true_iff in Hadj as [_ Hadj].
    + intros Htx. cbn [no_adj] in Hadj. destruct ks as [|k' ks']; [reflexivity|].
      apply andb_true_iff in Hadj as [Hn _]. rewrite Htx in Hn. cbn [andb] in Hn.
      apply negb_true_iff in Hn. cbn [flat_map]. rewrite <- app_assoc.
      now apply toks_head_elem.
Qed.

Lemma wf_toks_tree pns t : wf_tree pns t = true -> wf_toks (toks t) = true.
Proof.
  intros H. unfold wf_toks. rewrite (toks_ok t pns H). cbn [andb].
  rewrite <- (app_nil_r (toks t)). apply (toks_no_adj_tree t [] eq_refl (fun _ => I) pns H).
Qed.

(* ---- tokens -> trees ---- *)
Lemma no_xmlns_attr_ok a : forallb attr_ok a = true -> no_xmlns a = true.
Proof.
  intros H. unfold no_xmlns. rewrite forallb_forall in H |- *. intros kv Hkv.
  specialize (H kv Hkv). unfold attr_ok in H.
  apply andb_true_iff in H as [H _]. now apply andb_true_iff in H as [_ H].
Qed.

Lemma build_tree t : forall stk cur r,
  wf_tree (inherited stk) t = true ->
  build stk cur (toks t ++ r) = build stk (t :: cur) r.
Proof.
  induction t as [raw s|ns l a kids IH] using xtree_ind'; intros stk cur r H.
  - reflexivity.
  - rewrite wf_tree_XE in H. repeat (apply andb_true_iff in H as [H ?]).
    rewrite toks_XE. cbn [app build].
    assert (Hstep : (match raw_attrs ns a with
                     | (k, v) :: a0 => if str_eqb k xmlns_s then (v, a0) else (inherited stk, raw_attrs ns a)
                     | [] => (inherited stk, raw_attrs ns a)
                     end) = (ns, a)).
    { unfold raw_attrs. destruct ns as [|n0 ns'].
      - assert (Hi : inherited stk = []).
        { cbn [nonempty orb] in H3. now destruct (inherited stk). }
        rewrite Hi. destruct a as [|[k v] a0]; [reflexivity|].
        cbn [forallb] in H2. apply andb_true_iff in H2 as [Hkv _]. unfold attr_ok in Hkv.
        cbn [fst] in Hkv. apply andb_true_iff in Hkv as [Hkv _]. apply andb_true_iff in Hkv as [_ Hkv].
        apply negb_true_iff in Hkv. now rewrite Hkv.
      - now rewrite str_eqb_refl. }
    rewrite Hstep. rewrite (no_xmlns_attr_ok a H2).
    rewrite <- app_assoc. cbn [app].
    assert (Hforest : forall cur', build ((ns, l, a, cur) :: stk) cur' (flat_map toks kids ++ TE l :: r)
                       = build ((ns, l, a, cur) :: stk) (rev kids ++ cur') (TE l :: r)).
    { clear -IH H0. induction kids as [|k ks IHk]; intros cur'; [reflexivity|].
      cbn [flat_map forallb] in *. apply andb_true_iff in H0 as [Hk Hks].
      inversion IH as [|? ? IHk0 IHks]; subst. rewrite <- app_assoc.
      rewrite IHk0 by exact Hk. rewrite (IHk IHks Hks). cbn [rev]. now rewrite <- app_assoc. }
    rewrite Hforest. cbn [build]. rewrite str_eqb_refl, app_nil_r, rev_involutive. reflexivity.
Qed.

Theorem parse_print t : wf_doc t = true -> parse (print t) = Some t.
Proof.
  unfold wf_doc. intros H. apply andb_true_iff in H as [He H].
  unfold parse, print. rewrite (lex_print_toks _ (wf_toks_tree [] t H)).
  rewrite <- (app_nil_r (toks t)). rewrite (build_tree t [] [] [] H).
  cbn [build rev app]. destruct t; [reflexivity|discriminate].
Qed.
