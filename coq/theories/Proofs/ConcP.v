(* Proofs about the interleaving model of the pending-IQ table (Model/Conc.v): an
   inductive invariant over every schedule, and from it no-panic, at-most-once
   delivery, right owner, no blocked routing goroutine, conservation of responses,
   early responses and responses racing with cancellation. *)
From Coq Require Import List ZArith NArith Bool Lia Arith Permutation.
From XV Require Import Lib.Sx Model.Conc.
Import ListNotations.

(* ------------------------------------------------------------------ *)
(* lists: upd, nth_error                                               *)

Lemma nth_error_upd {A} (l : list A) n m f :
  nth_error (upd l n f) m = if Nat.eqb m n then option_map f (nth_error l m) else nth_error l m.
Proof.
  revert n m; induction l as [|x l IH]; intros n m.
  - destruct n as [|n], m as [|m]; cbn; try reflexivity; destruct (Nat.eqb m n); reflexivity.
  - destruct n as [|n], m as [|m]; cbn; try reflexivity. apply IH.
Qed.

Lemma nth_error_upd_same {A} (l : list A) n f x :
  nth_error l n = Some x -> nth_error (upd l n f) n = Some (f x).
Proof. intros H. rewrite nth_error_upd, Nat.eqb_refl, H. reflexivity. Qed.

Lemma nth_error_upd_other {A} (l : list A) n m f :
  m <> n -> nth_error (upd l n f) m = nth_error l m.
Proof. intros H. rewrite nth_error_upd. apply Nat.eqb_neq in H. rewrite H. reflexivity. Qed.

Lemma nth_error_upd_inv {A} (l : list A) n m f y :
  nth_error (upd l n f) m = Some y ->
  (m = n /\ exists x, nth_error l n = Some x /\ y = f x) \/ (m <> n /\ nth_error l m = Some y).
Proof.
  rewrite nth_error_upd. destruct (Nat.eqb m n) eqn:E.
  - apply Nat.eqb_eq in E. subst m. destruct (nth_error l n) as [x|]; cbn; intros H; [|discriminate].
    left. split; [reflexivity|]. exists x. split; [reflexivity|]. congruence.
  - apply Nat.eqb_neq in E. intros H. right. split; assumption.
Qed.

Lemma length_upd {A} (l : list A) n f : length (upd l n f) = length l.
Proof.
  revert n; induction l as [|x l IH]; intros [|n]; cbn; try reflexivity. rewrite IH. reflexivity.
Qed.

Lemma upd_none {A} (l : list A) n f : nth_error l n = None -> upd l n f = l.
Proof.
  revert n; induction l as [|x l IH]; intros [|n]; cbn; intros H; try reflexivity; try discriminate.
  rewrite IH by exact H. reflexivity.
Qed.

Lemma upd_split {A} (l : list A) n f x :
  nth_error l n = Some x -> exists l1 l2, l = l1 ++ x :: l2 /\ upd l n f = l1 ++ f x :: l2.
Proof.
  revert n; induction l as [|y l IH]; intros [|n]; cbn; intros H; try discriminate.
  - injection H as ->. exists [], l. split; reflexivity.
  - destruct (IH n H) as (l1 & l2 & E1 & E2). exists (y :: l1), l2. cbn. rewrite <- E1, E2. split; reflexivity.
Qed.

Lemma nth_error_snoc_inv {A} (l : list A) x n y :
  nth_error (l ++ [x]) n = Some y ->
  (n < length l /\ nth_error l n = Some y) \/ (n = length l /\ y = x).
Proof.
  intros H. destruct (Nat.lt_ge_cases n (length l)) as [L|L].
  - left. split; [exact L|]. rewrite nth_error_app1 in H by exact L. exact H.
  - right. rewrite nth_error_app2 in H by exact L.
    destruct (n - length l) as [|d] eqn:E; cbn in H.
    + split; [lia|congruence].
    + destruct d; discriminate.
Qed.

Lemma nth_error_snoc_old {A} (l : list A) x n y :
  nth_error l n = Some y -> nth_error (l ++ [x]) n = Some y.
Proof.
  intros H. rewrite nth_error_app1; [exact H|]. apply nth_error_Some. congruence.
Qed.

Lemma nth_error_snoc_new {A} (l : list A) x : nth_error (l ++ [x]) (length l) = Some x.
Proof. rewrite nth_error_app2 by lia. rewrite Nat.sub_diag. reflexivity. Qed.

Lemma nth_error_lt {A} (l : list A) n x : nth_error l n = Some x -> n < length l.
Proof. intros H. apply nth_error_Some. congruence. Qed.

(* ------------------------------------------------------------------ *)
(* the table: lookup, remove_id, remove_chan                           *)

Lemma lookup_In i t c : lookup i t = Some c -> In (i, c) t.
Proof.
  induction t as [|[j d] t IH]; cbn; intros H; [discriminate|].
  destruct (N.eqb i j) eqn:E.
  - apply N.eqb_eq in E. left. congruence.
  - right. apply IH. exact H.
Qed.

Lemma lookup_remove_id_same i t : lookup i (remove_id i t) = None.
Proof.
  induction t as [|[j d] t IH]; cbn; [reflexivity|].
  destruct (N.eqb i j) eqn:E; [exact IH|]. cbn. rewrite E. exact IH.
Qed.

Lemma lookup_remove_id_other i j t : i <> j -> lookup i (remove_id j t) = lookup i t.
Proof.
  intros N. induction t as [|[j' d] t IH]; cbn; [reflexivity|].
  destruct (N.eqb j j') eqn:E.
  - apply N.eqb_eq in E. subst j'. apply N.eqb_neq in N. rewrite N. exact IH.
  - cbn. rewrite IH. reflexivity.
Qed.

Lemma lookup_remove_chan_other i c d t :
  lookup i t = Some c -> d <> c -> lookup i (remove_chan d t) = Some c.
Proof.
  intros H N. induction t as [|[j e] t IH]; cbn in *; [discriminate|].
  destruct (N.eqb i j) eqn:E.
  - injection H as ->. apply Nat.eqb_neq in N. rewrite N. cbn. rewrite E. reflexivity.
  - destruct (Nat.eqb d e); [apply IH; exact H|]. cbn. rewrite E. apply IH. exact H.
Qed.

Lemma In_remove_id i j c t : In (j, c) (remove_id i t) -> In (j, c) t /\ j <> i.
Proof.
  induction t as [|[j' d] t IH]; cbn; [tauto|].
  destruct (N.eqb i j') eqn:E.
  - intros H. destruct (IH H). tauto.
  - intros [H|H].
    + injection H as -> ->. apply N.eqb_neq in E. split; [left; reflexivity|congruence].
    + destruct (IH H). tauto.
Qed.

Lemma In_remove_chan d j c t : In (j, c) (remove_chan d t) -> In (j, c) t /\ c <> d.
Proof.
  induction t as [|[j' e] t IH]; cbn; [tauto|].
  destruct (Nat.eqb d e) eqn:E.
  - intros H. destruct (IH H). tauto.
  - intros [H|H].
    + injection H as -> ->. apply Nat.eqb_neq in E. split; [left; reflexivity|congruence].
    + destruct (IH H). tauto.
Qed.

Lemma NoDup_snd_sub (t t' : list (iqid * nat)) :
  NoDup (map snd t) ->
  (* t' is obtained from t by dropping entries *)
  forall (Hsub : exists keep : iqid * nat -> bool, t' = filter keep t), NoDup (map snd t').
Proof.
  intros H [keep ->]. induction t as [|[j d] t IH]; cbn; [constructor|].
  inversion H as [|? ? Hn Hd]; subst. destruct (keep (j, d)).
  - cbn. constructor; [|apply IH; exact Hd]. intros Hin. apply Hn.
    apply in_map_iff in Hin as (x & Hx & Hin). apply filter_In in Hin as [Hin _].
    apply in_map_iff. exists x. split; assumption.
  - apply IH. exact Hd.
Qed.

Lemma remove_id_filter i t : remove_id i t = filter (fun x => negb (N.eqb i (fst x))) t.
Proof.
  induction t as [|[j d] t IH]; cbn; [reflexivity|]. destruct (N.eqb i j); cbn; rewrite IH; reflexivity.
Qed.

Lemma remove_chan_filter c t : remove_chan c t = filter (fun x => negb (Nat.eqb c (snd x))) t.
Proof.
  induction t as [|[j d] t IH]; cbn; [reflexivity|]. destruct (Nat.eqb c d); cbn; rewrite IH; reflexivity.
Qed.

Lemma NoDup_snd_remove_id i t : NoDup (map snd t) -> NoDup (map snd (remove_id i t)).
Proof. intros H. apply (NoDup_snd_sub t); [exact H|]. eexists. apply remove_id_filter. Qed.

Lemma NoDup_snd_remove_chan c t : NoDup (map snd t) -> NoDup (map snd (remove_chan c t)).
Proof. intros H. apply (NoDup_snd_sub t); [exact H|]. eexists. apply remove_chan_filter. Qed.

Lemma snd_unique (t : list (iqid * nat)) i j c :
  NoDup (map snd t) -> In (i, c) t -> In (j, c) t -> i = j.
Proof.
  induction t as [|[a b] t IH]; cbn; intros H Hi Hj; [contradiction|].
  inversion H as [|? ? Hn Hd]; subst.
  assert (Hc : forall x, In (x, c) t -> In c (map snd t)).
  { intros x Hx. apply in_map_iff. exists (x, c). split; [reflexivity|exact Hx]. }
  destruct Hi as [Hi|Hi], Hj as [Hj|Hj].
  - congruence.
  - injection Hi as -> ->. exfalso. apply Hn. apply (Hc j). exact Hj.
  - injection Hj as -> ->. exfalso. apply Hn. apply (Hc i). exact Hi.
  - apply IH; assumption.
Qed.

(* ------------------------------------------------------------------ *)
(* the invariant                                                       *)

(* the channel a routing goroutine is responsible for, if any *)
Definition held_by (t : rthread) : option nat :=
  match r_pc t with RSend c | RClose c | RCloseOrd c => Some c | _ => None end.

(* untouched channel: open, nothing sent *)
Definition fresh_ch (ch : chst) : Prop :=
  c_closed ch = false /\ c_buf ch = None /\ c_got ch = [].

(* the state of the channel held by goroutine t *)
Definition holder_ch (t : rthread) (ch : chst) : Prop :=
  c_owner ch = rid (r_iq t) /\ c_closed ch = false /\
  match r_pc t with
  | RClose _ => (c_buf ch = Some (r_iq t) /\ c_got ch = []) \/ (c_buf ch = None /\ c_got ch = [r_iq t])
  | _ => c_buf ch = None /\ c_got ch = []
  end.

(* per-channel: only the owner's id, at most one value ever *)
Definition chan_wf (ch : chst) : Prop :=
  (forall v, c_buf ch = Some v -> rid v = c_owner ch) /\
  (forall v, In v (c_got ch) -> rid v = c_owner ch) /\
  length (c_got ch) + (match c_buf ch with Some _ => 1 | None => 0 end) <= 1.

Definition table_ok (s : cst) : Prop :=
  forall i c, In (i, c) (table s) ->
    exists ch, nth_error (chans s) c = Some ch /\ c_owner ch = i /\ fresh_ch ch.
Definition table_unheld (s : cst) : Prop :=
  forall i c k t, In (i, c) (table s) -> nth_error (routers s) k = Some t -> held_by t <> Some c.
Definition one_holder (s : cst) : Prop :=
  forall k1 k2 t1 t2 c, nth_error (routers s) k1 = Some t1 -> nth_error (routers s) k2 = Some t2 ->
    held_by t1 = Some c -> held_by t2 = Some c -> k1 = k2.
Definition holder_ok (s : cst) : Prop :=
  forall k t c, nth_error (routers s) k = Some t -> held_by t = Some c ->
    exists ch, nth_error (chans s) c = Some ch /\ holder_ch t ch.
Definition chan_ok (s : cst) : Prop :=
  forall c ch, nth_error (chans s) c = Some ch -> chan_wf ch.

Definition inv (s : cst) : Prop :=
  panicked s = false /\ table_ok s /\ NoDup (map snd (table s)) /\ table_unheld s /\
  one_holder s /\ holder_ok s /\ chan_ok s.

Lemma inv_init : inv c_init.
Proof.
  assert (E : forall A (k : nat) (x : A), nth_error [] k = Some x -> False).
  { intros A [|k] x H; discriminate H. }
  unfold inv, table_ok, table_unheld, one_holder, holder_ok, chan_ok; cbn.
  split; [reflexivity|]. split; [intros i c []|]. split; [constructor|].
  split; [intros i c k t []|]. split; [intros k1 k2 t1 t2 c H; destruct (E _ _ _ H)|].
  split; [intros k t c H; destruct (E _ _ _ H)|]. intros c ch H; destruct (E _ _ _ H).
Qed.

(* inv only reads table, chans, routers, panicked *)
Lemma inv_ext s s' :
  inv s -> table s' = table s -> chans s' = chans s -> routers s' = routers s ->
  panicked s' = panicked s -> inv s'.
Proof.
  intros (P & T & N & U & O & H & C) Et Ec Er Ep.
  unfold inv, table_ok, table_unheld, one_holder, holder_ok, chan_ok.
  rewrite Et, Ec, Er, Ep. exact (conj P (conj T (conj N (conj U (conj O (conj H C)))))).
Qed.

(* ------------------------------------------------------------------ *)
(* environment actions preserve the invariant                          *)

Lemma inv_register_fresh s i : inv s -> inv (register s i).
Proof.
  intros (P & T & N & U & O & H & C). unfold register.
  unfold inv, table_ok, table_unheld, one_holder, holder_ok, chan_ok. cbn [table chans routers panicked].
  split; [exact P|]. split.
  { intros j c [E|Hin].
    - injection E as <- <-. exists (new_chan i). split; [apply nth_error_snoc_new|].
      split; [reflexivity|]. unfold fresh_ch, new_chan; cbn. auto.
    - apply In_remove_id in Hin as [Hin _]. destruct (T _ _ Hin) as (ch & E1 & E2 & E3).
      exists ch. split; [apply nth_error_snoc_old; exact E1|]. split; assumption. }
  split.
  { cbn [map snd]. constructor; [|apply NoDup_snd_remove_id; exact N].
    intros Hin. apply in_map_iff in Hin as ([j d] & Hd & Hin). cbn in Hd. subst d.
    apply In_remove_id in Hin as [Hin _]. destruct (T _ _ Hin) as (ch & E1 & _).
    apply nth_error_lt in E1. lia. }
  split.
  { intros j c k t [E|Hin] Hk Hh.
    - injection E as <- <-. destruct (H _ _ _ Hk Hh) as (ch & E1 & _). apply nth_error_lt in E1. lia.
    - apply In_remove_id in Hin as [Hin _]. exact (U _ _ _ _ Hin Hk Hh). }
  split; [exact O|]. split.
  { intros k t c Hk Hh. destruct (H _ _ _ Hk Hh) as (ch & E1 & E2).
    exists ch. split; [apply nth_error_snoc_old; exact E1|exact E2]. }
  intros c ch Hc. apply nth_error_snoc_inv in Hc as [[_ Hc]|[_ ->]]; [exact (C _ _ Hc)|].
  unfold chan_wf, new_chan; cbn. split; [intros; discriminate|]. split; [intros v []|lia].
Qed.

Lemma inv_refuse s i : inv s -> inv (refuse s i).
Proof.
  intros (P & T & N & U & O & H & C). unfold refuse.
  unfold inv, table_ok, table_unheld, one_holder, holder_ok, chan_ok. cbn [table chans routers panicked].
  split; [exact P|]. split.
  { intros j c Hin. destruct (T _ _ Hin) as (ch & E1 & E2 & E3).
    exists ch. split; [apply nth_error_snoc_old; exact E1|]. split; assumption. }
  split; [exact N|]. split; [exact U|]. split; [exact O|]. split.
  { intros k t c Hk Hh. destruct (H _ _ _ Hk Hh) as (ch & E1 & E2).
    exists ch. split; [apply nth_error_snoc_old; exact E1|exact E2]. }
  intros c ch Hc. apply nth_error_snoc_inv in Hc as [[_ Hc]|[_ ->]]; [exact (C _ _ Hc)|].
  unfold chan_wf, new_chan; cbn. split; [intros; discriminate|]. split; [intros v []|lia].
Qed.

Lemma inv_register s i : inv s -> inv (c_step s (ARegister i)).
Proof.
  intros I. cbn [c_step]. destruct (live s i); [apply inv_refuse|apply inv_register_fresh]; exact I.
Qed.

Lemma inv_set_table s t' :
  inv s -> (forall x, In x t' -> In x (table s)) -> NoDup (map snd t') -> inv (set_table s t').
Proof.
  intros (P & T & N & U & O & H & C) Sub N'.
  unfold inv, table_ok, table_unheld, one_holder, holder_ok, chan_ok.
  cbn [set_table table chans routers panicked].
  split; [exact P|]. split; [intros i c Hin; apply T, Sub, Hin|]. split; [exact N'|].
  split; [intros i c k t Hin; apply (U i c k t), Sub, Hin|].
  exact (conj O (conj H C)).
Qed.

Lemma inv_remove_chan s c : inv s -> inv (set_table s (remove_chan c (table s))).
Proof.
  intros I. apply inv_set_table; [exact I| |apply NoDup_snd_remove_chan; apply I].
  intros [j d] Hin. apply In_remove_chan in Hin. tauto.
Qed.

Lemma inv_remove_id s i : inv s -> inv (set_table s (remove_id i (table s))).
Proof.
  intros I. apply inv_set_table; [exact I| |apply NoDup_snd_remove_id; apply I].
  intros [j d] Hin. apply In_remove_id in Hin. tauto.
Qed.

Lemma inv_arrive s r : inv s -> inv (c_step s (AArrive r)).
Proof.
  intros (P & T & N & U & O & H & C). cbn [c_step].
  unfold inv, table_ok, table_unheld, one_holder, holder_ok, chan_ok. cbn [table chans routers panicked].
  split; [exact P|]. split; [exact T|]. split; [exact N|]. split.
  { intros i c k t Hin Hk. apply nth_error_snoc_inv in Hk as [[_ Hk]|[_ ->]]; [exact (U _ _ _ _ Hin Hk)|].
    unfold held_by; cbn. discriminate. }
  split.
  { intros k1 k2 t1 t2 c H1 H2 Hh1 Hh2.
    apply nth_error_snoc_inv in H1 as [[_ H1]|[_ ->]]; [|discriminate Hh1].
    apply nth_error_snoc_inv in H2 as [[_ H2]|[_ ->]]; [|discriminate Hh2].
    exact (O _ _ _ _ _ H1 H2 Hh1 Hh2). }
  split; [|exact C].
  intros k t c Hk Hh. apply nth_error_snoc_inv in Hk as [[_ Hk]|[_ ->]]; [exact (H _ _ _ Hk Hh)|discriminate Hh].
Qed.

(* a channel operation of the requester's side: a receive, or a change that leaves
   owner / buffer / closed / received alone *)
Definition recv_like (ch ch' : chst) : Prop :=
  c_owner ch' = c_owner ch /\ c_closed ch' = c_closed ch /\
  ((c_buf ch' = c_buf ch /\ c_got ch' = c_got ch) \/
   (exists v, c_buf ch = Some v /\ c_buf ch' = None /\ c_got ch' = c_got ch ++ [v])).

Lemma recv_like_refl ch : recv_like ch ch.
Proof. unfold recv_like. auto. Qed.

Lemma recv_like_fresh ch ch' : recv_like ch ch' -> fresh_ch ch -> fresh_ch ch'.
Proof.
  intros (Eo & Ec & [[Eb Eg]|(v & Eb & _)]) (F1 & F2 & F3); [|congruence].
  unfold fresh_ch. rewrite Ec, Eb, Eg. auto.
Qed.

Lemma recv_like_holder t ch ch' : recv_like ch ch' -> holder_ch t ch -> holder_ch t ch'.
Proof.
  intros (Eo & Ec & D) (H1 & H2 & H3). unfold holder_ch. rewrite Eo, Ec.
  split; [exact H1|]. split; [exact H2|].
  destruct D as [[Eb Eg]|(v & Eb & Eb' & Eg)].
  - rewrite Eb, Eg. exact H3.
  - rewrite Eb', Eg. destruct (r_pc t); try (destruct H3 as [H3 _]; congruence).
    destruct H3 as [[B G]|[B G]]; [|congruence]. right. split; [reflexivity|].
    rewrite G. cbn. congruence.
Qed.

Lemma recv_like_wf ch ch' : recv_like ch ch' -> chan_wf ch -> chan_wf ch'.
Proof.
  intros (Eo & Ec & D) (W1 & W2 & W3). unfold chan_wf. rewrite Eo.
  destruct D as [[Eb Eg]|(v & Eb & Eb' & Eg)].
  - rewrite Eb, Eg. auto.
  - rewrite Eb', Eg. rewrite Eb in W3. split; [intros; discriminate|]. split.
    + intros w Hw. apply in_app_iff in Hw as [Hw|[<-|[]]]; [apply W2; exact Hw|apply W1; exact Eb].
    + rewrite app_length. cbn. lia.
Qed.

Lemma inv_upd_chan s c f :
  inv s -> (forall ch, recv_like ch (f ch)) -> inv (set_chans s (upd (chans s) c f)).
Proof.
  intros (P & T & N & U & O & H & C) R.
  assert (K : forall d ch, nth_error (chans s) d = Some ch ->
              exists ch', nth_error (upd (chans s) c f) d = Some ch' /\ recv_like ch ch').
  { intros d ch Hd. destruct (Nat.eq_dec d c) as [->|Ne].
    - exists (f ch). split; [apply nth_error_upd_same; exact Hd|apply R].
    - exists ch. split; [rewrite nth_error_upd_other by exact Ne; exact Hd|apply recv_like_refl]. }
  unfold inv, table_ok, table_unheld, one_holder, holder_ok, chan_ok.
  cbn [set_chans table chans routers panicked].
  split; [exact P|]. split.
  { intros i d Hin. destruct (T _ _ Hin) as (ch & E1 & E2 & E3). destruct (K _ _ E1) as (ch' & E1' & R').
    exists ch'. split; [exact E1'|]. split; [destruct R' as (Eo & _); congruence|exact (recv_like_fresh _ _ R' E3)]. }
  split; [exact N|]. split; [exact U|]. split; [exact O|]. split.
  { intros k t d Hk Hh. destruct (H _ _ _ Hk Hh) as (ch & E1 & E2). destruct (K _ _ E1) as (ch' & E1' & R').
    exists ch'. split; [exact E1'|exact (recv_like_holder _ _ _ R' E2)]. }
  intros d ch' Hd. apply nth_error_upd_inv in Hd as [[-> (ch & E1 & ->)]|[_ Hd]].
  - exact (recv_like_wf _ _ (R ch) (C _ _ E1)).
  - exact (C _ _ Hd).
Qed.

Definition recv_ch (ch : chst) : chst :=
  match c_buf ch with
  | Some v => {| c_owner := c_owner ch; c_buf := None; c_closed := c_closed ch;
                 c_got := c_got ch ++ [v]; c_done := c_done ch |}
  | None => ch
  end.
Definition cancel_ch (ch : chst) : chst :=
  {| c_owner := c_owner ch; c_buf := c_buf ch; c_closed := c_closed ch; c_got := c_got ch; c_done := true |}.
Definition put_ch (r : resp) (ch : chst) : chst :=
  {| c_owner := c_owner ch; c_buf := Some r; c_closed := false; c_got := c_got ch; c_done := c_done ch |}.
Definition close_ch (ch : chst) : chst :=
  {| c_owner := c_owner ch; c_buf := c_buf ch; c_closed := true; c_got := c_got ch; c_done := c_done ch |}.

Lemma step_recv_eq s c : c_step s (ARecv c) = set_chans s (upd (chans s) c recv_ch).
Proof. reflexivity. Qed.
Lemma step_cancel_eq s c : c_step s (ACancel c) = set_chans s (upd (chans s) c cancel_ch).
Proof. reflexivity. Qed.

Lemma recv_like_recv ch : recv_like ch (recv_ch ch).
Proof.
  unfold recv_like, recv_ch. destruct (c_buf ch) as [v|] eqn:E; cbn.
  - split; [reflexivity|]. split; [reflexivity|]. right. exists v. auto.
  - auto.
Qed.
Lemma recv_like_cancel ch : recv_like ch (cancel_ch ch).
Proof. unfold recv_like, cancel_ch; cbn. auto. Qed.

(* ------------------------------------------------------------------ *)
(* the routing goroutine, step by step                                 *)

Lemma router_step_none s k : nth_error (routers s) k = None -> router_step s k = s.
Proof. intros H. unfold router_step. rewrite H. reflexivity. Qed.

Lemma router_step_start_req s k t :
  nth_error (routers s) k = Some t -> r_pc t = RStart -> rreq (r_iq t) = true ->
  router_step s k = set_pc s k ROrd.
Proof. intros H1 H2 H3. unfold router_step. rewrite H1, H2, H3. reflexivity. Qed.

Lemma router_step_start_miss s k t :
  nth_error (routers s) k = Some t -> r_pc t = RStart -> rreq (r_iq t) = false ->
  lookup (rid (r_iq t)) (table s) = None ->
  router_step s k = set_pc s k ROrd.
Proof. intros H1 H2 H0 H3. unfold router_step. rewrite H1, H2, H0, H3. reflexivity. Qed.

Lemma router_step_start_hit s k t c ch :
  nth_error (routers s) k = Some t -> r_pc t = RStart -> rreq (r_iq t) = false ->
  lookup (rid (r_iq t)) (table s) = Some c ->
  nth_error (chans s) c = Some ch ->
  router_step s k = set_pc (set_table s (remove_id (rid (r_iq t)) (table s))) k
                      (if c_done ch then RCloseOrd c else RSend c).
Proof. intros H1 H2 H0 H3 H4. unfold router_step. rewrite H1, H2, H0, H3, H4. destruct (c_done ch); reflexivity. Qed.

Lemma router_step_send s k t c ch :
  nth_error (routers s) k = Some t -> r_pc t = RSend c -> nth_error (chans s) c = Some ch ->
  c_closed ch = false -> c_buf ch = None ->
  router_step s k = set_pc (set_chans s (upd (chans s) c (put_ch (r_iq t)))) k (RClose c).
Proof. intros H1 H2 H3 H4 H5. unfold router_step. rewrite H1, H2, H3, H4, H5. reflexivity. Qed.

Lemma router_step_close s k t c ch :
  nth_error (routers s) k = Some t -> r_pc t = RClose c -> nth_error (chans s) c = Some ch ->
  c_closed ch = false ->
  router_step s k = set_pc (set_chans s (upd (chans s) c close_ch)) k RDone.
Proof. intros H1 H2 H3 H4. unfold router_step. rewrite H1, H2, H3, H4. reflexivity. Qed.

Lemma router_step_closeord s k t c ch :
  nth_error (routers s) k = Some t -> r_pc t = RCloseOrd c -> nth_error (chans s) c = Some ch ->
  c_closed ch = false ->
  router_step s k = set_pc (set_chans s (upd (chans s) c close_ch)) k ROrd.
Proof. intros H1 H2 H3 H4. unfold router_step. rewrite H1, H2, H3, H4. reflexivity. Qed.

Definition add_ordinary (s : cst) (r : resp) : cst :=
  {| table := table s; chans := chans s; routers := routers s;
     ordinary := ordinary s ++ [r]; arrived := arrived s; refused := refused s; panicked := panicked s |}.

Lemma router_step_ord s k t :
  nth_error (routers s) k = Some t -> r_pc t = ROrd ->
  router_step s k = set_pc (add_ordinary s (r_iq t)) k RDone.
Proof. intros H1 H2. unfold router_step. rewrite H1, H2. reflexivity. Qed.

Lemma router_step_done s k t :
  nth_error (routers s) k = Some t -> r_pc t = RDone -> router_step s k = s.
Proof. intros H1 H2. unfold router_step. rewrite H1, H2. reflexivity. Qed.

Definition with_pc (pc : rpc) (t : rthread) : rthread := {| r_iq := r_iq t; r_pc := pc |}.

Lemma set_pc_routers s k pc : routers (set_pc s k pc) = upd (routers s) k (with_pc pc).
Proof. reflexivity. Qed.

(* goroutine k moves on, keeping or giving up the channel it holds; only that channel changes *)
Lemma inv_holder_step s k t pc' chs' :
  inv s -> nth_error (routers s) k = Some t ->
  (forall d, held_by (with_pc pc' t) = Some d -> held_by t = Some d) ->
  (forall d ch, nth_error (chans s) d = Some ch -> held_by t <> Some d -> nth_error chs' d = Some ch) ->
  (forall d ch', nth_error chs' d = Some ch' -> chan_wf ch') ->
  (forall d, held_by (with_pc pc' t) = Some d ->
     exists ch', nth_error chs' d = Some ch' /\ holder_ch (with_pc pc' t) ch') ->
  inv (set_pc (set_chans s chs') k pc').
Proof.
  intros (P & T & N & U & O & H & C) Hk Mono Frame Wf Mine.
  assert (RK : forall j tj', nth_error (upd (routers s) k (with_pc pc')) j = Some tj' ->
               (j = k /\ tj' = with_pc pc' t) \/ (j <> k /\ nth_error (routers s) j = Some tj')).
  { intros j tj' Hj. apply nth_error_upd_inv in Hj as [[-> (x & E1 & ->)]|Hj]; [|right; exact Hj].
    left. split; [reflexivity|]. congruence. }
  assert (HS : forall j tj' d, nth_error (upd (routers s) k (with_pc pc')) j = Some tj' ->
               held_by tj' = Some d -> exists tj, nth_error (routers s) j = Some tj /\ held_by tj = Some d).
  { intros j tj' d Hj Hh. destruct (RK _ _ Hj) as [[-> ->]|[_ Hj']].
    - exists t. split; [exact Hk|apply Mono; exact Hh].
    - exists tj'. split; assumption. }
  unfold inv, table_ok, table_unheld, one_holder, holder_ok, chan_ok.
  rewrite set_pc_routers. cbn [set_pc set_routers set_chans table chans routers panicked].
  split; [exact P|]. split.
  { intros i d Hin. destruct (T _ _ Hin) as (ch & E1 & E2). exists ch. split; [|exact E2].
    apply Frame; [exact E1|]. exact (U _ _ _ _ Hin Hk). }
  split; [exact N|]. split.
  { intros i d j tj' Hin Hj Hh. destruct (HS _ _ _ Hj Hh) as (tj & Hj' & Hh'). exact (U _ _ _ _ Hin Hj' Hh'). }
  split.
  { intros k1 k2 t1 t2 d H1 H2 Hh1 Hh2.
    destruct (HS _ _ _ H1 Hh1) as (u1 & G1 & G1'). destruct (HS _ _ _ H2 Hh2) as (u2 & G2 & G2').
    exact (O _ _ _ _ _ G1 G2 G1' G2'). }
  split; [|exact Wf].
  intros j tj' d Hj Hh. destruct (RK _ _ Hj) as [[-> ->]|[Ne Hj']].
  - apply Mine. exact Hh.
  - destruct (H _ _ _ Hj' Hh) as (ch & E1 & E2). exists ch. split; [|exact E2].
    apply Frame; [exact E1|]. intros Ht. apply Ne. exact (O _ _ _ _ _ Hj' Hk Hh Ht).
Qed.

Lemma inv_set_pc_free s k t pc' :
  inv s -> nth_error (routers s) k = Some t -> held_by (with_pc pc' t) = None -> inv (set_pc s k pc').
Proof.
  intros I Hk Hn. apply (inv_ext (set_pc (set_chans s (chans s)) k pc')); try reflexivity.
  apply (inv_holder_step s k t); try assumption.
  - intros d Hd. congruence.
  - intros d ch Hd _. exact Hd.
  - apply I.
  - intros d Hd. congruence.
Qed.

(* goroutine k takes the pending entry (i, c) out of the table: it now holds c *)
Lemma inv_take s k t c pc' :
  inv s -> nth_error (routers s) k = Some t -> held_by t = None ->
  In (rid (r_iq t), c) (table s) -> (pc' = RSend c \/ pc' = RCloseOrd c) ->
  inv (set_pc (set_table s (remove_id (rid (r_iq t)) (table s))) k pc').
Proof.
  intros (P & T & N & U & O & H & C) Hk Hfree Hin Hpc.
  assert (Hh' : held_by (with_pc pc' t) = Some c) by (destruct Hpc as [-> | ->]; reflexivity).
  assert (RK : forall j tj', nth_error (upd (routers s) k (with_pc pc')) j = Some tj' ->
               (j = k /\ tj' = with_pc pc' t) \/ (j <> k /\ nth_error (routers s) j = Some tj')).
  { intros j tj' Hj. apply nth_error_upd_inv in Hj as [[-> (x & E1 & ->)]|Hj]; [|right; exact Hj].
    left. split; [reflexivity|]. congruence. }
  unfold inv, table_ok, table_unheld, one_holder, holder_ok, chan_ok.
  rewrite set_pc_routers. cbn [set_pc set_routers set_table table chans routers panicked].
  split; [exact P|]. split.
  { intros i d Hd. apply In_remove_id in Hd as [Hd _]. exact (T _ _ Hd). }
  split; [apply NoDup_snd_remove_id; exact N|]. split.
  { intros i d j tj' Hd Hj Hh. apply In_remove_id in Hd as [Hd Ni].
    destruct (RK _ _ Hj) as [[-> ->]|[_ Hj']].
    - rewrite Hh' in Hh. injection Hh as <-. apply Ni. exact (snd_unique _ _ _ _ N Hd Hin).
    - exact (U _ _ _ _ Hd Hj' Hh). }
  split.
  { intros k1 k2 t1 t2 d H1 H2 Hh1 Hh2.
    destruct (RK _ _ H1) as [[-> ->]|[N1 G1]], (RK _ _ H2) as [[-> ->]|[N2 G2]].
    - reflexivity.
    - rewrite Hh' in Hh1. injection Hh1 as <-. destruct (U _ _ _ _ Hin G2 Hh2).
    - rewrite Hh' in Hh2. injection Hh2 as <-. destruct (U _ _ _ _ Hin G1 Hh1).
    - exact (O _ _ _ _ _ G1 G2 Hh1 Hh2). }
  split; [|exact C].
  intros j tj' d Hj Hh. destruct (RK _ _ Hj) as [[-> ->]|[_ Hj']]; [|exact (H _ _ _ Hj' Hh)].
  rewrite Hh' in Hh. injection Hh as <-. destruct (T _ _ Hin) as (ch & E1 & E2 & E3 & E4 & E5).
  exists ch. split; [exact E1|]. unfold holder_ch. cbn [with_pc r_iq r_pc].
  split; [exact E2|]. split; [exact E3|]. destruct Hpc as [-> | ->]; auto.
Qed.

Lemma held_by_pc t c : held_by t = Some c -> r_pc t = RSend c \/ r_pc t = RClose c \/ r_pc t = RCloseOrd c.
Proof. unfold held_by. destruct (r_pc t); intros E; try discriminate; injection E as ->; auto. Qed.

Lemma close_wf ch : chan_wf ch -> chan_wf (close_ch ch).
Proof. intros W. exact W. Qed.

Lemma inv_router s k : inv s -> inv (router_step s k).
Proof.
  intros I. destruct (nth_error (routers s) k) as [t|] eqn:Hk; [|rewrite router_step_none; assumption].
  pose proof I as (P & T & N & U & O & H & C).
  destruct (r_pc t) as [|c|c|c| |] eqn:Hpc.
  - (* RStart *)
    destruct (rreq (r_iq t)) eqn:Hq;
      [rewrite (router_step_start_req s k t Hk Hpc Hq); apply (inv_set_pc_free s k t); auto|].
    destruct (lookup (rid (r_iq t)) (table s)) as [c|] eqn:Hl.
    + apply lookup_In in Hl as Hin. destruct (T _ _ Hin) as (ch & E1 & _).
      rewrite (router_step_start_hit s k t c ch Hk Hpc Hq Hl E1).
      apply (inv_take s k t c); [exact I|exact Hk|unfold held_by; rewrite Hpc; reflexivity|exact Hin|].
      destruct (c_done ch); auto.
    + rewrite (router_step_start_miss s k t Hk Hpc Hq Hl). apply (inv_set_pc_free s k t); auto.
  - (* RSend c *)
    assert (Hh : held_by t = Some c) by (unfold held_by; rewrite Hpc; reflexivity).
    destruct (H _ _ _ Hk Hh) as (ch & E1 & Eo & Ec & Eb). rewrite Hpc in Eb. destruct Eb as [Eb Eg].
    rewrite (router_step_send s k t c ch Hk Hpc E1 Ec Eb).
    apply (inv_holder_step s k t); try assumption.
    + intros d Hd. cbn in Hd. congruence.
    + intros d ch0 Hd Nd. rewrite nth_error_upd_other; [exact Hd|]. congruence.
    + intros d ch' Hd. apply nth_error_upd_inv in Hd as [[-> (x & E1' & ->)]|[_ Hd]]; [|exact (C _ _ Hd)].
      assert (x = ch) by congruence. subst x. unfold chan_wf, put_ch; cbn. rewrite Eg. cbn.
      split; [intros v Ev; injection Ev as <-; congruence|]. split; [intros v []|lia].
    + intros d Hd. cbn in Hd. injection Hd as <-. exists (put_ch (r_iq t) ch).
      split; [apply nth_error_upd_same; exact E1|]. unfold holder_ch, put_ch; cbn. auto.
  - (* RClose c *)
    assert (Hh : held_by t = Some c) by (unfold held_by; rewrite Hpc; reflexivity).
    destruct (H _ _ _ Hk Hh) as (ch & E1 & Eo & Ec & Eb).
    rewrite (router_step_close s k t c ch Hk Hpc E1 Ec).
    apply (inv_holder_step s k t); try assumption.
    + intros d Hd. discriminate Hd.
    + intros d ch0 Hd Nd. rewrite nth_error_upd_other; [exact Hd|]. congruence.
    + intros d ch' Hd. apply nth_error_upd_inv in Hd as [[-> (x & E1' & ->)]|[_ Hd]]; [|exact (C _ _ Hd)].
      apply close_wf. exact (C _ _ E1').
    + intros d Hd. discriminate Hd.
  - (* RCloseOrd c *)
    assert (Hh : held_by t = Some c) by (unfold held_by; rewrite Hpc; reflexivity).
    destruct (H _ _ _ Hk Hh) as (ch & E1 & Eo & Ec & Eb).
    rewrite (router_step_closeord s k t c ch Hk Hpc E1 Ec).
    apply (inv_holder_step s k t); try assumption.
    + intros d Hd. discriminate Hd.
    + intros d ch0 Hd Nd. rewrite nth_error_upd_other; [exact Hd|]. congruence.
    + intros d ch' Hd. apply nth_error_upd_inv in Hd as [[-> (x & E1' & ->)]|[_ Hd]]; [|exact (C _ _ Hd)].
      apply close_wf. exact (C _ _ E1').
    + intros d Hd. discriminate Hd.
  - (* ROrd *)
    rewrite (router_step_ord s k t Hk Hpc). apply (inv_set_pc_free _ k t); [|exact Hk|reflexivity].
    apply (inv_ext s); [exact I|reflexivity..].
  - rewrite (router_step_done s k t Hk Hpc). exact I.
Qed.

Theorem inv_step s a : inv s -> inv (c_step s a).
Proof.
  intros I. destruct a as [i|c|r|k|c|c|c].
  - apply inv_register; exact I.
  - cbn [c_step]. destruct (nth_error (chans s) c); [apply inv_remove_chan|]; exact I.
  - apply inv_arrive; exact I.
  - apply inv_router; exact I.
  - rewrite step_recv_eq. apply inv_upd_chan; [exact I|apply recv_like_recv].
  - rewrite step_cancel_eq. apply inv_upd_chan; [exact I|apply recv_like_cancel].
  - cbn [c_step]. destruct (nth_error (chans s) c) as [ch|]; [|exact I].
    destruct (c_done ch); [apply inv_remove_chan|]; exact I.
Qed.

Theorem inv_run l : forall s, inv s -> inv (c_run s l).
Proof.
  induction l as [|a l IH]; intros s I; [exact I|]. cbn. apply IH. apply inv_step. exact I.
Qed.

Theorem inv_reachable l : inv (c_run c_init l).
Proof. apply inv_run. exact inv_init. Qed.

(* ------------------------------------------------------------------ *)
(* consequences of the invariant                                       *)

Lemma no_panic l : panicked (c_run c_init l) = false.
Proof. apply (inv_reachable l). Qed.

Lemma held_by_iff t c :
  held_by t = Some c <-> (r_pc t = RSend c \/ r_pc t = RClose c \/ r_pc t = RCloseOrd c).
Proof.
  split; [apply held_by_pc|]. unfold held_by. intros [E|[E|E]]; rewrite E; reflexivity.
Qed.

Lemma inv_at_most_once s :
  inv s ->
  (forall c ch, nth_error (chans s) c = Some ch ->
     length (c_got ch) + (match c_buf ch with Some _ => 1 | None => 0 end) <= 1) /\
  (forall k t c ch, nth_error (routers s) k = Some t ->
     r_pc t = RSend c \/ r_pc t = RClose c \/ r_pc t = RCloseOrd c ->
     nth_error (chans s) c = Some ch -> c_closed ch = false).
Proof.
  intros (P & T & N & U & O & H & C). split.
  - intros c ch Hc. apply (C _ _ Hc).
  - intros k t c ch Hk Hpc Hc. apply held_by_iff in Hpc.
    destruct (H _ _ _ Hk Hpc) as (ch' & E1 & _ & E2 & _). congruence.
Qed.

Lemma inv_right_owner s :
  inv s ->
  forall c ch v, nth_error (chans s) c = Some ch ->
    (c_buf ch = Some v \/ In v (c_got ch)) -> rid v = c_owner ch.
Proof.
  intros (P & T & N & U & O & H & C) c ch v Hc [Hv|Hv]; destruct (C _ _ Hc) as (W1 & W2 & _); auto.
Qed.

Lemma inv_never_blocks s k : inv s -> blocked s k = false.
Proof.
  intros (P & T & N & U & O & H & C). unfold blocked.
  destruct (nth_error (routers s) k) as [t|] eqn:Hk; [|reflexivity].
  destruct (r_pc t) as [|c|c|c| |] eqn:Hpc; try reflexivity;
    (assert (Hh : held_by t = Some c) by (unfold held_by; rewrite Hpc; reflexivity));
    destruct (H _ _ _ Hk Hh) as (ch & E1 & Eo & Ec & Eb); rewrite E1; try reflexivity.
  rewrite Hpc in Eb. destruct Eb as [Eb _]. rewrite Ec, Eb. reflexivity.
Qed.

(* every routing goroutine finishes within three of its own steps, whatever the others do
   in between: its distance to RDone strictly decreases with each step *)
Definition rank (pc : rpc) : nat :=
  match pc with RStart => 3 | RSend _ | RCloseOrd _ => 2 | RClose _ | ROrd => 1 | RDone => 0 end.

Lemma router_progress s k t :
  inv s -> nth_error (routers s) k = Some t ->
  exists t', nth_error (routers (router_step s k)) k = Some t' /\ r_iq t' = r_iq t /\
             rank (r_pc t') <= pred (rank (r_pc t)).
Proof.
  intros I Hk. pose proof I as (P & T & N & U & O & H & C).
  assert (G : forall s0 pc, routers s0 = routers s ->
            nth_error (routers (set_pc s0 k pc)) k = Some (with_pc pc t)).
  { intros s0 pc E. rewrite set_pc_routers, E. apply nth_error_upd_same. exact Hk. }
  destruct (r_pc t) as [|c|c|c| |] eqn:Hpc.
  - destruct (rreq (r_iq t)) eqn:Hq;
      [rewrite (router_step_start_req s k t Hk Hpc Hq); eexists; split; [apply G; reflexivity|];
       split; [reflexivity|cbn; lia]|].
    destruct (lookup (rid (r_iq t)) (table s)) as [c|] eqn:Hl.
    + apply lookup_In in Hl as Hin. destruct (T _ _ Hin) as (ch & E1 & _).
      rewrite (router_step_start_hit s k t c ch Hk Hpc Hq Hl E1). eexists. split; [apply G; reflexivity|].
      split; [reflexivity|]. destruct (c_done ch); cbn; lia.
    + rewrite (router_step_start_miss s k t Hk Hpc Hq Hl). eexists. split; [apply G; reflexivity|].
      split; [reflexivity|cbn; lia].
  - assert (Hh : held_by t = Some c) by (unfold held_by; rewrite Hpc; reflexivity).
    destruct (H _ _ _ Hk Hh) as (ch & E1 & Eo & Ec & Eb). rewrite Hpc in Eb. destruct Eb as [Eb Eg].
    rewrite (router_step_send s k t c ch Hk Hpc E1 Ec Eb). eexists. split; [apply G; reflexivity|].
    split; [reflexivity|cbn; lia].
  - assert (Hh : held_by t = Some c) by (unfold held_by; rewrite Hpc; reflexivity).
    destruct (H _ _ _ Hk Hh) as (ch & E1 & Eo & Ec & Eb).
    rewrite (router_step_close s k t c ch Hk Hpc E1 Ec). eexists. split; [apply G; reflexivity|].
    split; [reflexivity|cbn; lia].
  - assert (Hh : held_by t = Some c) by (unfold held_by; rewrite Hpc; reflexivity).
    destruct (H _ _ _ Hk Hh) as (ch & E1 & Eo & Ec & Eb).
    rewrite (router_step_closeord s k t c ch Hk Hpc E1 Ec). eexists. split; [apply G; reflexivity|].
    split; [reflexivity|cbn; lia].
  - rewrite (router_step_ord s k t Hk Hpc). eexists. split; [apply G; reflexivity|].
    split; [reflexivity|cbn; lia].
  - rewrite (router_step_done s k t Hk Hpc). exists t. rewrite Hpc. auto.
Qed.

(* ------------------------------------------------------------------ *)
(* conservation: arrived = ordinary + delivered + in flight            *)

Definition contents (ch : chst) : list resp :=
  c_got ch ++ match c_buf ch with Some v => [v] | None => [] end.
Definition delivered (s : cst) : list resp := flat_map contents (chans s).
Definition flying (t : rthread) : list resp :=
  match r_pc t with RStart | RSend _ | RCloseOrd _ | ROrd => [r_iq t] | _ => [] end.
Definition in_flight (s : cst) : list resp := flat_map flying (routers s).

Definition resp_dec (a b : resp) : {a = b} + {a <> b}.
Proof. decide equality; try apply N.eq_dec; decide equality. Defined.
Definition cnt (x : resp) (l : list resp) : nat := count_occ resp_dec l x.

Lemma cnt_app x l1 l2 : cnt x (l1 ++ l2) = cnt x l1 + cnt x l2.
Proof. apply count_occ_app. Qed.

Definition bal (s : cst) : Prop :=
  forall x, cnt x (arrived s) = cnt x (ordinary s) + cnt x (delivered s) + cnt x (in_flight s).

Lemma cnt_flat_map_upd {A} (g : A -> list resp) l n f a x :
  nth_error l n = Some a ->
  cnt x (flat_map g (upd l n f)) + cnt x (g a) = cnt x (flat_map g l) + cnt x (g (f a)).
Proof.
  intros H. destruct (upd_split l n f a H) as (l1 & l2 & E1 & E2). rewrite E2, E1.
  rewrite !flat_map_app. cbn [flat_map]. rewrite !cnt_app. lia.
Qed.

Lemma flat_map_upd_same {A B} (g : A -> list B) l n f :
  (forall a, nth_error l n = Some a -> g (f a) = g a) -> flat_map g (upd l n f) = flat_map g l.
Proof.
  intros H. destruct (nth_error l n) as [a|] eqn:E; [|rewrite upd_none by exact E; reflexivity].
  destruct (upd_split l n f a E) as (l1 & l2 & E1 & E2). rewrite E2, E1.
  rewrite !flat_map_app. cbn [flat_map]. rewrite (H a eq_refl). reflexivity.
Qed.

Lemma bal_ext s s' :
  bal s -> chans s' = chans s -> routers s' = routers s -> ordinary s' = ordinary s ->
  arrived s' = arrived s -> bal s'.
Proof. intros B Ec Er Eo Ea x. unfold delivered, in_flight. rewrite Ec, Er, Eo, Ea. apply B. Qed.

Lemma contents_recv ch : contents (recv_ch ch) = contents ch.
Proof.
  unfold contents, recv_ch. destruct (c_buf ch) as [v|] eqn:E; cbn; rewrite ?E, ?app_nil_r; reflexivity.
Qed.

(* moving goroutine k from pc to pc', channels changing from chs to chs' *)
Lemma bal_router s k t pc' chs' o' x :
  nth_error (routers s) k = Some t ->
  cnt x (ordinary s) + cnt x (delivered s) + cnt x (flying t) =
    cnt x o' + cnt x (flat_map contents chs') + cnt x (flying (with_pc pc' t)) ->
  cnt x (ordinary s) + cnt x (delivered s) + cnt x (in_flight s) =
    cnt x o' + cnt x (flat_map contents chs') + cnt x (flat_map flying (upd (routers s) k (with_pc pc'))).
Proof.
  intros Hk E. pose proof (cnt_flat_map_upd flying (routers s) k (with_pc pc') t x Hk) as F.
  unfold in_flight. lia.
Qed.

Ltac bal_open B x :=
  intros x; unfold delivered, in_flight; rewrite set_pc_routers;
  cbn [set_pc set_routers set_table set_chans add_ordinary chans ordinary arrived routers table panicked];
  rewrite (B x).

Lemma bal_router_step s k : inv s -> bal s -> bal (router_step s k).
Proof.
  intros I B. destruct (nth_error (routers s) k) as [t|] eqn:Hk; [|rewrite router_step_none; assumption].
  pose proof I as (P & T & N & U & O & H & C).
  destruct (r_pc t) as [|c|c|c| |] eqn:Hpc.
  - destruct (rreq (r_iq t)) eqn:Hq;
      [rewrite (router_step_start_req s k t Hk Hpc Hq); bal_open B x; apply (bal_router s k t); [exact Hk|];
       unfold flying; rewrite Hpc; reflexivity|].
    destruct (lookup (rid (r_iq t)) (table s)) as [c|] eqn:Hl.
    + apply lookup_In in Hl as Hin. destruct (T _ _ Hin) as (ch & E1 & _).
      rewrite (router_step_start_hit s k t c ch Hk Hpc Hq Hl E1). bal_open B x.
      apply (bal_router s k t); [exact Hk|]. unfold flying. rewrite Hpc. destruct (c_done ch); reflexivity.
    + rewrite (router_step_start_miss s k t Hk Hpc Hq Hl). bal_open B x.
      apply (bal_router s k t); [exact Hk|]. unfold flying. rewrite Hpc. reflexivity.
  - assert (Hh : held_by t = Some c) by (unfold held_by; rewrite Hpc; reflexivity).
    destruct (H _ _ _ Hk Hh) as (ch & E1 & Eo & Ec & Eb). rewrite Hpc in Eb. destruct Eb as [Eb Eg].
    rewrite (router_step_send s k t c ch Hk Hpc E1 Ec Eb). bal_open B x.
    apply (bal_router s k t); [exact Hk|].
    pose proof (cnt_flat_map_upd contents (chans s) c (put_ch (r_iq t)) ch x E1) as F.
    unfold flying. rewrite Hpc. cbn [with_pc r_pc r_iq]. unfold delivered.
    assert (X1 : contents ch = []) by (unfold contents; rewrite Eb, Eg; reflexivity).
    assert (X2 : contents (put_ch (r_iq t) ch) = [r_iq t]) by (unfold contents, put_ch; cbn; rewrite Eg; reflexivity).
    rewrite X1, X2 in F. change (cnt x []) with 0 in *. lia.
  - assert (Hh : held_by t = Some c) by (unfold held_by; rewrite Hpc; reflexivity).
    destruct (H _ _ _ Hk Hh) as (ch & E1 & Eo & Ec & Eb).
    rewrite (router_step_close s k t c ch Hk Hpc E1 Ec). bal_open B x.
    apply (bal_router s k t); [exact Hk|]. rewrite (flat_map_upd_same contents) by reflexivity.
    unfold flying. rewrite Hpc. reflexivity.
  - assert (Hh : held_by t = Some c) by (unfold held_by; rewrite Hpc; reflexivity).
    destruct (H _ _ _ Hk Hh) as (ch & E1 & Eo & Ec & Eb).
    rewrite (router_step_closeord s k t c ch Hk Hpc E1 Ec). bal_open B x.
    apply (bal_router s k t); [exact Hk|]. rewrite (flat_map_upd_same contents) by reflexivity.
    unfold flying. rewrite Hpc. reflexivity.
  - rewrite (router_step_ord s k t Hk Hpc). bal_open B x.
    apply (bal_router s k t); [exact Hk|]. unfold flying. rewrite Hpc. cbn [with_pc r_pc].
    rewrite cnt_app. unfold delivered. change (cnt x []) with 0. lia.
  - rewrite (router_step_done s k t Hk Hpc). exact B.
Qed.

Lemma bal_step s a : inv s -> bal s -> bal (c_step s a).
Proof.
  intros I B. destruct a as [i|c|r|k|c|c|c].
  - intros x. unfold delivered, in_flight. cbn [c_step].
    destruct (live s i); cbn [register refuse chans routers ordinary arrived];
      rewrite flat_map_app; cbn [flat_map new_chan contents c_got c_buf app]; rewrite app_nil_r; apply B.
  - cbn [c_step]. destruct (nth_error (chans s) c); [|exact B]. apply (bal_ext s); auto.
  - intros x. unfold delivered, in_flight. cbn [c_step chans routers ordinary arrived].
    rewrite flat_map_app, !cnt_app. cbn [flat_map flying r_pc r_iq app]. rewrite (B x).
    unfold delivered, in_flight. lia.
  - apply bal_router_step; assumption.
  - rewrite step_recv_eq. intros x. unfold delivered, in_flight. cbn [set_chans chans routers ordinary arrived].
    rewrite (flat_map_upd_same contents) by (intros; apply contents_recv). apply B.
  - rewrite step_cancel_eq. intros x. unfold delivered, in_flight. cbn [set_chans chans routers ordinary arrived].
    rewrite (flat_map_upd_same contents) by reflexivity. apply B.
  - cbn [c_step]. destruct (nth_error (chans s) c) as [ch|]; [|exact B].
    destruct (c_done ch); [|exact B]. apply (bal_ext s); auto.
Qed.

Lemma inv_bal_run l : forall s, inv s -> bal s -> inv (c_run s l) /\ bal (c_run s l).
Proof.
  induction l as [|a l IH]; intros s I B; [split; assumption|]. cbn. apply IH.
  - apply inv_step; exact I.
  - apply bal_step; assumption.
Qed.

Lemma bal_init : bal c_init.
Proof. intros x. reflexivity. Qed.

Lemma bal_perm s : bal s -> Permutation (arrived s) (ordinary s ++ delivered s ++ in_flight s).
Proof.
  intros B. apply (Permutation_count_occ resp_dec). intros x.
  rewrite !count_occ_app. pose proof (B x) as E. unfold cnt in E. lia.
Qed.

Lemma conservation l :
  let s := c_run c_init l in Permutation (arrived s) (ordinary s ++ delivered s ++ in_flight s).
Proof. cbn zeta. apply bal_perm. apply inv_bal_run; [exact inv_init|exact bal_init]. Qed.

Lemma in_flight_quiescent s : (forall t, In t (routers s) -> r_pc t = RDone) -> in_flight s = [].
Proof.
  unfold in_flight. induction (routers s) as [|t l IH]; intros H; [reflexivity|].
  cbn [flat_map]. rewrite IH by (intros u Hu; apply H; right; exact Hu).
  unfold flying. rewrite (H t) by (left; reflexivity). reflexivity.
Qed.

Lemma conservation_quiescent l :
  let s := c_run c_init l in
  (forall t, In t (routers s) -> r_pc t = RDone) -> Permutation (arrived s) (ordinary s ++ delivered s).
Proof.
  cbn zeta. intros Q. pose proof (conservation l) as C. cbn zeta in C.
  rewrite (in_flight_quiescent _ Q), app_nil_r in C. exact C.
Qed.

(* ------------------------------------------------------------------ *)
(* what one step of a routing goroutine is, in a state satisfying inv  *)

Inductive rstep (s : cst) (k : nat) : cst -> Prop :=
| rs_idle :
    (nth_error (routers s) k = None \/ exists t, nth_error (routers s) k = Some t /\ r_pc t = RDone) ->
    rstep s k s
| rs_req t :
    nth_error (routers s) k = Some t -> r_pc t = RStart -> rreq (r_iq t) = true ->
    rstep s k (set_pc s k ROrd)
| rs_miss t :
    nth_error (routers s) k = Some t -> r_pc t = RStart -> rreq (r_iq t) = false ->
    lookup (rid (r_iq t)) (table s) = None ->
    rstep s k (set_pc s k ROrd)
| rs_hit t c ch :
    nth_error (routers s) k = Some t -> r_pc t = RStart -> rreq (r_iq t) = false ->
    lookup (rid (r_iq t)) (table s) = Some c ->
    nth_error (chans s) c = Some ch -> c_owner ch = rid (r_iq t) -> fresh_ch ch ->
    rstep s k (set_pc (set_table s (remove_id (rid (r_iq t)) (table s))) k
                 (if c_done ch then RCloseOrd c else RSend c))
| rs_send t c ch :
    nth_error (routers s) k = Some t -> r_pc t = RSend c -> nth_error (chans s) c = Some ch ->
    c_owner ch = rid (r_iq t) -> fresh_ch ch ->
    rstep s k (set_pc (set_chans s (upd (chans s) c (put_ch (r_iq t)))) k (RClose c))
| rs_close t c ch :
    nth_error (routers s) k = Some t -> r_pc t = RClose c -> nth_error (chans s) c = Some ch ->
    c_closed ch = false ->
    rstep s k (set_pc (set_chans s (upd (chans s) c close_ch)) k RDone)
| rs_closeord t c ch :
    nth_error (routers s) k = Some t -> r_pc t = RCloseOrd c -> nth_error (chans s) c = Some ch ->
    c_closed ch = false ->
    rstep s k (set_pc (set_chans s (upd (chans s) c close_ch)) k ROrd)
| rs_ord t :
    nth_error (routers s) k = Some t -> r_pc t = ROrd ->
    rstep s k (set_pc (add_ordinary s (r_iq t)) k RDone).

Lemma router_step_spec s k : inv s -> rstep s k (router_step s k).
Proof.
  intros I. destruct (nth_error (routers s) k) as [t|] eqn:Hk;
    [|rewrite router_step_none by exact Hk; apply rs_idle; left; exact Hk].
  pose proof I as (P & T & N & U & O & H & C).
  destruct (r_pc t) as [|c|c|c| |] eqn:Hpc.
  - destruct (rreq (r_iq t)) eqn:Hq;
      [rewrite (router_step_start_req s k t Hk Hpc Hq); apply (rs_req s k t); assumption|].
    destruct (lookup (rid (r_iq t)) (table s)) as [c|] eqn:Hl.
    + apply lookup_In in Hl as Hin. destruct (T _ _ Hin) as (ch & E1 & E2 & E3).
      rewrite (router_step_start_hit s k t c ch Hk Hpc Hq Hl E1). apply (rs_hit s k t c ch); assumption.
    + rewrite (router_step_start_miss s k t Hk Hpc Hq Hl). apply (rs_miss s k t); assumption.
  - assert (Hh : held_by t = Some c) by (unfold held_by; rewrite Hpc; reflexivity).
    destruct (H _ _ _ Hk Hh) as (ch & E1 & Eo & Ec & Eb). rewrite Hpc in Eb. destruct Eb as [Eb Eg].
    rewrite (router_step_send s k t c ch Hk Hpc E1 Ec Eb). apply (rs_send s k t c ch); try assumption.
    unfold fresh_ch. auto.
  - assert (Hh : held_by t = Some c) by (unfold held_by; rewrite Hpc; reflexivity).
    destruct (H _ _ _ Hk Hh) as (ch & E1 & Eo & Ec & Eb).
    rewrite (router_step_close s k t c ch Hk Hpc E1 Ec). apply (rs_close s k t c ch); assumption.
  - assert (Hh : held_by t = Some c) by (unfold held_by; rewrite Hpc; reflexivity).
    destruct (H _ _ _ Hk Hh) as (ch & E1 & Eo & Ec & Eb).
    rewrite (router_step_closeord s k t c ch Hk Hpc E1 Ec). apply (rs_closeord s k t c ch); assumption.
  - rewrite (router_step_ord s k t Hk Hpc). apply (rs_ord s k t); assumption.
  - rewrite (router_step_done s k t Hk Hpc). apply rs_idle. right. exists t. auto.
Qed.

(* ------------------------------------------------------------------ *)
(* a response to a pending request; a response racing with cancellation *)

Lemma c_run_cons s a l : c_run s (a :: l) = c_run (c_step s a) l.
Proof. reflexivity. Qed.
Lemma c_run_nil s : c_run s [] = s.
Proof. reflexivity. Qed.
Lemma step_router_eq s k : c_step s (ARouter k) = router_step s k.
Proof. reflexivity. Qed.

Lemma early_response s i v c ch :
  inv s -> lookup i (table s) = Some c -> nth_error (chans s) c = Some ch -> c_done ch = false ->
  let k := length (routers s) in
  let s' := c_run s [AArrive (result i v); ARouter k; ARouter k; ARouter k] in
  nth_error (chans s') c = Some (close_ch (put_ch (result i v) ch)) /\
  (forall d, d <> c -> nth_error (chans s') d = nth_error (chans s) d) /\
  table s' = remove_id i (table s) /\ ordinary s' = ordinary s /\
  nth_error (routers s') k = Some {| r_iq := (result i v); r_pc := RDone |}.
Proof.
  intros I Hl Hc Hd k s'. subst s'. rewrite !c_run_cons, c_run_nil, !step_router_eq.
  pose proof I as (P & T & N & U & O & H & C).
  destruct (T _ _ (lookup_In _ _ _ Hl)) as (ch0 & E0 & Eo & Ecl & Eb & Eg).
  assert (ch0 = ch) by congruence. subst ch0.
  set (s1 := c_step s (AArrive (result i v))).
  set (t1 := {| r_iq := (result i v); r_pc := RStart |}).
  assert (K1 : nth_error (routers s1) k = Some t1) by apply nth_error_snoc_new.
  assert (S2 : router_step s1 k = set_pc (set_table s1 (remove_id i (table s))) k (RSend c)).
  { rewrite (router_step_start_hit s1 k t1 c ch K1 eq_refl eq_refl Hl Hc). rewrite Hd. reflexivity. }
  rewrite S2. set (s2 := set_pc _ k (RSend c)).
  assert (K2 : nth_error (routers s2) k = Some (with_pc (RSend c) t1)).
  { unfold s2. rewrite set_pc_routers. apply nth_error_upd_same. exact K1. }
  assert (S3 : router_step s2 k = set_pc (set_chans s2 (upd (chans s) c (put_ch (result i v)))) k (RClose c)).
  { exact (router_step_send s2 k _ c ch K2 eq_refl Hc Ecl Eb). }
  rewrite S3. set (s3 := set_pc _ k (RClose c)).
  assert (K3 : nth_error (routers s3) k = Some (with_pc (RClose c) (with_pc (RSend c) t1))).
  { unfold s3. rewrite set_pc_routers. apply nth_error_upd_same. exact K2. }
  assert (C3 : chans s3 = upd (chans s) c (put_ch (result i v))) by reflexivity.
  assert (C3' : nth_error (chans s3) c = Some (put_ch (result i v) ch)).
  { rewrite C3. apply nth_error_upd_same. exact Hc. }
  assert (S4 : router_step s3 k = set_pc (set_chans s3 (upd (chans s3) c close_ch)) k RDone).
  { exact (router_step_close s3 k _ c _ K3 eq_refl C3' eq_refl). }
  rewrite S4. set (s4 := set_pc _ k RDone).
  assert (C4 : chans s4 = upd (chans s3) c close_ch) by reflexivity.
  split; [rewrite C4; apply nth_error_upd_same; exact C3'|].
  split; [intros d Nd; rewrite C4, nth_error_upd_other, C3, nth_error_upd_other by exact Nd; reflexivity|].
  split; [reflexivity|]. split; [reflexivity|].
  unfold s4. rewrite set_pc_routers. cbn [set_chans routers].
  rewrite (nth_error_upd_same _ _ _ _ K3). reflexivity.
Qed.

(* the context had ended when the entry was taken: the channel is closed empty, the
   response goes to the ordinary routes, once *)
Lemma cancelled_response s i v c ch :
  inv s -> lookup i (table s) = Some c -> nth_error (chans s) c = Some ch -> c_done ch = true ->
  let k := length (routers s) in
  let s' := c_run s [AArrive (result i v); ARouter k; ARouter k; ARouter k] in
  nth_error (chans s') c = Some (close_ch ch) /\
  (forall d, d <> c -> nth_error (chans s') d = nth_error (chans s) d) /\
  table s' = remove_id i (table s) /\ ordinary s' = ordinary s ++ [(result i v)] /\
  nth_error (routers s') k = Some {| r_iq := (result i v); r_pc := RDone |}.
Proof.
  intros I Hl Hc Hd k s'. subst s'. rewrite !c_run_cons, c_run_nil, !step_router_eq.
  pose proof I as (P & T & N & U & O & H & C).
  destruct (T _ _ (lookup_In _ _ _ Hl)) as (ch0 & E0 & Eo & Ecl & Eb & Eg).
  assert (ch0 = ch) by congruence. subst ch0.
  set (s1 := c_step s (AArrive (result i v))).
  set (t1 := {| r_iq := (result i v); r_pc := RStart |}).
  assert (K1 : nth_error (routers s1) k = Some t1) by apply nth_error_snoc_new.
  assert (S2 : router_step s1 k = set_pc (set_table s1 (remove_id i (table s))) k (RCloseOrd c)).
  { rewrite (router_step_start_hit s1 k t1 c ch K1 eq_refl eq_refl Hl Hc). rewrite Hd. reflexivity. }
  rewrite S2. set (s2 := set_pc _ k (RCloseOrd c)).
  assert (K2 : nth_error (routers s2) k = Some (with_pc (RCloseOrd c) t1)).
  { unfold s2. rewrite set_pc_routers. apply nth_error_upd_same. exact K1. }
  assert (S3 : router_step s2 k = set_pc (set_chans s2 (upd (chans s) c close_ch)) k ROrd).
  { exact (router_step_closeord s2 k _ c ch K2 eq_refl Hc Ecl). }
  rewrite S3. set (s3 := set_pc _ k ROrd).
  assert (K3 : nth_error (routers s3) k = Some (with_pc ROrd (with_pc (RCloseOrd c) t1))).
  { unfold s3. rewrite set_pc_routers. apply nth_error_upd_same. exact K2. }
  assert (C3 : chans s3 = upd (chans s) c close_ch) by reflexivity.
  rewrite (router_step_ord s3 k _ K3 eq_refl). set (s4 := set_pc _ k RDone).
  assert (C4 : chans s4 = chans s3) by reflexivity.
  split; [rewrite C4, C3; apply nth_error_upd_same; exact Hc|].
  split; [intros d Nd; rewrite C4, C3, nth_error_upd_other by exact Nd; reflexivity|].
  split; [reflexivity|]. split; [reflexivity|].
  unfold s4. rewrite set_pc_routers. cbn [add_ordinary routers].
  rewrite (nth_error_upd_same _ _ _ _ K3). reflexivity.
Qed.

(* the entry is gone (removed by the canceller, already answered, never registered):
   the response is routed like any other packet, no channel is touched *)
Lemma unmatched_response s i v :
  lookup i (table s) = None ->
  let k := length (routers s) in
  let s' := c_run s [AArrive (result i v); ARouter k; ARouter k] in
  chans s' = chans s /\ table s' = table s /\ ordinary s' = ordinary s ++ [(result i v)] /\
  nth_error (routers s') k = Some {| r_iq := (result i v); r_pc := RDone |}.
Proof.
  intros Hl k s'. subst s'. rewrite !c_run_cons, c_run_nil, !step_router_eq.
  set (s1 := c_step s (AArrive (result i v))).
  set (t1 := {| r_iq := (result i v); r_pc := RStart |}).
  assert (K1 : nth_error (routers s1) k = Some t1) by apply nth_error_snoc_new.
  rewrite (router_step_start_miss s1 k t1 K1 eq_refl eq_refl Hl). set (s2 := set_pc s1 k ROrd).
  assert (K2 : nth_error (routers s2) k = Some (with_pc ROrd t1)).
  { unfold s2. rewrite set_pc_routers. apply nth_error_upd_same. exact K1. }
  rewrite (router_step_ord s2 k _ K2 eq_refl).
  split; [reflexivity|]. split; [reflexivity|]. split; [reflexivity|].
  rewrite set_pc_routers. cbn [add_ordinary routers].
  rewrite (nth_error_upd_same _ _ _ _ K2). reflexivity.
Qed.

(* ------------------------------------------------------------------ *)
(* the pending entry stays until cancelled, unregistered, replaced or answered *)

Definition pending (s : cst) (i : iqid) (c : nat) : Prop :=
  lookup i (table s) = Some c /\ exists ch, nth_error (chans s) c = Some ch /\ c_done ch = false.

(* the actions that can end the pending state of request (i, c) *)
Definition touches (s : cst) (i : iqid) (c : nat) (a : act) : bool :=
  match a with
  | ARegister _ => false                 (* a clashing registration is refused: it changes nothing *)
  | AUnregister d | ACancelDelete d | ACancel d => Nat.eqb d c
  | ARouter k =>                     (* another RESPONSE with this id is taken; a request with this id is not *)
      match nth_error (routers s) k with
      | Some t => match r_pc t with RStart => negb (rreq (r_iq t)) && N.eqb (rid (r_iq t)) i | _ => false end
      | None => false
      end
  | AArrive _ | ARecv _ => false
  end.

Fixpoint untouched (s : cst) (i : iqid) (c : nat) (l : list act) : bool :=
  match l with
  | [] => true
  | a :: l' => negb (touches s i c a) && untouched (c_step s a) i c l'
  end.

Lemma done_upd (l : list chst) c d f ch :
  nth_error l c = Some ch -> (forall x, c_done (f x) = c_done x) ->
  exists ch', nth_error (upd l d f) c = Some ch' /\ c_done ch' = c_done ch.
Proof.
  intros Hc Hf. destruct (Nat.eq_dec c d) as [->|Ne].
  - exists (f ch). split; [apply nth_error_upd_same; exact Hc|apply Hf].
  - exists ch. split; [rewrite nth_error_upd_other by exact Ne; exact Hc|reflexivity].
Qed.

Lemma recv_done ch : c_done (recv_ch ch) = c_done ch.
Proof. unfold recv_ch. destruct (c_buf ch); reflexivity. Qed.

Lemma pending_step s i c a :
  inv s -> pending s i c -> touches s i c a = false -> pending (c_step s a) i c.
Proof.
  intros I (Hl & ch & Hc & Hd) Ht. unfold pending.
  destruct a as [j|d|r|k|d|d|d]; cbn [touches] in Ht.
  - cbn [c_step]. destruct (live s j) eqn:Lv.
    + cbn [refuse table chans]. split; [exact Hl|].
      exists ch. split; [apply nth_error_snoc_old; exact Hc|exact Hd].
    + assert (Nj : i <> j).
      { intros <-. unfold live in Lv. rewrite Hl, Hc, Hd in Lv. discriminate Lv. }
      cbn [register table chans]. split.
      * cbn [lookup]. apply N.eqb_neq in Nj as Nb. rewrite Nb.
        rewrite lookup_remove_id_other by exact Nj. exact Hl.
      * exists ch. split; [apply nth_error_snoc_old; exact Hc|exact Hd].
  - apply Nat.eqb_neq in Ht. cbn [c_step]. destruct (nth_error (chans s) d).
    + cbn [set_table table chans]. split; [apply lookup_remove_chan_other; assumption|]. exists ch. auto.
    + split; [exact Hl|]. exists ch. auto.
  - cbn [c_step table chans]. split; [exact Hl|]. exists ch. auto.
  - rewrite step_router_eq. destruct (router_step_spec s k I) as [Hi|t Hk Hpc Hq|t Hk Hpc Hq Hm|t e ch0 Hk Hpc Hq Hh E1 Eo Ef|t e ch0 Hk Hpc E1 Eo Ef|t e ch0 Hk Hpc E1 Ec|t e ch0 Hk Hpc E1 Ec|t Hk Hpc].
    + split; [exact Hl|]. exists ch. auto.
    + split; [exact Hl|]. exists ch. auto.
    + split; [exact Hl|]. exists ch. auto.
    + rewrite Hk, Hpc, Hq in Ht. cbn [negb andb] in Ht. apply N.eqb_neq in Ht. cbn [set_pc set_routers set_table table chans]. split.
      * rewrite lookup_remove_id_other by congruence. exact Hl.
      * exists ch. auto.
    + cbn [set_pc set_routers set_chans table chans]. split; [exact Hl|].
      destruct (done_upd (chans s) c e (put_ch (r_iq t)) ch Hc) as (ch' & G1 & G2); [reflexivity|].
      exists ch'. split; [exact G1|congruence].
    + cbn [set_pc set_routers set_chans table chans]. split; [exact Hl|].
      destruct (done_upd (chans s) c e close_ch ch Hc) as (ch' & G1 & G2); [reflexivity|].
      exists ch'. split; [exact G1|congruence].
    + cbn [set_pc set_routers set_chans table chans]. split; [exact Hl|].
      destruct (done_upd (chans s) c e close_ch ch Hc) as (ch' & G1 & G2); [reflexivity|].
      exists ch'. split; [exact G1|congruence].
    + cbn [set_pc set_routers add_ordinary table chans]. split; [exact Hl|]. exists ch. auto.
  - rewrite step_recv_eq. cbn [set_chans table chans]. split; [exact Hl|].
    destruct (done_upd (chans s) c d recv_ch ch Hc recv_done) as (ch' & G1 & G2).
    exists ch'. split; [exact G1|congruence].
  - apply Nat.eqb_neq in Ht. rewrite step_cancel_eq. cbn [set_chans table chans]. split; [exact Hl|].
    exists ch. split; [|exact Hd]. rewrite nth_error_upd_other by congruence. exact Hc.
  - apply Nat.eqb_neq in Ht. cbn [c_step]. destruct (nth_error (chans s) d) as [ch0|].
    + destruct (c_done ch0).
      * cbn [set_table table chans]. split; [apply lookup_remove_chan_other; assumption|]. exists ch. auto.
      * split; [exact Hl|]. exists ch. auto.
    + split; [exact Hl|]. exists ch. auto.
Qed.

Lemma pending_run i c l : forall s,
  inv s -> pending s i c -> untouched s i c l = true -> inv (c_run s l) /\ pending (c_run s l) i c.
Proof.
  induction l as [|a l IH]; intros s I Pn Hu; [split; assumption|].
  cbn [untouched] in Hu. apply andb_true_iff in Hu as [Ha Hu]. apply negb_true_iff in Ha.
  rewrite c_run_cons. apply IH; [apply inv_step; exact I|apply pending_step; assumption|exact Hu].
Qed.

Lemma register_pending s i : live s i = false -> pending (c_step s (ARegister i)) i (length (chans s)).
Proof.
  intros Lv. unfold pending. cbn [c_step]. rewrite Lv. cbn [register table chans lookup]. rewrite N.eqb_refl. split; [reflexivity|].
  exists (new_chan i). split; [apply nth_error_snoc_new|reflexivity].
Qed.

(* SendIQ registers (then writes the request); whatever happens afterwards short of
   cancellation / unregistration / a clashing registration / another answer being taken,
   a response arriving at any later point is delivered on that channel, which is then closed *)
Lemma early_response_any_time s0 i l v :
  inv s0 -> live s0 i = false ->
  let c := length (chans s0) in
  let s1 := c_step s0 (ARegister i) in
  untouched s1 i c l = true ->
  let s := c_run s1 l in
  let k := length (routers s) in
  let s' := c_run s [AArrive (result i v); ARouter k; ARouter k; ARouter k] in
  exists ch', nth_error (chans s') c = Some ch' /\ c_owner ch' = i /\ c_closed ch' = true /\
              c_buf ch' = Some (result i v) /\ c_got ch' = [] /\
              lookup i (table s') = None /\ ordinary s' = ordinary s.
Proof.
  intros I0 Lv c s1 Hu s k s'.
  destruct (pending_run i c l s1 (inv_step _ _ I0) (register_pending s0 i Lv) Hu) as (I & Hl & ch & Hc & Hd).
  fold s in I, Hl, Hc.
  destruct (early_response s i v c ch I Hl Hc Hd) as (G1 & _ & G3 & G4 & _).
  fold k in G1, G3, G4. fold s' in G1, G3, G4.
  destruct I as (_ & T & _). destruct (T _ _ (lookup_In _ _ _ Hl)) as (ch0 & E0 & Eo & _ & _ & Eg).
  assert (ch0 = ch) by congruence. subst ch0.
  exists (close_ch (put_ch (result i v) ch)). split; [exact G1|]. cbn [close_ch put_ch c_owner c_closed c_buf c_got].
  split; [exact Eo|]. split; [reflexivity|]. split; [reflexivity|]. split; [exact Eg|].
  split; [rewrite G3; apply lookup_remove_id_same|exact G4].
Qed.

(* ------------------------------------------------------------------ *)
(* a closed channel is never written again                             *)

Lemma closed_stable_step s a c ch :
  inv s -> nth_error (chans s) c = Some ch -> c_closed ch = true ->
  exists ch', nth_error (chans (c_step s a)) c = Some ch' /\ c_closed ch' = true /\
              contents ch' = contents ch /\ c_owner ch' = c_owner ch.
Proof.
  intros I Hc Hcl.
  assert (Same : chans (c_step s a) = chans s ->
            exists ch', nth_error (chans (c_step s a)) c = Some ch' /\ c_closed ch' = true /\
                        contents ch' = contents ch /\ c_owner ch' = c_owner ch).
  { intros E. rewrite E. exists ch. auto. }
  assert (Upd : forall d f, chans (c_step s a) = upd (chans s) d f ->
            (d = c -> c_closed (f ch) = true /\ contents (f ch) = contents ch /\ c_owner (f ch) = c_owner ch) ->
            exists ch', nth_error (chans (c_step s a)) c = Some ch' /\ c_closed ch' = true /\
                        contents ch' = contents ch /\ c_owner ch' = c_owner ch).
  { intros d f E Hf. rewrite E. destruct (Nat.eq_dec d c) as [->|Ne].
    - exists (f ch). split; [apply nth_error_upd_same; exact Hc|]. apply Hf. reflexivity.
    - exists ch. split; [rewrite nth_error_upd_other by congruence; exact Hc|auto]. }
  destruct a as [j|d|r|k|d|d|d].
  - cbn [c_step]. destruct (live s j); cbn [register refuse chans];
      (exists ch; split; [apply nth_error_snoc_old; exact Hc|auto]).
  - apply Same. cbn [c_step]. destruct (nth_error (chans s) d); reflexivity.
  - apply Same. reflexivity.
  - revert Same Upd. rewrite step_router_eq. intros Same Upd.
    destruct (router_step_spec s k I) as [Hi|t Hk Hpc Hq|t Hk Hpc Hq Hm|t e ch0 Hk Hpc Hq Hh E1 Eo Ef|t e ch0 Hk Hpc E1 Eo Ef|t e ch0 Hk Hpc E1 Ec|t e ch0 Hk Hpc E1 Ec|t Hk Hpc];
      try (apply Same; reflexivity).
    + apply (Upd e (put_ch (r_iq t))); [reflexivity|]. intros ->. destruct Ef as (Ef & _). congruence.
    + apply (Upd e close_ch); [reflexivity|]. intros ->. congruence.
    + apply (Upd e close_ch); [reflexivity|]. intros ->. congruence.
  - apply (Upd d recv_ch); [reflexivity|]. intros _. split; [|split; [apply contents_recv|]];
      unfold recv_ch; destruct (c_buf ch); cbn; auto.
  - apply (Upd d cancel_ch); [reflexivity|]. intros _. auto.
  - apply Same. cbn [c_step]. destruct (nth_error (chans s) d) as [ch0|]; [destruct (c_done ch0)|]; reflexivity.
Qed.

Lemma closed_stable l : forall s c ch,
  inv s -> nth_error (chans s) c = Some ch -> c_closed ch = true ->
  exists ch', nth_error (chans (c_run s l)) c = Some ch' /\ c_closed ch' = true /\
              contents ch' = contents ch /\ c_owner ch' = c_owner ch.
Proof.
  induction l as [|a l IH]; intros s c ch I Hc Hcl; [exists ch; auto|].
  rewrite c_run_cons. destruct (closed_stable_step s a c ch I Hc Hcl) as (ch1 & G1 & G2 & G3 & G4).
  destruct (IH _ c ch1 (inv_step _ _ I) G1 G2) as (ch2 & F1 & F2 & F3 & F4).
  exists ch2. split; [exact F1|]. split; [exact F2|]. split; congruence.
Qed.

(* ------------------------------------------------------------------ *)
(* requests (get/set) are never taken for a response                   *)

Lemma nonresponse_routed s r :
  rreq r = true ->
  let k := length (routers s) in
  let s' := c_run s [AArrive r; ARouter k; ARouter k] in
  chans s' = chans s /\ table s' = table s /\ ordinary s' = ordinary s ++ [r] /\
  nth_error (routers s') k = Some {| r_iq := r; r_pc := RDone |}.
Proof.
  intros Hr k s'. subst s'. rewrite !c_run_cons, c_run_nil, !step_router_eq.
  set (s1 := c_step s (AArrive r)).
  set (t1 := {| r_iq := r; r_pc := RStart |}).
  assert (K1 : nth_error (routers s1) k = Some t1) by apply nth_error_snoc_new.
  rewrite (router_step_start_req s1 k t1 K1 eq_refl Hr). set (s2 := set_pc s1 k ROrd).
  assert (K2 : nth_error (routers s2) k = Some (with_pc ROrd t1)).
  { unfold s2. rewrite set_pc_routers. apply nth_error_upd_same. exact K1. }
  rewrite (router_step_ord s2 k _ K2 eq_refl).
  split; [reflexivity|]. split; [reflexivity|]. split; [reflexivity|].
  rewrite set_pc_routers. cbn [add_ordinary routers].
  rewrite (nth_error_upd_same _ _ _ _ K2). reflexivity.
Qed.

Definition values (ch : chst) (v : resp) : Prop := c_buf ch = Some v \/ In v (c_got ch).

(* no goroutine routing a request ever holds a channel; nothing in a channel is a request *)
Definition only_responses (s : cst) : Prop :=
  (forall k t c, nth_error (routers s) k = Some t -> held_by t = Some c -> rreq (r_iq t) = false) /\
  (forall c ch v, nth_error (chans s) c = Some ch -> values ch v -> rreq v = false).

Lemma vals_upd (l : list chst) d f :
  (forall c ch v, nth_error l c = Some ch -> values ch v -> rreq v = false) ->
  (forall ch v, nth_error l d = Some ch -> values (f ch) v -> rreq v = false) ->
  forall c ch v, nth_error (upd l d f) c = Some ch -> values ch v -> rreq v = false.
Proof.
  intros A B c ch v Hc Hv. apply nth_error_upd_inv in Hc as [[-> (x & E1 & ->)]|[_ Hc]].
  - exact (B _ _ E1 Hv).
  - exact (A _ _ _ Hc Hv).
Qed.

Lemma hold_upd (l : list rthread) k t pc' :
  nth_error l k = Some t ->
  (forall j tj c, nth_error l j = Some tj -> held_by tj = Some c -> rreq (r_iq tj) = false) ->
  (forall c, held_by (with_pc pc' t) = Some c -> rreq (r_iq t) = false) ->
  forall j tj c, nth_error (upd l k (with_pc pc')) j = Some tj -> held_by tj = Some c -> rreq (r_iq tj) = false.
Proof.
  intros Hk A B j tj c Hj Hh. apply nth_error_upd_inv in Hj as [[-> (x & E1 & ->)]|[_ Hj]].
  - assert (x = t) by congruence. subst x. exact (B _ Hh).
  - exact (A _ _ _ Hj Hh).
Qed.

Lemma only_responses_init : only_responses c_init.
Proof.
  split; [intros k t c Hk|intros c ch v Hc]; [destruct k|destruct c]; discriminate.
Qed.

Lemma only_responses_step s a : inv s -> only_responses s -> only_responses (c_step s a).
Proof.
  intros I (R1 & R2).
  assert (Snoc : forall j, forall c ch v, nth_error (chans s ++ [new_chan j]) c = Some ch -> values ch v -> rreq v = false).
  { intros j c ch v Hc Hv. apply nth_error_snoc_inv in Hc as [[_ Hc]|[_ ->]]; [exact (R2 _ _ _ Hc Hv)|].
    destruct Hv as [Hv|Hv]; [discriminate Hv|destruct Hv]. }
  destruct a as [j|d|r|k|d|d|d].
  - cbn [c_step]. destruct (live s j); (split; [exact R1|apply Snoc]).
  - cbn [c_step]. destruct (nth_error (chans s) d); split; assumption.
  - split; [|exact R2]. cbn [c_step routers]. intros k t c Hk Hh.
    apply nth_error_snoc_inv in Hk as [[_ Hk]|[_ ->]]; [exact (R1 _ _ _ Hk Hh)|discriminate Hh].
  - rewrite step_router_eq.
    destruct (router_step_spec s k I) as [Hi|t Hk Hpc Hq|t Hk Hpc Hq Hm|t e ch0 Hk Hpc Hq Hh E1 Eo Ef|t e ch0 Hk Hpc E1 Eo Ef|t e ch0 Hk Hpc E1 Ec|t e ch0 Hk Hpc E1 Ec|t Hk Hpc].
    + split; assumption.
    + split; [|exact R2]. rewrite set_pc_routers. apply (hold_upd _ _ t); [exact Hk|exact R1|]. intros c Hc; discriminate Hc.
    + split; [|exact R2]. rewrite set_pc_routers. apply (hold_upd _ _ t); [exact Hk|exact R1|]. intros c Hc; discriminate Hc.
    + split; [|exact R2]. rewrite set_pc_routers. cbn [set_table routers].
      apply (hold_upd _ _ t); [exact Hk|exact R1|]. intros _ _. exact Hq.
    + assert (Rt : rreq (r_iq t) = false) by (apply (R1 k t e Hk); unfold held_by; rewrite Hpc; reflexivity).
      split.
      * rewrite set_pc_routers. cbn [set_chans routers]. apply (hold_upd _ _ t); [exact Hk|exact R1|]. intros _ _. exact Rt.
      * cbn [set_pc set_routers set_chans chans]. apply vals_upd; [exact R2|].
        intros ch v Hc [Hv|Hv]; cbn [put_ch c_buf c_got] in Hv; [congruence|].
        apply (R2 _ _ v Hc). right. exact Hv.
    + split.
      * rewrite set_pc_routers. cbn [set_chans routers]. apply (hold_upd _ _ t); [exact Hk|exact R1|]. intros c Hc; discriminate Hc.
      * cbn [set_pc set_routers set_chans chans]. apply vals_upd; [exact R2|]. intros ch v Hc Hv. exact (R2 _ _ v Hc Hv).
    + split.
      * rewrite set_pc_routers. cbn [set_chans routers]. apply (hold_upd _ _ t); [exact Hk|exact R1|]. intros c Hc; discriminate Hc.
      * cbn [set_pc set_routers set_chans chans]. apply vals_upd; [exact R2|]. intros ch v Hc Hv. exact (R2 _ _ v Hc Hv).
    + split; [|exact R2]. rewrite set_pc_routers. cbn [add_ordinary routers].
      apply (hold_upd _ _ t); [exact Hk|exact R1|]. intros c Hc; discriminate Hc.
  - rewrite step_recv_eq. split; [exact R1|]. cbn [set_chans chans]. apply vals_upd; [exact R2|].
    intros ch v Hc Hv. apply (R2 _ _ v Hc). unfold values, recv_ch in *. destruct (c_buf ch) as [w|] eqn:E; [|rewrite E in Hv; exact Hv].
    cbn [c_buf c_got] in Hv. destruct Hv as [Hv|Hv]; [discriminate Hv|].
    apply in_app_iff in Hv as [Hv|[<-|[]]]; auto.
  - rewrite step_cancel_eq. split; [exact R1|]. cbn [set_chans chans]. apply vals_upd; [exact R2|].
    intros ch v Hc Hv. exact (R2 _ _ v Hc Hv).
  - cbn [c_step]. destruct (nth_error (chans s) d) as [ch0|]; [destruct (c_done ch0)|]; split; assumption.
Qed.

(* ------------------------------------------------------------------ *)
(* a refused SendIQ changes nothing; its slot stays empty for ever      *)

Lemma refused_spec s i :
  live s i = true ->
  let s' := c_step s (ARegister i) in
  table s' = table s /\ routers s' = routers s /\ ordinary s' = ordinary s /\ arrived s' = arrived s /\
  chans s' = chans s ++ [new_chan i] /\ refused s' = refused s ++ [length (chans s)] /\ panicked s' = panicked s.
Proof. intros Lv. cbn [c_step]. rewrite Lv. cbn. repeat split. Qed.

Lemma accepted_spec s i :
  live s i = false ->
  let s' := c_step s (ARegister i) in
  lookup i (table s') = Some (length (chans s)) /\ chans s' = chans s ++ [new_chan i] /\ refused s' = refused s.
Proof. intros Lv. cbn [c_step]. rewrite Lv. cbn. rewrite N.eqb_refl. repeat split. Qed.

Lemma pending_live s i c : pending s i c -> live s i = true.
Proof. intros (Hl & ch & Hc & Hd). unfold live. rewrite Hl, Hc, Hd. reflexivity. Qed.

(* slot c: untouched channel, in no table entry, held by nobody *)
Definition inert (s : cst) (c : nat) : Prop :=
  (exists ch, nth_error (chans s) c = Some ch /\ fresh_ch ch) /\
  ~ In c (map snd (table s)) /\
  (forall k t, nth_error (routers s) k = Some t -> held_by t <> Some c).

Lemma inert_of s s' c :
  (forall x, In x (table s') -> In x (table s)) ->
  (exists ch, nth_error (chans s') c = Some ch /\ fresh_ch ch) ->
  (forall j tj, nth_error (routers s') j = Some tj -> held_by tj <> Some c) ->
  ~ In c (map snd (table s)) -> inert s' c.
Proof.
  intros Sub Hc Hu Ht. split; [exact Hc|]. split; [|exact Hu].
  intros Hin. apply Ht. apply in_map_iff in Hin as (x & E & Hin). apply in_map_iff. exists x. split; [exact E|apply Sub; exact Hin].
Qed.

Lemma unheld_upd (l : list rthread) k t pc' c :
  nth_error l k = Some t ->
  (forall j tj, nth_error l j = Some tj -> held_by tj <> Some c) ->
  held_by (with_pc pc' t) <> Some c ->
  forall j tj, nth_error (upd l k (with_pc pc')) j = Some tj -> held_by tj <> Some c.
Proof.
  intros Hk A B j tj Hj. apply nth_error_upd_inv in Hj as [[-> (x & E1 & ->)]|[_ Hj]].
  - assert (x = t) by congruence. subst x. exact B.
  - exact (A _ _ Hj).
Qed.

Lemma refuse_inert s i : inv s -> inert (refuse s i) (length (chans s)).
Proof.
  intros (P & T & N & U & O & H & C). unfold inert. cbn [refuse table chans routers].
  split; [exists (new_chan i); split; [apply nth_error_snoc_new|unfold fresh_ch; cbn; auto]|]. split.
  - intros Hin. apply in_map_iff in Hin as ([j d] & E & Hin). cbn in E. subst d.
    destruct (T _ _ Hin) as (ch & E1 & _). apply nth_error_lt in E1. lia.
  - intros k t Hk Hh. destruct (H _ _ _ Hk Hh) as (ch & E1 & _). apply nth_error_lt in E1. lia.
Qed.

Lemma inert_step s a c : inv s -> inert s c -> inert (c_step s a) c.
Proof.
  intros I ((ch & Hc & Hf) & Ht & Hu). pose proof I as (P & T & N & U & O & H & C).
  assert (Lt : c < length (chans s)) by (apply nth_error_lt in Hc; exact Hc).
  assert (Keep : exists ch', nth_error (chans s) c = Some ch' /\ fresh_ch ch') by (exists ch; auto).
  destruct a as [j|d|r|k|d|d|d].
  - cbn [c_step]. destruct (live s j).
    + apply (inert_of s); cbn [refuse table chans routers]; auto.
      exists ch. split; [apply nth_error_snoc_old; exact Hc|exact Hf].
    + split; [|split]; cbn [register table chans routers]; [| |exact Hu].
      * exists ch. split; [apply nth_error_snoc_old; exact Hc|exact Hf].
      * cbn [map snd]. intros [E|Hin]; [lia|]. apply Ht.
        apply in_map_iff in Hin as ([j' d'] & E & Hin). apply In_remove_id in Hin as [Hin _].
        apply in_map_iff. exists (j', d'). auto.
  - cbn [c_step]. destruct (nth_error (chans s) d); [|split; [exact Keep|split; assumption]].
    apply (inert_of s); cbn [set_table table chans routers]; auto.
    intros [j' d'] Hin. apply In_remove_chan in Hin. tauto.
  - apply (inert_of s); cbn [c_step table chans routers]; auto.
    intros j tj Hj. apply nth_error_snoc_inv in Hj as [[_ Hj]|[_ ->]]; [exact (Hu _ _ Hj)|discriminate].
  - rewrite step_router_eq.
    destruct (router_step_spec s k I) as [Hi|t Hk Hpc Hq|t Hk Hpc Hq Hm|t e ch0 Hk Hpc Hq Hh E1 Eo Ef|t e ch0 Hk Hpc E1 Eo Ef|t e ch0 Hk Hpc E1 Ec|t e ch0 Hk Hpc E1 Ec|t Hk Hpc].
    + split; [exact Keep|split; assumption].
    + apply (inert_of s); auto. rewrite set_pc_routers. apply (unheld_upd _ _ t); auto. discriminate.
    + apply (inert_of s); auto. rewrite set_pc_routers. apply (unheld_upd _ _ t); auto. discriminate.
    + apply (inert_of s); auto.
      * cbn [set_pc set_routers set_table table]. intros [j' d'] Hin. apply In_remove_id in Hin. tauto.
      * rewrite set_pc_routers. cbn [set_table routers]. apply (unheld_upd _ _ t); auto.
        assert (Ne : e <> c).
        { intros ->. apply Ht. apply in_map_iff. exists (rid (r_iq t), c). split; [reflexivity|apply lookup_In; exact Hh]. }
        destruct (c_done ch0); unfold held_by; cbn; congruence.
    + assert (Ne : e <> c).
      { intros ->. apply (Hu _ _ Hk). unfold held_by. rewrite Hpc. reflexivity. }
      apply (inert_of s); auto.
      * cbn [set_pc set_routers set_chans chans]. exists ch. split; [|exact Hf].
        rewrite nth_error_upd_other by congruence. exact Hc.
      * rewrite set_pc_routers. cbn [set_chans routers]. apply (unheld_upd _ _ t); auto.
        unfold held_by; cbn; congruence.
    + assert (Ne : e <> c).
      { intros ->. apply (Hu _ _ Hk). unfold held_by. rewrite Hpc. reflexivity. }
      apply (inert_of s); auto.
      * cbn [set_pc set_routers set_chans chans]. exists ch. split; [|exact Hf].
        rewrite nth_error_upd_other by congruence. exact Hc.
      * rewrite set_pc_routers. cbn [set_chans routers]. apply (unheld_upd _ _ t); auto. discriminate.
    + assert (Ne : e <> c).
      { intros ->. apply (Hu _ _ Hk). unfold held_by. rewrite Hpc. reflexivity. }
      apply (inert_of s); auto.
      * cbn [set_pc set_routers set_chans chans]. exists ch. split; [|exact Hf].
        rewrite nth_error_upd_other by congruence. exact Hc.
      * rewrite set_pc_routers. cbn [set_chans routers]. apply (unheld_upd _ _ t); auto. discriminate.
    + apply (inert_of s); auto. rewrite set_pc_routers. cbn [add_ordinary routers].
      apply (unheld_upd _ _ t); auto. discriminate.
  - rewrite step_recv_eq. apply (inert_of s); cbn [set_chans table chans routers]; auto.
    destruct (Nat.eq_dec c d) as [<-|Ne].
    + exists (recv_ch ch). split; [apply nth_error_upd_same; exact Hc|]. exact (recv_like_fresh _ _ (recv_like_recv ch) Hf).
    + exists ch. split; [rewrite nth_error_upd_other by exact Ne; exact Hc|exact Hf].
  - rewrite step_cancel_eq. apply (inert_of s); cbn [set_chans table chans routers]; auto.
    destruct (Nat.eq_dec c d) as [<-|Ne].
    + exists (cancel_ch ch). split; [apply nth_error_upd_same; exact Hc|]. exact (recv_like_fresh _ _ (recv_like_cancel ch) Hf).
    + exists ch. split; [rewrite nth_error_upd_other by exact Ne; exact Hc|exact Hf].
  - cbn [c_step]. destruct (nth_error (chans s) d) as [ch0|]; [|split; [exact Keep|split; assumption]].
    destruct (c_done ch0); [|split; [exact Keep|split; assumption]].
    apply (inert_of s); cbn [set_table table chans routers]; auto.
    intros [j' d'] Hin. apply In_remove_chan in Hin. tauto.
Qed.

Lemma refused_step s a :
  inv s -> refused (c_step s a) = refused s \/
           (exists i, a = ARegister i /\ live s i = true /\ c_step s a = refuse s i).
Proof.
  intros I. destruct a as [j|d|r|k|d|d|d]; try (left; reflexivity).
  - cbn [c_step]. destruct (live s j) eqn:Lv; [right; exists j; auto|left; reflexivity].
  - left. cbn [c_step]. destruct (nth_error (chans s) d); reflexivity.
  - left. rewrite step_router_eq. destruct (router_step_spec s k I); reflexivity.
  - left. cbn [c_step]. destruct (nth_error (chans s) d) as [ch0|]; [destruct (c_done ch0)|]; reflexivity.
Qed.

(* every refused request's slot is inert, in every reachable state *)
Definition refused_inert (s : cst) : Prop := forall c, In c (refused s) -> inert s c.

Lemma refused_inert_step s a : inv s -> refused_inert s -> refused_inert (c_step s a).
Proof.
  intros I R c Hin. destruct (refused_step s a I) as [E|(i & -> & Lv & E)].
  - rewrite E in Hin. apply inert_step; [exact I|apply R; exact Hin].
  - pose proof (inert_step s (ARegister i) c I) as St. rewrite E in *. cbn [refuse refused] in Hin.
    apply in_app_iff in Hin as [Hin|[<-|[]]]; [apply St, R; exact Hin|apply refuse_inert; exact I].
Qed.

Lemma inv_all_run l : forall s,
  inv s -> only_responses s -> refused_inert s ->
  inv (c_run s l) /\ only_responses (c_run s l) /\ refused_inert (c_run s l).
Proof.
  induction l as [|a l IH]; intros s I R F; [auto|]. rewrite c_run_cons. apply IH.
  - apply inv_step; exact I.
  - apply only_responses_step; assumption.
  - apply refused_inert_step; assumption.
Qed.

(* ------------------------------------------------------------------ *)
(* the statements for every schedule from the initial state            *)

Lemma reach_at_most_once l :
  let s := c_run c_init l in
  (forall c ch, nth_error (chans s) c = Some ch ->
     length (c_got ch) + (match c_buf ch with Some _ => 1 | None => 0 end) <= 1) /\
  (forall k t c ch, nth_error (routers s) k = Some t ->
     r_pc t = RSend c \/ r_pc t = RClose c \/ r_pc t = RCloseOrd c ->
     nth_error (chans s) c = Some ch -> c_closed ch = false).
Proof. cbn zeta. apply inv_at_most_once. apply inv_reachable. Qed.

Lemma reach_closed_final l l' c ch :
  let s := c_run c_init l in
  nth_error (chans s) c = Some ch -> c_closed ch = true ->
  exists ch', nth_error (chans (c_run s l')) c = Some ch' /\ c_closed ch' = true /\
              contents ch' = contents ch /\ c_owner ch' = c_owner ch.
Proof. cbn zeta. apply closed_stable. apply inv_reachable. Qed.

Lemma reach_right_owner l :
  let s := c_run c_init l in
  forall c ch v, nth_error (chans s) c = Some ch ->
    (c_buf ch = Some v \/ In v (c_got ch)) -> rid v = c_owner ch.
Proof. cbn zeta. apply inv_right_owner. apply inv_reachable. Qed.

Lemma reach_never_blocks l k : blocked (c_run c_init l) k = false.
Proof. apply inv_never_blocks. apply inv_reachable. Qed.

Lemma reach_progress l k t :
  let s := c_run c_init l in
  nth_error (routers s) k = Some t ->
  exists t', nth_error (routers (c_step s (ARouter k))) k = Some t' /\ r_iq t' = r_iq t /\
             rank (r_pc t') <= pred (rank (r_pc t)).
Proof. cbn zeta. apply router_progress. apply inv_reachable. Qed.

Lemma reach_early_response l i v c :
  let s := c_run c_init l in
  lookup i (table s) = Some c ->
  (forall ch, nth_error (chans s) c = Some ch -> c_done ch = false) ->
  let k := length (routers s) in
  let s' := c_run s [AArrive (result i v); ARouter k; ARouter k; ARouter k] in
  (exists ch', nth_error (chans s') c = Some ch' /\ c_owner ch' = i /\ c_closed ch' = true /\
               c_buf ch' = Some (result i v) /\ c_got ch' = []) /\
  (forall d, d <> c -> nth_error (chans s') d = nth_error (chans s) d) /\
  lookup i (table s') = None /\ ordinary s' = ordinary s /\
  nth_error (routers s') k = Some {| r_iq := (result i v); r_pc := RDone |}.
Proof.
  intros s Hl Hd k s'. pose proof (inv_reachable l) as I. fold s in I.
  pose proof I as (_ & T & _). destruct (T _ _ (lookup_In _ _ _ Hl)) as (ch & E0 & Eo & _ & _ & Eg).
  destruct (early_response s i v c ch I Hl E0 (Hd _ E0)) as (G1 & G2 & G3 & G4 & G5).
  fold k in G1, G2, G3, G4, G5. fold s' in G1, G2, G3, G4, G5.
  split; [|split; [exact G2|split; [rewrite G3; apply lookup_remove_id_same|split; assumption]]].
  exists (close_ch (put_ch (result i v) ch)). split; [exact G1|]. cbn [close_ch put_ch c_owner c_closed c_buf c_got]. auto.
Qed.

Lemma reach_early_response_any_time l0 i l v :
  let s0 := c_run c_init l0 in
  live s0 i = false ->
  let c := length (chans s0) in
  let s1 := c_step s0 (ARegister i) in
  untouched s1 i c l = true ->
  let s := c_run s1 l in
  let k := length (routers s) in
  let s' := c_run s [AArrive (result i v); ARouter k; ARouter k; ARouter k] in
  exists ch', nth_error (chans s') c = Some ch' /\ c_owner ch' = i /\ c_closed ch' = true /\
              c_buf ch' = Some (result i v) /\ c_got ch' = [] /\
              lookup i (table s') = None /\ ordinary s' = ordinary s.
Proof. cbn zeta. apply early_response_any_time. apply inv_reachable. Qed.

Lemma reach_cancelled_response l i v c :
  let s := c_run c_init l in
  lookup i (table s) = Some c ->
  (forall ch, nth_error (chans s) c = Some ch -> c_done ch = true) ->
  let k := length (routers s) in
  let s' := c_run s [AArrive (result i v); ARouter k; ARouter k; ARouter k] in
  (exists ch', nth_error (chans s') c = Some ch' /\ c_closed ch' = true /\
               c_buf ch' = None /\ c_got ch' = []) /\
  (forall d, d <> c -> nth_error (chans s') d = nth_error (chans s) d) /\
  lookup i (table s') = None /\ ordinary s' = ordinary s ++ [(result i v)] /\
  nth_error (routers s') k = Some {| r_iq := (result i v); r_pc := RDone |}.
Proof.
  intros s Hl Hd k s'. pose proof (inv_reachable l) as I. fold s in I.
  pose proof I as (_ & T & _). destruct (T _ _ (lookup_In _ _ _ Hl)) as (ch & E0 & Eo & _ & Eb & Eg).
  destruct (cancelled_response s i v c ch I Hl E0 (Hd _ E0)) as (G1 & G2 & G3 & G4 & G5).
  fold k in G1, G2, G3, G4, G5. fold s' in G1, G2, G3, G4, G5.
  split; [|split; [exact G2|split; [rewrite G3; apply lookup_remove_id_same|split; assumption]]].
  exists (close_ch ch). split; [exact G1|]. cbn [close_ch c_closed c_buf c_got]. auto.
Qed.

Lemma reach_all l :
  inv (c_run c_init l) /\ only_responses (c_run c_init l) /\ refused_inert (c_run c_init l).
Proof.
  apply inv_all_run; [exact inv_init|exact only_responses_init|]. intros c [].
Qed.

(* a request (get/set) never reaches a SendIQ caller and no goroutine routing one ever owns a
   pending entry's channel *)
Lemma reach_only_responses l :
  let s := c_run c_init l in
  (forall c ch v, nth_error (chans s) c = Some ch -> (c_buf ch = Some v \/ In v (c_got ch)) -> rreq v = false) /\
  (forall k t, nth_error (routers s) k = Some t -> rreq (r_iq t) = true ->
     r_pc t = RStart \/ r_pc t = ROrd \/ r_pc t = RDone).
Proof.
  cbn zeta. destruct (reach_all l) as (_ & (R1 & R2) & _). split; [exact R2|].
  intros k t Hk Hq. destruct (r_pc t) as [|c|c|c| |] eqn:Hpc; auto;
    (assert (Hh : held_by t = Some c) by (unfold held_by; rewrite Hpc; reflexivity));
    rewrite (R1 _ _ _ Hk Hh) in Hq; discriminate Hq.
Qed.

(* a clashing SendIQ: the id is still awaiting its response *)
Lemma reach_refused l i c :
  let s := c_run c_init l in
  lookup i (table s) = Some c ->
  (forall ch, nth_error (chans s) c = Some ch -> c_done ch = false) ->
  let s' := c_step s (ARegister i) in
  table s' = table s /\ routers s' = routers s /\ ordinary s' = ordinary s /\ arrived s' = arrived s /\
  chans s' = chans s ++ [new_chan i] /\ refused s' = refused s ++ [length (chans s)] /\
  forall l', let s'' := c_run s' l' in
    exists ch, nth_error (chans s'') (length (chans s)) = Some ch /\
               c_buf ch = None /\ c_got ch = [] /\ c_closed ch = false.
Proof.
  intros s Hl Hd s'. destruct (reach_all l) as (I & _ & F). fold s in I, F.
  assert (Lv : live s i = true).
  { pose proof I as (_ & T & _). destruct (T _ _ (lookup_In _ _ _ Hl)) as (ch & E0 & _).
    unfold live. rewrite Hl, E0, (Hd _ E0). reflexivity. }
  destruct (refused_spec s i Lv) as (G1 & G2 & G3 & G4 & G5 & G6 & _). fold s' in G1, G2, G3, G4, G5, G6.
  repeat (split; [assumption|]).
  intros l' s''. assert (In0 : inert s' (length (chans s))).
  { unfold s'. cbn [c_step]. rewrite Lv. apply refuse_inert. exact I. }
  assert (Run : forall l1 s1, inv s1 -> inert s1 (length (chans s)) -> inert (c_run s1 l1) (length (chans s))).
  { induction l1 as [|a l1 IH]; intros s1 I1 N1; [exact N1|]. rewrite c_run_cons.
    apply IH; [apply inv_step; exact I1|apply inert_step; assumption]. }
  destruct (Run l' s' (inv_step _ _ I) In0) as ((ch & Hc & Hcl & Hb & Hg) & _).
  exists ch. auto.
Qed.

(* in every reachable state the slots of all refused requests are empty and untouched *)
Lemma reach_refused_inert l :
  let s := c_run c_init l in
  forall c, In c (refused s) ->
    (exists ch, nth_error (chans s) c = Some ch /\ c_buf ch = None /\ c_got ch = [] /\ c_closed ch = false) /\
    ~ In c (map snd (table s)).
Proof.
  cbn zeta. intros c Hin. destruct (reach_all l) as (_ & _ & F).
  destruct (F c Hin) as ((ch & Hc & Hcl & Hb & Hg) & Ht & _). split; [exists ch; auto|exact Ht].
Qed.

(* a pending request is never displaced by a clashing registration, nor consumed by a
   request (get/set) carrying its id *)
Lemma reach_pending_kept l i c a :
  let s := c_run c_init l in
  pending s i c ->
  (exists j, a = ARegister j) \/
  (exists k t, a = ARouter k /\ nth_error (routers s) k = Some t /\ rreq (r_iq t) = true) ->
  pending (c_step s a) i c.
Proof.
  intros s Pn Ha. apply pending_step; [apply inv_reachable|exact Pn|].
  destruct Ha as [(j & ->)|(k & t & -> & Hk & Hq)]; [reflexivity|].
  cbn [touches]. fold s. rewrite Hk. destruct (r_pc t); try reflexivity. rewrite Hq. reflexivity.
Qed.

(* ------------------------------------------------------------------ *)
(* what happens to ONE routing goroutine under every interleaving      *)

(* the steps of other goroutines leave goroutine k alone *)
Lemma router_other s a k t :
  inv s -> nth_error (routers s) k = Some t -> a <> ARouter k ->
  nth_error (routers (c_step s a)) k = Some t.
Proof.
  intros I Hk Na. destruct a as [j|d|r|k'|d|d|d].
  - cbn [c_step]. destruct (live s j); exact Hk.
  - cbn [c_step]. destruct (nth_error (chans s) d); exact Hk.
  - cbn [c_step routers]. apply nth_error_snoc_old. exact Hk.
  - assert (Nk : k <> k') by congruence. rewrite step_router_eq.
    destruct (router_step_spec s k' I); try exact Hk;
      rewrite set_pc_routers; cbn [set_table set_chans add_ordinary routers];
      rewrite nth_error_upd_other by exact Nk; exact Hk.
  - exact Hk.
  - exact Hk.
  - cbn [c_step]. destruct (nth_error (chans s) d) as [ch0|]; [destruct (c_done ch0)|]; exact Hk.
Qed.

Lemma ordinary_step s a : inv s -> exists suf, ordinary (c_step s a) = ordinary s ++ suf.
Proof.
  intros I. destruct a as [j|d|r|k|d|d|d]; try (exists []; rewrite app_nil_r; reflexivity).
  - exists []. rewrite app_nil_r. cbn [c_step]. destruct (live s j); reflexivity.
  - exists []. rewrite app_nil_r. cbn [c_step]. destruct (nth_error (chans s) d); reflexivity.
  - rewrite step_router_eq. destruct (router_step_spec s k I) as [| | | | | | |t Hk Hpc];
      try (exists []; rewrite app_nil_r; reflexivity).
    exists [r_iq t]. reflexivity.
  - exists []. rewrite app_nil_r. cbn [c_step]. destruct (nth_error (chans s) d) as [ch0|]; [destruct (c_done ch0)|]; reflexivity.
Qed.

Fixpoint steps_of (k : nat) (l : list act) : nat :=
  match l with
  | [] => 0
  | ARouter k' :: l' => (if Nat.eqb k' k then 1 else 0) + steps_of k l'
  | _ :: l' => steps_of k l'
  end.

(* goroutine k is finished as soon as it has been scheduled rank-many (at most three) times,
   whatever the other goroutines do in between *)
Lemma router_finishes l' : forall s k t,
  inv s -> nth_error (routers s) k = Some t -> rank (r_pc t) <= steps_of k l' ->
  exists t', nth_error (routers (c_run s l')) k = Some t' /\ r_iq t' = r_iq t /\ r_pc t' = RDone.
Proof.
  induction l' as [|a l' IH]; intros s k t I Hk Hr.
  - exists t. split; [exact Hk|]. split; [reflexivity|]. cbn in Hr. destruct (r_pc t); cbn in Hr; try lia. reflexivity.
  - rewrite c_run_cons.
    assert (D : a = ARouter k \/ (a <> ARouter k /\ steps_of k (a :: l') = steps_of k l')).
    { destruct a as [j|d|r|k'|d|d|d]; try (right; split; [discriminate|reflexivity]).
      destruct (Nat.eq_dec k' k) as [->|Ne]; [left; reflexivity|].
      right. split; [congruence|]. cbn [steps_of]. apply Nat.eqb_neq in Ne. rewrite Ne. reflexivity. }
    destruct D as [->|[Na Es]].
    + rewrite step_router_eq. destruct (router_progress s k t I Hk) as (t1 & H1 & E1 & R1).
      cbn [steps_of] in Hr. rewrite Nat.eqb_refl in Hr.
      destruct (IH (router_step s k) k t1 (inv_router s k I) H1) as (t' & G1 & G2 & G3); [lia|].
      exists t'. split; [exact G1|]. split; [congruence|exact G3].
    + rewrite Es in Hr. apply (IH (c_step s a) k t (inv_step _ _ I) (router_other s a k t I Hk Na) Hr).
Qed.

Lemma cnt_flat_map_ge {A} (g : A -> list resp) l n a x :
  nth_error l n = Some a -> cnt x (g a) <= cnt x (flat_map g l).
Proof.
  intros H. apply nth_error_split in H as (l1 & l2 & -> & _).
  rewrite flat_map_app. cbn [flat_map]. rewrite !cnt_app. lia.
Qed.

Lemma cnt_single x : cnt x [x] = 1.
Proof. unfold cnt. cbn. destruct (resp_dec x x); [reflexivity|congruence]. Qed.

(* the lookup of goroutine k HIT a live entry: it holds channel c and will send r on it *)
Definition hit_track (s : cst) (k c : nat) (r : resp) : Prop :=
  exists t, nth_error (routers s) k = Some t /\ r_iq t = r /\
    (r_pc t = RSend c \/ r_pc t = RClose c \/
     (r_pc t = RDone /\ exists ch, nth_error (chans s) c = Some ch /\ c_closed ch = true /\
                                   contents ch = [r] /\ c_owner ch = rid r)).

Lemma hit_track_step s a k c r : inv s -> hit_track s k c r -> hit_track (c_step s a) k c r.
Proof.
  intros I (t & Hk & Er & D). pose proof I as (P & T & N & U & O & H & C).
  assert (Dec : a = ARouter k \/ a <> ARouter k).
  { destruct a as [j|d|x|k'|d|d|d]; try (right; discriminate).
    destruct (Nat.eq_dec k' k) as [->|Ne]; [left; reflexivity|right; congruence]. }
  destruct Dec as [->|Na].
  - rewrite step_router_eq. destruct D as [Hpc|[Hpc|[Hpc Hch]]].
    + assert (Hh : held_by t = Some c) by (unfold held_by; rewrite Hpc; reflexivity).
      destruct (H _ _ _ Hk Hh) as (ch & E1 & Eo & Ec & Eb). rewrite Hpc in Eb. destruct Eb as [Eb Eg].
      rewrite (router_step_send s k t c ch Hk Hpc E1 Ec Eb).
      exists (with_pc (RClose c) t). split; [rewrite set_pc_routers; apply nth_error_upd_same; exact Hk|].
      split; [exact Er|]. right. left. reflexivity.
    + assert (Hh : held_by t = Some c) by (unfold held_by; rewrite Hpc; reflexivity).
      destruct (H _ _ _ Hk Hh) as (ch & E1 & Eo & Ec & Eb). rewrite Hpc in Eb.
      rewrite (router_step_close s k t c ch Hk Hpc E1 Ec).
      exists (with_pc RDone t). split; [rewrite set_pc_routers; apply nth_error_upd_same; exact Hk|].
      split; [exact Er|]. right. right. split; [reflexivity|].
      exists (close_ch ch). split; [cbn [set_pc set_routers set_chans chans]; apply nth_error_upd_same; exact E1|].
      split; [reflexivity|]. split; [|cbn [close_ch c_owner]; congruence].
      unfold contents, close_ch; cbn [c_got c_buf]. rewrite <- Er.
      destruct Eb as [[Eb Eg]|[Eb Eg]]; rewrite Eb, Eg; reflexivity.
    + rewrite (router_step_done s k t Hk Hpc). exists t. split; [exact Hk|]. split; [exact Er|]. auto.
  - exists t. split; [apply router_other; assumption|]. split; [exact Er|].
    destruct D as [Hpc|[Hpc|[Hpc (ch & E1 & Ecl & Ect & Eo)]]]; auto.
    right. right. split; [exact Hpc|].
    destruct (closed_stable_step s a c ch I E1 Ecl) as (ch' & G1 & G2 & G3 & G4).
    exists ch'. split; [exact G1|]. split; [exact G2|]. split; congruence.
Qed.

(* ... or it hit an entry whose context had ended: it closes c and routes r ordinarily *)
Definition miss_track (s : cst) (k c : nat) (r : resp) : Prop :=
  exists t, nth_error (routers s) k = Some t /\ r_iq t = r /\
    (r_pc t = RCloseOrd c \/
     ((r_pc t = ROrd \/ (r_pc t = RDone /\ In r (ordinary s))) /\
      exists ch, nth_error (chans s) c = Some ch /\ c_closed ch = true /\ contents ch = [])).

Lemma miss_track_step s a k c r : inv s -> miss_track s k c r -> miss_track (c_step s a) k c r.
Proof.
  intros I (t & Hk & Er & D). pose proof I as (P & T & N & U & O & H & C).
  assert (Dec : a = ARouter k \/ a <> ARouter k).
  { destruct a as [j|d|x|k'|d|d|d]; try (right; discriminate).
    destruct (Nat.eq_dec k' k) as [->|Ne]; [left; reflexivity|right; congruence]. }
  destruct Dec as [->|Na].
  - rewrite step_router_eq. destruct D as [Hpc|[[Hpc|[Hpc Hin]] Hch]].
    + assert (Hh : held_by t = Some c) by (unfold held_by; rewrite Hpc; reflexivity).
      destruct (H _ _ _ Hk Hh) as (ch & E1 & Eo & Ec & Eb). rewrite Hpc in Eb. destruct Eb as [Eb Eg].
      rewrite (router_step_closeord s k t c ch Hk Hpc E1 Ec).
      exists (with_pc ROrd t). split; [rewrite set_pc_routers; apply nth_error_upd_same; exact Hk|].
      split; [exact Er|]. right. split; [left; reflexivity|].
      exists (close_ch ch). split; [cbn [set_pc set_routers set_chans chans]; apply nth_error_upd_same; exact E1|].
      split; [reflexivity|]. unfold contents, close_ch; cbn [c_got c_buf]. rewrite Eb, Eg. reflexivity.
    + rewrite (router_step_ord s k t Hk Hpc).
      exists (with_pc RDone t). split; [rewrite set_pc_routers; apply nth_error_upd_same; exact Hk|].
      split; [exact Er|]. right. split; [|exact Hch]. right. split; [reflexivity|].
      cbn [set_pc set_routers add_ordinary ordinary]. apply in_or_app. right. left. exact Er.
    + rewrite (router_step_done s k t Hk Hpc). exists t. split; [exact Hk|]. split; [exact Er|]. right. auto.
  - exists t. split; [apply router_other; assumption|]. split; [exact Er|].
    destruct D as [Hpc|[Hp (ch & E1 & Ecl & Ect)]]; [left; exact Hpc|]. right. split.
    + destruct Hp as [Hpc|[Hpc Hin]]; [left; exact Hpc|]. right. split; [exact Hpc|].
      destruct (ordinary_step s a I) as (suf & ->). apply in_or_app. left. exact Hin.
    + destruct (closed_stable_step s a c ch I E1 Ecl) as (ch' & G1 & G2 & G3 & _).
      exists ch'. split; [exact G1|]. split; [exact G2|congruence].
Qed.

Lemma track_run (Tr : cst -> Prop) :
  (forall s a, inv s -> Tr s -> Tr (c_step s a)) ->
  forall l s, inv s -> bal s -> Tr s -> inv (c_run s l) /\ bal (c_run s l) /\ Tr (c_run s l).
Proof.
  intros St. induction l as [|a l IH]; intros s I B X; [auto|]. rewrite c_run_cons.
  apply IH; [apply inv_step; exact I|apply bal_step; assumption|apply St; assumption].
Qed.

Lemma reach_hit_delivers l k t c l' :
  let s := c_run c_init l in
  nth_error (routers s) k = Some t -> r_pc t = RSend c ->
  let s' := c_run s l' in
  exists t', nth_error (routers s') k = Some t' /\ r_iq t' = r_iq t /\
    (r_pc t' = RSend c \/ r_pc t' = RClose c \/ r_pc t' = RDone) /\
    (r_pc t' = RDone ->
       exists ch', nth_error (chans s') c = Some ch' /\ c_closed ch' = true /\
                   contents ch' = [r_iq t] /\ c_owner ch' = rid (r_iq t)) /\
    (cnt (r_iq t) (arrived s') = 1 -> cnt (r_iq t) (ordinary s') = 0).
Proof.
  intros s Hk Hpc s'.
  destruct (inv_bal_run l c_init inv_init bal_init) as (I & B). fold s in I, B.
  assert (X : hit_track s k c (r_iq t)) by (exists t; auto).
  destruct (track_run (fun x => hit_track x k c (r_iq t)) (fun x a => hit_track_step x a k c (r_iq t)) l' s I B X)
    as (I' & B' & (t' & Hk' & Er & D)). fold s' in I', B', Hk', D.
  exists t'. split; [exact Hk'|]. split; [exact Er|]. split; [tauto|]. split.
  - intros Hd. destruct D as [E|[E|[_ Hch]]]; [congruence|congruence|exact Hch].
  - intros Hu. pose proof (B' (r_iq t)) as Bx. rewrite Hu in Bx.
    assert (G : 1 <= cnt (r_iq t) (delivered s') + cnt (r_iq t) (in_flight s')); [|lia].
    destruct D as [E|[E|[_ (ch & E1 & _ & Ect & _)]]].
    + pose proof (cnt_flat_map_ge flying (routers s') k t' (r_iq t) Hk') as F.
      unfold flying in F at 1. rewrite E, Er, cnt_single in F. unfold in_flight. lia.
    + assert (Hh : held_by t' = Some c) by (unfold held_by; rewrite E; reflexivity).
      destruct I' as (_ & _ & _ & _ & _ & H' & _).
      destruct (H' _ _ _ Hk' Hh) as (ch & E1 & _ & _ & Eb). rewrite E, Er in Eb.
      pose proof (cnt_flat_map_ge contents (chans s') c ch (r_iq t) E1) as F.
      assert (Ect : contents ch = [r_iq t]).
      { unfold contents. destruct Eb as [[Eb Eg]|[Eb Eg]]; rewrite Eb, Eg; reflexivity. }
      rewrite Ect, cnt_single in F. unfold delivered. lia.
    + pose proof (cnt_flat_map_ge contents (chans s') c ch (r_iq t) E1) as F.
      rewrite Ect, cnt_single in F. unfold delivered. lia.
Qed.

Lemma reach_cancelled_hit l k t c l' :
  let s := c_run c_init l in
  nth_error (routers s) k = Some t -> r_pc t = RCloseOrd c ->
  let s' := c_run s l' in
  exists t', nth_error (routers s') k = Some t' /\ r_iq t' = r_iq t /\
    (r_pc t' = RCloseOrd c \/ r_pc t' = ROrd \/ r_pc t' = RDone) /\
    (r_pc t' = ROrd \/ r_pc t' = RDone ->
       exists ch', nth_error (chans s') c = Some ch' /\ c_closed ch' = true /\ contents ch' = []) /\
    (r_pc t' = RDone -> In (r_iq t) (ordinary s') /\
       (cnt (r_iq t) (arrived s') = 1 -> cnt (r_iq t) (ordinary s') = 1)).
Proof.
  intros s Hk Hpc s'.
  destruct (inv_bal_run l c_init inv_init bal_init) as (I & B). fold s in I, B.
  assert (X : miss_track s k c (r_iq t)) by (exists t; auto).
  destruct (track_run (fun x => miss_track x k c (r_iq t)) (fun x a => miss_track_step x a k c (r_iq t)) l' s I B X)
    as (I' & B' & (t' & Hk' & Er & D)). fold s' in I', B', Hk', D.
  exists t'. split; [exact Hk'|]. split; [exact Er|]. split; [|split].
  - destruct D as [E|[[E|[E _]] _]]; auto.
  - intros Hd. destruct D as [E|[_ Hch]]; [destruct Hd; congruence|exact Hch].
  - intros Hd. destruct D as [E|[[E|[_ Hin]] _]]; [congruence|congruence|]. split; [exact Hin|].
    intros Hu. pose proof (B' (r_iq t)) as Bx. rewrite Hu in Bx.
    assert (G : 1 <= cnt (r_iq t) (ordinary s')); [|lia].
    unfold cnt. apply (count_occ_In resp_dec) in Hin. lia.
Qed.

(* the lookup step itself: with a live entry the goroutine now holds its channel, about to send *)
Lemma reach_hit_step l k t c ch :
  let s := c_run c_init l in
  nth_error (routers s) k = Some t -> r_pc t = RStart -> rreq (r_iq t) = false ->
  lookup (rid (r_iq t)) (table s) = Some c -> nth_error (chans s) c = Some ch ->
  let s' := c_step s (ARouter k) in
  exists t', nth_error (routers s') k = Some t' /\ r_iq t' = r_iq t /\
    r_pc t' = (if c_done ch then RCloseOrd c else RSend c) /\
    lookup (rid (r_iq t)) (table s') = None /\ chans s' = chans s /\ ordinary s' = ordinary s.
Proof.
  intros s Hk Hpc Hq Hl Hc s'. unfold s'. rewrite step_router_eq.
  rewrite (router_step_start_hit s k t c ch Hk Hpc Hq Hl Hc).
  exists (with_pc (if c_done ch then RCloseOrd c else RSend c) t).
  split; [rewrite set_pc_routers; apply nth_error_upd_same; exact Hk|].
  split; [reflexivity|]. split; [reflexivity|]. split; [apply lookup_remove_id_same|]. split; reflexivity.
Qed.

Lemma reach_finishes l k t l' :
  let s := c_run c_init l in
  nth_error (routers s) k = Some t -> rank (r_pc t) <= steps_of k l' ->
  exists t', nth_error (routers (c_run s l')) k = Some t' /\ r_iq t' = r_iq t /\ r_pc t' = RDone.
Proof. cbn zeta. intros Hk Hr. apply (router_finishes l' _ k t); [apply inv_reachable|exact Hk|exact Hr]. Qed.

Lemma rank_le_3 pc : rank pc <= 3.
Proof. destruct pc; cbn; lia. Qed.
