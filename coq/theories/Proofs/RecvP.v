From Coq Require Import List ZArith NArith Bool Lia.
From XV Require Import Lib.Sx Model.Recv.
Import ListNotations.
Open Scope N_scope.

Lemma crecv_routed items : forall inb nw wf,
  routed (crecv inb nw wf items) = processed nw wf items.
Proof.
  induction items as [|i items IH]; intros inb nw wf; [reflexivity|].
  destruct i; cbn [crecv processed]; try reflexivity.
  - cbn. rewrite IH. reflexivity.
  - destruct (match wf with Some k => Nat.eqb k (S nw) | None => false end); cbn; rewrite IH; reflexivity.
  - cbn. rewrite IH. reflexivity.
  - cbn. rewrite IH. reflexivity.
  - cbn. rewrite IH. reflexivity.
Qed.

Lemma crecv_stanzas_once items inb nw wf :
  filter is_stanza (routed (crecv inb nw wf items)) = filter is_stanza (processed nw wf items).
Proof. rewrite crecv_routed. reflexivity. Qed.

Lemma crecv_answers items : forall inb nw wf,
  attempted (crecv inb nw wf items) = expected_answers inb (processed nw wf items).
Proof.
  induction items as [|i items IH]; intros inb nw wf; [reflexivity|].
  destruct i; cbn [crecv processed]; try reflexivity.
  - cbn. rewrite IH. reflexivity.
  - destruct (match wf with Some k => Nat.eqb k (S nw) | None => false end); cbn; rewrite IH; reflexivity.
  - cbn. rewrite IH. reflexivity.
  - cbn. rewrite IH. reflexivity.
  - cbn. rewrite IH. reflexivity.
Qed.

(* when no write fails every attempted answer is a written one *)
Lemma crecv_answers_written items : forall inb nw,
  answers (crecv inb nw None items) = attempted (crecv inb nw None items).
Proof.
  induction items as [|i items IH]; intros inb nw; [reflexivity|].
  destruct i; cbn [crecv]; try reflexivity; cbn; rewrite ?IH; reflexivity.
Qed.

(* every expected answer is the session's starting count plus the stanzas before the request *)
Definition is_r (i : item) := match i with ISmR => true | _ => false end.

Lemma expected_answers_spec l : forall inb k h,
  nth_error (expected_answers inb l) k = Some h ->
  exists pre post, l = pre ++ ISmR :: post /\
    length (filter is_r pre) = k /\
    h = inb + count_stanzas pre.
Proof.
  induction l as [|i l IH]; intros inb k h Hn; [destruct k; discriminate|].
  assert (Hother : is_r i = false -> is_stanza i = false ->
                   expected_answers inb (i :: l) = expected_answers inb l ->
                   exists pre post, i :: l = pre ++ ISmR :: post /\
                     length (filter is_r pre) = k /\ h = inb + count_stanzas pre).
  { intros Hr Hs He. rewrite He in Hn. apply IH in Hn as (pre & post & -> & Hk & ->).
    exists (i :: pre), post. split; [reflexivity|]. split.
    - cbn [filter]. rewrite Hr. exact Hk.
    - unfold count_stanzas. cbn [filter]. rewrite Hs. reflexivity. }
  destruct i; try (apply Hother; reflexivity).
  - cbn [expected_answers] in Hn. apply IH in Hn as (pre & post & -> & Hk & ->).
    exists (IStanza k0 id :: pre), post. split; [reflexivity|]. split; [exact Hk|].
    unfold count_stanzas. cbn [filter is_stanza length]. lia.
  - cbn [expected_answers] in Hn. destruct k as [|k].
    + inversion Hn; subst. exists [], l. split; [reflexivity|]. split; [reflexivity|].
      unfold count_stanzas; cbn; lia.
    + cbn in Hn. apply IH in Hn as (pre & post & -> & Hk & ->). exists (ISmR :: pre), post.
      split; [reflexivity|]. split; [cbn; lia|]. unfold count_stanzas; cbn [filter is_stanza]. reflexivity.
Qed.

(* ---- loss reporting (C12) ---- *)
Definition is_serr (i : item) := match i with IStreamError _ => true | _ => false end.

Lemma last_last_app {A} (l1 l2 : list A) d : l2 <> [] -> last (l1 ++ l2) d = last l2 d.
Proof.
  intros H. induction l1 as [|a l1 IH]; [reflexivity|]. cbn [app].
  destruct (l1 ++ l2) as [|b r] eqn:E; [destruct l1; [contradiction|discriminate]|].
  change (last (a :: b :: r) d) with (last (b :: r) d). exact IH.
Qed.

Lemma cs_nil : count_stanzas [] = 0.
Proof. reflexivity. Qed.

Lemma crecv_loss items : forall inb nw wf,
  let tr := crecv inb nw wf items in
  let p := processed nw wf items in
  let closed := ends_by_close nw wf items in
  count_act is_quit tr = 1%nat /\
  (quit_before_disc tr = true /\ quiet_after_quit tr = true) /\
  count_act is_disc tr = 1%nat /\
  count_act is_err tr = ((if closed then 0 else 1) + length (filter is_serr p))%nat /\
  In (AEvDisconnected (inb + count_stanzas p)) tr.
Proof.
  induction items as [|i items IH]; intros inb nw wf.
  - cbn -[N.add]. repeat split; try reflexivity. right; right; left. f_equal. lia.
  - unfold ends_by_close.
    assert (Hstep : forall inb' nw' (pre : list action) (it : item),
              (forall a, In a pre -> is_quit a = false /\ is_disc a = false) ->
              processed nw wf (i :: items) = it :: processed nw' wf items ->
              inb' + count_stanzas (processed nw' wf items) = inb + count_stanzas (it :: processed nw' wf items) ->
              crecv inb nw wf (i :: items) = pre ++ crecv inb' nw' wf items ->
              count_act is_err pre = (if is_serr it then 1 else 0)%nat ->
              let tr := crecv inb nw wf (i :: items) in
              let p := processed nw wf (i :: items) in
              count_act is_quit tr = 1%nat /\ (quit_before_disc tr = true /\ quiet_after_quit tr = true) /\ count_act is_disc tr = 1%nat /\
              count_act is_err tr =
                ((if match skipn (length p) (i :: items) with IClose :: _ => true | _ => false end then 0 else 1)
                 + length (filter is_serr p))%nat /\
              In (AEvDisconnected (inb + count_stanzas p)) tr).
    { intros inb' nw' pre it Hpre Hp Hcnt Htr Herr. cbn zeta. rewrite Htr, Hp.
      specialize (IH inb' nw' wf). cbn zeta in IH. unfold ends_by_close in IH.
      destruct IH as (Hq & Hl & Hd & He & Hin).
      assert (Hcq : count_act is_quit pre = 0%nat /\ count_act is_disc pre = 0%nat).
      { clear -Hpre. unfold count_act. induction pre as [|a pre IHp]; [split; reflexivity|].
        destruct (Hpre a (or_introl eq_refl)) as [H1 H2]. cbn [filter]. rewrite H1, H2.
        apply IHp. intros b Hb. apply Hpre. right. exact Hb. }
      destruct Hcq as [Hcq Hcd].
      unfold count_act in *. rewrite !filter_app, !app_length.
      repeat split.
      - rewrite Hcq. exact Hq.
      - clear -Hpre Hl. destruct Hl as [Hl _]. induction pre as [|a pre IHp]; [exact Hl|].
        destruct (Hpre a (or_introl eq_refl)) as [H1 H2].
        cbn [app]. destruct a; try discriminate; cbn [quit_before_disc]; apply IHp; intros b Hb; apply Hpre; right; exact Hb.
      - clear -Hpre Hl. destruct Hl as [_ Hl]. induction pre as [|a pre IHp]; [exact Hl|].
        destruct (Hpre a (or_introl eq_refl)) as [H1 H2].
        cbn [app]. destruct a; try discriminate; cbn [quiet_after_quit]; apply IHp; intros b Hb; apply Hpre; right; exact Hb.
      - rewrite Hcd. exact Hd.
      - cbn [length skipn filter]. rewrite He, Herr. destruct (is_serr it); cbn [length]; lia.
      - apply in_or_app. right. rewrite <- Hcnt. exact Hin. }
    destruct i.
    + (* stanza *)
      apply (Hstep (inb + 1) nw [ARouteAsync (IStanza k id)] (IStanza k id)); try reflexivity.
      * intros a [<-|[]]; split; reflexivity.
      * unfold count_stanzas. cbn [filter is_stanza length]. lia.
    + (* r *)
      destruct (match wf with Some k => Nat.eqb k (S nw) | None => false end) eqn:Ew.
      * apply (Hstep inb (S nw) [AWriteFail inb; ARouteAsync ISmR] ISmR); try reflexivity.
        -- intros a [<-|[<-|[]]]; split; reflexivity.
        -- cbn [crecv]. rewrite Ew. reflexivity.
      * apply (Hstep inb (S nw) [AWrite inb; ARouteAsync ISmR] ISmR); try reflexivity.
        -- intros a [<-|[<-|[]]]; split; reflexivity.
        -- cbn [crecv]. rewrite Ew. reflexivity.
    + (* a *)
      apply (Hstep inb nw [ARouteAsync (ISmA h)] (ISmA h)); try reflexivity.
      intros a [<-|[]]; split; reflexivity.
    + (* other nonza *)
      apply (Hstep inb nw [ARouteAsync (INonza tag)] (INonza tag)); try reflexivity.
      intros a [<-|[]]; split; reflexivity.
    + (* stream error *)
      apply (Hstep inb nw [ARouteSync (IStreamError tag); AEvStreamError; AErrCall; ADisconnectCall] (IStreamError tag)); try reflexivity.
      intros a [<-|[<-|[<-|[<-|[]]]]]; split; reflexivity.
    + (* close *)
      cbn -[N.add]. repeat split; try reflexivity. right; right; left. f_equal. lia.
    + (* bad *)
      cbn -[N.add]. repeat split; try reflexivity. right; right; left. f_equal. lia.
Qed.

(* ---- component ---- *)
Lemma precv_routed items : routed (precv items) = pprocessed items.
Proof.
  induction items as [|i items IH]; [reflexivity|].
  destruct i; cbn [precv pprocessed]; try reflexivity;
    cbn [routed flat_map app]; fold (routed (precv items)); rewrite IH; reflexivity.
Qed.

Definition all_sync (tr : list action) : bool :=
  forallb (fun a => match a with ARouteAsync _ => false | _ => true end) tr.
Lemma precv_sync items : all_sync (precv items) = true.
Proof. induction items as [|i items IH]; [reflexivity|]. destruct i; cbn; try exact IH; reflexivity. Qed.
