From Coq Require Import List ZArith NArith Bool Lia.
From XV Require Import Lib.Sx Model.Recv.
Import ListNotations.
Open Scope N_scope.

(* a stream error is handed to the router twice (once synchronously, once by the
   ordinary path); everything else exactly once *)
Fixpoint expand (l : list item) : list item :=
  match l with
  | [] => []
  | i :: l' => match i with IStreamError _ => i :: i :: expand l' | _ => i :: expand l' end
  end.

Lemma filter_stanza_expand l : filter is_stanza (expand l) = filter is_stanza l.
Proof.
  induction l as [|i l IH]; [reflexivity|].
  destruct i; cbn; rewrite ?IH; reflexivity.
Qed.

Lemma crecv_routed items : forall inb nw wf,
  routed (crecv inb nw wf items) = expand (processed nw wf items).
Proof.
  induction items as [|i items IH]; intros inb nw wf; [reflexivity|].
  destruct i; cbn [crecv processed]; try reflexivity.
  - cbn. rewrite IH. reflexivity.
  - destruct (match wf with Some k => Nat.eqb k (S nw) | None => false end); [reflexivity|].
    cbn. rewrite IH. reflexivity.
  - cbn. rewrite IH. reflexivity.
  - cbn. rewrite IH. reflexivity.
  - cbn. rewrite IH. reflexivity.
Qed.

Lemma crecv_stanzas_once items inb nw wf :
  filter is_stanza (routed (crecv inb nw wf items)) = filter is_stanza (processed nw wf items).
Proof. rewrite crecv_routed. apply filter_stanza_expand. Qed.

Lemma crecv_answers items : forall inb nw wf,
  answers (crecv inb nw wf items) = expected_answers inb (processed nw wf items).
Proof.
  induction items as [|i items IH]; intros inb nw wf; [reflexivity|].
  destruct i; cbn [crecv processed]; try reflexivity.
  - cbn. rewrite IH. reflexivity.
  - destruct (match wf with Some k => Nat.eqb k (S nw) | None => false end); [reflexivity|].
    cbn. rewrite IH. reflexivity.
  - cbn. rewrite IH. reflexivity.
  - cbn. rewrite IH. reflexivity.
  - cbn. rewrite IH. reflexivity.
Qed.

(* every expected answer is the session's starting count plus the stanzas before the request *)
Definition is_r (i : item) := match i with ISmR => true | _ => false end.

Lemma expected_answers_spec l : forall inb k h,
  nth_error (expected_answers inb l) k = Some h ->
  exists pre post, l = pre ++ ISmR :: post /\
    length (filter is_r pre) = k /\
    h = inb + count_stanzas pre.
Proof.
  induction l as [|i l IH]; intros inb k h Hn; [destruct k; discriminate|].
  assert (Hother : is_r i = false -> is_stanza i = false ->
                   expected_answers inb (i :: l) = expected_answers inb l ->
                   exists pre post, i :: l = pre ++ ISmR :: post /\
                     length (filter is_r pre) = k /\ h = inb + count_stanzas pre).
  { intros Hr Hs He. rewrite He in Hn. apply IH in Hn as (pre & post & -> & Hk & ->).
    exists (i :: pre), post. split; [reflexivity|]. split.
    - cbn [filter]. rewrite Hr. exact Hk.
    - unfold count_stanzas. cbn [filter]. rewrite Hs. reflexivity. }
  destruct i; try (apply Hother; reflexivity).
  - cbn [expected_answers] in Hn. apply IH in Hn as (pre & post & -> & Hk & ->).
    exists (IStanza k0 id :: pre), post. split; [reflexivity|]. split; [exact Hk|].
    unfold count_stanzas. cbn [filter is_stanza length]. lia.
  - cbn [expected_answers] in Hn. destruct k as [|k].
    + inversion Hn; subst. exists [], l. split; [reflexivity|]. split; [reflexivity|].
      unfold count_stanzas; cbn; lia.
    + cbn in Hn. apply IH in Hn as (pre & post & -> & Hk & ->). exists (ISmR :: pre), post.
      split; [reflexivity|]. split; [cbn; lia|]. unfold count_stanzas; cbn [filter is_stanza]. reflexivity.
Qed.

(* ---- loss reporting (C12) ---- *)
Definition is_serr (i : item) := match i with IStreamError _ => true | _ => false end.

Lemma cs_nil : count_stanzas [] = 0.
Proof. reflexivity. Qed.

Lemma crecv_loss items : forall inb nw wf,
  let tr := crecv inb nw wf items in
  let p := processed nw wf items in
  let closed := ends_by_close nw wf items in
  count_act is_quit tr = 1%nat /\
  last tr AErrCall = AQuit /\
  count_act is_disc tr = (if closed then 0 else 1)%nat /\
  count_act is_err tr = ((if closed then 0 else 1) + length (filter is_serr p))%nat /\
  (closed = false -> In (AEvDisconnected (inb + count_stanzas p)) tr).
Proof.
  induction items as [|i items IH]; intros inb nw wf.
  - cbn -[N.add]. repeat split; try reflexivity. intros _. right; left. f_equal. lia.
  - unfold ends_by_close.
    destruct i; cbn [crecv processed].
    + (* stanza *)
      specialize (IH (inb + 1) nw wf). cbn zeta in IH. unfold ends_by_close in IH.
      cbn [length skipn]. destruct IH as (Hq & Hl & Hd & He & Hin).
      repeat split.
      * exact Hq.
      * cbn [last]. destruct (crecv (inb + 1) nw wf items) eqn:E; [cbn in Hq; discriminate|exact Hl].
      * exact Hd.
      * cbn [filter is_serr]. exact He.
      * intros Hc. right. specialize (Hin Hc).
        replace (inb + count_stanzas (IStanza k id :: processed nw wf items))
          with (inb + 1 + count_stanzas (processed nw wf items)); [exact Hin|].
        unfold count_stanzas. cbn [filter is_stanza length]. lia.
    + (* r *)
      destruct (match wf with Some k => Nat.eqb k (S nw) | None => false end) eqn:Ew.
      * cbn -[N.add]. repeat split; try reflexivity. intros _. right; right; left. f_equal. lia.
      * specialize (IH inb (S nw) wf). cbn zeta in IH. unfold ends_by_close in IH.
        cbn [length skipn]. destruct IH as (Hq & Hl & Hd & He & Hin).
        repeat split.
        -- exact Hq.
        -- cbn [last]. destruct (crecv inb (S nw) wf items) eqn:E; [cbn in Hq; discriminate|].
           cbn [last] in *. exact Hl.
        -- exact Hd.
        -- cbn [filter is_serr]. exact He.
        -- intros Hc. right; right. specialize (Hin Hc).
           unfold count_stanzas in *. cbn [filter is_stanza]. exact Hin.
    + (* a *)
      specialize (IH inb nw wf). cbn zeta in IH. unfold ends_by_close in IH.
      cbn [length skipn]. destruct IH as (Hq & Hl & Hd & He & Hin).
      repeat split; try assumption.
      * cbn [last]. destruct (crecv inb nw wf items) eqn:E; [cbn in Hq; discriminate|exact Hl].
      * intros Hc. right. specialize (Hin Hc). unfold count_stanzas in *.
        cbn [filter is_stanza]. exact Hin.
    + (* other nonza *)
      specialize (IH inb nw wf). cbn zeta in IH. unfold ends_by_close in IH.
      cbn [length skipn]. destruct IH as (Hq & Hl & Hd & He & Hin).
      repeat split; try assumption.
      * cbn [last]. destruct (crecv inb nw wf items) eqn:E; [cbn in Hq; discriminate|exact Hl].
      * intros Hc. right. specialize (Hin Hc). unfold count_stanzas in *.
        cbn [filter is_stanza]. exact Hin.
    + (* stream error *)
      specialize (IH inb nw wf). cbn zeta in IH. unfold ends_by_close in IH.
      cbn [length skipn]. destruct IH as (Hq & Hl & Hd & He & Hin).
      repeat split.
      * exact Hq.
      * cbn [last]. destruct (crecv inb nw wf items) eqn:E; [cbn in Hq; discriminate|exact Hl].
      * exact Hd.
      * cbn [filter is_serr length]. unfold count_act in *. cbn [filter is_err length]. lia.
      * intros Hc. do 5 right. specialize (Hin Hc). unfold count_stanzas in *.
        cbn [filter is_stanza]. exact Hin.
    + (* close *)
      cbn. repeat split; try reflexivity. intros H; discriminate.
    + (* bad *)
      cbn -[N.add]. repeat split; try reflexivity. intros _. right; left. f_equal. lia.
Qed.

(* ---- component ---- *)
Lemma precv_routed items : routed (precv items) = expand (pprocessed items).
Proof.
  induction items as [|i items IH]; [reflexivity|].
  destruct i; cbn [precv pprocessed]; try reflexivity;
    cbn [routed flat_map app expand]; fold (routed (precv items)); rewrite IH; reflexivity.
Qed.

Definition all_sync (tr : list action) : bool :=
  forallb (fun a => match a with ARouteAsync _ => false | _ => true end) tr.
Lemma precv_sync items : all_sync (precv items) = true.
Proof. induction items as [|i items IH]; [reflexivity|]. destruct i; cbn; try exact IH; reflexivity. Qed.
