From Coq Require Import List ZArith NArith Bool Lia Permutation.
From XV Require Import Lib.Sx Model.Recv.
From XV Require Model.Send Proofs.SendP.
Import ListNotations.
Open Scope N_scope.

(* ---- what "processed" means: the computed list is THE list with the declarative property ---- *)
Lemma processed_is_prefix items : is_processed_prefix items (processed items).
Proof.
  induction items as [|i items IH].
  - exists []. split; [reflexivity|]. split; [intros i []|left; reflexivity].
  - cbn [processed]. destruct (stops i) eqn:Hs.
    + exists (i :: items). split; [reflexivity|]. split; [intros j []|].
      right. exists i, items. split; [reflexivity|exact Hs].
    + destruct IH as (rest & Hit & Hin & Hend).
      exists rest. split; [cbn; rewrite <- Hit; reflexivity|]. split; [|exact Hend].
      intros j [<-|Hj]; [exact Hs|apply Hin, Hj].
Qed.

Lemma processed_unique items : forall p, is_processed_prefix items p -> p = processed items.
Proof.
  induction items as [|i items IH]; intros p (rest & Hit & Hin & Hend).
  - destruct p; [reflexivity|discriminate].
  - destruct p as [|j p].
    + cbn in Hit. subst rest. cbn [processed].
      destruct Hend as [Hend|(x & r & Hx & Hs)]; [discriminate|].
      inversion Hx; subst. rewrite Hs. reflexivity.
    + cbn in Hit. injection Hit as Hj Hrest. subst j. cbn [processed].
      rewrite (Hin i (or_introl eq_refl)). f_equal. apply IH.
      exists rest. split; [exact Hrest|]. split; [|exact Hend].
      intros x Hx. apply Hin. right. exact Hx.
Qed.

(* when nothing stops the loop everything is processed *)
Lemma processed_all items : reaches_end items = true -> processed items = items.
Proof.
  unfold reaches_end. induction items as [|i items IH]; intros H; [reflexivity|].
  cbn [forallb] in H. apply andb_true_iff in H as [H1 H]. apply negb_true_iff in H1.
  cbn [processed]. rewrite H1, (IH H). reflexivity.
Qed.

(* ---- the trace with any ending: generic facts ---- *)
Definition quit_of (stopped : bool) : list action := if stopped then [] else [AQuit].

(* the observables are sums over the trace *)
Lemma routed_app a b : routed (a ++ b) = routed a ++ routed b.
Proof. apply flat_map_app. Qed.
Lemma ra_cons a tr :
  routed_async (a :: tr) = (match a with ARouteAsync i => [i] | _ => [] end) ++ routed_async tr.
Proof. reflexivity. Qed.
Lemma rs_cons a tr :
  routed_sync (a :: tr) = (match a with ARouteSync i => [i] | _ => [] end) ++ routed_sync tr.
Proof. reflexivity. Qed.
Lemma count_act_cons p a l : count_act p (a :: l) = ((if p a then 1 else 0) + count_act p l)%nat.
Proof. unfold count_act. cbn [filter]. destruct (p a); reflexivity. Qed.
Lemma count_act_app p a b : count_act p (a ++ b) = (count_act p a + count_act p b)%nat.
Proof. unfold count_act. rewrite filter_app, app_length. reflexivity. Qed.
Lemma cs_cons i l : count_stanzas (i :: l) = (if is_stanza i then 1 else 0) + count_stanzas l.
Proof. unfold count_stanzas. cbn [filter]. destruct (is_stanza i); cbn [length]; lia. Qed.
Lemma cs_nil : count_stanzas [] = 0.
Proof. reflexivity. Qed.

(* ---- routing (C05) ---- *)
(* [fin] contributes only when the loop comes to the end of the items *)
Lemma crecv_k_routed fin items : forall stopped inb nw wf,
  (forall s n, routed (fin s n) = routed (fin false 0)) ->
  routed (crecv_k fin stopped inb nw wf items)
  = processed items ++ (if reaches_end items then routed (fin false 0) else []).
Proof.
  intros stopped inb nw wf Hfin. revert stopped inb nw wf. unfold reaches_end.
  induction items as [|i items IH]; intros stopped inb nw wf; [cbn; apply Hfin|].
  destruct i; cbn [crecv_k processed stops forallb negb andb]; try (destruct stopped; reflexivity);
    try (cbn; rewrite IH; reflexivity).
  - destruct (wf (S nw)); cbn; rewrite IH; reflexivity.
  - destruct stopped; cbn; rewrite IH; reflexivity.
Qed.
Lemma crecv_from_routed items stopped inb nw wf :
  routed (crecv_from stopped inb nw wf items) = processed items.
Proof.
  unfold crecv_from. rewrite crecv_k_routed; [|intros s n; destruct s; reflexivity].
  destruct (reaches_end items); apply app_nil_r.
Qed.
Lemma crecv_routed items inb nw wf : routed (crecv inb nw wf items) = processed items.
Proof. apply crecv_from_routed. Qed.
Lemma crecv_handover_routed t items inb nw wf :
  routed (crecv_handover t inb nw wf items)
  = processed items ++ (if reaches_end items then [IStreamError t] else []).
Proof.
  unfold crecv_handover. rewrite crecv_k_routed; [reflexivity|intros s n; destruct s; reflexivity].
Qed.

(* which of them on the receive goroutine itself, which in goroutines of their own *)
Lemma crecv_k_async fin items : forall stopped inb nw wf,
  (forall s n, routed_async (fin s n) = []) ->
  (forall s n, routed_sync (fin s n) = routed_sync (fin false 0)) ->
  routed_async (crecv_k fin stopped inb nw wf items) = filter (fun i => negb (is_serr i)) (processed items) /\
  routed_sync (crecv_k fin stopped inb nw wf items)
  = filter is_serr (processed items) ++ (if reaches_end items then routed_sync (fin false 0) else []).
Proof.
  intros stopped inb nw wf Hf1 Hf2. revert stopped inb nw wf. unfold reaches_end.
  induction items as [|i items IH]; intros stopped inb nw wf; [cbn; split; [apply Hf1|apply Hf2]|].
  destruct i; cbn [crecv_k processed stops forallb negb andb]; try (destruct stopped; split; reflexivity).
  - destruct (IH stopped (inb + 1) nw wf) as [H1 H2]. rewrite !ra_cons, !rs_cons, H1, H2. split; reflexivity.
  - destruct (IH stopped inb (S nw) wf) as [H1 H2].
    destruct (wf (S nw)); rewrite !ra_cons, !rs_cons, H1, H2; split; reflexivity.
  - destruct (IH stopped inb nw wf) as [H1 H2]. rewrite !ra_cons, !rs_cons, H1, H2. split; reflexivity.
  - destruct (IH stopped inb nw wf) as [H1 H2]. rewrite !ra_cons, !rs_cons, H1, H2. split; reflexivity.
  - destruct (IH true inb nw wf) as [H1 H2].
    destruct stopped; cbn [app]; rewrite !ra_cons, !rs_cons, H1, H2; split; reflexivity.
Qed.
Lemma crecv_async items inb nw wf :
  routed_async (crecv inb nw wf items) = filter (fun i => negb (is_serr i)) (processed items) /\
  routed_sync (crecv inb nw wf items) = filter is_serr (processed items).
Proof.
  destruct (crecv_k_async report_loss items false inb nw wf) as [H1 H2];
    try (intros s n; destruct s; reflexivity).
  split; [exact H1|]. unfold crecv, crecv_from. rewrite H2. destruct (reaches_end items); apply app_nil_r.
Qed.
Lemma crecv_handover_async t items inb nw wf :
  routed_async (crecv_handover t inb nw wf items) = filter (fun i => negb (is_serr i)) (processed items) /\
  routed_sync (crecv_handover t inb nw wf items)
  = filter is_serr (processed items) ++ (if reaches_end items then [IStreamError t] else []).
Proof.
  apply (crecv_k_async (hand_over t) items false inb nw wf); intros s n; destruct s; reflexivity.
Qed.

Lemma in_routed_sync tr i : In (ARouteSync i) tr -> In i (routed_sync tr).
Proof.
  induction tr as [|a tr IH]; intros H; [contradiction|].
  destruct H as [->|H]; [left; reflexivity|].
  unfold routed_sync. cbn [flat_map]. apply in_or_app. right. apply IH, H.
Qed.
Lemma crecv_sync_only_serr items inb nw wf i :
  In (ARouteSync i) (crecv inb nw wf items) -> is_serr i = true /\ In i (processed items).
Proof.
  intros H. apply in_routed_sync in H. rewrite (proj2 (crecv_async items inb nw wf)) in H.
  apply filter_In in H as [H1 H2]. split; assumption.
Qed.

(* the handlers of the asynchronously routed elements run in goroutines of their own, one per element: whatever
   order the scheduler runs them in (every merge of the one-element programs), each element is handled
   exactly once *)
Lemma concat_singletons {A} (l : list A) : concat (map (fun x => [x]) l) = l.
Proof. induction l as [|x l IH]; [reflexivity|]. cbn. rewrite IH. reflexivity. Qed.
Lemma crecv_any_schedule items inb nw wf w :
  Send.interleavings (map (fun i => [i]) (routed_async (crecv inb nw wf items))) w ->
  Permutation w (filter (fun i => negb (is_serr i)) (processed items)).
Proof.
  intros H. apply SendP.interleavings_perm in H. rewrite concat_singletons in H.
  rewrite (proj1 (crecv_async items inb nw wf)) in H. exact H.
Qed.

(* ---- answers (C05, C09) ---- *)
Lemma crecv_k_answers fin items : forall stopped inb nw wf,
  (forall s n, attempted (fin s n) = []) ->
  attempted (crecv_k fin stopped inb nw wf items) = expected_answers inb (processed items).
Proof.
  intros stopped inb nw wf Hfin. revert stopped inb nw wf.
  induction items as [|i items IH]; intros stopped inb nw wf; [cbn; apply Hfin|].
  destruct i; cbn [crecv_k processed stops]; try (destruct stopped; reflexivity);
    try (cbn; rewrite IH; reflexivity).
  - destruct (wf (S nw)); cbn; rewrite IH; reflexivity.
  - destruct stopped; cbn; rewrite IH; reflexivity.
Qed.
Lemma crecv_answers items inb nw wf :
  attempted (crecv inb nw wf items) = expected_answers inb (processed items).
Proof. apply crecv_k_answers. intros s n; destruct s; reflexivity. Qed.
Lemma crecv_handover_answers t items inb nw wf :
  attempted (crecv_handover t inb nw wf items) = expected_answers inb (processed items).
Proof. apply crecv_k_answers. intros s n; destruct s; reflexivity. Qed.

Lemma expected_answers_length l : forall inb,
  length (expected_answers inb l) = length (filter is_r l).
Proof.
  induction l as [|i l IH]; intros inb; [reflexivity|].
  destruct i; cbn [expected_answers filter is_r length]; rewrite ?IH; reflexivity.
Qed.

(* which of the attempted answers the transport took: those whose write number the fault oracle spares *)
Lemma written_cons wf first h att :
  written wf first (h :: att) = (if wf first then [] else [h]) ++ written wf (S first) att.
Proof. unfold written. cbn. destruct (wf first); reflexivity. Qed.

Lemma crecv_k_written fin items : forall stopped inb nw wf,
  (forall s n, attempted (fin s n) = []) -> (forall s n, answers (fin s n) = []) ->
  answers (crecv_k fin stopped inb nw wf items)
  = written wf (S nw) (attempted (crecv_k fin stopped inb nw wf items)).
Proof.
  intros stopped inb nw wf Hf1 Hf2. revert stopped inb nw wf.
  induction items as [|i items IH]; intros stopped inb nw wf; [cbn; rewrite Hf1, Hf2; reflexivity|].
  destruct i; cbn [crecv_k]; try (destruct stopped; reflexivity).
  - cbn. apply IH.
  - destruct (wf (S nw)) eqn:E; cbn [answers attempted flat_map app];
      fold (answers (crecv_k fin stopped inb (S nw) wf items));
      fold (attempted (crecv_k fin stopped inb (S nw) wf items));
      rewrite written_cons, E, IH; reflexivity.
  - cbn. apply IH.
  - cbn. apply IH.
  - destruct stopped; cbn; apply IH.
Qed.
Lemma crecv_written items inb nw wf :
  answers (crecv inb nw wf items) = written wf (S nw) (attempted (crecv inb nw wf items)).
Proof. apply crecv_k_written; intros s n; destruct s; reflexivity. Qed.

Lemma written_all wf first att : (forall k, wf k = false) -> written wf first att = att.
Proof.
  intros H. revert first. induction att as [|h att IH]; intros first; [reflexivity|].
  rewrite written_cons, H, IH. reflexivity.
Qed.
(* every write from the k-th on fails: exactly the first k-1 answers (of those still to come) get through *)
Lemma written_none k att : forall first, (k <= first)%nat -> written (fault_from k) first att = [].
Proof.
  induction att as [|h att IH]; intros first Hle; [reflexivity|].
  rewrite written_cons. unfold fault_from at 1.
  destruct (Nat.leb k first) eqn:E; [|apply Nat.leb_gt in E; lia].
  cbn [app]. apply IH. lia.
Qed.
Lemma written_from k att : forall first, (first <= k)%nat ->
  written (fault_from k) first att = firstn (k - first) att.
Proof.
  induction att as [|h att IH]; intros first Hle; [destruct (k - first)%nat; reflexivity|].
  destruct (Nat.leb k first) eqn:E.
  - apply Nat.leb_le in E. replace (k - first)%nat with 0%nat by lia. apply written_none. exact E.
  - rewrite written_cons. unfold fault_from at 1. rewrite E.
    apply Nat.leb_gt in E. replace (k - first)%nat with (S (k - S first)) by lia.
    cbn [app firstn]. f_equal. apply IH. lia.
Qed.

Lemma crecv_acks items inb nw wf :
  let tr := crecv inb nw wf items in
  attempted tr = expected_answers inb (processed items) /\
  length (attempted tr) = length (filter is_r (processed items)) /\
  answers tr = written wf (S nw) (attempted tr) /\
  ((forall k, wf k = false) -> answers tr = attempted tr).
Proof.
  cbn zeta. rewrite crecv_answers.
  split; [reflexivity|]. split; [apply expected_answers_length|].
  rewrite <- crecv_answers with (nw := nw) (wf := wf). split; [apply crecv_written|].
  intros H. rewrite crecv_written. apply written_all, H.
Qed.

(* every expected answer is the session's starting count plus the stanzas before the request *)
Lemma expected_answers_spec l : forall inb k h,
  nth_error (expected_answers inb l) k = Some h ->
  exists pre post, l = pre ++ ISmR :: post /\
    length (filter is_r pre) = k /\
    h = inb + count_stanzas pre.
Proof.
  induction l as [|i l IH]; intros inb k h Hn; [destruct k; discriminate|].
  assert (Hother : is_r i = false -> is_stanza i = false ->
                   expected_answers inb (i :: l) = expected_answers inb l ->
                   exists pre post, i :: l = pre ++ ISmR :: post /\
                     length (filter is_r pre) = k /\ h = inb + count_stanzas pre).
  { intros Hr Hs He. rewrite He in Hn. apply IH in Hn as (pre & post & -> & Hk & ->).
    exists (i :: pre), post. split; [reflexivity|]. split.
    - cbn [filter]. rewrite Hr. exact Hk.
    - unfold count_stanzas. cbn [filter]. rewrite Hs. reflexivity. }
  destruct i; try (apply Hother; reflexivity).
  - cbn [expected_answers] in Hn. apply IH in Hn as (pre & post & -> & Hk & ->).
    exists (IStanza k0 id :: pre), post. split; [reflexivity|]. split; [exact Hk|].
    unfold count_stanzas. cbn [filter is_stanza length]. lia.
  - cbn [expected_answers] in Hn. destruct k as [|k].
    + inversion Hn; subst. exists [], l. split; [reflexivity|]. split; [reflexivity|].
      unfold count_stanzas; cbn; lia.
    + cbn in Hn. apply IH in Hn as (pre & post & -> & Hk & ->). exists (ISmR :: pre), post.
      split; [reflexivity|]. split; [cbn; lia|]. unfold count_stanzas; cbn [filter is_stanza]. reflexivity.
Qed.

(* ---- loss reporting (C12, C09, C18) ---- *)
(* how often the quit channel is closed, the loss reported, the error callback run: [fin] counts when
   the loop comes to the end of the items, the report of the loop itself otherwise *)
Lemma crecv_k_counts (fin : bool -> N -> list action) (fd fe : nat) items : forall stopped inb nw wf,
  (forall s n, count_act is_quit (fin s n) = (if s then 0 else 1)%nat) ->
  (forall s n, count_act is_disc (fin s n) = fd) ->
  (forall s n, count_act is_err (fin s n) = fe) ->
  let tr := crecv_k fin stopped inb nw wf items in
  count_act is_quit tr = (if stopped then 0 else 1)%nat /\
  count_act is_disc tr = (if reaches_end items then fd else 1)%nat /\
  count_act is_err tr = ((if reaches_end items then fe else if ends_by_close items then 0 else 1)
                         + length (filter is_serr (processed items)))%nat.
Proof.
  intros stopped inb nw wf Hq Hd He. revert stopped inb nw wf. unfold reaches_end, ends_by_close.
  induction items as [|i items IH]; intros stopped inb nw wf; cbn zeta.
  { cbn [crecv_k forallb processed filter length]. rewrite Hq, Hd, He. repeat split. lia. }
  assert (Hgo : forall inb' nw' a,
            is_quit a = false -> is_disc a = false -> is_err a = false ->
            let tr := a :: crecv_k fin stopped inb' nw' wf items in
            count_act is_quit tr = (if stopped then 0 else 1)%nat /\
            count_act is_disc tr = (if forallb (fun i => negb (stops i)) items then fd else 1)%nat /\
            count_act is_err tr =
              ((if forallb (fun i => negb (stops i)) items then fe
                else if match how_ended items with EndClosed => true | _ => false end then 0 else 1)
               + length (filter is_serr (processed items)))%nat).
  { intros inb' nw' a H1 H2 H3. cbn zeta. destruct (IH stopped inb' nw' wf) as (Hq' & Hd' & He').
    rewrite !count_act_cons, H1, H2, H3, Hq', Hd', He'. repeat split. }
  destruct i; cbn [crecv_k]; cbn [how_ended processed stops forallb negb andb filter is_serr];
    try (destruct stopped; repeat split; reflexivity).
  - apply Hgo; reflexivity.
  - rewrite count_act_cons, (count_act_cons is_disc), (count_act_cons is_err).
    replace (is_quit (if wf (S nw) then AWriteFail inb else AWrite inb)) with false by (destruct (wf (S nw)); reflexivity).
    replace (is_disc (if wf (S nw) then AWriteFail inb else AWrite inb)) with false by (destruct (wf (S nw)); reflexivity).
    replace (is_err (if wf (S nw) then AWriteFail inb else AWrite inb)) with false by (destruct (wf (S nw)); reflexivity).
    apply Hgo; reflexivity.
  - apply Hgo; reflexivity.
  - apply Hgo; reflexivity.
  - destruct (IH true inb nw wf) as (Hq' & Hd' & He').
    destruct stopped; cbn [app]; rewrite !count_act_cons; cbn [is_quit is_disc is_err length];
      rewrite Hq', Hd', He'; repeat split; lia.
Qed.

Lemma crecv_from_counts items stopped inb nw wf :
  let tr := crecv_from stopped inb nw wf items in
  count_act is_quit tr = (if stopped then 0 else 1)%nat /\
  count_act is_disc tr = 1%nat /\
  count_act is_err tr = ((if ends_by_close items then 0 else 1) + length (filter is_serr (processed items)))%nat.
Proof.
  cbn zeta. unfold crecv_from.
  destruct (crecv_k_counts report_loss 1 1 items stopped inb nw wf) as (Hq & Hd & He);
    try (intros s n; destruct s; reflexivity).
  split; [exact Hq|]. split; [rewrite Hd; destruct (reaches_end items); reflexivity|].
  rewrite He. destruct (reaches_end items) eqn:E; [|reflexivity].
  assert (Hc : ends_by_close items = false).
  { clear -E. unfold reaches_end, ends_by_close in *. induction items as [|i items IH]; [reflexivity|].
    cbn [forallb] in E. apply andb_true_iff in E as [E1 E]. destruct i; try discriminate; cbn [how_ended]; auto. }
  rewrite Hc. reflexivity.
Qed.

(* the count the Disconnected event carries: the starting count plus the stanzas processed, and no other *)
Lemma crecv_k_disc_value fin items : forall stopped inb nw wf n,
  (forall s m, In (AEvDisconnected n) (fin s m) -> n = m) ->
  In (AEvDisconnected n) (crecv_k fin stopped inb nw wf items) ->
  n = inb + count_stanzas (processed items).
Proof.
  intros stopped inb nw wf n Hfin. revert stopped inb nw wf.
  induction items as [|i items IH]; intros stopped inb nw wf H.
  - cbn [processed]. rewrite cs_nil, N.add_0_r. apply (Hfin stopped). exact H.
  - assert (Hterm : forall l, In (AEvDisconnected n) ((if stopped then [] else [AQuit]) ++ l) -> In (AEvDisconnected n) l).
    { intros l Hl. destruct stopped; [exact Hl|]. destruct Hl as [Hl|Hl]; [discriminate|exact Hl]. }
    destruct i; cbn [crecv_k] in H; cbn [processed stops]; rewrite ?cs_cons; cbn [is_stanza].
    + destruct H as [H|H]; [discriminate|]. apply IH in H. lia.
    + destruct H as [H|H]; [destruct (wf (S nw)); discriminate|].
      destruct H as [H|H]; [discriminate|]. apply IH in H. lia.
    + destruct H as [H|H]; [discriminate|]. apply IH in H. lia.
    + destruct H as [H|H]; [discriminate|]. apply IH in H. lia.
    + apply Hterm in H. repeat (destruct H as [H|H]; [discriminate|]). apply IH in H. lia.
    + destruct H as [H|H]; [discriminate|]. apply Hterm in H. rewrite cs_nil.
      destruct H as [H|[]]. inversion H. lia.
    + unfold report_loss in H. apply Hterm in H. rewrite cs_nil.
      destruct H as [H|[H|[]]]; [discriminate|]. inversion H. lia.
Qed.
Lemma crecv_from_disc_value items stopped inb nw wf n :
  In (AEvDisconnected n) (crecv_from stopped inb nw wf items) -> n = inb + count_stanzas (processed items).
Proof.
  apply crecv_k_disc_value. intros s m H. unfold report_loss in H.
  destruct s; cbn in H; repeat (destruct H as [H|H]; try discriminate; try contradiction); inversion H; reflexivity.
Qed.

(* the Disconnected event with that count is the LAST thing the loop does *)
Lemma crecv_from_ends_with_disc items : forall stopped inb nw wf,
  exists pre, crecv_from stopped inb nw wf items = pre ++ [AEvDisconnected (inb + count_stanzas (processed items))].
Proof.
  unfold crecv_from. induction items as [|i items IH]; intros stopped inb nw wf.
  - cbn [processed]. rewrite cs_nil, N.add_0_r. exists ((if stopped then [] else [AQuit]) ++ [AErrCall]).
    cbn [crecv_k]. unfold report_loss. rewrite <- app_assoc. reflexivity.
  - destruct i; cbn [crecv_k processed stops]; rewrite ?cs_cons; cbn [is_stanza].
    + destruct (IH stopped (inb + 1) nw wf) as (pre & ->).
      exists (ARouteAsync (IStanza k id) :: pre). cbn [app].
      replace (inb + (1 + count_stanzas (processed items))) with (inb + 1 + count_stanzas (processed items)) by lia.
      reflexivity.
    + destruct (IH stopped inb (S nw) wf) as (pre & ->).
      exists ((if wf (S nw) then AWriteFail inb else AWrite inb) :: ARouteAsync ISmR :: pre). reflexivity.
    + destruct (IH stopped inb nw wf) as (pre & ->). exists (ARouteAsync (ISmA h) :: pre). reflexivity.
    + destruct (IH stopped inb nw wf) as (pre & ->). exists (ARouteAsync (INonza tag) :: pre). reflexivity.
    + destruct (IH true inb nw wf) as (pre & ->).
      exists ((if stopped then [] else [AQuit]) ++
              ARouteSync (IStreamError tag) :: AEvStreamError :: AErrCall :: ADisconnectCall :: pre).
      rewrite <- app_assoc. reflexivity.
    + rewrite cs_nil, N.add_0_r. exists (ARecvStreamClose :: (if stopped then [] else [AQuit])).
      cbn [app]. reflexivity.
    + rewrite cs_nil, N.add_0_r. exists ((if stopped then [] else [AQuit]) ++ [AErrCall]).
      unfold report_loss. rewrite <- app_assoc. reflexivity.
Qed.

(* where the quit channel is closed: before the loss is reported, before any application callback *)
Lemma crecv_k_quit_first fin items : forall inb nw wf,
  (forall n, quit_before_disc (fin false n) = true /\ quit_before_callbacks (fin false n) = true) ->
  quit_before_disc (crecv_k fin false inb nw wf items) = true /\
  quit_before_callbacks (crecv_k fin false inb nw wf items) = true.
Proof.
  intros inb nw wf Hfin. revert inb nw wf.
  induction items as [|i items IH]; intros inb nw wf; [apply Hfin|].
  destruct i; cbn [crecv_k app]; try (split; reflexivity).
  - apply (IH (inb + 1) nw wf).
  - destruct (wf (S nw)); apply (IH inb (S nw) wf).
  - apply (IH inb nw wf).
  - apply (IH inb nw wf).
Qed.
Lemma crecv_quit_first items inb nw wf :
  quit_before_disc (crecv inb nw wf items) = true /\ quit_before_callbacks (crecv inb nw wf items) = true.
Proof. apply crecv_k_quit_first. intros n. split; reflexivity. Qed.

Lemma qbc_spec tr : quit_before_callbacks tr = true ->
  forall pre a post, tr = pre ++ a :: post -> is_callback a = true -> In AQuit pre.
Proof.
  induction tr as [|x tr IH]; intros H pre a post E Ha; [destruct pre; discriminate|].
  destruct pre as [|y pre].
  - cbn in E. injection E as -> ->. destruct a; try discriminate; cbn in H; discriminate.
  - cbn in E. injection E as -> E.
    destruct (is_quit y) eqn:Hq; [destruct y; try discriminate; left; reflexivity|].
    right. apply (IH) with (a := a) (post := post); [|exact E|exact Ha].
    destruct y; try discriminate; cbn in H; try exact H; try (apply andb_true_iff in H as [_ H]; exact H).
Qed.
(* in the trace's own terms: whatever application callback the receive goroutine enters, quit was closed before *)
Lemma crecv_callbacks_after_quit items inb nw wf pre a post :
  crecv inb nw wf items = pre ++ a :: post -> is_callback a = true -> In AQuit pre.
Proof. apply qbc_spec. apply crecv_quit_first. Qed.

(* before it: only what a live session does, for exactly the elements received before the first stream
   error; after it: the first stream error and everything received behind it (still routed, requests still
   answered), and the reports *)
Lemma crecv_k_quit_position fin items : forall inb nw wf,
  (forall s n, routed (fin s n) = routed (fin false 0)) ->
  (forall n, exists post, fin false n = AQuit :: post /\ count_act is_quit post = 0%nat) ->
  (forall n, count_act is_quit (fin true n) = 0%nat) ->
  exists pre post, crecv_k fin false inb nw wf items = pre ++ AQuit :: post /\
    forallb is_live pre = true /\
    routed pre = before_serr (processed items) /\
    routed post = from_serr (processed items)
                  ++ (if reaches_end items then routed (fin false 0) else []) /\
    count_act is_quit post = 0%nat.
Proof.
  intros inb nw wf Hr Hf Hft. revert inb nw wf. unfold reaches_end.
  induction items as [|i items IH]; intros inb nw wf.
  - destruct (Hf inb) as (post & E & Hq). exists [], post. cbn [crecv_k]. rewrite E.
    split; [reflexivity|]. split; [reflexivity|]. split; [reflexivity|]. split; [|exact Hq].
    cbn [processed from_serr forallb app]. rewrite <- (Hr false inb), E. reflexivity.
  - assert (Hgo : forall inb' nw' a (a0 : list action),
              is_live a = true -> is_serr i = false -> stops i = false ->
              routed a0 ++ routed [a] = [i] -> forallb is_live a0 = true ->
              exists pre post, a0 ++ a :: crecv_k fin false inb' nw' wf items = pre ++ AQuit :: post /\
                forallb is_live pre = true /\ routed pre = before_serr (processed (i :: items)) /\
                routed post = from_serr (processed (i :: items))
                              ++ (if forallb (fun j => negb (stops j)) (i :: items) then routed (fin false 0) else []) /\
                count_act is_quit post = 0%nat).
    { intros inb' nw' a a0 Ha Hs Hst Hri Hl0.
      destruct (IH inb' nw' wf) as (pre & post & E & Hl & Hr1 & Hr2 & Hq).
      exists (a0 ++ a :: pre), post. rewrite E. split; [rewrite <- app_assoc; reflexivity|].
      cbn [processed forallb]. rewrite Hst. cbn [before_serr from_serr negb andb]. rewrite Hs.
      split; [rewrite forallb_app; cbn [forallb]; rewrite Hl0, Ha, Hl; reflexivity|].
      split; [|split; [exact Hr2|exact Hq]].
      rewrite routed_app. change (a :: pre) with ([a] ++ pre). rewrite routed_app, app_assoc, Hri, Hr1. reflexivity. }
    destruct i; cbn [crecv_k app].
    + apply (Hgo (inb + 1) nw (ARouteAsync (IStanza k id)) []); reflexivity.
    + destruct (wf (S nw)).
      * apply (Hgo inb (S nw) (ARouteAsync ISmR) [AWriteFail inb]); reflexivity.
      * apply (Hgo inb (S nw) (ARouteAsync ISmR) [AWrite inb]); reflexivity.
    + apply (Hgo inb nw (ARouteAsync (ISmA h)) []); reflexivity.
    + apply (Hgo inb nw (ARouteAsync (INonza tag)) []); reflexivity.
    + exists [], (ARouteSync (IStreamError tag) :: AEvStreamError :: AErrCall :: ADisconnectCall
                  :: crecv_k fin true inb nw wf items).
      split; [reflexivity|]. split; [reflexivity|]. split; [reflexivity|]. split.
      * cbn [processed stops from_serr is_serr forallb negb andb]. cbn [routed flat_map app].
        fold (routed (crecv_k fin true inb nw wf items)). rewrite crecv_k_routed; [reflexivity|exact Hr].
      * rewrite !count_act_cons. cbn [is_quit Nat.add].
        clear -Hft. revert inb nw. induction items as [|j items IH]; intros inb nw; [apply Hft|].
        destruct j; cbn [crecv_k app]; rewrite ?count_act_cons; cbn [is_quit Nat.add]; try apply IH; try reflexivity.
        destruct (wf (S nw)); cbn [is_quit Nat.add]; apply IH.
    + exists [ARecvStreamClose], [AEvDisconnected inb]. repeat split.
    + exists [], [AErrCall; AEvDisconnected inb]. repeat split.
Qed.
Lemma crecv_quit_position items inb nw wf :
  exists pre post, crecv inb nw wf items = pre ++ AQuit :: post /\
    forallb is_live pre = true /\
    routed pre = before_serr (processed items) /\
    routed post = from_serr (processed items) /\
    count_act is_quit post = 0%nat.
Proof.
  destruct (crecv_k_quit_position report_loss items inb nw wf) as (pre & post & E & H1 & H2 & H3 & H4).
  - intros s n; destruct s; reflexivity.
  - intros n. exists [AErrCall; AEvDisconnected n]. split; reflexivity.
  - reflexivity.
  - exists pre, post. split; [exact E|]. split; [exact H1|]. split; [exact H2|]. split; [|exact H4].
    rewrite H3. destruct (reaches_end items); apply app_nil_r.
Qed.

(* without a stream error nothing at all is routed or written once quit is closed *)
Lemma crecv_quiet_without_stream_error items : forall inb nw wf,
  filter is_serr (processed items) = [] -> quiet_after_quit (crecv inb nw wf items) = true.
Proof.
  unfold crecv, crecv_from. induction items as [|i items IH]; intros inb nw wf H; [reflexivity|].
  destruct i; cbn [crecv_k app]; cbn [processed stops filter is_serr] in H;
    try reflexivity; try discriminate.
  - apply (IH (inb + 1) nw wf H).
  - destruct (wf (S nw)); apply (IH inb (S nw) wf H).
  - apply (IH inb nw wf H).
  - apply (IH inb nw wf H).
Qed.

(* ---- everything about how a session ends, in one statement ---- *)
Lemma crecv_loss items inb nw wf :
  let tr := crecv inb nw wf items in
  let p := processed items in
  count_act is_quit tr = 1%nat /\
  (quit_before_disc tr = true /\ quit_before_callbacks tr = true) /\
  count_act is_disc tr = 1%nat /\
  count_act is_err tr = ((if ends_by_close items then 0 else 1) + length (filter is_serr p))%nat /\
  In (AEvDisconnected (inb + count_stanzas p)) tr.
Proof.
  cbn zeta. destruct (crecv_from_counts items false inb nw wf) as (Hq & Hd & He).
  split; [exact Hq|]. split; [apply crecv_quit_first|]. split; [exact Hd|]. split; [exact He|].
  destruct (crecv_from_ends_with_disc items false inb nw wf) as (pre & E).
  unfold crecv. rewrite E. apply in_or_app. right. left. reflexivity.
Qed.

(* for the owner of the session model (C09): the Inbound value a Disconnected event of this loop carries is
   the count the loop started with plus the number of stanzas it processed - whichever event one looks
   at; and there is exactly one *)
Lemma crecv_disconnected_inbound items inb nw wf n :
  In (AEvDisconnected n) (crecv inb nw wf items) -> n = inb + count_stanzas (processed items).
Proof. apply crecv_from_disc_value. Qed.
Lemma crecv_disconnected_once items inb nw wf :
  In (AEvDisconnected (inb + count_stanzas (processed items))) (crecv inb nw wf items) /\
  count_act is_disc (crecv inb nw wf items) = 1%nat.
Proof. destruct (crecv_loss items inb nw wf) as (_ & _ & Hd & _ & Hin). split; assumption. Qed.

(* ---- the three endings, in terms of the input ---- *)
Lemma how_ended_spec items :
  match how_ended items with
  | EndCut => processed items = items
  | EndRejected => exists r, items = processed items ++ IBad :: r
  | EndClosed => exists r, items = processed items ++ IClose :: r
  end.
Proof.
  induction items as [|i items IH]; [reflexivity|].
  assert (Hgo : stops i = false -> how_ended (i :: items) = how_ended items ->
    match how_ended (i :: items) with
    | EndCut => processed (i :: items) = i :: items
    | EndRejected => exists r, i :: items = processed (i :: items) ++ IBad :: r
    | EndClosed => exists r, i :: items = processed (i :: items) ++ IClose :: r
    end).
  { intros H1 H3. rewrite H3. cbn [processed]. rewrite H1. destruct (how_ended items).
    - rewrite IH. reflexivity.
    - destruct IH as (r & E). exists r. cbn [app]. rewrite <- E. reflexivity.
    - destruct IH as (r & E). exists r. cbn [app]. rewrite <- E. reflexivity. }
  destruct i; try (apply Hgo; reflexivity).
  - exists items. reflexivity.
  - exists items. reflexivity.
Qed.
Lemma reaches_end_cut items : reaches_end items = true -> how_ended items = EndCut.
Proof.
  unfold reaches_end. induction items as [|i items IH]; intros H; [reflexivity|].
  cbn [forallb] in H. apply andb_true_iff in H as [Hi H]. destruct i; try discriminate; cbn [how_ended]; auto.
Qed.

(* ---- C12 in one piece each ---- *)
Lemma crecv_reported_once items inb nw wf :
  let tr := crecv inb nw wf items in
  let p := processed items in
  count_act is_quit tr = 1%nat /\
  (quit_before_disc tr = true /\ quit_before_callbacks tr = true) /\
  count_act is_disc tr = 1%nat /\
  (exists pre, tr = pre ++ [AEvDisconnected (inb + count_stanzas p)]) /\
  (forall n, In (AEvDisconnected n) tr -> n = inb + count_stanzas p) /\
  count_act is_err tr = ((if ends_by_close items then 0 else 1) + length (filter is_serr p))%nat /\
  routed tr = p.
Proof.
  cbn zeta. destruct (crecv_loss items inb nw wf) as (Hq & Hb & Hd & He & _). cbn zeta in *.
  split; [exact Hq|]. split; [exact Hb|]. split; [exact Hd|].
  split; [apply crecv_from_ends_with_disc|]. split; [intros n; apply crecv_from_disc_value|].
  split; [exact He|apply crecv_routed].
Qed.

(* the loop comes to a stream error whose handler replaces the connection *)
Lemma crecv_handed_over t items inb nw wf :
  reaches_end items = true ->
  let tr := crecv_handover t inb nw wf items in
  count_act is_quit tr = 1%nat /\ quit_before_callbacks tr = true /\
  count_act is_disc tr = 0%nat /\
  count_act is_err tr = (1 + length (filter is_serr items))%nat /\
  routed tr = items ++ [IStreamError t] /\
  routed_async tr = filter (fun i => negb (is_serr i)) items /\
  attempted tr = expected_answers inb items /\
  exists pre, tr = pre ++ [ARouteSync (IStreamError t); AEvStreamError; AErrCall] /\
              count_act is_callback pre = (3 * length (filter is_serr items))%nat.
Proof.
  intros Hre. cbn zeta. pose proof (processed_all items Hre) as Hp. unfold crecv_handover.
  destruct (crecv_k_counts (hand_over t) 0 1 items false inb nw wf) as (Hq & Hd & He);
    try (intros s n; destruct s; reflexivity).
  rewrite Hre, Hp in *.
  split; [exact Hq|]. split.
  { apply crecv_k_quit_first. intros n. split; reflexivity. }
  split; [exact Hd|]. split; [exact He|]. split.
  { fold (crecv_handover t inb nw wf items). rewrite crecv_handover_routed, Hre, Hp. reflexivity. }
  split.
  { rewrite <- Hp at 2. apply (crecv_k_async (hand_over t)); intros s n; destruct s; reflexivity. }
  split.
  { rewrite <- Hp at 2. apply crecv_k_answers. intros s n; destruct s; reflexivity. }
  clear -Hre. generalize false. revert inb nw. unfold reaches_end in Hre.
  induction items as [|i items IH]; intros inb nw stopped.
  - exists (if stopped then [] else [AQuit]). split; [reflexivity|destruct stopped; reflexivity].
  - cbn [forallb] in Hre. apply andb_true_iff in Hre as [Hi Hre].
    destruct i; try discriminate; cbn [crecv_k filter is_serr].
    + destruct (IH Hre (inb + 1) nw stopped) as (pre & -> & Hc). exists (ARouteAsync (IStanza k id) :: pre).
      split; [reflexivity|]. rewrite count_act_cons. exact Hc.
    + destruct (IH Hre inb (S nw) stopped) as (pre & -> & Hc).
      exists ((if wf (S nw) then AWriteFail inb else AWrite inb) :: ARouteAsync ISmR :: pre).
      split; [reflexivity|]. rewrite !count_act_cons. destruct (wf (S nw)); exact Hc.
    + destruct (IH Hre inb nw stopped) as (pre & -> & Hc). exists (ARouteAsync (ISmA h) :: pre).
      split; [reflexivity|]. rewrite count_act_cons. exact Hc.
    + destruct (IH Hre inb nw stopped) as (pre & -> & Hc). exists (ARouteAsync (INonza tag) :: pre).
      split; [reflexivity|]. rewrite count_act_cons. exact Hc.
    + destruct (IH Hre inb nw true) as (pre & -> & Hc).
      exists ((if stopped then [] else [AQuit]) ++
              ARouteSync (IStreamError tag) :: AEvStreamError :: AErrCall :: ADisconnectCall :: pre).
      split; [rewrite <- app_assoc; reflexivity|].
      rewrite count_act_app, !count_act_cons, Hc. cbn [is_callback length].
      destruct stopped; cbn; lia.
Qed.
(* ... which it does not when something before it ends the loop: then the trace is that of the loss *)
Lemma crecv_k_fin_irrelevant fin1 fin2 items : forall stopped inb nw wf,
  reaches_end items = false ->
  crecv_k fin1 stopped inb nw wf items = crecv_k fin2 stopped inb nw wf items.
Proof.
  unfold reaches_end. induction items as [|i items IH]; intros stopped inb nw wf H; [discriminate|].
  cbn [forallb] in H.
  destruct i; cbn [crecv_k stops negb andb] in *; try reflexivity; rewrite (IH _ _ _ _ H); reflexivity.
Qed.
Lemma crecv_handover_not_reached t items inb nw wf :
  reaches_end items = false -> crecv_handover t inb nw wf items = crecv inb nw wf items.
Proof. apply crecv_k_fin_irrelevant. Qed.

Lemma crecv_cut_anywhere items inb nw wf :
  reaches_end items = true ->
  let tr := crecv inb nw wf items in
  routed tr = items /\
  count_act is_quit tr = 1%nat /\ count_act is_disc tr = 1%nat /\
  count_act is_err tr = (1 + length (filter is_serr items))%nat /\
  (exists pre, tr = pre ++ [AEvDisconnected (inb + count_stanzas items)]) /\
  (filter is_serr items = [] -> count_act is_err tr = 1%nat /\ quiet_after_quit tr = true).
Proof.
  intros H. cbn zeta. pose proof (processed_all items H) as Hp. pose proof (reaches_end_cut items H) as Hc.
  destruct (crecv_reported_once items inb nw wf) as (Hq & _ & Hd & Hl & _ & He & Hr). cbn zeta in *.
  unfold ends_by_close in He. rewrite Hc, Hp in *.
  split; [exact Hr|]. split; [exact Hq|]. split; [exact Hd|]. split; [exact He|]. split; [exact Hl|].
  intros Hs. rewrite Hs in He. split; [exact He|].
  apply crecv_quiet_without_stream_error. rewrite Hp. exact Hs.
Qed.

(* ---- component ---- *)
Lemma precv_k_routed fin items :
  routed (precv_k fin items) = processed items ++ (if reaches_end items then routed fin else []).
Proof.
  unfold reaches_end. induction items as [|i items IH]; [reflexivity|].
  destruct i; cbn [precv_k processed stops forallb negb andb]; try reflexivity;
    cbn [routed flat_map app]; fold (routed (precv_k fin items)); rewrite IH; reflexivity.
Qed.
Lemma precv_routed items : routed (precv items) = processed items.
Proof. unfold precv. rewrite precv_k_routed. destruct (reaches_end items); apply app_nil_r. Qed.
Lemma precv_handover_routed t items :
  routed (precv_handover t items) = processed items ++ (if reaches_end items then [IStreamError t] else []).
Proof. unfold precv_handover. rewrite precv_k_routed. reflexivity. Qed.

Definition all_sync (tr : list action) : bool :=
  forallb (fun a => match a with ARouteAsync _ => false | _ => true end) tr.
Lemma precv_k_sync fin items : all_sync fin = true -> all_sync (precv_k fin items) = true.
Proof. intros H. induction items as [|i items IH]; [exact H|]. destruct i; cbn; try exact IH; reflexivity. Qed.
Lemma precv_sync items : all_sync (precv items) = true.
Proof. apply precv_k_sync. reflexivity. Qed.
Lemma precv_k_no_answers fin items : attempted fin = [] -> attempted (precv_k fin items) = [].
Proof. intros H. induction items as [|i items IH]; [exact H|]. destruct i; cbn; try exact IH; reflexivity. Qed.
Lemma precv_no_answers items : attempted (precv items) = [].
Proof. apply precv_k_no_answers. reflexivity. Qed.

(* the component reports every ending exactly once: one Disconnected event unless its transport was taken
   over behind a stream error; one error callback per stream error, plus one unless the server closed *)
Lemma precv_k_counts fin (fd fe : nat) items :
  count_act is_disc fin = fd -> count_act is_err fin = fe ->
  count_act is_disc (precv_k fin items) = (if reaches_end items then fd else 1)%nat /\
  count_act is_err (precv_k fin items)
  = ((if reaches_end items then fe else if ends_by_close items then 0 else 1)
     + length (filter is_serr (processed items)))%nat.
Proof.
  intros Hd He. unfold reaches_end, ends_by_close.
  induction items as [|i items IH]; [cbn [precv_k forallb processed filter length]; rewrite Hd, He; split; [reflexivity|lia]|].
  destruct IH as [IH1 IH2].
  destruct i; cbn [precv_k how_ended processed stops forallb negb andb filter is_serr];
    try (split; reflexivity);
    rewrite !count_act_cons; cbn [is_disc is_err length]; rewrite IH1, IH2; split; lia.
Qed.
Lemma precv_reported_once items :
  count_act is_disc (precv items) = 1%nat /\
  count_act is_err (precv items)
  = ((if ends_by_close items then 0 else 1) + length (filter is_serr (processed items)))%nat.
Proof.
  destruct (precv_k_counts preport_loss 1 1 items eq_refl eq_refl) as [H1 H2]. unfold precv.
  split; [rewrite H1; destruct (reaches_end items); reflexivity|].
  rewrite H2. destruct (reaches_end items) eqn:E; [|reflexivity].
  unfold ends_by_close. rewrite (reaches_end_cut items E). reflexivity.
Qed.
