(* The link between the receive loop's count (Model/Recv.v) and the count a later
   <resume/> carries (Model/Session.v): C09 "continued across a resumption". *)
From Coq Require Import List ZArith NArith Bool Lia.
From XV Require Import Lib.Sx Model.Recv Proofs.RecvP Model.Session Model.SessionSpec Model.SessionRecv
  Proofs.SessionSpecP Proofs.SessionSmP Proofs.SessionHistP.
Import ListNotations.
Open Scope N_scope.

Lemma lost_with_unique tr n :
  count_act is_disc tr = 1%nat -> In (AEvDisconnected n) tr -> lost_with tr = Some n.
Proof.
  induction tr as [|a tr IH]; intros Hc Hin; [destruct Hin|].
  destruct a; try (cbn in Hc; destruct Hin as [Hin|Hin]; [discriminate|]; apply IH; assumption).
  (* the head is the Disconnected event: it is the only one *)
  cbn [lost_with]. destruct Hin as [Hin|Hin]; [congruence|].
  exfalso. unfold count_act in Hc. cbn [filter is_disc length] in Hc.
  assert (Hpos : (1 <= length (filter is_disc tr))%nat).
  { clear -Hin. induction tr as [|b tr IH]; [destruct Hin|].
    destruct Hin as [->|Hin]; [cbn; lia|]. cbn [filter]. destruct (is_disc b); cbn [length]; [lia|apply IH; exact Hin]. }
  lia.
Qed.

(* the receive loop, started with the count the negotiation left, ends with exactly one
   Disconnected event, and the count it carries is that count plus the stanzas processed *)
Lemma crecv_hands_on inb nw wf items :
  lost_with (crecv inb nw wf items) = Some (inb + count_stanzas (processed items)).
Proof.
  pose proof (crecv_loss items inb nw wf) as H. cbn zeta in H.
  destruct H as (_ & _ & Hd & _ & Hin). apply lost_with_unique; assumption.
Qed.

(* the history with real traffic, projected, IS the history with traffic counts *)
Lemma run_full_clients cfg xs : forall p,
  map fst (run_full cfg p xs) = run_clients cfg p (map conn_of xs).
Proof.
  induction xs as [|x xs IH]; intros p; [reflexivity|].
  cbn [run_full run_clients map conn_of k_dial k_tls k_script k_traffic].
  destruct (client_connect cfg (t_dial x) (t_tls x) p (t_script x)) as [[[w r] p1] ev].
  destruct r as [|ce pm].
  - cbn [map fst]. rewrite crecv_hands_on. rewrite IH. reflexivity.
  - cbn [map fst]. rewrite IH. reflexivity.
Qed.

Lemma run_clients_conns cfg cs p : map fst (run_clients cfg p cs) = run_conns cfg p cs.
Proof.
  revert p. induction cs as [|c cs IH]; intros p; [reflexivity|].
  cbn [run_clients run_conns]. unfold client_connect.
  destruct (connect cfg (k_dial c) (k_tls c) p (k_script c)) as [[w r] p1].
  cbn [map fst]. rewrite IH. reflexivity.
Qed.

Lemma run_full_conns cfg xs p :
  map (fun y => fst (fst y)) (run_full cfg p xs) = run_conns cfg p (map conn_of xs).
Proof.
  rewrite <- run_clients_conns, <- run_full_clients, map_map. reflexivity.
Qed.

(* every answer written during the traffic of a connection of the history: the count the
   negotiation left plus the stanzas received on this connection before the request *)
Lemma run_full_trace cfg : forall xs p i w r p2 ev tr,
  nth_error (run_full cfg p xs) i = Some (w, r, p2, ev, tr) ->
  r = Ok ->
  exists x p1, nth_error xs i = Some x /\
    tr = crecv (p_inbound p1) 0 (t_wf x) (t_items x) /\
    p2 = add_inbound p1 (traffic_of x).
Proof.
  induction xs as [|x xs IH]; intros p i w r p2 ev tr Hn Hok; [destruct i; discriminate|].
  cbn [run_full] in Hn.
  destruct (client_connect cfg (t_dial x) (t_tls x) p (t_script x)) as [[[w0 r0] p1] ev0].
  destruct i as [|i].
  - destruct r0 as [|ce pm]; cbn in Hn; inversion Hn; subst; [|discriminate].
    exists x, p1. split; [reflexivity|]. split; [reflexivity|].
    rewrite crecv_hands_on. reflexivity.
  - destruct r0 as [|ce pm]; cbn [nth_error] in Hn; eapply IH; eassumption.
Qed.

Lemma history_answers cfg xs p i w r p2 ev tr k h :
  nth_error (run_full cfg p xs) i = Some (w, r, p2, ev, tr) -> r = Ok ->
  nth_error (attempted tr) k = Some h ->
  exists x p1 pre post, nth_error xs i = Some x /\
    p2 = add_inbound p1 (traffic_of x) /\
    processed (t_items x) = pre ++ ISmR :: post /\
    length (filter is_r pre) = k /\ h = p_inbound p1 + count_stanzas pre.
Proof.
  intros Hn Hok Hk.
  destruct (run_full_trace cfg xs p i w r p2 ev tr Hn Hok) as (x & p1 & Hx & Htr & Hp).
  subst tr. rewrite crecv_answers in Hk.
  destruct (expected_answers_spec _ _ _ _ Hk) as (pre & post & H1 & H2 & H3).
  exists x, p1, pre, post. repeat split; assumption.
Qed.

(* end to end: the h of a <resume/> sent on connection i is the number of stanzas the
   receive loops processed on the stream-managed session so far *)
Lemma resume_h_counts_received cfg xs p i y prev h a :
  nth_error (run_full cfg p xs) i = Some y ->
  nth_error (session_counts (p_inbound p) (map conn_of xs) (run_conns cfg p (map conn_of xs))) i = Some a ->
  In (RResume prev h) (reqs (fst (fst (fst (fst y))))) -> h = a.
Proof.
  intros Hn Ha Hin.
  assert (Hc : nth_error (run_conns cfg p (map conn_of xs)) i = Some (fst (fst y))).
  { rewrite <- run_full_conns. rewrite nth_error_map, Hn. reflexivity. }
  destruct y as [[[[w r] p2] ev] tr]. cbn [fst] in *.
  eapply (run_conns_counts cfg (map conn_of xs) p (p_inbound p) (fun _ => eq_refl)); eassumption.
Qed.
