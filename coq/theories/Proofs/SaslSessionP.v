(* C14 at the level of the session: the mechanism choice of Model/Session.v ([step_auth],
   used by whole negotiations) IS the one of Model/Sasl.v (authSASL, which C14's theorems
   speak about); what Client.connect does with the outcome of authentication; which
   concrete reply element counts as <success/> (through Model/Parser.v's classification). *)
From Coq Require Import List ZArith NArith Bool Lia.
From XV Require Import Lib.Sx Model.Session Model.SessionSpec Proofs.SessionSpecP Proofs.SessionWaitP Proofs.SessionSmP Proofs.SessionEvP.
From XV Require Model.Sasl Proofs.SaslP Model.Parser Gen.Generated.
From XV Require Import Model.SaslReply.
Import ListNotations.
Open Scope N_scope.

(* ---------- the two models of authSASL's mechanism choice agree ---------- *)
Lemma mech_plain_agree : mech_plain = Sasl.s_PLAIN.
Proof. reflexivity. Qed.
Lemma mech_oauth_agree : mech_oauth = Sasl.s_XOAUTH2.
Proof. reflexivity. Qed.

Lemma mem_str_agree m l : mem_str m l = Sasl.is_supported_mech m l.
Proof. induction l as [|y l IH]; [reflexivity|]. cbn. rewrite IH. reflexivity. Qed.

Lemma choose_mech_agree creds server : choose_mech creds server = Sasl.choose_mech creds server.
Proof.
  induction creds as [|m creds IH]; [reflexivity|]. cbn. rewrite mem_str_agree, IH. reflexivity.
Qed.

Lemma implemented_agree m : implemented m = Sasl.plain_family m.
Proof. reflexivity. Qed.

(* ---------- step_auth: which mechanism, what on a non-success ---------- *)
Lemma auth_mechanism cfg c p f s sn m :
  In (RAuth m) (reqs (outs (step_auth cfg c p f s sn))) ->
  Sasl.choose_mech (c_mechs cfg) (f_mechs f) = Some m /\ Sasl.plain_family m = true.
Proof.
  rewrite <- choose_mech_agree, <- implemented_agree. unfold step_auth.
  destruct (choose_mech (c_mechs cfg) (f_mechs f)) as [m0|]; [|intros []].
  destruct (implemented m0) eqn:Ei; cbn [negb]; [|intros []].
  assert (H1 : forall w, In (RAuth m) (reqs ([o c (RAuth m0) sn] ++ w)) ->
               (forall r, In r (reqs w) -> match r with RAuth _ => False | _ => True end) -> m = m0).
  { intros w [H|H] Hw; [inversion H; reflexivity|]. exfalso. exact (Hw _ H). }
  assert (Hfinal : m = m0 -> Some m0 = Some m /\ implemented m = true) by (intros ->; split; [reflexivity|exact Ei]).
  destruct s as [|i s1]; [intros H; apply Hfinal, (H1 [] H); intros ? []|].
  destruct i; try (intros H; apply Hfinal, (H1 [] H); intros ? []).
  destruct (read_header s1) as [[id s2]|].
  2: { intros H. apply Hfinal. destruct H as [H|[H|[]]]; [inversion H; reflexivity|discriminate]. }
  destruct (read_features s2) as [[f2 s3]|].
  2: { intros H. apply Hfinal. destruct H as [H|[H|[]]]; [inversion H; reflexivity|discriminate]. }
  pose proof (resume_shape cfg c p f2 s3 [SHeader id; SFeatures f2]) as Hs.
  unfold outs in *. destruct (step_resume _ _ _ _ _ _) as [[w r] p2]. cbn [fst] in *.
  intros H. apply Hfinal. rewrite reqs_app' in H. cbn [reqs map app o o_req] in H.
  destruct H as [H|[H|H]]; [inversion H; reflexivity|discriminate|]. exfalso.
  (* no <auth/> after the stream restart: the tail is an ordered_tail word *)
  fold (reqs w) in H. destruct (reqs w) as [|r0 l0]; [destruct H|].
  assert (Hfb : forall l, from_bind l = true -> ~ In (RAuth m) l).
  { intros l Hl Hin. destruct l as [|[] l1]; try discriminate; [destruct Hin|].
    destruct Hin as [Hin|Hin]; [discriminate|].
    destruct l1 as [|[] l2]; try discriminate; [destruct Hin| |].
    - destruct Hin as [Hin|Hin]; [discriminate|]. destruct l2 as [|[] l3]; try discriminate; [destruct Hin|].
      destruct l3; [|discriminate]. destruct Hin as [Hin|[]]; discriminate.
    - destruct l2; [|discriminate]. destruct Hin as [Hin|[]]; discriminate. }
  destruct r0; try (exact (Hfb _ Hs H)).
  cbn [ordered_tail] in Hs. destruct H as [H|H]; [discriminate|]. exact (Hfb _ Hs H).
Qed.

Lemma auth_none cfg c p f s sn :
  (Sasl.choose_mech (c_mechs cfg) (f_mechs f) = None \/
   exists m, Sasl.choose_mech (c_mechs cfg) (f_mechs f) = Some m /\ Sasl.plain_family m = false) ->
  step_auth cfg c p f s sn = ([], Err true true, p).
Proof.
  rewrite <- choose_mech_agree. unfold step_auth. intros [H|(m & H & Hf)]; rewrite H; [reflexivity|].
  rewrite implemented_agree, Hf. reflexivity.
Qed.


Lemma auth_not_success cfg c p f s sn m :
  Sasl.choose_mech (c_mechs cfg) (f_mechs f) = Some m -> Sasl.plain_family m = true ->
  is_success s = false ->
  step_auth cfg c p f s sn
  = ([o c (RAuth m) sn], (if is_failure s then Err true true else Err false false), p).
Proof.
  rewrite <- choose_mech_agree, <- implemented_agree. intros Hm Hi Hs. unfold step_auth. rewrite Hm, Hi. cbn [negb].
  destruct s as [|i s1]; [reflexivity|]. destruct i; try reflexivity. discriminate.
Qed.

(* ---------- the same at the level of a connection ---------- *)
Lemma connect_mechanism cfg dial tls p s m :
  In (RAuth m) (reqs (outs (connect cfg dial tls p s))) ->
  exists f, In (SFeatures f) s /\ Sasl.choose_mech (c_mechs cfg) (f_mechs f) = Some m /\
            Sasl.plain_family m = true /\ In m (c_mechs cfg) /\ In m (f_mechs f).
Proof.
  intros H. pose proof (connect_just cfg dial tls p s) as Hj. rewrite Forall_forall in Hj.
  specialize (Hj _ H). cbn in Hj. destruct Hj as (Hc & Hi & _).
  (* the features element the choice was made on *)
  revert H. unfold connect. destruct (negb dial); [intros []|].
  destruct s as [|i s1]; [intros [H|[]]; discriminate|]. destruct i; try (intros [H|[]]; discriminate). cbn [read_header].
  destruct s1 as [|i1 s2]; [intros [H|[]]; discriminate|]. destruct i1; try (intros [H|[]]; discriminate). cbn [read_features].
  assert (Hlift : forall chan q ff ss sn (pre : list out),
            (forall r, In r (reqs pre) -> match r with RAuth _ => False | _ => True end) ->
            forall w r p2, step_auth cfg chan q ff ss sn = (w, r, p2) ->
            In (RAuth m) (reqs (pre ++ w)) ->
            Sasl.choose_mech (c_mechs cfg) (f_mechs ff) = Some m /\ Sasl.plain_family m = true).
  { intros chan q ff ss sn pre Hpre w r p2 E Hin. rewrite reqs_app' in Hin. apply in_app_or in Hin as [Hin|Hin].
    - exfalso. exact (Hpre _ Hin).
    - pose proof (auth_mechanism cfg chan q ff ss sn m) as Ha. unfold outs in Ha. rewrite E in Ha. exact (Ha Hin). }
  assert (Hfin : forall ff, In (SFeatures ff) (SHeader id :: SFeatures f :: s2) ->
            Sasl.choose_mech (c_mechs cfg) (f_mechs ff) = Some m /\ Sasl.plain_family m = true ->
            exists f0, In (SFeatures f0) (SHeader id :: SFeatures f :: s2) /\
              Sasl.choose_mech (c_mechs cfg) (f_mechs f0) = Some m /\ Sasl.plain_family m = true /\
              In m (c_mechs cfg) /\ In m (f_mechs f0)).
  { intros ff Hin [H1 H2]. exists ff. repeat split; try assumption.
    rewrite <- choose_mech_agree in H1. apply choose_mech_in in H1. apply H1. }
  destruct (f_tls f).
  - destruct (c_insecure cfg); [|intros [H|[]]; discriminate].
    destruct (step_auth _ _ _ _ _ _) as [[w r] p2] eqn:E. unfold outs. cbn [fst]. intros H.
    apply (Hfin f); [right; left; reflexivity|].
    eapply Hlift; [|exact E|exact H]. intros r0 [<-|[]]. exact I.
  - destruct s2 as [|i2 s3]; [destruct (c_insecure cfg); intros [H|[H|[]]]; discriminate|].
    destruct i2; try (destruct (c_insecure cfg); intros [H|[H|[]]]; discriminate). cbn [read_proceed].
    destruct tls; [|destruct (c_insecure cfg); intros [H|[H|[]]]; discriminate].
    destruct s3 as [|i3 s4]; [intros [H|[H|[H|[]]]]; discriminate|].
    destruct i3; try (intros [H|[H|[H|[]]]]; discriminate). cbn [read_header].
    destruct s4 as [|i4 s5]; [intros [H|[H|[H|[]]]]; discriminate|].
    destruct i4; try (intros [H|[H|[H|[]]]]; discriminate). cbn [read_features].
    destruct (step_auth _ _ _ _ _ _) as [[w r] p2] eqn:E. unfold outs. cbn [fst]. intros H.
    apply (Hfin f0); [right; right; right; right; left; reflexivity|].
    eapply Hlift; [|exact E|exact H]. intros r0 [<-|[<-|[<-|[]]]]; exact I.
  - destruct s2 as [|i2 s3]; [destruct (c_insecure cfg); intros [H|[H|[]]]; discriminate|].
    destruct i2; try (destruct (c_insecure cfg); intros [H|[H|[]]]; discriminate). cbn [read_proceed].
    destruct tls; [|destruct (c_insecure cfg); intros [H|[H|[]]]; discriminate].
    destruct s3 as [|i3 s4]; [intros [H|[H|[H|[]]]]; discriminate|].
    destruct i3; try (intros [H|[H|[H|[]]]]; discriminate). cbn [read_header].
    destruct s4 as [|i4 s5]; [intros [H|[H|[H|[]]]]; discriminate|].
    destruct i4; try (intros [H|[H|[H|[]]]]; discriminate). cbn [read_features].
    destruct (step_auth _ _ _ _ _ _) as [[w r] p2] eqn:E. unfold outs. cbn [fst]. intros H.
    apply (Hfin f0); [right; right; right; right; left; reflexivity|].
    eapply Hlift; [|exact E|exact H]. intros r0 [<-|[<-|[<-|[]]]]; exact I.
Qed.

(* whatever follows an <auth/> in the client's output was sent after reading <success/>,
   and nothing else, from this server *)
Lemma after_auth_only_on_success cfg dial tls p s w1 x y w2 m :
  outs (connect cfg dial tls p s) = w1 ++ x :: y :: w2 -> o_req x = RAuth m -> o_seen y = [SSuccess].
Proof.
  intros E Hx. pose proof (connect_chain cfg dial tls p s) as Hc. rewrite E in Hc.
  assert (Hgen : forall prev, chain prev (w1 ++ x :: y :: w2) = true -> confirms (o_req x) (o_seen y) = true).
  { clear. induction w1 as [|a w1 IH]; intros prev H.
    - cbn [app chain] in H. apply andb_true_iff in H as [_ H]. apply andb_true_iff in H as [H _]. exact H.
    - cbn [app chain] in H. apply andb_true_iff in H as [_ H]. exact (IH _ H). }
  specialize (Hgen _ Hc). rewrite Hx in Hgen. cbn in Hgen.
  destruct (o_seen y) as [|i l]; [discriminate|]. destruct i; try discriminate. destruct l; [reflexivity|discriminate].
Qed.

(* a successful connection has read a <success/> *)
Lemma connect_ok_needs_success cfg dial tls p s :
  res (connect cfg dial tls p s) = Ok -> In SSuccess s.
Proof.
  intros H. apply connect_ok in H. destruct H as (_ & id & f & s2 & -> & Hc).
  assert (Ha : forall ff ss, auth_completes cfg p ff ss -> In SSuccess ss).
  { intros ff ss (m & _ & _ & id0 & f2 & s3 & -> & _). left. reflexivity. }
  destruct (f_tls f).
  - destruct Hc as [_ Hc]. right; right. exact (Ha _ _ Hc).
  - destruct Hc as (_ & id1 & f1 & s5 & -> & Hc). do 5 right. exact (Ha _ _ Hc).
  - destruct Hc as (_ & id1 & f1 & s5 & -> & Hc). do 5 right. exact (Ha _ _ Hc).
Qed.

(* the reply to <auth/> is not <success/>: Client.connect returns the error of that step
   (permanent exactly for <failure/>), has written nothing after the <auth/>, and the state
   held on the Client is what it was (up to the flags of the new connection) *)
Lemma connect_auth_reply_clear cfg tls p id f s2 m :
  c_insecure cfg = true -> f_tls f = TlsNone ->
  Sasl.choose_mech (c_mechs cfg) (f_mechs f) = Some m -> Sasl.plain_family m = true ->
  is_success s2 = false ->
  let x := client_connect cfg true tls p (SHeader id :: SFeatures f :: s2) in
  reqs (fst (fst (fst x))) = [ROpen; RAuth m] /\
  cres x = (if is_failure s2 then Err true true else Err false false) /\
  evs x = [] /\
  snd (fst x) = with_session (set_flags p false false).
Proof.
  intros Hi Ht Hm Hf Hs. cbn zeta. unfold client_connect, connect, cres, evs.
  cbn [negb read_header read_features]. rewrite Ht, Hi.
  rewrite (auth_not_success cfg false _ f s2 _ m Hm Hf Hs). cbn [fst snd].
  repeat split; destruct (is_failure s2); reflexivity.
Qed.

Lemma connect_auth_reply_tls cfg p id f id1 f1 s5 m :
  f_tls f <> TlsNone ->
  Sasl.choose_mech (c_mechs cfg) (f_mechs f1) = Some m -> Sasl.plain_family m = true ->
  is_success s5 = false ->
  let x := client_connect cfg true true p (SHeader id :: SFeatures f :: SProceed :: SHeader id1 :: SFeatures f1 :: s5) in
  reqs (fst (fst (fst x))) = [ROpen; RStartTls; ROpen; RAuth m] /\
  cres x = (if is_failure s5 then Err true true else Err false false) /\
  evs x = [] /\
  snd (fst x) = with_session (set_flags p true true).
Proof.
  intros Ht Hm Hf Hs. cbn zeta. unfold client_connect, connect, cres, evs.
  cbn [negb read_header read_features read_proceed].
  destruct (f_tls f); [congruence| |];
    rewrite (auth_not_success cfg true _ f1 s5 _ m Hm Hf Hs); cbn [fst snd];
    repeat split; destruct (is_failure s5); reflexivity.
Qed.

(* ---------- which reply element is <success/> (Model/Parser.v) ---------- *)
Lemma reply_success_name n reason :
  reply_of_name n reason = Sasl.RSuccess <-> n = (Generated.ns_sasl, Parser.s_success).
Proof.
  destruct n as [ns loc]. unfold reply_of_name, Parser.classify. cbn [fst snd]. split.
  - repeat match goal with
      | |- context [if str_eqb ?a ?b then _ else _] => destruct (str_eqb a b) eqn:?
      end; try discriminate.
    intros _.
    match goal with H1 : str_eqb ns Generated.ns_sasl = true, H2 : str_eqb loc Parser.s_success = true |- _ =>
      apply SaslP.str_eqb_eq in H1; apply SaslP.str_eqb_eq in H2; subst; reflexivity end.
  - intros E. inversion E; subst. reflexivity.
Qed.

Lemma only_sasl_success_authenticates k server user secret w n reason :
  snd (Sasl.auth_sasl k server user secret w (reply_of_name n reason)) = Sasl.Ok ->
  n = (Generated.ns_sasl, Parser.s_success).
Proof.
  intros H. apply SaslP.only_success_authenticates in H as (H & _). apply (reply_success_name n reason). exact H.
Qed.
