(* C03: what the application is told ([client_connect], [run_clients]); STARTTLS is
   taken whenever it is offered; the client only sends requests it has business sending
   ([justified]).  C11: the steps of a resumption attempt, with the exact output. *)
From Coq Require Import List ZArith NArith Bool Lia.
From XV Require Import Lib.Sx Model.Session Model.SessionSpec Proofs.SessionSpecP Proofs.SessionSmP.
Import ListNotations.
Open Scope N_scope.

(* ---------- the session-established announcement ---------- *)
Definition evs (x : list out * result * persist * list cev) : list cev := snd x.
Definition cres (x : list out * result * persist * list cev) : result := snd (fst (fst x)).

Lemma client_connect_fst cfg dial tls p s :
  fst (client_connect cfg dial tls p s) = connect cfg dial tls p s.
Proof. unfold client_connect. destruct (connect cfg dial tls p s) as [[w r] p1]. reflexivity. Qed.

Lemma client_connect_evs cfg dial tls p s :
  evs (client_connect cfg dial tls p s) = announce (res (connect cfg dial tls p s)).
Proof. unfold client_connect, evs, res. destruct (connect cfg dial tls p s) as [[w r] p1]. reflexivity. Qed.

Lemma established_iff cfg dial tls p s :
  In EvEstablished (evs (client_connect cfg dial tls p s)) <-> completes cfg dial tls p s.
Proof.
  rewrite client_connect_evs, <- connect_ok.
  destruct (res (connect cfg dial tls p s)); cbn; split; auto; try discriminate.
  intros [].
Qed.

Lemma established_result cfg dial tls p s :
  In EvEstablished (evs (client_connect cfg dial tls p s)) <-> cres (client_connect cfg dial tls p s) = Ok.
Proof.
  unfold cres. rewrite client_connect_fst, client_connect_evs. unfold res.
  destruct (snd (fst (connect cfg dial tls p s))); cbn; split; auto; try discriminate.
  intros [].
Qed.

Lemma established_once cfg dial tls p s :
  (count_ev EvEstablished (evs (client_connect cfg dial tls p s)) <= 1)%nat /\
  (cres (client_connect cfg dial tls p s) = Ok ->
   evs (client_connect cfg dial tls p s) = [EvEstablished]) /\
  (cres (client_connect cfg dial tls p s) <> Ok -> evs (client_connect cfg dial tls p s) = []).
Proof.
  unfold cres. rewrite client_connect_fst, client_connect_evs. unfold res.
  destruct (snd (fst (connect cfg dial tls p s))); cbn; repeat split; auto; try discriminate; try lia.
  intros H; exfalso; apply H; reflexivity.
Qed.

(* over a history: the application sees the same connections as [run_conns], each with
   exactly one announcement when it succeeded and none when it failed *)
Lemma run_clients_spec cfg cs : forall p,
  map fst (run_clients cfg p cs) = run_conns cfg p cs /\
  Forall (fun x => evs x = announce (cres x)) (run_clients cfg p cs).
Proof.
  induction cs as [|c cs IH]; intros p; [split; [reflexivity|constructor]|].
  cbn [run_clients run_conns]. unfold client_connect.
  destruct (connect cfg (k_dial c) (k_tls c) p (k_script c)) as [[w r] p1].
  destruct (IH (match r with Ok => add_inbound p1 (k_traffic c) | Err _ _ => p1 end)) as [H1 H2].
  split; [cbn [map fst]; rewrite H1; reflexivity|constructor; [reflexivity|exact H2]].
Qed.

(* ---------- STARTTLS offered => taken, also with Insecure ---------- *)
Lemma offered_tls_mandatory cfg dial tls p id f s2 :
  f_tls f <> TlsNone ->
  res (connect cfg dial tls p (SHeader id :: SFeatures f :: s2)) = Ok ->
  tls = true /\ exists r, s2 = SProceed :: r.
Proof.
  intros Hf H. apply connect_ok in H. destruct H as (_ & id0 & f0 & s2' & E & Hc).
  inversion E; subst. destruct (f_tls f0); [congruence| |];
    destruct Hc as (Ht & id1 & f1 & s5 & Es & _); (split; [exact Ht|eauto]).
Qed.

(* ---------- requests the client has business sending ---------- *)
Lemma mem_str_in x l : mem_str x l = true -> In x l.
Proof.
  induction l as [|y l IH]; [discriminate|]. cbn. intros H. apply orb_true_iff in H as [H|H].
  - left. symmetry. apply str_eqb_eq. exact H.
  - right. apply IH. exact H.
Qed.

Lemma choose_mech_in creds server m :
  choose_mech creds server = Some m -> In m creds /\ In m server.
Proof.
  induction creds as [|x creds IH]; [discriminate|]. cbn.
  destruct (mem_str x server) eqn:E.
  - intros H. inversion H; subst. split; [left; reflexivity|apply mem_str_in; exact E].
  - intros H. destruct (IH H). split; [right; assumption|assumption].
Qed.

Definition all_just cfg p script (w : list out) : Prop := Forall (justified cfg p script) (reqs w).

Lemma all_just_app cfg p script a b : all_just cfg p script a -> all_just cfg p script b -> all_just cfg p script (a ++ b).
Proof. unfold all_just. rewrite reqs_app'. intros; apply Forall_app; split; assumption. Qed.

Lemma enable_just cfg p script c q f s sn :
  p_sm_enable q = p_sm_enable p -> p_resume_refused q = p_resume_refused p -> In (SFeatures f) script ->
  all_just cfg p script (outs (step_enable cfg c q f s sn)).
Proof.
  intros Eq Er Hf. unfold step_enable, outs. destruct (f_sm f && p_sm_enable q) eqn:E; [|constructor].
  apply andb_true_iff in E as [E1 E2].
  assert (H : all_just cfg p script [o c (REnable (resume_wish cfg q)) sn]).
  { constructor; [|constructor]. cbn. repeat split; [congruence|unfold resume_wish; rewrite Er; reflexivity|].
    exists f. split; assumption. }
  destruct s as [|[] s']; exact H.
Qed.

Lemma session_just cfg p script c q f s sn :
  p_sm_enable q = p_sm_enable p -> p_resume_refused q = p_resume_refused p -> In (SFeatures f) script ->
  all_just cfg p script (outs (step_session cfg c q f s sn)).
Proof.
  intros Eq Er Hf. unfold step_session. destruct (f_sess f) eqn:Es; try (apply enable_just; assumption).
  assert (H : all_just cfg p script [o c (RSession (p_packet_id q + 1)) sn]).
  { constructor; [|constructor]. cbn. exists f. split; assumption. }
  destruct s as [|i s']; [exact H|]. destruct i; try exact H. destruct t; try exact H.
  pose proof (enable_just cfg p script c (set_bind q (p_bind_jid q) (p_packet_id q + 1)) f s' [SIq TResult pl err] Eq Er Hf) as He.
  unfold outs in *. destruct (step_enable _ _ _ _ _ _) as [[w r] p2]. cbn [fst] in *.
  apply all_just_app; assumption.
Qed.

Lemma bind_just cfg p script c q f s sn :
  p_sm_enable q = p_sm_enable p -> p_resume_refused q = p_resume_refused p -> In (SFeatures f) script ->
  all_just cfg p script (outs (step_bind cfg c q f s sn)).
Proof.
  intros Eq Er Hf. unfold step_bind.
  assert (H : all_just cfg p script [o c (RBind (c_resource cfg) (p_packet_id q + 1)) sn]).
  { constructor; [|constructor]. reflexivity. }
  destruct s as [|i s']; [exact H|]. destruct i; try exact H. destruct t; try exact H. destruct pl; try exact H.
  pose proof (session_just cfg p script c (set_bind q jid (p_packet_id q + 1)) f s' [SIq TResult (PlBind jid) err] Eq Er Hf) as Hs.
  unfold outs in *. destruct (step_session _ _ _ _ _ _) as [[w r] p2]. cbn [fst] in *.
  apply all_just_app; assumption.
Qed.

Lemma resume_just cfg p script c q f s sn :
  p_sm_enable q = p_sm_enable p -> p_resume_refused q = p_resume_refused p ->
  p_sm_id q = p_sm_id p -> p_inbound q = p_inbound p ->
  In (SFeatures f) script ->
  all_just cfg p script (outs (step_resume cfg c q f s sn)).
Proof.
  intros Eq Er Ei En Hf. unfold step_resume.
  destruct (f_sm f && negb (str_eqb (p_sm_id q) [])) eqn:E.
  - apply andb_true_iff in E as [E1 E2]. apply negb_true_iff in E2.
    assert (H : all_just cfg p script [o c (RResume (p_sm_id q) (p_inbound q)) sn]).
    { constructor; [|constructor]. cbn. repeat split; try congruence.
      - intros H0. rewrite H0 in E2. discriminate.
      - exists f. split; assumption. }
    destruct s as [|i s']; [exact H|]. destruct i; try exact H.
    + destruct (str_eqb previd (p_sm_id q)); exact H.
    + pose proof (bind_just cfg p script c (clear_sm q) f s' [SFailed] Eq Er Hf) as Hb.
      unfold outs in *. destruct (step_bind _ _ _ _ _ _) as [[w r] p2]. cbn [fst] in *.
      apply all_just_app; assumption.
  - apply bind_just; [destruct (f_sm f); exact Eq|destruct (f_sm f); exact Er|exact Hf].
Qed.

Lemma auth_just cfg p script c q f s sn :
  p_sm_enable q = p_sm_enable p -> p_resume_refused q = p_resume_refused p ->
  p_sm_id q = p_sm_id p -> p_inbound q = p_inbound p ->
  In (SFeatures f) script -> (forall x, In x s -> In x script) ->
  all_just cfg p script (outs (step_auth cfg c q f s sn)).
Proof.
  intros Eq Er Ei En Hf Hs. unfold step_auth.
  destruct (choose_mech (c_mechs cfg) (f_mechs f)) as [m|] eqn:Em; [|constructor].
  destruct (implemented m) eqn:Eim; cbn [negb]; [|constructor].
  destruct (choose_mech_in _ _ _ Em) as [Hc Hsrv].
  assert (Ja : justified cfg p script (RAuth m)).
  { cbn. repeat split; try assumption. exists f. split; assumption. }
  assert (H1 : all_just cfg p script [o c (RAuth m) sn]) by (constructor; [exact Ja|constructor]).
  assert (H2 : all_just cfg p script ([o c (RAuth m) sn] ++ [o c ROpen [SSuccess]])).
  { constructor; [exact Ja|]. constructor; [exact I|constructor]. }
  destruct s as [|i s1]; [exact H1|]. destruct i; try exact H1.
  destruct s1 as [|i1 s2]; [exact H2|]. destruct i1; try exact H2. cbn [read_header].
  destruct s2 as [|i2 s3]; [exact H2|]. destruct i2; try exact H2. cbn [read_features].
  assert (Hf2 : In (SFeatures f0) script) by (apply Hs; right; right; left; reflexivity).
  pose proof (resume_just cfg p script c q f0 s3 [SHeader id; SFeatures f0] Eq Er Ei En Hf2) as Hr.
  unfold outs in *. destruct (step_resume _ _ _ _ _ _) as [[w r] p2]. cbn [fst] in *.
  apply all_just_app; assumption.
Qed.

Lemma connect_just cfg dial tls p s :
  Forall (justified cfg p s) (reqs (outs (connect cfg dial tls p s))).
Proof.
  change (all_just cfg p s (outs (connect cfg dial tls p s))).
  unfold connect. destruct (negb dial); [constructor|].
  assert (H0 : all_just cfg p s [o false ROpen []]) by (constructor; [exact I|constructor]).
  destruct s as [|i s1]; [exact H0|]. destruct i; try exact H0. cbn [read_header].
  destruct s1 as [|i1 s2]; [exact H0|]. destruct i1; try exact H0. cbn [read_features].
  set (script := SHeader id :: SFeatures f :: s2) in *.
  assert (Hf : In (SFeatures f) script) by (right; left; reflexivity).
  destruct (f_tls f) eqn:Et.
  - destruct (c_insecure cfg); [|exact H0].
    pose proof (auth_just cfg p script false
      (with_session (set_flags (set_flags p false (p_tls_enabled p)) false false)) f s2 [SHeader id; SFeatures f]
      eq_refl eq_refl eq_refl eq_refl Hf (fun x H => or_intror (or_intror H))) as Ha.
    unfold outs in *. destruct (step_auth _ _ _ _ _ _) as [[w r] p2]. cbn [fst] in *.
    apply all_just_app; assumption.
  - assert (H1 : all_just cfg p script ([o false ROpen []] ++ [o false RStartTls [SHeader id; SFeatures f]])).
    { constructor; [exact I|]. constructor; [|constructor]. cbn. exists f. split; [exact Hf|congruence]. }
    assert (H2 : all_just cfg p script (([o false ROpen []] ++ [o false RStartTls [SHeader id; SFeatures f]]) ++ [o true ROpen [SProceed]])).
    { apply all_just_app; [exact H1|]. constructor; [exact I|constructor]. }
    destruct s2 as [|i2 s3]; [destruct (c_insecure cfg); exact H1|].
    destruct i2; try (destruct (c_insecure cfg); exact H1). cbn [read_proceed].
    destruct tls; [|destruct (c_insecure cfg); exact H1].
    destruct s3 as [|i3 s4]; [exact H2|]. destruct i3; try exact H2. cbn [read_header].
    destruct s4 as [|i4 s5]; [exact H2|]. destruct i4; try exact H2. cbn [read_features].
    assert (Hf1 : In (SFeatures f0) script) by (right; right; right; right; left; reflexivity).
    pose proof (auth_just cfg p script true
      (with_session (set_flags (set_flags (set_flags p false (p_tls_enabled p)) false false) true true)) f0 s5 [SHeader id0; SFeatures f0]
      eq_refl eq_refl eq_refl eq_refl Hf1 (fun x H => or_intror (or_intror (or_intror (or_intror (or_intror H)))))) as Ha.
    unfold outs in *. destruct (step_auth _ _ _ _ _ _) as [[w r] p2]. cbn [fst] in *.
    apply all_just_app; assumption.
  - assert (H1 : all_just cfg p script ([o false ROpen []] ++ [o false RStartTls [SHeader id; SFeatures f]])).
    { constructor; [exact I|]. constructor; [|constructor]. cbn. exists f. split; [exact Hf|congruence]. }
    assert (H2 : all_just cfg p script (([o false ROpen []] ++ [o false RStartTls [SHeader id; SFeatures f]]) ++ [o true ROpen [SProceed]])).
    { apply all_just_app; [exact H1|]. constructor; [exact I|constructor]. }
    destruct s2 as [|i2 s3]; [destruct (c_insecure cfg); exact H1|].
    destruct i2; try (destruct (c_insecure cfg); exact H1). cbn [read_proceed].
    destruct tls; [|destruct (c_insecure cfg); exact H1].
    destruct s3 as [|i3 s4]; [exact H2|]. destruct i3; try exact H2. cbn [read_header].
    destruct s4 as [|i4 s5]; [exact H2|]. destruct i4; try exact H2. cbn [read_features].
    assert (Hf1 : In (SFeatures f0) script) by (right; right; right; right; left; reflexivity).
    pose proof (auth_just cfg p script true
      (with_session (set_flags (set_flags (set_flags p false (p_tls_enabled p)) false false) true true)) f0 s5 [SHeader id0; SFeatures f0]
      eq_refl eq_refl eq_refl eq_refl Hf1 (fun x H => or_intror (or_intror (or_intror (or_intror (or_intror H)))))) as Ha.
    unfold outs in *. destruct (step_auth _ _ _ _ _ _) as [[w r] p2]. cbn [fst] in *.
    apply all_just_app; assumption.
Qed.

(* ---------- C11: the reply to <resume/>, with the exact output ---------- *)
Lemma other_reply_exact cfg c p f s sn :
  f_sm f = true -> has_id p = true -> conn_lost s = false ->
  (forall rest, s <> SResumed (p_sm_id p) :: rest) -> (forall s1, s <> SFailed :: s1) ->
  step_resume cfg c p f s sn
  = ([o c (RResume (p_sm_id p) (p_inbound p)) sn], Err false false, clear_sm p).
Proof.
  intros Hf Hi Hc Hr Hfl. unfold step_resume, has_id in *. rewrite Hf, Hi. cbn [andb].
  destruct s as [|i s']; [discriminate|]. destruct i; try reflexivity; try discriminate.
  - destruct (str_eqb previd (p_sm_id p)) eqn:E; [|reflexivity].
    apply str_eqb_eq in E. subst. exfalso. eapply Hr. reflexivity.
  - exfalso. eapply Hfl. reflexivity.
Qed.

(* the connection goes away before any answer to <resume/> arrives *)
Lemma unanswered_keeps cfg c p f s sn :
  f_sm f = true -> has_id p = true -> conn_lost s = true ->
  step_resume cfg c p f s sn
  = ([o c (RResume (p_sm_id p) (p_inbound p)) sn], Err false false, p).
Proof.
  intros Hf Hi Hc. unfold step_resume, has_id in *. rewrite Hf, Hi. cbn [andb].
  destruct s as [|i s']; [reflexivity|]. destruct i; try discriminate. reflexivity.
Qed.

Lemma refused_state cfg c p f s1 sn :
  f_sm f = true -> has_id p = true ->
  let x := step_resume cfg c p f (SFailed :: s1) sn in
  (p_sm_id (pst x) = [] \/ issued s1 (p_sm_id (pst x)) /\ res x = Ok /\ p_has_queue (pst x) = true) /\
  p_inbound (pst x) = 0 /\
  exists w', reqs (outs x) = RResume (p_sm_id p) (p_inbound p) :: RBind (c_resource cfg) (p_packet_id p + 1) :: w'.
Proof.
  intros Hf Hi. cbn zeta. unfold step_resume, has_id in *. rewrite Hf, Hi. cbn [andb].
  pose proof (bind_fd cfg c (clear_sm p) f s1 [SFailed] eq_refl) as Hfd.
  pose proof (bind_emits' cfg c (clear_sm p) f s1 [SFailed]) as [w' Hw].
  unfold fresh_or_dropped, outs, res, pst in *.
  destruct (step_bind _ _ _ _ _ _) as [[w r] p2]. cbn [fst snd] in *.
  split; [|split].
  - destruct Hfd as [[H _]|(H1 & H2 & H3 & H4 & _)]; [left; exact H|right; repeat split; assumption].
  - destruct Hfd as [[_ [H|H]]|(_ & H2 & _)]; assumption.
  - exists w'. rewrite reqs_app'. cbn [reqs map o o_req app]. f_equal. exact Hw.
Qed.
