(* Proofs about the send-path model (Model/Send.v), for C08. *)
From Coq Require Import List ZArith NArith Bool Arith Lia Permutation.
From XV Require Import Lib.Sx Model.Queue Model.Send.
Import ListNotations.
Local Open Scope nat_scope.

(* ------------------------------------------------------------------ writers *)

Lemma firstn_same_length : forall (A : Type) (n : nat) (p : list A),
  length (firstn n p) = length p -> firstn n p = p.
Proof.
  intros A n p Hlen. apply firstn_all2. rewrite firstn_length in Hlen. lia.
Qed.

Lemma w_whole_accepted : forall r p, w_whole r p = true -> accepted r p = p.
Proof.
  intros r p Hw. unfold w_whole in Hw. apply Nat.eqb_eq in Hw.
  destruct r as [|n|n]; simpl in *; [reflexivity| |]; apply firstn_same_length; exact Hw.
Qed.

Lemma w_whole_ok : forall p, w_whole WOk p = true.
Proof. intros p. unfold w_whole. simpl. apply Nat.eqb_refl. Qed.

Lemma stream_app : forall o a b k,
  stream o k (a ++ b) = stream o k a ++ stream o (k + length a) b.
Proof.
  intros o a. induction a as [|p a IH]; intros b k; simpl.
  - rewrite Nat.add_0_r. reflexivity.
  - rewrite IH. rewrite <- app_assoc. replace (S k + length a) with (k + S (length a)) by lia.
    reflexivity.
Qed.

(* ------------------------------------------------------------------ transport_write *)

Lemma push_if_sock : forall b st d, s_sock (push_if b st d) = s_sock st.
Proof. intros [|] st d; reflexivity. Qed.
Lemma push_if_log : forall b st d, s_log (push_if b st d) = s_log st.
Proof. intros [|] st d; reflexivity. Qed.

Lemma tw_sock : forall cfg so lo st p, c_conn cfg = CUp ->
  s_sock (fst (transport_write cfg so lo st p)) = s_sock st ++ [p].
Proof.
  intros cfg so lo st p Hup.
  unfold transport_write, ws_write, logger_write, sock_write, log_write.
  rewrite Hup. simpl.
  destruct (c_ws cfg); simpl; [destruct (c_log cfg); reflexivity|].
  destruct (c_log cfg); simpl; [|reflexivity].
  repeat (match goal with |- context [if ?c then _ else _] => destruct c end; simpl);
    reflexivity.
Qed.

Lemma tw_queue : forall cfg so lo st p,
  s_queue (fst (transport_write cfg so lo st p)) = s_queue st.
Proof.
  intros cfg so lo st p.
  unfold transport_write, ws_write, logger_write, sock_write, log_write.
  destruct (is_up (c_conn cfg)); [|reflexivity].
  destruct (c_ws cfg); simpl; [destruct (c_log cfg); reflexivity|].
  destruct (c_log cfg); simpl; [|reflexivity].
  repeat (match goal with |- context [if ?c then _ else _] => destruct c end; simpl);
    reflexivity.
Qed.

Lemma tw_log_off : forall cfg so lo st p, c_log cfg = false ->
  s_log (fst (transport_write cfg so lo st p)) = s_log st.
Proof.
  intros cfg so lo st p Hl. unfold transport_write, ws_write, sock_write. rewrite Hl.
  destruct (is_up (c_conn cfg)), (c_ws cfg); reflexivity.
Qed.

(* a transport that was never connected: an error, nothing written anywhere *)
Lemma tw_down : forall cfg so lo st p, is_up (c_conn cfg) = false ->
  transport_write cfg so lo st p = (st, Some ENoRW).
Proof. intros cfg so lo st p H. unfold transport_write. rewrite H. reflexivity. Qed.

Lemma tw_result : forall cfg so lo st p, c_conn cfg = CUp ->
  (snd (transport_write cfg so lo st p) = None <-> write_ok cfg so lo st p = true).
Proof.
  intros cfg so lo st p Hup.
  unfold transport_write, write_ok, ws_write, logger_write, sock_write, log_write.
  rewrite Hup. simpl.
  destruct (c_ws cfg); simpl.
  { destruct (c_log cfg); simpl;
      destruct (w_is_err (so (length (s_sock st)))); simpl; split; auto; discriminate. }
  destruct (c_log cfg); simpl.
  - rewrite app_length. simpl. rewrite Nat.add_1_r.
    destruct (w_is_err (so (length (s_sock st)))); simpl; [split; discriminate|].
    destruct (w_whole (so (length (s_sock st))) p); simpl; [|split; discriminate].
    destruct (w_is_err (lo (S (length (s_log st))))); simpl; [split; discriminate|].
    destruct (w_whole (lo (S (length (s_log st)))) p); simpl; split; auto; discriminate.
  - destruct (w_is_err (so (length (s_sock st)))); simpl; split; auto; discriminate.
Qed.

Lemma write_ok_push_if : forall cfg so lo b st d p,
  write_ok cfg so lo (push_if b st d) p = write_ok cfg so lo st p.
Proof.
  intros. unfold write_ok. rewrite push_if_sock, push_if_log. reflexivity.
Qed.

(* a successful transport write means the socket took all of p *)
Lemma write_ok_whole : forall cfg so lo st p,
  write_ok cfg so lo st p = true -> checks_count cfg = true \/ conforming so ->
  accepted (so (length (s_sock st))) p = p.
Proof.
  intros cfg so lo st p Hok Hc. unfold write_ok in Hok. unfold checks_count in Hc.
  destruct (c_ws cfg) eqn:Hw; simpl in Hc.
  { destruct Hc as [Hc|Hc]; [discriminate|].
    specialize (Hc (length (s_sock st))).
    destruct (so (length (s_sock st))); simpl in *; [reflexivity|discriminate|contradiction]. }
  destruct (c_log cfg) eqn:Hl.
  - apply andb_prop in Hok as [Hok _]. apply andb_prop in Hok as [Hok _].
    apply andb_prop in Hok as [_ Hw']. apply w_whole_accepted. exact Hw'.
  - destruct Hc as [Hc|Hc]; [discriminate|].
    specialize (Hc (length (s_sock st))).
    destruct (so (length (s_sock st))); simpl in *; [reflexivity|discriminate|contradiction].
Qed.

(* the WebSocket transport: the log (if any) gets one write, prefix ++ p ++ separator,
   before the socket and whatever the socket then does; its outcome changes nothing *)
Lemma ws_log_calls : forall cfg so lo st p, c_conn cfg = CUp -> c_ws cfg = true ->
  s_log (fst (transport_write cfg so lo st p)) =
  s_log st ++ (if c_log cfg then [log_prefix ++ p ++ log_sep] else []).
Proof.
  intros cfg so lo st p Hup Hws. unfold transport_write, ws_write, sock_write, log_write.
  rewrite Hup, Hws. simpl. destruct (c_log cfg); simpl; [reflexivity|rewrite app_nil_r; reflexivity].
Qed.

Lemma ws_result : forall cfg so lo st p, c_conn cfg = CUp -> c_ws cfg = true ->
  snd (transport_write cfg so lo st p) =
  if w_is_err (so (length (s_sock st))) then Some ESock else None.
Proof.
  intros cfg so lo st p Hup Hws. unfold transport_write, ws_write, sock_write, log_write.
  rewrite Hup, Hws. simpl. destruct (c_log cfg); reflexivity.
Qed.

(* ------------------------------------------------------------------ one step *)

(* does the op push on the unacknowledged queue *)
Definition pushes (cfg : config) (o : op) : bool :=
  match c_role cfg with
  | RClient => c_sm cfg && match o with OSend _ nz => negb nz | OSendRaw _ nz => negb nz | _ => true end
  | RComponent => false
  end.

Definition wrap (cfg : config) (o : op) (e : option werr) : result :=
  match e with
  | None => RNil
  | Some e' =>
      match c_role cfg, o with
      | RComponent, OSend _ _ => RWrapped e'
      | RComponent, OSendIQ _ _ => RWrapped e'
      | _, _ => RErr e'
      end
  end.

Lemma attempts_reaches : forall cfg o, attempts cfg o = true -> reaches cfg o = true.
Proof.
  intros cfg o. unfold attempts, reaches.
  destruct o as [d nz|s nz|d t]; try destruct t; destruct (c_conn cfg); simpl; auto.
Qed.

Lemma attempts_up : forall cfg o, attempts cfg o = true -> c_conn cfg = CUp.
Proof.
  intros cfg o. unfold attempts.
  destruct o as [d nz|s nz|d t]; try destruct t; destruct (c_conn cfg); simpl; auto; discriminate.
Qed.

Lemma drop_if_sock : forall b st, s_sock (drop_if b st) = s_sock st.
Proof. intros [|] st; reflexivity. Qed.
Lemma drop_if_log : forall b st, s_log (drop_if b st) = s_log st.
Proof. intros [|] st; reflexivity. Qed.

(* the state after the write: a held packet the transport refused leaves the queue *)
Definition after (b : bool) (tw : state * option werr) : state :=
  match snd tw with None => fst tw | Some _ => drop_if b (fst tw) end.

Lemma after_sock : forall b tw, s_sock (after b tw) = s_sock (fst tw).
Proof. intros b [st [e|]]; unfold after; simpl; [apply drop_if_sock|reflexivity]. Qed.
Lemma after_log : forall b tw, s_log (after b tw) = s_log (fst tw).
Proof. intros b [st [e|]]; unfold after; simpl; [apply drop_if_log|reflexivity]. Qed.

Lemma hold_write_after : forall cfg so lo st b d,
  hold_write cfg so lo st b d =
  (after b (transport_write cfg so lo (push_if b st d) d),
   snd (transport_write cfg so lo (push_if b st d) d)).
Proof.
  intros. unfold hold_write, after.
  destruct (transport_write cfg so lo (push_if b st d) d) as [st2 [e|]]; reflexivity.
Qed.

(* an op that gets to transport.Write: optional push, that one call, and the
   entry dropped again when the call failed *)
Lemma step_reach : forall cfg so lo st o, reaches cfg o = true ->
  step cfg so lo st o =
    (after (pushes cfg o) (transport_write cfg so lo (push_if (pushes cfg o) st (op_data o)) (op_data o)),
     wrap cfg o (snd (transport_write cfg so lo (push_if (pushes cfg o) st (op_data o)) (op_data o)))).
Proof.
  intros cfg so lo st o Ha. unfold pushes, wrap.
  assert (Hc : forall (X : Type) (a b : X), match c_conn cfg with CNone => a | _ => b end = b).
  { intros X a b. unfold reaches in Ha.
    destruct o as [d nz|s nz|d t]; try destruct t; destruct (c_conn cfg); auto; discriminate. }
  destruct o as [d nz|s nz|d t]; simpl in *.
  - unfold send. rewrite Hc. destruct (c_role cfg); rewrite hold_write_after; simpl.
    + destruct (snd (transport_write cfg so lo (push_if (c_sm cfg && negb nz) st d) d)); reflexivity.
    + destruct (snd (transport_write cfg so lo st d)); reflexivity.
  - unfold send_raw. rewrite Hc. destruct (c_role cfg); rewrite hold_write_after; simpl.
    + destruct (snd (transport_write cfg so lo (push_if (c_sm cfg && negb nz) st s) s)); reflexivity.
    + destruct (snd (transport_write cfg so lo st s)); reflexivity.
  - destruct t; try discriminate; unfold send; rewrite Hc; destruct (c_role cfg);
      rewrite hold_write_after; simpl.
    + destruct (snd (transport_write cfg so lo (push_if (c_sm cfg && true) st d) d)); reflexivity.
    + destruct (snd (transport_write cfg so lo st d)); reflexivity.
    + destruct (snd (transport_write cfg so lo (push_if (c_sm cfg && true) st d) d)); reflexivity.
    + destruct (snd (transport_write cfg so lo st d)); reflexivity.
Qed.

Lemma step_attempt : forall cfg so lo st o, attempts cfg o = true ->
  step cfg so lo st o =
    (after (pushes cfg o) (transport_write cfg so lo (push_if (pushes cfg o) st (op_data o)) (op_data o)),
     wrap cfg o (snd (transport_write cfg so lo (push_if (pushes cfg o) st (op_data o)) (op_data o)))).
Proof. intros. apply step_reach, attempts_reaches. assumption. Qed.

Lemma step_noreach : forall cfg so lo st o, reaches cfg o = false ->
  fst (step cfg so lo st o) = st /\
  (snd (step cfg so lo st o) = RReject \/ snd (step cfg so lo st o) = RNotConn).
Proof.
  intros cfg so lo st o Ha. unfold reaches in Ha. destruct o as [d nz|s nz|d t]; simpl in *.
  - unfold send. destruct (c_conn cfg); try discriminate. simpl. auto.
  - unfold send_raw. destruct (c_conn cfg); try discriminate. simpl. auto.
  - destruct t; simpl; auto; unfold send; destruct (c_conn cfg); try discriminate; simpl; auto.
Qed.

Lemma wrap_nil : forall cfg o e, wrap cfg o e = RNil <-> e = None.
Proof.
  intros cfg o e. unfold wrap. destruct e as [e'|]; [|tauto].
  split; [|discriminate]. destruct (c_role cfg), o; discriminate.
Qed.

(* an op that does not get to a socket write: no socket call, no log call, and
   an error result *)
Lemma step_noattempt : forall cfg so lo st o, attempts cfg o = false ->
  s_sock (fst (step cfg so lo st o)) = s_sock st /\
  s_log (fst (step cfg so lo st o)) = s_log st /\
  snd (step cfg so lo st o) <> RNil.
Proof.
  intros cfg so lo st o Ha. destruct (reaches cfg o) eqn:Hr.
  - assert (Hd : is_up (c_conn cfg) = false).
    { unfold attempts, reaches in *.
      destruct o as [d nz|s nz|d t]; try destruct t; auto; discriminate. }
    rewrite (step_reach _ _ _ _ _ Hr). simpl. rewrite after_sock, after_log, (tw_down _ _ _ _ _ Hd). simpl.
    rewrite push_if_sock, push_if_log. split; [reflexivity|]. split; [reflexivity|].
    unfold wrap. destruct (c_role cfg), o; discriminate.
  - destruct (step_noreach cfg so lo st o Hr) as [H1 H2]. rewrite H1.
    split; [reflexivity|]. split; [reflexivity|]. destruct H2 as [H2|H2]; rewrite H2; discriminate.
Qed.

Lemma step_nil_attempts : forall cfg so lo st o,
  snd (step cfg so lo st o) = RNil -> attempts cfg o = true.
Proof.
  intros cfg so lo st o Hr. destruct (attempts cfg o) eqn:Ha; [reflexivity|].
  destruct (step_noattempt cfg so lo st o Ha) as [_ [_ H]]. contradiction.
Qed.

Lemma step_sock : forall cfg so lo st o,
  s_sock (fst (step cfg so lo st o)) =
  s_sock st ++ (if attempts cfg o then [op_data o] else []).
Proof.
  intros cfg so lo st o. destruct (attempts cfg o) eqn:Ha.
  - rewrite (step_attempt _ _ _ _ _ Ha). simpl.
    rewrite after_sock, (tw_sock _ _ _ _ _ (attempts_up _ _ Ha)), push_if_sock. reflexivity.
  - destruct (step_noattempt cfg so lo st o Ha) as [H _]. rewrite H, app_nil_r. reflexivity.
Qed.

(* every send that gets to a connected transport performs exactly one socket
   write, with the whole data as its argument; a rejected SendIQ, a send without
   a transport or on a transport that was never connected performs none (socket
   and log untouched) and returns an error; only an op that wrote can return nil *)
Lemma one_write : forall cfg so lo st o,
  (attempts cfg o = true ->
     s_sock (fst (step cfg so lo st o)) = s_sock st ++ [op_data o]) /\
  (attempts cfg o = false ->
     s_sock (fst (step cfg so lo st o)) = s_sock st /\
     s_log (fst (step cfg so lo st o)) = s_log st /\
     snd (step cfg so lo st o) <> RNil) /\
  (snd (step cfg so lo st o) = RNil -> attempts cfg o = true).
Proof.
  intros cfg so lo st o. split; [|split].
  - intros Ha. rewrite step_sock, Ha. reflexivity.
  - apply step_noattempt.
  - apply step_nil_attempts.
Qed.

(* a SendIQ whose type is not get/set, or whose id is still awaiting its response,
   changes nothing and writes nothing *)
Lemma rejected_iq_no_write : forall cfg so lo st d t, iq_refused t = true ->
  step cfg so lo st (OSendIQ d t) = (st, RReject).
Proof. intros cfg so lo st d t H. simpl. rewrite H. reflexivity. Qed.

(* the WebSocket transport reports exactly the socket's error: whatever the log
   file does has no influence *)
Lemma ws_failure_reported : forall cfg so lo st o, attempts cfg o = true -> c_ws cfg = true ->
  (snd (step cfg so lo st o) = RNil <-> w_is_err (so (length (s_sock st))) = false).
Proof.
  intros cfg so lo st o Ha Hws. rewrite (step_attempt _ _ _ _ _ Ha). simpl.
  rewrite wrap_nil, (ws_result _ _ _ _ _ (attempts_up _ _ Ha) Hws), push_if_sock.
  destruct (w_is_err (so (length (s_sock st)))); split; auto; discriminate.
Qed.

(* the result is nil exactly when the transport write succeeded *)
Lemma failure_reported : forall cfg so lo st o, attempts cfg o = true ->
  (snd (step cfg so lo st o) = RNil <-> write_ok cfg so lo st (op_data o) = true).
Proof.
  intros cfg so lo st o Ha. rewrite (step_attempt _ _ _ _ _ Ha). simpl.
  rewrite wrap_nil, (tw_result _ _ _ _ _ (attempts_up _ _ Ha)), write_ok_push_if. tauto.
Qed.

(* a socket write that returns an error makes the call return an error, in
   every configuration *)
Lemma sock_error_reported : forall cfg so lo st o, attempts cfg o = true ->
  w_is_err (so (length (s_sock st))) = true -> snd (step cfg so lo st o) <> RNil.
Proof.
  intros cfg so lo st o Ha He Hr. apply (failure_reported _ _ _ _ _ Ha) in Hr.
  unfold write_ok in Hr. rewrite He in Hr. destruct (c_ws cfg), (c_log cfg); discriminate.
Qed.

(* with the logger: a short socket write, a failing or a short log write make
   the call return an error *)
Lemma logger_faults_reported : forall cfg so lo st o, attempts cfg o = true ->
  c_ws cfg = false -> c_log cfg = true ->
  w_whole (so (length (s_sock st))) (op_data o) = false \/
  w_is_err (lo (S (length (s_log st)))) = true \/
  w_whole (lo (S (length (s_log st)))) (op_data o) = false ->
  snd (step cfg so lo st o) <> RNil.
Proof.
  intros cfg so lo st o Ha Hws Hl Hf Hr. apply (failure_reported _ _ _ _ _ Ha) in Hr.
  unfold write_ok in Hr. rewrite Hws, Hl in Hr.
  apply andb_prop in Hr as [Hr H4]. apply andb_prop in Hr as [Hr H3].
  apply andb_prop in Hr as [H1 H2].
  destruct Hf as [Hf|[Hf|Hf]].
  - rewrite Hf in H2. discriminate.
  - rewrite Hf in H3. discriminate.
  - rewrite Hf in H4. discriminate.
Qed.

(* a write the socket (and, with the logger, the log) takes whole returns nil *)
Lemma success_is_nil : forall cfg so lo st o, attempts cfg o = true ->
  so (length (s_sock st)) = WOk ->
  (c_ws cfg = true \/ c_log cfg = false \/ lo (S (length (s_log st))) = WOk) ->
  snd (step cfg so lo st o) = RNil.
Proof.
  intros cfg so lo st o Ha Hs Hl. apply (failure_reported _ _ _ _ _ Ha).
  unfold write_ok. rewrite Hs. simpl. destruct (c_ws cfg); [reflexivity|].
  destruct (c_log cfg); [|reflexivity].
  destruct Hl as [Hl|[Hl|Hl]]; try discriminate. rewrite Hl, !w_whole_ok. reflexivity.
Qed.

(* a failed send that got to the transport is an error value, never something else *)
Lemma failure_is_error : forall cfg so lo st o, reaches cfg o = true ->
  snd (step cfg so lo st o) <> RNil ->
  exists e, snd (step cfg so lo st o) = RErr e \/ snd (step cfg so lo st o) = RWrapped e.
Proof.
  intros cfg so lo st o Ha. rewrite (step_reach _ _ _ _ _ Ha). simpl.
  destruct (snd (transport_write cfg so lo (push_if (pushes cfg o) st (op_data o)) (op_data o)))
    as [e|]; simpl; intros Hn; [|congruence].
  exists e. destruct (c_role cfg), o; auto.
Qed.

(* a nil result means the socket took the whole data (with a conforming socket,
   or with the logger, which checks the count itself) *)
Lemma success_whole : forall cfg so lo st o,
  snd (step cfg so lo st o) = RNil -> checks_count cfg = true \/ conforming so ->
  accepted (so (length (s_sock st))) (op_data o) = op_data o.
Proof.
  intros cfg so lo st o Hr Hc. pose proof (step_nil_attempts _ _ _ _ _ Hr) as Ha.
  apply (failure_reported _ _ _ _ _ Ha) in Hr. eapply write_ok_whole; eauto.
Qed.

Definition is_nil (r : result) : bool := match r with RNil => true | _ => false end.

Lemma q_drop_push_items : forall q d, q_items (q_drop_last (q_push q d)) = q_items q.
Proof.
  intros [items lastid] d. unfold q_drop_last, q_push, q_items. simpl.
  rewrite rev_app_distr. simpl. rewrite Z.eqb_refl. simpl. apply removelast_last.
Qed.

(* only a client with active stream management touches the queue, only for
   packets that are not SM requests/answers, and only a packet whose write
   succeeded stays on it *)
Lemma step_queue : forall cfg so lo st o,
  s_queue (fst (step cfg so lo st o)) =
  if reaches cfg o && pushes cfg o then
    if is_nil (snd (step cfg so lo st o)) then q_push (s_queue st) (op_data o)
    else q_drop_last (q_push (s_queue st) (op_data o))
  else s_queue st.
Proof.
  intros cfg so lo st o. destruct (reaches cfg o) eqn:Ha; simpl.
  - rewrite (step_reach _ _ _ _ _ Ha). unfold after.
    pose proof (tw_queue cfg so lo (push_if (pushes cfg o) st (op_data o)) (op_data o)) as Hq.
    remember (pushes cfg o) as b eqn:Hb. clear Hb.
    destruct (transport_write cfg so lo (push_if b st (op_data o)) (op_data o))
      as [st2 [e|]]; cbn [fst snd] in *.
    + replace (is_nil (wrap cfg o (Some e))) with false
        by (unfold wrap; destruct (c_role cfg), o; reflexivity).
      destruct b; simpl; rewrite Hq; reflexivity.
    + unfold wrap. simpl. destruct b; simpl; rewrite Hq; reflexivity.
  - destruct (step_noreach cfg so lo st o Ha) as [H _]. rewrite H. reflexivity.
Qed.

Lemma step_queue_items : forall cfg so lo st o,
  q_items (s_queue (fst (step cfg so lo st o))) =
  if reaches cfg o && pushes cfg o && is_nil (snd (step cfg so lo st o))
  then q_items (q_push (s_queue st) (op_data o)) else q_items (s_queue st).
Proof.
  intros. rewrite step_queue.
  destruct (reaches cfg o && pushes cfg o); simpl; [|reflexivity].
  destruct (is_nil (snd (step cfg so lo st o))); [reflexivity|apply q_drop_push_items].
Qed.

(* ------------------------------------------------------------------ sequences *)

Lemma run_cons : forall cfg so lo st o rest,
  run cfg so lo st (o :: rest) =
  (snd (step cfg so lo st o) :: fst (run cfg so lo (fst (step cfg so lo st o)) rest),
   snd (run cfg so lo (fst (step cfg so lo st o)) rest)).
Proof.
  intros. simpl. destruct (step cfg so lo st o) as [st1 r]. simpl.
  destruct (run cfg so lo st1 rest) as [rs st2]. reflexivity.
Qed.

Lemma writes_of_cons : forall cfg o rest,
  writes_of cfg (o :: rest) =
  (if attempts cfg o then [op_data o] else []) ++ writes_of cfg rest.
Proof. intros. unfold writes_of. simpl. destruct (attempts cfg o); reflexivity. Qed.

(* the list of transport Write calls is exactly the list of the data strings, in
   call order: each whole, each once *)
Lemma one_write_run : forall cfg so lo ops st,
  s_sock (snd (run cfg so lo st ops)) = s_sock st ++ writes_of cfg ops.
Proof.
  intros cfg so lo ops. induction ops as [|o rest IH]; intros st.
  - simpl. rewrite app_nil_r. reflexivity.
  - rewrite run_cons. simpl. rewrite IH, step_sock, writes_of_cons, app_assoc. reflexivity.
Qed.

Lemma run_length : forall cfg so lo ops st, length (fst (run cfg so lo st ops)) = length ops.
Proof.
  intros cfg so lo ops. induction ops as [|o rest IH]; intros st; [reflexivity|].
  rewrite run_cons. simpl. rewrite IH. reflexivity.
Qed.

(* if every call returned nil, the byte stream the socket took is the
   concatenation of the data strings *)
Lemma wire_stream_from : forall cfg so lo ops st,
  checks_count cfg = true \/ conforming so ->
  Forall (fun r => r = RNil) (fst (run cfg so lo st ops)) ->
  stream so (length (s_sock st)) (writes_of cfg ops) = concat (writes_of cfg ops).
Proof.
  intros cfg so lo ops. induction ops as [|o rest IH]; intros st Hc Hall; [reflexivity|].
  rewrite run_cons in Hall. simpl in Hall. inversion Hall as [|r rs Hr Hrs]; subst.
  pose proof (step_nil_attempts _ _ _ _ _ Hr) as Ha.
  rewrite writes_of_cons, Ha. simpl.
  rewrite (success_whole _ _ _ _ _ Hr Hc). f_equal.
  specialize (IH _ Hc Hrs). rewrite step_sock, Ha, app_length in IH. simpl in IH.
  rewrite Nat.add_1_r in IH. exact IH.
Qed.

Lemma wire_stream : forall cfg so lo ops,
  checks_count cfg = true \/ conforming so ->
  Forall (fun r => r = RNil) (fst (run cfg so lo st0 ops)) ->
  stream so 0 (s_sock (snd (run cfg so lo st0 ops))) = concat (writes_of cfg ops).
Proof.
  intros cfg so lo ops Hc Hall. rewrite one_write_run. simpl.
  exact (wire_stream_from cfg so lo ops st0 Hc Hall).
Qed.

Lemma skipn_S_app_cons : forall (A : Type) (a : list A) x b, skipn (S (length a)) (a ++ x :: b) = b.
Proof. intros A a. induction a as [|y a IH]; intros x b; [reflexivity|]. simpl. apply IH. Qed.

Lemma firstn_length_app : forall (A : Type) (a l : list A), firstn (length a) (a ++ l) = a.
Proof.
  intros A a. induction a as [|y a IH]; intros l; [reflexivity|]. simpl. rewrite IH. reflexivity.
Qed.

Lemma run_app : forall cfg so lo a b st,
  run cfg so lo st (a ++ b) =
  (fst (run cfg so lo st a) ++ fst (run cfg so lo (snd (run cfg so lo st a)) b),
   snd (run cfg so lo (snd (run cfg so lo st a)) b)).
Proof.
  intros cfg so lo a. induction a as [|o a IH]; intros b st.
  - simpl. destruct (run cfg so lo st b); reflexivity.
  - rewrite <- app_comm_cons, !run_cons. simpl. rewrite IH. reflexivity.
Qed.

Lemma writes_of_app : forall cfg a b, writes_of cfg (a ++ b) = writes_of cfg a ++ writes_of cfg b.
Proof. intros. unfold writes_of. rewrite filter_app, map_app. reflexivity. Qed.

(* In ANY history (rejected requests, missing connections, failed writes around
   it): a send that returned nil has its whole data in the socket's byte stream,
   at the place of its own write, between what the earlier and the later writes
   left there. *)
Lemma each_success_whole : forall cfg so lo ops j o,
  checks_count cfg = true \/ conforming so ->
  nth_error ops j = Some o ->
  nth_error (fst (run cfg so lo st0 ops)) j = Some RNil ->
  let calls := s_sock (snd (run cfg so lo st0 ops)) in
  let k := length (writes_of cfg (firstn j ops)) in
  nth_error calls k = Some (op_data o) /\
  stream so 0 calls =
    stream so 0 (firstn k calls) ++ op_data o ++ stream so (S k) (skipn (S k) calls).
Proof.
  intros cfg so lo ops j o Hc Ho Hr. cbv zeta.
  destruct (nth_error_split ops j Ho) as [a [b [Eops Ea]]]. subst ops.
  assert (Efn : firstn j (a ++ o :: b) = a).
  { rewrite <- Ea, firstn_app, firstn_all, Nat.sub_diag. simpl. apply app_nil_r. }
  rewrite Efn. rewrite run_app in Hr. cbn [fst] in Hr.
  rewrite nth_error_app2 in Hr by (rewrite run_length; lia).
  rewrite run_length, Ea, Nat.sub_diag, run_cons in Hr. cbn [fst nth_error] in Hr.
  inversion Hr as [Hnil].
  pose proof (step_nil_attempts _ _ _ _ _ Hnil) as Hatt.
  pose proof (success_whole _ _ _ _ _ Hnil Hc) as Hwhole.
  rewrite one_write_run in Hwhole. simpl in Hwhole.
  rewrite one_write_run. cbn [s_sock st0 app]. rewrite writes_of_app, writes_of_cons, Hatt.
  cbn [app]. set (wa := writes_of cfg a) in *. set (wb := writes_of cfg b).
  rewrite skipn_S_app_cons, firstn_length_app.
  split.
  - rewrite nth_error_app2 by lia. rewrite Nat.sub_diag. reflexivity.
  - rewrite stream_app. cbn [stream]. rewrite Nat.add_0_l, Hwhole. reflexivity.
Qed.

(* ------------------------------------------------------------------ logger transparency *)

Lemma writes_of_log_irrelevant : forall r sm l1 l2 c ws ops,
  writes_of (mkC r sm l1 c ws) ops = writes_of (mkC r sm l2 c ws) ops.
Proof. reflexivity. Qed.

(* socket call list and socket byte stream do not depend on the logger, whatever
   the log file does *)
Lemma logger_transparent : forall r sm c ws so lo lo' ops,
  s_sock (snd (run (mkC r sm true c ws) so lo st0 ops)) =
  s_sock (snd (run (mkC r sm false c ws) so lo' st0 ops)) /\
  stream so 0 (s_sock (snd (run (mkC r sm true c ws) so lo st0 ops))) =
  stream so 0 (s_sock (snd (run (mkC r sm false c ws) so lo' st0 ops))).
Proof.
  intros. rewrite !one_write_run. split; reflexivity.
Qed.

Lemma logger_write_snd_healthy : forall so lo st p,
  healthy lo -> conforming so ->
  snd (logger_write so lo st p) =
  if w_is_err (so (length (s_sock st))) then Some ESock else None.
Proof.
  intros so lo st p Hh Hc. unfold logger_write, sock_write, log_write. simpl.
  specialize (Hc (length (s_sock st))).
  destruct (so (length (s_sock st))) as [|n|n] eqn:E; simpl; [|reflexivity|contradiction].
  rewrite w_whole_ok. simpl. rewrite Hh. simpl. rewrite w_whole_ok. reflexivity.
Qed.

(* the two states differ in the log only *)
Definition same_but_log (a b : state) : Prop :=
  s_sock a = s_sock b /\ s_queue a = s_queue b.

Lemma step_log_irrelevant : forall r sm c ws so lo lo' a b o,
  healthy lo -> conforming so -> same_but_log a b ->
  snd (step (mkC r sm true c ws) so lo a o) = snd (step (mkC r sm false c ws) so lo' b o) /\
  same_but_log (fst (step (mkC r sm true c ws) so lo a o)) (fst (step (mkC r sm false c ws) so lo' b o)).
Proof.
  intros r sm c ws so lo lo' a b o Hh Hc [Hs Hq].
  split.
  - destruct (reaches (mkC r sm true c ws) o) eqn:Ha.
    + assert (Hb : reaches (mkC r sm false c ws) o = true) by exact Ha.
      rewrite (step_reach _ _ _ _ _ Ha), (step_reach _ _ _ _ _ Hb). simpl.
      unfold transport_write. simpl. destruct (is_up c); [|reflexivity].
      destruct ws; [unfold ws_write, sock_write, log_write; simpl; rewrite !push_if_sock, Hs; reflexivity|].
      rewrite (logger_write_snd_healthy _ _ _ _ Hh Hc).
      rewrite !push_if_sock, Hs. reflexivity.
    + assert (Hb : reaches (mkC r sm false c ws) o = false) by exact Ha.
      destruct (step_noreach _ so lo a o Ha) as [_ H1].
      destruct (step_noreach _ so lo' b o Hb) as [_ H2].
      unfold reaches in Ha. simpl in Ha.
      destruct o as [d nz|s nz|d t]; try destruct t; destruct c; try discriminate; reflexivity.
  - assert (Hres : snd (step (mkC r sm true c ws) so lo a o) = snd (step (mkC r sm false c ws) so lo' b o)).
    { destruct (reaches (mkC r sm true c ws) o) eqn:Ha.
      + assert (Hb : reaches (mkC r sm false c ws) o = true) by exact Ha.
        rewrite (step_reach _ _ _ _ _ Ha), (step_reach _ _ _ _ _ Hb). simpl.
        unfold transport_write. simpl. destruct (is_up c); [|reflexivity].
        destruct ws; [unfold ws_write, sock_write, log_write; simpl; rewrite !push_if_sock, Hs; reflexivity|].
        rewrite (logger_write_snd_healthy _ _ _ _ Hh Hc).
        rewrite !push_if_sock, Hs. reflexivity.
      + assert (Hb : reaches (mkC r sm false c ws) o = false) by exact Ha.
        unfold reaches in Ha. simpl in Ha.
        destruct o as [d nz|s nz|d t]; try destruct t; destruct c; try discriminate; reflexivity. }
    unfold same_but_log. rewrite !step_sock, !step_queue, Hs, Hq, Hres. split; reflexivity.
Qed.

(* with a working log file and a conforming socket every call returns the same
   with and without the logger, and the queue is the same *)
Lemma logger_results_from : forall r sm c ws so lo lo' ops a b,
  healthy lo -> conforming so -> same_but_log a b ->
  fst (run (mkC r sm true c ws) so lo a ops) = fst (run (mkC r sm false c ws) so lo' b ops) /\
  s_queue (snd (run (mkC r sm true c ws) so lo a ops)) =
  s_queue (snd (run (mkC r sm false c ws) so lo' b ops)).
Proof.
  intros r sm c ws so lo lo' ops. induction ops as [|o rest IH]; intros a b Hh Hc Hab.
  - simpl. split; [reflexivity|apply Hab].
  - rewrite !run_cons. simpl.
    destruct (step_log_irrelevant r sm c ws so lo lo' a b o Hh Hc Hab) as [Hr Hst].
    destruct (IH _ _ Hh Hc Hst) as [IH1 IH2]. rewrite Hr, IH1. split; [reflexivity|exact IH2].
Qed.

Lemma logger_results : forall r sm c ws so lo lo' ops,
  healthy lo -> conforming so ->
  fst (run (mkC r sm true c ws) so lo st0 ops) = fst (run (mkC r sm false c ws) so lo' st0 ops).
Proof.
  intros r sm c ws so lo lo' ops Hh Hc.
  apply (logger_results_from r sm c ws so lo lo' ops st0 st0 Hh Hc). split; reflexivity.
Qed.

(* the log file of a fault-free run: SEND:\n p p' \n\n per write, where the log
   call list is prefix, data, separator *)
Lemma logger_log_calls : forall so lo st p,
  snd (logger_write so lo st p) = None ->
  s_log (fst (logger_write so lo st p)) = s_log st ++ [log_prefix; p; log_sep].
Proof.
  intros so lo st p. unfold logger_write, sock_write, log_write. simpl.
  repeat (match goal with |- context [if ?c then _ else _] => destruct c end; simpl);
    try discriminate.
  intros _. rewrite <- !app_assoc. reflexivity.
Qed.

(* ------------------------------------------------------------------ concurrency *)

Lemma all_done_concat : forall (A : Type) (ls : list (list A)), all_done ls -> concat ls = [].
Proof.
  intros A ls H. induction H as [|l ls Hl _ IH]; [reflexivity|]. simpl. rewrite Hl, IH. reflexivity.
Qed.

Lemma all_doneb_spec : forall (A : Type) (ls : list (list A)), all_doneb ls = true <-> all_done ls.
Proof.
  intros A ls. unfold all_doneb, all_done. rewrite forallb_forall, Forall_forall.
  split; intros H l Hin; specialize (H l Hin); destruct l; auto; discriminate.
Qed.

(* every complete trace of the LTS puts a merge of the senders' lists on the wire *)
Lemma creach_interleaving : forall (A : Type) (s1 s2 : cstate A),
  creach s1 s2 -> all_done (fst s2) ->
  exists m, interleavings (fst s1) m /\ snd s2 = snd s1 ++ m.
Proof.
  intros A s1 s2 H. induction H as [s|s1 s2 s3 Hstep _ IH]; intros Hd.
  - exists []. split; [apply il_done; exact Hd|rewrite app_nil_r; reflexivity].
  - destruct (IH Hd) as [m [Hm Hw]]. inversion Hstep as [pre x rest post w E1 E2]; subst.
    simpl in *. exists (x :: m). split; [apply il_pick; exact Hm|].
    rewrite Hw, <- app_assoc. reflexivity.
Qed.

(* ... and every merge is the wire of some trace *)
Lemma interleaving_creach : forall (A : Type) (ls : list (list A)) (m : list A),
  interleavings ls m -> forall w0, exists r, creach (ls, w0) (r, w0 ++ m) /\ all_done r.
Proof.
  intros A ls m H. induction H as [ls Hd|pre x rest post w _ IH]; intros w0.
  - exists ls. rewrite app_nil_r. split; [apply creach_refl|exact Hd].
  - destruct (IH (w0 ++ [x])) as [r [Hr Hd]]. exists r. split; [|exact Hd].
    eapply creach_step; [apply cstep_write|]. rewrite <- app_assoc in Hr. exact Hr.
Qed.

Lemma interleavings_perm : forall (A : Type) (ls : list (list A)) (w : list A),
  interleavings ls w -> Permutation w (concat ls).
Proof.
  intros A ls w H. induction H as [ls Hd|pre x rest post w _ IH].
  - rewrite (all_done_concat _ _ Hd). apply perm_nil.
  - rewrite concat_app in *. simpl in *. apply Permutation_cons_app. exact IH.
Qed.

(* nothing lost, nothing duplicated *)
Lemma interleavings_count : forall (A : Type) (dec : forall x y : A, {x = y} + {x <> y})
  (ls : list (list A)) (w : list A),
  interleavings ls w -> forall s, count_occ dec w s = count_occ dec (concat ls) s.
Proof.
  intros A dec ls w H. apply Permutation_count_occ. apply interleavings_perm. exact H.
Qed.

Lemma interleavings_length : forall (A : Type) (ls : list (list A)) (w : list A),
  interleavings ls w -> length w = length (concat ls).
Proof. intros A ls w H. apply Permutation_length, interleavings_perm, H. Qed.

(* --- each sender's own order is kept: projection on the owner --- *)

Definition owned {A : Type} (owner : A -> nat) (j : nat) (l : list A) : Prop :=
  Forall (fun x => owner x = j) l.
Definition proj {A : Type} (owner : A -> nat) (j : nat) (w : list A) : list A :=
  filter (fun x => Nat.eqb (owner x) j) w.

Lemma proj_owned : forall (A : Type) (owner : A -> nat) j l, owned owner j l -> proj owner j l = l.
Proof.
  intros A owner j l H. induction H as [|x l Hx _ IH]; [reflexivity|].
  unfold proj in *. simpl. rewrite Hx, Nat.eqb_refl, IH. reflexivity.
Qed.

Lemma proj_other : forall (A : Type) (owner : A -> nat) j j' l,
  owned owner j l -> j <> j' -> proj owner j' l = [].
Proof.
  intros A owner j j' l H Hne. induction H as [|x l Hx _ IH]; [reflexivity|].
  unfold proj in *. simpl. rewrite Hx. destruct (Nat.eqb_spec j j'); [contradiction|exact IH].
Qed.

Lemma proj_concat_absent : forall (A : Type) (owner : A -> nat) ids ls j,
  Forall2 (owned owner) ids ls -> ~ In j ids -> proj owner j (concat ls) = [].
Proof.
  intros A owner ids ls j H. induction H as [|i l ids ls Hil _ IH]; intros Hn; [reflexivity|].
  simpl. unfold proj in *. rewrite filter_app.
  fold (proj owner j l). rewrite (proj_other _ owner i j l Hil).
  - simpl. apply IH. intros Hin. apply Hn. right. exact Hin.
  - intros E. apply Hn. left. exact E.
Qed.

Lemma interleavings_proj_concat : forall (A : Type) (owner : A -> nat) ls w,
  interleavings ls w -> forall ids, NoDup ids -> Forall2 (owned owner) ids ls ->
  forall j, proj owner j w = proj owner j (concat ls).
Proof.
  intros A owner ls w H. induction H as [ls Hd|pre x rest post w _ IH]; intros ids Hnd Hown j.
  - rewrite (all_done_concat _ _ Hd). reflexivity.
  - apply Forall2_app_inv_r in Hown as [ids1 [ids2' [H1 [H2 Eids]]]].
    inversion H2 as [|i l ids2 post' Hi Hpost]; subst.
    inversion Hi as [|x' rest' Hx Hrest]; subst.
    assert (Hown' : Forall2 (owned owner) (ids1 ++ owner x :: ids2) (pre ++ rest :: post)).
    { apply Forall2_app; [exact H1|]. constructor; [exact Hrest|exact Hpost]. }
    specialize (IH _ Hnd Hown' j).
    rewrite concat_app in *. simpl in *. unfold proj in *. rewrite !filter_app in *.
    simpl. destruct (Nat.eqb_spec (owner x) j) as [E|E]; rewrite ?filter_app; [|exact IH].
    rewrite IH. subst j.
    assert (Hpre : filter (fun y => Nat.eqb (owner y) (owner x)) (concat pre) = []).
    { apply (proj_concat_absent A owner ids1 pre (owner x) H1).
      apply NoDup_remove_2 in Hnd. intros Hin. apply Hnd. apply in_or_app. left. exact Hin. }
    rewrite Hpre. reflexivity.
Qed.

Lemma Forall2_mono : forall (A B : Type) (R1 R2 : A -> B -> Prop),
  (forall a b, R1 a b -> R2 a b) -> forall l1 l2, Forall2 R1 l1 l2 -> Forall2 R2 l1 l2.
Proof.
  intros A B R1 R2 Himp l1 l2 H. induction H; constructor; auto.
Qed.

Lemma proj_app : forall (A : Type) (owner : A -> nat) j (a b : list A),
  proj owner j (a ++ b) = proj owner j a ++ proj owner j b.
Proof. intros. unfold proj. apply filter_app. Qed.

Lemma proj_concat_own_gen : forall (A : Type) (owner : A -> nat) ids ls,
  Forall2 (owned owner) ids ls -> NoDup ids ->
  forall extra, (forall j, In j ids -> proj owner j extra = []) ->
  Forall2 (fun j l => proj owner j (extra ++ concat ls) = l) ids ls.
Proof.
  intros A owner ids ls H. induction H as [|i l ids ls Hil Hrest IH]; intros Hnd extra Hex;
    [constructor|].
  inversion Hnd as [|i' ids' Hni Hnd']; subst. constructor.
  - simpl. rewrite !proj_app.
    rewrite (Hex i (or_introl eq_refl)), (proj_owned _ _ _ _ Hil),
      (proj_concat_absent _ owner ids ls i Hrest Hni), app_nil_r.
    reflexivity.
  - assert (Hex' : forall j, In j ids -> proj owner j (extra ++ l) = []).
    { intros j Hin. rewrite proj_app, (Hex j (or_intror Hin)). simpl.
      apply (proj_other _ owner i j l Hil). intros E. subst. contradiction. }
    specialize (IH Hnd' (extra ++ l) Hex').
    eapply Forall2_mono; [|exact IH]. intros j m Hjm. simpl in *.
    rewrite <- app_assoc in Hjm. exact Hjm.
Qed.

Lemma proj_concat_own : forall (A : Type) (owner : A -> nat) ids ls,
  Forall2 (owned owner) ids ls -> NoDup ids ->
  Forall2 (fun j l => proj owner j (concat ls) = l) ids ls.
Proof.
  intros A owner ids ls H Hnd.
  apply (proj_concat_own_gen A owner ids ls H Hnd []). reflexivity.
Qed.

(* each sender's strings appear on the wire in the sender's own order *)
Lemma interleavings_proj : forall (A : Type) (owner : A -> nat) ids ls w,
  interleavings ls w -> NoDup ids -> Forall2 (owned owner) ids ls ->
  Forall2 (fun j l => proj owner j w = l) ids ls.
Proof.
  intros A owner ids ls w Hi Hnd Hown.
  eapply Forall2_mono; [|exact (proj_concat_own A owner ids ls Hown Hnd)].
  intros j l Hjl. simpl in *.
  rewrite (interleavings_proj_concat A owner ls w Hi ids Hnd Hown j). exact Hjl.
Qed.

(* --- senders' strings tagged with the sender's index --- *)

Definition tag_with {A : Type} (ids : list nat) (ls : list (list A)) : list (list (nat * A)) :=
  map (fun il => map (pair (fst il)) (snd il)) (combine ids ls).
Definition tag_senders {A : Type} (ls : list (list A)) : list (list (nat * A)) :=
  tag_with (seq 0 (length ls)) ls.

Lemma tag_with_owned : forall (A : Type) (ids : list nat) (ls : list (list A)),
  length ids = length ls ->
  Forall2 (owned (@fst nat A)) ids (tag_with ids ls).
Proof.
  intros A ids. induction ids as [|i ids IH]; intros [|l ls] Hlen; try discriminate; [constructor|].
  unfold tag_with. simpl. constructor.
  - unfold owned. apply Forall_forall. intros x Hin. apply in_map_iff in Hin as [y [E _]].
    subst. reflexivity.
  - apply IH. simpl in Hlen. lia.
Qed.

Lemma tag_with_untag : forall (A : Type) (ids : list nat) (ls : list (list A)),
  length ids = length ls -> map (map snd) (tag_with ids ls) = ls.
Proof.
  intros A ids. induction ids as [|i ids IH]; intros [|l ls] Hlen; try discriminate; [reflexivity|].
  unfold tag_with in *. simpl. rewrite map_map. simpl. rewrite map_id. f_equal.
  apply IH. simpl in Hlen. lia.
Qed.

Lemma per_sender_order : forall (A : Type) (ls : list (list A)) (w : list (nat * A)),
  interleavings (tag_senders ls) w ->
  Forall2 (fun j l => map snd (proj fst j w) = l) (seq 0 (length ls)) ls.
Proof.
  intros A ls w Hi.
  assert (Hlen : length (seq 0 (length ls)) = length ls) by apply seq_length.
  pose proof (interleavings_proj _ (@fst nat A) (seq 0 (length ls)) _ w Hi
                (seq_NoDup _ _) (tag_with_owned A _ ls Hlen)) as H.
  unfold tag_senders in H.
  rewrite <- (tag_with_untag A (seq 0 (length ls)) ls Hlen) at 2.
  remember (tag_with (seq 0 (length ls)) ls) as tl. clear - H.
  induction H as [|j l ids tl Hjl _ IH]; simpl; constructor; [|exact IH].
  rewrite Hjl. reflexivity.
Qed.

(* --- the executable schedule runner is the LTS --- *)

Lemma take_at_spec : forall (A : Type) (ls : list (list A)) i x ls',
  take_at i ls = Some (x, ls') ->
  exists pre rest post, ls = pre ++ (x :: rest) :: post /\ ls' = pre ++ rest :: post /\ length pre = i.
Proof.
  intros A ls. induction ls as [|l ls IH]; intros i x ls' H; [discriminate|].
  destruct i as [|j]; simpl in H.
  - destruct l as [|y r]; [discriminate|]. inversion H; subst.
    exists [], r, ls. auto.
  - destruct (take_at j ls) as [[y ls'']|] eqn:E; [|discriminate]. inversion H; subst.
    destruct (IH _ _ _ E) as [pre [rest [post [E1 [E2 E3]]]]]. subst.
    exists (l :: pre), rest, post. auto.
Qed.

Lemma take_at_complete : forall (A : Type) (pre : list (list A)) x rest post,
  take_at (length pre) (pre ++ (x :: rest) :: post) = Some (x, pre ++ rest :: post).
Proof.
  intros A pre. induction pre as [|l pre IH]; intros x rest post; [reflexivity|].
  simpl. rewrite IH. reflexivity.
Qed.

Lemma run_sched_sound : forall (A : Type) sched (ls : list (list A)) w r,
  run_sched ls sched = (w, r, true) -> all_done r -> interleavings ls w.
Proof.
  intros A sched. induction sched as [|i s IH]; intros ls w r H Hd; simpl in H.
  - inversion H; subst. apply il_done. exact Hd.
  - destruct (take_at i ls) as [[x ls']|] eqn:E; [|discriminate].
    destruct (run_sched ls' s) as [[w' r'] ok'] eqn:E2. inversion H; subst.
    destruct (take_at_spec _ _ _ _ _ E) as [pre [rest [post [E1 [E3 _]]]]]. subst.
    apply il_pick. eapply IH; eauto.
Qed.

Lemma run_sched_complete : forall (A : Type) (ls : list (list A)) w,
  interleavings ls w ->
  exists sched r, run_sched ls sched = (w, r, true) /\ all_done r /\ length sched = length w.
Proof.
  intros A ls w H. induction H as [ls Hd|pre x rest post w _ IH].
  - exists [], ls. auto.
  - destruct IH as [s [r [Hrun [Hd Hlen]]]]. exists (length pre :: s), r. simpl.
    rewrite take_at_complete, Hrun. simpl. auto.
Qed.

Lemma run_sched_reach : forall (A : Type) sched (ls : list (list A)) w r w0,
  run_sched ls sched = (w, r, true) -> creach (ls, w0) (r, w0 ++ w).
Proof.
  intros A sched. induction sched as [|i s IH]; intros ls w r w0 H; simpl in H.
  - inversion H; subst. rewrite app_nil_r. apply creach_refl.
  - destruct (take_at i ls) as [[x ls']|] eqn:E; [|discriminate].
    destruct (run_sched ls' s) as [[w' r'] ok'] eqn:E2. inversion H; subst.
    destruct (take_at_spec _ _ _ _ _ E) as [pre [rest [post [E1 [E3 _]]]]]. subst.
    eapply creach_step; [apply cstep_write|].
    specialize (IH _ _ _ (w0 ++ [x]) E2). rewrite <- app_assoc in IH. exact IH.
Qed.

(* --- the statement for concurrent senders --- *)

Definition str_dec : forall x y : str, {x = y} + {x <> y} := list_eq_dec N.eq_dec.

(* n senders, each performing its own op list on one client/component; transport
   writes are atomic.  Whatever the schedule, once all are done the list of
   transport writes is a merge of the senders' data lists; so each data string
   is on the wire whole (the byte stream is the concatenation of the merge),
   as often as it was sent, no more and no less. *)
Lemma wire_is_interleaving : forall cfg (senders : list (list op)) rem w,
  creach (map (writes_of cfg) senders, []) (rem, w) -> all_done rem ->
  interleavings (map (writes_of cfg) senders) w /\
  wire_bytes w = concat w /\
  (forall s, count_occ str_dec w s = count_occ str_dec (concat (map (writes_of cfg) senders)) s) /\
  length w = length (concat (map (writes_of cfg) senders)).
Proof.
  intros cfg senders rem w Hr Hd.
  destruct (creach_interleaving _ _ _ Hr Hd) as [m [Hm Hw]]. simpl in Hw. subst w.
  split; [exact Hm|]. split; [reflexivity|]. split.
  - apply interleavings_count. exact Hm.
  - apply interleavings_length. exact Hm.
Qed.

Lemma wire_order_per_sender : forall cfg (senders : list (list op)) rem w,
  creach (tag_senders (map (writes_of cfg) senders), []) (rem, w) -> all_done rem ->
  Forall2 (fun j ops => map snd (proj fst j w) = writes_of cfg ops)
          (seq 0 (length senders)) senders.
Proof.
  intros cfg senders rem w Hr Hd.
  destruct (creach_interleaving _ _ _ Hr Hd) as [m [Hm Hw]]. simpl in Hw, Hm. subst w.
  pose proof (per_sender_order _ _ _ Hm) as H. rewrite map_length in H.
  remember (seq 0 (length senders)) as ids. clear Heqids Hm Hr Hd.
  remember (map (writes_of cfg) senders) as ws. revert senders Heqws.
  induction H as [|j l ids ws Hjl _ IH]; intros senders E.
  - destruct senders; [constructor|discriminate].
  - destruct senders as [|ops senders]; [discriminate|]. simpl in E. injection E as E1 E2.
    constructor; [rewrite Hjl; exact E1|apply IH; exact E2].
Qed.
