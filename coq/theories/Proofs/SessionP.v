From Coq Require Import List ZArith NArith Bool Lia.
From XV Require Import Lib.Sx Model.Session.
Import ListNotations.
Open Scope N_scope.

Ltac dmatch :=
  match goal with
  | |- context [match ?x with _ => _ end] => destruct x eqn:?
  | H : context [match ?x with _ => _ end] |- _ => destruct x eqn:?
  end.

(* ---------- channel flag of every output ---------- *)
Definition all_chan (chan : bool) (w : list out) : Prop := Forall (fun x => o_tls x = chan) w.

Lemma all_chan_app c w1 w2 : all_chan c w1 -> all_chan c w2 -> all_chan c (w1 ++ w2).
Proof. intros; apply Forall_app; split; assumption. Qed.
Lemma all_chan_one c r sn : all_chan c [o c r sn].
Proof. constructor; [reflexivity|constructor]. Qed.
Lemma all_chan_nil c : all_chan c [].
Proof. constructor. Qed.
Lemma all_chan_cons c r sn w : all_chan c w -> all_chan c (o c r sn :: w).
Proof. intros; constructor; [reflexivity|assumption]. Qed.
#[local] Hint Resolve all_chan_app all_chan_one all_chan_nil all_chan_cons : chan.

Lemma enable_chan cfg c p f s sn : all_chan c (fst (fst (step_enable cfg c p f s sn))).
Proof. unfold step_enable. repeat dmatch; cbn; auto with chan. Qed.

Lemma session_chan cfg c p f s sn : all_chan c (fst (fst (step_session cfg c p f s sn))).
Proof.
  unfold step_session. destruct (f_sess f); try apply enable_chan.
  destruct s as [|[] s']; cbn; auto with chan.
  destruct t; cbn; auto with chan.
  pose proof (enable_chan cfg c (set_bind p (p_bind_jid p) (p_packet_id p + 1)) f s' [SIq TResult pl err]) as H.
  destruct (step_enable _ _ _ _ _ _) as [[w r] p2]. cbn in *. auto with chan.
Qed.

Lemma bind_chan cfg c p f s sn : all_chan c (fst (fst (step_bind cfg c p f s sn))).
Proof.
  unfold step_bind. destruct s as [|[] s']; cbn; auto with chan.
  destruct t; cbn; auto with chan. destruct pl; cbn; auto with chan.
  pose proof (session_chan cfg c (set_bind p jid (p_packet_id p + 1)) f s' [SIq TResult (PlBind jid) err]) as H.
  destruct (step_session _ _ _ _ _ _) as [[w r] p2]. cbn in *. auto with chan.
Qed.

Lemma resume_chan cfg c p f s sn : all_chan c (fst (fst (step_resume cfg c p f s sn))).
Proof.
  unfold step_resume. destruct (f_sm f && negb (str_eqb (p_sm_id p) [])); [|apply bind_chan].
  destruct s as [|[] s']; cbn; auto with chan.
  - destruct (str_eqb previd (p_sm_id p)); cbn; auto with chan.
  - pose proof (bind_chan cfg c (clear_sm p) f s' [SFailed]) as H.
    destruct (step_bind _ _ _ _ _ _) as [[w r] p2]. cbn in *. auto with chan.
Qed.

Lemma auth_chan cfg c p f s sn : all_chan c (fst (fst (step_auth cfg c p f s sn))).
Proof.
  unfold step_auth. destruct (choose_mech _ _) as [m|]; cbn; auto with chan.
  destruct (negb (implemented m)); cbn; auto with chan.
  destruct s as [|[] s1]; cbn; auto with chan.
  destruct (read_header s1) as [[id s2]|]; cbn; auto with chan.
  destruct (read_features s2) as [[f2 s3]|]; cbn; auto with chan.
  pose proof (resume_chan cfg c p f2 s3 [SHeader id; SFeatures f2]) as H.
  destruct (step_resume _ _ _ _ _ _) as [[w r] p2]. cbn in *. auto with chan.
Qed.

(* a request that may travel in clear text *)
Definition clear_ok (r : creq) : bool :=
  match r with ROpen | RStartTls => true | _ => false end.

Lemma Forall_chan_imp (w : list out) :
  all_chan true w -> Forall (fun x => o_tls x = false -> clear_ok (o_req x) = true) w.
Proof. intros H. eapply Forall_impl; [|exact H]. cbn. intros a Ha Hf. congruence. Qed.

Lemma connect_no_cleartext cfg dial tls p s :
  c_insecure cfg = false ->
  Forall (fun x => o_tls x = false -> clear_ok (o_req x) = true) (fst (fst (connect cfg dial tls p s))).
Proof.
  intros Hi. unfold connect. rewrite Hi.
  destruct (negb dial); [constructor|].
  destruct (read_header s) as [[id s1]|]; [|repeat constructor].
  destruct (read_features s1) as [[f s2]|]; [|repeat constructor].
  destruct (f_tls f).
  - repeat constructor.
  - destruct (read_proceed s2) as [s3|]; [|repeat constructor].
    destruct tls; [|repeat constructor].
    destruct (read_header s3) as [[id1 s4]|]; [|repeat constructor].
    destruct (read_features s4) as [[f1 s5]|]; [|repeat constructor].
    pose proof (auth_chan cfg true (with_session (set_flags (set_flags (set_flags p false (p_tls_enabled p)) false false) true true)) f1 s5 [SHeader id1; SFeatures f1]) as H.
    destruct (step_auth _ _ _ _ _ _) as [[w r] p2]. cbn [fst] in *.
    apply Forall_app; split; [repeat constructor|apply Forall_chan_imp; exact H].
  - destruct (read_proceed s2) as [s3|]; [|repeat constructor].
    destruct tls; [|repeat constructor].
    destruct (read_header s3) as [[id1 s4]|]; [|repeat constructor].
    destruct (read_features s4) as [[f1 s5]|]; [|repeat constructor].
    pose proof (auth_chan cfg true (with_session (set_flags (set_flags (set_flags p false (p_tls_enabled p)) false false) true true)) f1 s5 [SHeader id1; SFeatures f1]) as H.
    destruct (step_auth _ _ _ _ _ _) as [[w r] p2]. cbn [fst] in *.
    apply Forall_app; split; [repeat constructor|apply Forall_chan_imp; exact H].
Qed.

(* anything written inside TLS implies the handshake and verification succeeded *)
Lemma connect_tls_verified cfg dial tls p s :
  Exists (fun x => o_tls x = true) (fst (fst (connect cfg dial tls p s))) -> tls = true.
Proof.
  unfold connect. destruct (negb dial); [intros H; inversion H|].
  destruct (read_header s) as [[id s1]|].
  2: { intros H. inversion H as [? ? H1|? ? H1]; [discriminate|inversion H1]. }
  destruct (read_features s1) as [[f s2]|].
  2: { intros H. inversion H as [? ? H1|? ? H1]; [discriminate|inversion H1]. }
  assert (Hclear : forall pp sn w r p2, step_auth cfg false pp f s2 sn = (w, r, p2) ->
            Exists (fun x => o_tls x = true) ([o false ROpen []] ++ w) -> tls = true).
  { intros pp sn w r p2 E H. pose proof (auth_chan cfg false pp f s2 sn) as Hc. rewrite E in Hc. cbn in Hc.
    apply Exists_app in H as [H|H].
    - inversion H as [? ? H1|? ? H1]; [discriminate|inversion H1].
    - apply Exists_exists in H as (x & Hin & Hx). unfold all_chan in Hc.
      rewrite Forall_forall in Hc. specialize (Hc x Hin). congruence. }
  assert (Htwo : forall w sn, w = [o false ROpen []; o false RStartTls sn] ->
            Exists (fun x => o_tls x = true) w -> tls = true).
  { intros w sn -> H. inversion H as [? ? H1|? ? H1]; [discriminate|].
    inversion H1 as [? ? H3|? ? H3]; [discriminate|inversion H3]. }
  assert (Hone : Exists (fun x => o_tls x = true) [o false ROpen []] -> tls = true).
  { intros H. inversion H as [? ? H1|? ? H1]; [discriminate|inversion H1]. }
  destruct (f_tls f).
  - destruct (c_insecure cfg); [|exact Hone].
    destruct (step_auth _ _ _ _ _ _) as [[w r] p2] eqn:E. cbn [fst]. eapply Hclear; exact E.
  - destruct (read_proceed s2) as [s3|].
    2: { destruct (c_insecure cfg); cbn [fst app]; eapply Htwo; reflexivity. }
    destruct tls; [reflexivity|]. destruct (c_insecure cfg); cbn [fst app]; eapply Htwo; reflexivity.
  - destruct (read_proceed s2) as [s3|].
    2: { destruct (c_insecure cfg); cbn [fst app]; eapply Htwo; reflexivity. }
    destruct tls; [reflexivity|]. destruct (c_insecure cfg); cbn [fst app]; eapply Htwo; reflexivity.
Qed.

(* histories of connections *)
Lemma run_conns_no_cleartext cfg cs : forall p,
  c_insecure cfg = false ->
  Forall (fun wrp => Forall (fun x => o_tls x = false -> clear_ok (o_req x) = true) (fst (fst wrp)))
         (run_conns cfg p cs).
Proof.
  induction cs as [|c cs IH]; intros p Hi; [constructor|].
  cbn [run_conns]. pose proof (connect_no_cleartext cfg (k_dial c) (k_tls c) p (k_script c) Hi) as H.
  destruct (connect _ _ _ _ _) as [[w r] p1]. cbn [fst] in H.
  constructor; [exact H|apply IH; exact Hi].
Qed.
