(* Proofs about Model/XmlText.v: the escaping table is inert and invertible. *)
From Coq Require Import List NArith Bool Lia.
From XV Require Import Lib.Sx Model.XmlText.
Import ListNotations.
Open Scope N_scope.

(* ---- case analysis of the table ---- *)
Inductive esc_view (nl : bool) (c : N) : str -> Prop :=
| EV_quot : c = 34 -> esc_view nl c e_quot
| EV_apos : c = 39 -> esc_view nl c e_apos
| EV_amp  : c = 38 -> esc_view nl c e_amp
| EV_lt   : c = 60 -> esc_view nl c e_lt
| EV_gt   : c = 62 -> esc_view nl c e_gt
| EV_tab  : c = 9 -> esc_view nl c e_tab
| EV_nl   : c = 10 -> nl = true -> esc_view nl c e_nl
| EV_rawnl : c = 10 -> nl = false -> esc_view nl c [10]
| EV_cr   : c = 13 -> esc_view nl c e_cr
| EV_self : c <> 34 -> c <> 39 -> c <> 38 -> c <> 60 -> c <> 62 -> c <> 9 -> c <> 10 -> c <> 13 ->
            legal c = true -> esc_view nl c [c]
| EV_repl : legal c = false -> esc_view nl c [replacement].

Lemma esc_char_view nl c : esc_view nl c (esc_char nl c).
Proof.
  unfold esc_char.
  destruct (c =? 34) eqn:E1; [apply N.eqb_eq in E1; now apply EV_quot|].
  destruct (c =? 39) eqn:E2; [apply N.eqb_eq in E2; now apply EV_apos|].
  destruct (c =? 38) eqn:E3; [apply N.eqb_eq in E3; now apply EV_amp|].
  destruct (c =? 60) eqn:E4; [apply N.eqb_eq in E4; now apply EV_lt|].
  destruct (c =? 62) eqn:E5; [apply N.eqb_eq in E5; now apply EV_gt|].
  destruct (c =? 9) eqn:E6; [apply N.eqb_eq in E6; now apply EV_tab|].
  destruct (c =? 10) eqn:E7.
  { apply N.eqb_eq in E7. destruct nl; [now apply EV_nl|now apply EV_rawnl]. }
  destruct (c =? 13) eqn:E8; [apply N.eqb_eq in E8; now apply EV_cr|].
  apply N.eqb_neq in E1, E2, E3, E4, E5, E6, E7, E8.
  destruct (legal c) eqn:EL; [now apply EV_self|now apply EV_repl].
Qed.

Lemma escape_cons nl c s : escape nl (c :: s) = esc_char nl c ++ escape nl s.
Proof. reflexivity. Qed.

Lemma escape_app nl a b : escape nl (a ++ b) = escape nl a ++ escape nl b.
Proof. unfold escape. apply flat_map_app. Qed.

Lemma legal_replacement : legal replacement = true.
Proof. reflexivity. Qed.

Lemma sanitize_legal c : legal c = true -> sanitize c = c.
Proof. intros H. unfold sanitize. now rewrite H. Qed.

Lemma map_sanitize_legal s : all_legal s = true -> map sanitize s = s.
Proof.
  induction s as [|c s IH]; [reflexivity|].
  cbn [all_legal forallb map]. intros H. apply andb_true_iff in H as [Hc Hs].
  rewrite (sanitize_legal c Hc). f_equal. apply IH. exact Hs.
Qed.

(* ---- unescape inverts escape ---- *)
Lemma unesc_self c r :
  c <> 38 -> c <> 60 -> legal c = true ->
  unesc None (c :: r) = match unesc None r with Some o => Some (c :: o) | None => None end.
Proof.
  intros H1 H2 HL. cbn [unesc].
  apply N.eqb_neq in H1, H2. now rewrite H1, H2, HL.
Qed.

Lemma unesc_escape_app nl s : forall r o,
  unesc None r = Some o ->
  unesc None (escape nl s ++ r) = Some (map sanitize s ++ o).
Proof.
  induction s as [|c s IH]; intros r o Hr; [exact Hr|].
  rewrite escape_cons, <- app_assoc. cbn [map].
  specialize (IH r o Hr).
  destruct (esc_char_view nl c) as [E|E|E|E|E|E|E Hn|E Hn|E|N1 N2 N3 N4 N5 N6 N7 N8 HL|HL];
    try (subst c; cbn; rewrite IH; reflexivity).
  - rewrite <- app_comm_cons, app_nil_l. rewrite unesc_self by assumption.
    rewrite IH. now rewrite sanitize_legal.
  - cbn [app]. rewrite unesc_self; [|unfold replacement; lia|unfold replacement; lia|reflexivity].
    rewrite IH. unfold sanitize. now rewrite HL.
Qed.

Lemma unescape_escape_gen nl s : unescape (escape nl s) = Some (map sanitize s).
Proof.
  unfold unescape. rewrite <- (app_nil_r (escape nl s)).
  rewrite (unesc_escape_app nl s [] []); [now rewrite app_nil_r|reflexivity].
Qed.

Lemma unescape_escape nl s : all_legal s = true -> unescape (escape nl s) = Some s.
Proof. intros H. rewrite unescape_escape_gen. now rewrite map_sanitize_legal. Qed.

(* ---- inertness ---- *)
Definition nochar (c : N) (l : str) : bool := forallb (fun x => negb (x =? c)) l.

Lemma nochar_app c a b : nochar c (a ++ b) = nochar c a && nochar c b.
Proof. unfold nochar. apply forallb_app. Qed.

Lemma nochar_cons c x l : nochar c (x :: l) = negb (x =? c) && nochar c l.
Proof. reflexivity. Qed.

Lemma forallb_flat_map {A} (p : N -> bool) (f : A -> str) (l : list A) :
  (forall x, forallb p (f x) = true) -> forallb p (flat_map f l) = true.
Proof.
  intros H. induction l as [|x l IH]; [reflexivity|].
  cbn [flat_map]. rewrite forallb_app, H, IH. reflexivity.
Qed.

(* a predicate that holds of every entity character, of U+FFFD and of every
   legal character other than the escaped ones holds of the whole output *)
Lemma escape_forallb (p : N -> bool) (nl : bool) (s : str) :
  forallb p e_quot = true -> forallb p e_apos = true -> forallb p e_amp = true ->
  forallb p e_lt = true -> forallb p e_gt = true -> forallb p e_tab = true ->
  forallb p e_cr = true -> (if nl then forallb p e_nl else p 10) = true ->
  p replacement = true ->
  (forall c, c <> 34 -> c <> 39 -> c <> 38 -> c <> 60 -> c <> 62 -> c <> 9 -> c <> 10 -> c <> 13 ->
             legal c = true -> p c = true) ->
  forallb p (escape nl s) = true.
Proof.
  intros H1 H2 H3 H4 H5 H6 H7 H8 H9 H10. unfold escape. apply forallb_flat_map. intros c.
  destruct (esc_char_view nl c) as [E|E|E|E|E|E|E Hn|E Hn|E|N1 N2 N3 N4 N5 N6 N7 N8 HL|HL];
    try assumption.
  - subst nl. exact H8.
  - subst nl c. cbn [forallb]. now rewrite H8.
  - cbn [forallb]. rewrite H10 by assumption. reflexivity.
  - cbn [forallb]. now rewrite H9.
Qed.

Lemma escape_no_delim nl s : forallb (fun c => negb (is_delim c)) (escape nl s) = true.
Proof.
  apply escape_forallb; try reflexivity; [now destruct nl|].
  intros c N1 N2 N3 N4 N5 N6 N7 N8 HL. unfold is_delim.
  apply N.eqb_neq in N1, N2, N4, N5. now rewrite N1, N2, N4, N5.
Qed.

Lemma escape_nochar c nl s : is_delim c = true -> nochar c (escape nl s) = true.
Proof.
  intros Hc. unfold nochar.
  pose proof (escape_no_delim nl s) as H. rewrite forallb_forall in H |- *.
  intros x Hx. specialize (H x Hx).
  destruct (x =? c) eqn:E; [|reflexivity]. apply N.eqb_eq in E. subst x.
  now rewrite Hc in H.
Qed.

Lemma escape_all_legal nl s : all_legal (escape nl s) = true.
Proof.
  unfold all_legal. apply escape_forallb; try reflexivity; [now destruct nl|].
  intros c _ _ _ _ _ _ _ _ HL. exact HL.
Qed.

(* the newline-escaping style never leaves a raw LF *)
Lemma escape_nl_no_lf s : has_nl (escape true s) = false.
Proof.
  assert (H : nochar 10 (escape true s) = true).
  { unfold nochar. apply escape_forallb; try reflexivity.
    intros c _ _ _ _ _ _ N7 _ _. apply N.eqb_neq in N7. now rewrite N7. }
  unfold has_nl, has_char. unfold nochar in H.
  induction (escape true s) as [|x l IH]; [reflexivity|].
  cbn [forallb existsb] in *. apply andb_true_iff in H as [Hx Hl].
  rewrite (IH Hl), orb_false_r. rewrite N.eqb_sym. now apply negb_true_iff in Hx.
Qed.

(* the raw style leaves exactly the LFs of the text *)
Lemma has_char_app c a b : has_char c (a ++ b) = has_char c a || has_char c b.
Proof. unfold has_char. apply existsb_app. Qed.

Lemma escape_raw_lf s : has_nl (escape false s) = has_nl s.
Proof.
  induction s as [|c s IH]; [reflexivity|].
  rewrite escape_cons. unfold has_nl in *. rewrite has_char_app, IH.
  cbn [has_char existsb]. f_equal.
  destruct (esc_char_view false c) as [E|E|E|E|E|E|E Hn|E Hn|E|N1 N2 N3 N4 N5 N6 N7 N8 HL|HL];
    try (subst c; reflexivity); try discriminate.
  - cbn [has_char existsb]. now rewrite orb_false_r.
  - destruct (10 =? c) eqn:E; [|reflexivity].
    apply N.eqb_eq in E. subst c. discriminate.
Qed.

(* every '&' starts one of the eight entities *)
Lemma amp_ok_app_esc nl c r : amp_ok (esc_char nl c ++ r) = amp_ok r.
Proof.
  destruct (esc_char_view nl c) as [E|E|E|E|E|E|E Hn|E Hn|E|N1 N2 N3 N4 N5 N6 N7 N8 HL|HL];
    try reflexivity.
  cbn [app amp_ok]. apply N.eqb_neq in N3. now rewrite N3.
Qed.

Lemma amp_ok_escape_app nl s r : amp_ok (escape nl s ++ r) = amp_ok r.
Proof.
  induction s as [|c s IH]; [reflexivity|].
  rewrite escape_cons, <- app_assoc, amp_ok_app_esc. exact IH.
Qed.

Lemma amp_ok_escape nl s : amp_ok (escape nl s) = true.
Proof. rewrite <- (app_nil_r (escape nl s)). now rewrite amp_ok_escape_app. Qed.

Lemma escape_nonempty nl s : s <> [] -> escape nl s <> [].
Proof.
  destruct s as [|c s]; [congruence|]. intros _. rewrite escape_cons.
  destruct (esc_char_view nl c); discriminate.
Qed.

(* text made of characters the table leaves alone is written verbatim *)
Lemma escape_plain nl s : plain s = true -> escape nl s = s.
Proof.
  induction s as [|c s IH]; [reflexivity|].
  cbn [plain forallb]. intros H. apply andb_true_iff in H as [Hc Hs].
  rewrite escape_cons, (IH Hs).
  unfold plain_char in Hc. apply andb_true_iff in Hc as [HL Hn].
  destruct (esc_char_view nl c) as [E|E|E|E|E|E|E Hn'|E Hn'|E|N1 N2 N3 N4 N5 N6 N7 N8 HL'|HL'];
    try (subst c; discriminate); [reflexivity|congruence].
Qed.

Lemma plain_all_legal s : plain s = true -> all_legal s = true.
Proof.
  unfold plain, all_legal. intros H. rewrite forallb_forall in H |- *.
  intros x Hx. specialize (H x Hx). unfold plain_char in H.
  now apply andb_true_iff in H as [H _].
Qed.
