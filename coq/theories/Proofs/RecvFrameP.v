(* The receive loop on what NextPacket makes of a token stream: C02's framing (ParserP) composed
   with the loop's theorems (RecvP). *)
From Coq Require Import List ZArith NArith Bool Lia.
From XV Require Import Model.XmlText Model.XmlPrint Model.XmlLex Model.XmlBridge Proofs.XmlBridgeP.
From XV Require Import Lib.Sx Model.XmlTree Model.Parser Proofs.ParserP Model.Recv Proofs.RecvP Model.RecvFrame.
Import ListNotations.

(* the packet of a top-level element is never the close packet (that is the stream's END tag) *)
Lemma classify_not_close : forall n tk a, classify n = inl tk -> pkt_of_top tk a <> PClose.
Proof.
  intros n tk a H. unfold classify in H.
  repeat match type of H with
         | context [if ?b then _ else _] => destruct b
         end;
  inversion H; subst; cbn; try discriminate.
  all: match goal with |- context [stanza_pkt ?k _] => destruct k; discriminate end.
Qed.

Section RecvFrame.
Variable reg : list (Z * str * str * str).
Variable tok : option Parser.kind -> name -> list attr -> list token -> bool.
Variable idn : str -> N.

(* none of the packets of top-level elements stops the loop *)
Lemma pkts_reach_end : forall items, reaches_end (map (item_of idn) (pkts_of items)) = true.
Proof.
  unfold reaches_end. induction items as [|x items IH]; [reflexivity|].
  unfold pkts_of in *. cbn [flat_map]. rewrite map_app, forallb_app, IH, andb_true_r.
  destruct x as [n a cs| |]; try reflexivity.
  destruct (classify n) as [tk|e] eqn:Hc; [|reflexivity].
  cbn [map forallb]. rewrite andb_true_r.
  pose proof (classify_not_err n tk a Hc) as He. pose proof (classify_not_close n tk a Hc) as Hcl.
  destruct (pkt_of_top tk a); try reflexivity; [contradiction|discriminate].
Qed.

Lemma processed_then_bad l e :
  reaches_end l = true -> processed (l ++ [item_of idn (Err e)]) = l /\ how_ended (l ++ [item_of idn (Err e)]) = EndRejected.
Proof.
  unfold reaches_end. induction l as [|i l IH]; intros H; [split; reflexivity|].
  cbn [forallb] in H. apply andb_true_iff in H as [Hi H]. destruct (IH H) as [IH1 IH2].
  cbn [app processed]. apply negb_true_iff in Hi. rewrite Hi, IH1. split; [reflexivity|].
  destruct i; try discriminate; cbn [how_ended]; exact IH2.
Qed.

(* whatever error ends the run of packets, behind packets of top-level elements: everything before it is
   routed once, in order; the loss is reported once *)
Lemma crecv_on_packets : forall items e inb nw wf,
  let its := map (item_of idn) (pkts_of items ++ [Err e]) in
  let tr := crecv inb nw wf its in
  routed tr = map (item_of idn) (pkts_of items) /\
  count_act is_quit tr = 1%nat /\ count_act is_disc tr = 1%nat /\
  count_act is_err tr = (1 + length (filter is_serr (map (item_of idn) (pkts_of items))))%nat /\
  (exists pre, tr = pre ++ [AEvDisconnected (inb + count_stanzas (map (item_of idn) (pkts_of items)))]) /\
  attempted tr = expected_answers inb (map (item_of idn) (pkts_of items)).
Proof.
  intros items e inb nw wf. cbn zeta. rewrite map_app. cbn [map].
  destruct (processed_then_bad _ e (pkts_reach_end items)) as [Hp Hh].
  destruct (crecv_reported_once (map (item_of idn) (pkts_of items) ++ [item_of idn (Err e)]) inb nw wf)
    as (Hq & _ & Hd & Hl & _ & He & Hr). cbn zeta in *.
  unfold ends_by_close in He. rewrite Hh, Hp in *.
  split; [exact Hr|]. split; [exact Hq|]. split; [exact Hd|]. split; [exact He|]. split; [exact Hl|].
  rewrite crecv_answers, Hp. reflexivity.
Qed.

(* ... on what NextPacket makes of a token stream that ends BETWEEN two elements ... *)
Lemma crecv_tokens_eof : forall items inb nw wf,
  forallb (top_ok reg tok) items = true ->
  let tr := crecv inb nw wf (map (item_of idn) (run_packets reg true tok (flatten_all items))) in
  let want := map (item_of idn) (pkts_of items) in
  routed tr = want /\
  count_act is_quit tr = 1%nat /\ count_act is_disc tr = 1%nat /\
  count_act is_err tr = (1 + length (filter is_serr want))%nat /\
  (exists pre, tr = pre ++ [AEvDisconnected (inb + count_stanzas want)]) /\
  attempted tr = expected_answers inb want.
Proof.
  intros items inb nw wf H. rewrite (framing_eof reg tok items H). apply crecv_on_packets.
Qed.

(* ... and on one that ends INSIDE an element (after its start tag, in its content, before its end tag):
   the cut element yields no packet and nothing of it reaches the router *)
Lemma crecv_tokens_truncated : forall items n a cs pre suf inb nw wf,
  forallb (top_ok reg tok) items = true -> dispatchable n = true ->
  flatten (NElem n a cs) = pre ++ suf -> pre <> [] -> suf <> [] ->
  let tr := crecv inb nw wf (map (item_of idn) (run_packets reg true tok (flatten_all items ++ pre))) in
  let want := map (item_of idn) (pkts_of items) in
  routed tr = want /\
  count_act is_quit tr = 1%nat /\ count_act is_disc tr = 1%nat /\
  count_act is_err tr = (1 + length (filter is_serr want))%nat /\
  (exists pre', tr = pre' ++ [AEvDisconnected (inb + count_stanzas want)]) /\
  attempted tr = expected_answers inb want.
Proof.
  intros items n a cs pre suf inb nw wf H Hd Hf Hp Hs.
  rewrite (truncated_stops reg tok items n a cs pre suf H Hd Hf Hp Hs). apply crecv_on_packets.
Qed.

(* ... and on the BYTES xml.Marshal writes for a list of element trees (C01's verified printer / lexer, C02's
   bridge), the stream ending after the last element *)
Lemma crecv_bytes_eof : forall (es : list xtree) inb nw wf,
  forallb wf_doc es = true ->
  forallb (top_ok reg tok) (bridge_trees es) = true ->
  option_map (fun ts => routed (crecv inb nw wf (map (item_of idn) (run_packets reg true tok ts))))
             (open_stream_tokens (print_open_stream es))
  = Some (map (item_of idn) (pkts_of (bridge_trees es))).
Proof.
  intros es inb nw wf Hwf Hok. rewrite (open_stream_tokens_print es Hwf). cbn [option_map]. f_equal.
  apply (crecv_tokens_eof (bridge_trees es) inb nw wf Hok).
Qed.

End RecvFrame.
