(* Proofs about the keep-alive loop model (Model/Keepalive.v). *)
From Coq Require Import List ZArith NArith Bool Lia.
From XV Require Import Lib.Sx Model.Keepalive.
Import ListNotations.

(* ---- counting ---- *)
Lemma count_app {A} (p : A -> bool) (l1 l2 : list A) :
  count p (l1 ++ l2) = count p l1 + count p l2.
Proof. unfold count. rewrite filter_app, app_length. reflexivity. Qed.

Lemma count_cons {A} (p : A -> bool) (x : A) (l : list A) :
  count p (x :: l) = (if p x then 1 else 0) + count p l.
Proof. unfold count. cbn [filter]. destruct (p x); reflexivity. Qed.

Lemma count_repeat_true {A} (p : A -> bool) (x : A) (n : nat) :
  p x = true -> count p (repeat x n) = n.
Proof.
  intros Hp. induction n as [|n IHn]; [reflexivity|].
  cbn [repeat]. rewrite count_cons, Hp, IHn. reflexivity.
Qed.

Lemma count_repeat_false {A} (p : A -> bool) (x : A) (n : nat) :
  p x = false -> count p (repeat x n) = 0.
Proof.
  intros Hp. induction n as [|n IHn]; [reflexivity|].
  cbn [repeat]. rewrite count_cons, Hp, IHn. reflexivity.
Qed.

(* ---- the terminal state is silent ---- *)
Lemma run_stopped fail sched : ka_run fail Stopped sched = (Stopped, []).
Proof.
  induction sched as [|s sched IHs]; [reflexivity|].
  cbn [ka_run ka_step]. rewrite IHs. reflexivity.
Qed.

Lemma run_app fail s1 : forall st s2,
  ka_run fail st (s1 ++ s2) =
  (fst (ka_run fail (fst (ka_run fail st s1)) s2),
   snd (ka_run fail st s1) ++ snd (ka_run fail (fst (ka_run fail st s1)) s2)).
Proof.
  induction s1 as [|s s1 IH1]; intros st s2.
  - cbn [app ka_run fst snd]. destruct (ka_run fail st s2); reflexivity.
  - cbn [app ka_run]. destruct (ka_step fail st s) as [st1 a1].
    rewrite IH1. destruct (ka_run fail st1 s1) as [st2 a2]. cbn [fst snd].
    destruct (ka_run fail st2 s2) as [st3 a3]. cbn [fst snd].
    rewrite app_assoc. reflexivity.
Qed.

(* once the loop has returned, whatever the schedule offers afterwards changes nothing *)
Lemma stopped_silent fail pre suf :
  ka_state fail pre = Stopped ->
  ka_run fail (Running 0) (pre ++ suf) = ka_run fail (Running 0) pre.
Proof.
  unfold ka_state. intros Hst. rewrite run_app, Hst, run_stopped. cbn [fst snd].
  rewrite app_nil_r. destruct (ka_run fail (Running 0) pre) as [st tr].
  cbn [fst snd] in *. subst st. reflexivity.
Qed.

(* ---- one ping per tick taken ---- *)
Lemma step_pings fail st s :
  count is_ping (snd (ka_step fail st s)) =
  match st with Running _ => if is_tick s then 1 else 0 | Stopped => 0 end.
Proof.
  destruct st as [np|]; [|reflexivity]. destruct s; cbn [ka_step is_tick]; try reflexivity;
    destruct (fail (S np)); reflexivity.
Qed.

Lemma pings_eq_ticks fail sched : forall np,
  count is_ping (snd (ka_run fail (Running np) sched)) = count is_tick (taken fail np sched).
Proof.
  induction sched as [|s sched IHs]; intros np; [reflexivity|].
  cbn [ka_run ka_step taken]. destruct s.
  - destruct (fail (S np)) eqn:Hf.
    + rewrite run_stopped. reflexivity.
    + specialize (IHs (S np)). destruct (ka_run fail (Running (S np)) sched) as [st2 a2].
      cbn [snd app] in *. rewrite !count_cons, IHs. reflexivity.
  - destruct (fail (S np)) eqn:Hf.
    + rewrite run_stopped. reflexivity.
    + specialize (IHs (S np)). destruct (ka_run fail (Running (S np)) sched) as [st2 a2].
      cbn [snd app] in *. rewrite !count_cons, IHs. reflexivity.
  - rewrite run_stopped. reflexivity.
Qed.

Lemma taken_prefix fail sched : forall np,
  exists rest, sched = taken fail np sched ++ rest.
Proof.
  induction sched as [|s sched IHs]; intros np; [exists []; reflexivity|].
  cbn [taken]. destruct s.
  - destruct (fail (S np)).
    + exists sched. reflexivity.
    + destruct (IHs (S np)) as [rest Hr]. exists rest. cbn [app]. rewrite <- Hr. reflexivity.
  - destruct (fail (S np)).
    + exists sched. reflexivity.
    + destruct (IHs (S np)) as [rest Hr]. exists rest. cbn [app]. rewrite <- Hr. reflexivity.
  - exists sched. reflexivity.
Qed.

Lemma taken_ticks_le fail sched np :
  count is_tick (taken fail np sched) <= count is_tick sched.
Proof.
  destruct (taken_prefix fail sched np) as [rest Hr].
  rewrite Hr at 2. rewrite count_app. lia.
Qed.

(* the taken part ends the loop only at its last step *)
Lemma taken_quit_last fail sched : forall np,
  count is_quit (taken fail np sched) <= 1.
Proof.
  induction sched as [|s sched IHs]; intros np; [cbn; lia|].
  cbn [taken]. destruct s.
  - destruct (fail (S np)); [cbn; lia|]. rewrite count_cons. cbn [is_quit]. apply IHs.
  - destruct (fail (S np)); [cbn; lia|]. rewrite count_cons. cbn [is_quit]. apply IHs.
  - cbn; lia.
Qed.

(* ---- the complete shape of every run ---- *)
Definition ok_between (fail : nat -> bool) (np n : nat) : Prop :=
  forall k, np < k <= np + n -> fail k = false.
Definition all_ticks (l : list sel) : Prop := forallb is_tick l = true.

Lemma all_ticks_repeat n : all_ticks (repeat STick n).
Proof. unfold all_ticks. induction n as [|n IHn]; [reflexivity|]. cbn [repeat forallb is_tick andb]. exact IHn. Qed.

(* every run: good pings for the ticks taken, then nothing yet / quit observed / a failed ping that
   is answered by Close (quit still open afterwards) / a failed ping that is not (quit closed meanwhile) *)
Lemma run_shape fail sched : forall np,
  (all_ticks sched /\ ok_between fail np (length sched) /\
     ka_run fail (Running np) sched = (Running (np + length sched), repeat APingOk (length sched)))
  \/ (exists pre suf, sched = pre ++ SQuit :: suf /\ all_ticks pre /\ ok_between fail np (length pre) /\
     ka_run fail (Running np) sched = (Stopped, repeat APingOk (length pre) ++ [ATickerStop; AReturn]))
  \/ (exists pre suf, sched = pre ++ STick :: suf /\ all_ticks pre /\ ok_between fail np (length pre) /\
     fail (S (np + length pre)) = true /\
     ka_run fail (Running np) sched
       = (Stopped, repeat APingOk (length pre) ++ [APingFail; ATickerStop; AClose; AReturn]))
  \/ (exists pre suf, sched = pre ++ STickLate :: suf /\ all_ticks pre /\ ok_between fail np (length pre) /\
     fail (S (np + length pre)) = true /\
     ka_run fail (Running np) sched
       = (Stopped, repeat APingOk (length pre) ++ [APingFail; ATickerStop; AReturn])).
Proof.
  induction sched as [|s sched IHs]; intros np.
  - left. split; [reflexivity|]. split; [intros k Hk; cbn in Hk; lia|].
    cbn [ka_run repeat length]. rewrite Nat.add_0_r. reflexivity.
  - assert (Hstep : is_tick s = true -> fail (S np) = false ->
        ka_run fail (Running np) (s :: sched)
        = (fst (ka_run fail (Running (S np)) sched), APingOk :: snd (ka_run fail (Running (S np)) sched))).
    { intros Ht Hf. cbn [ka_run]. destruct s; try discriminate; cbn [ka_step]; rewrite Hf;
        destruct (ka_run fail (Running (S np)) sched); reflexivity. }
    assert (Hext : fail (S np) = false -> forall n, ok_between fail (S np) n -> ok_between fail np (S n)).
    { intros Hf n Hok k Hk. destruct (Nat.eq_dec k (S np)) as [->|Hne]; [exact Hf|]. apply Hok. lia. }
    destruct (is_tick s) eqn:Ht.
    + destruct (fail (S np)) eqn:Hf.
      * (* the first ping fails *)
        destruct s; try discriminate.
        -- right. right. left. exists [], sched. split; [reflexivity|]. split; [reflexivity|].
           split; [intros k Hk; cbn in Hk; lia|]. cbn [length]. rewrite Nat.add_0_r. split; [exact Hf|].
           cbn [ka_run ka_step]. rewrite Hf, run_stopped. reflexivity.
        -- right. right. right. exists [], sched. split; [reflexivity|]. split; [reflexivity|].
           split; [intros k Hk; cbn in Hk; lia|]. cbn [length]. rewrite Nat.add_0_r. split; [exact Hf|].
           cbn [ka_run ka_step]. rewrite Hf, run_stopped. reflexivity.
      * specialize (Hstep eq_refl eq_refl). specialize (Hext eq_refl).
        destruct (IHs (S np)) as [(Ha & Hok & Hr)|[(pre & suf & Hs & Ha & Hok & Hr)|[(pre & suf & Hs & Ha & Hok & Hfl & Hr)|(pre & suf & Hs & Ha & Hok & Hfl & Hr)]]];
          rewrite Hstep, Hr; cbn [fst snd].
        -- left. split; [unfold all_ticks in *; cbn [forallb]; rewrite Ht, Ha; reflexivity|].
           split; [cbn [length]; apply Hext, Hok|].
           cbn [length repeat]. replace (np + S (length sched)) with (S np + length sched) by lia. reflexivity.
        -- right. left. exists (s :: pre), suf. split; [rewrite Hs; reflexivity|].
           split; [unfold all_ticks in *; cbn [forallb]; rewrite Ht, Ha; reflexivity|].
           split; [cbn [length]; apply Hext, Hok|]. reflexivity.
        -- right. right. left. exists (s :: pre), suf. split; [rewrite Hs; reflexivity|].
           split; [unfold all_ticks in *; cbn [forallb]; rewrite Ht, Ha; reflexivity|].
           split; [cbn [length]; apply Hext, Hok|].
           split; [cbn [length]; replace (np + S (length pre)) with (S np + length pre) by lia; exact Hfl|].
           reflexivity.
        -- right. right. right. exists (s :: pre), suf. split; [rewrite Hs; reflexivity|].
           split; [unfold all_ticks in *; cbn [forallb]; rewrite Ht, Ha; reflexivity|].
           split; [cbn [length]; apply Hext, Hok|].
           split; [cbn [length]; replace (np + S (length pre)) with (S np + length pre) by lia; exact Hfl|].
           reflexivity.
    + destruct s; try discriminate.
      right. left. exists [], sched. split; [reflexivity|]. split; [reflexivity|].
      split; [intros k Hk; cbn in Hk; lia|].
      cbn [ka_run ka_step]. rewrite run_stopped. reflexivity.
Qed.

(* ---- failure at the k-th keep-alive, for every k and every continuation ---- *)
Lemma run_fail_at fail suf : forall n np,
  ok_between fail np n -> fail (S (np + n)) = true ->
  ka_run fail (Running np) (repeat STick n ++ STick :: suf)
  = (Stopped, repeat APingOk n ++ [APingFail; ATickerStop; AClose; AReturn]).
Proof.
  induction n as [|n IHn]; intros np Hok Hf.
  - cbn [repeat app ka_run ka_step]. rewrite Nat.add_0_r in Hf. rewrite Hf, run_stopped. reflexivity.
  - cbn [repeat app ka_run ka_step].
    rewrite (Hok (S np)) by lia.
    rewrite (IHn (S np)).
    + reflexivity.
    + intros k Hk. apply Hok. lia.
    + replace (S np + n) with (np + S n) by lia. exact Hf.
Qed.

(* the same when quit is closed while that ping is under way: no Close *)
Lemma run_fail_late fail suf : forall n np,
  ok_between fail np n -> fail (S (np + n)) = true ->
  ka_run fail (Running np) (repeat STick n ++ STickLate :: suf)
  = (Stopped, repeat APingOk n ++ [APingFail; ATickerStop; AReturn]).
Proof.
  induction n as [|n IHn]; intros np Hok Hf.
  - cbn [repeat app ka_run ka_step]. rewrite Nat.add_0_r in Hf. rewrite Hf, run_stopped. reflexivity.
  - cbn [repeat app ka_run ka_step].
    rewrite (Hok (S np)) by lia.
    rewrite (IHn (S np)).
    + reflexivity.
    + intros k Hk. apply Hok. lia.
    + replace (S np + n) with (np + S n) by lia. exact Hf.
Qed.

Lemma run_quit_at fail suf : forall n np,
  ok_between fail np n ->
  ka_run fail (Running np) (repeat STick n ++ SQuit :: suf)
  = (Stopped, repeat APingOk n ++ [ATickerStop; AReturn]).
Proof.
  induction n as [|n IHn]; intros np Hok.
  - cbn [repeat app ka_run ka_step]. rewrite run_stopped. reflexivity.
  - cbn [repeat app ka_run ka_step].
    rewrite (Hok (S np)) by lia.
    rewrite (IHn (S np)); [reflexivity|]. intros k Hk. apply Hok. lia.
Qed.

Lemma run_all_ok fail : forall n np,
  ok_between fail np n ->
  ka_run fail (Running np) (repeat STick n) = (Running (np + n), repeat APingOk n).
Proof.
  induction n as [|n IHn]; intros np Hok.
  - cbn [repeat ka_run]. rewrite Nat.add_0_r. reflexivity.
  - cbn [repeat ka_run ka_step]. rewrite (Hok (S np)) by lia.
    rewrite (IHn (S np)); [|intros k Hk; apply Hok; lia].
    replace (S np + n) with (np + S n) by lia. reflexivity.
Qed.

(* ---- consequences of the shape, for every schedule ---- *)
Lemma in_repeat_ok a n : In a (repeat APingOk n) -> a = APingOk.
Proof. intros H. apply repeat_spec in H. exact H. Qed.

Lemma after_return_ok n l : after_return (repeat APingOk n ++ l) = after_return l.
Proof. induction n as [|n IHn]; [reflexivity|]. cbn [repeat app after_return]. exact IHn. Qed.

Lemma nothing_after_return fail sched np :
  after_return (snd (ka_run fail (Running np) sched)) = [].
Proof.
  destruct (run_shape fail sched np)
    as [(_ & _ & Hr)|[(pre & suf & _ & _ & _ & Hr)|[(pre & suf & _ & _ & _ & _ & Hr)|(pre & suf & _ & _ & _ & _ & Hr)]]];
    rewrite Hr; cbn [snd].
  - rewrite <- (app_nil_r (repeat APingOk _)), after_return_ok. reflexivity.
  - rewrite after_return_ok. reflexivity.
  - rewrite after_return_ok. reflexivity.
  - rewrite after_return_ok. reflexivity.
Qed.

(* at most one failed ping, at most one Close and only after a failed ping, at most one return *)
Lemma closes_le_failures fail sched np :
  let tr := snd (ka_run fail (Running np) sched) in
  count is_close tr <= count is_pingfail tr /\ count is_pingfail tr <= 1 /\ count is_return tr <= 1.
Proof.
  cbn zeta.
  destruct (run_shape fail sched np)
    as [(_ & _ & Hr)|[(pre & suf & _ & _ & _ & Hr)|[(pre & suf & _ & _ & _ & _ & Hr)|(pre & suf & _ & _ & _ & _ & Hr)]]];
    rewrite Hr; cbn [snd]; rewrite ?count_app, ?count_repeat_false by reflexivity;
    cbn; lia.
Qed.

(* a schedule without a late tick (quit never closed under a ping): Close exactly when a ping failed *)
Lemma closes_eq_failures fail sched : forall np,
  existsb is_late sched = false ->
  count is_close (snd (ka_run fail (Running np) sched)) = count is_pingfail (snd (ka_run fail (Running np) sched)).
Proof.
  induction sched as [|s sched IHs]; intros np Hl; [reflexivity|].
  cbn [existsb] in Hl. apply orb_false_iff in Hl as [Hs Hl].
  cbn [ka_run ka_step]. destruct s; try discriminate.
  - destruct (fail (S np)) eqn:Hf.
    + rewrite run_stopped. reflexivity.
    + specialize (IHs (S np) Hl). destruct (ka_run fail (Running (S np)) sched) as [st2 a2].
      cbn [snd app] in *. rewrite !count_cons. cbn [is_close is_pingfail]. lia.
  - rewrite run_stopped. reflexivity.
Qed.

(* a schedule without a plain tick (every ping under which quit was closed): no Close at all *)
Lemma no_plain_tick_no_close fail sched : forall st,
  existsb is_plain_tick sched = false ->
  count is_close (snd (ka_run fail st sched)) = 0.
Proof.
  induction sched as [|s sched IHs]; intros st Hp; [reflexivity|].
  cbn [existsb] in Hp. apply orb_false_iff in Hp as [Hs Hp].
  destruct st as [np|]; [|rewrite run_stopped; reflexivity].
  cbn [ka_run ka_step]. destruct s; try discriminate.
  - destruct (fail (S np)) eqn:Hf.
    + rewrite run_stopped. reflexivity.
    + specialize (IHs (Running (S np)) Hp). destruct (ka_run fail (Running (S np)) sched) as [st2 a2].
      cbn [snd app] in *. rewrite count_cons. cbn [is_close]. lia.
  - rewrite run_stopped. reflexivity.
Qed.

Lemma failure_shape fail sched np :
  let tr := snd (ka_run fail (Running np) sched) in
  In APingFail tr ->
  exists n, (tr = repeat APingOk n ++ [APingFail; ATickerStop; AClose; AReturn] \/
             tr = repeat APingOk n ++ [APingFail; ATickerStop; AReturn]) /\
            fst (ka_run fail (Running np) sched) = Stopped /\
            fail (S (np + n)) = true /\ ok_between fail np n.
Proof.
  cbn zeta.
  destruct (run_shape fail sched np)
    as [(_ & _ & Hr)|[(pre & suf & _ & _ & Hok & Hr)|[(pre & suf & _ & _ & Hok & Hf & Hr)|(pre & suf & _ & _ & Hok & Hf & Hr)]]];
    rewrite Hr; cbn [fst snd]; intros Hin.
  - apply in_repeat_ok in Hin. discriminate.
  - apply in_app_or in Hin as [Hin|Hin]; [apply in_repeat_ok in Hin; discriminate|].
    cbn [In] in Hin. destruct Hin as [Hin|[Hin|[]]]; discriminate.
  - exists (length pre). split; [left; reflexivity|]. repeat split; assumption.
  - exists (length pre). split; [right; reflexivity|]. repeat split; assumption.
Qed.

(* ---- the loop has returned iff a ping failed or quit was observed ---- *)
Definition is_stopped (st : kstate) : bool := match st with Stopped => true | Running _ => false end.

Lemma stopped_iff_b fail sched : forall np,
  is_stopped (fst (ka_run fail (Running np) sched))
  = existsb is_pingfail (snd (ka_run fail (Running np) sched))
    || existsb is_quit (taken fail np sched).
Proof.
  induction sched as [|s sched IHs]; intros np; [reflexivity|].
  cbn [ka_run ka_step taken]. destruct s.
  - destruct (fail (S np)) eqn:Hf.
    + rewrite run_stopped. reflexivity.
    + specialize (IHs (S np)). destruct (ka_run fail (Running (S np)) sched) as [st2 a2].
      cbn [fst snd app existsb is_pingfail is_quit orb] in *. exact IHs.
  - destruct (fail (S np)) eqn:Hf.
    + rewrite run_stopped. reflexivity.
    + specialize (IHs (S np)). destruct (ka_run fail (Running (S np)) sched) as [st2 a2].
      cbn [fst snd app existsb is_pingfail is_quit orb] in *. exact IHs.
  - rewrite run_stopped. reflexivity.
Qed.

Lemma returned_iff_b fail sched : forall np,
  is_stopped (fst (ka_run fail (Running np) sched))
  = existsb is_return (snd (ka_run fail (Running np) sched)).
Proof.
  induction sched as [|s sched IHs]; intros np; [reflexivity|].
  cbn [ka_run ka_step]. destruct s.
  - destruct (fail (S np)) eqn:Hf.
    + rewrite run_stopped. reflexivity.
    + specialize (IHs (S np)). destruct (ka_run fail (Running (S np)) sched) as [st2 a2].
      cbn [fst snd app existsb is_return orb] in *. exact IHs.
  - destruct (fail (S np)) eqn:Hf.
    + rewrite run_stopped. reflexivity.
    + specialize (IHs (S np)). destruct (ka_run fail (Running (S np)) sched) as [st2 a2].
      cbn [fst snd app existsb is_return orb] in *. exact IHs.
  - rewrite run_stopped. reflexivity.
Qed.

Lemma existsb_In_act (p : act -> bool) (x : act) l :
  (forall a, p a = true <-> a = x) -> (existsb p l = true <-> In x l).
Proof.
  intros Hp. rewrite existsb_exists. split.
  - intros (a & Hin & Ha). apply Hp in Ha. subst a. exact Hin.
  - intros Hin. exists x. split; [exact Hin|]. apply Hp. reflexivity.
Qed.

Lemma existsb_In_sel l : existsb is_quit l = true <-> In SQuit l.
Proof.
  rewrite existsb_exists. split.
  - intros (a & Hin & Ha). destruct a; try discriminate. exact Hin.
  - intros Hin. exists SQuit. split; [exact Hin|reflexivity].
Qed.

Lemma stopped_iff fail sched :
  ka_state fail sched = Stopped <->
  (In APingFail (ka_trace fail sched) \/ In SQuit (taken fail 0 sched)).
Proof.
  unfold ka_state, ka_trace.
  pose proof (stopped_iff_b fail sched 0) as Hb.
  rewrite <- (existsb_In_act is_pingfail APingFail), <- existsb_In_sel, <- orb_true_iff, <- Hb.
  - destruct (fst (ka_run fail (Running 0) sched)); cbn [is_stopped]; split; congruence.
  - intros a. destruct a; cbn; split; congruence.
Qed.

Lemma returned_iff fail sched :
  In AReturn (ka_trace fail sched) <-> ka_state fail sched = Stopped.
Proof.
  unfold ka_state, ka_trace.
  pose proof (returned_iff_b fail sched 0) as Hb.
  rewrite <- (existsb_In_act is_return AReturn), <- Hb.
  - destruct (fst (ka_run fail (Running 0) sched)); cbn [is_stopped]; split; congruence.
  - intros a. destruct a; cbn; split; congruence.
Qed.

(* ---- the bytes of a ping ---- *)
Lemma ping_writes_newline r : fst (xmpp_ping r) = [10%N].
Proof. reflexivity. Qed.

Lemma ping_ok_iff r : snd (xmpp_ping r) = true <-> r = WOk 1%Z.
Proof.
  destruct r as [n|n]; cbn [xmpp_ping snd].
  - rewrite Z.eqb_eq. split; [intros ->; reflexivity|intros H; injection H; auto].
  - split; discriminate.
Qed.

Lemma wire_is_newlines tr : wire tr = repeat 10%N (count is_ping tr).
Proof.
  induction tr as [|a tr IHt]; [reflexivity|].
  unfold wire in *. cbn [flat_map]. rewrite count_cons, IHt.
  destruct (is_ping a); reflexivity.
Qed.

(* ---- the connection underneath: closed whatever the closing tag's write does ---- *)
Lemma conn_trace_app t1 t2 : conn_trace (t1 ++ t2) = conn_trace t1 ++ conn_trace t2.
Proof. unfold conn_trace. apply flat_map_app. Qed.

Lemma conn_trace_oks n : conn_trace (repeat APingOk n) = repeat (CWrite ping_data) n.
Proof. induction n as [|n IHn]; [reflexivity|]. cbn [repeat]. rewrite <- IHn. reflexivity. Qed.

Lemma conn_closes_eq_closes tr : count is_connclose (conn_trace tr) = count is_close tr.
Proof.
  induction tr as [|a tr IHt]; [reflexivity|].
  change (a :: tr) with ([a] ++ tr). rewrite conn_trace_app, !count_app, IHt.
  destruct a; reflexivity.
Qed.

(* ---- environment level ---- *)
Definition b2n (b : bool) : nat := if b then 1 else 0.

(* ticks (hence pings) against ticker fires: each needs its own fire *)
Lemma resolve_ticks_le evs : forall ph pending closed,
  count is_tick (resolve ph pending closed evs) <= b2n (in_tick ph) + b2n pending + count_fire evs.
Proof.
  unfold count_fire.
  induction evs as [|e evs IHe]; intros ph pending closed; [cbn; lia|].
  destruct e as [| |b| | |]; cbn [resolve filter length].
  - specialize (IHe ph true closed). cbn [b2n] in *. destruct pending; cbn [b2n]; lia.
  - apply IHe.
  - destruct ph; try apply IHe.
    destruct pending, closed.
    + destruct b.
      * specialize (IHe PTicked false true). cbn [in_tick b2n] in *. lia.
      * rewrite count_cons. cbn [is_tick]. specialize (IHe PIdle true true). cbn [in_tick b2n] in *. lia.
    + specialize (IHe PTicked false false). cbn [in_tick b2n] in *. lia.
    + rewrite count_cons. cbn [is_tick]. specialize (IHe PIdle false true). cbn [in_tick b2n] in *. lia.
    + specialize (IHe PIdle false false). cbn [in_tick b2n] in *. lia.
  - destruct ph; try apply IHe. destruct closed.
    + rewrite count_cons. cbn [is_tick]. specialize (IHe PIdle pending true). cbn [in_tick b2n] in *. lia.
    + specialize (IHe PPolled pending false). cbn [in_tick b2n] in *. lia.
  - destruct ph; try apply IHe. specialize (IHe PPinged pending closed). cbn [in_tick b2n] in *. lia.
  - destruct ph; try apply IHe. rewrite count_cons.
    specialize (IHe PIdle pending closed). cbn [in_tick b2n] in *. destruct closed; cbn [is_tick]; lia.
Qed.

(* once quit is closed: at most ONE more tick, and only if the loop was already past its poll *)
Lemma resolve_closed_ticks evs : forall ph pending,
  count is_tick (resolve ph pending true evs) <= b2n (past_poll ph).
Proof.
  induction evs as [|e evs IHe]; intros ph pending; [cbn; lia|].
  destruct e as [| |b| | |]; cbn [resolve].
  - apply IHe.
  - apply IHe.
  - destruct ph; try apply IHe.
    destruct pending.
    + destruct b.
      * specialize (IHe PTicked false). cbn [past_poll b2n] in *. lia.
      * rewrite count_cons. cbn [is_tick]. specialize (IHe PIdle true). cbn [past_poll b2n] in *. lia.
    + rewrite count_cons. cbn [is_tick]. specialize (IHe PIdle false). cbn [past_poll b2n] in *. lia.
  - destruct ph; try apply IHe.
    rewrite count_cons. cbn [is_tick]. specialize (IHe PIdle pending). cbn [past_poll b2n] in *. lia.
  - destruct ph; try apply IHe. specialize (IHe PPinged pending). cbn [past_poll b2n] in *. lia.
  - destruct ph; try apply IHe. rewrite count_cons. cbn [is_tick].
    specialize (IHe PIdle pending). cbn [past_poll b2n] in *. lia.
Qed.

(* ... and that one is a late tick: with quit closed no plain tick is ever produced *)
Lemma resolve_closed_no_plain_tick evs : forall ph pending,
  existsb is_plain_tick (resolve ph pending true evs) = false.
Proof.
  induction evs as [|e evs IHe]; intros ph pending; [reflexivity|].
  destruct e as [| |b| | |]; destruct ph; cbn [resolve]; try apply IHe;
    try (destruct pending; try destruct b); cbn [existsb is_plain_tick orb]; apply IHe.
Qed.

(* while quit is open no late tick is produced and the quit branch is never taken *)
Lemma resolve_open evs : forall ph pending,
  existsb (fun e => match e with ECloseQuit => true | _ => false end) evs = false ->
  count is_quit (resolve ph pending false evs) = 0 /\ existsb is_late (resolve ph pending false evs) = false.
Proof.
  induction evs as [|e evs IHe]; intros ph pending Hnc; [split; reflexivity|].
  destruct e as [| |b| | |]; cbn [existsb orb] in Hnc; try discriminate;
    destruct ph; cbn [resolve]; try (apply IHe, Hnc);
    try (destruct pending; apply IHe, Hnc);
    rewrite count_cons; cbn [is_quit existsb is_late orb]; apply IHe, Hnc.
Qed.

(* every fire followed by a whole iteration, quit open: every tick is served *)
Lemma resolve_rounds bs :
  resolve PIdle false false (flat_map round bs) = repeat STick (length bs).
Proof.
  induction bs as [|b bs IHb]; [reflexivity|].
  cbn [flat_map round app resolve length repeat]. rewrite IHb. reflexivity.
Qed.

(* pings of the loop after quit has been closed *)
Lemma pings_once_closed fail np ph pending evs :
  count is_ping (snd (ka_run fail (Running np) (resolve ph pending true evs))) <= b2n (past_poll ph).
Proof.
  rewrite pings_eq_ticks.
  pose proof (taken_ticks_le fail (resolve ph pending true evs) np) as H1.
  pose proof (resolve_closed_ticks evs ph pending) as H2. lia.
Qed.

Lemma no_close_once_closed fail st ph pending evs :
  count is_close (snd (ka_run fail st (resolve ph pending true evs))) = 0.
Proof. apply no_plain_tick_no_close, resolve_closed_no_plain_tick. Qed.

(* pings against fires, over any event list *)
Lemma pings_vs_fires fail np ph pending closed evs :
  count is_ping (snd (ka_run fail (Running np) (resolve ph pending closed evs)))
  <= b2n (in_tick ph) + b2n pending + count_fire evs.
Proof.
  rewrite pings_eq_ticks.
  pose proof (taken_ticks_le fail (resolve ph pending closed evs) np) as H1.
  pose proof (resolve_ticks_le evs ph pending closed) as H2. lia.
Qed.

(* quit closed and the loop at its select with no tick pending: the very next select ends it, no ping *)
Lemma quit_seen_at_once fail np b evs :
  ka_run fail (Running np) (resolve PIdle false true (ESelect b :: evs))
  = (Stopped, [ATickerStop; AReturn]).
Proof. cbn [resolve ka_run ka_step]. rewrite run_stopped. reflexivity. Qed.

Lemma loops_of_count h : loops_of h = count is_att_ok h.
Proof.
  induction h as [|a h IHh]; [reflexivity|].
  cbn [loops_of]. rewrite count_cons, IHh. destruct a; reflexivity.
Qed.

(* ---- which connection the loop touches ---- *)
Lemma conn_run_app cur l1 : forall l2,
  conn_run cur (l1 ++ l2) = conn_run cur l1 ++ conn_run (fold_left (fun c e => match e with TDial d => d | _ => c end) l1 cur) l2.
Proof.
  revert cur. induction l1 as [|e l1 IH1]; intros cur l2; [reflexivity|].
  destruct e as [a|d]; cbn [app conn_run fold_left].
  - rewrite IH1, app_assoc. reflexivity.
  - apply IH1.
Qed.

(* no dial in between: everything the loop does happens on the connection it started with *)
Lemma conn_run_own c tr :
  forallb (fun x => touches c x) (conn_run (Some c) (map TAct tr)) = true.
Proof.
  induction tr as [|a tr IHt]; [reflexivity|].
  cbn [map conn_run]. rewrite forallb_app, IHt, andb_true_r.
  destruct a; cbn [forallb touches andb]; rewrite ?N.eqb_refl; reflexivity.
Qed.

(* whatever dials happen: a trace without Close closes no connection *)
Lemma conn_run_no_close l : forall cur,
  count is_close (flat_map act_of l) = 0 -> count closes_conn (conn_run cur l) = 0.
Proof.
  induction l as [|e l IHl]; intros cur Hc; [reflexivity|].
  destruct e as [a|d]; cbn [conn_run flat_map act_of app] in *.
  - rewrite count_app. rewrite count_cons in Hc.
    rewrite IHl by (destruct (is_close a); cbn in Hc; lia).
    destruct a, cur; cbn in *; try reflexivity; lia.
  - apply IHl, Hc.
Qed.

(* ---------- the quit channels of the successive sessions of one client ---------- *)

Lemma client_quits_app : forall a b st, client_quits st (a ++ b) = client_quits (client_quits st a) b.
Proof. intros a b st. unfold client_quits. apply fold_left_app. Qed.

Lemma client_stops : forall n st, client_quits (false :: st) (repeat OpStop (S n)) = true :: st.
Proof.
  intros n st. unfold client_quits. cbn [repeat fold_left client_op].
  induction n as [|n IH]; cbn [repeat fold_left client_op]; [reflexivity|exact IH].
Qed.

Lemma client_session : forall n st, client_quits st (session_ops n) = true :: st.
Proof. intros n st. unfold session_ops. change (OpNew :: ?l) with ([OpNew] ++ l). rewrite client_quits_app. apply client_stops. Qed.

Lemma client_history : forall h st, client_quits st (history_ops h) = repeat true (length h) ++ st.
Proof.
  intros h. induction h as [|n h IH]; intros st; [reflexivity|].
  unfold history_ops in *. cbn [flat_map]. rewrite client_quits_app, client_session, IH.
  cbn [length]. change (true :: st) with ([true] ++ st). rewrite app_assoc. f_equal.
  change [true] with (repeat true 1). rewrite <- repeat_app. f_equal. lia.
Qed.

(* every session of the history has its quit closed when it has ended - the k-th as the first *)
Lemma history_every_quit_closed : forall h k, k < length h ->
  quit_closed (client_quits [] (history_ops h)) k = true.
Proof.
  intros h k Hk. rewrite client_history, app_nil_r. unfold quit_closed.
  assert (Hr : forall m, rev (repeat true m) = repeat true m).
  { induction m as [|m IH]; [reflexivity|]. cbn [repeat rev]. rewrite IH.
    change [true] with (repeat true 1). rewrite <- repeat_app. replace (m + 1) with (S m) by lia. reflexivity. }
  rewrite Hr. clear Hr. revert k Hk. generalize (length h) as m.
  induction m as [|m IH]; intros k Hk; [lia|]. destruct k as [|k]; [reflexivity|].
  cbn [repeat nth]. apply IH. lia.
Qed.

(* a new session's quit is open, and establishing / ending it leaves the channels of the earlier sessions as they were *)
Lemma client_session_frame : forall n st,
  client_quits st [OpNew] = false :: st /\ tl (client_quits st (session_ops n)) = st.
Proof. intros n st. split; [reflexivity|]. rewrite client_session. reflexivity. Qed.
