(* Proofs about the keep-alive loop model (Model/Keepalive.v). *)
From Coq Require Import List ZArith NArith Bool Lia.
From XV Require Import Lib.Sx Model.Keepalive.
Import ListNotations.

(* ---- counting ---- *)
Lemma count_app {A} (p : A -> bool) (l1 l2 : list A) :
  count p (l1 ++ l2) = count p l1 + count p l2.
Proof. unfold count. rewrite filter_app, app_length. reflexivity. Qed.

Lemma count_cons {A} (p : A -> bool) (x : A) (l : list A) :
  count p (x :: l) = (if p x then 1 else 0) + count p l.
Proof. unfold count. cbn [filter]. destruct (p x); reflexivity. Qed.

Lemma count_repeat_true {A} (p : A -> bool) (x : A) (n : nat) :
  p x = true -> count p (repeat x n) = n.
Proof.
  intros Hp. induction n as [|n IHn]; [reflexivity|].
  cbn [repeat]. rewrite count_cons, Hp, IHn. reflexivity.
Qed.

Lemma count_repeat_false {A} (p : A -> bool) (x : A) (n : nat) :
  p x = false -> count p (repeat x n) = 0.
Proof.
  intros Hp. induction n as [|n IHn]; [reflexivity|].
  cbn [repeat]. rewrite count_cons, Hp, IHn. reflexivity.
Qed.

(* ---- the terminal state is silent ---- *)
Lemma run_stopped fail sched : ka_run fail Stopped sched = (Stopped, []).
Proof.
  induction sched as [|s sched IHs]; [reflexivity|].
  cbn [ka_run ka_step]. rewrite IHs. reflexivity.
Qed.

Lemma run_app fail s1 : forall st s2,
  ka_run fail st (s1 ++ s2) =
  (fst (ka_run fail (fst (ka_run fail st s1)) s2),
   snd (ka_run fail st s1) ++ snd (ka_run fail (fst (ka_run fail st s1)) s2)).
Proof.
  induction s1 as [|s s1 IH1]; intros st s2.
  - cbn [app ka_run fst snd]. destruct (ka_run fail st s2); reflexivity.
  - cbn [app ka_run]. destruct (ka_step fail st s) as [st1 a1].
    rewrite IH1. destruct (ka_run fail st1 s1) as [st2 a2]. cbn [fst snd].
    destruct (ka_run fail st2 s2) as [st3 a3]. cbn [fst snd].
    rewrite app_assoc. reflexivity.
Qed.

(* once the loop has returned, whatever the schedule offers afterwards changes nothing *)
Lemma stopped_silent fail pre suf :
  ka_state fail pre = Stopped ->
  ka_run fail (Running 0) (pre ++ suf) = ka_run fail (Running 0) pre.
Proof.
  unfold ka_state. intros Hst. rewrite run_app, Hst, run_stopped. cbn [fst snd].
  rewrite app_nil_r. destruct (ka_run fail (Running 0) pre) as [st tr].
  cbn [fst snd] in *. subst st. reflexivity.
Qed.

(* ---- one ping per tick taken ---- *)
Lemma step_pings fail st s :
  count is_ping (snd (ka_step fail st s)) =
  match st, s with Running _, STick => 1 | _, _ => 0 end.
Proof.
  destruct st as [np|]; [|reflexivity]. destruct s; cbn [ka_step]; [|reflexivity].
  destruct (fail (S np)); reflexivity.
Qed.

Lemma pings_eq_ticks fail sched : forall np,
  count is_ping (snd (ka_run fail (Running np) sched)) = count is_tick (taken fail np sched).
Proof.
  induction sched as [|s sched IHs]; intros np; [reflexivity|].
  cbn [ka_run ka_step taken]. destruct s.
  - destruct (fail (S np)) eqn:Hf.
    + rewrite run_stopped. reflexivity.
    + specialize (IHs (S np)). destruct (ka_run fail (Running (S np)) sched) as [st2 a2].
      cbn [snd app] in *. rewrite !count_cons, IHs. reflexivity.
  - rewrite run_stopped. reflexivity.
Qed.

Lemma taken_prefix fail sched : forall np,
  exists rest, sched = taken fail np sched ++ rest.
Proof.
  induction sched as [|s sched IHs]; intros np; [exists []; reflexivity|].
  cbn [taken]. destruct s.
  - destruct (fail (S np)).
    + exists sched. reflexivity.
    + destruct (IHs (S np)) as [rest Hr]. exists rest. cbn [app]. rewrite <- Hr. reflexivity.
  - exists sched. reflexivity.
Qed.

Lemma taken_ticks_le fail sched np :
  count is_tick (taken fail np sched) <= count is_tick sched.
Proof.
  destruct (taken_prefix fail sched np) as [rest Hr].
  rewrite Hr at 2. rewrite count_app. lia.
Qed.

(* the taken part ends the loop only at its last step *)
Lemma taken_quit_last fail sched : forall np,
  count is_quit (taken fail np sched) <= 1.
Proof.
  induction sched as [|s sched IHs]; intros np; [cbn; lia|].
  cbn [taken]. destruct s.
  - destruct (fail (S np)); [cbn; lia|]. rewrite count_cons. cbn [is_quit]. apply IHs.
  - cbn; lia.
Qed.

(* ---- the complete shape of every run ---- *)
Definition ok_between (fail : nat -> bool) (np n : nat) : Prop :=
  forall k, np < k <= np + n -> fail k = false.

Lemma run_shape fail sched : forall np,
  (exists n, sched = repeat STick n /\ ok_between fail np n /\
     ka_run fail (Running np) sched = (Running (np + n), repeat APingOk n))
  \/ (exists n suf, sched = repeat STick n ++ SQuit :: suf /\ ok_between fail np n /\
     ka_run fail (Running np) sched = (Stopped, repeat APingOk n ++ [ATickerStop; AReturn]))
  \/ (exists n suf, sched = repeat STick n ++ STick :: suf /\ ok_between fail np n /\
     fail (S (np + n)) = true /\
     ka_run fail (Running np) sched
       = (Stopped, repeat APingOk n ++ [APingFail; ATickerStop; AClose; AReturn])).
Proof.
  induction sched as [|s sched IHs]; intros np.
  - left. exists 0. split; [reflexivity|]. split; [intros k Hk; lia|].
    cbn [ka_run repeat]. rewrite Nat.add_0_r. reflexivity.
  - destruct s.
    + destruct (fail (S np)) eqn:Hf.
      * right. right. exists 0, sched. split; [reflexivity|]. split; [intros k Hk; lia|].
        rewrite Nat.add_0_r. split; [exact Hf|].
        cbn [ka_run ka_step]. rewrite Hf, run_stopped. reflexivity.
      * assert (Hext : forall n, ok_between fail (S np) n -> ok_between fail np (S n)).
        { intros n Hok k Hk. destruct (Nat.eq_dec k (S np)) as [->|Hne]; [exact Hf|].
          apply Hok. lia. }
        cbn [ka_run ka_step]. rewrite Hf.
        destruct (IHs (S np)) as [(n & Hs & Hok & Hr)|[(n & suf & Hs & Hok & Hr)|(n & suf & Hs & Hok & Hfl & Hr)]].
        -- left. exists (S n). split; [cbn [repeat]; rewrite Hs; reflexivity|].
           split; [apply Hext, Hok|]. rewrite Hr. cbn [repeat app].
           replace (np + S n) with (S np + n) by lia. reflexivity.
        -- right. left. exists (S n), suf. split; [cbn [repeat app]; rewrite Hs; reflexivity|].
           split; [apply Hext, Hok|]. rewrite Hr. reflexivity.
        -- right. right. exists (S n), suf. split; [cbn [repeat app]; rewrite Hs; reflexivity|].
           split; [apply Hext, Hok|].
           split; [replace (np + S n) with (S np + n) by lia; exact Hfl|].
           rewrite Hr. reflexivity.
    + right. left. exists 0, sched. split; [reflexivity|]. split; [intros k Hk; lia|].
      cbn [ka_run ka_step]. rewrite run_stopped. reflexivity.
Qed.

(* ---- failure at the k-th keep-alive, for every k and every continuation ---- *)
Lemma run_fail_at fail suf : forall n np,
  ok_between fail np n -> fail (S (np + n)) = true ->
  ka_run fail (Running np) (repeat STick n ++ STick :: suf)
  = (Stopped, repeat APingOk n ++ [APingFail; ATickerStop; AClose; AReturn]).
Proof.
  induction n as [|n IHn]; intros np Hok Hf.
  - cbn [repeat app ka_run ka_step]. rewrite Nat.add_0_r in Hf. rewrite Hf, run_stopped. reflexivity.
  - cbn [repeat app ka_run ka_step].
    rewrite (Hok (S np)) by lia.
    rewrite (IHn (S np)).
    + reflexivity.
    + intros k Hk. apply Hok. lia.
    + replace (S np + n) with (np + S n) by lia. exact Hf.
Qed.

Lemma run_quit_at fail suf : forall n np,
  ok_between fail np n ->
  ka_run fail (Running np) (repeat STick n ++ SQuit :: suf)
  = (Stopped, repeat APingOk n ++ [ATickerStop; AReturn]).
Proof.
  induction n as [|n IHn]; intros np Hok.
  - cbn [repeat app ka_run ka_step]. rewrite run_stopped. reflexivity.
  - cbn [repeat app ka_run ka_step].
    rewrite (Hok (S np)) by lia.
    rewrite (IHn (S np)); [reflexivity|]. intros k Hk. apply Hok. lia.
Qed.

Lemma run_all_ok fail : forall n np,
  ok_between fail np n ->
  ka_run fail (Running np) (repeat STick n) = (Running (np + n), repeat APingOk n).
Proof.
  induction n as [|n IHn]; intros np Hok.
  - cbn [repeat ka_run]. rewrite Nat.add_0_r. reflexivity.
  - cbn [repeat ka_run ka_step]. rewrite (Hok (S np)) by lia.
    rewrite (IHn (S np)); [|intros k Hk; apply Hok; lia].
    replace (S np + n) with (np + S n) by lia. reflexivity.
Qed.

(* ---- consequences of the shape, for every schedule ---- *)
Lemma in_repeat_ok a n : In a (repeat APingOk n) -> a = APingOk.
Proof. intros H. apply repeat_spec in H. exact H. Qed.

Lemma after_return_ok n l : after_return (repeat APingOk n ++ l) = after_return l.
Proof. induction n as [|n IHn]; [reflexivity|]. cbn [repeat app after_return]. exact IHn. Qed.

Lemma nothing_after_return fail sched np :
  after_return (snd (ka_run fail (Running np) sched)) = [].
Proof.
  destruct (run_shape fail sched np)
    as [(n & _ & _ & Hr)|[(n & suf & _ & _ & Hr)|(n & suf & _ & _ & _ & Hr)]];
    rewrite Hr; cbn [snd].
  - rewrite <- (app_nil_r (repeat APingOk n)), after_return_ok. reflexivity.
  - rewrite after_return_ok. reflexivity.
  - rewrite after_return_ok. reflexivity.
Qed.

Lemma closes_eq_failures fail sched np :
  let tr := snd (ka_run fail (Running np) sched) in
  count is_close tr = count is_pingfail tr /\ count is_pingfail tr <= 1 /\ count is_return tr <= 1.
Proof.
  cbn zeta.
  destruct (run_shape fail sched np)
    as [(n & _ & _ & Hr)|[(n & suf & _ & _ & Hr)|(n & suf & _ & _ & _ & Hr)]];
    rewrite Hr; cbn [snd]; rewrite ?count_app, ?count_repeat_false by reflexivity;
    cbn; lia.
Qed.

Lemma failure_shape fail sched np :
  let tr := snd (ka_run fail (Running np) sched) in
  In APingFail tr ->
  exists n, tr = repeat APingOk n ++ [APingFail; ATickerStop; AClose; AReturn] /\
            fst (ka_run fail (Running np) sched) = Stopped /\
            fail (S (np + n)) = true /\ ok_between fail np n.
Proof.
  cbn zeta.
  destruct (run_shape fail sched np)
    as [(n & _ & _ & Hr)|[(n & suf & _ & Hok & Hr)|(n & suf & _ & Hok & Hf & Hr)]];
    rewrite Hr; cbn [fst snd]; intros Hin.
  - apply in_repeat_ok in Hin. discriminate.
  - apply in_app_or in Hin as [Hin|Hin]; [apply in_repeat_ok in Hin; discriminate|].
    cbn [In] in Hin. destruct Hin as [Hin|[Hin|[]]]; discriminate.
  - exists n. repeat split; assumption.
Qed.

(* ---- the loop has returned iff a ping failed or quit was observed ---- *)
Definition is_stopped (st : kstate) : bool := match st with Stopped => true | Running _ => false end.

Lemma stopped_iff_b fail sched : forall np,
  is_stopped (fst (ka_run fail (Running np) sched))
  = existsb is_pingfail (snd (ka_run fail (Running np) sched))
    || existsb is_quit (taken fail np sched).
Proof.
  induction sched as [|s sched IHs]; intros np; [reflexivity|].
  cbn [ka_run ka_step taken]. destruct s.
  - destruct (fail (S np)) eqn:Hf.
    + rewrite run_stopped. reflexivity.
    + specialize (IHs (S np)). destruct (ka_run fail (Running (S np)) sched) as [st2 a2].
      cbn [fst snd app existsb is_pingfail is_quit orb] in *. exact IHs.
  - rewrite run_stopped. reflexivity.
Qed.

Lemma returned_iff_b fail sched : forall np,
  is_stopped (fst (ka_run fail (Running np) sched))
  = existsb is_return (snd (ka_run fail (Running np) sched)).
Proof.
  induction sched as [|s sched IHs]; intros np; [reflexivity|].
  cbn [ka_run ka_step]. destruct s.
  - destruct (fail (S np)) eqn:Hf.
    + rewrite run_stopped. reflexivity.
    + specialize (IHs (S np)). destruct (ka_run fail (Running (S np)) sched) as [st2 a2].
      cbn [fst snd app existsb is_return orb] in *. exact IHs.
  - rewrite run_stopped. reflexivity.
Qed.

Lemma existsb_In_act (p : act -> bool) (x : act) l :
  (forall a, p a = true <-> a = x) -> (existsb p l = true <-> In x l).
Proof.
  intros Hp. rewrite existsb_exists. split.
  - intros (a & Hin & Ha). apply Hp in Ha. subst a. exact Hin.
  - intros Hin. exists x. split; [exact Hin|]. apply Hp. reflexivity.
Qed.

Lemma existsb_In_sel l : existsb is_quit l = true <-> In SQuit l.
Proof.
  rewrite existsb_exists. split.
  - intros (a & Hin & Ha). destruct a; [discriminate|exact Hin].
  - intros Hin. exists SQuit. split; [exact Hin|reflexivity].
Qed.

Lemma stopped_iff fail sched :
  ka_state fail sched = Stopped <->
  (In APingFail (ka_trace fail sched) \/ In SQuit (taken fail 0 sched)).
Proof.
  unfold ka_state, ka_trace.
  pose proof (stopped_iff_b fail sched 0) as Hb.
  rewrite <- (existsb_In_act is_pingfail APingFail), <- existsb_In_sel, <- orb_true_iff, <- Hb.
  - destruct (fst (ka_run fail (Running 0) sched)); cbn [is_stopped]; split; congruence.
  - intros a. destruct a; cbn; split; congruence.
Qed.

Lemma returned_iff fail sched :
  In AReturn (ka_trace fail sched) <-> ka_state fail sched = Stopped.
Proof.
  unfold ka_state, ka_trace.
  pose proof (returned_iff_b fail sched 0) as Hb.
  rewrite <- (existsb_In_act is_return AReturn), <- Hb.
  - destruct (fst (ka_run fail (Running 0) sched)); cbn [is_stopped]; split; congruence.
  - intros a. destruct a; cbn; split; congruence.
Qed.

(* ---- the bytes of a ping ---- *)
Lemma ping_writes_newline r : fst (xmpp_ping r) = [10%N].
Proof. reflexivity. Qed.

Lemma ping_ok_iff r : snd (xmpp_ping r) = true <-> r = WOk 1%Z.
Proof.
  destruct r as [n|n]; cbn [xmpp_ping snd].
  - rewrite Z.eqb_eq. split; [intros ->; reflexivity|intros H; injection H; auto].
  - split; discriminate.
Qed.

Lemma wire_is_newlines tr : wire tr = repeat 10%N (count is_ping tr).
Proof.
  induction tr as [|a tr IHt]; [reflexivity|].
  unfold wire in *. cbn [flat_map]. rewrite count_cons, IHt.
  destruct (is_ping a); reflexivity.
Qed.

(* ---- the connection underneath: closed whatever the closing tag's write does ---- *)
Lemma conn_trace_app cr t1 t2 : conn_trace cr (t1 ++ t2) = conn_trace cr t1 ++ conn_trace cr t2.
Proof. unfold conn_trace. apply flat_map_app. Qed.

Lemma conn_trace_oks cr n : conn_trace cr (repeat APingOk n) = repeat (CWrite ping_data) n.
Proof. induction n as [|n IHn]; [reflexivity|]. cbn [repeat]. rewrite <- IHn. reflexivity. Qed.

Lemma conn_closes_eq_closes cr tr : count is_connclose (conn_trace cr tr) = count is_close tr.
Proof.
  induction tr as [|a tr IHt]; [reflexivity|].
  change (a :: tr) with ([a] ++ tr). rewrite conn_trace_app, !count_app, IHt.
  destruct a; reflexivity.
Qed.

(* ---- environment level ---- *)
Lemma resolve_ticks_le evs : forall pending closed,
  count is_tick (resolve pending closed evs) <= (if pending then 1 else 0) + count_fire evs.
Proof.
  unfold count_fire.
  induction evs as [|e evs IHe]; intros pending closed; [destruct pending; cbn; lia|].
  destruct e as [| |b]; cbn [resolve filter length].
  - specialize (IHe true closed). cbn in IHe. destruct pending; lia.
  - apply IHe.
  - destruct pending, closed.
    + rewrite count_cons. cbn [is_tick]. specialize (IHe true true). cbn in IHe. lia.
    + rewrite count_cons. cbn [is_tick]. specialize (IHe false false). cbn in IHe. lia.
    + rewrite count_cons. cbn [is_tick]. specialize (IHe false true). cbn in IHe. lia.
    + specialize (IHe false false). cbn in IHe. lia.
Qed.

(* once quit is closed no select ever yields a tick *)
Lemma resolve_closed_no_tick evs : forall pending,
  count is_tick (resolve pending true evs) = 0.
Proof.
  induction evs as [|e evs IHe]; intros pending; [reflexivity|].
  destruct e as [| |b]; cbn [resolve].
  - apply IHe.
  - apply IHe.
  - destruct pending; rewrite count_cons; cbn [is_tick]; apply IHe.
Qed.

Lemma no_ping_once_closed fail np pending evs :
  count is_ping (snd (ka_run fail (Running np) (resolve pending true evs))) = 0.
Proof.
  rewrite pings_eq_ticks.
  pose proof (taken_ticks_le fail (resolve pending true evs) np) as H1.
  rewrite resolve_closed_no_tick in H1. lia.
Qed.

Lemma loops_of_count h : loops_of h = count is_att_ok h.
Proof.
  induction h as [|a h IHh]; [reflexivity|].
  cbn [loops_of]. rewrite count_cons, IHh. destruct a; reflexivity.
Qed.

Lemma resolve_no_quit_before_close evs : forall pending,
  existsb (fun e => match e with ECloseQuit => true | _ => false end) evs = false ->
  count is_quit (resolve pending false evs) = 0.
Proof.
  induction evs as [|e evs IHe]; intros pending Hnc; [reflexivity|].
  destruct e as [| |b]; cbn [existsb orb] in Hnc; cbn [resolve].
  - apply IHe, Hnc.
  - discriminate.
  - destruct pending.
    + rewrite count_cons. cbn [is_quit]. apply IHe, Hnc.
    + apply IHe, Hnc.
Qed.

(* every fire followed by a select, quit open: every tick is served *)
Lemma resolve_rounds bs :
  resolve false false (flat_map (fun b => [EFire; ESelect b]) bs) = repeat STick (length bs).
Proof.
  induction bs as [|b bs IHb]; [reflexivity|].
  cbn [flat_map app resolve length repeat]. rewrite IHb. reflexivity.
Qed.

(* after quit is closed: at most the pending tick plus one ping per later fire *)
Lemma late_pings_bounded fail np pending evs :
  count is_ping (snd (ka_run fail (Running np) (resolve pending true evs)))
  <= (if pending then 1 else 0) + count_fire evs.
Proof.
  rewrite pings_eq_ticks.
  pose proof (taken_ticks_le fail (resolve pending true evs) np) as H1.
  pose proof (resolve_ticks_le evs pending true) as H2. lia.
Qed.

(* quit closed and no tick pending: the very next select ends the loop, no ping *)
Lemma quit_seen_at_once fail np b evs :
  ka_run fail (Running np) (resolve false true (ESelect b :: evs))
  = (Stopped, [ATickerStop; AReturn]).
Proof. cbn [resolve ka_run ka_step]. rewrite run_stopped. reflexivity. Qed.
