(* Proofs about Model/Addr.v: what ensure_port produces for each host form and
   that net.SplitHostPort (as transcribed) splits it into the given host and the
   given-or-default port. *)
From Coq Require Import List ZArith NArith Bool Lia.
From XV Require Import Lib.Sx Model.Addr Gen.Generated.
Import ListNotations.
Open Scope Z_scope.

(* ---- lists ---- *)
Lemma firstn_exact {A} (a b : list A) : firstn (length a) (a ++ b) = a.
Proof. induction a as [|x a IH]; cbn; [destruct b; reflexivity|]. rewrite IH. reflexivity. Qed.
Lemma skipn_exact {A} (a b : list A) : skipn (length a) (a ++ b) = b.
Proof. induction a as [|x a IH]; cbn; [reflexivity|exact IH]. Qed.
Lemma skipn_exact_S {A} (a b : list A) c : skipn (S (length a)) (a ++ c :: b) = b.
Proof. induction a as [|x a IH]; cbn; [reflexivity|exact IH]. Qed.

Lemma skipn_b1 {A} (c : A) x q : skipn 1 (c :: x ++ q) = x ++ q.
Proof. reflexivity. Qed.
Lemma skipn_b2 {A} (c d : A) x q : skipn (S (S (length x))) (c :: x ++ d :: q) = q.
Proof. change (skipn (S (length x)) (x ++ d :: q) = q). apply skipn_exact_S. Qed.
Lemma skipn_b3 {A} (c d e : A) x q :
  skipn (S (S (S (length x)))) (c :: x ++ d :: e :: q) = q.
Proof.
  change (skipn (S (S (length x))) (x ++ d :: e :: q) = q).
  induction x as [|y x IH]; [reflexivity|exact IH].
Qed.

(* ---- has / index / last_index / count ---- *)
Lemma has_app c a b : has c (a ++ b) = has c a || has c b.
Proof. unfold has. apply existsb_app. Qed.
Lemma has_cons c x s : has c (x :: s) = N.eqb c x || has c s.
Proof. reflexivity. Qed.

Lemma index_absent c s : has c s = false -> index c s = -1.
Proof.
  induction s as [|x s IH]; intros H; [reflexivity|].
  rewrite has_cons in H. apply orb_false_iff in H as [Hx Hs].
  cbn [index]. rewrite N.eqb_sym, Hx, (IH Hs). reflexivity.
Qed.

Lemma last_index_absent c s : has c s = false -> last_index c s = -1.
Proof.
  induction s as [|x s IH]; intros H; [reflexivity|].
  rewrite has_cons in H. apply orb_false_iff in H as [Hx Hs].
  cbn [last_index]. rewrite (IH Hs), N.eqb_sym, Hx. reflexivity.
Qed.

Lemma len_cons x s : len (x :: s) = 1 + len s.
Proof. unfold len. cbn [length]. lia. Qed.
Lemma len_app a b : len (a ++ b) = len a + len b.
Proof. unfold len. rewrite app_length. lia. Qed.
Lemma len_nonneg s : 0 <= len s.
Proof. unfold len. lia. Qed.

Lemma last_index_bounds c s : -1 <= last_index c s < len s.
Proof.
  induction s as [|x s IH]; [cbn; lia|].
  rewrite len_cons. cbn [last_index].
  destruct (0 <=? last_index c s) eqn:E; [lia|].
  destruct (N.eqb x c); pose proof (len_nonneg s); lia.
Qed.

Lemma index_hit c a b : has c a = false -> index c (a ++ c :: b) = len a.
Proof.
  induction a as [|x a IH]; intros H.
  - cbn. rewrite N.eqb_refl. reflexivity.
  - rewrite has_cons in H. apply orb_false_iff in H as [Hx Hs].
    rewrite len_cons. cbn [app index]. rewrite N.eqb_sym, Hx, (IH Hs).
    pose proof (len_nonneg a) as Hn.
    destruct (len a <? 0) eqn:E; [apply Z.ltb_lt in E; lia|reflexivity].
Qed.

Lemma last_index_hit c a b : has c b = false -> last_index c (a ++ c :: b) = len a.
Proof.
  intros Hb. induction a as [|x a IH].
  - cbn [app last_index]. rewrite (last_index_absent c b Hb), N.eqb_refl. reflexivity.
  - rewrite len_cons. cbn [app last_index]. rewrite IH.
    pose proof (len_nonneg a) as Hn.
    destruct (0 <=? len a) eqn:E; [reflexivity|apply Z.leb_gt in E; lia].
Qed.

Lemma count_absent c s : has c s = false -> count c s = O.
Proof.
  induction s as [|x s IH]; intros H; [reflexivity|].
  rewrite has_cons in H. apply orb_false_iff in H as [Hx Hs].
  cbn [count]. rewrite N.eqb_sym, Hx, (IH Hs). reflexivity.
Qed.
Lemma count_app c a b : count c (a ++ b) = (count c a + count c b)%nat.
Proof. induction a as [|x a IH]; cbn [app count]; [reflexivity|]. rewrite IH. lia. Qed.

Lemma no_lbr_prefix s : has c_lbr s = false -> has_prefix [c_lbr] s = false.
Proof.
  destruct s as [|x s]; intros H; [reflexivity|].
  rewrite has_cons in H. apply orb_false_iff in H as [Hx _].
  cbn [has_prefix]. rewrite Hx. reflexivity.
Qed.

Lemma has_prefix_spec p : forall s, has_prefix p s = true <-> exists r, s = p ++ r.
Proof.
  induction p as [|a p IH]; intros s.
  - split; [intros _; exists s; reflexivity|reflexivity].
  - destruct s as [|b s]; cbn [has_prefix].
    + split; [discriminate|intros [r Hr]; discriminate].
    + rewrite andb_true_iff, N.eqb_eq, IH. split.
      * intros [-> [r ->]]. exists r. reflexivity.
      * intros [r Hr]. cbn in Hr. injection Hr as -> ->. split; [reflexivity|exists r; reflexivity].
Qed.

(* ---- the form predicates, unpacked ---- *)
Lemma no_brackets_inv s : no_brackets s = true -> has c_lbr s = false /\ has c_rbr s = false.
Proof.
  unfold no_brackets. intros H. apply andb_true_iff in H as [H1 H2].
  apply negb_true_iff in H1, H2. split; assumption.
Qed.
Lemma name_or_v4_inv h : name_or_v4 h = true ->
  h <> [] /\ has c_colon h = false /\ has c_lbr h = false /\ has c_rbr h = false.
Proof.
  unfold name_or_v4. intros H. apply andb_true_iff in H as [H Hb].
  apply andb_true_iff in H as [Hn Hc]. apply negb_true_iff in Hc.
  apply no_brackets_inv in Hb as [Hl Hr].
  repeat split; try assumption. intros ->. discriminate.
Qed.
Lemma port_ok_inv p : port_ok p = true ->
  p <> [] /\ has c_colon p = false /\ has c_lbr p = false /\ has c_rbr p = false.
Proof. exact (name_or_v4_inv p). Qed.
Lemma v6_inv x : v6 x = true ->
  (2 <= count c_colon x)%nat /\ has c_lbr x = false /\ has c_rbr x = false.
Proof.
  unfold v6. intros H. apply andb_true_iff in H as [Hc Hb].
  apply Nat.leb_le in Hc. apply no_brackets_inv in Hb as [Hl Hr]. repeat split; assumption.
Qed.

(* ---- strconv.Itoa: digits, possibly after one '-' ---- *)
Lemma udigits_digits fuel : forall n acc,
  forallb is_digit acc = true -> forallb is_digit (udigits fuel n acc) = true.
Proof.
  induction fuel as [|f IH]; intros n acc Ha; [exact Ha|].
  assert (Hd : is_digit (48 + n mod 10)%N = true).
  { unfold is_digit. pose proof (N.mod_upper_bound n 10 ltac:(discriminate)) as Hm.
    set (m := (n mod 10)%N) in *. clearbody m.
    apply andb_true_iff; split; apply N.leb_le; lia. }
  cbn [udigits]. destruct (n / 10 =? 0)%N.
  - cbn [forallb]. rewrite Hd. exact Ha.
  - apply IH. cbn [forallb]. rewrite Hd. exact Ha.
Qed.
Lemma udigits_nonempty fuel : forall n acc,
  nonempty acc = true -> nonempty (udigits fuel n acc) = true.
Proof.
  induction fuel as [|f IH]; intros n acc Ha; [exact Ha|].
  cbn [udigits]. destruct (n / 10 =? 0)%N; [reflexivity|apply IH; reflexivity].
Qed.
Lemma utoa_digits n : digits (utoa n) = true.
Proof.
  unfold digits, utoa. apply andb_true_iff. split.
  - cbn [udigits]. destruct (n / 10 =? 0)%N; [reflexivity|apply udigits_nonempty; reflexivity].
  - apply udigits_digits. reflexivity.
Qed.

Lemma digit_clean c s : is_digit c = false -> forallb is_digit s = true -> has c s = false.
Proof.
  intros Hc. induction s as [|x s IH]; intros H; [reflexivity|].
  cbn [forallb] in H. apply andb_true_iff in H as [Hx Hs].
  rewrite has_cons, (IH Hs), orb_false_r.
  destruct (N.eqb_spec c x) as [->|]; [congruence|reflexivity].
Qed.

Lemma itoa_nonneg_digits z : 0 <= z -> digits (itoa z) = true.
Proof.
  intros Hz. unfold itoa. destruct (z <? 0) eqn:E; [apply Z.ltb_lt in E; lia|]. apply utoa_digits.
Qed.

Lemma itoa_port_ok z : port_ok (itoa z) = true.
Proof.
  assert (H : forall n c, is_digit c = false -> has c (utoa n) = false).
  { intros n c Hc. pose proof (utoa_digits n) as Hd. unfold digits in Hd.
    apply andb_true_iff in Hd as [_ Hd]. exact (digit_clean c _ Hc Hd). }
  assert (Hne : forall n, nonempty (utoa n) = true).
  { intros n. pose proof (utoa_digits n) as Hd. unfold digits in Hd.
    apply andb_true_iff in Hd as [Hd _]. exact Hd. }
  unfold port_ok, no_brackets, itoa. destruct (z <? 0).
  - rewrite !has_cons, !H by reflexivity. reflexivity.
  - rewrite Hne, !H by reflexivity. reflexivity.
Qed.

(* ---- net.SplitHostPort on the two well-formed shapes ---- *)
Lemma split_plain h p :
  has c_colon h = false -> has c_lbr h = false -> has c_rbr h = false ->
  has c_colon p = false -> has c_lbr p = false -> has c_rbr p = false ->
  split_host_port (h ++ c_colon :: p) = SplitOk h p.
Proof.
  intros Hc Hl Hr Pc Pl Pr. unfold split_host_port.
  rewrite (last_index_hit c_colon h p Pc).
  pose proof (len_nonneg h) as Hn.
  destruct (len h <? 0) eqn:E; [apply Z.ltb_lt in E; lia|clear E].
  assert (Hl' : has c_lbr (h ++ c_colon :: p) = false)
    by (rewrite has_app, has_cons, Hl, Pl; reflexivity).
  assert (Hr' : has c_rbr (h ++ c_colon :: p) = false)
    by (rewrite has_app, has_cons, Hr, Pr; reflexivity).
  rewrite (no_lbr_prefix _ Hl').
  unfold len. rewrite Nat2Z.id, firstn_exact, (index_absent _ _ Hc).
  change (0 <=? -1) with false. cbv iota.
  change (Z.to_nat 0) with O. cbn [skipn].
  rewrite (index_absent _ _ Hl'), (index_absent _ _ Hr').
  change (0 <=? -1) with false. cbv iota.
  replace (Z.to_nat (Z.of_nat (length h) + 1)) with (S (length h)) by lia.
  rewrite skipn_exact_S. reflexivity.
Qed.

Lemma split_bracketed x p :
  has c_lbr x = false -> has c_rbr x = false ->
  has c_colon p = false -> has c_lbr p = false -> has c_rbr p = false ->
  split_host_port (c_lbr :: x ++ c_rbr :: c_colon :: p) = SplitOk x p.
Proof.
  intros Xl Xr Pc Pl Pr. unfold split_host_port.
  assert (Ei : last_index c_colon (c_lbr :: x ++ c_rbr :: c_colon :: p) = len x + 2).
  { replace (c_lbr :: x ++ c_rbr :: c_colon :: p)
      with ((c_lbr :: x ++ [c_rbr]) ++ c_colon :: p)
      by (cbn [app]; rewrite <- app_assoc; reflexivity).
    rewrite (last_index_hit _ _ _ Pc), len_cons, len_app.
    change (len [c_rbr]) with 1. lia. }
  assert (Ee : index c_rbr (c_lbr :: x ++ c_rbr :: c_colon :: p) = len x + 1).
  { change (c_lbr :: x ++ c_rbr :: c_colon :: p) with ((c_lbr :: x) ++ c_rbr :: c_colon :: p).
    rewrite index_hit, len_cons; [lia|]. rewrite has_cons, Xr. reflexivity. }
  rewrite Ei, Ee. pose proof (len_nonneg x) as Hn. pose proof (len_nonneg p) as Hp.
  destruct (len x + 2 <? 0) eqn:E; [apply Z.ltb_lt in E; lia|clear E].
  change (has_prefix [c_lbr] (c_lbr :: x ++ c_rbr :: c_colon :: p)) with true. cbv iota.
  destruct (len x + 1 <? 0) eqn:E; [apply Z.ltb_lt in E; lia|clear E].
  destruct (len x + 1 + 1 =? len (c_lbr :: x ++ c_rbr :: c_colon :: p)) eqn:E.
  { apply Z.eqb_eq in E. rewrite len_cons, len_app, !len_cons in E. lia. }
  clear E.
  replace (len x + 1 + 1 =? len x + 2) with true by (symmetry; apply Z.eqb_eq; lia).
  unfold slice, len.
  replace (Z.to_nat 1) with 1%nat by lia.
  replace (Z.to_nat (Z.of_nat (length x) + 1 - 1)) with (length x) by lia.
  replace (Z.to_nat (Z.of_nat (length x) + 1 + 1)) with (S (S (length x))) by lia.
  replace (Z.to_nat (Z.of_nat (length x) + 2 + 1)) with (S (S (S (length x)))) by lia.
  rewrite skipn_b1, skipn_b2, skipn_b3, firstn_exact.
  rewrite index_absent
    by (rewrite has_app, !has_cons, Xl, Pl; reflexivity).
  change (0 <=? -1) with false. cbv iota.
  rewrite index_absent by (rewrite has_cons, Pr; reflexivity).
  reflexivity.
Qed.

(* ---- strings.HasSuffix(addr, ":") ---- *)
Lemma last_app_ne {A} (a p : list A) d : p <> [] -> last (a ++ p) d = last p d.
Proof.
  intros Hp. induction a as [|x a IH]; [reflexivity|].
  cbn [app]. destruct (a ++ p) eqn:E; [destruct a; [contradiction|discriminate]|].
  cbn [last]. exact IH.
Qed.
Lemma last_in_ne {A} (p : list A) d : p <> [] -> In (last p d) p.
Proof.
  induction p as [|x p IH]; intros H; [contradiction|].
  destruct p as [|y p]; [left; reflexivity|]. right. apply IH. discriminate.
Qed.
Lemma has_false_not_in c p : has c p = false -> ~ In c p.
Proof.
  intros H Hin. unfold has in H.
  assert (existsb (N.eqb c) p = true) by (apply existsb_exists; exists c; split; [exact Hin|apply N.eqb_refl]).
  congruence.
Qed.
Lemma ends_colon_app a p : p <> [] -> ends_colon (a ++ p) = ends_colon p.
Proof.
  intros Hp. unfold ends_colon. rewrite (last_app_ne a p 0%N Hp).
  destruct (a ++ p) eqn:E; [destruct a; [contradiction|discriminate]|].
  destruct p; [contradiction|reflexivity].
Qed.
Lemma ends_colon_clean p : has c_colon p = false -> ends_colon p = false.
Proof.
  intros H. destruct p as [|x p]; [reflexivity|]. unfold ends_colon.
  destruct (N.eqb_spec (last (x :: p) 0%N) c_colon) as [E|]; [|reflexivity].
  exfalso. apply (has_false_not_in _ _ H). rewrite <- E. apply last_in_ne. discriminate.
Qed.
Lemma ends_colon_port a p : p <> [] -> has c_colon p = false -> ends_colon (a ++ p) = false.
Proof. intros Hp Hc. rewrite (ends_colon_app a p Hp). exact (ends_colon_clean p Hc). Qed.
Lemma ends_colon_snoc a : ends_colon (a ++ [c_colon]) = true.
Proof. rewrite ends_colon_app by discriminate. reflexivity. Qed.

(* ---- ensure_port on each form ---- *)
Lemma ensure_no_colon h n :
  has c_colon h = false -> has c_lbr h = false ->
  ensure_port h n = h ++ c_colon :: itoa n.
Proof.
  intros Hc Hl. unfold ensure_port.
  rewrite (no_lbr_prefix _ Hl), (count_absent _ _ Hc). reflexivity.
Qed.

Lemma ensure_host_port h p n :
  has c_colon h = false -> has c_lbr h = false ->
  p <> [] -> has c_colon p = false -> has c_lbr p = false ->
  ensure_port (h ++ c_colon :: p) n = h ++ c_colon :: p.
Proof.
  intros Hc Hl Pn Pc Pl. unfold ensure_port.
  rewrite no_lbr_prefix by (rewrite has_app, has_cons, Hl, Pl; reflexivity).
  rewrite count_app. cbn [count]. rewrite N.eqb_refl.
  rewrite (count_absent _ _ Hc), (count_absent _ _ Pc). cbn [Nat.add].
  change (h ++ c_colon :: p) with (h ++ [c_colon] ++ p). rewrite app_assoc.
  rewrite (ends_colon_port _ p Pn Pc). reflexivity.
Qed.

(* "host:" - an empty port is no port (repaired) *)
Lemma ensure_empty_port h n :
  has c_colon h = false -> has c_lbr h = false ->
  ensure_port (h ++ [c_colon]) n = h ++ c_colon :: itoa n.
Proof.
  intros Hc Hl. unfold ensure_port.
  rewrite no_lbr_prefix by (rewrite has_app, has_cons, Hl; reflexivity).
  rewrite count_app. cbn [count]. rewrite N.eqb_refl, (count_absent _ _ Hc). cbn [Nat.add].
  rewrite ends_colon_snoc, <- app_assoc. reflexivity.
Qed.

Lemma ensure_bracketed x n :
  ensure_port (c_lbr :: x ++ [c_rbr]) n = c_lbr :: x ++ c_rbr :: c_colon :: itoa n.
Proof.
  unfold ensure_port.
  change (has_prefix [c_lbr] (c_lbr :: x ++ [c_rbr])) with true. cbv iota.
  assert (Er : last_index c_rbr (c_lbr :: x ++ [c_rbr]) = len (c_lbr :: x)).
  { change (c_lbr :: x ++ [c_rbr]) with ((c_lbr :: x) ++ c_rbr :: []).
    apply last_index_hit. reflexivity. }
  assert (Ec : last_index c_colon (c_lbr :: x ++ [c_rbr]) <= len (c_lbr :: x)).
  { replace (c_lbr :: x ++ [c_rbr]) with ((c_lbr :: x) ++ [c_rbr]) by reflexivity.
    pose proof (last_index_bounds c_colon ((c_lbr :: x) ++ [c_rbr])) as Hb.
    rewrite len_app in Hb. change (len [c_rbr]) with 1 in Hb. lia. }
  rewrite Er. apply Z.leb_le in Ec. rewrite Ec.
  cbn [app]. rewrite <- app_assoc. reflexivity.
Qed.

Lemma ensure_bracketed_port x p n :
  p <> [] -> has c_colon p = false -> has c_rbr p = false ->
  ensure_port (c_lbr :: x ++ c_rbr :: c_colon :: p) n = c_lbr :: x ++ c_rbr :: c_colon :: p.
Proof.
  intros Pn Pc Pr. unfold ensure_port.
  change (has_prefix [c_lbr] (c_lbr :: x ++ c_rbr :: c_colon :: p)) with true. cbv iota.
  assert (Ei : last_index c_colon (c_lbr :: x ++ c_rbr :: c_colon :: p) = len x + 2).
  { replace (c_lbr :: x ++ c_rbr :: c_colon :: p)
      with ((c_lbr :: x ++ [c_rbr]) ++ c_colon :: p)
      by (cbn [app]; rewrite <- app_assoc; reflexivity).
    rewrite (last_index_hit _ _ _ Pc), len_cons, len_app.
    change (len [c_rbr]) with 1. lia. }
  assert (Er : last_index c_rbr (c_lbr :: x ++ c_rbr :: c_colon :: p) = len x + 1).
  { change (c_lbr :: x ++ c_rbr :: c_colon :: p) with ((c_lbr :: x) ++ c_rbr :: c_colon :: p).
    rewrite last_index_hit, len_cons; [lia|]. rewrite has_cons, Pr. reflexivity. }
  rewrite Ei, Er.
  destruct (len x + 2 <=? len x + 1) eqn:E; [apply Z.leb_le in E; lia|].
  replace (c_lbr :: x ++ c_rbr :: c_colon :: p) with ((c_lbr :: x ++ [c_rbr; c_colon]) ++ p)
    by (cbn [app]; rewrite <- app_assoc; reflexivity).
  rewrite (ends_colon_port _ p Pn Pc). reflexivity.
Qed.

(* "[v6]:" - an empty port is no port (repaired) *)
Lemma ensure_bracketed_empty_port x n :
  ensure_port (c_lbr :: x ++ [c_rbr; c_colon]) n = c_lbr :: x ++ c_rbr :: c_colon :: itoa n.
Proof.
  unfold ensure_port.
  change (has_prefix [c_lbr] (c_lbr :: x ++ [c_rbr; c_colon])) with true. cbv iota.
  assert (Ei : last_index c_colon (c_lbr :: x ++ [c_rbr; c_colon]) = len x + 2).
  { replace (c_lbr :: x ++ [c_rbr; c_colon]) with ((c_lbr :: x ++ [c_rbr]) ++ c_colon :: [])
      by (cbn [app]; rewrite <- app_assoc; reflexivity).
    rewrite last_index_hit by reflexivity. rewrite len_cons, len_app. change (len [c_rbr]) with 1. lia. }
  assert (Er : last_index c_rbr (c_lbr :: x ++ [c_rbr; c_colon]) = len x + 1).
  { change (c_lbr :: x ++ [c_rbr; c_colon]) with ((c_lbr :: x) ++ c_rbr :: [c_colon]).
    rewrite last_index_hit, len_cons; [lia|reflexivity]. }
  rewrite Ei, Er.
  destruct (len x + 2 <=? len x + 1) eqn:E; [apply Z.leb_le in E; lia|].
  replace (c_lbr :: x ++ [c_rbr; c_colon]) with ((c_lbr :: x ++ [c_rbr]) ++ [c_colon])
    by (cbn [app]; rewrite <- app_assoc; reflexivity).
  rewrite ends_colon_snoc. cbn [app]. rewrite <- !app_assoc. reflexivity.
Qed.

Lemma ensure_bare_v6 x n :
  (2 <= count c_colon x)%nat -> has c_lbr x = false ->
  ensure_port x n = c_lbr :: x ++ c_rbr :: c_colon :: itoa n.
Proof.
  intros Hc Hl. unfold ensure_port. rewrite (no_lbr_prefix _ Hl).
  destruct (count c_colon x) as [|[|k]]; [lia|lia|reflexivity].
Qed.

(* ---- T1 .. T5, for an arbitrary default port number n ---- *)
Lemma itoa_inv n :
  has c_colon (itoa n) = false /\ has c_lbr (itoa n) = false /\ has c_rbr (itoa n) = false.
Proof. pose proof (port_ok_inv _ (itoa_port_ok n)) as [_ H]. exact H. Qed.

Lemma T1 h n : name_or_v4 h = true ->
  ensure_port h n = h ++ c_colon :: itoa n /\
  split_host_port (ensure_port h n) = SplitOk h (itoa n).
Proof.
  intros H. apply name_or_v4_inv in H as (_ & Hc & Hl & Hr).
  pose proof (itoa_inv n) as (Pc & Pl & Pr).
  rewrite (ensure_no_colon h n Hc Hl). split; [reflexivity|]. apply split_plain; assumption.
Qed.

Lemma T2 h p n : name_or_v4 h = true -> port_ok p = true ->
  ensure_port (h ++ c_colon :: p) n = h ++ c_colon :: p /\
  split_host_port (ensure_port (h ++ c_colon :: p) n) = SplitOk h p.
Proof.
  intros H P. apply name_or_v4_inv in H as (_ & Hc & Hl & Hr).
  apply port_ok_inv in P as (Pn & Pc & Pl & Pr).
  rewrite (ensure_host_port h p n Hc Hl Pn Pc Pl). split; [reflexivity|]. apply split_plain; assumption.
Qed.

Lemma T3 x n : v6 x = true ->
  ensure_port (c_lbr :: x ++ [c_rbr]) n = c_lbr :: x ++ c_rbr :: c_colon :: itoa n /\
  split_host_port (ensure_port (c_lbr :: x ++ [c_rbr]) n) = SplitOk x (itoa n).
Proof.
  intros H. apply v6_inv in H as (_ & Xl & Xr).
  pose proof (itoa_inv n) as (Pc & Pl & Pr).
  rewrite ensure_bracketed. split; [reflexivity|]. apply split_bracketed; assumption.
Qed.

Lemma T4 x p n : v6 x = true -> port_ok p = true ->
  ensure_port (c_lbr :: x ++ c_rbr :: c_colon :: p) n = c_lbr :: x ++ c_rbr :: c_colon :: p /\
  split_host_port (ensure_port (c_lbr :: x ++ c_rbr :: c_colon :: p) n) = SplitOk x p.
Proof.
  intros H P. apply v6_inv in H as (_ & Xl & Xr).
  apply port_ok_inv in P as (Pn & Pc & Pl & Pr).
  rewrite (ensure_bracketed_port x p n Pn Pc Pr). split; [reflexivity|].
  apply split_bracketed; assumption.
Qed.

Lemma T5 x n : v6 x = true ->
  ensure_port x n = c_lbr :: x ++ c_rbr :: c_colon :: itoa n /\
  split_host_port (ensure_port x n) = SplitOk x (itoa n).
Proof.
  intros H. apply v6_inv in H as (Hc & Xl & Xr).
  pose proof (itoa_inv n) as (Pc & Pl & Pr).
  rewrite (ensure_bare_v6 x n Hc Xl). split; [reflexivity|]. apply split_bracketed; assumption.
Qed.

(* ---- default port: the constant read from the live code is Itoa(5222) = "5222" ---- *)
Lemma default_port_is_5222 :
  default_port = itoa 5222 /\ default_port = [53; 50; 50; 50]%N.
Proof. split; reflexivity. Qed.

(* ---- T6: transport choice (repaired rule: ws / wss in any case, then "://") ---- *)
Lemma str_eqb_eq a : forall b, str_eqb a b = true <-> a = b.
Proof.
  induction a as [|x a IH]; intros [|y b]; cbn [str_eqb]; try (split; [discriminate|intros H; discriminate]).
  - split; reflexivity.
  - rewrite andb_true_iff, N.eqb_eq, IH. split; [intros [-> ->]; reflexivity|intros H; injection H; auto].
Qed.

Lemma has_url_scheme_spec a sch :
  has_url_scheme a sch = true <-> exists u r, a = u ++ s_sep ++ r /\ map lower u = sch.
Proof.
  unfold has_url_scheme. rewrite !andb_true_iff, !str_eqb_eq, Nat.leb_le. split.
  - intros [[Hl Hu] Hs].
    exists (firstn (length sch) a), (skipn 3 (skipn (length sch) a)). split; [|exact Hu].
    rewrite <- Hs, firstn_skipn, firstn_skipn. reflexivity.
  - intros (u & r & -> & Hu).
    assert (Hn : length sch = length u) by (rewrite <- Hu, map_length; reflexivity).
    rewrite Hn, firstn_exact, skipn_exact. repeat split.
    + rewrite !app_length. cbn. lia.
    + exact Hu.
Qed.

Lemma scheme_prefixed_spec a :
  scheme_prefixed a = true <->
  exists u r, a = u ++ s_sep ++ r /\ (map lower u = sch_ws \/ map lower u = sch_wss).
Proof.
  unfold scheme_prefixed. rewrite orb_true_iff, !has_url_scheme_spec. split.
  - intros [(u & r & Ha & Hu)|(u & r & Ha & Hu)]; exists u, r; auto.
  - intros (u & r & Ha & [Hu|Hu]); [left|right]; exists u, r; auto.
Qed.

Lemma T6_scheme a :
  (exists u r, a = u ++ s_sep ++ r /\ (map lower u = sch_ws \/ map lower u = sch_wss)) ->
  client_transport a = WebSocket a /\ component_transport a = NotSupported.
Proof.
  intros H. apply scheme_prefixed_spec in H.
  unfold client_transport, component_transport. rewrite H. split; reflexivity.
Qed.

Lemma T6_other a :
  (forall u r, a = u ++ s_sep ++ r -> map lower u <> sch_ws /\ map lower u <> sch_wss) ->
  client_transport a = Tcp (ensure_port a 5222) /\
  component_transport a = Tcp (ensure_port a 5222).
Proof.
  intros H. unfold client_transport, component_transport.
  destruct (scheme_prefixed a) eqn:E; [|split; reflexivity].
  apply scheme_prefixed_spec in E as (u & r & Ha & Hu).
  destruct (H u r Ha) as [H1 H2]. destruct Hu; contradiction.
Qed.

(* which of the host forms can carry a scheme *)
Definition starts_w (x : str) : bool :=
  match x with c :: _ => N.eqb (lower c) 119 | [] => false end.

Lemma scheme_has_colon a : scheme_prefixed a = true -> has c_colon a = true.
Proof.
  intros H. apply scheme_prefixed_spec in H as (u & r & -> & _).
  rewrite has_app. cbn. apply orb_true_r.
Qed.
Lemma scheme_starts_w a : scheme_prefixed a = true -> starts_w a = true.
Proof.
  intros H. apply scheme_prefixed_spec in H as (u & r & -> & Hu).
  destruct u as [|x u]; [destruct Hu; discriminate|].
  cbn [app starts_w]. apply N.eqb_eq. cbn [map] in Hu. unfold sch_ws, sch_wss in Hu.
  destruct Hu as [Hu|Hu]; injection Hu as Hx _; exact Hx.
Qed.

Lemma not_scheme_no_colon h : has c_colon h = false -> scheme_prefixed h = false.
Proof.
  intros Hc. destruct (scheme_prefixed h) eqn:E; [|reflexivity].
  apply scheme_has_colon in E. congruence.
Qed.
Lemma not_scheme_not_w x : starts_w x = false -> scheme_prefixed x = false.
Proof.
  intros Hw. destruct (scheme_prefixed x) eqn:E; [|reflexivity].
  apply scheme_starts_w in E. congruence.
Qed.
Lemma not_scheme_bracketed s : scheme_prefixed (c_lbr :: s) = false.
Proof. apply not_scheme_not_w. reflexivity. Qed.

Lemma eqb_colon_lower x : N.eqb c_colon (lower x) = N.eqb c_colon x.
Proof.
  unfold lower, c_colon. destruct ((65 <=? x)%N && (x <=? 90)%N) eqn:E; [|reflexivity].
  apply andb_true_iff in E as [E1 E2]. apply N.leb_le in E1, E2.
  destruct (N.eqb_spec 58 (x + 32)), (N.eqb_spec 58 x); try reflexivity; lia.
Qed.
Lemma has_colon_lower u : has c_colon (map lower u) = has c_colon u.
Proof.
  induction u as [|x u IH]; [reflexivity|].
  cbn [map]. rewrite !has_cons, eqb_colon_lower, IH. reflexivity.
Qed.

Lemma first_sep_unique c a : forall a' b b',
  has c a = false -> has c a' = false -> a ++ c :: b = a' ++ c :: b' -> a = a' /\ b = b'.
Proof.
  induction a as [|x a IH]; intros [|y a'] b b' Ha Ha' E; cbn [app] in E.
  - injection E as ->. split; reflexivity.
  - injection E as <- _. rewrite has_cons, N.eqb_refl in Ha'. discriminate.
  - injection E as -> _. rewrite has_cons, N.eqb_refl in Ha. discriminate.
  - injection E as -> E. rewrite has_cons in Ha, Ha'.
    apply orb_false_iff in Ha as [_ Ha]. apply orb_false_iff in Ha' as [_ Ha'].
    destruct (IH a' b b' Ha Ha' E) as [-> ->]. split; reflexivity.
Qed.

(* host:port is a ws / wss URL only when the "port" starts with "//" *)
Lemma not_scheme_host_port h p : has c_colon h = false ->
  has_prefix [c_slash; c_slash] p = false -> scheme_prefixed (h ++ c_colon :: p) = false.
Proof.
  intros Hc Hp. destruct (scheme_prefixed (h ++ c_colon :: p)) eqn:E; [|reflexivity].
  apply scheme_prefixed_spec in E as (u & r & Ha & Hu).
  assert (Hu' : has c_colon u = false).
  { rewrite <- has_colon_lower. destruct Hu as [-> | ->]; reflexivity. }
  change (u ++ s_sep ++ r) with (u ++ c_colon :: c_slash :: c_slash :: r) in Ha.
  destruct (first_sep_unique _ _ _ _ _ Hc Hu' Ha) as [_ ->].
  cbn in Hp. discriminate.
Qed.

Lemma digits_no_slashes p : digits p = true -> has_prefix [c_slash; c_slash] p = false.
Proof.
  unfold digits. intros H. apply andb_true_iff in H as [_ H].
  destruct p as [|c p]; [reflexivity|]. cbn [forallb] in H. apply andb_true_iff in H as [Hc _].
  cbn [has_prefix]. destruct (N.eqb_spec c_slash c) as [<-|]; [discriminate|reflexivity].
Qed.
Lemma digits_port_ok p : digits p = true -> port_ok p = true.
Proof.
  unfold digits, port_ok, no_brackets. intros H. apply andb_true_iff in H as [Hn Hd].
  rewrite Hn, !(fun c Hc => digit_clean c p Hc Hd) by reflexivity. reflexivity.
Qed.

(* ---- the address both constructors dial, per host form ---- *)
(* [dials a host port]: both constructors return the TCP transport, with the same
   address, and that address is a valid host:port naming exactly host and port *)
Definition dials (a host port : str) : Prop :=
  exists a', client_transport a = Tcp a' /\ component_transport a = Tcp a' /\
             split_host_port a' = SplitOk host port.

Lemma dials_intro a host port :
  scheme_prefixed a = false ->
  split_host_port (ensure_port a 5222) = SplitOk host port -> dials a host port.
Proof.
  intros Hs Hp. exists (ensure_port a 5222).
  unfold client_transport, component_transport. rewrite Hs. repeat split. exact Hp.
Qed.

Lemma dial_T1 h : name_or_v4 h = true -> dials h h default_port.
Proof.
  intros H. apply dials_intro; [|exact (proj2 (T1 h 5222 H))].
  apply name_or_v4_inv in H as (_ & Hc & _). exact (not_scheme_no_colon h Hc).
Qed.
Lemma dial_T2 h p : name_or_v4 h = true -> port_ok p = true ->
  has_prefix [c_slash; c_slash] p = false -> dials (h ++ c_colon :: p) h p.
Proof.
  intros H P S. apply dials_intro; [|exact (proj2 (T2 h p 5222 H P))].
  apply name_or_v4_inv in H as (_ & Hc & _). exact (not_scheme_host_port h p Hc S).
Qed.
Lemma dial_T2_numeric h p : name_or_v4 h = true -> digits p = true ->
  dials (h ++ c_colon :: p) h p.
Proof.
  intros H D. exact (dial_T2 h p H (digits_port_ok p D) (digits_no_slashes p D)).
Qed.
Lemma dial_T3 x : v6 x = true -> dials (c_lbr :: x ++ [c_rbr]) x default_port.
Proof.
  intros H. apply dials_intro; [apply not_scheme_bracketed|exact (proj2 (T3 x 5222 H))].
Qed.
Lemma dial_T4 x p : v6 x = true -> port_ok p = true ->
  dials (c_lbr :: x ++ c_rbr :: c_colon :: p) x p.
Proof.
  intros H P. apply dials_intro; [apply not_scheme_bracketed|exact (proj2 (T4 x p 5222 H P))].
Qed.
Lemma dial_T5 x : v6 x = true -> starts_w x = false -> dials x x default_port.
Proof.
  intros H W. apply dials_intro; [exact (not_scheme_not_w x W)|exact (proj2 (T5 x 5222 H))].
Qed.

(* a host that is called "ws" or "wss" is a host like any other (hunter finding f1) *)
Lemma ws_named_host_dials p : digits p = true ->
  dials (sch_ws ++ c_colon :: p) sch_ws p /\ dials (sch_wss ++ c_colon :: p) sch_wss p.
Proof. intros D. split; apply dial_T2_numeric; try exact D; reflexivity. Qed.

(* ---- the certificate checker (NewChecker / extractParams), per host form ---- *)
(* [checks a host port]: the checker accepts a, takes host as the host and dials a
   valid host:port naming exactly host and port *)
Definition checks (a host port : str) : Prop :=
  exists full, checker_params a = Some (full, host) /\
               split_host_port full = SplitOk host port.

Lemma checks_intro a host port :
  split_host_port (ensure_port a 5222) = SplitOk host port -> port <> [] ->
  checks a host port.
Proof.
  intros Hs Hp. exists (ensure_port a 5222). unfold checker_params. rewrite Hs.
  destruct port as [|c port]; [contradiction|]. split; reflexivity.
Qed.

Lemma default_port_nonempty : default_port <> [].
Proof. discriminate. Qed.

Lemma check_T1 h : name_or_v4 h = true -> checks h h default_port.
Proof.
  intros H. apply checks_intro; [exact (proj2 (T1 h 5222 H))|exact default_port_nonempty].
Qed.
Lemma check_T2 h p : name_or_v4 h = true -> port_ok p = true -> checks (h ++ c_colon :: p) h p.
Proof.
  intros H P. apply checks_intro; [exact (proj2 (T2 h p 5222 H P))|].
  apply port_ok_inv in P as [P _]. exact P.
Qed.
Lemma check_T3 x : v6 x = true -> checks (c_lbr :: x ++ [c_rbr]) x default_port.
Proof.
  intros H. apply checks_intro; [exact (proj2 (T3 x 5222 H))|exact default_port_nonempty].
Qed.
Lemma check_T4 x p : v6 x = true -> port_ok p = true ->
  checks (c_lbr :: x ++ c_rbr :: c_colon :: p) x p.
Proof.
  intros H P. apply checks_intro; [exact (proj2 (T4 x p 5222 H P))|].
  apply port_ok_inv in P as [P _]. exact P.
Qed.
Lemma check_T5 x : v6 x = true -> checks x x default_port.
Proof.
  intros H. apply checks_intro; [exact (proj2 (T5 x 5222 H))|exact default_port_nonempty].
Qed.

(* ---- ensurePort applied twice (the SRV path: client.go applies it with the SRV port,
   NewClientTransport again with 5222): the second application changes nothing, for
   EVERY address and every two port numbers ---- *)
Lemma last_index_app_absent c a b : has c b = false -> last_index c (a ++ b) = last_index c a.
Proof.
  intros Hb. induction a as [|x a IH]; cbn [app last_index].
  - exact (last_index_absent c b Hb).
  - rewrite IH. reflexivity.
Qed.

Lemma no_lbr_prefix_app a t :
  has_prefix [c_lbr] a = false -> has_prefix [c_lbr] (a ++ c_colon :: t) = false.
Proof. destruct a as [|x a]; intros H; [reflexivity|exact H]. Qed.

Lemma itoa_nonempty n : itoa n <> [].
Proof. exact (proj1 (port_ok_inv _ (itoa_port_ok n))). Qed.

Lemma ends_colon_itoa a n : ends_colon (a ++ itoa n) = false.
Proof. apply ends_colon_port; [apply itoa_nonempty|exact (proj1 (itoa_inv n))]. Qed.

Lemma has_prefix_app_ne p a t : a <> [] -> has_prefix [p] (a ++ t) = has_prefix [p] a.
Proof. destruct a as [|x a]; intros H; [contradiction|reflexivity]. Qed.

Lemma ensure_port_idem a n m : ensure_port (ensure_port a n) m = ensure_port a n.
Proof.
  pose proof (itoa_inv n) as (Pc & Pl & Pr).
  assert (Ecol : forall b, ends_colon (b ++ c_colon :: itoa n) = false).
  { intros b. change (b ++ c_colon :: itoa n) with (b ++ [c_colon] ++ itoa n).
    rewrite app_assoc. apply ends_colon_itoa. }
  unfold ensure_port at 2 3.
  destruct (has_prefix [c_lbr] a) eqn:Hp.
  - assert (Hne : a <> []) by (intros ->; discriminate).
    destruct (last_index c_colon a <=? last_index c_rbr a) eqn:Ht.
    + unfold ensure_port.
      rewrite (has_prefix_app_ne c_lbr a _ Hne), Hp, (last_index_hit c_colon a (itoa n) Pc).
      rewrite last_index_app_absent by (rewrite has_cons, Pr; reflexivity).
      pose proof (last_index_bounds c_rbr a) as Hb.
      destruct (len a <=? last_index c_rbr a) eqn:E; [apply Z.leb_le in E; lia|].
      rewrite Ecol. reflexivity.
    + destruct (ends_colon a) eqn:He.
      * unfold ensure_port.
        rewrite (has_prefix_app_ne c_lbr a _ Hne), Hp.
        rewrite !last_index_app_absent by assumption. rewrite Ht, ends_colon_itoa. reflexivity.
      * unfold ensure_port. rewrite Hp, Ht, He. reflexivity.
  - destruct (count c_colon a) as [|[|k]] eqn:Hc.
    + unfold ensure_port. rewrite (no_lbr_prefix_app a (itoa n) Hp).
      rewrite count_app. cbn [count]. rewrite N.eqb_refl, Hc, (count_absent _ _ Pc). cbn [Nat.add].
      rewrite Ecol. reflexivity.
    + destruct (ends_colon a) eqn:He.
      * assert (Hne : a <> []) by (intros ->; discriminate).
        unfold ensure_port. rewrite (has_prefix_app_ne c_lbr a _ Hne), Hp.
        rewrite count_app, Hc, (count_absent _ _ Pc). cbn [Nat.add].
        rewrite ends_colon_itoa. reflexivity.
      * unfold ensure_port. rewrite Hp, Hc, He. reflexivity.
    + apply ensure_bracketed_port; [apply itoa_nonempty|assumption|assumption].
Qed.

Lemma itoa_no_slashes n : has_prefix [c_slash; c_slash] (itoa n) = false.
Proof.
  destruct (Z_lt_le_dec n 0) as [H|H].
  - unfold itoa. apply Z.ltb_lt in H. rewrite H. reflexivity.
  - apply digits_no_slashes. exact (itoa_nonneg_digits n H).
Qed.

(* what is dialled when the address was first completed with another port n (SRV) *)
Lemma dial_srv_name h n : name_or_v4 h = true -> dials (ensure_port h n) h (itoa n).
Proof.
  intros H. rewrite (proj1 (T1 h n H)).
  exact (dial_T2 h (itoa n) H (itoa_port_ok n) (itoa_no_slashes n)).
Qed.
Lemma dial_srv_bare_v6 x n : v6 x = true -> dials (ensure_port x n) x (itoa n).
Proof. intros H. rewrite (proj1 (T5 x n H)). exact (dial_T4 x (itoa n) H (itoa_port_ok n)). Qed.
Lemma dial_srv_bracketed_v6 x n :
  v6 x = true -> dials (ensure_port (c_lbr :: x ++ [c_rbr]) n) x (itoa n).
Proof. intros H. rewrite (proj1 (T3 x n H)). exact (dial_T4 x (itoa n) H (itoa_port_ok n)). Qed.

(* ---- "host:" / "[v6]:" - a separator with an EMPTY port is no port (REPAIRED, hunt2
   C20/f1): transports and certificate checker agree, all dial host:5222 ---- *)
Lemma T_empty_name h n : name_or_v4 h = true ->
  ensure_port (h ++ [c_colon]) n = h ++ c_colon :: itoa n /\
  split_host_port (ensure_port (h ++ [c_colon]) n) = SplitOk h (itoa n).
Proof.
  intros H. apply name_or_v4_inv in H as (_ & Hc & Hl & Hr).
  pose proof (itoa_inv n) as (Pc & Pl & Pr).
  rewrite (ensure_empty_port h n Hc Hl). split; [reflexivity|]. apply split_plain; assumption.
Qed.
Lemma T_empty_bracketed x n : v6 x = true ->
  ensure_port (c_lbr :: x ++ [c_rbr; c_colon]) n = c_lbr :: x ++ c_rbr :: c_colon :: itoa n /\
  split_host_port (ensure_port (c_lbr :: x ++ [c_rbr; c_colon]) n) = SplitOk x (itoa n).
Proof.
  intros H. apply v6_inv in H as (_ & Xl & Xr).
  pose proof (itoa_inv n) as (Pc & Pl & Pr).
  rewrite ensure_bracketed_empty_port. split; [reflexivity|]. apply split_bracketed; assumption.
Qed.

Lemma dial_empty_name h : name_or_v4 h = true -> dials (h ++ [c_colon]) h default_port.
Proof.
  intros H. apply dials_intro; [|exact (proj2 (T_empty_name h 5222 H))].
  apply name_or_v4_inv in H as (_ & Hc & _). apply not_scheme_host_port; [exact Hc|reflexivity].
Qed.
Lemma dial_empty_bracketed x : v6 x = true -> dials (c_lbr :: x ++ [c_rbr; c_colon]) x default_port.
Proof.
  intros H. apply dials_intro; [apply not_scheme_bracketed|exact (proj2 (T_empty_bracketed x 5222 H))].
Qed.
Lemma check_empty_name h : name_or_v4 h = true -> checks (h ++ [c_colon]) h default_port.
Proof.
  intros H. apply checks_intro; [exact (proj2 (T_empty_name h 5222 H))|exact default_port_nonempty].
Qed.
Lemma check_empty_bracketed x : v6 x = true -> checks (c_lbr :: x ++ [c_rbr; c_colon]) x default_port.
Proof.
  intros H. apply checks_intro; [exact (proj2 (T_empty_bracketed x 5222 H))|exact default_port_nonempty].
Qed.

(* ---- every Connect of one transport object dials the same, given address ---- *)
Lemma connects_const a outcomes : connects a outcomes = repeat a (length outcomes).
Proof. induction outcomes as [|o t IH]; cbn [connects connect_step length repeat]; [reflexivity|]. rewrite IH. reflexivity. Qed.

(* [dials a host port] lifted to every Connect, first or later, whatever happened before *)
Lemma redial a host port outcomes : dials a host port ->
  Forall (fun d => split_host_port d = SplitOk host port) (client_dials a outcomes) /\
  Forall (fun d => split_host_port d = SplitOk host port) (component_dials a outcomes) /\
  length (client_dials a outcomes) = length outcomes /\
  length (component_dials a outcomes) = length outcomes.
Proof.
  intros (a' & Hc & Hp & Hs). unfold client_dials, component_dials. rewrite Hc, Hp, connects_const.
  rewrite repeat_length. repeat split; apply Forall_forall; intros d Hd; apply repeat_spec in Hd; subst d; exact Hs.
Qed.
