From Coq Require Import List ZArith NArith Bool Arith Lia.
From XV Require Import Model.Recv Model.RecvHist Proofs.RecvP.
Import ListNotations.
Local Open Scope nat_scope.

Lemma ks_stop_idem n s : ks_stop n (ks_stop n s) = ks_stop n s.
Proof.
  unfold ks_stop. destruct (existsb (Nat.eqb n) (ks_closed s)) eqn:E.
  - rewrite E. reflexivity.
  - cbn. rewrite Nat.eqb_refl. reflexivity.
Qed.

Lemma fold_ks_act n tr : forall s,
  fold_left (ks_act n) tr s = if existsb is_quit tr then ks_stop n s else s.
Proof.
  induction tr as [|a r IH]; intro s; [reflexivity|].
  cbn [fold_left existsb]. rewrite IH. unfold ks_act.
  destruct (is_quit a); cbn [orb].
  - rewrite ks_stop_idem. destruct (existsb is_quit r); reflexivity.
  - reflexivity.
Qed.

Lemma crecv_has_quit items inb nw wf : existsb is_quit (crecv inb nw wf items) = true.
Proof.
  destruct (crecv_quit_position items inb nw wf) as (pre & post & E & _).
  rewrite E, existsb_app. cbn. apply orb_true_r.
Qed.

Lemma existsb_fresh n l : (forall m, In m l -> m < n) -> existsb (Nat.eqb n) l = false.
Proof.
  intro H. destruct (existsb (Nat.eqb n) l) eqn:E; [|reflexivity].
  apply existsb_exists in E. destruct E as (x & Hx & Hn). apply Nat.eqb_eq in Hn. subst x.
  apply H in Hx. lia.
Qed.

(* between two connections: no keepalive runs, every channel closed is an old one, the Client's closer is spent *)
Definition quiet (s : kstate) : Prop :=
  ks_alive s = [] /\ (forall m, In m (ks_closed s) -> m < ks_next s) /\
  (forall n, ks_cur s = Some n -> existsb (Nat.eqb n) (ks_closed s) = true).

Lemma quiet_init : quiet ks_init.
Proof. split; [reflexivity|]. split; [intros m []|intros n H; discriminate H]. Qed.

Lemma run_round_quiet s r : quiet s ->
  let o := fst (run_round s r) in let s' := snd (run_round s r) in
  quiet s' /\ ro_alive o = [] /\
  (if rd_est r then ro_chan o = Some (ks_next s) /\ ks_next s' = S (ks_next s) /\
                    In (ks_next s) (ks_closed s') /\ ~ In (ks_next s) (ks_closed s)
   else ro_chan o = None /\ s' = s).
Proof.
  intros (Ha & Hc & Hk). unfold run_round. destruct (rd_est r); cbn zeta; cbn [fst snd ro_alive ro_chan].
  - rewrite fold_ks_act, crecv_has_quit. unfold ks_stop. cbn [ks_closed ks_open].
    rewrite (existsb_fresh _ _ Hc). cbn [ks_alive ks_next ks_closed ks_cur ks_open]. rewrite Ha. cbn [filter].
    rewrite Nat.eqb_refl. cbn [negb].
    split; [|split; [reflexivity|split; [reflexivity|split; [reflexivity|split; [left; reflexivity|]]]]].
    + split; [reflexivity|]. cbn [ks_closed ks_next ks_cur]. split.
      * intros m [<-|Hm]; [lia|]. apply Hc in Hm. lia.
      * intros n E. injection E as <-. cbn. rewrite Nat.eqb_refl. reflexivity.
    + intro Hin. apply Hc in Hin. lia.
  - assert (E : match ks_cur s with Some n => ks_stop n s | None => s end = s).
    { destruct (ks_cur s) as [n|] eqn:Ec; [|reflexivity]. unfold ks_stop. rewrite (Hk n eq_refl). reflexivity. }
    rewrite E. split; [split; [exact Ha|split; assumption]|]. split; [exact Ha|]. split; reflexivity.
Qed.

Lemma run_hist_quiet rs : forall s, quiet s ->
  Forall (fun o => ro_alive o = []) (run_hist s rs) /\
  flat_map chan_list (run_hist s rs) = seq (ks_next s) (length (filter rd_est rs)).
Proof.
  induction rs as [|r rest IH]; intros s Hq; [split; [constructor|reflexivity]|].
  cbn [run_hist flat_map filter].
  destruct (run_round_quiet s r Hq) as (Hq' & Hal & Hr). cbn zeta in *.
  destruct (IH _ Hq') as (IH1 & IH2).
  split; [constructor; assumption|]. rewrite IH2. unfold chan_list at 1.
  destruct (rd_est r).
  - destruct Hr as (-> & -> & _). reflexivity.
  - destruct Hr as (-> & ->). reflexivity.
Qed.

(* every established connection closes ITS channel, which no earlier connection had closed *)
Lemma run_hist_own_quit pre : forall s, quiet s ->
  forall r post, rd_est r = true ->
  exists s0, quiet s0 /\ nth_error (run_hist s (pre ++ r :: post)) (length pre) = Some (fst (run_round s0 r)) /\
             ~ In (ks_next s0) (ks_closed s0) /\ In (ks_next s0) (ks_closed (snd (run_round s0 r))) /\
             count_act is_quit (ro_trace (fst (run_round s0 r))) = 1.
Proof.
  induction pre as [|p pre IH]; intros s Hq r post He.
  - exists s. split; [exact Hq|]. split; [reflexivity|].
    destruct (run_round_quiet s r Hq) as (_ & _ & Hr). cbn zeta in Hr. rewrite He in Hr.
    destruct Hr as (_ & _ & Hin & Hnot). split; [exact Hnot|]. split; [exact Hin|].
    unfold run_round. rewrite He. cbn [fst ro_trace].
    exact (proj1 (crecv_reported_once (rd_items r) (rd_inb r) 0 no_fault)).
  - cbn [app run_hist length nth_error].
    destruct (run_round_quiet s p Hq) as (Hq' & _). cbn zeta in Hq'.
    exact (IH _ Hq' r post He).
Qed.
