From Coq Require Import List ZArith NArith Bool Lia.
From XV Require Import Lib.Sx Model.Manager Proofs.ManagerP Model.Session Model.SessionSpec
  Proofs.SessionSpecP Model.ManagerSession.
Import ListNotations.

(* a refused TCP connection is retried *)
Lemma dial_refused_transient cfg tls p script :
  attempt_of false (connect cfg false tls p script) = ARefused /\ is_noise (EAttempt ARefused) = true.
Proof. split; reflexivity. Qed.

(* TLS policy failure is permanent *)
Lemma tls_policy_permanent cfg tls p id f rest :
  c_insecure cfg = false ->
  (f_tls f = TlsNone \/
   ((forall r, rest <> SProceed :: r) /\ is_cut rest = false) \/
   ((exists r, rest = SProceed :: r) /\ tls = false)) ->
  exists d, attempt_of true (connect cfg true tls p (SHeader id :: SFeatures f :: rest)) = AFail true d.
Proof.
  intros Hi H. unfold attempt_of, connect. cbn [negb read_header read_features]. rewrite Hi.
  destruct (f_tls f) eqn:Et; [eexists; reflexivity| |].
  all: destruct H as [H|[[H Hc]|[[r ->] ->]]]; try discriminate; try (eexists; reflexivity).
  all: destruct rest as [|[] r]; try discriminate Hc; try (eexists; reflexivity).
  all: exfalso; eapply H; reflexivity.
Qed.

Lemma refused_handshake_permanent cfg p id f r :
  c_insecure cfg = false -> f_tls f <> TlsNone ->
  exists d, attempt_of true (connect cfg true false p (SHeader id :: SFeatures f :: SProceed :: r)) = AFail true d.
Proof.
  intros Hi Ht. unfold attempt_of, connect. cbn [negb read_header read_features read_proceed]. rewrite Hi.
  destruct (f_tls f); [congruence| |]; eexists; reflexivity.
Qed.

Lemma refused_handshake_ends_retry_loop cfg p id f r sm es0 es :
  c_insecure cfg = false -> f_tls f <> TlsNone ->
  let s := m_run repaired (m_init sm) es0 in
  m_phase s = MRetry ->
  let a := attempt_of true (connect cfg true false p (SHeader id :: SFeatures f :: SProceed :: r)) in
  let s' := m_run repaired s (EAttempt a :: es) in
  m_sessions s' = m_sessions s /\ m_post s' = m_post s /\ m_recv s' = m_recv s /\
  m_conns s' = S (m_conns s) /\ m_estab s' = m_estab s /\
  (m_phase s' = MDead \/ m_phase s' = MReturned).
Proof.
  intros Hi Ht s P. cbn zeta. destruct (refused_handshake_permanent cfg p id f r Hi Ht) as [d ->].
  apply permanent_stops; [apply reachable_inv|exact P].
Qed.

(* a connection cut in the middle of the negotiation is not permanent; the Session object,
   and the resumption state with it, is gone *)
Lemma cut_in_negotiation_transient cfg tls p id f rest :
  is_cut rest = true ->
  (exists d, attempt_of true (connect cfg true tls p (SHeader id :: rest)) = AFail false d) /\
  (f_tls f <> TlsNone ->
   exists d, attempt_of true (connect cfg true tls p (SHeader id :: SFeatures f :: rest)) = AFail false d) /\
  (forall d, is_noise (EAttempt (AFail false d)) = true).
Proof.
  intros Hc. repeat split.
  - unfold attempt_of, connect. cbn [negb read_header].
    destruct rest as [|[] r]; try discriminate Hc; eexists; reflexivity.
  - intros Ht. unfold attempt_of, connect. cbn [negb read_header read_features].
    destruct (f_tls f) eqn:Et; [congruence| |].
    all: destruct rest as [|[] r]; try discriminate Hc; cbn [read_proceed]; destruct (c_insecure cfg); eexists; reflexivity.
Qed.

(* rejected credentials are permanent; the Session object stays *)
Lemma rejected_credentials_permanent cfg tls p id f rest m :
  c_insecure cfg = true -> f_tls f = TlsNone ->
  choose_mech (c_mechs cfg) (f_mechs f) = Some m -> implemented m = true ->
  exists d, attempt_of true (connect cfg true tls p (SHeader id :: SFeatures f :: SSaslFailure :: rest)) = AFail true d.
Proof.
  intros Hi Ht Hm Hp. unfold attempt_of, connect. cbn [negb read_header read_features]. rewrite Ht, Hi.
  unfold step_auth. rewrite Hm, Hp. eexists; reflexivity.
Qed.

(* ---- resumed when possible, freshly bound otherwise (the step NewSession takes after
   authentication; Model/Session.v step_resume) ---- *)
Lemma resumed_when_possible cfg c p f rest sn :
  f_sm f = true -> has_id p = true ->
  let x := step_resume cfg c p f (SResumed (p_sm_id p) :: rest) sn in
  res x = Ok /\ resumed_of (outs x) = true /\ pst x = p.
Proof.
  intros Hf Hi. cbn zeta. rewrite (resumed_continues cfg c p f rest sn Hf Hi). repeat split.
Qed.

Lemma bind_first cfg c p f s sn : exists w', reqs (outs (step_bind cfg c p f s sn)) = RBind (c_resource cfg) (p_packet_id p + 1) :: w'.
Proof.
  unfold step_bind. destruct s as [|i s']; [eexists; reflexivity|].
  destruct i; try (eexists; reflexivity). destruct t; try (eexists; reflexivity).
  destruct pl; try (eexists; reflexivity).
  destruct (step_session _ _ _ _ _ _) as [[w r] p2]. unfold outs, reqs. cbn. eexists; reflexivity.
Qed.

Lemma fresh_otherwise cfg c p f s sn :
  (* the server refuses the resumption, or there is nothing to resume, or no stream management on this stream *)
  ((f_sm f = true /\ has_id p = true /\ exists s1, s = SFailed :: s1) \/ has_id p = false \/ f_sm f = false) ->
  resumed_of (outs (step_resume cfg c p f s sn)) = false /\
  (res (step_resume cfg c p f s sn) = Ok -> existsb req_is_bind (reqs (outs (step_resume cfg c p f s sn))) = true).
Proof.
  intros H. unfold resumed_of.
  assert (B : existsb req_is_bind (reqs (outs (step_resume cfg c p f s sn))) = true).
  { destruct H as [(Hf & Hi & s1 & ->)|H].
    - destruct (refused_binds cfg c p f s1 sn Hf Hi) as [E [w' Hw]]. rewrite E.
      destruct (step_bind _ _ _ _ _ _) as [[w r] p2]. unfold outs, reqs in *. cbn in *. rewrite Hw. reflexivity.
    - unfold step_resume, has_id in *.
      assert (E : f_sm f && negb (str_eqb (p_sm_id p) []) = false).
      { destruct H as [H|H]; rewrite H; [apply andb_false_r|reflexivity]. }
      rewrite E. destruct (bind_first cfg c (if f_sm f then p else clear_sm p) f s sn) as [w' Hw].
      rewrite Hw. reflexivity. }
  rewrite B. split; [apply andb_false_r|reflexivity].
Qed.

(* the manager's rule [resumes] says the same thing about its own state *)
Lemma manager_resumes s g : resumes s g = true <-> m_sm s = true /\ m_held s = true /\ g = true.
Proof.
  unfold resumes. rewrite !andb_true_iff. tauto.
Qed.

(* ---- the connection is cut while the answer to <resume/> is awaited ---- *)
Lemma str_eqb_refl_local (a : str) : str_eqb a a = true.
Proof. induction a as [|x a IH]; [reflexivity|]. cbn. rewrite N.eqb_refl. exact IH. Qed.

(* the request has gone out, no bind request follows, the attempt fails as a transient one and the
   state is the one held before: the manager's [cut_awaiting_resume_answer] *)
Lemma cut_awaiting_answer_keeps_state cfg c p f s sn :
  f_sm f = true -> has_id p = true -> conn_lost s = true ->
  let x := step_resume cfg c p f s sn in
  reqs (outs x) = [RResume (p_sm_id p) (p_inbound p)] /\ pst x = p /\
  resume_step_attempt p x = cut_awaiting_resume_answer /\
  is_noise (EAttempt (resume_step_attempt p x)) = true.
Proof.
  intros Hf Hi Hc. unfold has_id in Hi. cbn zeta. unfold step_resume. rewrite Hf, Hi. cbn [andb].
  destruct s as [|i s']; [|destruct i; try discriminate Hc].
  all: unfold resume_step_attempt, state_lost, outs, pst, reqs; cbn;
    rewrite str_eqb_refl_local; repeat split.
Qed.

(* ... and so the attempt that follows presents the same state, and the session is the resumed
   one when the server still knows it *)
Lemma resumed_after_cut_answer cfg c p f s sn rest sn' :
  f_sm f = true -> has_id p = true -> conn_lost s = true ->
  let x := step_resume cfg c p f s sn in
  let y := step_resume cfg c (pst x) f (SResumed (p_sm_id p) :: rest) sn' in
  res y = Ok /\ resumed_of (outs y) = true /\ pst y = p /\
  reqs (outs y) = [RResume (p_sm_id p) (p_inbound p)].
Proof.
  intros Hf Hi Hc. cbn zeta.
  destruct (cut_awaiting_answer_keeps_state cfg c p f s sn Hf Hi Hc) as (_ & -> & _).
  rewrite (resumed_continues cfg c p f rest sn' Hf Hi). repeat split.
Qed.

(* the manager: a loss, any noise with such cuts in it, a successful attempt: one session, the
   resumed one when stream management is on, a state was held and the server grants it *)
Lemma cut_awaiting_answer_transparent sm held a b :
  held_after sm held (a ++ EAttempt cut_awaiting_resume_answer :: b) = held_after sm held (a ++ b).
Proof.
  rewrite !held_after_app. reflexivity.
Qed.

Lemma resumed_after_cut_round sm es0 t g :
  let s := m_run repaired (m_init sm) es0 in
  m_phase s = MUp -> is_loss t = true ->
  let s' := m_run repaired s [ETerm t; EAttempt cut_awaiting_resume_answer; EAttempt (AOk g)] in
  m_phase s' = MUp /\ m_sessions s' = S (m_sessions s) /\ m_post s' = S (m_post s) /\
  m_resumed s' = (if m_sm s && m_held s && g then S (m_resumed s) else m_resumed s).
Proof.
  intros s P Ht.
  destruct (one_session_per_loss_reach sm es0 t [EAttempt cut_awaiting_resume_answer] g P Ht eq_refl)
    as (A & _ & _ & B & C & _ & D).
  repeat split; assumption.
Qed.

(* the contrast: after a refusal the state is gone, whatever the connection does next *)
Lemma refused_then_cut_loses_state sm es0 t g :
  let s := m_run repaired (m_init sm) es0 in
  m_phase s = MUp -> is_loss t = true ->
  let s' := m_run repaired s [ETerm t; EAttempt cut_after_resume_refused; EAttempt (AOk g)] in
  m_sessions s' = S (m_sessions s) /\ m_resumed s' = m_resumed s.
Proof.
  intros s P Ht.
  destruct (one_session_per_loss_reach sm es0 t [EAttempt cut_after_resume_refused] g P Ht eq_refl)
    as (_ & _ & _ & B & _ & _ & D).
  split; [exact B|]. etransitivity; [exact D|].
  unfold cut_after_resume_refused. cbn [held_after]. rewrite andb_false_r. reflexivity.
Qed.
