From Coq Require Import List ZArith NArith Bool Lia.
From XV Require Import Lib.Sx Model.Session Model.SessionSpec Proofs.SessionP.
Import ListNotations.
Open Scope N_scope.

Lemma str_eqb_refl a : str_eqb a a = true.
Proof. induction a as [|x a IH]; [reflexivity|]. cbn. rewrite N.eqb_refl, IH. reflexivity. Qed.
Lemma str_eqb_eq a b : str_eqb a b = true <-> a = b.
Proof.
  split; [|intros ->; apply str_eqb_refl].
  revert b; induction a as [|x a IH]; intros [|y b] H; try discriminate; [reflexivity|].
  cbn in H. apply andb_true_iff in H as [H1 H2]. apply N.eqb_eq in H1. f_equal; auto.
Qed.

Ltac destr_all := repeat match goal with
  | H : exists _, _ |- _ => destruct H
  | H : _ /\ _ |- _ => destruct H
  | H : _ \/ _ |- _ => destruct H end.
Ltac absurd_case :=
  cbn; split; [discriminate | let H := fresh in intros H; destr_all; congruence].

Definition res (x : list out * result * persist) : result := snd (fst x).
Definition outs (x : list out * result * persist) : list out := fst (fst x).
Definition pst (x : list out * result * persist) : persist := snd x.

Lemma enable_ok cfg c p f s sn :
  res (step_enable cfg c p f s sn) = Ok <-> enable_completes (p_sm_enable p) f s.
Proof.
  unfold step_enable, enable_completes, res.
  destruct (f_sm f && p_sm_enable p); [|cbn; tauto].
  destruct s as [|[] s']; cbn; split; try discriminate; try reflexivity;
    try (intros (id0 & r0 & rest & H); discriminate).
  intros _. eauto.
Qed.

Lemma session_ok cfg c p f s sn :
  res (step_session cfg c p f s sn) = Ok <-> session_completes (p_sm_enable p) f s.
Proof.
  unfold step_session, session_completes.
  destruct (f_sess f); try apply enable_ok.
  destruct s as [|i s'].
  { absurd_case. }
  destruct i; try absurd_case.
  destruct t; try absurd_case.
  pose proof (enable_ok cfg c (set_bind p (p_bind_jid p) (p_packet_id p + 1)) f s' [SIq TResult pl err]) as He.
  unfold res in *. destruct (step_enable _ _ _ _ _ _) as [[w r] p2]. cbn [fst snd] in *.
  cbn [p_sm_enable set_bind] in He. rewrite He. split.
  - intros H. exists pl, err, s'. split; [reflexivity|exact H].
  - intros (pl0 & e0 & s3 & H & Hc). inversion H; subst. exact Hc.
Qed.

Lemma bind_ok cfg c p f s sn :
  res (step_bind cfg c p f s sn) = Ok <-> bind_completes (p_sm_enable p) f s.
Proof.
  unfold step_bind, bind_completes.
  destruct s as [|i s'].
  { absurd_case. }
  destruct i; try absurd_case.
  destruct t; try absurd_case.
  destruct pl; try absurd_case.
  pose proof (session_ok cfg c (set_bind p jid (p_packet_id p + 1)) f s' [SIq TResult (PlBind jid) err]) as Hs.
  unfold res in *. destruct (step_session _ _ _ _ _ _) as [[w r] p2]. cbn [fst snd] in *.
  cbn [p_sm_enable set_bind] in Hs. rewrite Hs. split.
  - intros H. exists jid, err, s'. split; [reflexivity|exact H].
  - intros (j & e0 & s2 & H & Hc). inversion H; subst. exact Hc.
Qed.

Lemma resume_ok cfg c p f s sn :
  res (step_resume cfg c p f s sn) = Ok <-> tail_completes p f s.
Proof.
  unfold step_resume, tail_completes, has_id.
  destruct (f_sm f && negb (str_eqb (p_sm_id p) [])).
  2: { destruct (f_sm f); [apply bind_ok|].
       pose proof (bind_ok cfg c (clear_sm p) f s sn) as H. cbn [p_sm_enable clear_sm] in H. exact H. }
  destruct s as [|i s'].
  { absurd_case. }
  destruct i; try absurd_case.
  - (* resumed *)
    unfold res. cbn. destruct (str_eqb previd (p_sm_id p)) eqn:E; cbn.
    + apply str_eqb_eq in E. subst. split; [intros _; left; eauto|reflexivity].
    + split; [discriminate|]. intros [(r & H)|(s1 & H & _)]; [|discriminate].
      inversion H; subst. rewrite str_eqb_refl in E. discriminate.
  - (* failed, then bind *)
    pose proof (bind_ok cfg c (clear_sm p) f s' [SFailed]) as Hb.
    unfold res in *. destruct (step_bind _ _ _ _ _ _) as [[w r] p2]. cbn [fst snd] in *.
    cbn [p_sm_enable clear_sm] in Hb. rewrite Hb. split.
    + intros H. right. exists s'. split; [reflexivity|exact H].
    + intros [(r0 & H)|(s1 & H & Hc)]; [discriminate|]. inversion H; subst. exact Hc.
Qed.

Lemma auth_ok cfg c p f s sn :
  res (step_auth cfg c p f s sn) = Ok <-> auth_completes cfg p f s.
Proof.
  unfold step_auth, auth_completes.
  destruct (choose_mech (c_mechs cfg) (f_mechs f)) as [m|].
  2: { absurd_case. }
  destruct (implemented m) eqn:Ei; cbn [negb].
  2: { cbn. split; [discriminate|]. intros (m' & H & Hi & _). inversion H; subst. congruence. }
  assert (Hbad : forall (P : Prop), (forall id f2 s3, s <> SSuccess :: SHeader id :: SFeatures f2 :: s3) ->
     (Err false false = Ok <-> P) -> True) by auto.
  destruct s as [|i s1].
  { absurd_case. }
  destruct i; try absurd_case.
  destruct s1 as [|i1 s2].
  { absurd_case. }
  destruct i1; try absurd_case.
  cbn [read_header].
  destruct s2 as [|i2 s3].
  { absurd_case. }
  destruct i2; try absurd_case.
  cbn [read_features].
  pose proof (resume_ok cfg c p f0 s3 [SHeader id; SFeatures f0]) as Hr.
  unfold res in *. destruct (step_resume _ _ _ _ _ _) as [[w r] p2]. cbn [fst snd] in *.
  rewrite Hr. split.
  - intros H. exists m. split; [reflexivity|]. split; [exact Ei|]. exists id, f0, s3. split; [reflexivity|exact H].
  - intros (m' & _ & _ & id0 & f2 & s3' & H & Hc). inversion H; subst. exact Hc.
Qed.

Lemma connect_ok cfg dial tls p s :
  res (connect cfg dial tls p s) = Ok <-> completes cfg dial tls p s.
Proof.
  unfold connect, completes.
  destruct dial; cbn [negb].
  2: { absurd_case. }
  destruct s as [|i s1].
  { absurd_case. }
  destruct i; try absurd_case.
  cbn [read_header].
  destruct s1 as [|i1 s2].
  { absurd_case. }
  destruct i1; try absurd_case.
  cbn [read_features].
  set (pa := set_flags (set_flags p false (p_tls_enabled p)) false false).
  assert (Hp : forall q, p_sm_enable q = p_sm_enable p -> p_sm_id q = p_sm_id p ->
            forall c f' s' sn, res (step_auth cfg c q f' s' sn) = Ok <-> auth_completes cfg p f' s').
  { intros q H1 H2 c f' s' sn. rewrite auth_ok. unfold auth_completes, tail_completes, has_id.
    rewrite H1, H2. tauto. }
  destruct (f_tls f) eqn:Et.
  - (* no STARTTLS offered *)
    destruct (c_insecure cfg) eqn:Ei.
    + pose proof (Hp (with_session pa) eq_refl eq_refl false f s2 [SHeader id; SFeatures f]) as Ha.
      unfold res in *. destruct (step_auth _ _ _ _ _ _) as [[w r] p2]. cbn [fst snd] in *.
      rewrite Ha. split.
      * intros H. split; [reflexivity|]. exists id, f, s2. split; [reflexivity|]. rewrite Et. auto.
      * intros (_ & id0 & f0 & s2' & H & Hc). inversion H; subst. rewrite Et in Hc. tauto.
    + cbn. split; [discriminate|]. intros (_ & id0 & f0 & s2' & H & Hc). inversion H; subst.
      rewrite Et in Hc. destruct Hc; discriminate.
  - (* offered *)
    assert (Hgen : forall X, (X = Ok <-> tls = true /\ exists id1 f1 s5,
              s2 = SProceed :: SHeader id1 :: SFeatures f1 :: s5 /\ auth_completes cfg p f1 s5) ->
            (X = Ok <-> True /\ exists id0 f0 s2', SHeader id :: SFeatures f :: s2 = SHeader id0 :: SFeatures f0 :: s2' /\
               match f_tls f0 with TlsNone => c_insecure cfg = true /\ auth_completes cfg p f0 s2'
               | _ => tls = true /\ exists id1 f1 s5, s2' = SProceed :: SHeader id1 :: SFeatures f1 :: s5 /\ auth_completes cfg p f1 s5 end)).
    { intros X HX. rewrite HX. split.
      - intros H. split; [exact I|]. exists id, f, s2. split; [reflexivity|]. rewrite Et. exact H.
      - intros (_ & id0 & f0 & s2' & H & Hc). inversion H; subst. rewrite Et in Hc. exact Hc. }
    assert (HT : (true = true /\ exists id0 f0 s2', SHeader id :: SFeatures f :: s2 = SHeader id0 :: SFeatures f0 :: s2' /\
               match f_tls f0 with TlsNone => c_insecure cfg = true /\ auth_completes cfg p f0 s2'
               | _ => tls = true /\ exists id1 f1 s5, s2' = SProceed :: SHeader id1 :: SFeatures f1 :: s5 /\ auth_completes cfg p f1 s5 end)
            <-> (True /\ exists id0 f0 s2', SHeader id :: SFeatures f :: s2 = SHeader id0 :: SFeatures f0 :: s2' /\
               match f_tls f0 with TlsNone => c_insecure cfg = true /\ auth_completes cfg p f0 s2'
               | _ => tls = true /\ exists id1 f1 s5, s2' = SProceed :: SHeader id1 :: SFeatures f1 :: s5 /\ auth_completes cfg p f1 s5 end)) by tauto.
    rewrite HT. apply Hgen. clear Hgen HT.
    destruct s2 as [|i2 s3].
    { destruct (c_insecure cfg); absurd_case. }
    destruct i2; try (destruct (c_insecure cfg); absurd_case).
    cbn [read_proceed]. destruct tls.
    2: { destruct (c_insecure cfg); absurd_case. }
    destruct s3 as [|i3 s4].
    { absurd_case. }
    destruct i3; try absurd_case.
    cbn [read_header]. destruct s4 as [|i4 s5].
    { absurd_case. }
    destruct i4; try absurd_case.
    cbn [read_features].
    pose proof (Hp (with_session (set_flags pa true true)) eq_refl eq_refl true f0 s5 [SHeader id0; SFeatures f0]) as Ha.
    unfold res in *. destruct (step_auth _ _ _ _ _ _) as [[w r] p2]. cbn [fst snd] in *.
    rewrite Ha. split.
    + intros H. split; [reflexivity|]. exists id0, f0, s5. split; [reflexivity|exact H].
    + intros (_ & a & b & c0 & H & Hc). inversion H; subst. exact Hc.
  - (* required: same as offered *)
    assert (Hgen : forall X, (X = Ok <-> tls = true /\ exists id1 f1 s5,
              s2 = SProceed :: SHeader id1 :: SFeatures f1 :: s5 /\ auth_completes cfg p f1 s5) ->
            (X = Ok <-> true = true /\ exists id0 f0 s2', SHeader id :: SFeatures f :: s2 = SHeader id0 :: SFeatures f0 :: s2' /\
               match f_tls f0 with TlsNone => c_insecure cfg = true /\ auth_completes cfg p f0 s2'
               | _ => tls = true /\ exists id1 f1 s5, s2' = SProceed :: SHeader id1 :: SFeatures f1 :: s5 /\ auth_completes cfg p f1 s5 end)).
    { intros X HX. rewrite HX. split.
      - intros H. split; [reflexivity|]. exists id, f, s2. split; [reflexivity|]. rewrite Et. exact H.
      - intros (_ & id0 & f0 & s2' & H & Hc). inversion H; subst. rewrite Et in Hc. exact Hc. }
    apply Hgen. clear Hgen.
    destruct s2 as [|i2 s3].
    { destruct (c_insecure cfg); absurd_case. }
    destruct i2; try (destruct (c_insecure cfg); absurd_case).
    cbn [read_proceed]. destruct tls.
    2: { destruct (c_insecure cfg); absurd_case. }
    destruct s3 as [|i3 s4].
    { absurd_case. }
    destruct i3; try absurd_case.
    cbn [read_header]. destruct s4 as [|i4 s5].
    { absurd_case. }
    destruct i4; try absurd_case.
    cbn [read_features].
    pose proof (Hp (with_session (set_flags pa true true)) eq_refl eq_refl true f0 s5 [SHeader id0; SFeatures f0]) as Ha.
    unfold res in *. destruct (step_auth _ _ _ _ _ _) as [[w r] p2]. cbn [fst snd] in *.
    rewrite Ha. split.
    + intros H. split; [reflexivity|]. exists id0, f0, s5. split; [reflexivity|exact H].
    + intros (_ & a & b & c0 & H & Hc). inversion H; subst. exact Hc.
Qed.

(* ---------- order of the client's requests ---------- *)
Lemma enable_shape cfg c p f s sn :
  reqs (outs (step_enable cfg c p f s sn)) = [] \/ exists b, reqs (outs (step_enable cfg c p f s sn)) = [REnable b].
Proof.
  unfold step_enable, outs. destruct (f_sm f && p_sm_enable p); [|left; reflexivity].
  right. exists (resume_wish cfg p). destruct s as [|[] s']; reflexivity.
Qed.

Lemma session_shape cfg c p f s sn : after_bind (reqs (outs (step_session cfg c p f s sn))) = true.
Proof.
  unfold step_session. destruct (f_sess f).
  1,3: destruct (enable_shape cfg c p f s sn) as [H|[b H]]; rewrite H; reflexivity.
  destruct s as [|i s']; [reflexivity|].
  destruct i; try reflexivity. destruct t; try reflexivity.
  pose proof (enable_shape cfg c (set_bind p (p_bind_jid p) (p_packet_id p + 1)) f s' [SIq TResult pl err]) as H.
  unfold outs in *. destruct (step_enable _ _ _ _ _ _) as [[w r] p2]. cbn [fst] in *.
  unfold reqs in *. rewrite map_app. cbn [map o_req o app].
  destruct H as [H|[b H]]; rewrite H; reflexivity.
Qed.

Lemma bind_shape cfg c p f s sn : from_bind (reqs (outs (step_bind cfg c p f s sn))) = true.
Proof.
  unfold step_bind. destruct s as [|i s']; [reflexivity|].
  destruct i; try reflexivity. destruct t; try reflexivity. destruct pl; try reflexivity.
  pose proof (session_shape cfg c (set_bind p jid (p_packet_id p + 1)) f s' [SIq TResult (PlBind jid) err]) as H.
  unfold outs in *. destruct (step_session _ _ _ _ _ _) as [[w r] p2]. cbn [fst] in *.
  unfold reqs in *. rewrite map_app. cbn [map o_req o app from_bind]. exact H.
Qed.

Lemma resume_shape cfg c p f s sn : ordered_tail (reqs (outs (step_resume cfg c p f s sn))) = true.
Proof.
  unfold step_resume. destruct (f_sm f && negb (str_eqb (p_sm_id p) [])).
  - destruct s as [|i s']; [reflexivity|]. destruct i; try reflexivity.
    + cbn. destruct (str_eqb previd (p_sm_id p)); reflexivity.
    + pose proof (bind_shape cfg c (clear_sm p) f s' [SFailed]) as H.
      unfold outs in *. destruct (step_bind _ _ _ _ _ _) as [[w r] p2]. cbn [fst] in *.
      unfold reqs in *. rewrite map_app. cbn [map o_req o app ordered_tail]. exact H.
  - pose proof (bind_shape cfg c (if f_sm f then p else clear_sm p) f s sn) as H.
    destruct (reqs (outs (step_bind cfg c (if f_sm f then p else clear_sm p) f s sn))) as [|[] l]; try discriminate; exact H.
Qed.

Lemma auth_shape cfg c p f s sn : ordered_auth (reqs (outs (step_auth cfg c p f s sn))) = true.
Proof.
  unfold step_auth. destruct (choose_mech _ _) as [m|]; [|reflexivity].
  destruct (negb (implemented m)); [reflexivity|].
  destruct s as [|i s1]; [reflexivity|]. destruct i; try reflexivity.
  destruct (read_header s1) as [[id s2]|]; [|reflexivity].
  destruct (read_features s2) as [[f2 s3]|]; [|reflexivity].
  pose proof (resume_shape cfg c p f2 s3 [SHeader id; SFeatures f2]) as H.
  unfold outs in *. destruct (step_resume _ _ _ _ _ _) as [[w r] p2]. cbn [fst] in *.
  unfold reqs in *. rewrite map_app. cbn [map o_req o app ordered_auth]. exact H.
Qed.

Lemma connect_ordered cfg dial tls p s : ordered (reqs (outs (connect cfg dial tls p s))) = true.
Proof.
  unfold connect. destruct (negb dial); [reflexivity|].
  destruct (read_header s) as [[id s1]|]; [|reflexivity].
  destruct (read_features s1) as [[f s2]|]; [|reflexivity].
  assert (Hauth : forall chan q ff ss sn pre,
            (pre = [ROpen] \/ pre = [ROpen; RStartTls; ROpen]) ->
            forall w r p2, step_auth cfg chan q ff ss sn = (w, r, p2) ->
            ordered (pre ++ reqs w) = true).
  { intros chan q ff ss sn pre Hpre w r p2 E. pose proof (auth_shape cfg chan q ff ss sn) as H.
    unfold outs in H. rewrite E in H. cbn [fst] in H.
    destruct Hpre as [-> | ->]; cbn [app ordered].
    - destruct (reqs w) as [|rq l]; [reflexivity|].
      destruct rq; cbn in H; try discriminate H. cbn. exact H.
    - exact H. }
  destruct (f_tls f).
  - destruct (c_insecure cfg); [|reflexivity].
    destruct (step_auth _ _ _ _ _ _) as [[w r] p2] eqn:E. unfold outs. cbn [fst].
    unfold reqs. rewrite map_app. apply (Hauth _ _ _ _ _ [ROpen] (or_introl eq_refl) _ _ _ E).
  - destruct (read_proceed s2) as [s3|]; [|destruct (c_insecure cfg); reflexivity].
    destruct tls; [|destruct (c_insecure cfg); reflexivity].
    destruct (read_header s3) as [[id1 s4]|]; [|reflexivity].
    destruct (read_features s4) as [[f1 s5]|]; [|reflexivity].
    destruct (step_auth _ _ _ _ _ _) as [[w r] p2] eqn:E. unfold outs. cbn [fst].
    unfold reqs. rewrite map_app. apply (Hauth _ _ _ _ _ [ROpen; RStartTls; ROpen] (or_intror eq_refl) _ _ _ E).
  - destruct (read_proceed s2) as [s3|]; [|destruct (c_insecure cfg); reflexivity].
    destruct tls; [|destruct (c_insecure cfg); reflexivity].
    destruct (read_header s3) as [[id1 s4]|]; [|reflexivity].
    destruct (read_features s4) as [[f1 s5]|]; [|reflexivity].
    destruct (step_auth _ _ _ _ _ _) as [[w r] p2] eqn:E. unfold outs. cbn [fst].
    unfold reqs. rewrite map_app. apply (Hauth _ _ _ _ _ [ROpen; RStartTls; ROpen] (or_intror eq_refl) _ _ _ E).
Qed.

(* ---------- stream management resumption (C11) ---------- *)
(* a <resume/> is only ever sent with the stored id (non-empty) and the stored count *)
Lemma resume_req_content cfg c p f s sn prev h :
  In (RResume prev h) (reqs (outs (step_resume cfg c p f s sn))) ->
  prev = p_sm_id p /\ h = p_inbound p /\ p_sm_id p <> [].
Proof.
  unfold step_resume. destruct (f_sm f && negb (str_eqb (p_sm_id p) [])) eqn:E.
  - apply andb_true_iff in E as [_ E]. apply negb_true_iff in E.
    assert (Hne : p_sm_id p <> []). { intros H. rewrite H in E. discriminate. }
    assert (Hb : forall q ss sn', ~ In (RResume prev h) (reqs (outs (step_bind cfg c q f ss sn')))).
    { intros q ss sn' H. pose proof (bind_shape cfg c q f ss sn') as Hs.
      destruct (reqs (outs (step_bind cfg c q f ss sn'))) as [|[] l]; try discriminate; [inversion H|].
      destruct H as [H|H]; [discriminate|].
      destruct l as [|[] l']; try discriminate; [inversion H| |].
      - destruct H as [H|H]; [discriminate|]. destruct l' as [|[] l'']; try discriminate; [inversion H|].
        destruct l''; [|discriminate]. destruct H as [H|H]; [discriminate|inversion H].
      - destruct l'; [|discriminate]. destruct H as [H|H]; [discriminate|inversion H]. }
    intros H.
    assert (Hhead : forall w, In (RResume prev h) (RResume (p_sm_id p) (p_inbound p) :: w) ->
              ~ In (RResume prev h) w -> prev = p_sm_id p /\ h = p_inbound p /\ p_sm_id p <> []).
    { intros w [Hw|Hw] Hn; [inversion Hw; auto|contradiction]. }
    destruct s as [|i s']; [apply (Hhead []); [exact H|intros []]|].
    destruct i; try (apply (Hhead []); [exact H|intros []]).
    + destruct (str_eqb previd (p_sm_id p)); apply (Hhead []); try exact H; intros [].
    + pose proof (Hb (clear_sm p) s' [SFailed]) as Hn.
      unfold outs in *. destruct (step_bind _ _ _ _ _ _) as [[w r] p2]. cbn [fst] in *.
      unfold reqs in H. rewrite map_app in H. cbn [map o_req o app] in H.
      apply (Hhead (reqs w)); assumption.
  - intros H. exfalso.
    pose proof (bind_shape cfg c (if f_sm f then p else clear_sm p) f s sn) as Hs.
    destruct (reqs (outs (step_bind cfg c (if f_sm f then p else clear_sm p) f s sn))) as [|[] l]; try discriminate; [inversion H|].
    destruct H as [H|H]; [discriminate|].
    destruct l as [|[] l']; try discriminate; [inversion H| |].
    + destruct H as [H|H]; [discriminate|]. destruct l' as [|[] l'']; try discriminate; [inversion H|].
      destruct l''; [|discriminate]. destruct H as [H|H]; [discriminate|inversion H].
    + destruct l'; [|discriminate]. destruct H as [H|H]; [discriminate|inversion H].
Qed.

Lemma auth_resume_content cfg c p f s sn prev h :
  In (RResume prev h) (reqs (outs (step_auth cfg c p f s sn))) ->
  prev = p_sm_id p /\ h = p_inbound p /\ p_sm_id p <> [].
Proof.
  unfold step_auth. destruct (choose_mech _ _) as [m|]; [|intros []].
  destruct (negb (implemented m)); [intros []|].
  assert (H1 : forall w, In (RResume prev h) (reqs ([o c (RAuth m) sn] ++ w)) -> In (RResume prev h) (reqs w)).
  { intros w [H|H]; [discriminate|exact H]. }
  destruct s as [|i s1]; try (intros H; apply (H1 []) in H; destruct H).
  destruct i; try (intros H; apply (H1 []) in H; destruct H).
  destruct (read_header s1) as [[id s2]|].
  2: { intros [H|[H|[]]]; discriminate. }
  destruct (read_features s2) as [[f2 s3]|].
  2: { intros [H|[H|[]]]; discriminate. }
  pose proof (resume_req_content cfg c p f2 s3 [SHeader id; SFeatures f2] prev h) as Hr.
  unfold outs in *. destruct (step_resume _ _ _ _ _ _) as [[w r] p2]. cbn [fst] in *.
  intros H. apply Hr. unfold reqs in *. rewrite map_app in H. apply in_app_or in H as [H|H]; [|exact H].
  destruct H as [H|[H|[]]]; discriminate.
Qed.

Lemma connect_resume_content cfg dial tls p s prev h :
  In (RResume prev h) (reqs (outs (connect cfg dial tls p s))) ->
  prev = p_sm_id p /\ h = p_inbound p /\ p_sm_id p <> [].
Proof.
  unfold connect. destruct (negb dial); [intros []|].
  destruct (read_header s) as [[id s1]|]; [|intros [H|[]]; discriminate].
  destruct (read_features s1) as [[f s2]|]; [|intros [H|[]]; discriminate].
  assert (Hlift : forall chan q ff ss sn (pre : list out),
     p_sm_id q = p_sm_id p -> p_inbound q = p_inbound p ->
     ~ In (RResume prev h) (reqs pre) ->
     forall w r p2, step_auth cfg chan q ff ss sn = (w, r, p2) ->
     In (RResume prev h) (reqs (pre ++ w)) ->
     prev = p_sm_id p /\ h = p_inbound p /\ p_sm_id p <> []).
  { intros chan q ff ss sn pre Hi Hn Hpre w r p2 E H.
    pose proof (auth_resume_content cfg chan q ff ss sn prev h) as Ha.
    unfold outs in Ha. rewrite E in Ha. cbn [fst] in Ha. rewrite Hi, Hn in Ha.
    unfold reqs in H. rewrite map_app in H. apply in_app_or in H as [H|H]; [contradiction|].
    apply Ha. exact H. }
  assert (N1 : ~ In (RResume prev h) (reqs [o false ROpen []])) by (intros [H|[]]; discriminate).
  assert (N2 : ~ In (RResume prev h) (reqs (([o false ROpen []] ++ [o false RStartTls [SHeader id; SFeatures f]]) ++ [o true ROpen [SProceed]])))
    by (intros [H|[H|[H|[]]]]; discriminate).
  assert (N3 : ~ In (RResume prev h) (reqs ([o false ROpen []] ++ [o false RStartTls [SHeader id; SFeatures f]])))
    by (intros [H|[H|[]]]; discriminate).
  destruct (f_tls f).
  - destruct (c_insecure cfg); [|intros H; contradiction].
    destruct (step_auth _ _ _ _ _ _) as [[w r] p2] eqn:E. unfold outs. cbn [fst].
    eapply Hlift; [| |exact N1|exact E]; reflexivity.
  - destruct (read_proceed s2) as [s3|]; [|destruct (c_insecure cfg); intros H; contradiction].
    destruct tls; [|destruct (c_insecure cfg); intros H; contradiction].
    destruct (read_header s3) as [[id1 s4]|]; [|intros H; contradiction].
    destruct (read_features s4) as [[f1 s5]|]; [|intros H; contradiction].
    destruct (step_auth _ _ _ _ _ _) as [[w r] p2] eqn:E. unfold outs. cbn [fst].
    eapply Hlift; [| |exact N2|exact E]; reflexivity.
  - destruct (read_proceed s2) as [s3|]; [|destruct (c_insecure cfg); intros H; contradiction].
    destruct tls; [|destruct (c_insecure cfg); intros H; contradiction].
    destruct (read_header s3) as [[id1 s4]|]; [|intros H; contradiction].
    destruct (read_features s4) as [[f1 s5]|]; [|intros H; contradiction].
    destruct (step_auth _ _ _ _ _ _) as [[w r] p2] eqn:E. unfold outs. cbn [fst].
    eapply Hlift; [| |exact N2|exact E]; reflexivity.
Qed.

(* the three outcomes of an attempted resumption *)
Lemma resumed_continues cfg c p f rest sn :
  f_sm f = true -> has_id p = true ->
  step_resume cfg c p f (SResumed (p_sm_id p) :: rest) sn
  = ([o c (RResume (p_sm_id p) (p_inbound p)) sn], Ok, p).
Proof.
  intros Hf Hi. unfold step_resume, has_id in *. rewrite Hf, Hi. cbn.
  rewrite str_eqb_refl. reflexivity.
Qed.

Lemma refused_binds cfg c p f s1 sn :
  f_sm f = true -> has_id p = true ->
  step_resume cfg c p f (SFailed :: s1) sn
  = (let '(w, r, p2) := step_bind cfg c (clear_sm p) f s1 [SFailed] in
     (o c (RResume (p_sm_id p) (p_inbound p)) sn :: w, r, p2))
  /\ exists w', reqs (outs (step_bind cfg c (clear_sm p) f s1 [SFailed]))
               = RBind (c_resource cfg) (p_packet_id p + 1) :: w'.
Proof.
  intros Hf Hi. unfold step_resume, has_id in *. rewrite Hf, Hi. cbn [andb]. split.
  - destruct (step_bind _ _ _ _ _ _) as [[w r] p2]. reflexivity.
  - unfold step_bind. cbn [clear_sm p_packet_id].
    destruct s1 as [|i s']; [eexists; reflexivity|].
    destruct i; try (eexists; reflexivity). destruct t; try (eexists; reflexivity).
    destruct pl; try (eexists; reflexivity).
    destruct (step_session _ _ _ _ _ _) as [[w r] p2]. unfold outs, reqs. cbn. eexists; reflexivity.
Qed.

(* whatever happens in a connection, the stored id afterwards is the old one, empty,
   or one the server handed out in an <enabled/> of this connection *)
Lemma enable_sm_id cfg c p f s sn :
  let q := pst (step_enable cfg c p f s sn) in
  p_sm_id q = p_sm_id p \/ p_sm_id q = [] \/ exists r, In (SEnabled (p_sm_id q) r) s.
Proof.
  unfold step_enable, pst. destruct (f_sm f && p_sm_enable p); [|left; reflexivity].
  destruct s as [|i s']; [left; reflexivity|].
  destruct i; try (left; reflexivity).
  - right; right. exists r. left. reflexivity.
  - right; left. reflexivity.
Qed.
