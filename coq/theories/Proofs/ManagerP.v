From Coq Require Import List ZArith NArith Bool Arith Lia.
From XV Require Import Lib.Sx Model.Manager.
Import ListNotations.

(* ---- the invariant of the code as it is ---- *)
(* one PostConnect and one receiver per session handed over; no session ended by the client
   itself, none created after Run returned; at most one retry loop, and exactly when the
   manager is retrying; the one running receiver reads the current connection *)
Definition inv (s : mst) : Prop :=
  m_post s = m_sessions s /\ m_recv s = m_sessions s /\ m_selfclosed s = 0 /\ m_late s = 0 /\
  m_resumed s <= m_sessions s /\ m_sessions s <= m_estab s /\ m_estab s <= m_conns s /\
  match m_phase s with
  | MIdle => m_loops s = 0 /\ m_live s = [] /\ m_sessions s = 0
  | MUp => m_loops s = 0 /\ m_live s = [m_conns s] /\ 1 <= m_sessions s
  | MRetry => m_loops s = 1 /\ m_live s = []
  | MDead | MReturned => m_loops s = 0 /\ m_live s = []
  end.

Lemma init_inv sm : inv (m_init sm).
Proof. unfold inv; cbn. repeat split; lia. Qed.

Ltac inv_tac :=
  repeat match goal with
         | |- context [if ?b then _ else _] => destruct b
         end; cbn; repeat split; try lia; try reflexivity.

Lemma step_inv s e : inv s -> inv (m_step repaired s e).
Proof.
  destruct s as [ph sm held loops conns estab sess rs post recv live fl sc late].
  unfold inv; cbn [m_phase m_sm m_held m_loops m_conns m_estab m_sessions m_resumed m_post m_recv
                   m_live m_failed m_selfclosed m_late].
  intros (H1 & H2 & H3 & H4 & H5 & H6 & H7 & Hp).
  destruct ph; decompose [and] Hp; clear Hp; subst;
    destruct e as [[|[] d|g|g]|[]| |]; cbn; unfold resumes; cbn; inv_tac.
Qed.

Lemma run_inv es : forall s, inv s -> inv (m_run repaired s es).
Proof.
  induction es as [|e es IH]; intros s H; [exact H|]. cbn. apply IH. apply step_inv. exact H.
Qed.

Lemma reachable_inv sm es : inv (m_run repaired (m_init sm) es).
Proof. apply run_inv, init_inv. Qed.

(* ---- between a loss and the successful attempt ---- *)
Lemma noise_step s e :
  inv s -> m_phase s = MRetry -> is_noise e = true ->
  let s' := m_step repaired s e in
  m_phase s' = MRetry /\ m_sessions s' = m_sessions s /\ m_post s' = m_post s /\ m_recv s' = m_recv s /\
  m_resumed s' = m_resumed s /\ m_sm s' = m_sm s /\ m_held s' = held_after (m_sm s) (m_held s) [e].
Proof.
  destruct s as [ph sm held loops conns estab sess rs post recv live fl sc late].
  unfold inv; cbn [m_phase m_sm m_held m_loops m_conns m_estab m_sessions m_resumed m_post m_recv
                   m_live m_failed m_selfclosed m_late].
  intros (H1 & H2 & H3 & H4 & H5 & H6 & H7 & Hp) P Hn. subst ph. destruct Hp as [-> ->].
  destruct e as [[|[] d|g|g]|[]| |]; try discriminate Hn; cbn; repeat split; destruct d; reflexivity.
Qed.

Lemma held_after_app sm h a b : held_after sm h (a ++ b) = held_after sm (held_after sm h a) b.
Proof.
  revert h; induction a as [|e a IH]; intros h; [reflexivity|].
  destruct e as [[|p d|g|g]|t| |]; cbn; try apply IH. destruct d; apply IH.
Qed.

Lemma noise_keeps noise : forall s,
  inv s -> m_phase s = MRetry -> forallb is_noise noise = true ->
  let s' := m_run repaired s noise in
  inv s' /\ m_phase s' = MRetry /\ m_sessions s' = m_sessions s /\ m_post s' = m_post s /\
  m_recv s' = m_recv s /\ m_resumed s' = m_resumed s /\ m_sm s' = m_sm s /\
  m_held s' = held_after (m_sm s) (m_held s) noise.
Proof.
  induction noise as [|e noise IH]; intros s I P Hn; cbn zeta.
  - cbn. split; [exact I|]. split; [exact P|]. repeat split; reflexivity.
  - cbn [forallb] in Hn. apply andb_true_iff in Hn as [He Hn].
    destruct (noise_step s e I P He) as (A1 & A2 & A3 & A4 & A5 & A6 & A7).
    specialize (IH (m_step repaired s e) (step_inv s e I) A1 Hn). cbn zeta in IH.
    destruct IH as (B0 & B1 & B2 & B3 & B4 & B5 & B6 & B7).
    cbn [m_run fold_left]. unfold m_run in *.
    split; [exact B0|]. split; [exact B1|]. repeat split; try congruence.
    rewrite B7, A6, A7. change (e :: noise) with ([e] ++ noise). rewrite held_after_app. reflexivity.
Qed.

(* each loss of an established session: exactly one new session once an attempt succeeds,
   whatever failed attempts, failing hooks, leftover readers and old receivers come in between *)
Lemma one_session_per_loss s t noise g :
  inv s -> m_phase s = MUp -> is_loss t = true -> forallb is_noise noise = true ->
  let s' := m_run repaired s (ETerm t :: noise ++ [EAttempt (AOk g)]) in
  inv s' /\ m_phase s' = MUp /\ m_loops s' = 0 /\ m_live s' = [m_conns s'] /\
  m_sessions s' = S (m_sessions s) /\ m_post s' = S (m_post s) /\ m_recv s' = S (m_recv s) /\
  m_resumed s' = (if m_sm s && held_after (m_sm s) (m_held s) noise && g
                  then S (m_resumed s) else m_resumed s).
Proof.
  intros I P Ht Hn. cbn zeta.
  assert (I1 := step_inv s (ETerm t) I).
  assert (P1 : m_phase (m_step repaired s (ETerm t)) = MRetry).
  { destruct t; try discriminate Ht; cbn; rewrite P; reflexivity. }
  assert (K : m_sessions (m_step repaired s (ETerm t)) = m_sessions s /\
              m_post (m_step repaired s (ETerm t)) = m_post s /\
              m_recv (m_step repaired s (ETerm t)) = m_recv s /\
              m_resumed (m_step repaired s (ETerm t)) = m_resumed s /\
              m_sm (m_step repaired s (ETerm t)) = m_sm s /\
              m_held (m_step repaired s (ETerm t)) = m_held s).
  { destruct t; try discriminate Ht; cbn; rewrite P; cbn; repeat split; reflexivity. }
  destruct K as (K1 & K2 & K3 & K4 & K5 & K6).
  unfold m_run. cbn [fold_left]. rewrite fold_left_app.
  destruct (noise_keeps noise _ I1 P1 Hn) as (J0 & J1 & J2 & J3 & J4 & J5 & J6 & J7).
  unfold m_run in *. set (q := fold_left (m_step repaired) noise (m_step repaired s (ETerm t))) in *.
  cbn [fold_left].
  assert (I2 := step_inv q (EAttempt (AOk g)) J0).
  split; [exact I2|].
  destruct q as [ph sm held loops conns estab sess rs post recv live fl sc late].
  unfold inv in J0; cbn [m_phase m_sm m_held m_loops m_conns m_estab m_sessions m_resumed m_post m_recv
                   m_live m_failed m_selfclosed m_late] in *.
  destruct J0 as (_ & _ & _ & _ & _ & _ & _ & Hp). subst ph. destruct Hp as [-> ->].
  cbn. unfold resumes. cbn. rewrite J2, J3, J4, J5, J6, J7, K1, K2, K3, K4, K5, K6.
  repeat split; reflexivity.
Qed.

(* ---- repeated k times ---- *)
Lemma rounds_from rounds : forall s,
  inv s -> m_phase s = MUp -> forallb round_ok rounds = true ->
  let s' := m_run repaired s (flat_map round_events rounds) in
  inv s' /\ m_phase s' = MUp /\ m_sessions s' = m_sessions s + length rounds /\
  m_post s' = m_post s + length rounds /\ m_recv s' = m_recv s + length rounds.
Proof.
  induction rounds as [|[[t noise] g] rounds IH]; intros s I P H; cbn zeta.
  - cbn. split; [exact I|]. split; [exact P|]. repeat split; lia.
  - cbn [forallb round_ok] in H. apply andb_true_iff in H as [H1 H].
    apply andb_true_iff in H1 as [Ht Hn].
    cbn [flat_map round_events]. unfold m_run. rewrite fold_left_app.
    destruct (one_session_per_loss s t noise g I P Ht Hn) as (A0 & A1 & _ & _ & A2 & A3 & A4 & _).
    unfold m_run in A0, A1, A2, A3, A4.
    set (q := fold_left (m_step repaired) (ETerm t :: noise ++ [EAttempt (AOk g)]) s) in *.
    destruct (IH q A0 A1 H) as (B0 & B1 & B2 & B3 & B4). unfold m_run in *.
    split; [exact B0|]. split; [exact B1|]. cbn [length]. repeat split; lia.
Qed.

Lemma k_rounds sm g0 rounds :
  forallb round_ok rounds = true ->
  let s := m_run repaired (m_init sm) (EAttempt (AOk g0) :: flat_map round_events rounds) in
  m_phase s = MUp /\ m_sessions s = S (length rounds) /\ m_post s = S (length rounds) /\
  m_recv s = S (length rounds) /\ m_live s = [m_conns s] /\ m_loops s = 0 /\ m_selfclosed s = 0.
Proof.
  intros H. cbn zeta. unfold m_run. cbn [fold_left].
  assert (I0 : inv (m_step repaired (m_init sm) (EAttempt (AOk g0)))) by (apply step_inv, init_inv).
  destruct (rounds_from rounds _ I0 eq_refl H) as (B0 & B1 & B2 & B3 & B4). unfold m_run in *.
  set (q := fold_left _ _ _) in *. cbn in B2, B3, B4.
  unfold inv in B0. rewrite B1 in B0. destruct B0 as (_ & _ & C3 & _ & _ & _ & _ & C8 & C9 & _).
  repeat split; try assumption.
Qed.

(* ---- Stop ---- *)
Lemma stop_returns v s : m_phase (m_step v s (ETerm TStop)) = MReturned.
Proof. reflexivity. Qed.

(* nobody dials, nobody listens for losses: nothing changes but Run's return *)
Definition quiet (s : mst) : Prop :=
  (m_phase s = MDead \/ m_phase s = MReturned) /\ m_loops s = 0.

Lemma quiet_step s e : quiet s ->
  quiet (m_step repaired s e) /\ m_sessions (m_step repaired s e) = m_sessions s /\
  m_post (m_step repaired s e) = m_post s /\ m_recv (m_step repaired s e) = m_recv s /\
  m_conns (m_step repaired s e) = m_conns s /\ m_estab (m_step repaired s e) = m_estab s /\
  (m_phase s = MReturned -> m_phase (m_step repaired s e) = MReturned).
Proof.
  destruct s as [ph sm held loops conns estab sess rs post recv live fl sc late]. unfold quiet.
  cbn [m_phase m_loops]. intros [[-> | ->] ->];
    destruct e as [[|[] d|g|g]|[]| |]; cbn; repeat split; auto; try discriminate.
Qed.

Lemma quiet_run es : forall s, quiet s ->
  let s' := m_run repaired s es in
  quiet s' /\ m_sessions s' = m_sessions s /\ m_post s' = m_post s /\ m_recv s' = m_recv s /\
  m_conns s' = m_conns s /\ m_estab s' = m_estab s /\ (m_phase s = MReturned -> m_phase s' = MReturned).
Proof.
  induction es as [|e es IH]; intros s Q; cbn zeta; [cbn; split; [exact Q|]; repeat split; auto|].
  destruct (quiet_step s e Q) as (Q1 & A1 & A2 & A3 & A4 & A5 & A6).
  destruct (IH _ Q1) as (Q2 & B1 & B2 & B3 & B4 & B5 & B6). cbn [m_run fold_left]. unfold m_run in *.
  split; [exact Q2|]. repeat split; try congruence. intros P. apply B6, A6, P.
Qed.

(* Stop is final, in every phase: Run has returned and no connection is made, no session
   created, no callback run afterwards, whatever the network and the server do *)
Lemma stop_is_final s es :
  let s0 := m_step repaired s (ETerm TStop) in
  let s' := m_run repaired s0 es in
  m_phase s' = MReturned /\ m_sessions s' = m_sessions s /\ m_post s' = m_post s /\
  m_recv s' = m_recv s /\ m_conns s' = m_conns s /\ m_estab s' = m_estab s.
Proof.
  cbn zeta.
  assert (Q : quiet (m_step repaired s (ETerm TStop))) by (split; [right|]; reflexivity).
  destruct (quiet_run es _ Q) as (_ & B1 & B2 & B3 & B4 & B5 & B6).
  repeat split; try assumption. apply B6. reflexivity.
Qed.

(* ---- a permanent error ends the retry loop ---- *)
Lemma permanent_stops s d es :
  inv s -> m_phase s = MRetry ->
  let s' := m_run repaired s (EAttempt (AFail true d) :: es) in
  m_sessions s' = m_sessions s /\ m_post s' = m_post s /\ m_recv s' = m_recv s /\
  m_conns s' = S (m_conns s) /\ m_estab s' = m_estab s /\
  (m_phase s' = MDead \/ m_phase s' = MReturned).
Proof.
  intros I P. cbn zeta. cbn [m_run fold_left].
  assert (Q : quiet (m_step repaired s (EAttempt (AFail true d))) /\
              m_sessions (m_step repaired s (EAttempt (AFail true d))) = m_sessions s /\
              m_post (m_step repaired s (EAttempt (AFail true d))) = m_post s /\
              m_recv (m_step repaired s (EAttempt (AFail true d))) = m_recv s /\
              m_conns (m_step repaired s (EAttempt (AFail true d))) = S (m_conns s) /\
              m_estab (m_step repaired s (EAttempt (AFail true d))) = m_estab s).
  { destruct s as [ph sm held loops conns estab sess rs post recv live fl sc late].
    unfold inv in I; cbn [m_phase m_loops m_live] in *. subst ph.
    destruct I as (_ & _ & _ & _ & _ & _ & _ & -> & ->). unfold quiet. cbn. repeat split; auto. }
  destruct Q as (Q & A1 & A2 & A3 & A4 & A5).
  destruct (quiet_run es _ Q) as (Q2 & B1 & B2 & B3 & B4 & B5 & _). unfold m_run in *.
  repeat split; try congruence. apply Q2.
Qed.

(* ---- the same statements are false for the code as it was ---- *)
Definition with_stale : mcode :=
  {| v_stale_reports := true; v_old_recv_acts := false; v_hook_fail_starts := false;
     v_stop_leaves_loop := false; v_resume_no_recv := false |}.
Definition with_old_recv : mcode :=
  {| v_stale_reports := false; v_old_recv_acts := true; v_hook_fail_starts := false;
     v_stop_leaves_loop := false; v_resume_no_recv := false |}.
Definition with_hook_start : mcode :=
  {| v_stale_reports := false; v_old_recv_acts := false; v_hook_fail_starts := true;
     v_stop_leaves_loop := false; v_resume_no_recv := false |}.
Definition with_stop_leak : mcode :=
  {| v_stale_reports := false; v_old_recv_acts := false; v_hook_fail_starts := false;
     v_stop_leaves_loop := true; v_resume_no_recv := false |}.
Definition with_no_recv : mcode :=
  {| v_stale_reports := false; v_old_recv_acts := false; v_hook_fail_starts := false;
     v_stop_leaves_loop := false; v_resume_no_recv := true |}.

(* D17: one loss, one failed attempt whose reader reports: two loops, two sessions for the loss *)
Lemma stale_reader_refuted :
  let s := m_run with_stale (m_init false)
             [EAttempt (AOk false); ETerm TDrop; EAttempt (AFail false false); EStaleReader;
              EAttempt (AOk false); EAttempt (AOk false)] in
  m_sessions s = 3 /\ m_post s = 3 /\ length (m_live s) = 2.
Proof. repeat split; reflexivity. Qed.

(* hunt-C13/f1: the old receiver ends the session the manager has just made *)
Lemma old_receiver_refuted :
  let s := m_run with_old_recv (m_init false)
             [EAttempt (AOk false); ETerm TStreamError; EAttempt (AOk false); EOldReceiver;
              EAttempt (AOk false); EAttempt (AOk false)] in
  m_selfclosed s = 1 /\ m_sessions s = 4 /\ m_loops (m_run with_old_recv (m_init false)
             [EAttempt (AOk false); ETerm TStreamError; EAttempt (AOk false); EOldReceiver]) = 2.
Proof. repeat split; reflexivity. Qed.

(* hunt-C18: a receiver without a session *)
Lemma hook_start_refuted :
  let s := m_run with_hook_start (m_init false)
             [EAttempt (AOk false); ETerm TDrop; EAttempt (AHookFail false); EAttempt (AOk false)] in
  m_recv s = 3 /\ m_sessions s = 2 /\ length (m_live s) = 2.
Proof. repeat split; reflexivity. Qed.

(* audit A1/c1: a session, and its PostConnect, after Run has returned *)
Lemma stop_leak_refuted :
  let s := m_run with_stop_leak (m_init false)
             [EAttempt (AOk false); ETerm TDrop; EAttempt ARefused; ETerm TStop; EAttempt (AOk false)] in
  m_phase s = MReturned /\ m_late s = 1 /\ m_sessions s = 2 /\ m_post s = 2.
Proof. repeat split; reflexivity. Qed.

(* D11: no receiver on the new session: its loss is noticed by nobody, no further session *)
Lemma no_receiver_refuted :
  let s := m_run with_no_recv (m_init false)
             [EAttempt (AOk false); ETerm TDrop; EAttempt (AOk false); ETerm TDrop; EAttempt (AOk false)] in
  m_recv s = 1 /\ m_sessions s = 2 /\ m_loops s = 0 /\ m_phase s = MRetry.
Proof. repeat split; reflexivity. Qed.

(* ---- the same, for every state the code as it is can reach ---- *)
Lemma reach_counts sm es :
  let s := m_run repaired (m_init sm) es in
  m_post s = m_sessions s /\ m_recv s = m_sessions s /\ m_selfclosed s = 0 /\ m_late s = 0 /\
  m_resumed s <= m_sessions s /\ m_sessions s <= m_estab s /\ m_estab s <= m_conns s.
Proof.
  cbn zeta. destruct (reachable_inv sm es) as (H1 & H2 & H3 & H4 & H5 & H6 & H7 & _). repeat split; assumption.
Qed.

Lemma reach_one_loop sm es :
  let s := m_run repaired (m_init sm) es in
  m_loops s <= 1 /\ (m_loops s = 1 <-> m_phase s = MRetry).
Proof.
  cbn zeta. destruct (reachable_inv sm es) as (_ & _ & _ & _ & _ & _ & _ & Hp).
  destruct (m_phase _); decompose [and] Hp; split; try lia; split; intros; try discriminate; try lia; auto.
Qed.

Lemma reach_live sm es :
  let s := m_run repaired (m_init sm) es in
  m_live s = match m_phase s with MUp => [m_conns s] | _ => [] end.
Proof.
  cbn zeta. destruct (reachable_inv sm es) as (_ & _ & _ & _ & _ & _ & _ & Hp).
  destruct (m_phase _); decompose [and] Hp; assumption.
Qed.

Lemma one_session_per_loss_reach sm es0 t noise g :
  let s := m_run repaired (m_init sm) es0 in
  m_phase s = MUp -> is_loss t = true -> forallb is_noise noise = true ->
  let s' := m_run repaired s (ETerm t :: noise ++ [EAttempt (AOk g)]) in
  m_phase s' = MUp /\ m_loops s' = 0 /\ m_live s' = [m_conns s'] /\
  m_sessions s' = S (m_sessions s) /\ m_post s' = S (m_post s) /\ m_recv s' = S (m_recv s) /\
  m_resumed s' = (if m_sm s && held_after (m_sm s) (m_held s) noise && g
                  then S (m_resumed s) else m_resumed s).
Proof.
  intros s P Ht Hn. apply (one_session_per_loss s t noise g (reachable_inv sm es0) P Ht Hn).
Qed.

Lemma permanent_stops_reach sm es0 d es :
  let s := m_run repaired (m_init sm) es0 in
  m_phase s = MRetry ->
  let s' := m_run repaired s (EAttempt (AFail true d) :: es) in
  m_sessions s' = m_sessions s /\ m_post s' = m_post s /\ m_recv s' = m_recv s /\
  m_conns s' = S (m_conns s) /\ m_estab s' = m_estab s /\
  (m_phase s' = MDead \/ m_phase s' = MReturned).
Proof. intros s P. apply permanent_stops; [apply reachable_inv|exact P]. Qed.

(* a cut inside the TLS handshake is retried, a failure of the authentication after which
   the server hangs up ends the loop: from the same reachable retrying state *)
Lemma handshake_cut_retried_hangup_final sm es0 es :
  let s := m_run repaired (m_init sm) es0 in
  m_phase s = MRetry ->
  (let s1 := m_step repaired s (EAttempt handshake_cut) in
   m_phase s1 = MRetry /\ m_loops s1 = 1 /\ m_sessions s1 = m_sessions s /\ is_noise (EAttempt handshake_cut) = true) /\
  (let s2 := m_run repaired s (EAttempt rejected_then_hung_up :: es) in
   m_sessions s2 = m_sessions s /\ m_post s2 = m_post s /\ m_conns s2 = S (m_conns s) /\
   (m_phase s2 = MDead \/ m_phase s2 = MReturned)).
Proof.
  intros s P. split.
  - destruct (noise_step s (EAttempt handshake_cut) (reachable_inv sm es0) P eq_refl) as (A1 & A2 & _).
    cbn zeta. repeat split; try assumption.
    destruct (reach_one_loop sm (es0 ++ [EAttempt handshake_cut])) as [_ H].
    unfold m_run in H. rewrite fold_left_app in H. cbn [fold_left] in H. apply H. exact A1.
  - destruct (permanent_stops_reach sm es0 false es P) as (B1 & B2 & _ & B4 & _ & B6).
    cbn zeta. repeat split; assumption.
Qed.
