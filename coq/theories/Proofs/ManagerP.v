From Coq Require Import List ZArith NArith Bool Lia.
From XV Require Import Lib.Sx Model.Manager.
Import ListNotations.

(* counters move together: one PostConnect and one receiver per session *)
Definition m_inv (s : mst) : Prop :=
  m_post s = m_sessions s /\ m_recv s = m_sessions s /\ m_resumed s <= m_sessions s /\
  (m_phase s = MUp -> m_sessions s >= 1).

Lemma step_inv s e : m_inv s -> m_inv (m_step s e).
Proof.
  intros (H1 & H2 & H3 & H4). unfold m_step.
  destruct (m_phase s) eqn:P; destruct e as [[| | |r]|[| | |]]; cbn; unfold m_inv; cbn;
    repeat split; try lia; try (intros; discriminate); try (destruct r; lia); try (intros; lia);
    try (rewrite P; intros; discriminate); try (rewrite P; auto).
Qed.

Lemma run_inv es : forall s, m_inv s -> m_inv (m_run s es).
Proof.
  induction es as [|e es IH]; intros s H; [exact H|]. cbn. apply IH. apply step_inv. exact H.
Qed.

Lemma init_inv : m_inv m_init.
Proof. unfold m_inv; cbn. repeat split; try lia. intros; discriminate. Qed.

(* failed attempts keep the loop retrying without creating anything *)
Lemma retry_fails s fails :
  m_phase s = MRetry -> forallb is_fail fails = true ->
  let s' := m_run s (map EAttempt fails) in
  m_phase s' = MRetry /\ m_sessions s' = m_sessions s /\ m_post s' = m_post s /\
  m_recv s' = m_recv s /\ m_resumed s' = m_resumed s /\ m_failed s' = m_failed s + length fails.
Proof.
  revert s; induction fails as [|a fails IH]; intros s P Hf; cbn zeta.
  - cbn. repeat split; try assumption; lia.
  - cbn [forallb] in Hf. apply andb_true_iff in Hf as [Ha Hf].
    cbn [map m_run fold_left]. assert (E : m_step s (EAttempt a) = failed s).
    { unfold m_step. rewrite P. destruct a; try discriminate; reflexivity. }
    rewrite E. specialize (IH (failed s) P Hf). cbn zeta in IH. unfold m_run in *.
    destruct IH as (I1 & I2 & I3 & I4 & I5 & I6). cbn [failed m_sessions m_post m_recv m_resumed m_failed] in *.
    repeat split; try assumption. cbn [length]. lia.
Qed.

(* each loss of an established session: exactly one new session once an attempt succeeds *)
Lemma one_session_per_loss s t fails r :
  m_phase s = MUp -> is_loss t = true -> forallb is_fail fails = true ->
  let s' := m_run s (ETerm t :: map EAttempt fails ++ [EAttempt (AOk r)]) in
  m_phase s' = MUp /\ m_sessions s' = S (m_sessions s) /\ m_post s' = S (m_post s) /\
  m_recv s' = S (m_recv s) /\ m_resumed s' = (if r then S (m_resumed s) else m_resumed s).
Proof.
  intros P Ht Hf. cbn zeta.
  assert (E1 : m_step s (ETerm t) = phase s MRetry).
  { unfold m_step. rewrite P. destruct t; try discriminate; reflexivity. }
  unfold m_run. cbn [fold_left]. rewrite E1. rewrite fold_left_app.
  pose proof (retry_fails (phase s MRetry) fails eq_refl Hf) as H. cbn zeta in H. unfold m_run in H.
  destruct H as (I1 & I2 & I3 & I4 & I5 & I6).
  cbn [fold_left]. set (q := fold_left m_step (map EAttempt fails) (phase s MRetry)) in *.
  unfold m_step. rewrite I1. cbn [up m_phase m_sessions m_post m_recv m_resumed].
  cbn [phase m_sessions m_post m_recv m_resumed] in *.
  rewrite I2, I3, I4, I5. repeat split; reflexivity.
Qed.

(* a permanent error ends the retry loop: no further session whatever happens next,
   until Stop makes Run return *)
Lemma dead_stays es : forall s, m_phase s = MDead \/ m_phase s = MReturned ->
  m_sessions (m_run s es) = m_sessions s /\ m_post (m_run s es) = m_post s /\
  (m_phase (m_run s es) = MDead \/ m_phase (m_run s es) = MReturned).
Proof.
  induction es as [|e es IH]; intros s P; [cbn; auto|].
  cbn [m_run fold_left]. 
  assert (H : (m_phase (m_step s e) = MDead \/ m_phase (m_step s e) = MReturned) /\
              m_sessions (m_step s e) = m_sessions s /\ m_post (m_step s e) = m_post s).
  { unfold m_step. destruct P as [P|P]; rewrite P; destruct e as [[| | |r]|[| | |]]; cbn; rewrite ?P; auto. }
  destruct H as (Hp & Hs & Hq). specialize (IH _ Hp). unfold m_run in IH.
  destruct IH as (I1 & I2 & I3). rewrite I1, I2, Hs, Hq. auto.
Qed.

Lemma permanent_stops s es :
  m_phase s = MRetry ->
  let s' := m_run s (EAttempt AFailPermanent :: es) in
  m_sessions s' = m_sessions s /\ m_post s' = m_post s /\ (m_phase s' = MDead \/ m_phase s' = MReturned).
Proof.
  intros P. cbn zeta. cbn [m_run fold_left].
  assert (E : m_step s (EAttempt AFailPermanent) = phase s MDead) by (unfold m_step; rewrite P; reflexivity).
  rewrite E. apply (dead_stays es (phase s MDead)). left. reflexivity.
Qed.

Lemma stop_returns s :
  m_phase s = MUp \/ m_phase s = MDead -> m_phase (m_step s (ETerm TStop)) = MReturned.
Proof. intros [P|P]; unfold m_step; rewrite P; reflexivity. Qed.
