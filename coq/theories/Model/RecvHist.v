(* Histories of connections of ONE Client object (Connect, then Resume/Connect again): what belongs to a
   connection but is reached through the Client - the keepalive quit channel and its once-only closer
   (client.go: newKeepaliveQuit, keepaliveStopper, Disconnect).  Channels are numbered in the order in which
   they are made.  Every connection that is established makes a NEW channel with a closer of its OWN
   (a sync.Once per channel), starts a keepalive goroutine on it and a receiver that is handed that very
   channel; the receiver's stopKeepalive() (AQuit in Model/Recv.v) closes it.  An attempt that fails during
   the negotiation starts neither; its Disconnect() calls the closer the Client remembers (that of the last
   established connection).  Executable definitions only. *)
From Coq Require Import List ZArith NArith Bool Arith.
From XV Require Import Model.Recv.
Import ListNotations.
Local Open Scope nat_scope.

Record kstate := {
  ks_next : nat;            (* channels made so far *)
  ks_cur : option nat;      (* c.keepaliveQuit / c.keepaliveStop: the channel the Client's closer closes *)
  ks_closed : list nat;     (* channels closed *)
  ks_alive : list nat }.    (* keepalive goroutines running, by the channel each selects on *)
Definition ks_init : kstate := {| ks_next := 0; ks_cur := None; ks_closed := []; ks_alive := [] |}.

(* newKeepaliveQuit + go keepalive(transport, interval, quit) *)
Definition ks_open (s : kstate) : kstate :=
  {| ks_next := S (ks_next s); ks_cur := Some (ks_next s); ks_closed := ks_closed s;
     ks_alive := ks_next s :: ks_alive s |}.
(* the closer of channel n: once.Do(close(n)); the keepalive selecting on n returns *)
Definition ks_stop (n : nat) (s : kstate) : kstate :=
  if existsb (Nat.eqb n) (ks_closed s) then s
  else {| ks_next := ks_next s; ks_cur := ks_cur s; ks_closed := n :: ks_closed s;
          ks_alive := filter (fun m => negb (Nat.eqb n m)) (ks_alive s) |}.
(* the receiver serving channel n performs action a *)
Definition ks_act (n : nat) (s : kstate) (a : action) : kstate := if is_quit a then ks_stop n s else s.

Record round := {
  rd_est : bool;            (* the negotiation completed (otherwise the connection was cut during it) *)
  rd_inb : N;               (* inbound count the session starts with *)
  rd_items : list item }.   (* what was completely received before the cut *)
Record round_out := {
  ro_chan : option nat;     (* the quit channel made for this connection *)
  ro_trace : list action;   (* what its receiver did *)
  ro_alive : list nat }.    (* keepalive goroutines still running when the receiver has returned *)

Definition run_round (s : kstate) (r : round) : round_out * kstate :=
  if rd_est r then
    let s1 := ks_open s in
    let tr := crecv (rd_inb r) 0 no_fault (rd_items r) in
    let s2 := fold_left (ks_act (ks_next s)) tr s1 in
    ({| ro_chan := Some (ks_next s); ro_trace := tr; ro_alive := ks_alive s2 |}, s2)
  else
    let s1 := match ks_cur s with Some n => ks_stop n s | None => s end in
    ({| ro_chan := None; ro_trace := []; ro_alive := ks_alive s1 |}, s1).

Fixpoint run_hist (s : kstate) (rs : list round) : list round_out :=
  match rs with
  | [] => []
  | r :: rest => fst (run_round s r) :: run_hist (snd (run_round s r)) rest
  end.

Definition chan_list (o : round_out) : list nat := match ro_chan o with Some n => [n] | None => [] end.
