(* Element trees and how Go's xml.Encoder writes them, for the constructs the
   library uses (C01).  Code points, not bytes.

   Observed on encoding/xml (go1.23) through xml.Marshal / Encoder.EncodeToken:
   - every element is written with an explicit end tag, never <x/>;
   - an element whose name has a non-empty Space gets  xmlns="Space"  as its first
     attribute, also when the parent has the same namespace; no prefixes are used
     for element names; an empty Space prints nothing (EncodeToken never writes
     xmlns="");
   - attributes follow in order as  name="value", one blank before each, value
     escaped with the newline-escaping table;
   - character data: string fields written by the reflection encoder use the
     newline-escaping table; xml.CharData given to EncodeToken keeps LF raw.
     A text node therefore carries the lexical style it is written in:
     [XT raw s] with [raw = true] for "LF left raw".  The two styles coincide on
     text without LF, so the codec uses [raw = true] only when the text contains
     an LF (see Codec.text_raw); the lexer recovers the flag from the bytes.

   Attribute names are un-prefixed local names; the namespace declaration is not
   an attribute of the tree but the [ns] of the element. *)
From Coq Require Import List NArith Bool.
From XV Require Import Lib.Sx Model.XmlText.
Import ListNotations.
Open Scope N_scope.

Inductive xtree : Type :=
| XE (ns : str) (local : str) (attrs : list (str * str)) (kids : list xtree)
| XT (raw : bool) (s : str).

(* tokens as the encoder emits them; [TS] attributes are the written ones,
   i.e. with the namespace declaration in front *)
Inductive tok : Type :=
| TS (local : str) (attrs : list (str * str))
| TE (local : str)
| TX (raw : bool) (s : str).

Definition xmlns_s : str := [120;109;108;110;115].      (* xmlns *)

Definition raw_attrs (ns : str) (attrs : list (str * str)) : list (str * str) :=
  match ns with [] => attrs | _ => (xmlns_s, ns) :: attrs end.

Fixpoint toks (t : xtree) : list tok :=
  match t with
  | XT raw s => [TX raw s]
  | XE ns local attrs kids =>
      TS local (raw_attrs ns attrs)
      :: (fix go (ks : list xtree) : list tok :=
            match ks with [] => [] | k :: ks' => toks k ++ go ks' end) kids
      ++ [TE local]
  end.

Definition toks_list (ks : list xtree) : list tok := flat_map toks ks.

(*  name="value" preceded by one blank *)
Definition print_attr (kv : str * str) : str :=
  32 :: fst kv ++ [61; 34] ++ escape true (snd kv) ++ [34].

Definition print_tok (t : tok) : str :=
  match t with
  | TS local attrs => 60 :: local ++ flat_map print_attr attrs ++ [62]
  | TE local => 60 :: 47 :: local ++ [62]
  | TX raw s => escape (negb raw) s
  end.

Definition print_toks (ts : list tok) : str := flat_map print_tok ts.

(* what xml.Marshal writes for the tree *)
Definition print (t : xtree) : str := print_toks (toks t).

(* ---- skeleton: element names, nesting and attribute names; no text ---- *)
Inductive skel : Type :=
| SK (ns : str) (local : str) (attr_names : list str) (kids : list skel).

Fixpoint skeleton (t : xtree) : list skel :=
  match t with
  | XT _ _ => []
  | XE ns local attrs kids =>
      [SK ns local (map fst attrs)
          ((fix go (ks : list xtree) : list skel :=
              match ks with [] => [] | k :: ks' => skeleton k ++ go ks' end) kids)]
  end.
