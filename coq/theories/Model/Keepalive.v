(* Model of the keep-alive goroutine: keepalive(transport, interval, quit) in
   client.go, and of XMPPTransport.Ping in xmpp_transport.go.

     ticker := time.NewTicker(interval)          (panics when interval <= 0)
     for { select {
       case <-ticker.C: if err := transport.Ping(); err != nil {
                           ticker.Stop(); _ = transport.Close(); return }
       case <-quit:     ticker.Stop(); return } }

   The loop is a state machine driven by a SCHEDULE: the list of what the
   successive executions of the select statement observed (Go picks among the
   ready cases at random, so the schedule is an input, never computed).  The
   outcome of the k-th Ping (1-based) is given by an oracle [fail].  A second,
   lower level describes the environment (ticker fires into a one-slot channel,
   quit gets closed, the select runs with a random bit) and resolves it into
   such a schedule.  Strings are bytes.  Executable definitions only. *)
From Coq Require Import List ZArith NArith Bool.
From XV Require Import Lib.Sx.
Import ListNotations.

(* what one execution of the select observed *)
Inductive sel :=
| STick      (* ticker.C was ready and was chosen *)
| SQuit.     (* the closed quit channel was chosen *)

(* what the goroutine does, in program order *)
Inductive act :=
| APingOk        (* transport.Ping() returned nil *)
| APingFail      (* transport.Ping() returned an error *)
| AClose         (* transport.Close() *)
| ATickerStop    (* ticker.Stop() *)
| AReturn        (* the goroutine returned *)
| APanic.        (* time.NewTicker panicked: non-positive interval *)

Inductive kstate :=
| Running (np : nat)   (* in the loop; np Pings made so far *)
| Stopped.             (* returned *)

(* one execution of the select and of the chosen branch *)
Definition ka_step (fail : nat -> bool) (st : kstate) (s : sel) : kstate * list act :=
  match st with
  | Stopped => (Stopped, [])
  | Running np =>
      match s with
      | STick =>
          if fail (S np)
          then (Stopped, [APingFail; ATickerStop; AClose; AReturn])
          else (Running (S np), [APingOk])
      | SQuit => (Stopped, [ATickerStop; AReturn])
      end
  end.

Fixpoint ka_run (fail : nat -> bool) (st : kstate) (sched : list sel) : kstate * list act :=
  match sched with
  | [] => (st, [])
  | s :: rest =>
      let '(st1, a1) := ka_step fail st s in
      let '(st2, a2) := ka_run fail st1 rest in
      (st2, a1 ++ a2)
  end.

Definition ka_state (fail : nat -> bool) (sched : list sel) : kstate :=
  fst (ka_run fail (Running 0) sched).
Definition ka_trace (fail : nat -> bool) (sched : list sel) : list act :=
  snd (ka_run fail (Running 0) sched).

(* the whole function, including the constructor of the ticker *)
Definition keepalive (interval : Z) (fail : nat -> bool) (sched : list sel) : list act :=
  if (interval <=? 0)%Z then [APanic] else ka_trace fail sched.

(* ---- declarative side ---- *)
Definition is_ping (a : act) : bool :=
  match a with APingOk | APingFail => true | _ => false end.
Definition is_pingfail (a : act) : bool := match a with APingFail => true | _ => false end.
Definition is_close (a : act) : bool := match a with AClose => true | _ => false end.
Definition is_return (a : act) : bool := match a with AReturn => true | _ => false end.
Definition is_tick (s : sel) : bool := match s with STick => true | SQuit => false end.
Definition is_quit (s : sel) : bool := match s with SQuit => true | STick => false end.
Definition count {A} (p : A -> bool) (l : list A) : nat := length (filter p l).

(* the steps of the schedule the loop actually takes: up to and including the
   first step that ends it (quit observed, or the tick whose ping fails) *)
Fixpoint taken (fail : nat -> bool) (np : nat) (sched : list sel) : list sel :=
  match sched with
  | [] => []
  | SQuit :: _ => [SQuit]
  | STick :: rest => if fail (S np) then [STick] else STick :: taken fail (S np) rest
  end.

(* the actions that follow the first AReturn *)
Fixpoint after_return (tr : list act) : list act :=
  match tr with
  | [] => []
  | AReturn :: rest => rest
  | _ :: rest => after_return rest
  end.

(* ---- XMPPTransport.Ping: n, err := conn.Write([]byte("\n")) ---- *)
Inductive wres :=
| WOk (n : Z)     (* Write returned (n, nil) *)
| WErr (n : Z).   (* Write returned (n, err), err != nil *)

Definition ping_data : str := [10%N].

(* the bytes handed to conn.Write, and whether Ping returned nil *)
Definition xmpp_ping (r : wres) : str * bool :=
  (ping_data,
   match r with
   | WErr _ => false
   | WOk n => (n =? 1)%Z      (* n != 1 => "could not write ping" *)
   end).

(* what the property calls a whitespace keep-alive: a non-empty run of XML white space
   (space, tab, CR, LF).  The code writes "\n"; the correspondence compares this CLASS,
   not the byte, so that another whitespace payload is not reported as a difference. *)
Definition xml_ws (c : N) : bool :=
  N.eqb c 32 || N.eqb c 9 || N.eqb c 13 || N.eqb c 10.
Definition is_keepalive_payload (d : str) : bool :=
  match d with [] => false | _ => forallb xml_ws d end.

(* keepalive on the TCP transport: the k-th Write result decides the k-th Ping *)
Definition tcp_fail (wr : nat -> wres) (k : nat) : bool := negb (snd (xmpp_ping (wr k))).
(* everything the loop hands to conn.Write, concatenated *)
Definition wire (tr : list act) : str :=
  flat_map (fun a => if is_ping a then ping_data else []) tr.

(* ---- XMPPTransport.Close: write the closing tag (result ignored), wait for the peer's
   closing tag or ConnectTimeout, then close the connection in every case ---- *)
Inductive cact :=
| CWrite (data : str)    (* conn.Write / readWriter.Write *)
| CConnClose.            (* conn.Close() *)

(* "</stream:stream>" *)
Definition stream_close_data : str :=
  [60; 47; 115; 116; 114; 101; 97; 109; 58; 115; 116; 114; 101; 97; 109; 62]%N.

Definition xmpp_close (r : wres) : list cact := [CWrite stream_close_data; CConnClose].

(* what the loop does to the connection underneath the TCP transport; [cr] is the result
   of the closing tag's write *)
Definition conn_trace (cr : wres) (tr : list act) : list cact :=
  flat_map (fun a => match a with
                     | APingOk | APingFail => [CWrite (fst (xmpp_ping (WOk 1)))]
                     | AClose => xmpp_close cr
                     | _ => []
                     end) tr.
Definition is_connclose (c : cact) : bool := match c with CConnClose => true | _ => false end.

(* ---- environment level: where schedules come from ----
   ticker.C has one slot (a fire while a tick is pending is dropped); quit is
   closed at most once; a select with nothing ready blocks (no step), with one
   case ready takes it; with both ready the runtime picks one at random (the bit), but the
   tick branch polls quit before pinging and returns if it is closed, so either way the
   loop observes quit: [STick] in a schedule means "tick taken AND quit still open". *)
Inductive ev :=
| EFire                     (* the ticker fires *)
| ECloseQuit                (* the receive loop closes quit *)
| ESelect (pick_tick : bool).

Fixpoint resolve (pending closed : bool) (evs : list ev) : list sel :=
  match evs with
  | [] => []
  | EFire :: r => resolve true closed r
  | ECloseQuit :: r => resolve pending true r
  | ESelect b :: r =>
      match pending, closed with
      | false, false => resolve false false r
      | true, false => STick :: resolve false false r
      | false, true => SQuit :: resolve false true r
      | true, true => SQuit :: resolve true true r   (* whichever case the runtime picks: on a tick
                                                       the loop first polls quit, the end wins *)
      end
  end.

Definition count_fire (evs : list ev) : nat :=
  length (filter (fun e => match e with EFire => true | _ => false end) evs).

(* ---- the transport object outlives its connections ----
   Client.Connect / Client.Resume re-use the same Transport: XMPPTransport.Connect replaces
   t.conn.  Close waits (up to ConnectTimeout) between writing the closing tag and closing the
   connection: it closes the connection it was ENTERED with, whatever t.conn is by then. *)
Definition xmpp_close_target (conn_at_entry conn_after_wait : N) : N := conn_at_entry.

(* one attempt of Client.Resume on that object *)
Inductive attempt :=
| AttOk             (* session established, PostResumeHook (if any) returned nil *)
| AttConnectFails   (* connect() returned an error *)
| AttHookFails.     (* session established but PostResumeHook returned an error: Resume returns it *)

(* keep-alive (and receive) loops started by the attempt: none when Resume reports failure *)
Definition loops_started (a : attempt) : nat := match a with AttOk => 1 | _ => 0 end.
(* a failed attempt does not leave a session open behind it *)
Definition attempt_leaves_session (a : attempt) : bool := match a with AttOk => true | _ => false end.
Fixpoint loops_of (h : list attempt) : nat :=
  match h with [] => 0 | a :: r => loops_started a + loops_of r end.
Definition is_att_ok (a : attempt) : bool := match a with AttOk => true | _ => false end.

(* NewClient: every non-positive KeepaliveInterval is replaced by the default (microseconds) *)
Definition default_interval : Z := 30000000%Z.
Definition client_interval (cfg : Z) : Z := if (cfg <=? 0)%Z then default_interval else cfg.

(* ---- how the receive loop (Client.recv) ends a session, as far as the keep-alive is concerned ----
   In every case it closes quit FIRST, before any application callback runs: the event handler and the
   error callback are called synchronously and may take arbitrarily long (a StreamManager's handler
   only returns once a new session is up). *)
Inductive ending :=
| EndReadError      (* NextPacket fails: connection lost, or an element it rejects *)
| EndAnswerFails    (* the answer to an acknowledgement request cannot be written *)
| EndStreamClose    (* the server's closing tag *)
| EndStreamError.   (* a stream error from the server (RFC 6120 4.9.1.1: the stream is over) *)

Inductive ract :=
| RQuit               (* close(keepaliveQuit) *)
| RRoute              (* the stream error handed to the router, synchronously *)
| RStreamErrorEvent   (* event handler, StateStreamError *)
| RErrCall            (* ErrorHandler *)
| RDisconnectedEvent  (* event handler, StateDisconnected *)
| RDisconnectCall.    (* c.Disconnect(), then the loop reads on until the connection is gone *)

Definition recv_ending (e : ending) : list ract :=
  match e with
  | EndReadError | EndAnswerFails => [RQuit; RErrCall; RDisconnectedEvent]
  | EndStreamClose => [RQuit; RDisconnectedEvent]
  | EndStreamError => [RQuit; RRoute; RStreamErrorEvent; RErrCall; RDisconnectCall]
  end.
Definition is_callback (a : ract) : bool :=
  match a with RStreamErrorEvent | RErrCall | RDisconnectedEvent | RRoute => true | _ => false end.
