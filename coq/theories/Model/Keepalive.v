(* Model of the keep-alive goroutine: keepalive(transport, interval, quit) in
   client.go, and of XMPPTransport.Ping in xmpp_transport.go.

     ticker := time.NewTicker(interval)          (panics when interval <= 0)
     for { select {
       case <-ticker.C: if err := transport.Ping(); err != nil {
                           ticker.Stop(); _ = transport.Close(); return }
       case <-quit:     ticker.Stop(); return } }

   The loop is a state machine driven by a SCHEDULE: the list of what the
   successive executions of the select statement observed (Go picks among the
   ready cases at random, so the schedule is an input, never computed).  The
   outcome of the k-th Ping (1-based) is given by an oracle [fail].  A second,
   lower level describes the environment (ticker fires into a one-slot channel,
   quit gets closed, the select runs with a random bit) and resolves it into
   such a schedule.  Strings are bytes.  Executable definitions only. *)
From Coq Require Import List ZArith NArith Bool.
From XV Require Import Lib.Sx.
Import ListNotations.

(* what one iteration of the loop observed.  The tick branch is four separate steps in the code:
   receive from ticker.C; poll quit without blocking (closed: return); transport.Ping(); and, when
   the ping failed, a second look at quit (closed: return WITHOUT Close - the session ended while
   the ping was under way, the transport may already belong to the next connection).  The receiver
   can close quit between any two of them. *)
Inductive sel :=
| STick      (* tick taken, quit open at the poll, the ping ran, quit still open afterwards *)
| STickLate  (* tick taken, quit open at the poll, the ping ran, quit CLOSED by the time the loop
                looked again: the one ping that can follow the end of the session *)
| SQuit.     (* quit observed: by the select, or by the poll that follows a tick *)

(* what the goroutine does, in program order *)
Inductive act :=
| APingOk        (* transport.Ping() returned nil *)
| APingFail      (* transport.Ping() returned an error *)
| AClose         (* transport.Close() *)
| ATickerStop    (* ticker.Stop() *)
| AReturn        (* the goroutine returned *)
| APanic.        (* time.NewTicker panicked: non-positive interval *)

Inductive kstate :=
| Running (np : nat)   (* in the loop; np Pings made so far *)
| Stopped.             (* returned *)

(* one execution of the select and of the chosen branch *)
Definition ka_step (fail : nat -> bool) (st : kstate) (s : sel) : kstate * list act :=
  match st with
  | Stopped => (Stopped, [])
  | Running np =>
      match s with
      | STick =>
          if fail (S np)
          then (Stopped, [APingFail; ATickerStop; AClose; AReturn])
          else (Running (S np), [APingOk])
      | STickLate =>
          if fail (S np)
          then (Stopped, [APingFail; ATickerStop; AReturn])   (* no Close: the session is already over *)
          else (Running (S np), [APingOk])
      | SQuit => (Stopped, [ATickerStop; AReturn])
      end
  end.

Fixpoint ka_run (fail : nat -> bool) (st : kstate) (sched : list sel) : kstate * list act :=
  match sched with
  | [] => (st, [])
  | s :: rest =>
      let '(st1, a1) := ka_step fail st s in
      let '(st2, a2) := ka_run fail st1 rest in
      (st2, a1 ++ a2)
  end.

Definition ka_state (fail : nat -> bool) (sched : list sel) : kstate :=
  fst (ka_run fail (Running 0) sched).
Definition ka_trace (fail : nat -> bool) (sched : list sel) : list act :=
  snd (ka_run fail (Running 0) sched).

(* the whole function, including the constructor of the ticker *)
Definition keepalive (interval : Z) (fail : nat -> bool) (sched : list sel) : list act :=
  if (interval <=? 0)%Z then [APanic] else ka_trace fail sched.

(* ---- declarative side ---- *)
Definition is_ping (a : act) : bool :=
  match a with APingOk | APingFail => true | _ => false end.
Definition is_pingfail (a : act) : bool := match a with APingFail => true | _ => false end.
Definition is_close (a : act) : bool := match a with AClose => true | _ => false end.
Definition is_return (a : act) : bool := match a with AReturn => true | _ => false end.
Definition is_tick (s : sel) : bool := match s with STick | STickLate => true | SQuit => false end.
Definition is_quit (s : sel) : bool := match s with SQuit => true | _ => false end.
Definition is_late (s : sel) : bool := match s with STickLate => true | _ => false end.
Definition is_plain_tick (s : sel) : bool := match s with STick => true | _ => false end.
Definition count {A} (p : A -> bool) (l : list A) : nat := length (filter p l).

(* the steps of the schedule the loop actually takes: up to and including the
   first step that ends it (quit observed, or the tick whose ping fails) *)
Fixpoint taken (fail : nat -> bool) (np : nat) (sched : list sel) : list sel :=
  match sched with
  | [] => []
  | SQuit :: _ => [SQuit]
  | STick :: rest => if fail (S np) then [STick] else STick :: taken fail (S np) rest
  | STickLate :: rest => if fail (S np) then [STickLate] else STickLate :: taken fail (S np) rest
  end.

(* the actions that follow the first AReturn *)
Fixpoint after_return (tr : list act) : list act :=
  match tr with
  | [] => []
  | AReturn :: rest => rest
  | _ :: rest => after_return rest
  end.

(* ---- XMPPTransport.Ping: n, err := conn.Write([]byte("\n")) ---- *)
Inductive wres :=
| WOk (n : Z)     (* Write returned (n, nil) *)
| WErr (n : Z).   (* Write returned (n, err), err != nil *)

Definition ping_data : str := [10%N].

(* the bytes handed to conn.Write, and whether Ping returned nil *)
Definition xmpp_ping (r : wres) : str * bool :=
  (ping_data,
   match r with
   | WErr _ => false
   | WOk n => (n =? 1)%Z      (* n != 1 => "could not write ping" *)
   end).

(* what the property calls a whitespace keep-alive: a non-empty run of XML white space
   (space, tab, CR, LF).  The code writes "\n"; the correspondence compares this CLASS,
   not the byte, so that another whitespace payload is not reported as a difference. *)
Definition xml_ws (c : N) : bool :=
  N.eqb c 32 || N.eqb c 9 || N.eqb c 13 || N.eqb c 10.
Definition is_keepalive_payload (d : str) : bool :=
  match d with [] => false | _ => forallb xml_ws d end.

(* keepalive on the TCP transport: the k-th Write result decides the k-th Ping *)
Definition tcp_fail (wr : nat -> wres) (k : nat) : bool := negb (snd (xmpp_ping (wr k))).
(* everything the loop hands to conn.Write, concatenated *)
Definition wire (tr : list act) : str :=
  flat_map (fun a => if is_ping a then ping_data else []) tr.

(* ---- XMPPTransport.Close: write the closing tag (result ignored), wait for the peer's
   closing tag or ConnectTimeout, then close the connection in every case ---- *)
Inductive cact :=
| CWrite (data : str)    (* conn.Write / readWriter.Write *)
| CConnClose.            (* conn.Close() *)

(* "</stream:stream>" *)
Definition stream_close_data : str :=
  [60; 47; 115; 116; 114; 101; 97; 109; 58; 115; 116; 114; 101; 97; 109; 62]%N.

(* the result of the closing tag's write is not looked at (`_, _ = readWriter.Write(...)`) *)
Definition xmpp_close : list cact := [CWrite stream_close_data; CConnClose].

(* what the loop does to the connection underneath the TCP transport *)
Definition conn_trace (tr : list act) : list cact :=
  flat_map (fun a => match a with
                     | APingOk | APingFail => [CWrite (fst (xmpp_ping (WOk 1)))]
                     | AClose => xmpp_close
                     | _ => []
                     end) tr.
Definition is_connclose (c : cact) : bool := match c with CConnClose => true | _ => false end.

(* ---- environment level: where schedules come from ----
   ticker.C has one slot (a fire while a tick is pending is dropped); quit is closed at most once, at
   ANY point between two steps of the loop.  The loop's own steps: ESelect (blocks with nothing ready,
   takes the only ready case, the random bit decides when both are), then after a tick EPoll (quit
   closed: return), EPing, ERecheck (emits the iteration: late iff quit is closed by now). *)
Inductive ev :=
| EFire                     (* the ticker fires *)
| ECloseQuit                (* the receive loop closes quit *)
| ESelect (pick_tick : bool)
| EPoll                     (* the non-blocking look at quit after a tick *)
| EPing                     (* transport.Ping() *)
| ERecheck.                 (* back in the loop after the ping (the second look at quit when it failed) *)

Inductive phase :=
| PIdle     (* at the select *)
| PTicked   (* received from ticker.C, quit not yet polled *)
| PPolled   (* the poll saw quit open: about to ping *)
| PPinged.  (* the ping has run *)

Fixpoint resolve (ph : phase) (pending closed : bool) (evs : list ev) : list sel :=
  match evs with
  | [] => []
  | EFire :: r => resolve ph true closed r
  | ECloseQuit :: r => resolve ph pending true r
  | ESelect b :: r =>
      match ph with
      | PIdle =>
          match pending, closed with
          | false, false => resolve PIdle false false r
          | true, false => resolve PTicked false false r
          | false, true => SQuit :: resolve PIdle false true r
          | true, true => if b then resolve PTicked false true r else SQuit :: resolve PIdle true true r
          end
      | _ => resolve ph pending closed r
      end
  | EPoll :: r =>
      match ph with
      | PTicked => if closed then SQuit :: resolve PIdle pending closed r else resolve PPolled pending closed r
      | _ => resolve ph pending closed r
      end
  | EPing :: r =>
      match ph with
      | PPolled => resolve PPinged pending closed r
      | _ => resolve ph pending closed r
      end
  | ERecheck :: r =>
      match ph with
      | PPinged => (if closed then STickLate else STick) :: resolve PIdle pending closed r
      | _ => resolve ph pending closed r
      end
  end.

Definition count_fire (evs : list ev) : nat :=
  length (filter (fun e => match e with EFire => true | _ => false end) evs).
(* the loop is past the poll: one ping is (or may be) under way *)
Definition past_poll (ph : phase) : bool := match ph with PPolled | PPinged => true | _ => false end.
(* a tick has been received and not yet turned into an iteration *)
Definition in_tick (ph : phase) : bool := match ph with PIdle => false | _ => true end.
(* one full iteration with nothing in between *)
Definition round (b : bool) : list ev := [EFire; ESelect b; EPoll; EPing; ERecheck].

(* ---- the transport object outlives its connections ----
   Client.Connect / Client.Resume re-use the same Transport: XMPPTransport.Connect replaces t.conn.
   Close captures t.conn (and readWriter, closeChan) when it is entered and acts on that connection,
   also after its wait of up to ConnectTimeout. *)

(* Ping and Close read t.conn when they are ENTERED; XMPPTransport.Connect replaces it, by nil when the
   dial fails.  A run of one loop interleaved with the dials of the client it belongs to: *)
Inductive tev :=
| TAct (a : act)             (* an action of the loop *)
| TDial (c : option N).      (* XMPPTransport.Connect: the transport now holds connection c (None: dial failed) *)
Inductive cact2 :=
| CW (c : N) (d : str)       (* written on connection c *)
| CC (c : N)                 (* connection c closed *)
| CNoConn.                   (* Ping without a connection: "no connection", nothing written *)
Fixpoint conn_run (cur : option N) (l : list tev) : list cact2 :=
  match l with
  | [] => []
  | TDial c :: r => conn_run c r
  | TAct a :: r =>
      (match a, cur with
       | (APingOk | APingFail), Some c => [CW c ping_data]
       | (APingOk | APingFail), None => [CNoConn]
       | AClose, Some c => [CW c stream_close_data; CC c]
       | _, _ => []
       end) ++ conn_run cur r
  end.
Definition touches (c : N) (x : cact2) : bool :=
  match x with CW c' _ | CC c' => N.eqb c c' | CNoConn => false end.
Definition closes_conn (x : cact2) : bool := match x with CC _ => true | _ => false end.
Definition is_dial (e : tev) : bool := match e with TDial _ => true | _ => false end.
Definition act_of (e : tev) : list act := match e with TAct a => [a] | _ => [] end.

(* one attempt of Client.Connect or Client.Resume on that object *)
Inductive attempt :=
| AttOk             (* session established, the post-connection hook (if any) returned nil *)
| AttConnectFails   (* connect() returned an error: no session *)
| AttHookFails.     (* session established but PostConnectHook / PostResumeHook returned an error,
                       which Connect / Resume returns *)

(* what the attempt does, step by step: is a session established; is it closed again by the attempt
   itself; how many keep-alive (and receive) loops are started *)
(* the client's connection state (EventManager.CurrentState) once the attempt has returned *)
Inductive cstate :=
| CsEstablished    (* StateSessionEstablished, published by connect() *)
| CsDisconnected   (* StateDisconnected *)
| CsAsBefore.      (* what it was before the attempt / what the failing connect() left *)
Record outcome := { o_session : bool; o_closed : bool; o_loops : nat; o_state : cstate }.
Definition run_attempt (a : attempt) : outcome :=
  match a with
  | AttOk => {| o_session := true; o_closed := false; o_loops := 1; o_state := CsEstablished |}
  | AttConnectFails => {| o_session := false; o_closed := false; o_loops := 0; o_state := CsAsBefore |}
  | AttHookFails =>   (* closeUnattendedSession: the session is closed and the state it had published taken back;
                         no event: the attempt is reported by the error Connect / Resume returns *)
      {| o_session := true; o_closed := true; o_loops := 0; o_state := CsDisconnected |}
  end.
Definition loops_started (a : attempt) : nat := o_loops (run_attempt a).
(* a session is left up behind the attempt *)
Definition attempt_leaves_session (a : attempt) : bool :=
  o_session (run_attempt a) && negb (o_closed (run_attempt a)).
Fixpoint loops_of (h : list attempt) : nat :=
  match h with [] => 0 | a :: r => loops_started a + loops_of r end.
Definition is_att_ok (a : attempt) : bool := match a with AttOk => true | _ => false end.

(* NewClient: every non-positive KeepaliveInterval is replaced by the default (microseconds) *)
Definition default_interval : Z := 30000000%Z.
Definition client_interval (cfg : Z) : Z := if (cfg <=? 0)%Z then default_interval else cfg.


(* ---- how the session of a real client ends in the correspondence runs, and what its receive loop
   reports then (error callbacks, Disconnected events); the receive loop itself is Model/Recv.v ---- *)
Inductive session_end :=
| SeNone              (* no receive loop: the harness owns quit *)
| SeReadFails         (* the read fails (connection reset, or closed under the blocked read) *)
| SeStreamClose       (* the server's closing tag *)
| SeStreamError       (* a stream error, Disconnect, then the read fails *)
| SeHandedOver.       (* a stream error whose handler reconnected: the loop returns, no Disconnected event *)
Definition session_report (e : session_end) : nat * nat :=
  match e with
  | SeNone => (0, 0)
  | SeReadFails => (1, 1)
  | SeStreamClose => (0, 1)
  | SeStreamError => (2, 1)
  | SeHandedOver => (1, 0)
  end.

(* ---- Client.Disconnect (also StreamManager.Stop): the end of the session the application asks for ----
   The keep-alive of the current connection is stopped FIRST (the quit channel has one closer, shared by the
   receive loop and Disconnect: whoever comes first); then the transport is closed: closing tag, wait for the
   peer's (up to ConnectTimeout), connection closed. *)
Inductive dstep :=
| DStopKeepalive     (* closes quit: ECloseQuit for the loop *)
| DWriteCloseTag
| DWaitPeer
| DCloseConn.
Definition client_disconnect : list dstep := [DStopKeepalive; DWriteCloseTag; DWaitPeer; DCloseConn].
(* the loop's environment from the moment Disconnect is called: quit is closed before anything else happens *)
Definition disconnect_events (rest : list ev) : list ev := ECloseQuit :: rest.

(* ---- the quit channels of the successive connections of ONE client ----
   Client.newKeepaliveQuit (called by Connect and by Resume once the session is established) makes a fresh
   quit channel TOGETHER WITH a fresh once-guard for its close, and stores the pair in the client
   (keepaliveQuit / keepaliveStop) in place of the previous connection's.  keepaliveStop - called by
   Disconnect and by the receiver of that connection, whoever comes first, possibly both - closes the channel
   of the pair the client holds, once.  State: the channels made so far, newest first; true = closed. *)
Inductive cop :=
| OpNew     (* newKeepaliveQuit: a session has been established *)
| OpStop.   (* keepaliveStop: Disconnect, or the receiver when the connection is over *)
Definition client_op (st : list bool) (o : cop) : list bool :=
  match o, st with
  | OpNew, _ => false :: st
  | OpStop, [] => []                 (* no connection yet: Disconnect finds no closer *)
  | OpStop, _ :: t => true :: t      (* the guard belongs to THIS channel: closed now if it was not *)
  end.
Definition client_quits (st : list bool) (ops : list cop) : list bool := fold_left client_op ops st.
(* a history of sessions on one client: session k is established, and ended with 1 + n_k requests to stop its
   keep-alive (Disconnect and the receiver may both ask) *)
Definition session_ops (n : nat) : list cop := OpNew :: repeat OpStop (S n).
Definition history_ops (h : list nat) : list cop := flat_map session_ops h.
(* is the quit channel of the k-th session (0-based, in order of establishment) closed? *)
Definition quit_closed (st : list bool) (k : nat) : bool := nth k (rev st) false.
