(* Model of stanza.NewJid / Jid.Full / Jid.Bare / isUsernameValid / isDomainValid
   (stanza/jid.go).  Strings are lists of UNITS, Go's own reading of a byte string
   (for range / utf8.DecodeRune): a Unicode code point for each well-formed UTF-8
   sequence, and 0x110000 + b for each byte b that is not part of one (Go's rune
   functions see U+FFFD there; the unit keeps the byte so that nothing is lost: the
   map is a bijection between byte strings and the unit lists it produces, and it
   commutes with cutting at / joining with the ASCII bytes '@' and '/', which are never
   part of a longer sequence - so Go's byte-level SplitN, the rune-level
   strings.IndexFunc and byte concatenation in Full/Bare see the same pieces as
   split_first, none_invalid and ++ here).  is_invalid is false on every unit
   >= 0x110000, as it is on U+FFFD (Proofs/JidP.v high_unit_ok).
   Executable definitions only.

   Full is modelled as REPAIRED (finding D4): a domain JID with a resource renders
   as domain "/" resource (the unrepaired code wrote j.Node, i.e. "", for the domain). *)
From Coq Require Import List NArith Bool.
From XV Require Import Lib.Sx Gen.Generated.
Import ListNotations.
Open Scope N_scope.

Definition c_at : N := 64.      (* '@' *)
Definition c_slash : N := 47.   (* '/' *)

(* invalidRunes of isUsernameValid: at, slash, apostrophe, double quote, colon, less-than,
   greater-than, ampersand - the eight characters RFC 7622 section 3.3.1 forbids in a
   localpart.  REPAIRED (hunt finding C15/f1): the unrepaired list lacked the ampersand. *)
Definition local_forbidden : list N := [64; 47; 39; 34; 58; 60; 62; 38].
(* invalidRunes of isDomainValid: at, slash, apostrophe, double quote, less-than, greater-than,
   ampersand.  REPAIRED (hunt finding C15/f2): the unrepaired list held only at and slash,
   so the five characters that are special in XML were accepted in a domain (and the
   domain is what the transports write into the stream header).  The colon stays
   legal: IPv6 literals. *)
Definition domain_forbidden : list N := [64; 47; 39; 34; 60; 62; 38].

Definition mem (c : N) (l : list N) : bool := existsb (N.eqb c) l.

(* unicode.IsSpace: the table dumped from Go itself on every run *)
Definition is_space (c : N) : bool := mem c Generated.unicode_space.

(* isInvalid(invalidRunes) *)
Definition is_invalid (forbidden : list N) (c : N) : bool :=
  if is_space c then true else mem c forbidden.

(* strings.IndexFunc(s, f) < 0 *)
Definition none_invalid (forbidden : list N) (s : str) : bool :=
  forallb (fun c => negb (is_invalid forbidden c)) s.

Definition is_empty (s : str) : bool := match s with [] => true | _ => false end.

Definition username_valid (s : str) : bool := none_invalid local_forbidden s.
Definition domain_valid (s : str) : bool :=
  if is_empty s then false else none_invalid domain_forbidden s.

(* strings.SplitN(s, c, 2): None = one piece (no separator), Some (a, b) = two
   pieces, split at the FIRST occurrence of c. *)
Fixpoint split_first (c : N) (s : str) : option (str * str) :=
  match s with
  | [] => None
  | x :: s' =>
      if N.eqb x c then Some ([], s')
      else match split_first c s' with
           | None => None
           | Some (a, b) => Some (x :: a, b)
           end
  end.

Record jid := mkJid { node : str; domain : str; resource : str }.

(* Go returns the partially filled *Jid together with the error; only err/ok is
   observable here, and the three parts when ok. *)
Inductive result := Ok (j : jid) | Err.

(* second half of NewJid: peel the resource off the domain field, validate *)
Definition finish (nd dom : str) : result :=
  let '(d, r) := match split_first c_slash dom with
                 | None => (dom, [])
                 | Some (d, r) => (d, r)
                 end in
  if negb (username_valid nd) then Err
  else if negb (domain_valid d) then Err
  else Ok (mkJid nd d r).

Definition new_jid (s : str) : result :=
  if is_empty s then Err
  else match split_first c_at s with
       | None => finish [] s                      (* server or component JID *)
       | Some (l, rest) =>
           if is_empty l then Err                 (* "invalid jid" *)
           else if is_empty rest then Err         (* "domain cannot be empty" *)
           else finish l rest
       end.

Definition bare (j : jid) : str :=
  if is_empty (node j) then domain j
  else node j ++ [c_at] ++ domain j.

Definition full (j : jid) : str :=
  if is_empty (resource j) then bare j
  else if is_empty (node j) then domain j ++ [c_slash] ++ resource j   (* repaired, D4 *)
  else node j ++ [c_at] ++ domain j ++ [c_slash] ++ resource j.

Definition strip_resource (j : jid) : jid := mkJid (node j) (domain j) [].

(* ---- histories: several calls in one process, with callers assigning to the exported
   fields of the Jid values they were handed ----
   A *Jid returned by NewJid belongs to its caller.  The heap below holds those values
   (one slot per step of the history; None where the step returned no Jid); HMut is the
   caller's assignment to a field of the value an earlier step returned; HPar is a group of
   goroutines, one per string, each parsing its string [rounds] times (and scribbling on
   its own result in between, which the model has no need to represent: the values are
   the callers').  A parse never reads the heap: its observation is new_jid of its
   argument (Proofs/JidP.v run_hist_pure; Props/C15.v C15_history_independent). *)
Inductive jfield := FNode | FDomain | FResource.

Inductive hstep :=
| HParse (s : str)
| HMut (k : nat) (f : jfield) (v : str)
| HPar (ss : list str) (rounds : nat).

Inductive hobs :=
| OParse (r : result)
| OMut
| OPar (rs : list (list result)).

Definition set_field (f : jfield) (v : str) (j : jid) : jid :=
  match f with
  | FNode => mkJid v (domain j) (resource j)
  | FDomain => mkJid (node j) v (resource j)
  | FResource => mkJid (node j) (domain j) v
  end.

Fixpoint heap_update (heap : list (option jid)) (k : nat) (g : jid -> jid) : list (option jid) :=
  match heap, k with
  | [], _ => []
  | x :: t, O => option_map g x :: t
  | x :: t, S k' => x :: heap_update t k' g
  end.

Definition hist_step (heap : list (option jid)) (st : hstep) : list (option jid) * hobs :=
  match st with
  | HParse s =>
      let r := new_jid s in
      (heap ++ [match r with Ok j => Some j | Err => None end], OParse r)
  | HMut k f v => (heap_update heap k (set_field f v) ++ [None], OMut)
  | HPar ss n => (heap ++ [None], OPar (map (fun s => repeat (new_jid s) n) ss))
  end.

Fixpoint run_hist (heap : list (option jid)) (h : list hstep) : list hobs :=
  match h with
  | [] => []
  | st :: t => let '(heap', o) := hist_step heap st in o :: run_hist heap' t
  end.

(* what a step shows when nothing at all is remembered *)
Definition step_obs (st : hstep) : hobs :=
  match st with
  | HParse s => OParse (new_jid s)
  | HMut _ _ _ => OMut
  | HPar ss n => OPar (map (fun s => repeat (new_jid s) n) ss)
  end.
