(* Lower-case hexadecimal encoding of a byte string: encoding/hex.EncodeToString
   (hextable = "0123456789abcdef"; for each byte v: hextable[v>>4], hextable[v&0x0f]).
   Strings are lists of bytes.  Executable definitions only. *)
From Coq Require Import List NArith Bool.
From XV Require Import Lib.Sx.
Import ListNotations.
Open Scope N_scope.

(* hextable[n] for n < 16: '0'..'9' = 48..57, 'a'..'f' = 97..102 *)
Definition hex_digit (n : N) : N := if n <? 10 then 48 + n else 87 + n.

Definition hex_byte (b : N) : str := [hex_digit (b / 16); hex_digit (b mod 16)].

Definition hex (bs : str) : str := flat_map hex_byte bs.

(* the output alphabet [0-9a-f] *)
Definition is_lower_hex (c : N) : bool :=
  ((48 <=? c) && (c <=? 57)) || ((97 <=? c) && (c <=? 102)).

Definition is_byte (b : N) : bool := b <? 256.
