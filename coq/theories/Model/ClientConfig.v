(* Model of what xmpp.NewClient (client.go) derives from the CONFIGURED JID STRING and hands
   to the negotiation: the local part given to authSASL (session.go: o.parsedJid.Node),
   the resource asked for in <bind/> (o.parsedJid.Resource) and the domain the transport
   writes into the stream header (TransportConfiguration.Domain, which falls back to
   parsedJid.Domain when it is not configured).

   Model/Jid.v reads a Go string as UNITS (a code point per well-formed UTF-8 sequence,
   0x110000 + b for a byte b outside one); Model/Sasl.v works on BYTES.  [bytes_of] is
   the way back: the UTF-8 bytes of every code point, the byte itself for a stray one.
   The correspondence check hands the model Go's own reading of the configured string
   as units and compares [bytes_of] of it with the string's bytes, so the bridge is
   exercised on every case.  Executable definitions only. *)
From Coq Require Import List NArith Bool.
From XV Require Import Lib.Sx Model.Jid Model.Base64 Model.Sasl.
Import ListNotations.
Open Scope N_scope.

(* utf8.AppendRune for a code point; the kept byte for a unit >= 0x110000 *)
Definition enc_unit (u : N) : str :=
  if u <? 128 then [u]
  else if u <? 2048 then [192 + u / 64; 128 + u mod 64]
  else if u <? 65536 then [224 + u / 4096; 128 + (u / 64) mod 64; 128 + u mod 64]
  else if u <? 1114112 then
    [240 + u / 262144; 128 + (u / 4096) mod 64; 128 + (u / 64) mod 64; 128 + u mod 64]
  else [u - 1114112].

Definition bytes_of (s : str) : str := flat_map enc_unit s.

(* the units Go's decoding can produce: code points, and stray bytes (always >= 0x80) *)
Definition unit_ok (u : N) : bool := (u <? 1114112) || ((1114240 <=? u) && (u <? 1114368)).
Definition units_ok (s : str) : bool := forallb unit_ok s.

Record parts := mkParts { p_local : str; p_domain : str; p_resource : str }.   (* bytes *)

(* NewClient: "missing jid" when NewJid refuses, "missing credential" for an empty secret;
   cfg_domain is TransportConfiguration.Domain as configured (empty = not configured) *)
Definition new_client (jid cfg_domain secret : str) : option parts :=
  match new_jid jid with
  | Jid.Err => None
  | Jid.Ok j =>
      if is_empty secret then None
      else Some (mkParts (bytes_of (node j))
                         (if is_empty cfg_domain then bytes_of (domain j) else cfg_domain)
                         (bytes_of (resource j)))
  end.

(* the character data of the <auth/> a client configured like this writes for PLAIN / X-OAUTH2 *)
Definition config_plain_payload (jid cfg_domain secret : str) : option str :=
  match new_client jid cfg_domain secret with
  | Some p => Some (plain_payload (p_local p) secret)
  | None => None
  end.

(* ---- the specification side, on the BYTES of the configured string ---- *)
(* what stands before the first '@' (nothing when there is no '@') *)
Definition local_bytes (b : str) : str :=
  match split_first c_at b with Some (l, _) => l | None => [] end.
(* what follows the first '@' (everything when there is no '@') *)
Definition after_at (b : str) : str :=
  match split_first c_at b with Some (_, r) => r | None => b end.
(* of that, what stands before / after the first '/' *)
Definition domain_bytes (b : str) : str :=
  match split_first c_slash (after_at b) with Some (d, _) => d | None => after_at b end.
Definition resource_bytes (b : str) : str :=
  match split_first c_slash (after_at b) with Some (_, r) => r | None => [] end.
