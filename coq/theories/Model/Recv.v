(* Model of the receive loops: Client.recv (client.go) and Component.recv
   (component.go), over an abstract alphabet of inbound top-level elements.
   The list of items is what arrives COMPLETE before the connection is lost;
   the end of the list is the cut (NextPacket returns an error).
   Executable definitions only. *)
From Coq Require Import List ZArith NArith Bool.
From XV Require Import Lib.Sx.
Import ListNotations.
Open Scope N_scope.

Inductive kind := KMsg | KPres | KIq.

Inductive item :=
| IStanza (k : kind) (id : N)   (* <message/>, <presence/>, <iq/> *)
| ISmR                          (* <r xmlns='urn:xmpp:sm:3'/> *)
| ISmA (h : N)                  (* <a h='..'/> *)
| INonza (tag : N)              (* any other element NextPacket decodes: features, enabled, resumed, failed, SASL, handshake *)
| IStreamError (tag : N)        (* <stream:error/> *)
| IClose                        (* </stream:stream> *)
| IBad.                         (* element NextPacket rejects: unknown namespace or name, malformed XML *)

Definition is_stanza (i : item) : bool :=
  match i with IStanza _ _ => true | _ => false end.

(* what the receive goroutine itself does, in program order *)
Inductive action :=
| ARouteSync (i : item)     (* router.route called synchronously *)
| ARouteAsync (i : item)    (* go router.route(...) *)
| AWrite (h : N)            (* <a h='h'/> written successfully *)
| AWriteFail (h : N)        (* the write of <a h='h'/> failed *)
| AErrCall                  (* ErrorHandler(err) *)
| AEvDisconnected (inb : N) (* Disconnected event carrying SMState (Inbound shown) *)
| AEvStreamError
| ADisconnectCall           (* c.Disconnect() -> transport.Close() *)
| ARecvStreamClose          (* transport.ReceivedStreamClose() *)
| AQuit.                    (* the client's keepaliveQuit is closed BY NOW AT THE LATEST (after a stream error it has been
                               closed already when that error was reported): before it reports the loss (the Disconnected handler of a
                               StreamManager only returns once a new session is up); the component: loop returned *)

(* Client.recv.  inb: SMState.Inbound; nw: number of transport writes made so far
   by this loop; wfail: the (1-based) write that fails, if any. *)
Fixpoint crecv (inb : N) (nw : nat) (wfail : option nat) (items : list item) : list action :=
  match items with
  | [] => [AQuit; AErrCall; AEvDisconnected inb]
  | i :: rest =>
      match i with
      | IBad => [AQuit; AErrCall; AEvDisconnected inb]
      | IStreamError _ =>
          (* routed once, synchronously; then the stream-error event, the error callback and Disconnect;
             the loop goes on reading until the connection is gone *)
          ARouteSync i :: AEvStreamError :: AErrCall :: ADisconnectCall :: crecv inb nw wfail rest
      | ISmR =>
          (* an answer that cannot be written (the connection is going away) does not end the loop: what was
             received before the loss is still in the buffers and is processed; the read side reports the loss *)
          (if match wfail with Some k => Nat.eqb k (S nw) | None => false end
           then AWriteFail inb else AWrite inb) :: ARouteAsync i :: crecv inb (S nw) wfail rest
      | IClose => [ARecvStreamClose; AQuit; AEvDisconnected inb]
      | IStanza _ _ => ARouteAsync i :: crecv (inb + 1) nw wfail rest
      | ISmA _ | INonza _ => ARouteAsync i :: crecv inb nw wfail rest
      end
  end.

(* Component.recv: no stream management, synchronous routing; on error the state
   change comes before the error callback. *)
Fixpoint precv (items : list item) : list action :=
  match items with
  | [] => [AEvDisconnected 0; AErrCall; AQuit]
  | i :: rest =>
      match i with
      | IBad => [AEvDisconnected 0; AErrCall; AQuit]
      | IStreamError _ =>
          ARouteSync i :: AEvStreamError :: AErrCall :: ADisconnectCall :: precv rest
      | IClose => [ARecvStreamClose; AQuit]
      | _ => ARouteSync i :: precv rest
      end
  end.

(* ---- declarative side: what "completely received before the loop ended" means ---- *)
(* items processed before the loop stops: up to the first IBad / IClose (a failing answer
   write does not stop it; [nw] and [wfail] are kept as parameters for the statements) *)
Fixpoint processed (nw : nat) (wfail : option nat) (items : list item) : list item :=
  match items with
  | [] => []
  | IBad :: _ => []
  | IClose :: _ => []
  | ISmR :: rest => ISmR :: processed (S nw) wfail rest
  | i :: rest => i :: processed nw wfail rest
  end.
Fixpoint pprocessed (items : list item) : list item :=
  match items with
  | [] => []
  | IBad :: _ => []
  | IClose :: _ => []
  | i :: rest => i :: pprocessed rest
  end.

Definition routed (tr : list action) : list item :=
  flat_map (fun a => match a with ARouteSync i | ARouteAsync i => [i] | _ => [] end) tr.
Definition answers (tr : list action) : list N :=
  flat_map (fun a => match a with AWrite h => [h] | _ => [] end) tr.
(* every answer the loop wrote or tried to write, in order *)
Definition attempted (tr : list action) : list N :=
  flat_map (fun a => match a with AWrite h | AWriteFail h => [h] | _ => [] end) tr.
Definition count_stanzas (l : list item) : N := N.of_nat (length (filter is_stanza l)).
Definition count_act (p : action -> bool) (tr : list action) : nat := length (filter p tr).
Definition is_err a := match a with AErrCall => true | _ => false end.
Definition is_disc a := match a with AEvDisconnected _ => true | _ => false end.
Definition is_quit a := match a with AQuit => true | _ => false end.

(* the keepalive is told to stop before the loss is reported *)
Fixpoint quit_before_disc (tr : list action) : bool :=
  match tr with
  | [] => false
  | AQuit :: _ => true
  | AEvDisconnected _ :: _ => false
  | _ :: r => quit_before_disc r
  end.
(* nothing is routed, answered or written once the quit channel is closed *)
Fixpoint quiet_after_quit (tr : list action) : bool :=
  match tr with
  | [] => true
  | AQuit :: r => forallb (fun a => match a with AErrCall | AEvDisconnected _ => true | _ => false end) r
  | _ :: r => quiet_after_quit r
  end.

(* expected answers: for each <r/> among the processed items, the number of stanzas
   before it (plus the count the session started with) *)
Fixpoint expected_answers (inb : N) (l : list item) : list N :=
  match l with
  | [] => []
  | ISmR :: rest => inb :: expected_answers inb rest
  | IStanza _ _ :: rest => expected_answers (inb + 1) rest
  | _ :: rest => expected_answers inb rest
  end.

(* how the loop ended *)
Definition ends_by_close (nw : nat) (wfail : option nat) (items : list item) : bool :=
  match skipn (length (processed nw wfail items)) items with
  | IClose :: _ => true
  | _ => false
  end.
