(* Model of the receive loops: Client.recv (client.go) and Component.recv
   (component.go), over an abstract alphabet of inbound top-level elements.
   The list of items is what arrives COMPLETE before the connection is lost;
   the end of the list is the cut (NextPacket returns an error).
   Executable definitions only (plus the declarative predicates the theorems are
   stated against). *)
From Coq Require Import List ZArith NArith Bool.
From XV Require Import Lib.Sx.
Import ListNotations.
Open Scope N_scope.

Inductive kind := KMsg | KPres | KIq.

Inductive item :=
| IStanza (k : kind) (id : N)   (* <message/>, <presence/>, <iq/> *)
| ISmR                          (* <r xmlns='urn:xmpp:sm:3'/> *)
| ISmA (h : N)                  (* <a h='..'/> *)
| INonza (tag : N)              (* any other element NextPacket decodes: features, enabled, resumed, failed, SASL, handshake *)
| IStreamError (tag : N)        (* <stream:error/> *)
| IClose                        (* </stream:stream> *)
| IBad.                         (* element NextPacket rejects: unknown namespace or name, malformed XML *)

Definition is_stanza (i : item) : bool :=
  match i with IStanza _ _ => true | _ => false end.
Definition is_serr (i : item) : bool :=
  match i with IStreamError _ => true | _ => false end.
Definition is_r (i : item) : bool := match i with ISmR => true | _ => false end.

(* what the receive goroutine itself does, in program order *)
Inductive action :=
| ARouteSync (i : item)     (* router.route called synchronously *)
| ARouteAsync (i : item)    (* go router.route(...) *)
| AWrite (h : N)            (* <a h='h'/> written successfully *)
| AWriteFail (h : N)        (* the write of <a h='h'/> failed *)
| AErrCall                  (* ErrorHandler(err) *)
| AEvDisconnected (inb : N) (* Disconnected event carrying the session's SMState (its Inbound shown; Id and queue are the
                               session's own: the correspondence compares them with what the session held) *)
| AEvStreamError
| ADisconnectCall           (* c.Disconnect() -> transport.Close() *)
| ARecvStreamClose          (* transport.ReceivedStreamClose() *)
| AQuit.                    (* client: keepaliveQuit is closed HERE (the first stopKeepalive(); later calls do nothing):
                               at the first stream error BEFORE it is routed and reported (client.go:528), otherwise
                               when the loop ends, before the loss is reported (client.go:518, :557).
                               component (no keepalive): the loop has returned *)

(* what the loop does when NextPacket returns an error: stop the keepalive (if that has not happened yet),
   error callback, Disconnected event with the session's state, return *)
Definition report_loss (stopped : bool) (inb : N) : list action :=
  (if stopped then [] else [AQuit]) ++ [AErrCall; AEvDisconnected inb].
(* a stream error whose StreamError event handler has REPLACED the connection by the time it returns (a
   StreamManager reconnects from inside that handler, stream_manager.go:84-90): the transport then holds
   another decoder and belongs to the new session.  The same as any stream error up to the error callback;
   then the loop returns (client.go:532-537), without Disconnect (it would close the NEW session) and
   without a Disconnected event *)
Definition hand_over (tag : N) (stopped : bool) (inb : N) : list action :=
  (if stopped then [] else [AQuit]) ++ [ARouteSync (IStreamError tag); AEvStreamError; AErrCall].

(* Client.recv on [items], then [fin] (what happens when the items are used up).
   stopped: keepaliveQuit already closed; inb: SMState.Inbound; nw: number of transport writes made so
   far by this loop; wf k: the k-th (1-based) write of this loop fails. *)
Fixpoint crecv_k (fin : bool -> N -> list action)
    (stopped : bool) (inb : N) (nw : nat) (wf : nat -> bool) (items : list item) : list action :=
  match items with
  | [] => fin stopped inb
  | i :: rest =>
      match i with
      | IBad => report_loss stopped inb
      | IStreamError _ =>
          (* this connection is over and so is its keepalive; routed once, synchronously; then the stream-error
             event, the error callback and Disconnect; the loop goes on reading until the connection is gone *)
          (if stopped then [] else [AQuit]) ++
          ARouteSync i :: AEvStreamError :: AErrCall :: ADisconnectCall :: crecv_k fin true inb nw wf rest
      | ISmR =>
          (* an answer that cannot be written (the connection is going away) does not end the loop: what was
             received before the loss is still in the buffers and is processed; the read side reports the loss *)
          (if wf (S nw) then AWriteFail inb else AWrite inb) :: ARouteAsync i :: crecv_k fin stopped inb (S nw) wf rest
      | IClose => ARecvStreamClose :: (if stopped then [] else [AQuit]) ++ [AEvDisconnected inb]
      | IStanza _ _ => ARouteAsync i :: crecv_k fin stopped (inb + 1) nw wf rest
      | ISmA _ | INonza _ => ARouteAsync i :: crecv_k fin stopped inb nw wf rest
      end
  end.
(* the connection is lost behind [items] (the handlers of the application leave the connection alone) *)
Definition crecv_from : bool -> N -> nat -> (nat -> bool) -> list item -> list action := crecv_k report_loss.
Definition crecv : N -> nat -> (nat -> bool) -> list item -> list action := crecv_from false.
(* [items], then a stream error whose handler replaces the connection (what is behind it on the old
   connection is nobody's any more) *)
Definition crecv_handover (tag : N) : N -> nat -> (nat -> bool) -> list item -> list action :=
  crecv_k (hand_over tag) false.

(* write-fault oracles: none; exactly the k-th write; every write from the k-th on (what a connection
   that is going away does) *)
Definition no_fault : nat -> bool := fun _ => false.
Definition fault_at (k : nat) : nat -> bool := Nat.eqb k.
Definition fault_from (k : nat) : nat -> bool := fun n => Nat.leb k n.

(* Component.recv: no stream management, synchronous routing; on error the state
   change comes before the error callback; a stream closed by the server is a disconnection like any
   other (no error).  A receiver serves ONE connection (the transport it was started with); [fin]: what
   happens when the items are used up. *)
Definition preport_loss : list action := [AEvDisconnected 0; AErrCall; AQuit].
(* a stream error whose handler has replaced the component's transport (Disconnect and Resume from inside the
   handler): as for the client, the loop leaves the new connection alone and returns *)
Definition phand_over (tag : N) : list action :=
  [ARouteSync (IStreamError tag); AEvStreamError; AErrCall; AQuit].
Fixpoint precv_k (fin : list action) (items : list item) : list action :=
  match items with
  | [] => fin
  | i :: rest =>
      match i with
      | IBad => preport_loss
      | IStreamError _ =>
          ARouteSync i :: AEvStreamError :: AErrCall :: ADisconnectCall :: precv_k fin rest
      | IClose => [ARecvStreamClose; AEvDisconnected 0; AQuit]
      | _ => ARouteSync i :: precv_k fin rest
      end
  end.
Definition precv : list item -> list action := precv_k preport_loss.
Definition precv_handover (tag : N) : list item -> list action := precv_k (phand_over tag).

(* ---- declarative side: what "completely received before the loop ended" means ---- *)
(* elements at which the loops stop WITHOUT processing them *)
Definition stops (i : item) : bool := match i with IBad | IClose => true | _ => false end.

(* [p] is what a loop processes of [items]: the longest prefix without a stopping element *)
Definition is_processed_prefix (items p : list item) : Prop :=
  exists rest, items = p ++ rest /\
    (forall i, In i p -> stops i = false) /\
    (rest = [] \/ exists i r, rest = i :: r /\ stops i = true).

(* computed (RecvP: processed_is_prefix, processed_unique: it is THE list with that property);
   neither the write faults nor the number of writes have a say in it *)
Fixpoint processed (items : list item) : list item :=
  match items with
  | [] => []
  | i :: rest => if stops i then [] else i :: processed rest
  end.
(* nothing in [items] stops the loop: it comes to the end of them *)
Definition reaches_end (items : list item) : bool := forallb (fun i => negb (stops i)) items.

(* how the loop ended *)
Inductive ending :=
| EndCut          (* read error: the input was used up *)
| EndRejected     (* NextPacket rejected an element *)
| EndClosed.      (* </stream:stream> *)
Fixpoint how_ended (items : list item) : ending :=
  match items with
  | [] => EndCut
  | IBad :: _ => EndRejected
  | IClose :: _ => EndClosed
  | _ :: rest => how_ended rest
  end.
Definition ends_by_close (items : list item) : bool :=
  match how_ended items with EndClosed => true | _ => false end.

Definition routed (tr : list action) : list item :=
  flat_map (fun a => match a with ARouteSync i | ARouteAsync i => [i] | _ => [] end) tr.
Definition routed_async (tr : list action) : list item :=
  flat_map (fun a => match a with ARouteAsync i => [i] | _ => [] end) tr.
Definition routed_sync (tr : list action) : list item :=
  flat_map (fun a => match a with ARouteSync i => [i] | _ => [] end) tr.
Definition answers (tr : list action) : list N :=
  flat_map (fun a => match a with AWrite h => [h] | _ => [] end) tr.
(* every answer the loop wrote or tried to write, in order *)
Definition attempted (tr : list action) : list N :=
  flat_map (fun a => match a with AWrite h | AWriteFail h => [h] | _ => [] end) tr.
Definition count_stanzas (l : list item) : N := N.of_nat (length (filter is_stanza l)).
Definition count_act (p : action -> bool) (tr : list action) : nat := length (filter p tr).
Definition is_err a := match a with AErrCall => true | _ => false end.
Definition is_disc a := match a with AEvDisconnected _ => true | _ => false end.
Definition is_quit a := match a with AQuit => true | _ => false end.
(* application code entered ON the receive goroutine (it may take as long as it likes: the Disconnected and
   StreamError handlers of a StreamManager return only when a new session is up) *)
Definition is_callback a :=
  match a with ARouteSync _ | AErrCall | AEvDisconnected _ | AEvStreamError => true | _ => false end.
(* what the loop does while the session is up *)
Definition is_live a :=
  match a with ARouteAsync _ | AWrite _ | AWriteFail _ | ARecvStreamClose => true | _ => false end.

(* the keepalive is told to stop before the loss is reported *)
Fixpoint quit_before_disc (tr : list action) : bool :=
  match tr with
  | [] => false
  | AQuit :: _ => true
  | AEvDisconnected _ :: _ => false
  | _ :: r => quit_before_disc r
  end.
(* ... before ANY application callback is entered on the receive goroutine *)
Fixpoint quit_before_callbacks (tr : list action) : bool :=
  match tr with
  | [] => false
  | AQuit :: _ => true
  | a :: r => negb (is_callback a) && quit_before_callbacks r
  end.
(* nothing is routed, answered or written once the quit channel is closed: only the loss is reported.
   (NOT true after a stream error: see RecvP.crecv_quiet_without_stream_error / crecv_quit_position) *)
Fixpoint quiet_after_quit (tr : list action) : bool :=
  match tr with
  | [] => true
  | AQuit :: r => forallb (fun a => match a with AErrCall | AEvDisconnected _ => true | _ => false end) r
  | _ :: r => quiet_after_quit r
  end.

(* the elements before the first stream error, and from it on *)
Fixpoint before_serr (l : list item) : list item :=
  match l with
  | [] => []
  | i :: r => if is_serr i then [] else i :: before_serr r
  end.
Fixpoint from_serr (l : list item) : list item :=
  match l with
  | [] => []
  | i :: r => if is_serr i then i :: r else from_serr r
  end.

(* expected answers: for each <r/> among the processed items, the number of stanzas
   before it (plus the count the session started with) *)
Fixpoint expected_answers (inb : N) (l : list item) : list N :=
  match l with
  | [] => []
  | ISmR :: rest => inb :: expected_answers inb rest
  | IStanza _ _ :: rest => expected_answers (inb + 1) rest
  | _ :: rest => expected_answers inb rest
  end.
(* of the answers attempted (the first of them being write number [first] of the loop), those the transport took *)
Definition written (wf : nat -> bool) (first : nat) (att : list N) : list N :=
  map snd (filter (fun p => negb (wf (fst p))) (combine (seq first (length att)) att)).
