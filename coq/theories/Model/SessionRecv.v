(* A history of connections on one Client together with what the receive loop does on
   each established session: Model/Session.v ([client_connect]) composed with
   Model/Recv.v ([crecv]).  The count the Client holds after a session is NOT computed
   here: it is read from the Disconnected event with which the receive loop ends (the
   loop is started with the count the negotiation left, [p_inbound]).
   Executable definitions only. *)
From Coq Require Import List ZArith NArith Bool.
From XV Require Import Lib.Sx Model.Session Model.Recv.
Import ListNotations.
Open Scope N_scope.

(* one connection: dial / TLS outcome, the server's negotiation script, then the elements
   that arrive completely before the connection is lost, and the answer write that fails *)
Record tconn := {
  t_dial : bool; t_tls : bool; t_script : list sitem;
  t_items : list item; t_wf : nat -> bool }.

(* the count handed on when the loop ends: Inbound of the SMState carried by its
   Disconnected event (client.go: c.disconnected(c.Session.SMState)) *)
Fixpoint lost_with (tr : list action) : option N :=
  match tr with
  | [] => None
  | AEvDisconnected n :: _ => Some n
  | _ :: tr' => lost_with tr'
  end.

Definition set_inbound (p : persist) (n : N) : persist :=
  {| p_has_session := p_has_session p; p_sm_id := p_sm_id p; p_inbound := n;
     p_has_queue := p_has_queue p; p_sm_enable := p_sm_enable p; p_bind_jid := p_bind_jid p;
     p_packet_id := p_packet_id p; p_code_secure := p_code_secure p; p_tls_enabled := p_tls_enabled p;
     p_resume_refused := p_resume_refused p |}.

Fixpoint run_full (cfg : config) (p : persist) (xs : list tconn)
  : list (list out * result * persist * list cev * list action) :=
  match xs with
  | [] => []
  | x :: xs' =>
      let '(w, r, p1, ev) := client_connect cfg (t_dial x) (t_tls x) p (t_script x) in
      match r with
      | Ok =>
          let tr := crecv (p_inbound p1) 0 (t_wf x) (t_items x) in
          let p2 := match lost_with tr with Some n => set_inbound p1 n | None => p1 end in
          (w, r, p2, ev, tr) :: run_full cfg p2 xs'
      | Err _ _ => (w, r, p1, ev, []) :: run_full cfg p1 xs'
      end
  end.

(* the same history with the traffic of each connection reduced to a number: the stanzas
   among what the loop processed *)
Definition traffic_of (x : tconn) : N := count_stanzas (processed (t_items x)).
Definition conn_of (x : tconn) : conn :=
  {| k_dial := t_dial x; k_tls := t_tls x; k_script := t_script x; k_traffic := traffic_of x |}.
