(* Token / tree level of encoding/xml as the stanza decoders see it (C02).
   Executable definitions only.

   Strings are UTF-8 BYTES (str = list N, every element < 256).
   Names are (namespace, local) with the namespace already RESOLVED, as Go's
   xml.Decoder delivers them in xml.Name{Space, Local}.  An attribute is
   (name, value); un-prefixed attributes have the empty namespace.

   token  = what d.Token() returns: StartElement, EndElement, CharData, and
            TMisc for Comment / ProcInst / Directive (never looked at by the code).
   node   = a well-formed piece of content; an element is [NElem name attrs children].
   flatten: the token sequence Go's decoder produces for a node (Appendix B.4).
   take_from / skip: d.Skip() and DecodeElement into a tag-driven struct, seen as
            consumption of the rest of the current element on the token cursor
            (depth counting on start/end tokens, exactly as Decoder.Skip does). *)
From Coq Require Import List ZArith NArith Bool String Ascii.
From XV Require Import Lib.Sx.
Import ListNotations.

Definition bytes_of (s : string) : str :=
  map (fun c => N.of_nat (nat_of_ascii c)) (list_ascii_of_string s).

Definition name := (str * str)%type.
Definition attr := (name * str)%type.

Definition name_eqb (a b : name) : bool :=
  str_eqb (fst a) (fst b) && str_eqb (snd a) (snd b).

Inductive token :=
| TStart (n : name) (a : list attr)
| TEnd (n : name)
| TText (s : str)
| TMisc.

Inductive node :=
| NElem (n : name) (a : list attr) (cs : list node)
| NText (s : str)
| NMisc.

Fixpoint flatten (x : node) : list token :=
  match x with
  | NElem n a cs =>
      TStart n a ::
      (fix fl (l : list node) : list token :=
         match l with [] => [] | c :: l' => flatten c ++ fl l' end) cs
      ++ [TEnd n]
  | NText s => [TText s]
  | NMisc => [TMisc]
  end.

Definition flatten_all (l : list node) : list token := flat_map flatten l.

(* prefix a consumed token list to a (consumed, rest) result *)
Definition pre (p : list token) (o : option (list token * list token))
  : option (list token * list token) :=
  match o with Some (i, r) => Some (p ++ i, r) | None => None end.

(* The cursor stands just after a start tag, [depth] elements deeper than the
   element to be finished.  Returns (tokens of the content, cursor after the
   matching end tag); None = the input ended first (Go: an error from Token). *)
Fixpoint take_from (depth : nat) (ts : list token)
  : option (list token * list token) :=
  match ts with
  | [] => None
  | TStart n a :: r => pre [TStart n a] (take_from (S depth) r)
  | TEnd n :: r =>
      match depth with
      | O => Some ([], r)
      | S d => pre [TEnd n] (take_from d r)
      end
  | t :: r => pre [t] (take_from depth r)
  end.

Definition take_subtree (ts : list token) := take_from 0 ts.

(* d.Skip() / DecodeElement into a tag-driven struct / into Node *)
Definition skip (ts : list token) : option (list token) :=
  match take_subtree ts with Some (_, r) => Some r | None => None end.

(* direct child start tags of a content token list (depth 0 only) *)
Fixpoint direct_starts (depth : nat) (ts : list token) : list (name * list attr) :=
  match ts with
  | [] => []
  | TStart n a :: r =>
      match depth with
      | O => (n, a) :: direct_starts 1 r
      | S _ => direct_starts (S depth) r
      end
  | TEnd _ :: r => direct_starts (pred depth) r
  | _ :: r => direct_starts depth r
  end.
