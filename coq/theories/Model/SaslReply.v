(* What authPlain makes of the element the server answers <auth/> with: stanza.NextPacket
   classifies a complete, well-formed top-level element by its expanded name
   (Model/Parser.v, [classify]); authPlain then switches on the packet type.  A truncated
   or malformed element is a read error whatever its name and is not described here.
   Executable definitions only. *)
From Coq Require Import List NArith Bool.
From XV Require Import Lib.Sx Model.Sasl.
From XV Require Model.Parser Model.Session.
Import ListNotations.

Definition reply_of_name (n : str * str) (reason : str) : reply :=
  match Parser.classify n with
  | inl (Parser.TKTagged Parser.PSaslSuccess _) => RSuccess
  | inl (Parser.TKTagged Parser.PSaslFailure _) => RFailure reason
  | inl _ => ROther
  | inr _ => RReadErr
  end.

(* Session.v's reply alphabet at the <auth/> step *)
Definition is_success (s : list Session.sitem) : bool :=
  match s with Session.SSuccess :: _ => true | _ => false end.
Definition is_failure (s : list Session.sitem) : bool :=
  match s with Session.SSaslFailure :: _ => true | _ => false end.
