(* C10, concurrent senders, below the level of Model/Ack.v: the operations of Model/Ack.v cut into the
   instructions the goroutines really interleave - taking Client.sendMu, UnAckQueue.Push, the transport
   write, UnAckQueue.DropLast, the body of SendMissingStz, releasing the lock - with the lock as part of the
   state.  Any number of goroutines; one step = one instruction of one goroutine.  A session that holds
   (Config.StreamManagementEnable set); a new session (AEnabled) is not an operation here.
   Executable definitions and the step relation only; proofs in Proofs/AckLockP.v. *)
From Coq Require Import List ZArith NArith Bool Arith.
From XV Require Import Lib.Sx Model.Queue Model.Ack.
Import ListNotations.
Open Scope Z_scope.

Inductive micro :=
| MLock                      (* c.sendMu.Lock() *)
| MUnlock                    (* the deferred c.sendMu.Unlock() *)
| MPush (d : str)            (* session.SMState.UnAckQueue.Push(&toStore) *)
| MWrite (w : witem)         (* sendWithWriter: a write the transport takes *)
| MWriteFail                 (* ... a write it refuses *)
| MDrop                      (* held.DropLast() *)
| MAck (h : Z) (cut : option nat).   (* SendMissingStz between its locks and its writes: PopN(h - first.Id + 1); the
                                        goroutine then goes on with the writes of what is left (cut: up to the refused one) *)

(* the instructions of one operation, in program order (client.go Send/SendRaw/writeHeld, router.go SendMissingStz) *)
Definition prog (o : aop) : list micro :=
  match o with
  | ASend KStanza d | ASendRaw KStanza d => [MLock; MPush d; MWrite (WData d); MUnlock]
  | ASend KRequest _ | ASendRaw KRequest _ => [MLock; MWrite WRequest; MUnlock]
  | ASend KAnswer d | ASendRaw KAnswer d => [MLock; MWrite (WData d); MUnlock]
  | ARefused KStanza d => [MLock; MPush d; MWriteFail; MDrop; MUnlock]
  | ARefused _ _ => [MLock; MWriteFail; MUnlock]
  | AAck h => [MLock; MAck h None; MUnlock]
  | AAckRefused h j => [MLock; MAck h (Some j); MUnlock]
  | ASend KOther d | ASendRaw KOther d => [MLock; MWrite (WData d); MUnlock]
  | AFailedAttempt | AResumed => [MLock; MUnlock]   (* not sender code: nothing happens to queue and wire *)
  | AEnabled _ => [MLock; MUnlock]      (* not an operation of this model (excluded in the theorems) *)
  end.

(* the same code without the lock *)
Definition unlocked (p : list micro) : list micro :=
  filter (fun m => match m with MLock | MUnlock => false | _ => true end) p.

(* goroutines' remaining instructions, the queue object, the wire so far, the holder of sendMu *)
Definition gstate := (list (list micro) * (list (Z * str) * Z) * list witem * option nat)%type.

(* can goroutine i execute m now?  Lock blocks while the mutex is held; everything else is just code *)
Definition m_enabled (i : nat) (m : micro) (lock : option nat) : bool :=
  match m with
  | MLock => match lock with None => true | Some _ => false end
  | MUnlock => match lock with Some j => Nat.eqb i j | None => false end
  | _ => true
  end.

(* effect of m executed by goroutine i: instructions it continues with first, queue, what goes on the wire, lock *)
Definition m_effect (i : nat) (m : micro) (q : list (Z * str) * Z) (lock : option nat)
  : list micro * (list (Z * str) * Z) * list witem * option nat :=
  match m with
  | MLock => ([], q, [], Some i)
  | MUnlock => ([], q, [], None)
  | MPush d => ([], q_push q d, [], lock)
  | MWrite w => ([], q, [w], lock)
  | MWriteFail => ([], q, [], lock)
  | MDrop => ([], q_droplast q, [], lock)
  | MAck h cut =>
      let '(q', w) := q_ack q h in
      (map MWrite (match cut with None => w | Some j => firstn j w end), q', [], lock)
  end.

Inductive gstep : gstate -> gstate -> Prop :=
| gstep_one : forall pre m rest post q wire lock k q' w lock',
    m_enabled (length pre) m lock = true ->
    m_effect (length pre) m q lock = (k, q', w, lock') ->
    gstep (pre ++ (m :: rest) :: post, q, wire, lock) (pre ++ (k ++ rest) :: post, q', wire ++ w, lock').

Inductive greach : gstate -> gstate -> Prop :=
| greach_refl : forall g, greach g g
| greach_step : forall g1 g2 g3, gstep g1 g2 -> greach g2 g3 -> greach g1 g3.

Definition g_init (progs : list (list micro)) : gstate := (progs, q_init, [], None).

(* what the whole history w of Model/Ack.v puts on the wire *)
Definition wire_of (w : list aop) : list witem := concat (map fst (a_run a_init w)).
