(* Model of StreamManager.Run / connect / resume / Stop (stream_manager.go) together
   with Client.Connect / Client.Resume (client.go) as a state machine over the outcome
   of successive connection attempts and the fate of established sessions.
   Executable definitions only. *)
From Coq Require Import List ZArith NArith Bool.
From XV Require Import Lib.Sx.
Import ListNotations.

(* outcome of one connection attempt: what the network and the server do *)
Inductive attempt :=
| ARefused                 (* TCP connection refused / timed out: transient *)
| AFailTransient           (* negotiation fails with a non-permanent error *)
| AFailPermanent           (* rejected credentials, TLS policy failure: ConnError.Permanent *)
| AOk (resumed : bool).    (* session established: resumed or freshly bound *)

(* fate of an established session *)
Inductive term :=
| TDrop          (* abrupt loss: the receiver's read fails, Disconnected event *)
| TClose         (* </stream:stream> by the server: Disconnected event *)
| TStreamError   (* <stream:error/> by the server (any condition but conflict), then the stream and the
                    connection are closed: StreamError event; the manager disconnects and reconnects from
                    inside the handler, i.e. inside the receiver of the connection that is over *)
| TStop.         (* StreamManager.Stop *)

(* the terminations of an established connection the manager answers with a reconnection *)
Definition is_loss (t : term) : bool :=
  match t with TDrop | TClose | TStreamError => true | TStop => false end.

Inductive mev := EAttempt (a : attempt) | ETerm (t : term).

Inductive mphase :=
| MIdle        (* Run called, first connection not made yet *)
| MUp          (* a session is established; its receiver and keepalive run *)
| MRetry       (* resume(): retry loop with back-off *)
| MDead        (* retry loop ended by a permanent error; Run keeps waiting for Stop *)
| MReturned.   (* Run has returned *)

Record mst := {
  m_phase : mphase;
  m_sessions : nat;       (* sessions established so far *)
  m_resumed : nat;        (* of which resumed *)
  m_post : nat;           (* PostConnect invocations *)
  m_recv : nat;           (* receiver loops started (Connect and Resume each start one) *)
  m_failed : nat }.       (* failed attempts waited out with back-off *)

Definition m_init : mst :=
  {| m_phase := MIdle; m_sessions := 0; m_resumed := 0; m_post := 0; m_recv := 0; m_failed := 0 |}.

Definition up (s : mst) (resumed : bool) : mst :=
  {| m_phase := MUp; m_sessions := S (m_sessions s);
     m_resumed := (if resumed then S (m_resumed s) else m_resumed s);
     m_post := S (m_post s); m_recv := S (m_recv s); m_failed := m_failed s |}.
Definition phase (s : mst) (p : mphase) : mst :=
  {| m_phase := p; m_sessions := m_sessions s; m_resumed := m_resumed s; m_post := m_post s;
     m_recv := m_recv s; m_failed := m_failed s |}.
Definition failed (s : mst) : mst :=
  {| m_phase := m_phase s; m_sessions := m_sessions s; m_resumed := m_resumed s; m_post := m_post s;
     m_recv := m_recv s; m_failed := S (m_failed s) |}.

Definition m_step (s : mst) (e : mev) : mst :=
  match m_phase s, e with
  (* Run -> connect(): any failure of the first connection makes Run return the error *)
  | MIdle, EAttempt (AOk r) => up s r
  | MIdle, EAttempt _ => phase s MReturned
  (* established: a loss (Disconnected event, or StreamError event) enters resume() -- once: the
     receiver that reported a stream error ends when the handler has replaced its connection, it neither
     closes the transport again nor reads on (both would hit the NEW session); Stop makes Run return *)
  | MUp, ETerm TDrop | MUp, ETerm TClose | MUp, ETerm TStreamError => phase s MRetry
  | MUp, ETerm TStop => phase s MReturned
  (* resume(): loop until success or a permanent error *)
  | MRetry, EAttempt (AOk r) => up s r
  | MRetry, EAttempt AFailPermanent => phase s MDead
  | MRetry, EAttempt _ => failed s
  (* Stop also ends a dead or retrying manager's Run *)
  | MDead, ETerm TStop => phase s MReturned
  | _, _ => s
  end.

Definition m_run (s : mst) (es : list mev) : mst := fold_left m_step es s.

Definition is_fail (a : attempt) : bool :=
  match a with ARefused | AFailTransient => true | _ => false end.
